#!/usr/bin/env python3
"""basecheck.py <repo-dir> <pkg>... : run the pinned baseline tests (guard off, no tags) of the given packages in <repo-dir>
and report baseline stable_pass tests that do not pass."""
import json,subprocess,sys,os
repo=sys.argv[1]; pkgs=sys.argv[2:]
base=json.load(open('/root/.vp/BASELINE.json'))['stable_pass']
env=dict(os.environ,GOFLAGS='-mod=mod',GOPROXY='off')
bad=0
for pkg in pkgs:
    full='github.com/thanos-io/thanos/'+pkg.strip('./')
    want={x.split('::')[1] for x in base if x.split('::')[0]==full}
    p=subprocess.run(['go','test','-json','-vet=off','-count=1','-timeout','25m','./'+pkg.strip('./')],cwd=repo,env=env,stdout=subprocess.PIPE,stderr=subprocess.DEVNULL,text=True)
    res={}
    for l in p.stdout.splitlines():
        try: e=json.loads(l)
        except Exception: continue
        if e.get('Test') and e.get('Action') in ('pass','fail','skip'): res[e['Test']]=e['Action']
    missing=sorted(t for t in want if res.get(t)!='pass')
    print(pkg,'baseline',len(want),'passing now',len(want)-len(missing),'NOT PASSING',missing[:10])
    bad+=len(missing)
sys.exit(1 if bad else 0)
