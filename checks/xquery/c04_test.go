package xquery

// C04 Deduplicated queries return each logical series once with replica data.
// Full read path: generated chunk layouts in an in-memory TSDBReader -> real store.TSDBStore(s) ->
// real store.ProxyStore -> query.NewQueryableCreator(...).Querier().Select.
// Oracle (dedup on): one series per label set minus replica labels, samples == the logical samples
// in [mint,maxt] when all replicas hold identical samples, however they are cut into chunks and
// placed on stores. Oracle (dedup off): one series per replica with that replica's samples.

import (
	"context"
	"fmt"
	"math"
	"sort"
	"strings"
	"testing"
	"time"

	"github.com/prometheus/prometheus/model/labels"
	"github.com/prometheus/prometheus/storage"
	"github.com/prometheus/prometheus/tsdb/chunkenc"
	"github.com/prometheus/prometheus/tsdb/chunks"
	"github.com/prometheus/prometheus/util/annotations"
	"go.uber.org/atomic"
	"pgregory.net/rapid"

	"github.com/thanos-io/thanos/pkg/component"
	"github.com/thanos-io/thanos/pkg/dedup"
	"github.com/thanos-io/thanos/pkg/query"
	"github.com/thanos-io/thanos/pkg/store"
	"github.com/thanos-io/thanos/pkg/store/storepb"
	storetestutil "github.com/thanos-io/thanos/pkg/store/storepb/testutil"
	"github.com/thanos-io/thanos/verifx/kit"
)

const sigC04Overlap = "C04/overlapping-chunks-in-one-replica"

type smpl struct {
	t int64
	v float64
}

// ---- in-memory TSDBReader with generated chunk cuts ----

type memSeries struct {
	lset labels.Labels
	chks []chunks.Meta
}

type memDB struct{ series []memSeries }

func (m *memDB) StartTime() (int64, error) { return math.MinInt64, nil }
func (m *memDB) ChunkQuerier(mint, maxt int64) (storage.ChunkQuerier, error) {
	return &memQuerier{db: m, mint: mint, maxt: maxt}, nil
}

type memQuerier struct {
	db         *memDB
	mint, maxt int64
}

func (q *memQuerier) Close() error { return nil }
func (q *memQuerier) LabelValues(context.Context, string, *storage.LabelHints, ...*labels.Matcher) ([]string, annotations.Annotations, error) {
	return nil, nil, nil
}
func (q *memQuerier) LabelNames(context.Context, *storage.LabelHints, ...*labels.Matcher) ([]string, annotations.Annotations, error) {
	return nil, nil, nil
}
func (q *memQuerier) Select(_ context.Context, _ bool, _ *storage.SelectHints, ms ...*labels.Matcher) storage.ChunkSeriesSet {
	var out []storage.ChunkSeries
	for _, s := range q.db.series {
		ok := true
		for _, m := range ms {
			if !m.Matches(s.lset.Get(m.Name)) {
				ok = false
				break
			}
		}
		if !ok {
			continue
		}
		var cs []chunks.Meta
		for _, c := range s.chks {
			if c.MaxTime >= q.mint && c.MinTime <= q.maxt {
				cs = append(cs, c)
			}
		}
		if len(cs) == 0 {
			continue
		}
		lset := s.lset
		out = append(out, &storage.ChunkSeriesEntry{Lset: lset, ChunkIteratorFn: func(chunks.Iterator) chunks.Iterator {
			return storage.NewListChunkSeriesIterator(cs...)
		}})
	}
	sort.Slice(out, func(i, j int) bool { return labels.Compare(out[i].Labels(), out[j].Labels()) < 0 })
	return &memChunkSeriesSet{s: out, i: -1}
}

type memChunkSeriesSet struct {
	s []storage.ChunkSeries
	i int
}

func (m *memChunkSeriesSet) Next() bool                        { m.i++; return m.i < len(m.s) }
func (m *memChunkSeriesSet) At() storage.ChunkSeries           { return m.s[m.i] }
func (m *memChunkSeriesSet) Err() error                        { return nil }
func (m *memChunkSeriesSet) Warnings() annotations.Annotations { return nil }

func xorMeta(ss []smpl) chunks.Meta {
	c := chunkenc.NewXORChunk()
	app, _ := c.Appender()
	for _, s := range ss {
		app.Append(s.t, s.v)
	}
	return chunks.Meta{MinTime: ss[0].t, MaxTime: ss[len(ss)-1].t, Chunk: c}
}

// cutChunks cuts samples into chunks; with overlap>0 consecutive chunks share `overlap` samples.
func cutChunks(rt *rapid.T, label string, ss []smpl, allowOverlap bool) ([]chunks.Meta, bool, string) {
	var out []chunks.Meta
	overlapped := false
	var desc []string
	i := 0
	for i < len(ss) {
		n := rapid.IntRange(1, 12).Draw(rt, label+"len")
		if rapid.IntRange(0, 9).Draw(rt, label+"long") == 0 {
			n = rapid.IntRange(100, 130).Draw(rt, label+"longlen")
		}
		if i+n > len(ss) {
			n = len(ss) - i
		}
		out = append(out, xorMeta(ss[i:i+n]))
		desc = append(desc, fmt.Sprintf("%d+%d", i, n))
		next := i + n
		if allowOverlap && next < len(ss) && rapid.IntRange(0, 2).Draw(rt, label+"ov") == 0 {
			back := rapid.IntRange(1, n).Draw(rt, label+"back")
			next -= back
			if next <= i { // always make progress on the start index
				next = i + 1
			}
			if next < i+n {
				overlapped = true
			}
		}
		i = next
	}
	return out, overlapped, strings.Join(desc, ",")
}

type logical struct {
	lset labels.Labels // without replica label, without external labels
	ss   []smpl
}

type placedStore struct {
	ext    labels.Labels
	series []memSeries
}

func collect(set storage.SeriesSet) (map[string][]smpl, []string, error) {
	out := map[string][]smpl{}
	var order []string
	for set.Next() {
		s := set.At()
		key := s.Labels().String()
		if _, dup := out[key]; dup {
			return nil, nil, fmt.Errorf("label set %s returned more than once", key)
		}
		var ss []smpl
		it := s.Iterator(nil)
		for it.Next() != chunkenc.ValNone {
			t, v := it.At()
			ss = append(ss, smpl{t, v})
		}
		if it.Err() != nil {
			return nil, nil, it.Err()
		}
		out[key] = ss
		order = append(order, key)
	}
	return out, order, set.Err()
}

func within(ss []smpl, mint, maxt int64) []smpl {
	var out []smpl
	for _, s := range ss {
		if s.t >= mint && s.t <= maxt {
			out = append(out, s)
		}
	}
	return out
}

func eqSamples(a, b []smpl) bool {
	if len(a) != len(b) {
		return false
	}
	for i := range a {
		if a[i].t != b[i].t || math.Float64bits(a[i].v) != math.Float64bits(b[i].v) {
			return false
		}
	}
	return true
}

func renderS(ss []smpl) string {
	var sb strings.Builder
	for i, s := range ss {
		if i > 0 {
			sb.WriteByte(' ')
		}
		fmt.Fprintf(&sb, "%d:%v", s.t, s.v)
		if i > 40 {
			fmt.Fprintf(&sb, " …(%d)", len(ss))
			break
		}
	}
	return sb.String()
}

type c04Case struct {
	logicals     []logical
	replicas     int
	replicaLabel string
	// replicaLabel2 ("" = none): a second replica label (e.g. the Prometheus HA pair label remote-written
	// into receivers that have their own replica label); its value is "p<r>" for replica r and, per
	// store, it is an external label or stored with the series - independently of replicaLabel.
	replicaLabel2 string
	stores        []placedStore
	mint, maxt   int64
	desc         string
	overlapped   bool
	diffCuts     bool
}

func runC04(c c04Case, dedupOn bool, batch int, strategy store.RetrievalStrategy) (map[string][]smpl, error) {
	var clients []store.Client
	for i, ps := range c.stores {
		ts := store.NewTSDBStore(nil, &memDB{series: ps.series}, component.Sidecar, ps.ext)
		clients = append(clients, &storetestutil.TestClient{
			StoreClient: storepb.ServerAsClient(ts, atomic.Bool{}),
			Name:        fmt.Sprintf("store-%d", i),
			ExtLset:     []labels.Labels{ps.ext},
			MinTime:     math.MinInt64, MaxTime: math.MaxInt64,
			WithoutReplicaLabelsEnabled: true,
		})
	}
	proxy := store.NewProxyStore(nil, nil, func() []store.Client { return clients }, component.Query, labels.EmptyLabels(), 30*time.Second, strategy)
	qc := query.NewQueryableCreator(nil, nil, proxy, 4, 30*time.Second, dedup.AlgorithmPenalty, batch)
	replicaLabels := []string{c.replicaLabel}
	if c.replicaLabel2 != "" {
		replicaLabels = append(replicaLabels, c.replicaLabel2)
	}
	q, err := qc(dedupOn, replicaLabels, nil, 0, false, false, nil, query.NoopSeriesStatsReporter).Querier(c.mint, c.maxt)
	if err != nil {
		return nil, err
	}
	defer q.Close()
	set := q.Select(context.Background(), true, &storage.SelectHints{Start: c.mint, End: c.maxt}, labels.MustNewMatcher(labels.MatchEqual, "__name__", "m"))
	got, _, err := collect(set)
	return got, err
}

// isSubsequence reports whether g is a subsequence of w (nothing invented, order kept).
func isSubsequence(g, w []smpl) bool {
	j := 0
	for _, x := range g {
		for j < len(w) && (w[j].t != x.t || math.Float64bits(w[j].v) != math.Float64bits(x.v)) {
			j++
		}
		if j == len(w) {
			return false
		}
		j++
	}
	return true
}

// checkC04: tolerateLoss weakens ONLY the completeness direction of the dedup-on comparison (used for
// the overlapping-chunk class while known finding C04/overlapping-chunks-in-one-replica is listed).
func checkC04(c c04Case, batch int, strategy store.RetrievalStrategy, tolerateLoss bool) string {
	// dedup on
	got, err := runC04(c, true, batch, strategy)
	if err != nil {
		return "dedup on: " + err.Error()
	}
	want := map[string][]smpl{}
	logicalOf := map[string][]smpl{}
	for _, l := range c.logicals {
		w := within(l.ss, c.mint, c.maxt)
		b := labels.NewBuilder(l.lset)
		b.Set("region", "eu")
		logicalOf[b.Labels().String()] = l.ss
		// A series none of whose chunks overlaps the range is not returned at all; one whose chunks
		// overlap the range but has no sample inside is returned empty. Both are fine: compare
		// only non-empty expectations strictly and require the rest to be empty if present.
		want[b.Labels().String()] = w
	}
	for k, w := range want {
		g, ok := got[k]
		if !ok {
			if len(w) == 0 {
				continue
			}
			return fmt.Sprintf("dedup on: series %s missing (want %d samples); got keys %v", k, len(w), keys(got))
		}
		// Samples outside [mint,maxt] may be returned (whole chunks are fetched and the dedup iterator
		// seeks through the bounded iterators); the statement is about the queried range, so compare
		// inside the range and only require that nothing outside is invented.
		if !isSubsequence(g, logicalOf[k]) {
			return fmt.Sprintf("dedup on: series %s: got [%s] contains samples the logical series [%s] does not hold", k, renderS(g), renderS(logicalOf[k]))
		}
		g = within(g, c.mint, c.maxt)
		if tolerateLoss {
			if !isSubsequence(g, w) || (len(w) > 0 && len(g) == 0) {
				return fmt.Sprintf("dedup on (loss tolerated): series %s: got [%s] is not a non-empty subsequence of [%s]", k, renderS(g), renderS(w))
			}
		} else if !eqSamples(g, w) {
			return fmt.Sprintf("dedup on: series %s: got [%s] want [%s]", k, renderS(g), renderS(w))
		}
	}
	for k := range got {
		if _, ok := want[k]; !ok {
			return fmt.Sprintf("dedup on: unexpected series %s (replica label not removed or series invented)", k)
		}
	}
	// dedup off
	got, err = runC04(c, false, batch, strategy)
	if err != nil {
		return "dedup off: " + err.Error()
	}
	wantOff := map[string][]smpl{}
	for _, l := range c.logicals {
		for r := 0; r < c.replicas; r++ {
			b := labels.NewBuilder(l.lset)
			b.Set("region", "eu")
			b.Set(c.replicaLabel, fmt.Sprint(r))
			if c.replicaLabel2 != "" {
				b.Set(c.replicaLabel2, fmt.Sprintf("p%d", r))
			}
			wantOff[b.Labels().String()] = within(l.ss, c.mint, c.maxt)
		}
	}
	for k, w := range wantOff {
		g, ok := got[k]
		if !ok {
			if len(w) == 0 {
				continue
			}
			return fmt.Sprintf("dedup off: series %s missing; got keys %v", k, keys(got))
		}
		if !eqSamples(within(g, c.mint, c.maxt), w) {
			return fmt.Sprintf("dedup off: series %s: got [%s] want [%s]", k, renderS(g), renderS(w))
		}
	}
	for k := range got {
		if _, ok := wantOff[k]; !ok {
			return fmt.Sprintf("dedup off: unexpected series %s", k)
		}
	}
	return ""
}

func keys(m map[string][]smpl) []string {
	var ks []string
	for k := range m {
		ks = append(ks, k)
	}
	sort.Strings(ks)
	return ks
}

func genC04(rt *rapid.T, allowOverlap bool) c04Case {
	c := c04Case{}
	c.replicaLabel = rapid.SampledFrom([]string{"replica", "a_replica", "zz_rep"}).Draw(rt, "replicaLabel")
	c.replicas = rapid.IntRange(1, 4).Draw(rt, "replicas")
	if rapid.IntRange(0, 2).Draw(rt, "secondReplicaLabel") == 0 {
		c.replicaLabel2 = rapid.SampledFrom([]string{"prometheus_replica", "b_rep", "zzz"}).Draw(rt, "replicaLabel2")
	}
	nlog := rapid.IntRange(1, 4).Draw(rt, "logical")
	interval := rapid.SampledFrom([]int64{1000, 15000, 30000}).Draw(rt, "interval")
	for i := 0; i < nlog; i++ {
		n := rapid.IntRange(1, 60).Draw(rt, "n")
		if rapid.IntRange(0, 7).Draw(rt, "big") == 0 {
			n = rapid.IntRange(120, 300).Draw(rt, "nbig")
		}
		// timestamps at and below zero are legal in TSDB
		t := rapid.SampledFrom([]int64{1000, 1000, 0, -30 * interval, -400 * interval}).Draw(rt, "tBase") + int64(rapid.IntRange(0, 5).Draw(rt, "t0"))*interval
		var ss []smpl
		for j := 0; j < n; j++ {
			ss = append(ss, smpl{t, float64(i*1000 + j)})
			t += interval
			if rapid.IntRange(0, 14).Draw(rt, "gapq") == 0 {
				t += interval * int64(rapid.IntRange(1, 5).Draw(rt, "gap"))
			}
		}
		c.logicals = append(c.logicals, logical{lset: labels.FromStrings("__name__", "m", "i", fmt.Sprint(i), "job", rapid.SampledFrom([]string{"a", "b"}).Draw(rt, "job")), ss: ss})
	}
	// placement: replica r lives on store r; the replica label is external there or stored.
	// Optionally a replica's data is ALSO present on a second store with a different cut
	// (sidecar + store gateway): produces overlapping chunks inside one series after the proxy merge.
	var descs []string
	firstCut := map[int]string{}
	for r := 0; r < c.replicas; r++ {
		copies := 1
		if allowOverlap && rapid.IntRange(0, 3).Draw(rt, "dupStore") == 0 {
			copies = 2
		}
		for cp := 0; cp < copies; cp++ {
			external := rapid.Bool().Draw(rt, "replicaExternal")
			ps := placedStore{}
			if external {
				ps.ext = labels.FromStrings("region", "eu", c.replicaLabel, fmt.Sprint(r))
			} else {
				ps.ext = labels.FromStrings("region", "eu")
			}
			external2 := false
			if c.replicaLabel2 != "" {
				external2 = rapid.Bool().Draw(rt, "replica2External")
				if external2 {
					ps.ext = labels.NewBuilder(ps.ext).Set(c.replicaLabel2, fmt.Sprintf("p%d", r)).Labels()
				}
			}
			if cp == 1 {
				c.overlapped = true
			}
			for li, l := range c.logicals {
				chks, ov, d := cutChunks(rt, fmt.Sprintf("r%dc%dl%d", r, cp, li), l.ss, allowOverlap)
				if ov {
					c.overlapped = true
				}
				if prev, ok := firstCut[li]; ok && prev != d {
					c.diffCuts = true
				}
				firstCut[li] = d
				lset := l.lset
				if !external {
					b := labels.NewBuilder(l.lset)
					b.Set(c.replicaLabel, fmt.Sprint(r))
					lset = b.Labels()
				}
				if c.replicaLabel2 != "" && !external2 {
					lset = labels.NewBuilder(lset).Set(c.replicaLabel2, fmt.Sprintf("p%d", r)).Labels()
				}
				ps.series = append(ps.series, memSeries{lset: lset, chks: chks})
				descs = append(descs, fmt.Sprintf("r%d/c%d/l%d ext=%v ext2=%v cuts=%s", r, cp, li, external, external2, d))
			}
			c.stores = append(c.stores, ps)
		}
	}
	// query range
	var tmin, tmax int64 = math.MaxInt64, math.MinInt64
	for _, l := range c.logicals {
		if l.ss[0].t < tmin {
			tmin = l.ss[0].t
		}
		if l.ss[len(l.ss)-1].t > tmax {
			tmax = l.ss[len(l.ss)-1].t
		}
	}
	switch rapid.IntRange(0, 3).Draw(rt, "rangeKind") {
	case 0:
		c.mint, c.maxt = tmin-1000, tmax+1000
	case 1:
		c.mint = tmin + rapid.Int64Range(0, tmax-tmin).Draw(rt, "mintoff")
		c.maxt = c.mint + rapid.Int64Range(0, tmax-c.mint+1000).Draw(rt, "len")
	case 2:
		c.mint, c.maxt = tmin, tmax
	default:
		c.mint, c.maxt = math.MinInt64/2, math.MaxInt64/2
	}
	var sb strings.Builder
	fmt.Fprintf(&sb, "replicaLabel=%s replicaLabel2=%q replicas=%d range=[%d,%d] ", c.replicaLabel, c.replicaLabel2, c.replicas, c.mint, c.maxt)
	for i, l := range c.logicals {
		fmt.Fprintf(&sb, "L%d=%s n=%d t0=%d tN=%d; ", i, l.lset.String(), len(l.ss), l.ss[0].t, l.ss[len(l.ss)-1].t)
	}
	sb.WriteString(strings.Join(descs, "; "))
	c.desc = sb.String()
	return c
}

func c04RegressF14() string {
	// one replica whose two chunks share the boundary sample 16000
	ss := []smpl{{1000, 1}, {16000, 2}, {31000, 3}}
	c := c04Case{replicaLabel: "replica", replicas: 1, mint: 0, maxt: 100000,
		logicals: []logical{{lset: labels.FromStrings("__name__", "m", "i", "0"), ss: ss}},
		stores: []placedStore{{ext: labels.FromStrings("region", "eu", "replica", "0"), series: []memSeries{{
			lset: labels.FromStrings("__name__", "m", "i", "0"), chks: []chunks.Meta{xorMeta(ss[0:2]), xorMeta(ss[1:3])}}}}}}
	return checkC04(c, 0, store.EagerRetrieval, false)
}

func TestVerifC04(t *testing.T) {
	rec := kit.For(t, "C04")
	known := kit.KnownFindings("C04")
	if msg := c04RegressF14(); msg != "" {
		if known[sigC04Overlap] {
			rec.Known(sigC04Overlap, "one replica with chunks [1000,16000]+[16000,31000] loses sample 31000: "+msg)
		} else {
			rec.Violation(t, "regression F14: %s", msg)
		}
	}
	rec.Check(t, func(rt *rapid.T) {
		allowOverlap := rapid.Bool().Draw(rt, "allowOverlap")
		c := genC04(rt, allowOverlap)
		tolerate := false
		if c.overlapped && known[sigC04Overlap] {
			// narrow exclusion: only the completeness of the dedup-on answer is not asserted for
			// cases with overlapping chunks inside one replica; everything else still is.
			rec.Excluded(sigC04Overlap)
			tolerate = true
		}
		batch := rapid.SampledFrom([]int{0, 1, 2, 64}).Draw(rt, "batch")
		strategy := rapid.SampledFrom([]store.RetrievalStrategy{store.EagerRetrieval, store.LazyRetrieval}).Draw(rt, "strategy")
		if msg := checkC04(c, batch, strategy, tolerate); msg != "" {
			rt.Fatalf("C04 violated: %s\ncase: %s batch=%d strategy=%v", msg, c.desc, batch, strategy)
		}
		var cls []string
		if c.overlapped {
			cls = append(cls, "overlapping-chunks-in-replica")
		}
		if c.diffCuts {
			cls = append(cls, "different-cuts")
		}
		if c.replicaLabel2 != "" {
			cls = append(cls, "two-replica-labels")
		}
		cls = append(cls, fmt.Sprintf("replicas-%d", c.replicas), "strategy-"+string(strategy))
		rec.Case(c.desc, (c.replicas >= 2 && c.diffCuts) || c.overlapped, cls...)
	})
}

// TestVerifC04_LargeSeries covers "however the data is cut into ... frames": a series whose chunks
// exceed the 1 MiB frame limit of TSDBStore is streamed in several frames by each store. Values are
// incompressible (hash of the index) so that ~1200 chunks of 120 samples exceed the limit.
func TestVerifC04_LargeSeries(t *testing.T) {
	rec := kit.For(t, "C04")
	n := kit.Scale("c04large", 1, 5)
	gen := rapid.Custom(func(rt *rapid.T) [4]int {
		return [4]int{rapid.IntRange(140000, 200000).Draw(rt, "samples"), rapid.SampledFrom([]int{1, 2, 2, 3}).Draw(rt, "replicas"),
			rapid.SampledFrom([]int{0, 1, 64}).Draw(rt, "batch"), rapid.IntRange(0, 1).Draw(rt, "lazy")}
	})
	for i := 0; i < n; i++ {
		p := gen.Example(int(kit.Seed())*31 + i)
		ss := make([]smpl, p[0])
		x := uint64(kit.Seed())*0x9e3779b97f4a7c15 + uint64(i)
		for j := range ss {
			x ^= x << 13
			x ^= x >> 7
			x ^= x << 17
			ss[j] = smpl{int64(1000 + j*15000), float64(x>>11) / 3.0}
		}
		short := []smpl{{1000, 1}, {16000, 2}}
		c := c04Case{replicaLabel: "replica", replicas: p[1], mint: 0, maxt: int64(p[0]+10) * 15000,
			logicals: []logical{{lset: labels.FromStrings("__name__", "m", "job", "long"), ss: ss}, {lset: labels.FromStrings("__name__", "m", "job", "short"), ss: short}}}
		for r := 0; r < c.replicas; r++ {
			ps := placedStore{ext: labels.FromStrings("region", "eu", "replica", fmt.Sprint(r))}
			var chks []chunks.Meta
			cut := 120 - r // replicas cut differently
			for off := 0; off < len(ss); off += cut {
				end := off + cut
				if end > len(ss) {
					end = len(ss)
				}
				chks = append(chks, xorMeta(ss[off:end]))
			}
			ps.series = append(ps.series, memSeries{lset: c.logicals[0].lset, chks: chks}, memSeries{lset: c.logicals[1].lset, chks: []chunks.Meta{xorMeta(short)}})
			c.stores = append(c.stores, ps)
		}
		strategy := store.EagerRetrieval
		if p[3] == 1 {
			strategy = store.LazyRetrieval
		}
		c.desc = fmt.Sprintf("large series: %d samples, %d replicas (chunks of 120-r samples), batch=%d strategy=%s", p[0], p[1], p[2], strategy)
		if msg := checkC04(c, p[2], strategy, false); msg != "" {
			rec.Violation(t, "%s | case: %s", msg, c.desc)
		}
		rec.Case(c.desc, true, "series-larger-than-one-frame")
	}
}
