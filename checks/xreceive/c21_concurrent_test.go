package xreceive

// C21, concurrent part: "each tenant is assigned the same set of nodes every time (cached or not)"
// must also hold when many requests resolve tenants at the same time, which is how the receive
// handler uses the ring. A reference placement is computed on one ring with a single goroutine;
// a second, identical ring is then queried by several goroutines at once with a cache that is far
// smaller than the number of tenants, so sub-rings are computed concurrently and repeatedly.
// Oracle: GetN(tenant, series, n) on the concurrently used ring equals the reference for every
// lookup (placement is a pure function of configuration, tenant and series). No timing enters the
// verdict; scheduling only decides how much overlap there is (sensitivity, not soundness).

import (
	"fmt"
	"sync"
	"testing"

	"github.com/prometheus/client_golang/prometheus"
	"pgregory.net/rapid"

	"github.com/thanos-io/thanos/pkg/receive"
	"github.com/thanos-io/thanos/verifx/kit"
)

func TestVerifC21_Concurrent(t *testing.T) {
	rec := kit.For(t, "C21")
	n := kit.Scale("c21conc", 6, 10)
	gen := rapid.Custom(func(rt *rapid.T) c21Case {
		zones := rapid.SampledFrom([]int{1, 2, 3, 3, 4}).Draw(rt, "zones")
		per := rapid.SampledFrom([]int{2, 3, 4, 5}).Draw(rt, "perZone")
		var eps []receive.Endpoint
		for z := 0; z < zones; z++ {
			for i := 0; i < per; i++ {
				eps = append(eps, receive.Endpoint{Address: fmt.Sprintf("n-%d-%d:10901", z, i), AZ: fmt.Sprintf("az-%d", z)})
			}
		}
		c := c21Case{eps: eps, rf: 1, cache: rapid.SampledFrom([]int{1, 2, 4, 16}).Draw(rt, "cache"), salt: rapid.IntRange(0, 1000).Draw(rt, "salt")}
		// zone-aware: per-zone share must fit a zone; keep RF 1..2 <= shard
		c.shard = zones * rapid.IntRange(1, per-1).Draw(rt, "perZoneShare")
		if c.shard >= 2 && rapid.Bool().Draw(rt, "rf2") {
			c.rf = 2
		}
		return c
	})
	for ci := 0; ci < n; ci++ {
		c := gen.Example(int(kit.Seed())*7919 + ci)
		const tenants, series, workers = 120, 3, 8
		build := func() (receive.Hashring, error) {
			return receive.NewMultiHashring(receive.AlgorithmKetama, uint64(c.rf), c.config(), prometheus.NewRegistry())
		}
		ref, err := build()
		if err != nil {
			t.Fatalf("harness: reference ring: %v (%s)", err, c)
		}
		type key struct{ t, s, n int }
		want := map[key]receive.Endpoint{}
		for ti := 0; ti < tenants; ti++ {
			for si := 0; si < series; si++ {
				for k := 0; k < c.rf; k++ {
					e, err := ref.GetN(fmt.Sprintf("tenant-%d", ti), mkSeries(c.salt, si), uint64(k))
					if err != nil {
						t.Fatalf("harness: reference GetN: %v (%s)", err, c)
					}
					want[key{ti, si, k}] = e
				}
			}
		}
		ring, err := build()
		if err != nil {
			t.Fatalf("harness: ring: %v", err)
		}
		var (
			mu    sync.Mutex
			first string
			bad   int
			wg    sync.WaitGroup
		)
		for w := 0; w < workers; w++ {
			wg.Add(1)
			go func(w int) {
				defer wg.Done()
				defer func() {
					if r := recover(); r != nil {
						mu.Lock()
						bad++
						if first == "" {
							first = fmt.Sprintf("GetN panicked: %v", r)
						}
						mu.Unlock()
					}
				}()
				for round := 0; round < 3; round++ {
					for i := 0; i < tenants; i++ {
						ti := (i*7 + w*13 + round) % tenants // workers walk the tenants in different orders
						for si := 0; si < series; si++ {
							for k := 0; k < c.rf; k++ {
								e, err := ring.GetN(fmt.Sprintf("tenant-%d", ti), mkSeries(c.salt, si), uint64(k))
								if err != nil || e != want[key{ti, si, k}] {
									mu.Lock()
									bad++
									if first == "" {
										first = fmt.Sprintf("tenant-%d series %d replica %d: concurrent lookup gave %v (err %v), a single-goroutine ring gives %v", ti, si, k, e, err, want[key{ti, si, k}])
									}
									mu.Unlock()
								}
							}
						}
					}
				}
			}(w)
		}
		wg.Wait()
		if bad > 0 {
			rec.Violation(t, "tenant placement differs under concurrent use (%d of %d lookups): %s | case: %s", bad, workers*3*tenants*series*c.rf, first, c)
		}
		rec.Case("concurrent "+c.String(), c.cache < tenants, "concurrent-lookups", fmt.Sprintf("conc-cache-%d", c.cache))
	}
}
