package xreceive

// Shared helpers of the hashring checks C18, C20, C21, C27 (exported API of pkg/receive only).

import (
	"fmt"
	"sort"
	"strconv"
	"strings"
	"sync"

	"github.com/prometheus/client_golang/prometheus"
	"pgregory.net/rapid"

	"github.com/thanos-io/thanos/pkg/receive"
	"github.com/thanos-io/thanos/pkg/store/labelpb"
	"github.com/thanos-io/thanos/pkg/store/storepb/prompb"
	"github.com/thanos-io/thanos/verifx/kit"
)

// fixedInputs says whether the fixed table inputs of a property run (VERIF_N_<id>FIXED=0 turns them
// off, used to measure the sensitivity of the generated cases alone).
func fixedInputs(id string) bool { return kit.Scale(id+"FIXED", 1, 1) != 0 }

// ringBuild builds a multi-hashring with ONE default (tenant-less) hashring over a private copy of eps
// (newSimpleHashring sorts the slice it is given in place, so the caller's slice must not be shared).
//
// afterOverride: the configuration lists, BEFORE h0, a hashring for one other tenant that overrides the
// algorithm (hashmod where the global algorithm is ketama and vice versa) - the documented way to
// migrate hashrings one at a time. h0 itself has no override and must be built with alg.
func ringBuild(alg receive.HashringAlgorithm, rf uint64, eps []receive.Endpoint, afterOverride ...bool) (receive.Hashring, error) {
	cp := append([]receive.Endpoint(nil), eps...)
	cfg := []receive.HashringConfig{{Hashring: "h0", Endpoints: cp}}
	if len(afterOverride) > 0 && afterOverride[0] {
		other := receive.AlgorithmHashmod
		if alg == receive.AlgorithmHashmod {
			other = receive.AlgorithmKetama
		}
		var legacy []receive.Endpoint
		for i := 0; i < int(rf)+2; i++ {
			legacy = append(legacy, receive.Endpoint{Address: "legacy-" + strconv.Itoa(i)})
		}
		cfg = append([]receive.HashringConfig{{Hashring: "legacy", Tenants: []string{"legacy-only-tenant"}, Algorithm: other, Endpoints: legacy}}, cfg...)
	}
	return receive.NewMultiHashring(alg, rf, cfg, prometheus.NewRegistry())
}

// ringZoneSizes returns the number of endpoints per distinct AZ value ("" is a zone like any other
// for newKetamaHashring: it is a key of its availabilityZones map).
func ringZoneSizes(eps []receive.Endpoint) map[string]int {
	m := map[string]int{}
	for _, e := range eps {
		m[e.AZ]++
	}
	return m
}

// ringMaxRF is the largest replication factor for which the zone layout can be filled level by level
// (every zone reaches k replicas before any zone gets k+1): with z zones, smallest zone of size m and
// c zones larger than m it is m*z+c. Layouts with a single zone have no zone constraint. This is the
// feasibility predicate of DESIGN C18/C19 ((RF div z, RF mod z) form) written as a bound on RF.
func ringMaxRF(sizes map[string]int) int {
	n, m := 0, -1
	for _, s := range sizes {
		n += s
		if m < 0 || s < m {
			m = s
		}
	}
	if len(sizes) <= 1 {
		return n
	}
	c := 0
	for _, s := range sizes {
		if s > m {
			c++
		}
	}
	r := m*len(sizes) + c
	if r > n {
		r = n
	}
	return r
}

func ringRenderEndpoints(eps []receive.Endpoint) string {
	var sb strings.Builder
	for i, e := range eps {
		if i > 0 {
			sb.WriteByte(' ')
		}
		sb.WriteString(e.Address)
		if e.AZ != "" {
			sb.WriteString("@" + e.AZ)
		}
	}
	return sb.String()
}

func ringRenderSizes(sizes map[string]int) string {
	keys := make([]string, 0, len(sizes))
	for k := range sizes {
		keys = append(keys, k)
	}
	sort.Strings(keys)
	var sb strings.Builder
	for i, k := range keys {
		if i > 0 {
			sb.WriteByte(',')
		}
		fmt.Fprintf(&sb, "%q:%d", k, sizes[k])
	}
	return sb.String()
}

// genAddresses draws n pairwise distinct addresses in one of several realistic shapes.
func genAddresses(t *rapid.T, n int) []string {
	style := rapid.IntRange(0, 5).Draw(t, "addrStyle")
	nums := rapid.SliceOfNDistinct(rapid.IntRange(0, 60), n, n, rapid.ID[int]).Draw(t, "addrNums")
	out := make([]string, n)
	for i, k := range nums {
		switch style {
		case 0:
			out[i] = "node-" + strconv.Itoa(k)
		case 1:
			out[i] = "10.0.0." + strconv.Itoa(k) + ":10901"
		case 2:
			out[i] = "thanos-receive-" + strconv.Itoa(k) + ".thanos-receive.svc.cluster.local:10901"
		case 5:
			// pairs that differ only in letter case: still two distinct ring members
			if i%2 == 1 {
				out[i] = "receive-" + strconv.Itoa(nums[i-1]) + ".thanos.svc:10901"
			} else {
				out[i] = "Receive-" + strconv.Itoa(k) + ".thanos.svc:10901"
			}
		case 3:
			out[i] = strconv.Itoa(k) // "1", "11", "111": prefixes of each other
		default:
			out[i] = "n" + strings.Repeat("1", k%7) + ":" + strconv.Itoa(k) // n:0 n1:1 n11:2 ... colon-rich
		}
	}
	return out
}

// genTenant draws a tenant name.
func genTenant(t *rapid.T) string {
	return rapid.SampledFrom([]string{"", "default-tenant", "t", "tenant-a", "tenant-b", "a\xffb", "租户"}).Draw(t, "tenant")
}

// mkSeries derives series number i of a case deterministically from a drawn salt: varying label
// counts, a shared metric name, values that are prefixes of each other.
func mkSeries(salt, i int) *prompb.TimeSeries {
	var ls []labelpb.ZLabel
	if (salt+i)%7 == 3 {
		// a big label set (> 1 KiB): labelpb.HashWithPrefix hashes those on a separate code path
		return &prompb.TimeSeries{Labels: []labelpb.ZLabel{{Name: "__name__", Value: "big"}, {Name: "blob", Value: strings.Repeat(strconv.Itoa(i%10), 1100+(salt+i)%300)}, {Name: "i", Value: strconv.Itoa(i)}}}
	}
	switch (salt + i) % 4 {
	case 0:
		ls = []labelpb.ZLabel{{Name: "__name__", Value: "m" + strconv.Itoa(salt)}, {Name: "i", Value: strconv.Itoa(i)}}
	case 1:
		ls = []labelpb.ZLabel{{Name: "__name__", Value: "up"}, {Name: "instance", Value: "host-" + strconv.Itoa(i) + ":9100"}, {Name: "job", Value: "j" + strconv.Itoa(salt)}}
	case 2:
		ls = []labelpb.ZLabel{{Name: "a", Value: strings.Repeat("x", i%9)}, {Name: "b", Value: strconv.Itoa(salt*1000 + i)}}
	default:
		ls = []labelpb.ZLabel{{Name: "pod", Value: "nginx-" + strconv.Itoa(salt) + "-" + strconv.Itoa(i)}}
	}
	return &prompb.TimeSeries{Labels: ls}
}

func renderSeries(ts *prompb.TimeSeries) string {
	var sb strings.Builder
	sb.WriteByte('{')
	for i, l := range ts.Labels {
		if i > 0 {
			sb.WriteByte(',')
		}
		v := l.Value
		if len(v) > 40 {
			v = fmt.Sprintf("%s…(%d bytes)", v[:8], len(v))
		}
		fmt.Fprintf(&sb, "%s=%q", l.Name, v)
	}
	sb.WriteByte('}')
	return sb.String()
}

// replicasOf returns the endpoints GetN hands out for n in [0,rf).
func replicasOf(h receive.Hashring, tenant string, ts *prompb.TimeSeries, rf int) ([]receive.Endpoint, error) {
	out := make([]receive.Endpoint, 0, rf)
	for n := 0; n < rf; n++ {
		e, err := h.GetN(tenant, ts, uint64(n))
		if err != nil {
			return nil, fmt.Errorf("GetN(n=%d): %w", n, err)
		}
		out = append(out, e)
	}
	return out, nil
}

func renderReplicas(r []receive.Endpoint) string {
	s := make([]string, len(r))
	for i, e := range r {
		s[i] = e.Address
		if e.AZ != "" {
			s[i] += "@" + e.AZ
		}
	}
	return "[" + strings.Join(s, " ") + "]"
}

// globMatch is an independent matcher for the glob subset the checks generate: literals, '*', '?',
// and bracket classes "[abc]", "[a-c]", "[^a-c]" (no escapes, no '/' in tenants or patterns).
func globMatch(pattern, s string) bool {
	p, r := []rune(pattern), []rune(s)
	var rec func(pi, si int) bool
	rec = func(pi, si int) bool {
		for pi < len(p) {
			switch p[pi] {
			case '*':
				for k := si; k <= len(r); k++ {
					if rec(pi+1, k) {
						return true
					}
				}
				return false
			case '?':
				if si >= len(r) {
					return false
				}
				pi++
				si++
			case '[':
				end := pi + 1
				for end < len(p) && p[end] != ']' {
					end++
				}
				if si >= len(r) {
					return false
				}
				body := p[pi+1 : end]
				neg := false
				if len(body) > 0 && body[0] == '^' {
					neg = true
					body = body[1:]
				}
				in := false
				for k := 0; k < len(body); k++ {
					if k+2 < len(body) && body[k+1] == '-' {
						if body[k] <= r[si] && r[si] <= body[k+2] {
							in = true
						}
						k += 2
						continue
					}
					if body[k] == r[si] {
						in = true
					}
				}
				if in == neg {
					return false
				}
				pi = end + 1
				si++
			default:
				if si >= len(r) || r[si] != p[pi] {
					return false
				}
				pi++
				si++
			}
		}
		return si == len(r)
	}
	return rec(0, 0)
}

// ---------------------------------------------------------------------------------------------
// ring-edge series: boundary values of the hash space

const ringEdgeTenant = "edge-tenant"

var (
	ringEdgeOnce sync.Once
	ringEdge     []*prompb.TimeSeries
)

// ringEdgeSeries returns series of tenant ringEdgeTenant whose hashring position
// (labelpb.HashWithPrefix, the function ketama placement uses) is among the 40 lowest and the 40
// highest of 400000 candidates, i.e. within ~1e-4 of the ends of the 64-bit hash space.
func ringEdgeSeries() []*prompb.TimeSeries {
	ringEdgeOnce.Do(func() {
		type cand struct {
			h  uint64
			ts *prompb.TimeSeries
		}
		const n, keep = 400000, 40
		all := make([]cand, 0, n)
		for i := 0; i < n; i++ {
			ts := &prompb.TimeSeries{Labels: []labelpb.ZLabel{{Name: "__name__", Value: "edge"}, {Name: "i", Value: strconv.Itoa(i)}}}
			all = append(all, cand{labelpb.HashWithPrefix(ringEdgeTenant, ts.Labels), ts})
		}
		sort.Slice(all, func(i, j int) bool { return all[i].h < all[j].h })
		for i := 0; i < keep; i++ {
			ringEdge = append(ringEdge, all[i].ts, all[len(all)-1-i].ts)
		}
	})
	return ringEdge
}
