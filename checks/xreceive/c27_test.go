package xreceive

// C27 Tenants are routed to the hashring their configuration selects.
//
// Domain: 1..5 hashring configs, each with its own single endpoint "ring-<i>" (so the chosen hashring
// is readable from the node GetN returns); per config no tenant list (nil or empty = default ring), an
// exact list (matcher type "" or "exact"; may contain glob-looking strings, which must be taken
// literally) or a glob list (well-formed patterns over a small alphabet: literals, * ? [ab] [a-c] [^a]);
// queried tenants: generated names, list entries, pattern strings taken literally. Names and patterns
// are ASCII: filepath.Match advances byte-wise after '*', so "*??" matches the single 3-byte character
// "\u79df" - a property of Go's glob dialect, not of the routing (found as a false alarm of this check).
// Oracle: an independent matcher (own glob implementation). Let E = first config in order whose list
// matches, D = first list-less config, O = first config in order that is list-less or matches.
//   * no E and no D            => GetN must fail;
//   * otherwise if D is not before E (or one of them is missing) both readings of the statement agree
//     (O) and the chosen ring must be exactly that one;
//   * if a list-less config precedes the first matching list, the statement ("first ... whose tenant
//     list matches ..., falling back to a hashring without a tenant list") and the in-order reading
//     differ; only membership in {E, D} is asserted there (class default-precedes-explicit-match) - see the report.
// The answer must be the same on repeated calls (tenant cache, several tenants interleaved on one
// ring) and from 8 goroutines hitting a fresh ring concurrently (-race in the thorough tier).

import (
	"fmt"
	"strings"
	"sync"
	"testing"

	"github.com/prometheus/client_golang/prometheus"
	"pgregory.net/rapid"

	"github.com/thanos-io/thanos/pkg/receive"
	"github.com/thanos-io/thanos/verifx/kit"
)

type c27Ring struct {
	kind     string // "default", "exact", "glob"
	emptyNil bool   // default ring: nil list (true) or empty non-nil list (false)
	typeSet  bool   // exact ring: matcher type spelled "exact" (true) or left empty (false)
	list     []string
	alg      receive.HashringAlgorithm
}

type c27Case struct {
	global  receive.HashringAlgorithm
	rings   []c27Ring
	tenants []string
}

func (c c27Case) String() string {
	var sb strings.Builder
	for i, r := range c.rings {
		fmt.Fprintf(&sb, "ring-%d:%s%q ", i, r.kind, r.list)
	}
	fmt.Fprintf(&sb, "tenants=%q", c.tenants)
	return sb.String()
}

func (c c27Case) config() []receive.HashringConfig {
	cfg := make([]receive.HashringConfig, len(c.rings))
	for i, r := range c.rings {
		h := receive.HashringConfig{
			Hashring:  fmt.Sprintf("h%d", i),
			Endpoints: []receive.Endpoint{{Address: fmt.Sprintf("ring-%d", i)}},
			Algorithm: r.alg,
		}
		switch r.kind {
		case "default":
			if !r.emptyNil {
				h.Tenants = []string{}
			}
		case "exact":
			h.Tenants = append([]string(nil), r.list...)
			if r.typeSet {
				h.TenantMatcherType = receive.TenantMatcherTypeExact
			}
		case "glob":
			h.Tenants = append([]string(nil), r.list...)
			h.TenantMatcherType = receive.TenantMatcherGlob
		}
		cfg[i] = h
	}
	return cfg
}

func (r c27Ring) matches(tenant string) bool {
	switch r.kind {
	case "exact":
		for _, x := range r.list {
			if x == tenant {
				return true
			}
		}
	case "glob":
		for _, p := range r.list {
			if globMatch(p, tenant) {
				return true
			}
		}
	}
	return false
}

// c27Expect returns the admissible ring indexes for a tenant (empty = GetN must fail) and classes.
func c27Expect(c c27Case, tenant string) ([]int, []string) {
	e, d, candidates := -1, -1, 0
	var classes []string
	for i, r := range c.rings {
		if r.kind == "default" {
			candidates++
			if d < 0 {
				d = i
			}
			continue
		}
		if r.matches(tenant) {
			candidates++
			if e < 0 {
				e = i
			}
		}
		for _, x := range r.list {
			if x == tenant && r.kind == "glob" && strings.ContainsAny(x, "*?[") {
				classes = append(classes, "tenant-equals-glob-pattern")
			}
		}
	}
	if candidates >= 2 {
		classes = append(classes, "multi-match")
	}
	switch {
	case e < 0 && d < 0:
		return nil, append(classes, "no-match-error")
	case e < 0:
		return []int{d}, append(classes, "default-hit")
	case d < 0 || e < d:
		return []int{e}, append(classes, c.rings[e].kind+"-hit")
	default:
		return []int{e, d}, append(classes, "default-precedes-explicit-match")
	}
}

var c27Series = mkSeries(0, 0)

// c27Ask returns the index of the ring that served the tenant, or -1 if GetN failed.
func c27Ask(h receive.Hashring, tenant string) (int, error) {
	e, err := h.GetN(tenant, c27Series, 0)
	if err != nil {
		return -1, nil
	}
	var i int
	if _, serr := fmt.Sscanf(e.Address, "ring-%d", &i); serr != nil {
		return -1, fmt.Errorf("GetN returned an unknown endpoint %v", e)
	}
	return i, nil
}

func c27Admissible(adm []int, got int) bool {
	if len(adm) == 0 {
		return got == -1
	}
	for _, a := range adm {
		if a == got {
			return true
		}
	}
	return false
}

func c27Check(c c27Case) (string, bool, []string) {
	classSet := map[string]bool{}
	adm := make([][]int, len(c.tenants))
	nt := false
	for i, tn := range c.tenants {
		var cl []string
		adm[i], cl = c27Expect(c, tn)
		for _, x := range cl {
			classSet[x] = true
			if x == "multi-match" {
				nt = true
			}
		}
	}
	a, err := receive.NewMultiHashring(c.global, 1, c.config(), prometheus.NewRegistry())
	if err != nil {
		return "NewMultiHashring failed: " + err.Error(), false, nil
	}
	// sequential: every tenant once (cache miss), then twice more in reverse and forward order (cache hits).
	first := make([]int, len(c.tenants))
	order := make([]int, 0, 3*len(c.tenants))
	for i := range c.tenants {
		order = append(order, i)
	}
	for i := len(c.tenants) - 1; i >= 0; i-- {
		order = append(order, i)
	}
	for i := range c.tenants {
		order = append(order, i)
	}
	for k, i := range order {
		got, err := c27Ask(a, c.tenants[i])
		if err != nil {
			return err.Error(), false, nil
		}
		if !c27Admissible(adm[i], got) {
			return fmt.Sprintf("tenant %q served by ring %d, admissible %v (-1 = error) at call %d", c.tenants[i], got, adm[i], k), false, nil
		}
		if k < len(c.tenants) {
			first[i] = got
			if len(adm[i]) == 2 {
				if got == adm[i][0] {
					classSet["ambiguous-order-chose-explicit"] = true
				} else {
					classSet["ambiguous-order-chose-default"] = true
				}
			}
		} else if got != first[i] {
			return fmt.Sprintf("tenant %q served by ring %d at call %d but by ring %d on its first call", c.tenants[i], got, k, first[i]), false, nil
		}
	}
	// concurrent: 8 goroutines on a fresh ring, each walking the tenants from a different offset, twice.
	b, err := receive.NewMultiHashring(c.global, 1, c.config(), prometheus.NewRegistry())
	if err != nil {
		return "NewMultiHashring failed: " + err.Error(), false, nil
	}
	const workers = 8
	res := make([][]int, workers)
	errs := make([]error, workers)
	var wg sync.WaitGroup
	start := make(chan struct{})
	for w := 0; w < workers; w++ {
		wg.Add(1)
		go func(w int) {
			defer wg.Done()
			<-start
			out := make([]int, 0, 2*len(c.tenants))
			for k := 0; k < 2*len(c.tenants); k++ {
				i := (k + w) % len(c.tenants)
				got, err := c27Ask(b, c.tenants[i])
				if err != nil {
					errs[w] = err
					return
				}
				out = append(out, got)
			}
			res[w] = out
		}(w)
	}
	close(start)
	wg.Wait()
	for w := 0; w < workers; w++ {
		if errs[w] != nil {
			return errs[w].Error(), false, nil
		}
		for k, got := range res[w] {
			i := (k + w) % len(c.tenants)
			if got != first[i] {
				return fmt.Sprintf("concurrent caller %d: tenant %q served by ring %d, sequential answer was ring %d", w, c.tenants[i], got, first[i]), false, nil
			}
		}
	}
	a.Close()
	b.Close()
	classes := make([]string, 0, len(classSet))
	for k := range classSet {
		classes = append(classes, k)
	}
	return "", nt, classes
}

func c27GenName(rt *rapid.T, label string) string {
	return rapid.SampledFrom([]string{"a", "b", "ab", "abc", "ba", "c", "team-a", "team-b", "team-ab", "", "a-", "abcabc"}).Draw(rt, label)
}

func c27GenPattern(rt *rapid.T, label string) string {
	n := rapid.IntRange(1, 4).Draw(rt, label+"Len")
	var sb strings.Builder
	for i := 0; i < n; i++ {
		sb.WriteString(rapid.SampledFrom([]string{"a", "b", "c", "-", "team-", "*", "*", "?", "[ab]", "[a-c]", "[^a]", "[b-b]"}).Draw(rt, label+"Tok"))
	}
	return sb.String()
}

func c27Gen(rt *rapid.T) c27Case {
	algs := []receive.HashringAlgorithm{receive.AlgorithmHashmod, receive.AlgorithmKetama}
	c := c27Case{global: rapid.SampledFrom(algs).Draw(rt, "global")}
	n := rapid.IntRange(1, 5).Draw(rt, "rings")
	var pool []string
	for i := 0; i < n; i++ {
		r := c27Ring{alg: rapid.SampledFrom([]receive.HashringAlgorithm{"", receive.AlgorithmHashmod, receive.AlgorithmKetama}).Draw(rt, "alg")}
		r.kind = rapid.SampledFrom([]string{"default", "exact", "exact", "glob", "glob"}).Draw(rt, "kind")
		switch r.kind {
		case "default":
			r.emptyNil = rapid.Bool().Draw(rt, "nil")
		case "exact":
			r.typeSet = rapid.Bool().Draw(rt, "typeSet")
			k := rapid.IntRange(1, 3).Draw(rt, "listLen")
			for j := 0; j < k; j++ {
				if rapid.IntRange(0, 3).Draw(rt, "globLooking") == 0 {
					r.list = append(r.list, c27GenPattern(rt, "lit"))
				} else {
					r.list = append(r.list, c27GenName(rt, "name"))
				}
			}
		case "glob":
			k := rapid.IntRange(1, 3).Draw(rt, "listLen")
			for j := 0; j < k; j++ {
				r.list = append(r.list, c27GenPattern(rt, "pat"))
			}
		}
		pool = append(pool, r.list...)
		c.rings = append(c.rings, r)
	}
	nt := rapid.IntRange(1, 6).Draw(rt, "tenants")
	seen := map[string]bool{}
	for i := 0; i < nt; i++ {
		var tn string
		if len(pool) > 0 && rapid.IntRange(0, 2).Draw(rt, "fromLists") == 0 {
			tn = rapid.SampledFrom(pool).Draw(rt, "listEntry")
		} else {
			tn = c27GenName(rt, "tenantName")
		}
		if !seen[tn] {
			seen[tn] = true
			c.tenants = append(c.tenants, tn)
		}
	}
	return c
}

func TestVerifC27(t *testing.T) {
	rec := kit.For(t, "C27")
	fixed := []c27Case{
		{global: receive.AlgorithmHashmod, tenants: []string{"tenant1", "tenant2", "prefix-1", "t2", "t1-x", "other", "prefix*"},
			rings: []c27Ring{{kind: "exact", list: []string{"tenant2"}}, {kind: "glob", list: []string{"prefix*"}}, {kind: "glob", list: []string{"t1-*", "t2", "t3-*"}}, {kind: "default", emptyNil: true}}},
		{global: receive.AlgorithmKetama, tenants: []string{"tenant1", "tenant4", "[a-c]", "b"},
			rings: []c27Ring{{kind: "exact", typeSet: true, list: []string{"tenant1"}}, {kind: "exact", list: []string{"[a-c]"}}, {kind: "glob", list: []string{"[a-c]"}}}},
	}
	if !fixedInputs("C27") {
		fixed = nil
	}
	for i, c := range fixed {
		msg, nt, classes := c27Check(c)
		if msg != "" {
			rec.Violation(t, "fixed input %d: %s | case: %s", i, msg, c)
		}
		rec.Case(c.String(), nt, append(classes, "fixed-input")...)
	}
	rec.Check(t, func(rt *rapid.T) {
		c := c27Gen(rt)
		msg, nt, classes := c27Check(c)
		if msg != "" {
			rt.Fatalf("C27 violated: %s\ncase: %s", msg, c)
		}
		rec.Case(c.String(), nt, classes...)
	})
}
