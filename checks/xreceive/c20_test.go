package xreceive

// C20 Adding a node to a ketama ring only moves series onto the new node.
//
// Domain: ketama ring of 1..12 endpoints without availability zones, RF 1..min(5,n), one additional
// endpoint with a fresh address inserted at any position of the endpoint list, 2 tenants x 100 series.
// Oracle (on replica SETS, as the statement): after \ before is empty or {new}; |before \ after| <= 1;
// a series whose replicas do not include the new endpoint keeps exactly its replica set.
// Deviation from DESIGN: the order of the replicas of unmoved series is recorded as a class
// ("unmoved-order-changed") but not asserted - the statement speaks about replica sets only.

import (
	"fmt"
	"testing"

	"pgregory.net/rapid"

	"github.com/thanos-io/thanos/pkg/store/storepb/prompb"

	"github.com/thanos-io/thanos/pkg/receive"
	"github.com/thanos-io/thanos/verifx/kit"
)

type c20Case struct {
	eps     []receive.Endpoint
	added   receive.Endpoint
	pos     int
	rf      int
	tenants []string
	salt    int
	nser    int
	// afterOverride: the ring under test is listed after a hashring that overrides the algorithm (see ringBuild)
	afterOverride bool
}

func (c c20Case) String() string {
	return fmt.Sprintf("rf=%d tenants=%q salt=%d afterOverride=%v eps=[%s] add=%s at %d", c.rf, c.tenants, c.salt, c.afterOverride, ringRenderEndpoints(c.eps), c.added.Address, c.pos)
}

func (c c20Case) after() []receive.Endpoint {
	out := make([]receive.Endpoint, 0, len(c.eps)+1)
	out = append(out, c.eps[:c.pos]...)
	out = append(out, c.added)
	out = append(out, c.eps[c.pos:]...)
	return out
}

func c20Check(c c20Case) (string, bool, []string) {
	before, err := ringBuild(receive.AlgorithmKetama, uint64(c.rf), c.eps, c.afterOverride)
	if err != nil {
		return "building the ring failed: " + err.Error(), false, nil
	}
	after, err := ringBuild(receive.AlgorithmKetama, uint64(c.rf), c.after(), c.afterOverride)
	if err != nil {
		return "building the enlarged ring failed: " + err.Error(), false, nil
	}
	moved, orderChanged := 0, 0
	one := func(tenant string, ts *prompb.TimeSeries) string {
		rb, err := replicasOf(before, tenant, ts, c.rf)
		if err != nil {
			return fmt.Sprintf("series %s before: %v", renderSeries(ts), err)
		}
		ra, err := replicasOf(after, tenant, ts, c.rf)
		if err != nil {
			return fmt.Sprintf("series %s after: %v", renderSeries(ts), err)
		}
		sb, sa := map[receive.Endpoint]bool{}, map[receive.Endpoint]bool{}
		for _, e := range rb {
			sb[e] = true
		}
		for _, e := range ra {
			sa[e] = true
		}
		gained, lost := 0, 0
		for e := range sa {
			if !sb[e] {
				gained++
				if e != c.added {
					return fmt.Sprintf("tenant %q series %s moved onto pre-existing node %s: before %s after %s", tenant, renderSeries(ts), e.Address, renderReplicas(rb), renderReplicas(ra))
				}
			}
		}
		for e := range sb {
			if !sa[e] {
				lost++
			}
		}
		if lost > 1 {
			return fmt.Sprintf("tenant %q series %s lost %d replicas: before %s after %s", tenant, renderSeries(ts), lost, renderReplicas(rb), renderReplicas(ra))
		}
		if !sa[c.added] && (gained != 0 || lost != 0) {
			return fmt.Sprintf("tenant %q series %s changed without the new node: before %s after %s", tenant, renderSeries(ts), renderReplicas(rb), renderReplicas(ra))
		}
		if sa[c.added] {
			moved++
		} else {
			for n := range rb {
				if rb[n] != ra[n] {
					orderChanged++
					break
				}
			}
		}
		return ""
	}
	for _, tenant := range c.tenants {
		for i := 0; i < c.nser; i++ {
			if msg := one(tenant, mkSeries(c.salt, i)); msg != "" {
				return msg, false, nil
			}
		}
	}
	// Boundary inputs: series whose hash is among the lowest and the highest of a large pool, so that
	// the first and the last sections of the ring (where the successor walk wraps around) are
	// exercised in every case and not only with probability ~1/(1000*nodes) per series.
	for _, ts := range ringEdgeSeries() {
		if msg := one(ringEdgeTenant, ts); msg != "" {
			return msg + " (ring-edge series)", false, nil
		}
	}
	var classes []string
	switch {
	case c.pos == 0:
		classes = append(classes, "insert-first")
	case c.pos == len(c.eps):
		classes = append(classes, "insert-last")
	default:
		classes = append(classes, "insert-middle")
	}
	if moved > 0 {
		classes = append(classes, "moved")
	}
	if moved == c.nser*len(c.tenants) {
		classes = append(classes, "all-series-moved")
	}
	if orderChanged > 0 {
		classes = append(classes, "unmoved-order-changed")
	}
	if c.rf == len(c.eps) {
		classes = append(classes, "rf==nodes")
	}
	if c.rf >= 2 {
		classes = append(classes, "rf>=2")
	}
	return "", moved > 0, classes
}

func c20Gen(rt *rapid.T) c20Case {
	n := rapid.IntRange(1, 12).Draw(rt, "nodes")
	addrs := genAddresses(rt, n+1)
	capnp := rapid.Bool().Draw(rt, "capnp")
	all := make([]receive.Endpoint, n+1)
	for i := range all {
		all[i].Address = addrs[i]
		if capnp {
			all[i].CapNProtoAddress = addrs[i] + "9"
		}
	}
	hi := n
	if hi > 5 {
		hi = 5
	}
	k := rapid.IntRange(0, n).Draw(rt, "newIdx") // which of the n+1 distinct addresses is the new one
	c := c20Case{added: all[k], nser: 100}
	c.eps = append(c.eps, all[:k]...)
	c.eps = append(c.eps, all[k+1:]...)
	c.pos = rapid.IntRange(0, n).Draw(rt, "pos")
	c.rf = rapid.IntRange(1, hi).Draw(rt, "rf")
	c.salt = rapid.IntRange(0, 999).Draw(rt, "salt")
	c.afterOverride = rapid.IntRange(0, 3).Draw(rt, "afterAlgorithmOverride") == 0
	c.tenants = []string{genTenant(rt), "tenant-" + rapid.StringMatching(`[a-c]{0,2}`).Draw(rt, "tenant2")}
	return c
}

func TestVerifC20(t *testing.T) {
	rec := kit.For(t, "C20")
	ep := func(a string) receive.Endpoint { return receive.Endpoint{Address: a} }
	fixed := []c20Case{
		{eps: []receive.Endpoint{ep("node-1"), ep("node-2"), ep("node-3")}, added: ep("node-4"), pos: 3, rf: 1, tenants: []string{"tenant"}, nser: 500},
		{eps: []receive.Endpoint{ep("node-1"), ep("node-2"), ep("node-4"), ep("node-5")}, added: ep("node-3"), pos: 2, rf: 3, tenants: []string{"tenant", ""}, nser: 500},
		{eps: []receive.Endpoint{ep("node-1")}, added: ep("node-0"), pos: 0, rf: 1, tenants: []string{"t"}, nser: 500},
	}
	if !fixedInputs("C20") {
		fixed = nil
	}
	for i, c := range fixed {
		msg, nt, classes := c20Check(c)
		if msg != "" {
			rec.Violation(t, "fixed input %d: %s | case: %s", i, msg, c)
		}
		rec.Case(c.String(), nt, append(classes, "fixed-input")...)
	}
	rec.Check(t, func(rt *rapid.T) {
		c := c20Gen(rt)
		msg, nt, classes := c20Check(c)
		if msg != "" {
			rt.Fatalf("C20 violated: %s\ncase: %s", msg, c)
		}
		if c.afterOverride {
			classes = append(classes, "listed-after-algorithm-override")
		}
		rec.Case(c.String(), nt, classes...)
	})
}
