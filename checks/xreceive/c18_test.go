package xreceive

// C18 Hashring places each series on distinct, deterministic, zone-balanced nodes.
//
// Domain: one hashring (hashmod without zones / ketama with 0..4 zones of unbalanced sizes, "" being
// a zone like any other when mixed with named zones) of 1..12 endpoints with pairwise distinct
// addresses, RF 1..min(5,n), a tenant, 50 series, a permutation of the endpoint list. Layouts whose
// zones cannot be filled level by level up to RF (ringMaxRF) are not built: on the unchanged tree
// newKetamaHashring never returns for them (C19); RF is clamped to the largest buildable value instead,
// which is exactly the boundary where zones sit on different levels.
// Oracle: for n in [0,RF) GetN succeeds and returns configured endpoints that are pairwise distinct;
// the same answers from an independently built ring and from a ring built from the permuted list;
// with >= 2 zones the per-zone replica counts (zones without a replica count 0) differ by at most 1.
// Deviation from DESIGN: "GetN(n >= nodes) => error" is not asserted (not part of the statement).

import (
	"fmt"
	"testing"

	"pgregory.net/rapid"

	"github.com/thanos-io/thanos/pkg/receive"
	"github.com/thanos-io/thanos/verifx/kit"
)

type c18Case struct {
	alg    receive.HashringAlgorithm
	eps    []receive.Endpoint
	perm   []receive.Endpoint
	rf     int
	tenant string
	salt   int
	nser   int
	twin   bool // also build a second ring from the identical list
	// afterOverride: the ring under test is listed after a hashring that overrides the algorithm (see ringBuild)
	afterOverride bool
}

func (c c18Case) String() string {
	return fmt.Sprintf("alg=%s rf=%d tenant=%q salt=%d afterOverride=%v eps=[%s] perm=[%s]", c.alg, c.rf, c.tenant, c.salt, c.afterOverride, ringRenderEndpoints(c.eps), ringRenderEndpoints(c.perm))
}

func c18SameOrder(a, b []receive.Endpoint) bool {
	for i := range a {
		if a[i] != b[i] {
			return false
		}
	}
	return true
}

// c18Check is the oracle; it returns an error text or "", the non-trivial flag and classes.
func c18Check(c c18Case) (string, bool, []string) {
	var classes []string
	sizes := ringZoneSizes(c.eps)
	zones := len(sizes)
	configured := map[receive.Endpoint]bool{}
	for _, e := range c.eps {
		configured[e] = true
	}
	a, err := ringBuild(c.alg, uint64(c.rf), c.eps, c.afterOverride)
	if err != nil {
		return "building the ring failed: " + err.Error(), false, nil
	}
	p, err := ringBuild(c.alg, uint64(c.rf), c.perm, c.afterOverride)
	if err != nil {
		return "building the ring from the permuted list failed: " + err.Error(), false, nil
	}
	rings := []receive.Hashring{p}
	names := []string{"ring built from the permuted endpoint list"}
	if c.twin {
		b, err := ringBuild(c.alg, uint64(c.rf), c.eps, c.afterOverride)
		if err != nil {
			return "building the ring a second time failed: " + err.Error(), false, nil
		}
		rings = append(rings, b)
		names = append(names, "second ring built from the same list")
	}
	unevenSeen := false
	// the generated series plus boundary inputs at both ends of the hash space (ring wrap-around), only
	// for ketama: hashmod has no ring.
	edge := ringEdgeSeries()
	if c.alg != receive.AlgorithmKetama {
		edge = nil
	}
	for i := 0; i < c.nser+len(edge); i++ {
		ts, tenant := mkSeries(c.salt, i), c.tenant
		if i >= c.nser {
			ts, tenant = edge[i-c.nser], ringEdgeTenant
		}
		ra, err := replicasOf(a, tenant, ts, c.rf)
		if err != nil {
			return fmt.Sprintf("series %s: %v", renderSeries(ts), err), false, nil
		}
		seen := map[receive.Endpoint]bool{}
		perZone := map[string]int{}
		for n, e := range ra {
			if !configured[e] {
				return fmt.Sprintf("series %s: replica %d is %v, not a configured endpoint", renderSeries(ts), n, e), false, nil
			}
			if seen[e] {
				return fmt.Sprintf("series %s: replicas not pairwise distinct: %s", renderSeries(ts), renderReplicas(ra)), false, nil
			}
			seen[e] = true
			perZone[e.AZ]++
		}
		for k, h := range rings {
			rb, err := replicasOf(h, tenant, ts, c.rf)
			if err != nil {
				return fmt.Sprintf("series %s on the %s: %v", renderSeries(ts), names[k], err), false, nil
			}
			for n := range ra {
				if ra[n] != rb[n] {
					return fmt.Sprintf("series %s: replica %d differs on the %s: %s vs %s", renderSeries(ts), n, names[k], renderReplicas(ra), renderReplicas(rb)), false, nil
				}
			}
		}
		if zones >= 2 {
			lo, hi := c.rf, 0
			for z := range sizes {
				if perZone[z] < lo {
					lo = perZone[z]
				}
				if perZone[z] > hi {
					hi = perZone[z]
				}
			}
			if hi-lo > 1 {
				return fmt.Sprintf("series %s: replicas per zone differ by %d (%v) although zones {%s} can hold RF=%d within 1: %s", renderSeries(ts), hi-lo, perZone, ringRenderSizes(sizes), c.rf, renderReplicas(ra)), false, nil
			}
			if hi != lo {
				unevenSeen = true
			}
		}
	}
	permuted := !c18SameOrder(c.eps, c.perm)
	if permuted {
		classes = append(classes, "permuted")
	}
	if zones >= 2 {
		classes = append(classes, fmt.Sprintf("zones-%d", zones))
		if c.rf > zones {
			classes = append(classes, "rf>zones")
		}
		if unevenSeen {
			classes = append(classes, "zone-levels-differ")
		}
		if c.rf == ringMaxRF(sizes) && c.rf < len(c.eps) {
			classes = append(classes, "rf-at-zone-capacity")
		}
		if _, ok := sizes[""]; ok {
			classes = append(classes, "unnamed-zone-mixed")
		}
	}
	if c.rf >= 2 {
		classes = append(classes, "rf>=2")
	}
	if c.rf == len(c.eps) {
		classes = append(classes, "rf==nodes")
	}
	nt := (zones >= 2 && c.rf >= 2) || permuted
	return "", nt, append(classes, "alg-"+string(c.alg))
}

func c18Gen(rt *rapid.T) (c18Case, []string) {
	var classes []string
	n := rapid.IntRange(1, 12).Draw(rt, "nodes")
	alg := rapid.SampledFrom([]receive.HashringAlgorithm{receive.AlgorithmHashmod, receive.AlgorithmKetama, receive.AlgorithmKetama, receive.AlgorithmKetama}).Draw(rt, "alg")
	addrs := genAddresses(rt, n)
	eps := make([]receive.Endpoint, n)
	capnp := rapid.Bool().Draw(rt, "capnp")
	for i := range eps {
		eps[i].Address = addrs[i]
		if capnp {
			eps[i].CapNProtoAddress = addrs[i] + "9"
		}
	}
	if alg == receive.AlgorithmKetama {
		zc := rapid.IntRange(0, 4).Draw(rt, "zones")
		if zc > 0 {
			pool := rapid.Permutation([]string{"", "a", "b", "az-1", "az-10", "eu-west-1c"}).Draw(rt, "zoneNames")[:zc]
			skew := rapid.Bool().Draw(rt, "skew")
			for i := range eps {
				z := rapid.IntRange(0, zc-1).Draw(rt, "zone")
				if skew {
					if z2 := rapid.IntRange(0, zc-1).Draw(rt, "zone2"); z2 < z {
						z = z2
					}
				}
				eps[i].AZ = pool[z]
			}
		}
	}
	hi := n
	if hi > 5 {
		hi = 5
	}
	rf := rapid.IntRange(1, hi).Draw(rt, "rf")
	if rapid.IntRange(0, 3).Draw(rt, "rfHigh") == 0 {
		rf = hi // push towards the zone capacity / RF == nodes boundary
	}
	if m := ringMaxRF(ringZoneSizes(eps)); rf > m {
		rf = m
		classes = append(classes, "rf-clamped-to-buildable")
	}
	c := c18Case{alg: alg, eps: eps, rf: rf, salt: rapid.IntRange(0, 999).Draw(rt, "salt"), nser: 50}
	c.tenant = genTenant(rt)
	c.perm = rapid.Permutation(eps).Draw(rt, "perm")
	c.twin = rapid.IntRange(0, 2).Draw(rt, "twin") == 0
	c.afterOverride = rapid.IntRange(0, 3).Draw(rt, "afterAlgorithmOverride") == 0
	return c, classes
}

func TestVerifC18(t *testing.T) {
	rec := kit.For(t, "C18")
	// fixed inputs: the documented 6-node / 3-zone layout, an unbalanced layout at its capacity, hashmod reversed.
	ep := func(a, z string) receive.Endpoint { return receive.Endpoint{Address: a, AZ: z} }
	fixed := []c18Case{
		{alg: receive.AlgorithmKetama, rf: 3, tenant: "t", nser: 200,
			eps:  []receive.Endpoint{ep("127.0.0.1:10907", "A"), ep("127.0.0.1:11907", "B"), ep("127.0.0.1:12907", "C"), ep("127.0.0.1:13907", "A"), ep("127.0.0.1:14907", "B"), ep("127.0.0.1:15907", "C")},
			perm: []receive.Endpoint{ep("127.0.0.1:15907", "C"), ep("127.0.0.1:14907", "B"), ep("127.0.0.1:13907", "A"), ep("127.0.0.1:12907", "C"), ep("127.0.0.1:11907", "B"), ep("127.0.0.1:10907", "A")}},
		{alg: receive.AlgorithmKetama, rf: 3, tenant: "", nser: 200, twin: true,
			eps:  []receive.Endpoint{ep("a1", "A"), ep("a2", "A"), ep("a3", "A"), ep("b1", "B")},
			perm: []receive.Endpoint{ep("b1", "B"), ep("a3", "A"), ep("a1", "A"), ep("a2", "A")}},
		{alg: receive.AlgorithmHashmod, rf: 3, tenant: "t", nser: 200,
			eps:  []receive.Endpoint{ep("n1", ""), ep("n2", ""), ep("n3", "")},
			perm: []receive.Endpoint{ep("n3", ""), ep("n2", ""), ep("n1", "")}},
	}
	if !fixedInputs("C18") {
		fixed = nil
	}
	for i, c := range fixed {
		msg, nt, classes := c18Check(c)
		if msg != "" {
			rec.Violation(t, "fixed input %d: %s | case: %s", i, msg, c)
		}
		rec.Case(c.String(), nt, append(classes, "fixed-input")...)
	}
	rec.Check(t, func(rt *rapid.T) {
		c, gclasses := c18Gen(rt)
		msg, nt, classes := c18Check(c)
		if msg != "" {
			rt.Fatalf("C18 violated: %s\ncase: %s", msg, c)
		}
		rec.Case(c.String(), nt, append(classes, gclasses...)...)
	})
}
