package xreceive

// C21 Shuffle-sharded tenants get stable, correctly sized sub-rings.
//
// Access: exported API only (receive.NewMultiHashring with a ShuffleShardingConfig, Hashring.GetN).
// The tenant's sub-ring is observed as the set of endpoints GetN hands out over a series list that is
// extended until the set reaches the expected size (at least c21MinSeries, at most c21MaxSeries series);
// "never more than the expected nodes (per zone)" is exact, "not fewer" rests on that saturation
// sampling (a node of a k-node sub-ring missed by 4000 series has probability < e^-100).
//
// Domain: ketama base ring of 1..4 zones x 1..5 nodes (unbalanced), RF 1..3 (clamped so the base ring
// is buildable, see C19), zone awareness on/off, default shard size, 0..3 overrides (exact / glob /
// matcher type omitted), cache size 0(default) / 1..3, 2..6 tenants, a visit schedule with revisits.
// Excluded by construction: zone awareness off with >= 2 zones and RF >= 3 (the tenant sub-ring may
// then be an unbalanced zone layout on which newKetamaHashring never returns - C19's defect, it would
// hang GetN); shard sizes below RF (sub-ring smaller than RF is a configuration error).
// Oracle per tenant, with ss = shard size selected by the first matching override (reference matcher)
// else the default, Z = number of zones (1 if zone awareness is off), take = ceil(ss/Z) (ss if off):
//   * a zone (the ring, if off) with fewer than take nodes => every GetN fails (never a short shard);
//   * otherwise every GetN(n<RF) succeeds with configured endpoints, the observed set has exactly take
//     nodes in every zone (exactly ss nodes if off);
//   * the observed set is identical on every later visit (cache hit, after LRU eviction) and on a
//     second, independently built ring visited in reverse order.

import (
	"fmt"
	"sort"
	"strings"
	"testing"

	"github.com/prometheus/client_golang/prometheus"
	"pgregory.net/rapid"

	"github.com/thanos-io/thanos/pkg/receive"
	"github.com/thanos-io/thanos/verifx/kit"
)

const (
	sigC21EmptyMatcher = "C21/override-without-matcher-type-ignored"
	c21MinSeries       = 60
	c21MaxSeries       = 4000
)

type c21Override struct {
	kind    string // "exact", "glob", "" (matcher type omitted: exact is the documented default)
	tenants []string
	size    int
}

type c21Case struct {
	eps       []receive.Endpoint
	rf        int
	unaware   bool
	shard     int
	cache     int
	overrides []c21Override
	tenants   []string
	visits    []int
	salt      int
}

func (c c21Case) String() string {
	var sb strings.Builder
	fmt.Fprintf(&sb, "rf=%d unaware=%v shard=%d cache=%d zones={%s} ", c.rf, c.unaware, c.shard, c.cache, ringRenderSizes(ringZoneSizes(c.eps)))
	for _, o := range c.overrides {
		fmt.Fprintf(&sb, "ov(%s%q=%d) ", o.kind, o.tenants, o.size)
	}
	fmt.Fprintf(&sb, "tenants=%q visits=%v salt=%d first=%s", c.tenants, c.visits, c.salt, c.eps[0].Address)
	return sb.String()
}

func (c c21Case) config() []receive.HashringConfig {
	sc := receive.ShuffleShardingConfig{ShardSize: c.shard, CacheSize: c.cache, ZoneAwarenessDisabled: c.unaware}
	for _, o := range c.overrides {
		oc := receive.ShuffleShardingOverrideConfig{ShardSize: o.size, Tenants: append([]string(nil), o.tenants...)}
		switch o.kind {
		case "exact":
			oc.TenantMatcherType = receive.TenantMatcherTypeExact
		case "glob":
			oc.TenantMatcherType = receive.TenantMatcherGlob
		}
		sc.Overrides = append(sc.Overrides, oc)
	}
	return []receive.HashringConfig{{Hashring: "h0", Endpoints: append([]receive.Endpoint(nil), c.eps...), ShuffleShardingConfig: sc}}
}

// c21ShardSize resolves the tenant's shard size with the reference matcher. skipUntyped=true ignores
// overrides whose matcher type is omitted. It also reports the kind of the override that matched.
func c21ShardSize(c c21Case, tenant string, skipUntyped bool) (int, string) {
	for _, o := range c.overrides {
		if o.kind == "" && skipUntyped {
			continue
		}
		for _, x := range o.tenants {
			if (o.kind == "glob" && globMatch(x, tenant)) || (o.kind != "glob" && x == tenant) {
				k := o.kind
				if k == "" {
					k = "untyped"
				}
				return o.size, k
			}
		}
	}
	return c.shard, "default"
}

type c21Obs struct {
	failed bool
	set    map[receive.Endpoint]bool
	nser   int
}

func (o c21Obs) render() string {
	if o.failed {
		return "error"
	}
	var s []string
	for e := range o.set {
		s = append(s, e.Address+"@"+e.AZ)
	}
	sort.Strings(s)
	return "{" + strings.Join(s, " ") + "}"
}

// c21Observe asks GetN(n<rf) for series 0..; with nser == 0 it samples until the observed set has
// `want` nodes (>= c21MinSeries, <= c21MaxSeries series), otherwise exactly nser series.
func c21Observe(h receive.Hashring, c c21Case, tenant string, want, nser int, configured map[receive.Endpoint]bool) (c21Obs, string) {
	o := c21Obs{set: map[receive.Endpoint]bool{}}
	okCalls, errCalls := 0, 0
	for i := 0; ; i++ {
		if nser > 0 && i >= nser {
			break
		}
		if nser == 0 && i >= c21MinSeries && (len(o.set) >= want || i >= c21MaxSeries || errCalls > 0) {
			break
		}
		ts := mkSeries(c.salt, i)
		for n := 0; n < c.rf; n++ {
			e, err := h.GetN(tenant, ts, uint64(n))
			if err != nil {
				errCalls++
				continue
			}
			okCalls++
			if !configured[e] {
				return o, fmt.Sprintf("tenant %q series %s replica %d: %v is not a configured endpoint", tenant, renderSeries(ts), n, e)
			}
			o.set[e] = true
		}
		o.nser = i + 1
	}
	if okCalls > 0 && errCalls > 0 {
		return o, fmt.Sprintf("tenant %q: %d GetN calls succeeded and %d failed within one visit", tenant, okCalls, errCalls)
	}
	o.failed = errCalls > 0
	return o, ""
}

func c21SameSet(a, b c21Obs) bool {
	if a.failed != b.failed || len(a.set) != len(b.set) {
		return false
	}
	for e := range a.set {
		if !b.set[e] {
			return false
		}
	}
	return true
}

func c21Check(c c21Case, knownUntyped bool, rec *kit.Rec) (string, bool, []string) {
	classSet := map[string]bool{}
	sizes := ringZoneSizes(c.eps)
	if c.unaware {
		sizes = map[string]int{"": len(c.eps)}
	}
	configured := map[receive.Endpoint]bool{}
	for _, e := range c.eps {
		configured[e] = true
	}
	// expectations per tenant
	type expect struct {
		take, total int
		mustFail    bool
		skipSize    bool
	}
	exp := make([]expect, len(c.tenants))
	nt := false
	for i, tn := range c.tenants {
		ss, kind := c21ShardSize(c, tn, false)
		classSet["size-from-"+kind] = true
		if kind == "glob" {
			nt = true
		}
		if alt, _ := c21ShardSize(c, tn, true); alt != ss && knownUntyped {
			// known finding: an override without matcher type is ignored by getShardSize. Keep the
			// stability clauses for this tenant, drop the size clause.
			exp[i].skipSize = true
			rec.Excluded(sigC21EmptyMatcher)
			classSet["untyped-override-decides(excluded)"] = true
			continue
		} else if alt != ss {
			classSet["untyped-override-decides"] = true
		}
		take := ss
		if !c.unaware {
			take = (ss + len(sizes) - 1) / len(sizes)
			if ss%len(sizes) != 0 {
				classSet["shard-not-multiple-of-zones"] = true
			}
		}
		exp[i].take, exp[i].total = take, take*len(sizes)
		for _, s := range sizes {
			if take > s {
				exp[i].mustFail = true
			}
		}
		if exp[i].mustFail {
			classSet["shard-exceeds-zone"] = true
		}
	}
	build := func() (receive.Hashring, error) {
		return receive.NewMultiHashring(receive.AlgorithmKetama, uint64(c.rf), c.config(), prometheus.NewRegistry())
	}
	a, err := build()
	if err != nil {
		return "NewMultiHashring failed: " + err.Error(), false, nil
	}
	defer a.Close()
	first := make([]*c21Obs, len(c.tenants))
	// LRU model, used for class labels only.
	capacity := c.cache
	if capacity <= 0 {
		capacity = 100
	}
	var lru []int
	evictedSince := map[int]bool{}
	for k, ti := range c.visits {
		tn := c.tenants[ti]
		e := exp[ti]
		if first[ti] == nil {
			nser := 0 // sample until the expected size is reached
			if e.skipSize {
				nser = 400 // size clause dropped: a fixed series list for the stability clauses
			}
			o, msg := c21Observe(a, c, tn, e.total, nser, configured)
			if msg != "" {
				return msg, false, nil
			}
			first[ti] = &o
			if !e.skipSize {
				if e.mustFail && !o.failed {
					return fmt.Sprintf("tenant %q: shard needs %d nodes per zone but zones are {%s}; GetN succeeded with %s instead of failing", tn, e.take, ringRenderSizes(sizes), o.render()), false, nil
				}
				if !e.mustFail {
					if o.failed {
						return fmt.Sprintf("tenant %q: GetN failed although %d nodes per zone fit zones {%s}", tn, e.take, ringRenderSizes(sizes)), false, nil
					}
					perZone := map[string]int{}
					for ep := range o.set {
						z := ep.AZ
						if c.unaware {
							z = ""
						}
						perZone[z]++
					}
					for z := range sizes {
						if perZone[z] != e.take {
							return fmt.Sprintf("tenant %q: sub-ring has %d nodes in zone %q, expected %d (shard set %s observed over %d series, zones {%s})", tn, perZone[z], z, e.take, o.render(), o.nser, ringRenderSizes(sizes)), false, nil
						}
					}
				}
			}
		} else {
			o, msg := c21Observe(a, c, tn, 0, first[ti].nser, configured)
			if msg != "" {
				return msg, false, nil
			}
			if !c21SameSet(*first[ti], o) {
				return fmt.Sprintf("tenant %q: sub-ring changed between visits: first %s, visit %d %s", tn, first[ti].render(), k, o.render()), false, nil
			}
			if !o.failed {
				if evictedSince[ti] {
					classSet["revisit-after-eviction"] = true
					nt = true
				} else {
					classSet["revisit-cached"] = true
				}
			}
		}
		if !first[ti].failed {
			pos := -1
			for j, x := range lru {
				if x == ti {
					pos = j
				}
			}
			if pos >= 0 {
				lru = append(lru[:pos], lru[pos+1:]...)
			}
			lru = append(lru, ti)
			delete(evictedSince, ti)
			if len(lru) > capacity {
				evictedSince[lru[0]] = true
				lru = lru[1:]
			}
		}
	}
	// second ring instance, tenants in reverse order of first appearance
	b, err := build()
	if err != nil {
		return "NewMultiHashring failed: " + err.Error(), false, nil
	}
	defer b.Close()
	for ti := len(c.tenants) - 1; ti >= 0; ti-- {
		if first[ti] == nil {
			continue
		}
		o, msg := c21Observe(b, c, c.tenants[ti], 0, first[ti].nser, configured)
		if msg != "" {
			return msg, false, nil
		}
		if !c21SameSet(*first[ti], o) {
			return fmt.Sprintf("tenant %q: sub-ring differs on a second ring instance: %s vs %s", c.tenants[ti], first[ti].render(), o.render()), false, nil
		}
	}
	if c.unaware {
		classSet["zone-unaware"] = true
	} else {
		classSet[fmt.Sprintf("zone-aware-%d", len(sizes))] = true
	}
	classes := make([]string, 0, len(classSet))
	for k := range classSet {
		classes = append(classes, k)
	}
	return "", nt, classes
}

func c21Gen(rt *rapid.T) (c21Case, []string) {
	var classes []string
	var c c21Case
	z := rapid.IntRange(1, 4).Draw(rt, "zones")
	names := rapid.Permutation([]string{"", "a", "b", "az-1", "eu-west-1c"}).Draw(rt, "zoneNames")[:z]
	total := 0
	var zsz []int
	for i := 0; i < z; i++ {
		s := rapid.IntRange(1, 5).Draw(rt, "zoneSize")
		zsz = append(zsz, s)
		total += s
	}
	addrs := genAddresses(rt, total)
	k := 0
	for i := 0; i < z; i++ {
		for j := 0; j < zsz[i]; j++ {
			c.eps = append(c.eps, receive.Endpoint{Address: addrs[k], AZ: names[i]})
			k++
		}
	}
	c.eps = rapid.Permutation(c.eps).Draw(rt, "order")
	c.unaware = rapid.IntRange(0, 2).Draw(rt, "unaware") == 0
	c.rf = rapid.IntRange(1, 3).Draw(rt, "rf")
	if m := ringMaxRF(ringZoneSizes(c.eps)); c.rf > m {
		c.rf = m
	}
	if c.unaware && z >= 2 && c.rf >= 3 {
		c.rf = 2
		classes = append(classes, "unaware-multizone-rf-capped-at-2")
	}
	minZone := zsz[0]
	for _, s := range zsz {
		if s < minZone {
			minZone = s
		}
	}
	validMax := total
	if !c.unaware {
		validMax = minZone * z
	}
	genSize := func(label string, hardMax int) int {
		hi := hardMax
		if validMax >= c.rf && rapid.IntRange(0, 3).Draw(rt, label+"Valid") > 0 {
			hi = validMax
		}
		if hi < c.rf {
			hi = c.rf
		}
		return rapid.IntRange(c.rf, hi).Draw(rt, label)
	}
	c.shard = genSize("shard", total) // NewMultiHashring rejects a default shard size above the node count
	c.cache = rapid.SampledFrom([]int{0, 1, 1, 2, 3}).Draw(rt, "cache")
	nameGen := rapid.SampledFrom([]string{"a", "b", "ab", "abc", "team-a", "team-b", "team-ab", "c"})
	nov := rapid.IntRange(0, 3).Draw(rt, "overrides")
	var pool []string
	for i := 0; i < nov; i++ {
		o := c21Override{kind: rapid.SampledFrom([]string{"exact", "glob", "glob", ""}).Draw(rt, "ovKind"), size: genSize("ovSize", total+2)}
		nten := rapid.IntRange(1, 2).Draw(rt, "ovTenants")
		for j := 0; j < nten; j++ {
			if o.kind == "glob" {
				o.tenants = append(o.tenants, c27GenPattern(rt, "ovPat"))
			} else {
				o.tenants = append(o.tenants, nameGen.Draw(rt, "ovName"))
			}
		}
		pool = append(pool, o.tenants...)
		c.overrides = append(c.overrides, o)
	}
	ntn := rapid.IntRange(2, 6).Draw(rt, "tenants")
	seen := map[string]bool{}
	for i := 0; i < ntn; i++ {
		var tn string
		if len(pool) > 0 && rapid.IntRange(0, 2).Draw(rt, "fromOverrides") == 0 {
			tn = rapid.SampledFrom(pool).Draw(rt, "ovEntry")
		} else {
			tn = nameGen.Draw(rt, "tenantName")
		}
		if !seen[tn] {
			seen[tn] = true
			c.tenants = append(c.tenants, tn)
		}
	}
	nv := rapid.IntRange(len(c.tenants), 3*len(c.tenants)).Draw(rt, "visits")
	for i := 0; i < nv; i++ {
		c.visits = append(c.visits, rapid.IntRange(0, len(c.tenants)-1).Draw(rt, "visit"))
	}
	c.salt = rapid.IntRange(0, 999).Draw(rt, "salt")
	return c, classes
}

func TestVerifC21(t *testing.T) {
	rec := kit.For(t, "C21")
	known := kit.KnownFindings("C21")
	six := []receive.Endpoint{{Address: "node-1", AZ: "az-1"}, {Address: "node-2", AZ: "az-1"}, {Address: "node-3", AZ: "az-2"}, {Address: "node-4", AZ: "az-2"}, {Address: "node-5", AZ: "az-3"}, {Address: "node-6", AZ: "az-3"}}
	// saved input of the finding: an override without tenant_matcher_type ("exact" is documented as the default).
	{
		c := c21Case{eps: six, rf: 1, shard: 3, cache: 0, tenants: []string{"special-tenant"}, visits: []int{0},
			overrides: []c21Override{{kind: "", tenants: []string{"special-tenant"}, size: 6}}}
		msg, _, _ := c21Check(c, false, rec)
		if msg != "" {
			if known[sigC21EmptyMatcher] {
				rec.Known(sigC21EmptyMatcher, "shuffle-sharding override {tenants:[special-tenant], shard_size:6} without tenant_matcher_type is ignored: "+msg)
			} else {
				rec.Violation(t, "override without matcher type: %s | case: %s", msg, c)
			}
		}
	}
	fixed := []c21Case{
		{eps: six, rf: 2, shard: 2, cache: 1, tenants: []string{"tenant-1", "prefix-tenant", "other"}, visits: []int{0, 1, 0, 2, 1, 0},
			overrides: []c21Override{{kind: "glob", tenants: []string{"prefix*"}, size: 3}, {kind: "exact", tenants: []string{"other"}, size: 20}}},
		{eps: six, rf: 2, shard: 1, cache: 2, unaware: true, tenants: []string{"prefix-tenant", "x"}, visits: []int{0, 1, 0},
			overrides: []c21Override{{kind: "glob", tenants: []string{"prefix*"}, size: 3}}},
	}
	fixed[1].shard = 2 // shard >= RF
	if !fixedInputs("C21") {
		fixed = nil
	}
	for i, c := range fixed {
		msg, nt, classes := c21Check(c, known[sigC21EmptyMatcher], rec)
		if msg != "" {
			rec.Violation(t, "fixed input %d: %s | case: %s", i, msg, c)
		}
		rec.Case(c.String(), nt, append(classes, "fixed-input")...)
	}
	rec.Check(t, func(rt *rapid.T) {
		c, gclasses := c21Gen(rt)
		msg, nt, classes := c21Check(c, known[sigC21EmptyMatcher], rec)
		if msg != "" {
			rt.Fatalf("C21 violated: %s\ncase: %s", msg, c)
		}
		rec.Case(c.String(), nt, append(classes, gclasses...)...)
	})
}
