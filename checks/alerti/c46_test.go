package alert

// C46 The alert queue is a bounded FIFO that never loses a wake-up.
//
// TestVerifC46 (sequential, model-based): a rapid state machine drives one Queue with Push(k alerts, k
// around the capacity, some dropped by an alert relabel config) and Pop; the model is a bounded deque
// that drops its oldest entries. After every step: queue content == model, Len <= capacity, every
// batch <= maxBatchSize and equal to the model's batch (FIFO), and the wake-up invariant
// len(queue) > 0  =>  a signal is pending on morec.
//
// TestVerifC46_Concurrent (schedules sampled from the runtime; thorough tier runs it under -race):
// 2..6 pushers with uniquely numbered alerts and one popper, in 1..3 rounds. At the end of every round
// the pushers have finished and the popper has been stopped, so the state is quiescent and the wake-up
// invariant is evaluated on it (no timeout decides anything); then the queue is drained on the test
// goroutine. Every popped alert was pushed and survived relabelling, none is popped twice, per-pusher
// order is preserved, batches <= maxBatchSize, Len <= capacity whenever observed, and the number of
// alerts that never came out equals the queue's own dropped counter (0 when the capacity was never
// exceeded by construction).

import (
	"fmt"
	"runtime"
	"strings"
	"sync"
	"testing"

	promtestutil "github.com/prometheus/client_golang/prometheus/testutil"
	"github.com/prometheus/common/model"
	"github.com/prometheus/prometheus/model/labels"
	"github.com/prometheus/prometheus/model/relabel"
	"github.com/prometheus/prometheus/notifier"
	"pgregory.net/rapid"

	"github.com/thanos-io/thanos/verifx/kit"
)

type c46Cfg struct {
	Capacity int
	MaxBatch int
	Relabel  bool // a relabel config drops alerts labelled drop="1"
	ExtLset  bool // external labels + an excluded label (exercises the label rewriting in Push)
}

func c46GenCfg(t *rapid.T) c46Cfg {
	return c46Cfg{
		Capacity: rapid.IntRange(1, 8).Draw(t, "capacity"),
		MaxBatch: rapid.IntRange(1, 6).Draw(t, "maxBatch"),
		Relabel:  rapid.Bool().Draw(t, "relabel"),
		ExtLset:  rapid.Bool().Draw(t, "extLset"),
	}
}

func c46NewQueue(c c46Cfg) *Queue {
	var cfgs []*relabel.Config
	if c.Relabel {
		cfgs = []*relabel.Config{{
			SourceLabels:         model.LabelNames{"drop"},
			Separator:            ";",
			Regex:                relabel.MustNewRegexp("1"),
			Action:               relabel.Drop,
			NameValidationScheme: model.UTF8Validation,
		}}
	}
	ext, excl := labels.EmptyLabels(), []string(nil)
	if c.ExtLset {
		ext, excl = labels.FromStrings("cluster", "c", "replica", "r"), []string{"replica", "tmp"}
	}
	return NewQueue(nil, nil, c.Capacity, c.MaxBatch, ext, excl, cfgs)
}

// c46Alert builds an alert whose identity (GeneratorURL) is untouched by relabelling.
func c46Alert(id string, drop bool) *notifier.Alert {
	ls := []string{"alertname", "a", "id", id, "tmp", "x"}
	if drop {
		ls = append(ls, "drop", "1")
	}
	return &notifier.Alert{Labels: labels.FromStrings(ls...), GeneratorURL: id}
}

func c46IDs(as []*notifier.Alert) []string {
	out := make([]string, len(as))
	for i, a := range as {
		out[i] = a.GeneratorURL
	}
	return out
}

func c46Same(a, b []string) bool {
	if len(a) != len(b) {
		return false
	}
	for i := range a {
		if a[i] != b[i] {
			return false
		}
	}
	return true
}

// c46Model is the reference: a bounded deque dropping its oldest entries.
type c46Model struct {
	cap, batch int
	q          []string
	dropped    int
}

// push returns true when the push overflowed the capacity while entries (and hence a signal) were pending.
func (m *c46Model) push(kept []string) (overflowWhilePending bool) {
	if len(kept) == 0 {
		return false
	}
	pending := len(m.q) > 0
	all := append(append([]string{}, m.q...), kept...)
	if d := len(all) - m.cap; d > 0 {
		all = all[d:]
		m.dropped += d
		overflowWhilePending = pending
	}
	m.q = all
	return overflowWhilePending
}

func (m *c46Model) pop() []string {
	n := m.batch
	if n > len(m.q) {
		n = len(m.q)
	}
	b := append([]string{}, m.q[:n]...)
	m.q = m.q[n:]
	return b
}

// c46Invariants checks the queue against the model on a quiescent state.
func c46Invariants(q *Queue, m *c46Model) string {
	got := c46IDs(q.queue)
	if !c46Same(got, m.q) {
		return fmt.Sprintf("queue content %v != model %v", got, m.q)
	}
	if l := q.Len(); l != len(m.q) || l > m.cap {
		return fmt.Sprintf("Len()=%d, model %d, capacity %d", l, len(m.q), m.cap)
	}
	if len(q.queue) > 0 && len(q.morec) != 1 {
		return fmt.Sprintf("%d alerts queued but no wake-up signal pending", len(q.queue))
	}
	return ""
}

func TestVerifC46(t *testing.T) {
	rec := kit.For(t, "C46")
	closed := make(chan struct{})
	close(closed)
	rec.Check(t, func(rt *rapid.T) {
		cfg := c46GenCfg(rt)
		q := c46NewQueue(cfg)
		m := &c46Model{cap: cfg.Capacity, batch: cfg.MaxBatch}
		var hist []string
		next := 0
		overflowPending, relabelDropped, bigBatch, multiBatchDrain, pops := 0, 0, 0, 0, 0
		fail := func(msg string) {
			rt.Fatalf("C46 violated: %s\ncfg=%+v history: %s", msg, cfg, strings.Join(hist, " ; "))
		}
		check := func() {
			if msg := c46Invariants(q, m); msg != "" {
				fail(msg)
			}
		}
		rt.Repeat(map[string]func(*rapid.T){
			"push": func(rt *rapid.T) {
				k := rapid.IntRange(0, cfg.Capacity+3).Draw(rt, "k")
				var alerts []*notifier.Alert
				var kept, ids []string
				for i := 0; i < k; i++ {
					id := fmt.Sprintf("a%d", next)
					next++
					drop := cfg.Relabel && rapid.IntRange(0, 3).Draw(rt, "drop") == 0
					if drop {
						relabelDropped++
						ids = append(ids, id+"!")
					} else {
						kept = append(kept, id)
						ids = append(ids, id)
					}
					alerts = append(alerts, c46Alert(id, drop))
				}
				hist = append(hist, fmt.Sprintf("push%v", ids))
				if len(kept) > cfg.Capacity {
					bigBatch++
				}
				q.Push(alerts)
				if m.push(kept) {
					overflowPending++
				}
				check()
			},
			"pop": func(rt *rapid.T) {
				if len(q.morec) != 1 {
					// nobody would be woken: by the invariant the queue is empty; a terminated Pop returns nil.
					if b := q.Pop(closed); b != nil {
						fail(fmt.Sprintf("Pop with a closed termination channel and no signal returned %v", c46IDs(b)))
					}
					hist = append(hist, "pop(term)")
					check()
					return
				}
				b := q.Pop(nil) // a signal is pending: cannot block
				want := m.pop()
				hist = append(hist, fmt.Sprintf("pop->%v", c46IDs(b)))
				pops++
				if len(b) > cfg.MaxBatch {
					fail(fmt.Sprintf("batch of %d > maxBatchSize %d", len(b), cfg.MaxBatch))
				}
				if !c46Same(c46IDs(b), want) {
					fail(fmt.Sprintf("Pop returned %v, model (FIFO, oldest dropped first) says %v", c46IDs(b), want))
				}
				if len(m.q) > 0 {
					multiBatchDrain++
				}
				check()
			},
			"": func(rt *rapid.T) { check() },
		})
		var classes []string
		add := func(b bool, c string) {
			if b {
				classes = append(classes, c)
			}
		}
		add(overflowPending > 0, "overflow-while-signal-pending")
		add(relabelDropped > 0, "relabel-dropped")
		add(bigBatch > 0, "push-larger-than-capacity")
		add(multiBatchDrain > 0, "pop-leaves-remainder")
		add(pops > 0, "popped")
		rec.Case(fmt.Sprintf("%+v %s", cfg, strings.Join(hist, ";")), overflowPending > 0 && pops > 0, classes...)
	})
}

// ---------------------------------------------------------------------------------------------
// concurrent part

type c46Pusher struct {
	// batches[i] = alerts of the i-th Push; yields[i] = number of runtime.Gosched() calls before it.
	batches [][]*notifier.Alert
	yields  []int
}

type c46Round struct {
	pushers     []c46Pusher
	popperYield int
}

type c46Obs struct {
	mu        sync.Mutex
	errs      []string
	popped    [][]string // batches in pop order (single popper, then the drain)
	concPops  int        // batches popped while pushers were still running
	pushersUp int
}

func (o *c46Obs) errf(format string, a ...any) {
	o.mu.Lock()
	if len(o.errs) < 5 {
		o.errs = append(o.errs, fmt.Sprintf(format, a...))
	}
	o.mu.Unlock()
}

func TestVerifC46_Concurrent(t *testing.T) {
	rec := kit.For(t, "C46")
	rec.Check(t, func(rt *rapid.T) {
		cfg := c46GenCfg(rt)
		noOverflow := rapid.Bool().Draw(rt, "noOverflow")
		nRounds := rapid.IntRange(1, 3).Draw(rt, "rounds")
		nPushers := rapid.IntRange(2, 6).Draw(rt, "pushers")
		// plan everything up front: goroutines draw nothing
		kept := map[string]bool{}
		pusherOf := map[string]int{}
		seqOf := map[string]int{}
		var rounds []c46Round
		total := 0
		seq := make([]int, nPushers)
		var plan []string
		for r := 0; r < nRounds; r++ {
			rd := c46Round{popperYield: rapid.IntRange(0, 3).Draw(rt, "popYield")}
			for p := 0; p < nPushers; p++ {
				var pu c46Pusher
				nPush := rapid.IntRange(0, 4).Draw(rt, "pushes")
				for i := 0; i < nPush; i++ {
					k := rapid.IntRange(1, cfg.Capacity+2).Draw(rt, "k")
					if noOverflow {
						k = rapid.IntRange(1, 3).Draw(rt, "ksmall")
					}
					var b []*notifier.Alert
					for j := 0; j < k; j++ {
						id := fmt.Sprintf("p%d-%d", p, seq[p])
						drop := cfg.Relabel && rapid.IntRange(0, 3).Draw(rt, "drop") == 0
						if !drop {
							kept[id] = true
							total++
						}
						pusherOf[id], seqOf[id] = p, seq[p]
						seq[p]++
						b = append(b, c46Alert(id, drop))
					}
					pu.batches = append(pu.batches, b)
					pu.yields = append(pu.yields, rapid.IntRange(0, 3).Draw(rt, "yield"))
					plan = append(plan, fmt.Sprintf("r%d/p%d:%d", r, p, k))
				}
				rd.pushers = append(rd.pushers, pu)
			}
			rounds = append(rounds, rd)
		}
		if noOverflow {
			// capacity that can never be exceeded: no alert may be lost at all
			cfg.Capacity = total + 1
		}
		q := c46NewQueue(cfg)
		obs := &c46Obs{}
		record := func(b []*notifier.Alert, concurrent bool) {
			if len(b) > cfg.MaxBatch {
				obs.errf("batch of %d > maxBatchSize %d", len(b), cfg.MaxBatch)
			}
			obs.mu.Lock()
			obs.popped = append(obs.popped, c46IDs(b))
			if concurrent && obs.pushersUp > 0 && len(b) > 0 {
				obs.concPops++
			}
			obs.mu.Unlock()
		}
		for _, rd := range rounds {
			termc := make(chan struct{})
			popperDone := make(chan struct{})
			obs.mu.Lock()
			obs.pushersUp = len(rd.pushers)
			obs.mu.Unlock()
			go func() {
				defer close(popperDone)
				for {
					b := q.Pop(termc)
					if b == nil {
						return
					}
					record(b, true)
					if l := q.Len(); l > cfg.Capacity {
						obs.errf("Len()=%d > capacity %d (seen by the popper)", l, cfg.Capacity)
					}
					for i := 0; i < rd.popperYield; i++ {
						runtime.Gosched()
					}
				}
			}()
			var wg sync.WaitGroup
			for _, pu := range rd.pushers {
				wg.Add(1)
				go func(pu c46Pusher) {
					defer wg.Done()
					for i, b := range pu.batches {
						for y := 0; y < pu.yields[i]; y++ {
							runtime.Gosched()
						}
						q.Push(b)
						if l := q.Len(); l > cfg.Capacity {
							obs.errf("Len()=%d > capacity %d (seen by a pusher)", l, cfg.Capacity)
						}
					}
					obs.mu.Lock()
					obs.pushersUp--
					obs.mu.Unlock()
				}(pu)
			}
			wg.Wait()
			close(termc)
			<-popperDone
			// quiescent: no goroutine is inside Push or Pop.
			if len(q.queue) > 0 && len(q.morec) != 1 {
				rt.Fatalf("C46 violated: lost wake-up: %d alerts queued, no signal pending, pushers finished and the popper had been waiting\ncfg=%+v plan=%v popped=%v",
					len(q.queue), cfg, plan, obs.popped)
			}
			// drain on this goroutine: Pop cannot block while a signal is pending
			for len(q.morec) == 1 {
				record(q.Pop(nil), false)
			}
			if l := q.Len(); l != 0 {
				rt.Fatalf("C46 violated: %d alerts left in the queue after draining every pending signal\ncfg=%+v plan=%v", l, cfg, plan)
			}
		}
		if len(obs.errs) > 0 {
			rt.Fatalf("C46 violated: %s\ncfg=%+v plan=%v popped=%v", strings.Join(obs.errs, " | "), cfg, plan, obs.popped)
		}
		// accounting
		seen := map[string]bool{}
		last := make([]int, nPushers)
		for i := range last {
			last[i] = -1
		}
		interleaved := false
		for _, b := range obs.popped {
			ps := map[int]bool{}
			for _, id := range b {
				if !kept[id] {
					rt.Fatalf("C46 violated: popped alert %q was never pushed or should have been dropped by relabelling\ncfg=%+v plan=%v popped=%v", id, cfg, plan, obs.popped)
				}
				if seen[id] {
					rt.Fatalf("C46 violated: alert %q popped twice\ncfg=%+v plan=%v popped=%v", id, cfg, plan, obs.popped)
				}
				seen[id] = true
				p := pusherOf[id]
				if seqOf[id] <= last[p] {
					rt.Fatalf("C46 violated: alerts of pusher %d left the queue out of order (%q after #%d)\ncfg=%+v plan=%v popped=%v", p, id, last[p], cfg, plan, obs.popped)
				}
				last[p] = seqOf[id]
				ps[p] = true
			}
			if len(ps) > 1 {
				interleaved = true
			}
		}
		missing := total - len(seen)
		dropped := int(promtestutil.ToFloat64(q.dropped))
		if noOverflow && missing != 0 {
			rt.Fatalf("C46 violated: %d alerts never came out although the capacity (%d) was never reached\ncfg=%+v plan=%v popped=%v", missing, cfg.Capacity, cfg, plan, obs.popped)
		}
		if missing != dropped {
			rt.Fatalf("C46 violated: %d alerts never came out but the queue accounts for %d dropped\ncfg=%+v plan=%v popped=%v", missing, dropped, cfg, plan, obs.popped)
		}
		var classes []string
		add := func(b bool, c string) {
			if b {
				classes = append(classes, c)
			}
		}
		add(noOverflow, "capacity-never-exceeded")
		add(missing > 0, "overflow-dropped")
		add(interleaved, "batch-mixes-pushers")
		add(obs.concPops > 0, "pop-while-pushers-running")
		add(total == 0, "nothing-pushed")
		// non-trivial: the popper really ran against the pushers, or an overflow happened under concurrency
		rec.Case(fmt.Sprintf("%+v noOverflow=%v plan=%v", cfg, noOverflow, plan), total > 0 && (obs.concPops > 0 || missing > 0), classes...)
	})
}
