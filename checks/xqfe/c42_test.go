package xqfe

// C42 The results cache never changes query results.
//
// Harness: the real queryfrontend.NewTripperware (step alignment on, split interval drawn, in-memory
// FIFO results cache of drawn capacity, vertical sharding off or on) over a fake downstream
// http.RoundTripper that answers /api/v1/query_range from a pure function of (tenant, query, series, t)
// in which series appear and disappear in drawn time windows. A rapid case is a history of 1..8
// requests against one frontend instance (one cache). Oracle: every decoded response equals the
// function evaluated on the step-aligned request (same series set, same (t, v) lists) — that is, the
// answer the downstream gives without any cache. All times lie years in the past, so the cache
// freshness window never applies and the verdict does not depend on the wall clock.

import (
	"bytes"
	"encoding/json"
	"fmt"
	"io"
	"math"
	"net/http"
	"os"
	"sort"
	"strconv"
	"strings"
	"sync"
	"testing"
	"time"

	"github.com/go-kit/log"
	"github.com/prometheus/common/model"
	"github.com/prometheus/prometheus/model/labels"
	"github.com/prometheus/prometheus/promql/parser"
	"pgregory.net/rapid"

	cortexcache "github.com/thanos-io/thanos/internal/cortex/chunk/cache"
	"github.com/thanos-io/thanos/internal/cortex/frontend/transport"
	"github.com/thanos-io/thanos/internal/cortex/querier/queryrange"
	cortexvalidation "github.com/thanos-io/thanos/internal/cortex/util/validation"
	"github.com/thanos-io/thanos/pkg/queryfrontend"
	"github.com/thanos-io/thanos/verifx/kit"
)

// sigC42AltStep: a request whose step has lower "common step" divisors misses its own key, finds an
// extent cached under a lower step (alternative key) whose start/end are not on the request's step
// grid, and partition() continues the request at that extent's boundaries.
const sigC42AltStep = "C42/alternative-step-extent"

// sigC42MergeTie: MergeResponse orders the partial responses by the first sample of their *first
// series* and matrixMerge trusts that order. A downstream piece [p, b] that ends where a cached extent
// begins ties with the extent when the piece's first series appears exactly at b; the cached response
// (listed first) then stays first and every sample of the piece before b is dropped as "overlap".
const sigC42MergeTie = "C42/merge-order-first-series-tie"

// ---- the downstream model ----------------------------------------------------------------------

type c42Window struct{ from, to int64 } // inclusive, milliseconds

type c42Series struct {
	metric  model.Metric
	windows []c42Window
	hist    bool // the query returns native histogram samples for this series
}

type c42World struct {
	queries []string      // normal-form PromQL text
	series  [][]c42Series // per query
}

func (w *c42World) queryIndex(q string) int {
	if e, err := parser.ParseExpr(q); err == nil {
		q = e.String()
	}
	for i, x := range w.queries {
		if x == q {
			return i
		}
	}
	return -1
}

func c42Present(s c42Series, t int64) bool {
	for _, w := range s.windows {
		if t >= w.from && t <= w.to {
			return true
		}
	}
	return false
}

// c42Value is the "stored data": a pure function, exactly representable, different for every
// (tenant, query, series, t) that can meet in one history.
func c42Value(tenant string, qi, si int, t int64) float64 {
	ti := int64(0)
	for _, c := range tenant {
		ti = ti*7 + int64(c)%7
	}
	return float64(t%1_000_000_007) + float64(si)*2e9 + float64(qi)*1e10 + float64(ti%50)*1e11
}

// c42Eval evaluates query qi for tenant on the grid start, start+step, … <= end; shardTotal == 0 means
// all series, otherwise only the series of that shard.
func (w *c42World) eval(tenant string, qi int, start, end, step int64, shardTotal, shardIndex int64) model.Matrix {
	out := model.Matrix{}
	for si, s := range w.series[qi] {
		if shardTotal > 0 && int64(si)%shardTotal != shardIndex {
			continue
		}
		var vals []model.SamplePair
		var hists []model.SampleHistogramPair
		for t := start; t <= end; t += step {
			if !c42Present(s, t) {
				continue
			}
			v := model.SampleValue(c42Value(tenant, qi, si, t))
			if s.hist {
				hists = append(hists, model.SampleHistogramPair{Timestamp: model.Time(t), Histogram: &model.SampleHistogram{
					Count: model.FloatString(v), Sum: model.FloatString(v / 2),
					Buckets: model.HistogramBuckets{{Boundaries: 0, Lower: 0.5, Upper: 1, Count: model.FloatString(v)}},
				}})
			} else {
				vals = append(vals, model.SamplePair{Timestamp: model.Time(t), Value: v})
			}
		}
		if len(vals) > 0 || len(hists) > 0 {
			out = append(out, &model.SampleStream{Metric: s.metric, Values: vals, Histograms: hists})
		}
	}
	// a Prometheus-compatible querier returns the matrix sorted by label set
	sort.SliceStable(out, func(i, j int) bool { return labels.Compare(c42Labels(out[i].Metric), c42Labels(out[j].Metric)) < 0 })
	return out
}

func c42Labels(m model.Metric) labels.Labels {
	mm := make(map[string]string, len(m))
	for k, v := range m {
		mm[string(k)] = string(v)
	}
	return labels.FromMap(mm)
}

// c42DSReq is one request seen by the fake downstream.
type c42DSReq struct {
	tenant, query    string
	start, end, step int64
	shardTotal       int64
	shardIndex       int64
}

type c42Downstream struct {
	world *c42World
	mu    sync.Mutex
	log   []c42DSReq
	errs  []string
}

type c42APIResponse struct {
	Status string `json:"status"`
	Data   struct {
		ResultType string       `json:"resultType"`
		Result     model.Matrix `json:"result"`
	} `json:"data"`
}

func c42ParseMs(s string) (int64, error) {
	f, err := strconv.ParseFloat(s, 64)
	if err != nil {
		return 0, err
	}
	return int64(math.Round(f * 1000)), nil
}

func (d *c42Downstream) fail(format string, a ...any) (*http.Response, error) {
	msg := fmt.Sprintf(format, a...)
	d.mu.Lock()
	d.errs = append(d.errs, msg)
	d.mu.Unlock()
	return &http.Response{StatusCode: 400, Header: http.Header{}, Body: io.NopCloser(strings.NewReader(msg))}, nil
}

func (d *c42Downstream) RoundTrip(r *http.Request) (*http.Response, error) {
	if !strings.HasSuffix(r.URL.Path, "/api/v1/query_range") {
		return d.fail("unexpected path %q", r.URL.Path)
	}
	if err := r.ParseForm(); err != nil {
		return d.fail("bad form: %v", err)
	}
	start, err1 := c42ParseMs(r.FormValue("start"))
	end, err2 := c42ParseMs(r.FormValue("end"))
	step, err3 := c42ParseMs(r.FormValue("step"))
	if err1 != nil || err2 != nil || err3 != nil || step <= 0 || end < start {
		return d.fail("bad range start=%q end=%q step=%q", r.FormValue("start"), r.FormValue("end"), r.FormValue("step"))
	}
	if (end-start)/step > 11000 {
		return d.fail("exceeded maximum resolution of 11,000 points")
	}
	qi := d.world.queryIndex(r.FormValue("query"))
	if qi < 0 {
		return d.fail("unknown query %q", r.FormValue("query"))
	}
	tenant := r.Header.Get("X-Scope-OrgID")
	req := c42DSReq{tenant: tenant, query: d.world.queries[qi], start: start, end: end, step: step}
	if si := r.FormValue("shard_info"); si != "" {
		var info struct {
			ShardIndex  int64 `json:"shard_index"`
			TotalShards int64 `json:"total_shards"`
		}
		if err := json.Unmarshal([]byte(si), &info); err != nil || info.TotalShards <= 0 {
			return d.fail("bad shard_info %q", si)
		}
		req.shardTotal, req.shardIndex = info.TotalShards, info.ShardIndex
	}
	d.mu.Lock()
	d.log = append(d.log, req)
	d.mu.Unlock()

	var resp c42APIResponse
	resp.Status = "success"
	resp.Data.ResultType = "matrix"
	resp.Data.Result = d.world.eval(tenant, qi, start, end, step, req.shardTotal, req.shardIndex)
	body, err := json.Marshal(resp)
	if err != nil {
		return d.fail("marshal: %v", err)
	}
	return &http.Response{
		StatusCode:    200,
		Header:        http.Header{"Content-Type": []string{"application/json"}},
		Body:          io.NopCloser(bytes.NewReader(body)),
		ContentLength: int64(len(body)),
	}, nil
}

// ---- the frontend under test -------------------------------------------------------------------

type c42Config struct {
	interval   int64 // split interval, ms
	numShards  int
	cacheItems int
}

func (c c42Config) String() string {
	return fmt.Sprintf("split=%dms shards=%d cacheItems=%d", c.interval, c.numShards, c.cacheItems)
}

type c42Request struct {
	tenant           string
	query            string
	start, end, step int64
}

func (r c42Request) String() string {
	return fmt.Sprintf("{%s %q step=%d [%d,%d]}", r.tenant, r.query, r.step, r.start, r.end)
}

func c42NewFrontend(cfg c42Config, ds http.RoundTripper) (http.RoundTripper, error) {
	limits := &cortexvalidation.Limits{MaxQueryParallelism: 14, MaxCacheFreshness: model.Duration(time.Minute)}
	tpw, err := queryfrontend.NewTripperware(queryfrontend.Config{
		CortexHandlerConfig: &transport.HandlerConfig{},
		NumShards:           cfg.numShards,
		QueryRangeConfig: queryfrontend.QueryRangeConfig{
			Limits:                 limits,
			AlignRangeWithStep:     true,
			SplitQueriesByInterval: time.Duration(cfg.interval) * time.Millisecond,
			ResultsCacheConfig: &queryrange.ResultsCacheConfig{CacheConfig: cortexcache.Config{
				EnableFifoCache: true,
				Fifocache:       cortexcache.FifoCacheConfig{MaxSizeItems: cfg.cacheItems, Validity: time.Hour},
			}},
		},
		LabelsConfig: queryfrontend.LabelsConfig{Limits: limits, DefaultTimeRange: 24 * time.Hour},
	}, nil, log.NewNopLogger())
	if err != nil {
		return nil, err
	}
	return tpw(ds), nil
}

// c42Issue sends one request through the frontend and decodes the answer.
func c42Issue(fe http.RoundTripper, r c42Request) (model.Matrix, error) {
	httpReq, err := queryfrontend.NewThanosQueryRangeCodec(true).EncodeRequest(tenantCtx(r.tenant), &queryfrontend.ThanosQueryRangeRequest{
		Path: "/api/v1/query_range", Start: r.start, End: r.end, Step: r.step, Query: r.query, Dedup: true,
	})
	if err != nil {
		return nil, fmt.Errorf("encode: %w", err)
	}
	resp, err := fe.RoundTrip(httpReq)
	if err != nil {
		return nil, err
	}
	defer resp.Body.Close()
	body, err := io.ReadAll(resp.Body)
	if err != nil {
		return nil, err
	}
	if resp.StatusCode != 200 {
		return nil, fmt.Errorf("status %d: %s", resp.StatusCode, body)
	}
	var api c42APIResponse
	if err := json.Unmarshal(body, &api); err != nil {
		return nil, fmt.Errorf("decode %q: %w", body, err)
	}
	if api.Status != "success" {
		return nil, fmt.Errorf("status %q", api.Status)
	}
	return api.Data.Result, nil
}

func c42RenderStream(s *model.SampleStream) string {
	var sb strings.Builder
	sb.WriteString(s.Metric.String())
	sb.WriteString(" [")
	for i, p := range s.Values {
		if i > 0 {
			sb.WriteByte(' ')
		}
		if i >= 8 && i < len(s.Values)-4 {
			if i == 8 {
				fmt.Fprintf(&sb, "…(%d)…", len(s.Values)-12)
			}
			continue
		}
		fmt.Fprintf(&sb, "%d", int64(p.Timestamp))
	}
	sb.WriteString("]")
	return sb.String()
}

// c42Compare is the oracle: got must be exactly want (series set and samples); "" if equal.
func c42Compare(got, want model.Matrix) string {
	gm := map[string]*model.SampleStream{}
	for _, s := range got {
		k := s.Metric.String()
		if _, dup := gm[k]; dup {
			return "series " + k + " appears twice in the response"
		}
		gm[k] = s
	}
	for _, w := range want {
		k := w.Metric.String()
		g, ok := gm[k]
		if !ok {
			return "series missing from the response: want " + c42RenderStream(w)
		}
		delete(gm, k)
		for i := 0; i < len(g.Values) || i < len(w.Values); i++ {
			switch {
			case i >= len(g.Values):
				return fmt.Sprintf("sample t=%d of %s is missing (got %d samples, want %d)\n   got  %s\n   want %s", int64(w.Values[i].Timestamp), k, len(g.Values), len(w.Values), c42RenderStream(g), c42RenderStream(w))
			case i >= len(w.Values):
				return fmt.Sprintf("extra sample t=%d of %s (got %d samples, want %d)\n   got  %s\n   want %s", int64(g.Values[i].Timestamp), k, len(g.Values), len(w.Values), c42RenderStream(g), c42RenderStream(w))
			case g.Values[i].Timestamp != w.Values[i].Timestamp:
				return fmt.Sprintf("sample %d of %s has t=%d, want t=%d\n   got  %s\n   want %s", i, k, int64(g.Values[i].Timestamp), int64(w.Values[i].Timestamp), c42RenderStream(g), c42RenderStream(w))
			case math.Float64bits(float64(g.Values[i].Value)) != math.Float64bits(float64(w.Values[i].Value)):
				return fmt.Sprintf("sample t=%d of %s has value %v, want %v", int64(w.Values[i].Timestamp), k, g.Values[i].Value, w.Values[i].Value)
			}
		}
	}
	for _, w := range want {
		k := w.Metric.String()
		var g *model.SampleStream
		for _, x := range got {
			if x.Metric.String() == k {
				g = x
			}
		}
		render := func(hs []model.SampleHistogramPair) string {
			var ts []string
			for _, h := range hs {
				ts = append(ts, strconv.FormatInt(int64(h.Timestamp), 10))
			}
			return "[" + strings.Join(ts, " ") + "]"
		}
		for i := 0; i < len(g.Histograms) || i < len(w.Histograms); i++ {
			switch {
			case i >= len(g.Histograms):
				return fmt.Sprintf("histogram sample t=%d of %s is missing (got %d, want %d)\n   got  %s\n   want %s", int64(w.Histograms[i].Timestamp), k, len(g.Histograms), len(w.Histograms), render(g.Histograms), render(w.Histograms))
			case i >= len(w.Histograms):
				return fmt.Sprintf("extra histogram sample t=%d of %s (got %d, want %d)\n   got  %s\n   want %s", int64(g.Histograms[i].Timestamp), k, len(g.Histograms), len(w.Histograms), render(g.Histograms), render(w.Histograms))
			case g.Histograms[i].Timestamp != w.Histograms[i].Timestamp:
				return fmt.Sprintf("histogram sample %d of %s has t=%d, want t=%d\n   got  %s\n   want %s", i, k, int64(g.Histograms[i].Timestamp), int64(w.Histograms[i].Timestamp), render(g.Histograms), render(w.Histograms))
			}
			gh, wh := g.Histograms[i].Histogram, w.Histograms[i].Histogram
			if gh == nil || gh.Count != wh.Count || gh.Sum != wh.Sum || len(gh.Buckets) != len(wh.Buckets) ||
				gh.Buckets[0].Count != wh.Buckets[0].Count || gh.Buckets[0].Lower != wh.Buckets[0].Lower || gh.Buckets[0].Upper != wh.Buckets[0].Upper {
				return fmt.Sprintf("histogram sample t=%d of %s is %v, want %v", int64(w.Histograms[i].Timestamp), k, gh, wh)
			}
		}
	}
	for k, g := range gm {
		return "response contains a series the query does not return: " + k + " " + c42RenderStream(g)
	}
	return ""
}

// ---- known-finding class (only used to *exclude*, never as an oracle) ---------------------------

// the frontend's list of "common" steps; a request with step S consults the keys of every lower
// common step that divides S when its own key misses.
var c42CommonSteps = []int64{12 * msHour, 6 * msHour, 3 * msHour, 2 * msHour, msHour, 30 * msMinute, 15 * msMinute, 10 * msMinute,
	5 * msMinute, 2 * msMinute, msMinute, 30000, 20000, 15000, 10000, 5000, 1000}

func c42IsCommon(s int64) bool {
	for _, c := range c42CommonSteps {
		if c == s {
			return true
		}
	}
	return false
}

func c42LowerCandidates(s int64) []int64 {
	if !c42IsCommon(s) {
		return nil
	}
	var out []int64
	for _, c := range c42CommonSteps {
		if c < s && s%c == 0 {
			out = append(out, c)
		}
	}
	return out
}

// c42AltState describes what earlier downstream requests of a lower common step mean for request r:
// offGrid — such a request (hence a possible cached extent) overlaps r's interval buckets and has a
// boundary off r's step grid (the known-finding class); onGrid — such requests exist, all on r's grid.
func c42AltState(cfg c42Config, prior []c42DSReq, r c42Request) (offGrid, onGrid bool) {
	cands := c42LowerCandidates(r.step)
	if len(cands) == 0 {
		return false, false
	}
	as, ae := floorDiv(r.start, r.step)*r.step, floorDiv(r.end, r.step)*r.step
	b0, b1 := floorDiv(as, cfg.interval), floorDiv(ae, cfg.interval)
	for _, d := range prior {
		if d.tenant != r.tenant || d.query != r.query {
			continue
		}
		isCand := false
		for _, c := range cands {
			if d.step == c {
				isCand = true
			}
		}
		if !isCand {
			continue
		}
		// the extent of d is stored under the bucket of the split sub-request it came from: the
		// bucket of d.start, or the one before when d continues an extent that ended on the boundary
		db0, db1 := floorDiv(d.start-d.step, cfg.interval), floorDiv(d.start, cfg.interval)
		if db1 < b0 || db0 > b1 {
			continue
		}
		if floorMod(d.start-as, r.step) != 0 || floorMod(d.end-as, r.step) != 0 {
			offGrid = true
		} else {
			onGrid = true
		}
	}
	return offGrid, onGrid
}

func floorMod(a, b int64) int64 {
	m := a % b
	if m < 0 {
		m += b
	}
	return m
}

// c42MergeTieRisk says whether request r is in the class of sigC42MergeTie, conservatively: some
// earlier downstream request of the same tenant/query and of r's step (or of a lower common step whose
// extents r may reuse) starts at a grid point b inside r's range — so a cached extent may begin at b
// and r may be completed by a downstream piece [p, b] — and for some p the answer to that piece has a
// first series whose first sample is at b while another series has an earlier sample. Also true when so
// many extents may exist that one merge sees >= 12 responses (sort.Sort is then not stable on ties).
func c42MergeTieRisk(cfg c42Config, w *c42World, prior []c42DSReq, r c42Request) bool {
	as, ae := floorDiv(r.start, r.step)*r.step, floorDiv(r.end, r.step)*r.step
	steps := append([]int64{r.step}, c42LowerCandidates(r.step)...)
	qi := w.queryIndex(r.query)
	bset := map[int64]bool{}
	overlapping := 0
	for _, d := range prior {
		if d.tenant != r.tenant || d.query != r.query {
			continue
		}
		rel := false
		for _, st := range steps {
			if d.step == st {
				rel = true
			}
		}
		if !rel {
			continue
		}
		if d.end >= as-r.step && d.start <= ae+r.step && (d.shardTotal == 0 || d.shardIndex == 0) {
			overlapping++
		}
		if d.start > as && d.start <= ae && (d.start-as)%r.step == 0 {
			bset[d.start] = true
		}
	}
	if overlapping >= 6 {
		return true
	}
	if len(bset) == 0 {
		return false
	}
	// series in downstream order
	all := w.series[qi]
	order := make([]int, len(all))
	for i := range order {
		order[i] = i
	}
	sort.SliceStable(order, func(i, j int) bool {
		return labels.Compare(c42Labels(all[order[i]].metric), c42Labels(all[order[j]].metric)) < 0
	})
	type subset struct{ total, index int64 }
	subsets := []subset{{0, 0}}
	for k := 0; k < cfg.numShards; k++ {
		subsets = append(subsets, subset{int64(cfg.numShards), int64(k)})
	}
	const none = int64(math.MinInt64)
	for b := range bset {
		for _, sub := range subsets {
			var rank []int   // position in downstream order
			var last []int64 // latest grid point in [as, b) at which the series is present
			var atb []bool
			for pos, si := range order {
				if sub.total > 0 && int64(si)%sub.total != sub.index {
					continue
				}
				l := none
				for _, win := range all[si].windows {
					hi := minI64(win.to, b-r.step)
					if hi < as {
						continue
					}
					t := as + floorDiv(hi-as, r.step)*r.step
					if t >= win.from && t >= as && t > l {
						l = t
					}
				}
				rank = append(rank, pos)
				last = append(last, l)
				atb = append(atb, c42Present(all[si], b))
			}
			for _, c := range last {
				if c == none {
					continue
				}
				// piece [c, b]: P = series with a sample in [c, b), Q = series whose only sample is at b
				minP, minQ := math.MaxInt, math.MaxInt
				for i := range rank {
					switch {
					case last[i] != none && last[i] >= c:
						minP = min(minP, rank[i])
					case atb[i]:
						minQ = min(minQ, rank[i])
					}
				}
				if minP != math.MaxInt && minQ < minP {
					return true
				}
			}
		}
	}
	return false
}

// ---- running a history -------------------------------------------------------------------------

type c42Outcome struct {
	violation string   // "" if every response was right
	harness   string   // a harness problem (never a violation)
	classes   []string // history-level classes
	cachedReq int      // requests served at least partly from the cache
	excluded  []string // signatures of the requests skipped because of a known-finding class
	issued    int
}

// c42RunHistory issues the requests in order against a fresh frontend. Requests in a known-finding
// class listed in skip are not issued at all (so the cache state stays consistent).
func c42RunHistory(cfg c42Config, world *c42World, reqs []c42Request, skip map[string]bool, rec *kit.Rec) c42Outcome {
	var out c42Outcome
	ds := &c42Downstream{world: world}
	fe, err := c42NewFrontend(cfg, ds)
	if err != nil {
		out.harness = "NewTripperware: " + err.Error()
		return out
	}
	classSet := map[string]bool{}
	var issued []c42Request
	for i, r := range reqs {
		offGrid, onGrid := c42AltState(cfg, ds.log, r)
		if offGrid && skip[sigC42AltStep] {
			out.excluded = append(out.excluded, sigC42AltStep)
			continue
		}
		tieRisk := c42MergeTieRisk(cfg, world, ds.log, r)
		if tieRisk && skip[sigC42MergeTie] {
			out.excluded = append(out.excluded, sigC42MergeTie)
			continue
		}
		before := len(ds.log)
		got, err := c42Issue(fe, r)
		out.issued++
		if len(ds.errs) > 0 {
			out.harness = fmt.Sprintf("request %d %s: fake downstream rejected a request: %s", i, r, ds.errs[0])
			return out
		}
		if err != nil {
			out.violation = fmt.Sprintf("request %d %s failed: %v", i, r, err)
			return out
		}
		qi := world.queryIndex(r.query)
		as, ae := floorDiv(r.start, r.step)*r.step, floorDiv(r.end, r.step)*r.step
		want := world.eval(r.tenant, qi, as, ae, r.step, 0, 0)
		if msg := c42Compare(got, want); msg != "" {
			out.violation = fmt.Sprintf("request %d %s (aligned [%d,%d]): %s", i, r, as, ae, msg)
			return out
		}
		// how much of the answer came from the downstream in this round?
		seen := ds.log[before:]
		factor := int64(1)
		for _, d := range seen {
			if d.shardTotal > factor {
				factor = d.shardTotal
			}
		}
		cover := map[int64]int64{}
		for _, d := range seen {
			for t := d.start; t <= d.end; t += d.step {
				cover[t]++
			}
		}
		missing, total := 0, 0
		for t := as; t <= ae; t += r.step {
			total++
			if cover[t] < factor {
				missing++
			}
		}
		switch {
		case missing == total:
			rec.Class("req-served-from-cache-only")
			out.cachedReq++
		case missing > 0:
			rec.Class("req-partly-from-cache")
			out.cachedReq++
		default:
			rec.Class("req-all-downstream")
		}
		if missing > 0 && onGrid && !offGrid {
			classSet["alt-step-extent-on-grid-reused"] = true
		}
		if offGrid {
			classSet["alt-step-extent-off-grid"] = true
		}
		if tieRisk {
			classSet["merge-tie-risk"] = true
		}
		if factor > 1 {
			classSet["sharded-request"] = true
		}
		if floorDiv(as, cfg.interval) != floorDiv(ae, cfg.interval) {
			classSet["request-spans-intervals"] = true
		}
		if as != r.start || ae != r.end {
			classSet["request-unaligned"] = true
		}
		if r.start == r.end {
			classSet["instant-range"] = true
		}
		for _, p := range issued {
			if p.tenant != r.tenant || p.query != r.query {
				continue
			}
			if p.step != r.step {
				classSet["steps-mixed"] = true
				if len(c42LowerCandidates(maxI64(p.step, r.step))) > 0 && maxI64(p.step, r.step)%minI64(p.step, r.step) == 0 && c42IsCommon(minI64(p.step, r.step)) {
					classSet["steps-common-divisor-pair"] = true
				}
				continue
			}
			switch {
			case p.start == r.start && p.end == r.end:
				classSet["rel-identical"] = true
			case r.start >= p.start && r.end <= p.end:
				classSet["rel-nested"] = true
			case r.start > p.end+r.step || r.end+r.step < p.start:
				classSet["rel-disjoint"] = true
			case r.start > p.end || r.end < p.start || r.start == p.end || r.end == p.start:
				classSet["rel-adjacent"] = true
			default:
				classSet["rel-overlap"] = true
			}
		}
		issued = append(issued, r)
	}
	tenants := map[string]bool{}
	for _, r := range issued {
		tenants[r.tenant] = true
	}
	if len(tenants) > 1 {
		classSet["multi-tenant"] = true
	}
	if cfg.cacheItems < 100 {
		classSet["evicting-cache"] = true
	}
	if cfg.numShards > 0 {
		classSet["sharding-on"] = true
	}
	for c := range classSet {
		out.classes = append(out.classes, c)
	}
	sort.Strings(out.classes)
	return out
}

func c42RenderHistory(cfg c42Config, world *c42World, reqs []c42Request) string {
	var sb strings.Builder
	sb.WriteString(cfg.String())
	for qi, q := range world.queries {
		fmt.Fprintf(&sb, "\n  query %q:", q)
		for _, s := range world.series[qi] {
			fmt.Fprintf(&sb, " %s@", s.metric)
			if s.hist {
				sb.WriteString("hist")
			}
			for _, w := range s.windows {
				fmt.Fprintf(&sb, "[%d,%d]", w.from, w.to)
			}
		}
	}
	for i, r := range reqs {
		fmt.Fprintf(&sb, "\n  #%d %s", i, r)
	}
	return sb.String()
}

// ---- generator ---------------------------------------------------------------------------------

const c42Epoch = int64(1_600_000_000_000) // 2020-09-13, always older than any freshness window

var c42Queries = []string{"up", "sum by (pod) (http_requests_total)", "rate(http_requests_total[5m])"}

func c42GenQueries(rt *rapid.T) []string {
	nq := rapid.SampledFrom([]int{1, 1, 2}).Draw(rt, "queries")
	perm := rapid.Permutation(c42Queries).Draw(rt, "queryPick")
	var out []string
	for qi := 0; qi < nq; qi++ {
		q := perm[qi]
		if e, err := parser.ParseExpr(q); err == nil {
			q = e.String()
		}
		out = append(out, q)
	}
	return out
}

// c42GenSeries draws the series of every query. Window edges are taken from the request boundaries
// (points) half of the time, so that series start or end exactly where cached extents do.
func c42GenSeries(rt *rapid.T, w *c42World, anchor, unit int64, points []int64) {
	edge := func(label string) int64 {
		if len(points) > 0 && rapid.Bool().Draw(rt, label+"AtPoint") {
			return rapid.SampledFrom(points).Draw(rt, label+"Point") + rapid.SampledFrom([]int64{0, 0, 0, 1, -1, unit, -unit}).Draw(rt, label+"Off")
		}
		return anchor + rapid.Int64Range(-400, 200).Draw(rt, label)*unit + rapid.SampledFrom([]int64{0, 0, 1, -1, unit / 2}).Draw(rt, label+"Jit")
	}
	for range w.queries {
		ns := rapid.IntRange(1, 4).Draw(rt, "series")
		var ss []c42Series
		for si := 0; si < ns; si++ {
			s := c42Series{metric: model.Metric{"pod": model.LabelValue(fmt.Sprintf("p%d", si))}}
			if rapid.Bool().Draw(rt, "named") {
				s.metric["__name__"] = "m"
			}
			s.hist = rapid.IntRange(0, 3).Draw(rt, "nativeHistogram") == 0
			switch rapid.IntRange(0, 3).Draw(rt, "presence") {
			case 0:
				s.windows = []c42Window{{math.MinInt64 / 2, math.MaxInt64 / 2}}
			default:
				nw := rapid.IntRange(1, 3).Draw(rt, "windows")
				from := edge("wfrom")
				for k := 0; k < nw; k++ {
					to := edge("wto")
					if to < from {
						to = from + rapid.Int64Range(0, 300).Draw(rt, "wlen")*unit
					}
					s.windows = append(s.windows, c42Window{from, to})
					from = to + rapid.Int64Range(1, 200).Draw(rt, "wgap")*unit
				}
			}
			ss = append(ss, s)
		}
		w.series = append(w.series, ss)
	}
}

// step families: (i) steps for which the frontend never consults another step's extents among the
// steps of the history, (ii) chains of "common" steps dividing one another (alternative-key reuse).
var c42StepFamilies = [][]int64{
	{7000}, {13000, 45000}, {15000, 20000}, {90000, 7000}, {1500}, // (i)
	{15000, 60000}, {1000, 5000, 15000}, {60000, 300000, 3600000}, {30000, 60000}, {5000, 10000, 20000}, {15000, 30000, 60000, 300000}, // (ii)
	{15000}, {60000}, {300000}, // one common step only
}

func c42GenHistory(rt *rapid.T) (c42Config, *c42World, []c42Request) {
	cfg := c42Config{
		interval:   rapid.SampledFrom([]int64{msHour, msHour, msHour, 2 * msHour, 6 * msHour, msDay, 37 * msMinute, 20 * msMinute}).Draw(rt, "split"),
		numShards:  rapid.SampledFrom([]int{0, 0, 0, 2, 3}).Draw(rt, "shards"),
		cacheItems: rapid.SampledFrom([]int{1000, 1000, 1000, 1000, 1, 2, 3}).Draw(rt, "cacheItems"),
	}
	steps := rapid.SampledFrom(c42StepFamilies).Draw(rt, "stepFamily")
	unit := steps[0]
	// the anchor is an interval boundary, so ranges around it cross from one cache bucket to the next
	anchor := (c42Epoch/cfg.interval + rapid.Int64Range(1, 50).Draw(rt, "anchorK")) * cfg.interval
	world := &c42World{queries: c42GenQueries(rt)}
	tenants := []string{"team-a", "team-b"}[:rapid.SampledFrom([]int{1, 1, 1, 1, 2}).Draw(rt, "tenants")]

	// half of the histories keep every boundary on the coarsest step's grid, so that extents cached
	// under a finer step can be on the grid of a coarser one
	snap := int64(1)
	if rapid.Bool().Draw(rt, "snapToCoarsest") {
		for _, st := range steps {
			snap = maxI64(snap, st)
		}
	}
	n := rapid.IntRange(1, 8).Draw(rt, "requests")
	var reqs []c42Request
	for i := 0; i < n; i++ {
		r := c42Request{
			tenant: rapid.SampledFrom(tenants).Draw(rt, "tenant"),
			query:  rapid.SampledFrom(world.queries).Draw(rt, "query"),
			step:   rapid.SampledFrom(steps).Draw(rt, "step"),
		}
		mode := "fresh"
		if len(reqs) > 0 {
			mode = rapid.SampledFrom([]string{"fresh", "same", "extend-right", "extend-left", "shift", "nested", "adjacent", "disjoint", "extend-right", "shift", "extend-left", "nested"}).Draw(rt, "mode")
		}
		var nSteps int64
		switch rapid.IntRange(0, 9).Draw(rt, "lenKind") {
		case 0:
			nSteps = 0
		case 1, 2:
			nSteps = rapid.Int64Range(1, 12).Draw(rt, "n")
		case 9:
			nSteps = rapid.Int64Range(300, 1500).Draw(rt, "n")
		default:
			nSteps = rapid.Int64Range(1, 300).Draw(rt, "n")
		}
		k := rapid.Int64Range(0, 60).Draw(rt, "k")
		jitter := int64(0)
		if rapid.IntRange(0, 4).Draw(rt, "unaligned") == 0 {
			jitter = rapid.Int64Range(1, r.step-1).Draw(rt, "jitter")
		}
		var p c42Request
		if len(reqs) > 0 {
			p = reqs[rapid.IntRange(0, len(reqs)-1).Draw(rt, "rel")]
			if rapid.Bool().Draw(rt, "relLast") {
				p = reqs[len(reqs)-1]
			}
		}
		switch mode {
		case "fresh":
			r.start = anchor + rapid.Int64Range(-300, 100).Draw(rt, "off")*r.step + jitter
			r.end = r.start + nSteps*r.step
		case "same":
			r.start, r.end = p.start, p.end
		case "extend-right":
			r.start, r.end = p.start, p.end+k*r.step+jitter
		case "extend-left":
			r.start, r.end = p.start-k*r.step-jitter, p.end
		case "shift":
			r.start = p.start + k*r.step + jitter
			r.end = r.start + maxI64(p.end-p.start, nSteps*r.step)
		case "nested":
			span := p.end - p.start
			r.start = p.start + minI64(span, k*r.step) + jitter
			r.end = minI64(p.end, r.start+nSteps*r.step)
		case "adjacent":
			r.start = p.end + rapid.SampledFrom([]int64{0, 1, -1}).Draw(rt, "adj")*r.step
			r.end = r.start + nSteps*r.step
		default: // disjoint
			r.start = p.end + (k+2)*r.step + rapid.Int64Range(0, 3).Draw(rt, "gapIv")*cfg.interval + jitter
			r.end = r.start + nSteps*r.step
		}
		if snap > 1 {
			r.start, r.end = floorDiv(r.start, snap)*snap, floorDiv(r.end, snap)*snap
		}
		if r.end < r.start {
			r.end = r.start
		}
		// the request codec refuses more than 11000 steps; stay well below (cost bound)
		if (r.end-r.start)/r.step > 2500 {
			r.end = r.start + 2500*r.step
		}
		reqs = append(reqs, r)
	}
	var points []int64
	for _, r := range reqs {
		points = append(points, floorDiv(r.start, r.step)*r.step, floorDiv(r.end, r.step)*r.step)
	}
	c42GenSeries(rt, world, anchor, unit, points)
	return cfg, world, reqs
}

// ---- the test ----------------------------------------------------------------------------------

type c42Saved struct {
	sig, what string
	cfg       c42Config
	world     *c42World
	reqs      []c42Request
}

func c42SavedInputs() []c42Saved {
	always := []c42Window{{0, math.MaxInt64 / 2}}
	const t1 = int64(1600002060000)
	return []c42Saved{
		{
			sig: sigC42AltStep, what: "step=15s instant query, then step=60s over the next minute (split 1h)",
			cfg:   c42Config{interval: msHour, numShards: 0, cacheItems: 1000},
			world: &c42World{queries: []string{"up"}, series: [][]c42Series{{{metric: model.Metric{"__name__": "up", "pod": "p0"}, windows: always}}}},
			reqs: []c42Request{
				{tenant: "team-a", query: "up", step: 15000, start: 1600000000000, end: 1600000000000},
				{tenant: "team-a", query: "up", step: 60000, start: 1600000000000, end: 1600000060000},
			},
		},
		{
			sig: sigC42MergeTie, what: "series {pod=\"p0\"} appears at T, {pod=\"p1\"} always; query [T, T+10m], then [T-30s, T+10m] (step 15s, split 1h)",
			cfg: c42Config{interval: msHour, numShards: 0, cacheItems: 1000},
			world: &c42World{queries: []string{"up"}, series: [][]c42Series{{
				{metric: model.Metric{"pod": "p0"}, windows: []c42Window{{t1, math.MaxInt64 / 2}}},
				{metric: model.Metric{"pod": "p1"}, windows: always},
			}}},
			reqs: []c42Request{
				{tenant: "team-a", query: "up", step: 15000, start: t1, end: t1 + 600000},
				{tenant: "team-a", query: "up", step: 15000, start: t1 - 30000, end: t1 + 600000},
			},
		},
	}
}

func TestVerifC42(t *testing.T) {
	rec := kit.For(t, "C42")
	known := kit.KnownFindings("C42")
	if os.Getenv("VERIF_NOTABLE") == "" {
		// saved minimal inputs of the findings
		for _, s := range c42SavedInputs() {
			out := c42RunHistory(s.cfg, s.world, s.reqs, nil, rec)
			if out.harness != "" {
				t.Fatalf("harness: %s", out.harness)
			}
			if out.violation != "" {
				if known[s.sig] {
					rec.Known(s.sig, s.what+": "+strings.ReplaceAll(out.violation, "\n", " "))
				} else {
					rec.Violation(t, "saved input (%s): %s\nhistory: %s", s.sig, out.violation, c42RenderHistory(s.cfg, s.world, s.reqs))
				}
			}
		}
	}
	rec.Check(t, func(rt *rapid.T) {
		cfg, world, reqs := c42GenHistory(rt)
		out := c42RunHistory(cfg, world, reqs, known, rec)
		if out.harness != "" {
			rt.Fatalf("harness problem (not a property violation): %s\nhistory: %s", out.harness, c42RenderHistory(cfg, world, reqs))
		}
		if out.violation != "" {
			rt.Fatalf("C42 violated: %s\nhistory: %s", out.violation, c42RenderHistory(cfg, world, reqs))
		}
		for _, sig := range out.excluded {
			rec.Excluded(sig)
		}
		if out.issued == 0 {
			return
		}
		for _, ss := range world.series {
			for _, x := range ss {
				if x.hist {
					out.classes = append(out.classes, "native-histogram-series")
					break
				}
			}
		}
		rec.Case(c42RenderHistory(cfg, world, reqs), out.cachedReq > 0, out.classes...)
	})
}
