package xqfe

// Shared helpers of the query-frontend checks (C41 split-by-interval, C42 results cache).

import (
	"context"
	"fmt"
	"sort"
	"strings"
	"sync"
	"time"

	"github.com/weaveworks/common/user"
	"pgregory.net/rapid"

	"github.com/thanos-io/thanos/internal/cortex/querier/queryrange"
)

// fixedLimits implements queryrange.Limits without going through the Cortex overrides machinery.
type fixedLimits struct{ parallelism int }

func (fixedLimits) MaxQueryLookback(string) time.Duration  { return 0 }
func (fixedLimits) MaxQueryLength(string) time.Duration    { return 0 }
func (l fixedLimits) MaxQueryParallelism(string) int       { return l.parallelism }
func (fixedLimits) MaxCacheFreshness(string) time.Duration { return time.Minute }

// tenantCtx is what cmd/thanos/query_frontend.go does for every incoming request.
func tenantCtx(tenant string) context.Context {
	return user.InjectOrgID(context.Background(), tenant)
}

// span is one sub-request seen by a recording handler.
type span struct {
	start, end, step int64
	query            string
}

// recorder is a queryrange.Handler that records the (sub-)requests it receives and answers each
// with the response produced by mk. DoRequests calls it from several goroutines.
type recorder struct {
	mu    sync.Mutex
	spans []span
	mk    func(queryrange.Request) queryrange.Response
}

func (r *recorder) Do(_ context.Context, req queryrange.Request) (queryrange.Response, error) {
	r.mu.Lock()
	r.spans = append(r.spans, span{start: req.GetStart(), end: req.GetEnd(), step: req.GetStep(), query: req.GetQuery()})
	r.mu.Unlock()
	return r.mk(req), nil
}

// sorted returns the recorded spans ordered by (start, end).
func (r *recorder) sorted() []span {
	r.mu.Lock()
	defer r.mu.Unlock()
	out := append([]span(nil), r.spans...)
	sort.Slice(out, func(i, j int) bool {
		if out[i].start != out[j].start {
			return out[i].start < out[j].start
		}
		return out[i].end < out[j].end
	})
	return out
}

func renderSpans(ss []span) string {
	var sb strings.Builder
	for i, s := range ss {
		if i > 0 {
			sb.WriteByte(' ')
		}
		fmt.Fprintf(&sb, "[%d,%d]", s.start, s.end)
		if i == 11 && len(ss) > 14 {
			fmt.Fprintf(&sb, " …(%d more)… [%d,%d]", len(ss)-13, ss[len(ss)-1].start, ss[len(ss)-1].end)
			break
		}
	}
	return sb.String()
}

const (
	msSecond = int64(1000)
	msMinute = 60 * msSecond
	msHour   = 60 * msMinute
	msDay    = 24 * msHour
)

// genInterval draws a split interval in milliseconds: the values operators configure (1m … 7d) and
// odd values as produced by the dynamic split (`range / horizontal-shards`, any whole millisecond).
func genInterval(t *rapid.T) (int64, string) {
	switch rapid.IntRange(0, 9).Draw(t, "intervalKind") {
	case 0, 1:
		return rapid.Int64Range(1000, 7*msDay).Draw(t, "oddInterval"), "interval-odd"
	case 2:
		return rapid.Int64Range(1, 5000).Draw(t, "tinyInterval"), "interval-tiny"
	default:
		return rapid.SampledFrom([]int64{msMinute, 5 * msMinute, 30 * msMinute, msHour, 2 * msHour, 6 * msHour, 12 * msHour, msDay, 2 * msDay, 7 * msDay}).Draw(t, "interval"), "interval-round"
	}
}

func minI64(a, b int64) int64 {
	if a < b {
		return a
	}
	return b
}

func maxI64(a, b int64) int64 {
	if a > b {
		return a
	}
	return b
}

func floorDiv(a, b int64) int64 {
	q := a / b
	if a%b != 0 && (a < 0) != (b < 0) {
		q--
	}
	return q
}
