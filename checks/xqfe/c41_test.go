package xqfe

// C41 Splitting a query by interval evaluates every step exactly once.
//
// Range requests: a ThanosQueryRangeRequest is sent through the real SplitByIntervalMiddleware into a
// recording handler. Oracle (independent of splitQuery / nextIntervalBoundary): the multiset of
// evaluation timestamps {s.start + k*s.step <= s.end} over all recorded sub-requests equals
// {start + k*step <= end} with every element exactly once; every sub-request keeps the step, starts
// on the original grid (start mod step) and has start <= end.
// Labels / series requests: the recorded sub-ranges, ordered by start, begin at start, finish at end,
// leave no gap and never reach outside [start, end].

import (
	"fmt"
	"os"
	"sort"
	"testing"
	"time"

	"pgregory.net/rapid"

	"github.com/thanos-io/thanos/internal/cortex/querier/queryrange"
	"github.com/thanos-io/thanos/pkg/queryfrontend"
	"github.com/thanos-io/thanos/verifx/kit"
)

// sigC41EmptyMeta: a labels/series request with start == end is split into zero sub-requests.
const sigC41EmptyMeta = "C41/metadata-instant-range-not-forwarded"

type c41Range struct {
	start, end, step, interval int64
	query                      string
}

func (c c41Range) String() string {
	return fmt.Sprintf("range start=%d end=%d step=%d interval=%dms q=%q", c.start, c.end, c.step, c.interval, c.query)
}

// runSplitRange pushes the request through the real middleware and returns the sub-requests.
func runSplitRange(c c41Range) ([]span, error) {
	rec := &recorder{mk: func(queryrange.Request) queryrange.Response { return queryrange.NewEmptyPrometheusResponse() }}
	interval := time.Duration(c.interval) * time.Millisecond
	h := queryfrontend.SplitByIntervalMiddleware(
		func(queryrange.Request) time.Duration { return interval },
		fixedLimits{parallelism: 4}, queryrange.PrometheusCodec, nil,
	).Wrap(rec)
	_, err := h.Do(tenantCtx("tenant-1"), &queryfrontend.ThanosQueryRangeRequest{
		Path: "/api/v1/query_range", Start: c.start, End: c.end, Step: c.step, Query: c.query, Dedup: true,
	})
	return rec.sorted(), err
}

func evalPoints(start, end, step int64, into []int64) []int64 {
	for t := start; t <= end; t += step {
		into = append(into, t)
	}
	return into
}

// checkC41Range is the oracle for range requests; it returns "" or a description of the violation.
func checkC41Range(c c41Range, subs []span) string {
	if len(subs) == 0 {
		return "no sub-request at all"
	}
	var got []int64
	for i, s := range subs {
		if s.step != c.step {
			return fmt.Sprintf("sub-request %d has step %d, original %d", i, s.step, c.step)
		}
		if s.start > s.end {
			return fmt.Sprintf("sub-request %d has start %d > end %d", i, s.start, s.end)
		}
		if (s.start-c.start)%c.step != 0 {
			return fmt.Sprintf("sub-request %d starts at %d which is off the original grid (start %d, step %d)", i, s.start, c.start, c.step)
		}
		got = evalPoints(s.start, s.end, s.step, got)
	}
	sort.Slice(got, func(i, j int) bool { return got[i] < got[j] })
	want := evalPoints(c.start, c.end, c.step, nil)
	for i := 0; i < len(got) || i < len(want); i++ {
		switch {
		case i >= len(got):
			return fmt.Sprintf("evaluation timestamp %d of the original query is in no sub-request (%d of %d evaluated)", want[i], len(got), len(want))
		case i >= len(want):
			return fmt.Sprintf("sub-requests evaluate extra timestamp %d (%d evaluated, %d expected)", got[i], len(got), len(want))
		case got[i] < want[i]:
			if i > 0 && got[i] == got[i-1] {
				return fmt.Sprintf("timestamp %d is evaluated by more than one sub-request", got[i])
			}
			return fmt.Sprintf("sub-requests evaluate timestamp %d which the original query does not", got[i])
		case got[i] > want[i]:
			return fmt.Sprintf("evaluation timestamp %d of the original query is in no sub-request", want[i])
		}
	}
	return ""
}

func genC41Range(rt *rapid.T) (c41Range, []string) {
	var classes []string
	interval, iclass := genInterval(rt)
	classes = append(classes, iclass)
	var step int64
	switch rapid.IntRange(0, 7).Draw(rt, "stepKind") {
	case 0, 1, 2:
		step = rapid.SampledFrom([]int64{1000, 5000, 10000, 15000, 30000, msMinute, 5 * msMinute, msHour, 6 * msHour, msDay}).Draw(rt, "commonStep")
	case 3:
		step = rapid.Int64Range(1, 3*interval).Draw(rt, "freeStep")
	case 4:
		step = interval + rapid.Int64Range(1, 2*interval).Draw(rt, "bigStep")
	case 5:
		step = interval
	case 6:
		step = rapid.Int64Range(1, 20).Draw(rt, "msStep")
	default:
		// a divisor-ish or multiple-ish relation with the interval
		k := rapid.Int64Range(2, 12).Draw(rt, "k")
		if rapid.Bool().Draw(rt, "mult") {
			step = interval * k
		} else {
			step = maxI64(1, interval/k)
		}
	}
	var nSteps int64
	switch rapid.IntRange(0, 8).Draw(rt, "lenKind") {
	case 0:
		nSteps = 0
	case 1:
		nSteps = rapid.Int64Range(1, 5).Draw(rt, "n")
	case 2, 3:
		nSteps = rapid.Int64Range(1, 300).Draw(rt, "n")
	case 4, 5, 6:
		// a length chosen relative to the interval so that interval boundaries are crossed
		nSteps = minI64(11000, (rapid.Int64Range(1, 12).Draw(rt, "ivs")*interval+rapid.Int64Range(0, interval).Draw(rt, "ivoff"))/step)
	default:
		nSteps = rapid.Int64Range(1, 11000).Draw(rt, "n")
	}
	var extra int64
	if nSteps > 0 || rapid.Bool().Draw(rt, "extraOnPoint") {
		if rapid.Bool().Draw(rt, "offGridEnd") {
			extra = rapid.Int64Range(0, step-1).Draw(rt, "extra")
		}
	}
	length := nSteps*step + extra
	// bound the number of sub-requests (a cost bound only; 400 intervals is far beyond what the
	// default limits let through in production)
	if length/interval > 400 {
		length = 400 * interval
	}
	var start int64
	switch rapid.IntRange(0, 5).Draw(rt, "startKind") {
	case 0:
		start = rapid.Int64Range(0, 20000).Draw(rt, "ik") * interval
		classes = append(classes, "start-on-interval")
	case 1:
		start = rapid.Int64Range(1, 20000).Draw(rt, "ik")*interval + rapid.Int64Range(-2*step, 2*step).Draw(rt, "near")
		if start < 0 {
			start = 0
		}
		classes = append(classes, "start-near-interval")
	case 2:
		start = rapid.Int64Range(0, 2_000_000_000_000/step).Draw(rt, "sk") * step
	case 3:
		start = 0
	default:
		start = rapid.Int64Range(0, 2_000_000_000_000).Draw(rt, "start")
	}
	c := c41Range{start: start, end: start + length, step: step, interval: interval, query: "up"}
	if step > interval {
		classes = append(classes, "step>interval")
	} else if step == interval {
		classes = append(classes, "step==interval")
	}
	if c.start == c.end {
		classes = append(classes, "start==end")
	}
	if c.start%step != 0 {
		classes = append(classes, "start-unaligned")
	}
	if (c.end-c.start)%step != 0 {
		classes = append(classes, "end-off-grid")
	}
	if interval%step != 0 {
		classes = append(classes, "interval-not-multiple-of-step")
	}
	return c, classes
}

func TestVerifC41(t *testing.T) {
	rec := kit.For(t, "C41")
	// Hand-picked inputs (no rapid): the corner cases named by the property text.
	for _, c := range []c41Range{
		{start: 0, end: 0, step: 15000, interval: msDay, query: "up"},
		{start: 1600000000000, end: 1600000000000, step: 15000, interval: msHour, query: "up"},
		{start: 0, end: 2 * msDay, step: msHour, interval: msDay, query: "up"},
		{start: 123, end: 2*msDay + 123, step: 7 * msHour, interval: msDay, query: "up"},
		{start: msDay - 15000, end: msDay, step: 15000, interval: msDay, query: "up"},
		{start: 50000, end: 1000000, step: 90000, interval: msMinute, query: "up"},
		{start: 3599000, end: 3 * msHour, step: 1000, interval: msHour, query: "up"},
	} {
		if os.Getenv("VERIF_NOTABLE") != "" { // sensitivity experiments: let the generator find it
			break
		}
		subs, err := runSplitRange(c)
		if err != nil {
			rec.Violation(t, "regression input %s: middleware error %v", c, err)
		}
		if msg := checkC41Range(c, subs); msg != "" {
			rec.Violation(t, "regression input %s: %s; sub-requests %s", c, msg, renderSpans(subs))
		}
	}
	rec.Check(t, func(rt *rapid.T) {
		c, classes := genC41Range(rt)
		subs, err := runSplitRange(c)
		if err != nil {
			rt.Fatalf("C41 violated: split middleware failed on a valid request: %v\ncase: %s", err, c)
		}
		if msg := checkC41Range(c, subs); msg != "" {
			rt.Fatalf("C41 violated: %s\ncase: %s\nsub-requests: %s", msg, c, renderSpans(subs))
		}
		single := 0
		for _, s := range subs {
			if s.start == s.end {
				single++
			}
		}
		if single > 0 && len(subs) > 1 {
			classes = append(classes, "has-single-point-sub")
		}
		switch n := len(subs); {
		case n == 1:
			classes = append(classes, "subs=1")
		case n <= 3:
			classes = append(classes, "subs=2-3")
		case n <= 30:
			classes = append(classes, "subs=4-30")
		default:
			classes = append(classes, "subs>30")
		}
		rec.Case(c.String(), len(subs) >= 2, classes...)
	})
}

// ---- labels / series requests ----------------------------------------------------------------

type c41Meta struct {
	kind                 string // "labels" | "label-values" | "series"
	start, end, interval int64
}

func (c c41Meta) String() string {
	return fmt.Sprintf("%s start=%d end=%d interval=%dms", c.kind, c.start, c.end, c.interval)
}

func runSplitMeta(c c41Meta) ([]span, error) {
	codec := queryfrontend.NewThanosLabelsCodec(true, 24*time.Hour)
	var req queryrange.Request
	var mk func(queryrange.Request) queryrange.Response
	switch c.kind {
	case "series":
		req = &queryfrontend.ThanosSeriesRequest{Path: "/api/v1/series", Start: c.start, End: c.end, Dedup: true}
		mk = func(queryrange.Request) queryrange.Response {
			return &queryfrontend.ThanosSeriesResponse{Status: "success"}
		}
	case "label-values":
		req = &queryfrontend.ThanosLabelsRequest{Path: "/api/v1/label/job/values", Label: "job", Start: c.start, End: c.end}
		mk = func(queryrange.Request) queryrange.Response {
			return &queryfrontend.ThanosLabelsResponse{Status: "success", Data: []string{"a"}}
		}
	default:
		req = &queryfrontend.ThanosLabelsRequest{Path: "/api/v1/labels", Start: c.start, End: c.end}
		mk = func(queryrange.Request) queryrange.Response {
			return &queryfrontend.ThanosLabelsResponse{Status: "success", Data: []string{"a"}}
		}
	}
	rec := &recorder{mk: mk}
	interval := time.Duration(c.interval) * time.Millisecond
	h := queryfrontend.SplitByIntervalMiddleware(
		func(queryrange.Request) time.Duration { return interval },
		fixedLimits{parallelism: 4}, codec, nil,
	).Wrap(rec)
	_, err := h.Do(tenantCtx("tenant-1"), req)
	return rec.sorted(), err
}

// checkC41Meta: the sub-ranges together are exactly [start, end]. Timestamps are whole milliseconds,
// so two consecutive sub-ranges [a,b] and [b+1,c] leave no gap either.
func checkC41Meta(c c41Meta, subs []span) string {
	if len(subs) == 0 {
		return "no sub-request at all: nothing of [start,end] is covered"
	}
	if subs[0].start != c.start {
		return fmt.Sprintf("first sub-range starts at %d, original at %d", subs[0].start, c.start)
	}
	covered := subs[0].start - 1
	for i, s := range subs {
		if s.start > s.end {
			return fmt.Sprintf("sub-range %d inverted: [%d,%d]", i, s.start, s.end)
		}
		if s.start < c.start || s.end > c.end {
			return fmt.Sprintf("sub-range %d [%d,%d] reaches outside the original [%d,%d]", i, s.start, s.end, c.start, c.end)
		}
		if s.start > covered+1 {
			return fmt.Sprintf("gap (%d,%d) between sub-ranges %d and %d", covered, s.start, i-1, i)
		}
		covered = maxI64(covered, s.end)
	}
	if covered != c.end {
		return fmt.Sprintf("sub-ranges end at %d, original at %d", covered, c.end)
	}
	return ""
}

func TestVerifC41_Metadata(t *testing.T) {
	rec := kit.For(t, "C41")
	known := kit.KnownFindings("C41")
	// saved minimal input of the start == end finding (a labels request for one instant is dropped)
	for _, kind := range []string{"labels", "label-values", "series"} {
		c := c41Meta{kind: kind, start: 1600000000000, end: 1600000000000, interval: msDay}
		subs, err := runSplitMeta(c)
		msg := ""
		if err != nil {
			msg = "middleware error: " + err.Error()
		} else {
			msg = checkC41Meta(c, subs)
		}
		if msg != "" {
			if known[sigC41EmptyMeta] {
				rec.Known(sigC41EmptyMeta, fmt.Sprintf("%s: %s", c, msg))
			} else {
				rec.Violation(t, "regression input %s: %s", c, msg)
			}
		}
	}
	rec.Check(t, func(rt *rapid.T) {
		var classes []string
		interval, iclass := genInterval(rt)
		classes = append(classes, iclass)
		kind := rapid.SampledFrom([]string{"labels", "label-values", "series"}).Draw(rt, "kind")
		var length int64
		switch rapid.IntRange(0, 9).Draw(rt, "lenKind") {
		case 0:
			length = 0
		case 1:
			length = rapid.Int64Range(1, interval).Draw(rt, "short")
		case 2:
			length = rapid.Int64Range(1, 40).Draw(rt, "k") * interval
			classes = append(classes, "length-multiple-of-interval")
		default:
			length = rapid.Int64Range(1, 400*interval).Draw(rt, "len")
		}
		var start int64
		switch rapid.IntRange(0, 3).Draw(rt, "startKind") {
		case 0:
			start = rapid.Int64Range(0, 20000).Draw(rt, "ik") * interval
			classes = append(classes, "start-on-interval")
		case 1:
			start = rapid.Int64Range(1, 20000).Draw(rt, "ik")*interval + rapid.Int64Range(-3, 3).Draw(rt, "near")
		default:
			start = rapid.Int64Range(0, 2_000_000_000_000).Draw(rt, "start")
		}
		c := c41Meta{kind: kind, start: start, end: start + length, interval: interval}
		if length == 0 {
			classes = append(classes, "start==end")
			if known[sigC41EmptyMeta] {
				rec.Excluded(sigC41EmptyMeta)
				return
			}
		}
		subs, err := runSplitMeta(c)
		if err != nil {
			rt.Fatalf("C41 violated: split middleware failed on a valid %s request: %v\ncase: %s", kind, err, c)
		}
		if msg := checkC41Meta(c, subs); msg != "" {
			rt.Fatalf("C41 violated (%s request): %s\ncase: %s\nsub-ranges: %s", kind, msg, c, renderSpans(subs))
		}
		rec.Case(c.String(), len(subs) >= 2, append(classes, "meta-"+kind)...)
	})
}
