package downsample

// C37 (level 2) Downsampled counters preserve the raw counter's increase after two levels.
// Domain: raw counter series (non-negative integers; resets, plateaus, NaN, stale markers) cut into
// block-aligned segments, DownsampleRaw(5m) per segment, then the unexported downsampleAggr
// (5m -> 1h) as Downsample calls it. The 1h counter aggregate is read with
// NewApplyCounterResetsIterator.
// Oracle: as level 1 (checks/xdownsample/c37_test.go): every emitted (T,V) has
// V == adj(last raw index with t <= T), T strictly increasing, tail not lost.

import (
	"fmt"
	"math"
	"testing"

	"github.com/prometheus/prometheus/tsdb/chunkenc"
	"github.com/prometheus/prometheus/tsdb/chunks"
	"pgregory.net/rapid"

	"github.com/thanos-io/thanos/verifx/kit"
)

func vfReadCounter(ms []chunks.Meta) ([]sample, error) {
	its := make([]chunkenc.Iterator, 0, len(ms))
	for i, m := range ms {
		ac, ok := m.Chunk.(*AggrChunk)
		if !ok {
			return nil, fmt.Errorf("chunk %d is a %T", i, m.Chunk)
		}
		c, err := ac.Get(AggrCounter)
		if err != nil {
			return nil, fmt.Errorf("chunk %d: Get(counter): %w", i, err)
		}
		its = append(its, c.Iterator(nil))
	}
	return vfDrainFloat(NewApplyCounterResetsIterator(its...))
}

type vfC37Info struct {
	in, out, resets, nans int
	atBoundary, near      bool
}

func vfCheckC37Level2(xs []sample, align int64) (string, vfC37Info) {
	var info vfC37Info
	nn := vfNonNaN(xs)
	info.nans = len(xs) - len(nn)
	for i := 1; i < len(nn); i++ {
		if nn[i].v < nn[i-1].v {
			info.resets++
		}
	}
	adj := vfRefCounter(nn)
	in := vfLevel1(xs, align)
	info.in = len(in)
	if len(in) == 0 {
		return "", info
	}
	// level 1 must already be right (this is C37 level 1, re-checked here on the segmented input)
	p1, err := vfReadCounter(in)
	if err != nil {
		return "level 1: " + err.Error(), info
	}
	if msg := vfCheckCounterPoints(p1, nn, adj); msg != "" {
		return "level 1 (5m): " + msg, info
	}
	out, err := vfLevel2(in)
	if err != nil {
		return fmt.Sprintf("downsampleAggr failed on %d input chunks: %v", len(in), err), info
	}
	info.out = len(out)
	var bounds []int64
	for i := 0; i+1 < len(in); i++ {
		bounds = append(bounds, in[i].MaxTime)
	}
	for i := 0; i+1 < len(out); i++ {
		bounds = append(bounds, out[i].MaxTime)
	}
	info.atBoundary, info.near = vfResetNearBoundary(nn, bounds)
	p2, err := vfReadCounter(out)
	if err != nil {
		return "level 2: " + err.Error(), info
	}
	if msg := vfCheckCounterPoints(p2, nn, adj); msg != "" {
		return "level 2 (1h): " + msg, info
	}
	return "", info
}

func TestVerifC37_Level2(t *testing.T) {
	rec := kit.For(t, "C37")
	table := []struct {
		name  string
		align int64
		xs    []sample
	}{
		{"single", 0, []sample{{t: 0, v: 7}}},
		{"reset-between-segments", ResLevel2, []sample{{t: 10, v: 5}, {t: 3599999, v: 9}, {t: 3600000, v: 2}, {t: 7200000, v: 1}, {t: 7200001, v: 1}}},
		{"reset-inside-and-nan", ResLevel2, []sample{{t: 10, v: 5}, {t: 20, v: math.NaN()}, {t: 300001, v: 3}, {t: 300002, v: vfStaleNaN}, {t: 4000000, v: 3}, {t: 4300000, v: 0}, {t: 4300001, v: 8}}},
	}
	for _, c := range table {
		if msg, _ := vfCheckC37Level2(c.xs, c.align); msg != "" {
			rec.Violation(t, "regression %s: %s", c.name, msg)
		}
	}
	rec.Check(t, func(rt *rapid.T) {
		align := rapid.SampledFrom([]int64{0, ResLevel2, 2 * ResLevel2, 2 * ResLevel2}).Draw(rt, "align")
		xs, mode := vfGenCounter(rt, ResLevel1, true)
		msg, info := vfCheckC37Level2(xs, align)
		if msg != "" {
			rt.Fatalf("C37 (level 2) violated: %s\nalign=%d raw: %s", msg, align, vfRenderSamples(xs, 400))
		}
		cl := []string{"level-2", vfChunkCountClass("L2-in-chunks", info.in), vfChunkCountClass("L2-out-chunks", info.out)}
		switch {
		case info.resets == 0:
			cl = append(cl, "resets-0")
		case info.resets < 5:
			cl = append(cl, "resets-1..4")
		default:
			cl = append(cl, "resets-5+")
		}
		if info.nans > 0 {
			cl = append(cl, "has-nan")
		}
		if info.atBoundary {
			cl = append(cl, "reset-exactly-at-chunk-boundary")
		}
		if info.near {
			cl = append(cl, "reset-within-1-of-chunk-boundary")
		}
		rec.Case(fmt.Sprintf("L2 align=%d %s %s", align, mode, vfRenderSamples(xs, 12)), info.near, cl...)
	})
}
