package downsample

// C38 Re-downsampling aggregates conserves totals.
// Domain: raw float series (C36 generator, biased to spans of hours..days) cut into time-disjoint
// segments at 1h/2h multiples (or not cut); each segment goes through DownsampleRaw(5m) and the
// chunks are concatenated; the result is re-downsampled by downsampleAggr(5m -> 1h) with the
// mint/maxt Downsample passes.
// Oracle: total count, total sum (exact domain), overall min and max of the output equal those of
// the 5m input and of the raw non-NaN samples; per aggregate the output timestamps are strictly
// increasing over all output chunks and lie within [first, last] input timestamp; output chunk
// ranges ordered, disjoint, containing their content. An error on such input is a violation.

import (
	"fmt"
	"math"
	"testing"

	"github.com/prometheus/prometheus/tsdb/chunks"
	"pgregory.net/rapid"

	"github.com/thanos-io/thanos/verifx/kit"
)

type vfTotals struct {
	count, sum, min, max float64
	firstT, lastT        int64
	n                    int
}

var vfC38Aggrs = [4]AggrType{AggrCount, AggrSum, AggrMin, AggrMax}

// vfTotalsOf decodes count/sum/min/max of a chunk sequence and folds them into totals; it also checks
// the per-aggregate timestamp order and that every chunk's content lies inside its range.
func vfTotalsOf(ms []chunks.Meta, what string) (vfTotals, string) {
	tot := vfTotals{min: math.Inf(1), max: math.Inf(-1), firstT: math.MaxInt64, lastT: math.MinInt64}
	for k, at := range vfC38Aggrs {
		last := int64(math.MinInt64)
		for ci, m := range ms {
			ss, err := vfAggrSamples(m, at)
			if err != nil {
				return tot, fmt.Sprintf("%s chunk %d: %v", what, ci, err)
			}
			for _, s := range ss {
				if s.t <= last {
					return tot, fmt.Sprintf("%s %s timestamps not strictly increasing: %d then %d (chunk %d)", what, at, last, s.t, ci)
				}
				last = s.t
				if s.t < m.MinTime || s.t > m.MaxTime {
					return tot, fmt.Sprintf("%s chunk %d: %s sample at %d outside the chunk's [%d,%d]", what, ci, at, s.t, m.MinTime, m.MaxTime)
				}
				if s.t < tot.firstT {
					tot.firstT = s.t
				}
				if s.t > tot.lastT {
					tot.lastT = s.t
				}
				switch k {
				case 0:
					tot.count += s.v
					tot.n++
				case 1:
					tot.sum += s.v
				case 2:
					tot.min = math.Min(tot.min, s.v)
				default:
					tot.max = math.Max(tot.max, s.v)
				}
			}
		}
	}
	return tot, ""
}

type vfC38Info struct {
	in, out, in5m, out1h int
}

func vfCheckC38(xs []sample, align int64) (string, vfC38Info) {
	var info vfC38Info
	in := vfLevel1(xs, align)
	info.in = len(in)
	if len(in) == 0 {
		return "", info // no non-NaN sample: such a series does not exist in a 5m block
	}
	inTot, msg := vfTotalsOf(in, "input")
	if msg != "" {
		return "generator/level-1 problem (C36 territory): " + msg, info
	}
	info.in5m = inTot.n
	out, err := vfLevel2(in)
	if err != nil {
		return fmt.Sprintf("downsampleAggr failed on %d input chunks: %v", len(in), err), info
	}
	info.out = len(out)
	if msg := vfRangesOK(out); msg != "" {
		return "output " + msg, info
	}
	outTot, msg := vfTotalsOf(out, "output")
	if msg != "" {
		return msg, info
	}
	info.out1h = outTot.n
	if outTot.count != inTot.count || outTot.sum != inTot.sum || outTot.min != inTot.min || outTot.max != inTot.max {
		return fmt.Sprintf("totals not conserved: count %v->%v sum %v->%v min %v->%v max %v->%v (5m -> 1h)",
			inTot.count, outTot.count, inTot.sum, outTot.sum, inTot.min, outTot.min, inTot.max, outTot.max), info
	}
	if outTot.n == 0 || outTot.firstT < inTot.firstT || outTot.lastT > inTot.lastT {
		return fmt.Sprintf("output timestamps span [%d,%d] (%d points), input spans [%d,%d]", outTot.firstT, outTot.lastT, outTot.n, inTot.firstT, inTot.lastT), info
	}
	// and against the raw data (two levels)
	var rc, rs float64
	rmin, rmax := math.Inf(1), math.Inf(-1)
	for _, s := range xs {
		if math.IsNaN(s.v) {
			continue
		}
		rc++
		rs += s.v
		rmin = math.Min(rmin, s.v)
		rmax = math.Max(rmax, s.v)
	}
	if outTot.count != rc || outTot.sum != rs || outTot.min != rmin || outTot.max != rmax {
		return fmt.Sprintf("1h totals differ from the raw data: count %v/%v sum %v/%v min %v/%v max %v/%v", outTot.count, rc, outTot.sum, rs, outTot.min, rmin, outTot.max, rmax), info
	}
	return "", info
}

func vfChunkCountClass(prefix string, n int) string {
	switch {
	case n <= 1:
		return fmt.Sprintf("%s-%d", prefix, n)
	case n <= 8:
		return prefix + "-2..8"
	default:
		return prefix + "-9+"
	}
}

func TestVerifC38(t *testing.T) {
	rec := kit.For(t, "C38")
	table := []struct {
		name  string
		align int64
		xs    []sample
	}{
		{"single", 0, []sample{{t: 0, v: 1}}},
		{"two-hours-two-segments", ResLevel2, []sample{{t: 10, v: 1}, {t: 300010, v: -2}, {t: 3599999, v: 5}, {t: 3600000, v: 7}, {t: 3900000, v: math.NaN()}, {t: 7199999, v: 0.5}}},
		{"one-hour-window-split-over-chunks", 0, []sample{{t: 100, v: 3}, {t: 400000, v: 4}, {t: 1000000, v: -1}}},
	}
	for _, c := range table {
		if msg, _ := vfCheckC38(c.xs, c.align); msg != "" {
			rec.Violation(t, "regression %s: %s", c.name, msg)
		}
	}
	rec.Check(t, func(rt *rapid.T) {
		align := rapid.SampledFrom([]int64{0, ResLevel2, 2 * ResLevel2, 2 * ResLevel2}).Draw(rt, "align")
		xs, mode := vfGenGauge(rt, ResLevel1, true)
		msg, info := vfCheckC38(xs, align)
		if msg != "" {
			rt.Fatalf("C38 violated: %s\nalign=%d raw: %s", msg, align, vfRenderSamples(xs, 400))
		}
		cl := []string{vfChunkCountClass("in-chunks", info.in), vfChunkCountClass("out-chunks", info.out), fmt.Sprintf("align-%dh", align/ResLevel2)}
		if info.out1h < info.in5m {
			cl = append(cl, "windows-merged")
		}
		rec.Case(fmt.Sprintf("align=%d %s %s", align, mode, vfRenderSamples(xs, 12)), info.out >= 1 && info.in > info.out, cl...)
	})
}
