package downsample

// Shared generators and reference models of the in-package downsampling checks (C38, C37 level 2).
// All identifiers carry the prefix vf to stay clear of the package's own test helpers. The generator
// functions mirror checks/xdownsample/common_test.go (an in-package group cannot share test code
// with an external one).

import (
	"fmt"
	"hash/fnv"
	"math"
	"strings"

	"github.com/prometheus/prometheus/model/value"
	"github.com/prometheus/prometheus/tsdb/chunkenc"
	"github.com/prometheus/prometheus/tsdb/chunks"
	"pgregory.net/rapid"
)

var vfStaleNaN = math.Float64frombits(value.StaleNaN)

func vfFmtV(v float64) string {
	if math.IsNaN(v) {
		if value.IsStaleNaN(v) {
			return "stale"
		}
		return "NaN"
	}
	return fmt.Sprintf("%v", v)
}

// vfRenderSamples renders up to max samples (all if max<=0) plus a content hash of the whole list.
func vfRenderSamples(xs []sample, max int) string {
	h := fnv.New64a()
	var sb strings.Builder
	var b [16]byte
	for i, s := range xs {
		for k := 0; k < 8; k++ {
			b[k] = byte(uint64(s.t) >> (8 * k))
			b[8+k] = byte(math.Float64bits(s.v) >> (8 * k))
		}
		_, _ = h.Write(b[:])
		if max <= 0 || i < max {
			if i > 0 {
				sb.WriteByte(' ')
			}
			fmt.Fprintf(&sb, "%d:%s", s.t, vfFmtV(s.v))
		}
	}
	if max > 0 && len(xs) > max {
		sb.WriteString(" …")
	}
	return fmt.Sprintf("n=%d h=%016x [%s]", len(xs), h.Sum64(), sb.String())
}

// vfGenLen draws the series length: mostly short, a good share long enough (>700 samples) to make
// DownsampleRaw cut several aggregate chunks at 5m.
func vfGenLen(rt *rapid.T, slow bool) int {
	k := rapid.IntRange(0, 9).Draw(rt, "lenKind")
	if slow && k >= 8 {
		// enough 5m windows (>1680) for the 1h level to cut several chunks as well
		return rapid.IntRange(1700, 3000).Draw(rt, "n")
	}
	switch k {
	case 0:
		return rapid.IntRange(1, 5).Draw(rt, "n")
	case 1, 2, 3:
		return rapid.IntRange(1, 80).Draw(rt, "n")
	case 4, 5:
		return rapid.IntRange(80, 700).Draw(rt, "n")
	default:
		return rapid.IntRange(700, 3000).Draw(rt, "n")
	}
}

// vfGenTimes draws n strictly increasing non-negative millisecond timestamps with irregular spacing
// (1 ms .. 20 min, plus occasional multi-window gaps), bases at 0, near window boundaries and at
// realistic epoch values. slow biases the spacing towards >= 1 min (spans of hours to days).
func vfGenTimes(rt *rapid.T, n int, res int64, slow bool) ([]int64, string) {
	var base int64
	switch rapid.IntRange(0, 5).Draw(rt, "baseKind") {
	case 0:
		base = 0
	case 1:
		base = rapid.Int64Range(0, 10*res).Draw(rt, "base")
	case 2, 3:
		base = rapid.Int64Range(1, 2000).Draw(rt, "baseWin")*res + rapid.SampledFrom([]int64{0, 1, -1, -2, res / 2}).Draw(rt, "baseOff")
	default:
		base = 1_600_000_000_000 + rapid.Int64Range(0, 30*24*3600*1000).Draw(rt, "base")
	}
	intervals := []int64{1, 1000, 15000, 30000, 60000, 120000, 300000, 1200000}
	if (n >= 700 || slow) && rapid.IntRange(0, 3).Draw(rt, "slowBias") > 0 {
		intervals = []int64{60000, 120000, 300000, 1200000}
		if slow {
			intervals = []int64{60000, 120000, 300000, 300000, 1200000, 1200000}
		}
	}
	interval := rapid.SampledFrom(intervals).Draw(rt, "interval")
	mode := rapid.SampledFrom([]string{"regular", "jitter", "free", "bursty"}).Draw(rt, "tmode")
	gapRate := rapid.SampledFrom([]int{0, 0, 50, 10}).Draw(rt, "gapRate")
	ts := make([]int64, 0, n)
	t := base
	burstLeft := 0
	for i := 0; i < n; i++ {
		ts = append(ts, t)
		var d int64
		switch mode {
		case "regular":
			d = interval
		case "jitter":
			d = interval + rapid.Int64Range(0, interval/4+1).Draw(rt, "jit")
		case "free":
			switch rapid.IntRange(0, 3).Draw(rt, "dk") {
			case 0:
				d = rapid.Int64Range(1, 10).Draw(rt, "d")
			case 1:
				d = rapid.Int64Range(10, 1000).Draw(rt, "d")
			case 2:
				d = rapid.Int64Range(1000, 60000).Draw(rt, "d")
			default:
				d = rapid.Int64Range(60000, 1200000).Draw(rt, "d")
			}
		default: // bursty
			if burstLeft > 0 {
				burstLeft--
				d = rapid.Int64Range(1, 50).Draw(rt, "d")
			} else {
				burstLeft = rapid.IntRange(0, 12).Draw(rt, "burst")
				d = rapid.Int64Range(60000, 3*3600*1000).Draw(rt, "d")
			}
		}
		if gapRate > 0 && rapid.IntRange(1, gapRate).Draw(rt, "gap?") == 1 {
			d += rapid.Int64Range(res/2, 6*res).Draw(rt, "gap")
		}
		t += d
	}
	return ts, fmt.Sprintf("%s/%d", mode, interval)
}

// vfGenNaN decides whether the next sample is a NaN (ordinary or stale marker).
// vfApplyNaNRuns overwrites 0..3 index ranges of xs with NaNs (see applyNaNRuns of the external group).
func vfApplyNaNRuns(rt *rapid.T, xs []sample) int {
	runs := rapid.SampledFrom([]int{0, 0, 0, 1, 1, 2, 3}).Draw(rt, "nanRuns")
	longest := 0
	for r := 0; r < runs && len(xs) > 0; r++ {
		start := rapid.IntRange(0, len(xs)-1).Draw(rt, "nanRunStart")
		n := rapid.IntRange(1, len(xs)).Draw(rt, "nanRunLen")
		v := math.NaN()
		if rapid.Bool().Draw(rt, "nanRunStale") {
			v = vfStaleNaN
		}
		end := min(len(xs), start+n)
		for i := start; i < end; i++ {
			xs[i].v = v
		}
		longest = max(longest, end-start)
	}
	return longest
}

func vfGenNaN(rt *rapid.T, nanRate int) (float64, bool) {
	if nanRate > 0 && rapid.IntRange(1, nanRate).Draw(rt, "nan?") == 1 {
		if rapid.Bool().Draw(rt, "stale") {
			return vfStaleNaN, true
		}
		return math.NaN(), true
	}
	return 0, false
}

// vfGenGauge draws a raw float series whose sums are exact in float64 (integers and multiples of
// 1/8 of bounded magnitude), with NaN and stale-NaN samples mixed in.
func vfGenGauge(rt *rapid.T, res int64, slow bool) ([]sample, string) {
	n := vfGenLen(rt, slow)
	ts, tmode := vfGenTimes(rt, n, res, slow)
	vkind := rapid.SampledFrom([]string{"int", "dyadic", "big", "const", "mixed"}).Draw(rt, "vkind")
	nanRate := rapid.SampledFrom([]int{0, 0, 20, 20, 20, 4, 4, 4, 2, 2, 1}).Draw(rt, "nanRate")
	cst := float64(rapid.IntRange(-3, 3).Draw(rt, "const"))
	xs := make([]sample, n)
	for i := range xs {
		xs[i].t = ts[i]
		if v, ok := vfGenNaN(rt, nanRate); ok {
			xs[i].v = v
			continue
		}
		k := vkind
		if k == "mixed" {
			k = rapid.SampledFrom([]string{"int", "dyadic", "big", "const"}).Draw(rt, "vk")
		}
		switch k {
		case "int":
			xs[i].v = float64(rapid.IntRange(-1000, 1000).Draw(rt, "v"))
		case "dyadic":
			xs[i].v = float64(rapid.IntRange(-8000, 8000).Draw(rt, "v")) / 8
		case "big":
			xs[i].v = float64(rapid.Int64Range(0, 1<<30).Draw(rt, "v"))
		default:
			xs[i].v = cst
		}
	}
	if run := vfApplyNaNRuns(rt, xs); run > 0 {
		return xs, tmode + "/" + vkind + "/nanrun"
	}
	return xs, tmode + "/" + vkind
}

// vfGenCounter draws a raw counter series: non-negative integer values (a negative "counter" would make
// the aggregated counter itself decrease, which readers rightly treat as a reset), increases,
// plateaus, resets to 0 / to a smaller value / by exactly 1, NaN and stale markers.
func vfGenCounter(rt *rapid.T, res int64, slow bool) ([]sample, string) {
	n := vfGenLen(rt, slow)
	ts, tmode := vfGenTimes(rt, n, res, slow)
	resetRate := rapid.SampledFrom([]int{0, 100, 10, 3, 2}).Draw(rt, "resetRate")
	nanRate := rapid.SampledFrom([]int{0, 0, 20, 4}).Draw(rt, "nanRate")
	maxInc := rapid.SampledFrom([]int64{1, 10, 1000, 1 << 30}).Draw(rt, "maxInc")
	xs := make([]sample, n)
	cur := rapid.Int64Range(0, 1000).Draw(rt, "v0")
	// integer-valued (exact) or fractional (tolerance) counters, as in the level-1 check
	vfDiv := rapid.SampledFrom([]float64{1, 1, 100, 1000, 7}).Draw(rt, "valueDivisor")
	for i := range xs {
		xs[i].t = ts[i]
		if v, ok := vfGenNaN(rt, nanRate); ok {
			xs[i].v = v
			continue
		}
		if i > 0 {
			if resetRate > 0 && cur > 0 && rapid.IntRange(1, resetRate).Draw(rt, "reset?") == 1 {
				switch rapid.IntRange(0, 2).Draw(rt, "resetKind") {
				case 0:
					cur = 0
				case 1:
					cur = rapid.Int64Range(0, cur-1).Draw(rt, "resetTo")
				default:
					cur = cur - 1
				}
			} else {
				cur += rapid.Int64Range(0, maxInc).Draw(rt, "inc")
			}
		}
		xs[i].v = float64(cur) / vfDiv
	}
	vfApplyNaNRuns(rt, xs)
	return xs, fmt.Sprintf("%s/reset1in%d", tmode, resetRate)
}

func vfNonNaN(xs []sample) []sample {
	out := make([]sample, 0, len(xs))
	for _, s := range xs {
		if !math.IsNaN(s.v) {
			out = append(out, s)
		}
	}
	return out
}

func vfDrainFloat(it chunkenc.Iterator) ([]sample, error) {
	var out []sample
	for {
		switch vt := it.Next(); vt {
		case chunkenc.ValNone:
			return out, it.Err()
		case chunkenc.ValFloat:
			t, v := it.At()
			out = append(out, sample{t: t, v: v})
		default:
			return out, fmt.Errorf("unexpected value type %v", vt)
		}
	}
}

// vfRefCounter is the reference model of a reset-adjusted counter over the non-NaN raw samples:
// adj(0)=v0, adj(i)=adj(i-1)+(v_i>=v_{i-1} ? v_i-v_{i-1} : v_i).
func vfRefCounter(nn []sample) []float64 {
	adj := make([]float64, len(nn))
	for i, s := range nn {
		switch {
		case i == 0:
			adj[i] = s.v
		case s.v >= nn[i-1].v:
			adj[i] = adj[i-1] + (s.v - nn[i-1].v)
		default:
			adj[i] = adj[i-1] + s.v
		}
	}
	return adj
}

// vfCheckCounterPoints compares the points emitted by a counter reader with the reference.
func vfCheckCounterPoints(points, nn []sample, adj []float64) string {
	vfExact := true
	for _, x := range nn {
		if x.v != math.Trunc(x.v) {
			vfExact = false
			break
		}
	}
	if len(nn) == 0 {
		if len(points) != 0 {
			return fmt.Sprintf("no non-NaN raw sample but %d counter points emitted", len(points))
		}
		return ""
	}
	if len(points) == 0 {
		return "raw counter has samples but the reader emitted nothing"
	}
	j := -1 // last raw index with t <= T
	for i, p := range points {
		if i > 0 && p.t <= points[i-1].t {
			return fmt.Sprintf("emitted timestamps not strictly increasing: %d then %d", points[i-1].t, p.t)
		}
		for j+1 < len(nn) && nn[j+1].t <= p.t {
			j++
		}
		if j < 0 {
			return fmt.Sprintf("point emitted at %d, before the first raw sample %d", p.t, nn[0].t)
		}
		if !vfCounterValueEqual(p.v, adj[j], vfExact) {
			return fmt.Sprintf("point #%d (%d, %v): reset-adjusted raw counter at last raw sample <= T (index %d, t=%d, raw=%v) is %v", i, p.t, p.v, j, nn[j].t, nn[j].v, adj[j])
		}
	}
	if last := points[len(points)-1]; last.t < nn[len(nn)-1].t {
		return fmt.Sprintf("last emitted timestamp %d is before the last raw sample %d: the tail of the counter's increase is lost", last.t, nn[len(nn)-1].t)
	}
	return ""
}

// vfResetNearBoundary reports whether a counter reset lies within one sample of a chunk boundary.
// bounds holds, per output chunk but the last, its MaxTime.
func vfResetNearBoundary(nn []sample, maxTimes []int64) (at, near bool) {
	for _, mt := range maxTimes {
		b := -1 // first raw index after the boundary
		for i, s := range nn {
			if s.t > mt {
				b = i
				break
			}
		}
		if b <= 0 {
			continue
		}
		for r := b - 1; r <= b+1; r++ {
			if r >= 1 && r < len(nn) && nn[r].v < nn[r-1].v {
				near = true
				if r == b {
					at = true
				}
			}
		}
	}
	return at, near
}

// vfSegments cuts xs into runs of samples that fall into the same [k*align,(k+1)*align) range
// (align <= 0: one segment), the way consecutive raw blocks partition a series.
func vfSegments(xs []sample, align int64) [][]sample {
	if align <= 0 || len(xs) == 0 {
		return [][]sample{xs}
	}
	var out [][]sample
	start := 0
	for i := 1; i <= len(xs); i++ {
		if i == len(xs) || xs[i].t/align != xs[start].t/align {
			out = append(out, xs[start:i])
			start = i
		}
	}
	return out
}

// vfLevel1 downsamples every segment to 5m on its own and concatenates the aggregate chunks: what a
// compaction of the 5m blocks of adjacent raw blocks contains for one series.
func vfLevel1(xs []sample, align int64) []chunks.Meta {
	var in []chunks.Meta
	for _, seg := range vfSegments(xs, align) {
		in = append(in, DownsampleRaw(append([]sample(nil), seg...), ResLevel1)...)
	}
	return in
}

// vfLevel2 re-downsamples 5m aggregate chunks to 1h exactly as Downsample does for one series.
func vfLevel2(in []chunks.Meta) ([]chunks.Meta, error) {
	acs := make([]*AggrChunk, 0, len(in))
	for i, m := range in {
		ac, ok := m.Chunk.(*AggrChunk)
		if !ok {
			return nil, fmt.Errorf("input chunk %d is a %T", i, m.Chunk)
		}
		acs = append(acs, ac)
	}
	var (
		buf []sample
		res []chunks.Meta
	)
	err := downsampleAggr(acs, &buf, in[0].MinTime, in[len(in)-1].MaxTime, ResLevel1, ResLevel2, &res)
	return res, err
}

// vfAggrSamples decodes one aggregate of an aggregate chunk meta.
func vfAggrSamples(m chunks.Meta, at AggrType) ([]sample, error) {
	ac, ok := m.Chunk.(*AggrChunk)
	if !ok {
		return nil, fmt.Errorf("chunk is a %T, not *AggrChunk", m.Chunk)
	}
	c, err := ac.Get(at)
	if err != nil {
		return nil, fmt.Errorf("Get(%s): %w", at, err)
	}
	return vfDrainFloat(c.Iterator(nil))
}

// vfRangesOK checks that chunk ranges are well-formed, ordered and disjoint.
func vfRangesOK(ms []chunks.Meta) string {
	for i, m := range ms {
		if m.MinTime > m.MaxTime {
			return fmt.Sprintf("chunk %d: MinTime %d > MaxTime %d", i, m.MinTime, m.MaxTime)
		}
		if i > 0 && m.MinTime <= ms[i-1].MaxTime {
			return fmt.Sprintf("chunk %d [%d,%d] overlaps or precedes chunk %d ending at %d", i, m.MinTime, m.MaxTime, i-1, ms[i-1].MaxTime)
		}
	}
	return ""
}

func vfCounterValueEqual(got, want float64, exact bool) bool {
	if exact {
		return got == want
	}
	return math.Abs(got-want) <= 1e-9*math.Max(1, math.Abs(want))
}
