package store

// C17 part A: a buffer taken from the proxy's shared pool for one sharded Series request is returned
// to the pool at most once.
// Domain: ProxyStore.Series with ShardInfo over 1..4 fake stores (sorted series, optional batches and
// warnings, open failures, receive failures after k frames), both retrieval strategies, both partial
// response strategies, limits, failing client Send. The proxy's sync.Pool gets a recording New
// function; the check runs with GOMAXPROCS(1) and the GC switched off so that the pool is a plain
// free list; after the request the pool is drained. Oracle: no pointer comes out of the drained pool
// more often than once (a pointer that was Put twice would be handed to two later requests).

import (
	"context"
	"errors"
	"fmt"
	"io"
	"math"
	"os"
	"runtime"
	"runtime/debug"
	"sort"
	"strings"
	"sync"
	"testing"
	"time"

	"github.com/prometheus/prometheus/model/labels"
	"google.golang.org/grpc"
	"google.golang.org/grpc/metadata"
	"google.golang.org/grpc/status"
	"pgregory.net/rapid"

	"github.com/thanos-io/thanos/pkg/component"
	"github.com/thanos-io/thanos/pkg/info/infopb"
	"github.com/thanos-io/thanos/pkg/store/labelpb"
	"github.com/thanos-io/thanos/pkg/store/storepb"
	"github.com/thanos-io/thanos/verifx/kit"
)

// sigC17Close: respSet.Close runs twice per store stream (loser-tree close callback when the stream
// is exhausted + the deferred Close in ProxyStore.Series) and ShardMatcher.Close is not idempotent.
const sigC17Close = "C17/respset-closed-twice-shardmatcher-double-put"

// ---- fakes -------------------------------------------------------------------------------------

type c17Stream struct {
	ctx        context.Context
	frames     []*storepb.SeriesResponse
	errAfter   int // >=0: Recv fails once errAfter frames were delivered
	mu         sync.Mutex
	i          int
	closeSends int

	// in-flight message: the Recv call that would deliver frame holdAt waits until the request's
	// context is cancelled (the request ended early) or 5 ms passed, and then delivers the frame all
	// the same - a message that was already on the wire. When it was woken by the cancellation it first
	// takes every buffer out of the proxy's pool and remembers its content (probe); the next call on
	// this stream (Recv / CloseSend) or the end of the request compares: a buffer that sat in the pool
	// must not have been written to by the goroutine that was still processing the message.
	holdAt int
	pool   *sync.Pool
	alloc  *c17Alloc
	held   []*[]byte
	snaps  []string
	probed bool
	viol   string
}

func (s *c17Stream) probe() {
	s.probed = true
	for k := 0; k < 3; k++ {
		runtime.Gosched() // let the closing goroutine run up to its blocking point
	}
	for {
		before := s.alloc.count()
		x := s.pool.Get().(*[]byte)
		if s.alloc.count() > before {
			// the pool was empty and made a new one: nothing (more) was in it
			s.held = append(s.held, x)
			s.snaps = append(s.snaps, "")
			return
		}
		s.held = append(s.held, x)
		s.snaps = append(s.snaps, fmt.Sprintf("%d:%x", len(*x), (*x)[:cap(*x)]))
	}
}

// verify compares the probed buffers and puts them back; idempotent.
func (s *c17Stream) verify() {
	for k, x := range s.held {
		if s.snaps[k] != "" && s.viol == "" {
			if now := fmt.Sprintf("%d:%x", len(*x), (*x)[:cap(*x)]); now != s.snaps[k] {
				s.viol = fmt.Sprintf("a shard buffer that was already back in the pool was written to while the stream's receive goroutine processed an in-flight message (content %s -> %s): released while in use", s.snaps[k], now)
			}
		}
		s.pool.Put(x)
	}
	s.held, s.snaps = nil, nil
}

func (s *c17Stream) Recv() (*storepb.SeriesResponse, error) {
	s.mu.Lock()
	defer s.mu.Unlock()
	s.verify()
	if s.holdAt >= 0 && s.i == s.holdAt && s.i < len(s.frames) && !(s.errAfter >= 0 && s.i >= s.errAfter) && s.ctx.Err() == nil {
		s.holdAt = -1
		s.mu.Unlock()
		woken := false
		select {
		case <-s.ctx.Done():
			woken = true
		case <-time.After(5 * time.Millisecond):
		}
		s.mu.Lock()
		if woken {
			s.probe()
			s.i++
			return s.frames[s.i-1], nil
		}
	}
	if err := s.ctx.Err(); err != nil {
		return nil, status.FromContextError(err).Err()
	}
	if s.errAfter >= 0 && s.i >= s.errAfter {
		return nil, errors.New("store stream broke")
	}
	if s.i >= len(s.frames) {
		return nil, io.EOF
	}
	s.i++
	return s.frames[s.i-1], nil
}
func (s *c17Stream) Header() (metadata.MD, error) { return nil, nil }
func (s *c17Stream) Trailer() metadata.MD         { return nil }
func (s *c17Stream) CloseSend() error {
	s.mu.Lock()
	s.verify()
	s.mu.Unlock()
	s.mu.Lock()
	s.closeSends++
	s.mu.Unlock()
	return nil
}
func (s *c17Stream) Context() context.Context { return s.ctx }
func (s *c17Stream) SendMsg(any) error        { return nil }
func (s *c17Stream) RecvMsg(any) error        { return nil }

type c17Client struct {
	name            string
	frames          []*storepb.SeriesResponse
	openFails       bool
	errAfter        int
	sharding        bool
	withoutReplicas bool
	holdAt          int
	pool            *sync.Pool
	alloc           *c17Alloc

	mu      sync.Mutex
	streams []*c17Stream
}

func (c *c17Client) Series(ctx context.Context, _ *storepb.SeriesRequest, _ ...grpc.CallOption) (storepb.Store_SeriesClient, error) {
	if c.openFails {
		return nil, errors.New("cannot open stream")
	}
	s := &c17Stream{ctx: ctx, frames: c.frames, errAfter: c.errAfter, holdAt: c.holdAt, pool: c.pool, alloc: c.alloc}
	c.mu.Lock()
	c.streams = append(c.streams, s)
	c.mu.Unlock()
	return s, nil
}
func (c *c17Client) LabelNames(context.Context, *storepb.LabelNamesRequest, ...grpc.CallOption) (*storepb.LabelNamesResponse, error) {
	return &storepb.LabelNamesResponse{}, nil
}
func (c *c17Client) LabelValues(context.Context, *storepb.LabelValuesRequest, ...grpc.CallOption) (*storepb.LabelValuesResponse, error) {
	return &storepb.LabelValuesResponse{}, nil
}
func (c *c17Client) LabelSets() []labels.Labels         { return nil }
func (c *c17Client) TimeRange() (int64, int64)          { return math.MinInt64, math.MaxInt64 }
func (c *c17Client) TSDBInfos() []infopb.TSDBInfo       { return nil }
func (c *c17Client) SupportsSharding() bool             { return c.sharding }
func (c *c17Client) SupportsWithoutReplicaLabels() bool { return c.withoutReplicas }
func (c *c17Client) String() string                     { return c.name }
func (c *c17Client) Addr() (string, bool)               { return c.name, false }
func (c *c17Client) Matches([]*labels.Matcher) bool     { return true }

type c17Server struct {
	ctx       context.Context
	failAfter int // >=0: Send fails once failAfter messages were accepted
	sent      int
}

func (s *c17Server) Send(*storepb.SeriesResponse) error {
	if s.failAfter >= 0 && s.sent >= s.failAfter {
		return errors.New("client went away")
	}
	s.sent++
	return nil
}
func (s *c17Server) Context() context.Context     { return s.ctx }
func (s *c17Server) SetHeader(metadata.MD) error  { return nil }
func (s *c17Server) SendHeader(metadata.MD) error { return nil }
func (s *c17Server) SetTrailer(metadata.MD)       {}
func (s *c17Server) SendMsg(any) error            { return nil }
func (s *c17Server) RecvMsg(any) error            { return nil }

type c17Alloc struct {
	mu   sync.Mutex
	made []*[]byte
}

func (a *c17Alloc) new() any {
	b := make([]byte, 0, 64)
	a.mu.Lock()
	a.made = append(a.made, &b)
	a.mu.Unlock()
	return &b
}
func (a *c17Alloc) count() int {
	a.mu.Lock()
	defer a.mu.Unlock()
	return len(a.made)
}

// ---- scenario ----------------------------------------------------------------------------------

type c17Store struct {
	series    [][2]string // (a, b) label values, sorted
	batchAt   int         // >=0: series from this index on are sent as one batch frame
	warnAt    int         // >=0: a warning frame is inserted before this series index
	openFails bool
	errAfter  int
	sharding  bool
	withoutRL bool
	holdAt    int // >=0: the Recv call delivering this frame is an in-flight message (see c17Stream)
}

type c17Case struct {
	stores     []c17Store
	strategy   RetrievalStrategy
	shard      *storepb.ShardInfo
	abort      bool
	disabled   bool
	limit      int64
	batchSize  int64
	withoutRL  bool
	sendFailAt int
	lazyBuf    int
}

func (c c17Case) String() string {
	var sb strings.Builder
	fmt.Fprintf(&sb, "%s", c.strategy)
	if c.shard != nil {
		fmt.Fprintf(&sb, " shard=%d/%d by=%v%v", c.shard.ShardIndex, c.shard.TotalShards, c.shard.By, c.shard.Labels)
	} else {
		sb.WriteString(" unsharded")
	}
	fmt.Fprintf(&sb, " abort=%v disabled=%v limit=%d batch=%d withoutRL=%v sendFailAt=%d lazyBuf=%d", c.abort, c.disabled, c.limit, c.batchSize, c.withoutRL, c.sendFailAt, c.lazyBuf)
	for i, s := range c.stores {
		fmt.Fprintf(&sb, " | s%d", i)
		if s.openFails {
			sb.WriteString(" open-fails")
		}
		fmt.Fprintf(&sb, " series=%v", s.series)
		if s.batchAt >= 0 {
			fmt.Fprintf(&sb, " batchAt=%d", s.batchAt)
		}
		if s.warnAt >= 0 {
			fmt.Fprintf(&sb, " warnAt=%d", s.warnAt)
		}
		if s.errAfter >= 0 {
			fmt.Fprintf(&sb, " errAfter=%d", s.errAfter)
		}
		if s.holdAt >= 0 {
			fmt.Fprintf(&sb, " inflightAt=%d", s.holdAt)
		}
		fmt.Fprintf(&sb, " sharding=%v withoutRL=%v", s.sharding, s.withoutRL)
	}
	return sb.String()
}

func c17Frames(s c17Store) []*storepb.SeriesResponse {
	mk := func(v [2]string) *storepb.Series {
		return &storepb.Series{Labels: labelpb.ZLabelsFromPromLabels(labels.FromStrings("a", v[0], "b", v[1], "r", "x"))}
	}
	var out []*storepb.SeriesResponse
	for i, v := range s.series {
		if s.warnAt == i {
			out = append(out, storepb.NewWarnSeriesResponse(errors.New("store-side warning")))
		}
		if s.batchAt >= 0 && i >= s.batchAt {
			var batch []*storepb.Series
			for _, w := range s.series[i:] {
				batch = append(batch, mk(w))
			}
			out = append(out, storepb.NewBatchResponse(batch))
			break
		}
		out = append(out, storepb.NewSeriesResponse(mk(v)))
	}
	if s.warnAt >= len(s.series) {
		out = append(out, storepb.NewWarnSeriesResponse(errors.New("store-side warning")))
	}
	return out
}

type c17Result struct {
	msg        string
	extraPuts  int // puts beyond the first, summed over pointers
	extraClose int // Close calls beyond the first, summed over opened streams
	nontrivial bool
	classes    []string
}

// c17Run executes one request and inspects the pool. It must be called with GOMAXPROCS(1) and the
// GC disabled (see c17Setup). With tolerateClose (known finding) extra puts are accepted as long as
// they do not outnumber the extra respSet.Close calls observed through CloseSend.
func c17Run(c c17Case, tolerateClose bool) c17Result {
	var r c17Result
	clients := make([]*c17Client, len(c.stores))
	cl := make([]Client, len(c.stores))
	for i, s := range c.stores {
		clients[i] = &c17Client{name: fmt.Sprintf("s%d", i), frames: c17Frames(s), openFails: s.openFails, errAfter: s.errAfter, sharding: s.sharding, withoutReplicas: s.withoutRL, holdAt: s.holdAt}
		cl[i] = clients[i]
	}
	var opts []ProxyStoreOption
	if c.lazyBuf > 0 {
		opts = append(opts, WithLazyRetrievalMaxBufferedResponsesForProxy(c.lazyBuf))
	}
	p := NewProxyStore(nil, nil, func() []Client { return cl }, component.Query, labels.EmptyLabels(), 0, c.strategy, opts...)
	alloc := &c17Alloc{}
	p.buffers = sync.Pool{New: alloc.new}
	for _, fc := range clients {
		fc.pool, fc.alloc = &p.buffers, alloc
	}

	req := &storepb.SeriesRequest{
		MinTime: 0, MaxTime: 1000,
		Matchers:                []storepb.LabelMatcher{{Type: storepb.LabelMatcher_RE, Name: "a", Value: ".+"}},
		ShardInfo:               c.shard,
		PartialResponseDisabled: c.disabled,
		Limit:                   c.limit,
		ResponseBatchSize:       c.batchSize,
		SkipChunks:              true,
	}
	if c.abort {
		req.PartialResponseStrategy = storepb.PartialResponseStrategy_ABORT
	}
	if c.withoutRL {
		req.WithoutReplicaLabels = []string{"r"}
	}
	srv := &c17Server{ctx: context.Background(), failAfter: c.sendFailAt}
	err := p.Series(req, srv)

	inflight := false
	for _, fc := range clients {
		for _, st := range fc.streams {
			st.mu.Lock()
			st.verify()
			inflight = inflight || st.probed
			if st.viol != "" && r.msg == "" {
				r.msg = fmt.Sprintf("store %s: %s (Series err=%v)", fc.name, st.viol, err)
			}
			st.mu.Unlock()
		}
	}
	if r.msg != "" {
		return r
	}
	if inflight {
		r.classes = append(r.classes, "in-flight-message-when-the-request-ended")
	}

	handed := alloc.count()
	// drain: everything that was Put comes out before New is called again.
	seen := map[*[]byte]int{}
	for k := 0; k < 10*(handed+2); k++ {
		x := p.buffers.Get().(*[]byte)
		if alloc.count() > handed {
			break
		}
		seen[x]++
	}
	made := map[*[]byte]bool{}
	for _, m := range alloc.made[:handed] {
		made[m] = true
	}
	returned := 0
	for ptr, n := range seen {
		if !made[ptr] {
			r.msg = "a buffer that the pool never handed out was put into it"
			return r
		}
		returned++
		if n > 1 {
			r.extraPuts += n - 1
		}
	}
	opened := 0
	for _, fc := range clients {
		for _, s := range fc.streams {
			opened++
			s.mu.Lock()
			if s.closeSends > 1 {
				r.extraClose += s.closeSends - 1
			}
			s.mu.Unlock()
		}
	}
	if r.extraPuts > 0 {
		what := fmt.Sprintf("%d buffer(s) handed out, %d distinct returned, %d surplus Put(s): the same *[]byte sits in the pool more than once and will be given to two requests (respSet.Close ran %d surplus time(s) on %d opened stream(s); Series err=%v)", handed, returned, r.extraPuts, r.extraClose, opened, err)
		if !tolerateClose {
			r.msg = what
			return r
		}
		if r.extraPuts > r.extraClose {
			r.msg = "beyond the known double Close: " + what
			return r
		}
	}

	sharded := c.shard != nil && c.shard.TotalShards >= 1
	r.nontrivial = sharded && opened > 0 && returned > 0
	if sharded {
		r.classes = append(r.classes, "sharded")
		if handed != len(c.stores) {
			// stores are never pruned in this scenario: one matcher per store is expected
			r.classes = append(r.classes, "buffers-handed-differs-from-stores")
		}
		if returned < handed {
			r.classes = append(r.classes, "buffer-never-returned")
		}
	} else {
		r.classes = append(r.classes, "unsharded")
		if handed != 0 {
			r.classes = append(r.classes, "buffer-taken-by-unsharded-request")
		}
	}
	if err != nil {
		r.classes = append(r.classes, "series-returned-error")
	}
	if r.extraClose > 0 {
		r.classes = append(r.classes, "stream-closed-more-than-once")
	}
	if r.extraPuts > 0 {
		r.classes = append(r.classes, "double-put-tolerated")
	}
	nOpenFail, nRecvFail, proxySharding := 0, 0, 0
	for _, s := range c.stores {
		if s.openFails {
			nOpenFail++
		} else if s.errAfter >= 0 {
			nRecvFail++
		}
		if !s.sharding {
			proxySharding++
		}
	}
	if nOpenFail > 0 {
		r.classes = append(r.classes, "store-open-failed")
	}
	if nRecvFail > 0 {
		r.classes = append(r.classes, "store-failed-mid-stream")
	}
	if proxySharding > 0 && sharded {
		r.classes = append(r.classes, "sharding-applied-in-proxy")
	}
	r.classes = append(r.classes, "strategy-"+string(c.strategy), fmt.Sprintf("stores-%d", len(c.stores)))
	return r
}

func c17GenStore(rt *rapid.T) c17Store {
	var s c17Store
	n := rapid.IntRange(0, 5).Draw(rt, "series")
	set := map[[2]string]bool{}
	for i := 0; i < n; i++ {
		set[[2]string{rapid.SampledFrom([]string{"1", "2", "3"}).Draw(rt, "a"), rapid.SampledFrom([]string{"1", "2", "3"}).Draw(rt, "b")}] = true
	}
	for v := range set {
		s.series = append(s.series, v)
	}
	sort.Slice(s.series, func(i, j int) bool {
		if s.series[i][0] != s.series[j][0] {
			return s.series[i][0] < s.series[j][0]
		}
		return s.series[i][1] < s.series[j][1]
	})
	s.batchAt, s.warnAt, s.errAfter, s.holdAt = -1, -1, -1, -1
	if rapid.IntRange(0, 4).Draw(rt, "batch") == 0 && len(s.series) > 0 {
		s.batchAt = rapid.IntRange(0, len(s.series)-1).Draw(rt, "batchAt")
	}
	if rapid.IntRange(0, 5).Draw(rt, "warn") == 0 {
		s.warnAt = rapid.IntRange(0, len(s.series)).Draw(rt, "warnAt")
	}
	switch rapid.IntRange(0, 7).Draw(rt, "fault") {
	case 0:
		s.openFails = true
	case 1:
		s.errAfter = rapid.IntRange(0, len(s.series)+1).Draw(rt, "errAfter")
	}
	s.sharding = rapid.Bool().Draw(rt, "supportsSharding")
	s.withoutRL = rapid.IntRange(0, 3).Draw(rt, "supportsWithoutReplicaLabels") > 0
	return s
}

func c17Gen(rt *rapid.T) c17Case {
	var c c17Case
	c.strategy = rapid.SampledFrom([]RetrievalStrategy{EagerRetrieval, LazyRetrieval}).Draw(rt, "strategy")
	n := rapid.IntRange(1, 4).Draw(rt, "stores")
	for i := 0; i < n; i++ {
		c.stores = append(c.stores, c17GenStore(rt))
	}
	if rapid.IntRange(0, 9).Draw(rt, "sharded") > 0 {
		total := rapid.IntRange(1, 4).Draw(rt, "totalShards")
		c.shard = &storepb.ShardInfo{
			TotalShards: int64(total),
			ShardIndex:  int64(rapid.IntRange(0, total-1).Draw(rt, "shardIndex")),
			By:          rapid.Bool().Draw(rt, "by"),
			Labels:      rapid.SampledFrom([][]string{{"a"}, {"b"}, {"a", "b"}, {}, {"zz"}}).Draw(rt, "shardLabels"),
		}
	} else if rapid.Bool().Draw(rt, "zeroShardInfo") {
		c.shard = &storepb.ShardInfo{} // TotalShards 0: present but not sharded
	}
	c.abort = rapid.IntRange(0, 2).Draw(rt, "abort") == 0
	c.disabled = rapid.IntRange(0, 5).Draw(rt, "partialDisabled") == 0
	if rapid.IntRange(0, 3).Draw(rt, "limited") == 0 {
		c.limit = int64(rapid.IntRange(1, 4).Draw(rt, "limit"))
	}
	c.batchSize = rapid.SampledFrom([]int64{0, 0, 1, 2, 64}).Draw(rt, "respBatch")
	c.withoutRL = rapid.IntRange(0, 2).Draw(rt, "withoutReplicaLabels") == 0
	c.sendFailAt = -1
	if rapid.IntRange(0, 5).Draw(rt, "sendFails") == 0 {
		c.sendFailAt = rapid.IntRange(0, 3).Draw(rt, "sendFailAt")
	}
	c.lazyBuf = rapid.SampledFrom([]int{0, 1, 2, 20}).Draw(rt, "lazyBuf")
	// in-flight messages only where something can end the request early (else the hold just times out)
	if c.sendFailAt >= 0 || c.limit > 0 || c.abort {
		for i := range c.stores {
			if rapid.IntRange(0, 2).Draw(rt, "inflight") == 0 {
				c.stores[i].holdAt = rapid.IntRange(0, 3).Draw(rt, "inflightAt")
			}
		}
	}
	return c
}

// c17Setup makes sync.Pool deterministic for this test: one P (one per-P cache, no stealing) and no
// garbage collections (which would age pooled items out). Restored at cleanup.
func c17Setup(t *testing.T) {
	oldProcs := runtime.GOMAXPROCS(1)
	oldGC := debug.SetGCPercent(-1)
	t.Cleanup(func() {
		debug.SetGCPercent(oldGC)
		runtime.GOMAXPROCS(oldProcs)
	})
}

func TestVerifC17_ProxyShardBuffers(t *testing.T) {
	rec := kit.For(t, "C17")
	known := kit.KnownFindings("C17")[sigC17Close]
	c17Setup(t)

	one := func(series ...[2]string) c17Store {
		return c17Store{series: series, batchAt: -1, warnAt: -1, errAfter: -1, holdAt: -1, withoutRL: true}
	}
	// saved regression input of finding F5: one store, one series, one shard; the stream is exhausted,
	// the loser tree closes it, the deferred Close closes it again: the matcher's buffer is Put twice.
	skipFixed := os.Getenv("VERIF_SKIP_FIXED") != "" // sensitivity experiments: let only the generator find mutants
	for _, strat := range []RetrievalStrategy{EagerRetrieval, LazyRetrieval} {
		if skipFixed {
			break
		}
		c := c17Case{stores: []c17Store{one([2]string{"1", "1"})}, strategy: strat, shard: &storepb.ShardInfo{TotalShards: 1, By: true, Labels: []string{"a"}}, sendFailAt: -1}
		res := c17Run(c, false)
		if res.msg != "" {
			if known && res.extraPuts > 0 {
				rec.Known(sigC17Close, "ProxyStore.Series with ShardInfo puts the shard matcher buffer into the pool twice: "+res.msg+" | "+c.String())
				if res2 := c17Run(c, true); res2.msg != "" {
					rec.Violation(t, "regression F5 (beyond the known double Close): %s | %s", res2.msg, c.String())
				}
			} else {
				rec.Violation(t, "regression F5: %s | %s", res.msg, c.String())
			}
		}
	}
	// fixed inputs in which no stream is exhausted before the request ends (each respSet is closed
	// once): ABORT on a leading warning, and a failing client Send.
	for _, c := range []c17Case{
		{stores: []c17Store{{series: [][2]string{{"1", "1"}, {"2", "2"}}, batchAt: -1, warnAt: 0, errAfter: -1, holdAt: -1, withoutRL: true}, one([2]string{"1", "2"}, [2]string{"3", "3"})},
			strategy: EagerRetrieval, shard: &storepb.ShardInfo{TotalShards: 2, ShardIndex: 1, By: true, Labels: []string{"a"}}, abort: true, sendFailAt: -1},
		{stores: []c17Store{one([2]string{"1", "1"}, [2]string{"2", "2"}), one([2]string{"1", "2"}, [2]string{"3", "3"})},
			strategy: LazyRetrieval, shard: &storepb.ShardInfo{TotalShards: 1}, sendFailAt: 0},
	} {
		if skipFixed {
			break
		}
		if res := c17Run(c, known); res.msg != "" {
			rec.Violation(t, "fixed input: %s | %s", res.msg, c.String())
		}
	}

	n := 0
	rec.Check(t, func(rt *rapid.T) {
		c := c17Gen(rt)
		res := c17Run(c, known)
		n++
		if n%50 == 0 {
			runtime.GC() // the pool of the finished case is garbage; keep the heap small
		}
		if res.msg != "" {
			rt.Fatalf("C17 (proxy shard buffers) violated: %s\ncase: %s", res.msg, c.String())
		}
		if known && res.extraPuts > 0 {
			rec.Excluded(sigC17Close)
		}
		rec.Case(c.String(), res.nontrivial, res.classes...)
	})
}
