package store

// C08 (frame-splitting class) Stores present external labels consistently — TSDBStore splits a series over
// several frames when maxBytesPerFrame (unexported, 1 MiB by default) is exceeded. In-package so that the limit
// can be set to 48..4096 bytes and ordinary generated series split into 2..20 frames.
// Oracle (brute force): for every stored series that matches the request on override(stored, external) and has a
// chunk in range, the store must send >=1 frames, ALL of them labelled override(stored, external) minus the
// replica-label list, whose chunks together are exactly the stored chunks in range (nothing lost, nothing
// duplicated or overwritten — the resorting server keeps every frame until Flush); no other label set appears;
// selectors contradicting the external labels yield nothing.
// All package-level identifiers are prefixed c08 (the group is shared).

import (
	"context"
	"fmt"
	"sort"
	"strings"
	"testing"

	"github.com/go-kit/log"
	"github.com/prometheus/prometheus/model/histogram"
	"github.com/prometheus/prometheus/model/labels"
	"github.com/prometheus/prometheus/storage"
	"github.com/prometheus/prometheus/tsdb/chunkenc"
	"github.com/prometheus/prometheus/tsdb/chunks"
	"github.com/prometheus/prometheus/util/annotations"
	"pgregory.net/rapid"

	"github.com/thanos-io/thanos/pkg/component"
	"github.com/thanos-io/thanos/pkg/store/storepb"
	"github.com/thanos-io/thanos/verifx/kit"
)

type c08Smpl struct {
	t int64
	v float64
}

func (s c08Smpl) T() int64                      { return s.t }
func (s c08Smpl) F() float64                    { return s.v }
func (s c08Smpl) H() *histogram.Histogram       { return nil }
func (s c08Smpl) FH() *histogram.FloatHistogram { return nil }
func (s c08Smpl) Type() chunkenc.ValueType      { return chunkenc.ValFloat }
func (s c08Smpl) Copy() chunks.Sample           { return s }

type c08Series struct {
	lset  labels.Labels
	metas []chunks.Meta
}

type c08DB struct{ series []c08Series }

func (db *c08DB) StartTime() (int64, error) { return 0, nil }
func (db *c08DB) ChunkQuerier(mint, maxt int64) (storage.ChunkQuerier, error) {
	return &c08Querier{db: db, mint: mint, maxt: maxt}, nil
}

type c08Querier struct {
	db         *c08DB
	mint, maxt int64
}

func c08Match(ms []*labels.Matcher, l labels.Labels) bool {
	for _, m := range ms {
		if !m.Matches(l.Get(m.Name)) {
			return false
		}
	}
	return true
}

func c08InRange(metas []chunks.Meta, mint, maxt int64) []chunks.Meta {
	var in []chunks.Meta
	for _, m := range metas {
		if m.MinTime <= maxt && m.MaxTime >= mint {
			in = append(in, m)
		}
	}
	return in
}

func (q *c08Querier) sel(ms []*labels.Matcher) []c08Series {
	var out []c08Series
	for _, s := range q.db.series {
		if !c08Match(ms, s.lset) {
			continue
		}
		if in := c08InRange(s.metas, q.mint, q.maxt); len(in) > 0 {
			out = append(out, c08Series{lset: s.lset, metas: in})
		}
	}
	return out
}

func (q *c08Querier) Select(_ context.Context, _ bool, _ *storage.SelectHints, ms ...*labels.Matcher) storage.ChunkSeriesSet {
	return &c08Set{series: q.sel(ms), i: -1}
}
func (q *c08Querier) LabelNames(context.Context, *storage.LabelHints, ...*labels.Matcher) ([]string, annotations.Annotations, error) {
	return nil, nil, nil
}
func (q *c08Querier) LabelValues(context.Context, string, *storage.LabelHints, ...*labels.Matcher) ([]string, annotations.Annotations, error) {
	return nil, nil, nil
}
func (q *c08Querier) Close() error { return nil }

type c08Set struct {
	series []c08Series
	i      int
}

func (s *c08Set) Next() bool { s.i++; return s.i < len(s.series) }
func (s *c08Set) At() storage.ChunkSeries {
	cur := s.series[s.i]
	return &storage.ChunkSeriesEntry{Lset: cur.lset, ChunkIteratorFn: func(chunks.Iterator) chunks.Iterator {
		return storage.NewListChunkSeriesIterator(cur.metas...)
	}}
}
func (s *c08Set) Err() error                        { return nil }
func (s *c08Set) Warnings() annotations.Annotations { return nil }

type c08Frame struct {
	lset   string
	chunks []string // "mint,maxt,bytes"
}

type c08Srv struct {
	storepb.Store_SeriesServer
	frames []c08Frame
}

func (s *c08Srv) Context() context.Context { return context.Background() }
func (s *c08Srv) add(ser *storepb.Series) {
	b := labels.NewScratchBuilder(len(ser.Labels))
	for _, l := range ser.Labels {
		b.Add(strings.Clone(l.Name), strings.Clone(l.Value))
	}
	f := c08Frame{lset: b.Labels().String()}
	for _, c := range ser.Chunks {
		d := ""
		if c.Raw != nil {
			d = string(c.Raw.Data)
		}
		f.chunks = append(f.chunks, fmt.Sprintf("%d,%d,%x", c.MinTime, c.MaxTime, d))
	}
	s.frames = append(s.frames, f)
}
func (s *c08Srv) Send(r *storepb.SeriesResponse) error {
	if ser := r.GetSeries(); ser != nil {
		s.add(ser)
	}
	if b := r.GetBatch(); b != nil {
		for _, ser := range b.Series {
			s.add(ser)
		}
	}
	return nil
}

func c08Present(stored, ext labels.Labels, drop []string) (full, presented labels.Labels) {
	b := labels.NewBuilder(stored)
	ext.Range(func(l labels.Label) { b.Set(l.Name, l.Value) })
	full = b.Labels()
	for _, d := range drop {
		b.Del(d)
	}
	return full, b.Labels()
}

func c08Key(m chunks.Meta) string {
	return fmt.Sprintf("%d,%d,%x", m.MinTime, m.MaxTime, m.Chunk.Bytes())
}

var (
	c08Values = []string{"0", "1", "2"}
)

func c08GenLabels(rt *rapid.T, names []string, min int) labels.Labels {
	b := labels.NewScratchBuilder(4)
	k := 0
	for _, n := range names {
		if rapid.IntRange(0, 2).Draw(rt, "has_"+n) > 0 {
			b.Add(n, rapid.SampledFrom(c08Values).Draw(rt, "v_"+n))
			k++
		}
	}
	if k < min {
		b.Add("z", rapid.SampledFrom(c08Values).Draw(rt, "v_z"))
	}
	b.Sort()
	return b.Labels()
}

func c08GenMatcher(rt *rapid.T, name string) *labels.Matcher {
	v := rapid.SampledFrom([]string{"0", "1", "2", "", "9"}).Draw(rt, "mv")
	switch rapid.IntRange(0, 5).Draw(rt, "mk") {
	case 0, 1:
		return labels.MustNewMatcher(labels.MatchEqual, name, v)
	case 2:
		return labels.MustNewMatcher(labels.MatchNotEqual, name, v)
	case 3:
		return labels.MustNewMatcher(labels.MatchRegexp, name, rapid.SampledFrom([]string{"0|1", "1|2", ".+", ".*", "[12]"}).Draw(rt, "re"))
	case 4:
		return labels.MustNewMatcher(labels.MatchNotRegexp, name, rapid.SampledFrom([]string{"0|1", "2", ".+", ""}).Draw(rt, "nre"))
	default:
		return labels.MustNewMatcher(labels.MatchNotEqual, name, "")
	}
}

func TestVerifC08_Frames(t *testing.T) {
	rec := kit.For(t, "C08")
	nq := kit.Scale("c08framesq", 30, 60)
	rec.Check(t, func(rt *rapid.T) {
		// stored series: names a,b,c (+ sometimes e, r which are also external / replica names)
		stNames := []string{"a", "b", "c"}
		if rapid.Bool().Draw(rt, "storedE") {
			stNames = append(stNames, "e")
		}
		if rapid.Bool().Draw(rt, "storedR") {
			stNames = append(stNames, "r")
		}
		n := rapid.IntRange(1, 8).Draw(rt, "nseries")
		seen := map[string]bool{}
		db := &c08DB{}
		var world []string
		for i := 0; i < n; i++ {
			l := c08GenLabels(rt, stNames, 1)
			if seen[l.String()] {
				continue
			}
			seen[l.String()] = true
			s := c08Series{lset: l}
			nch := rapid.IntRange(1, 14).Draw(rt, "nchunks")
			ts := rapid.Int64Range(0, 50).Draw(rt, "t0")
			for c := 0; c < nch; c++ {
				ns := rapid.IntRange(1, 12).Draw(rt, "nsmp")
				var smp []chunks.Sample
				for j := 0; j < ns; j++ {
					smp = append(smp, c08Smpl{ts, float64(i*1000 + c*20 + j)})
					ts += rapid.Int64Range(1, 9).Draw(rt, "dt")
				}
				m, err := chunks.ChunkFromSamples(smp)
				if err != nil {
					rt.Fatalf("harness: %v", err)
				}
				s.metas = append(s.metas, m)
			}
			db.series = append(db.series, s)
			world = append(world, fmt.Sprintf("%s:%dch@%d..%d", l, len(s.metas), s.metas[0].MinTime, s.metas[len(s.metas)-1].MaxTime))
		}
		sort.Slice(db.series, func(i, j int) bool { return labels.Compare(db.series[i].lset, db.series[j].lset) < 0 })
		ext := c08GenLabels(rt, []string{"e", "r", "a", "f"}, 0)
		st := NewTSDBStore(log.NewNopLogger(), db, component.Receive, ext)
		st.maxBytesPerFrame = rapid.SampledFrom([]int{48, 64, 100, 200, 400, 1000, 4096}).Draw(rt, "maxBytesPerFrame")
		var nonExt []string
		for _, nm := range []string{"a", "b", "c", "z", "e", "r", "q"} {
			if !ext.Has(nm) {
				nonExt = append(nonExt, nm)
			}
		}
		for qi := 0; qi < nq; qi++ {
			ms := []*labels.Matcher{c08GenMatcher(rt, rapid.SampledFrom(nonExt).Draw(rt, "n0"))}
			if rapid.Bool().Draw(rt, "second") {
				ms = append(ms, c08GenMatcher(rt, rapid.SampledFrom([]string{"a", "b", "c", "e", "r", "f"}).Draw(rt, "n1")))
			}
			var drop []string
			switch rapid.IntRange(0, 3).Draw(rt, "dropKind") {
			case 1:
				drop = []string{"r"}
			case 2:
				drop = []string{rapid.SampledFrom([]string{"e", "a", "b", "zz"}).Draw(rt, "d1")}
			case 3:
				drop = []string{"r", rapid.SampledFrom([]string{"e", "a", "c"}).Draw(rt, "d2")}
			}
			mint, maxt := int64(-1<<40), int64(1<<40)
			if rapid.IntRange(0, 2).Draw(rt, "ranged") == 0 {
				mint = rapid.Int64Range(0, 400).Draw(rt, "mint")
				maxt = mint + rapid.Int64Range(0, 400).Draw(rt, "len")
			}
			batch := rapid.SampledFrom([]int64{0, 0, 1, 2, 5}).Draw(rt, "respBatch")
			render := func() string {
				var mss []string
				for _, m := range ms {
					mss = append(mss, m.String())
				}
				return fmt.Sprintf("{%s}@[%d,%d] without=%v batch=%d maxBytesPerFrame=%d ext=%s stored=[%s]", strings.Join(mss, ","), mint, maxt, drop, batch, st.maxBytesPerFrame, ext, strings.Join(world, " "))
			}
			// expectation
			want := map[string]map[string]int{}
			collision := false
			for _, s := range db.series {
				full, pres := c08Present(s.lset, ext, drop)
				if !c08Match(ms, full) {
					continue
				}
				in := c08InRange(s.metas, mint, maxt)
				if len(in) == 0 {
					continue
				}
				k := pres.String()
				if want[k] == nil {
					want[k] = map[string]int{}
				}
				for _, m := range in {
					want[k][c08Key(m)]++
				}
				s.lset.Range(func(l labels.Label) {
					if ext.Has(l.Name) {
						collision = true
					}
				})
			}
			pm, err := storepb.PromMatchersToMatchers(ms...)
			if err != nil {
				rt.Fatalf("harness: %v", err)
			}
			srv := &c08Srv{}
			if err := st.Series(&storepb.SeriesRequest{MinTime: mint, MaxTime: maxt, Matchers: pm, WithoutReplicaLabels: drop, ResponseBatchSize: batch}, srv); err != nil {
				rt.Fatalf("C08 violated (frames): Series failed: %v\n%s", err, render())
			}
			got := map[string]map[string]int{}
			frameCount := map[string]int{}
			for _, f := range srv.frames {
				if want[f.lset] == nil {
					rt.Fatalf("C08 violated (frames): frame labelled %s is not the presentation (external labels override, minus %v) of any stored series matching the request; expected %v\n%s", f.lset, drop, c08Keys(want), render())
				}
				if len(f.chunks) == 0 {
					rt.Fatalf("C08 violated (frames): frame of %s without chunks\n%s", f.lset, render())
				}
				if got[f.lset] == nil {
					got[f.lset] = map[string]int{}
				}
				for _, c := range f.chunks {
					got[f.lset][c]++
				}
				frameCount[f.lset]++
			}
			split := false
			for k, w := range want {
				g := got[k]
				if g == nil {
					rt.Fatalf("C08 violated (frames): series %s expected but no frame carries it\n%s", k, render())
				}
				for c, nW := range w {
					if g[c] != nW {
						rt.Fatalf("C08 violated (frames): series %s: chunk %.40s... sent %d times over %d frames, stored %d times\n%s", k, c, g[c], frameCount[k], nW, render())
					}
				}
				for c, nG := range g {
					if w[c] == 0 {
						rt.Fatalf("C08 violated (frames): series %s: chunk %.40s... (x%d) in the frames is not a stored chunk in range\n%s", k, c, nG, render())
					}
				}
				if frameCount[k] > 1 {
					split = true
				}
			}
			var cl []string
			if split {
				cl = append(cl, "series-split-over-frames")
			}
			if collision {
				cl = append(cl, "stored-label-collides-with-external")
			}
			if len(want) == 0 {
				cl = append(cl, "answer-empty")
			} else {
				cl = append(cl, "answer-nonempty")
			}
			if len(srv.frames) > 12 {
				cl = append(cl, "more-than-12-frames")
			}
			rec.Case("frames "+render(), split || (collision && len(want) > 0), append(cl, "target-tsdb-frames")...)
		}
	})
}

func c08Keys(m map[string]map[string]int) []string {
	out := make([]string, 0, len(m))
	for k := range m {
		out = append(out, k)
	}
	sort.Strings(out)
	return out
}
