package store

// C12 Cached posting-list encodings decode to the original list.
// Domain: sorted []storage.SeriesRef (empty, single, dense, sparse, gaps at every varint length
// boundary up to 2^56, equal neighbours, lists long enough for the streamed codec to span several
// 64 KiB snappy blocks incl. incompressible ones) and Next/Seek sequences whose targets respect the
// index.Postings contract (never below the current value). Codecs: diffVarintSnappyEncode/Decode,
// diffVarintSnappyStreamedEncode/Decode, diffVarintEncodeNoHeader/newDiffVarintPostings,
// snappyStreamedEncode, the decodePostings header dispatch, pooling on and off.
// Oracle: (a) a full drain of the decoded iterator equals the list, Err()==nil; (b) the decoded
// iterator driven in lock step with index.NewListPostings(list) through the same Next/Seek sequence
// returns the same booleans and, whenever true, the same At(); the rest is drained in lock step.

import (
	"encoding/binary"
	"fmt"
	"math"
	"os"
	"strings"
	"testing"

	"github.com/prometheus/prometheus/storage"
	"github.com/prometheus/prometheus/tsdb/index"
	"pgregory.net/rapid"

	"github.com/thanos-io/thanos/verifx/kit"
)

type c12Op struct {
	seek bool
	x    storage.SeriesRef
}

func c12RenderOps(ops []c12Op) string {
	var sb strings.Builder
	for i, o := range ops {
		if i > 0 {
			sb.WriteByte(' ')
		}
		if o.seek {
			fmt.Fprintf(&sb, "S%d", uint64(o.x))
		} else {
			sb.WriteByte('N')
		}
	}
	return sb.String()
}

// c12RenderRefs renders short lists fully and long lists as length + FNV fingerprint + ends.
func c12RenderRefs(refs []storage.SeriesRef) string {
	if len(refs) <= 24 {
		return fmt.Sprint(refs)
	}
	var buf [8]byte
	h := uint64(14695981039346656037)
	for _, r := range refs {
		binary.LittleEndian.PutUint64(buf[:], uint64(r))
		for _, b := range buf {
			h = (h ^ uint64(b)) * 1099511628211
		}
	}
	return fmt.Sprintf("len=%d fp=%x head=%v tail=%v", len(refs), h, refs[:6], refs[len(refs)-3:])
}

type c12Decoder struct {
	name string
	open func(e c12Enc) (closeablePostings, error)
}

// c12Drain checks clause (a).
func c12Drain(p index.Postings, refs []storage.SeriesRef) string {
	for i, want := range refs {
		if !p.Next() {
			return fmt.Sprintf("drain ended after %d of %d postings (Err=%v)", i, len(refs), p.Err())
		}
		if got := p.At(); got != want {
			return fmt.Sprintf("drain: posting %d is %d, want %d", i, uint64(got), uint64(want))
		}
	}
	if p.Next() {
		return fmt.Sprintf("drain: extra posting %d after the %d expected ones", uint64(p.At()), len(refs))
	}
	if err := p.Err(); err != nil {
		return fmt.Sprintf("drain: Err()=%v after a complete drain", err)
	}
	return ""
}

// c12ZipDrain checks clause (a) on two simultaneously open iterators, alternating between them.
func c12ZipDrain(a index.Postings, refsA []storage.SeriesRef, c index.Postings, refsC []storage.SeriesRef) string {
	if c == nil {
		return c12Drain(a, refsA)
	}
	for i := range refsA { // both lists have the same length
		if !a.Next() {
			return fmt.Sprintf("drain ended after %d of %d postings (Err=%v)", i, len(refsA), a.Err())
		}
		if !c.Next() {
			return fmt.Sprintf("companion drain ended after %d of %d postings (Err=%v)", i, len(refsC), c.Err())
		}
		if a.At() != refsA[i] {
			return fmt.Sprintf("drain (interleaved with a second open iterator): posting %d is %d, want %d", i, uint64(a.At()), uint64(refsA[i]))
		}
		if c.At() != refsC[i] {
			return fmt.Sprintf("companion drain (interleaved): posting %d is %d, want %d", i, uint64(c.At()), uint64(refsC[i]))
		}
	}
	if m := c12Drain(a, nil); m != "" {
		return m
	}
	if m := c12Drain(c, nil); m != "" {
		return "companion " + m
	}
	return ""
}

// c12LockStep checks clause (b). Targets are clamped to the contract: never below the current value
// once positioned, never 0 on a fresh iterator. The comparison stops at the first false (an
// exhausted iterator is not used any further by callers).
func c12LockStep(p index.Postings, refs []storage.SeriesRef, ops []c12Op) (msg string, seeks, equalSeeks int) {
	ref := index.NewListPostings(refs)
	cur, positioned := storage.SeriesRef(0), false
	for k, op := range ops {
		var want, got bool
		what := "Next()"
		if op.seek {
			x := op.x
			if positioned && x < cur {
				x = cur
			}
			if !positioned && x < 1 {
				x = 1
			}
			if positioned && x == cur {
				equalSeeks++
			}
			seeks++
			what = fmt.Sprintf("Seek(%d)", uint64(x))
			want, got = ref.Seek(x), p.Seek(x)
		} else {
			want, got = ref.Next(), p.Next()
		}
		if want != got {
			return fmt.Sprintf("op %d %s returned %v, the plain list returns %v (Err=%v)", k, what, got, want, p.Err()), seeks, equalSeeks
		}
		if !want {
			if err := p.Err(); err != nil {
				return fmt.Sprintf("op %d %s: Err()=%v", k, what, err), seeks, equalSeeks
			}
			return "", seeks, equalSeeks
		}
		if ref.At() != p.At() {
			return fmt.Sprintf("op %d %s: At()=%d, the plain list is at %d", k, what, uint64(p.At()), uint64(ref.At())), seeks, equalSeeks
		}
		cur, positioned = ref.At(), true
	}
	for k := 0; ; k++ {
		want, got := ref.Next(), p.Next()
		if want != got {
			return fmt.Sprintf("tail Next #%d after the op sequence returned %v, the plain list returns %v (Err=%v)", k, got, want, p.Err()), seeks, equalSeeks
		}
		if !want {
			break
		}
		if ref.At() != p.At() {
			return fmt.Sprintf("tail Next #%d after the op sequence: At()=%d, the plain list is at %d", k, uint64(p.At()), uint64(ref.At())), seeks, equalSeeks
		}
	}
	if err := p.Err(); err != nil {
		return fmt.Sprintf("Err()=%v after the op sequence", err), seeks, equalSeeks
	}
	return "", seeks, equalSeeks
}

type c12Result struct {
	msg        string
	nontrivial bool
	classes    []string
}

// c12StreamChunks parses the snappy framing of a "dss" value independently of the decoder and
// returns the number of compressed and uncompressed data chunks.
func c12StreamChunks(enc []byte) (compressed, uncompressed int) {
	in := enc[len(codecHeaderStreamedSnappy):]
	for len(in) >= 4 {
		typ := in[0]
		n := int(in[1]) | int(in[2])<<8 | int(in[3])<<16
		in = in[4:]
		if n > len(in) {
			break
		}
		switch typ {
		case 0x00:
			compressed++
		case 0x01:
			uncompressed++
		}
		in = in[n:]
	}
	return compressed, uncompressed
}

// c12Straddles reports whether some varint of the diff encoding crosses a 64 KiB block boundary.
func c12Straddles(refs []storage.SeriesRef) bool {
	var tmp [binary.MaxVarintLen64]byte
	off := 0
	prev := storage.SeriesRef(0)
	for _, r := range refs {
		n := binary.PutUvarint(tmp[:], uint64(r-prev))
		if off/65536 != (off+n-1)/65536 {
			return true
		}
		off += n
		prev = r
	}
	return false
}

type c12Enc struct{ dvs, dss, raw, rawDss []byte }

func c12Encode(refs []storage.SeriesRef, hint int) (e c12Enc, msg string) {
	list := func() index.Postings { return index.NewListPostings(refs) }
	var err error
	if e.dvs, err = diffVarintSnappyEncode(list(), hint); err != nil {
		return e, "diffVarintSnappyEncode failed on a sorted list: " + err.Error()
	}
	if e.dss, err = diffVarintSnappyStreamedEncode(list(), hint); err != nil {
		return e, "diffVarintSnappyStreamedEncode failed on a sorted list: " + err.Error()
	}
	if e.raw, err = diffVarintEncodeNoHeader(list(), hint); err != nil {
		return e, "diffVarintEncodeNoHeader failed on a sorted list: " + err.Error()
	}
	if e.rawDss, err = snappyStreamedEncode(hint, e.raw); err != nil {
		return e, "snappyStreamedEncode failed: " + err.Error()
	}
	if !isDiffVarintSnappyEncodedPostings(e.dvs) || isDiffVarintSnappyStreamedEncodedPostings(e.dvs) ||
		!isDiffVarintSnappyStreamedEncodedPostings(e.dss) || isDiffVarintSnappyEncodedPostings(e.dss) ||
		!isDiffVarintSnappyStreamedEncodedPostings(e.rawDss) {
		return e, "encoded values do not carry exactly their own codec header"
	}
	return e, ""
}

var c12Decoders = []c12Decoder{
	{"dvs/pooled", func(e c12Enc) (closeablePostings, error) { return diffVarintSnappyDecode(e.dvs, false) }},
	{"dvs/unpooled", func(e c12Enc) (closeablePostings, error) { return diffVarintSnappyDecode(e.dvs, true) }},
	{"dvs/decodePostings", func(e c12Enc) (closeablePostings, error) { return decodePostings(e.dvs) }},
	{"dss/pooled", func(e c12Enc) (closeablePostings, error) { return diffVarintSnappyStreamedDecode(e.dss, false) }},
	{"dss/unpooled", func(e c12Enc) (closeablePostings, error) { return diffVarintSnappyStreamedDecode(e.dss, true) }},
	{"dss/decodePostings", func(e c12Enc) (closeablePostings, error) { return decodePostings(e.dss) }},
	{"raw/newDiffVarintPostings", func(e c12Enc) (closeablePostings, error) { return newDiffVarintPostings(e.raw, nil), nil }},
	{"raw+snappyStreamedEncode/decodePostings", func(e c12Enc) (closeablePostings, error) { return decodePostings(e.rawDss) }},
}

// c12Companion is a second sorted list of the same length with different bytes (gap i grows by 1);
// nil if it would wrap around uint64.
func c12Companion(refs []storage.SeriesRef) []storage.SeriesRef {
	if len(refs) == 0 || uint64(refs[len(refs)-1]) > math.MaxUint64-uint64(len(refs)) {
		return nil
	}
	out := make([]storage.SeriesRef, len(refs))
	for i, r := range refs {
		out[i] = r + storage.SeriesRef(i+1)
	}
	return out
}

func c12Check(refs []storage.SeriesRef, ops []c12Op, hint int) c12Result {
	var r c12Result
	enc, msg := c12Encode(refs, hint)
	if msg != "" {
		r.msg = msg
		return r
	}
	// A second, different value is decoded and read concurrently (another request hitting another
	// cache entry): pooled decode buffers must not be shared between open iterators.
	other := c12Companion(refs)
	var encOther c12Enc
	if other != nil {
		if encOther, msg = c12Encode(other, len(other)); msg != "" {
			r.msg = "companion list: " + msg
			return r
		}
	}
	dss := enc.dss
	seeks, equalSeeks := 0, 0
	for _, d := range c12Decoders {
		var open []closeablePostings
		closeAll := func() {
			for _, p := range open {
				p.close()
			}
		}
		get := func(e c12Enc, what string) closeablePostings {
			p, err := d.open(e)
			if err != nil {
				r.msg = fmt.Sprintf("%s: %s decode failed: %v", d.name, what, err)
				return nil
			}
			open = append(open, p)
			return p
		}
		a := get(enc, "first")
		var c closeablePostings
		if a != nil && other != nil {
			c = get(encOther, "companion")
		}
		var b closeablePostings
		if r.msg == "" {
			b = get(enc, "second")
		}
		if r.msg != "" {
			closeAll()
			return r
		}
		msg, s, e := c12LockStep(b, refs, ops)
		if msg == "" {
			msg = c12ZipDrain(a, refs, c, other)
		}
		closeAll()
		if msg != "" {
			r.msg = d.name + ": " + msg
			return r
		}
		seeks, equalSeeks = s, e
	}

	comp, uncomp := c12StreamChunks(dss)
	straddle := len(refs) > 6000 && c12Straddles(refs)
	r.nontrivial = seeks > 0 || comp+uncomp > 1
	switch {
	case len(refs) == 0:
		r.classes = append(r.classes, "len-0")
	case len(refs) == 1:
		r.classes = append(r.classes, "len-1")
	case len(refs) <= 64:
		r.classes = append(r.classes, "len-2..64")
	case len(refs) <= 6000:
		r.classes = append(r.classes, "len-65..6000")
	default:
		r.classes = append(r.classes, "len->6000")
	}
	if seeks > 0 {
		r.classes = append(r.classes, "seek")
	}
	if equalSeeks > 0 {
		r.classes = append(r.classes, "seek-to-current-value")
	}
	if comp+uncomp > 1 {
		r.classes = append(r.classes, "multi-block-stream")
	}
	if uncomp > 0 {
		r.classes = append(r.classes, "uncompressed-chunk")
	}
	if uncomp > 0 && comp+uncomp > 1 {
		r.classes = append(r.classes, "multi-block-with-uncompressed-chunk")
	}
	if straddle {
		r.classes = append(r.classes, "varint-straddles-block-boundary")
	}
	if len(refs) > 0 && refs[len(refs)-1] >= 1<<56 {
		r.classes = append(r.classes, "refs-beyond-2^56")
	}
	for i := 1; i < len(refs); i++ {
		if refs[i] == refs[i-1] {
			r.classes = append(r.classes, "equal-neighbours")
			break
		}
	}
	return r
}

// c12Mix is a fixed 64-bit mixing function (splitmix64 finaliser): long gap sequences are a pure
// function of one drawn seed, so cases stay reproducible and shrinkable.
func c12Mix(x uint64) uint64 {
	x += 0x9e3779b97f4a7c15
	x = (x ^ (x >> 30)) * 0xbf58476d1ce4e5b9
	x = (x ^ (x >> 27)) * 0x94d049bb133111eb
	return x ^ (x >> 31)
}

func c12GenGap(rt *rapid.T) uint64 {
	switch rapid.IntRange(0, 5).Draw(rt, "gapKind") {
	case 0:
		return uint64(rapid.IntRange(1, 3).Draw(rt, "gapSmall"))
	case 1:
		return 16 // series references of real index files are multiples of 16
	case 2:
		k := rapid.IntRange(1, 8).Draw(rt, "gapVarintLen") // around 2^(7k): varint length boundary
		return uint64(1)<<(7*uint(k)) + uint64(rapid.IntRange(-1, 1).Draw(rt, "gapOff"))
	case 3:
		return rapid.Uint64Range(1, 1<<56).Draw(rt, "gapHuge")
	case 4:
		return rapid.Uint64Range(1, 1<<21).Draw(rt, "gapMid")
	default:
		return uint64(rapid.IntRange(0, 1).Draw(rt, "gapZeroOrOne")) // 0 = equal neighbours
	}
}

func c12GenRefs(rt *rapid.T) []storage.SeriesRef {
	sizeClass := rapid.IntRange(0, 99).Draw(rt, "sizeClass")
	lo, hi, maxSeg := 0, 12, 3
	switch {
	case sizeClass >= 92: // long enough for several 64 KiB blocks
		lo, hi, maxSeg = 9000, 45000, 3
	case sizeClass >= 75:
		lo, hi, maxSeg = 0, 2500, 4
	}
	var refs []storage.SeriesRef
	prev := rapid.SampledFrom([]uint64{0, 0, 1, 16, 1 << 20, 1 << 32, 1 << 56}).Draw(rt, "start")
	first := true
	add := func(gap uint64) bool {
		v := prev + gap
		if first {
			v, first = prev, false
		}
		if v < prev { // would wrap around uint64: stop here
			return false
		}
		refs = append(refs, storage.SeriesRef(v))
		prev = v
		return true
	}
	nseg := rapid.IntRange(1, maxSeg).Draw(rt, "segments")
	for s := 0; s < nseg; s++ {
		count := rapid.IntRange(lo, hi).Draw(rt, "count")
		kind := rapid.SampledFrom([]string{"const", "cycle", "hash", "hash", "explicit"}).Draw(rt, "segKind")
		if kind == "explicit" && count > 40 {
			kind = "hash"
		}
		switch kind {
		case "const":
			g := c12GenGap(rt)
			if count > 300 && g > 1<<40 {
				g >>= 20
			}
			for i := 0; i < count && add(g); i++ {
			}
		case "cycle":
			k := rapid.IntRange(2, 4).Draw(rt, "cycleLen")
			gs := make([]uint64, k)
			for i := range gs {
				gs[i] = c12GenGap(rt)
				if count > 300 && gs[i] > 1<<40 {
					gs[i] >>= 20
				}
			}
			for i := 0; i < count && add(gs[i%k]); i++ {
			}
		case "hash":
			seed := rapid.Uint64().Draw(rt, "hashSeed")
			bits := rapid.SampledFrom([]uint{7, 8, 14, 15, 21, 35, 40}).Draw(rt, "hashBits")
			for i := 0; i < count && add(1+c12Mix(seed+uint64(i))&(1<<bits-1)); i++ {
			}
		default:
			for i := 0; i < count && add(c12GenGap(rt)); i++ {
			}
		}
	}
	return refs
}

func c12GenOps(rt *rapid.T, refs []storage.SeriesRef) []c12Op {
	n := rapid.IntRange(0, 10).Draw(rt, "ops")
	ops := make([]c12Op, 0, n)
	for i := 0; i < n; i++ {
		kind := rapid.IntRange(0, 9).Draw(rt, "opKind")
		switch {
		case kind <= 3:
			ops = append(ops, c12Op{})
		case kind <= 7 && len(refs) > 0: // at, just below, just above an existing value
			v := uint64(refs[rapid.IntRange(0, len(refs)-1).Draw(rt, "seekIdx")])
			switch rapid.IntRange(0, 2).Draw(rt, "seekOff") {
			case 1:
				if v > 0 {
					v--
				}
			case 2:
				if v < math.MaxUint64 {
					v++
				}
			}
			ops = append(ops, c12Op{seek: true, x: storage.SeriesRef(v)})
		case kind == 8: // the current value (clamped by the executor)
			ops = append(ops, c12Op{seek: true, x: 0})
		default:
			x := rapid.SampledFrom([]uint64{1, 2, 1 << 20, 1 << 57, math.MaxUint64}).Draw(rt, "seekAbs")
			if len(refs) > 0 && rapid.Bool().Draw(rt, "seekPastEnd") && uint64(refs[len(refs)-1]) < math.MaxUint64 {
				x = uint64(refs[len(refs)-1]) + 1
			}
			ops = append(ops, c12Op{seek: true, x: storage.SeriesRef(x)})
		}
	}
	return ops
}

func c12Prop(rt *rapid.T, rec *kit.Rec) {
	refs := c12GenRefs(rt)
	ops := c12GenOps(rt, refs)
	hint := len(refs)
	switch rapid.IntRange(0, 7).Draw(rt, "lengthHint") {
	case 0:
		hint = 0
	case 1:
		hint = len(refs) / 2
	case 2:
		hint = 2*len(refs) + 1
	}
	res := c12Check(refs, ops, hint)
	if res.msg != "" {
		rt.Fatalf("C12 violated: %s\nrefs: %s\nops: %s hint=%d", res.msg, c12RenderRefs(refs), c12RenderOps(ops), hint)
	}
	if rec != nil {
		rec.Case(c12RenderRefs(refs)+" | "+c12RenderOps(ops), res.nontrivial, res.classes...)
	}
}

func c12Seq(start, gap uint64, n int) []storage.SeriesRef {
	out := make([]storage.SeriesRef, n)
	for i := range out {
		out[i] = storage.SeriesRef(start + uint64(i)*gap)
	}
	return out
}

func TestVerifC12(t *testing.T) {
	rec := kit.For(t, "C12")
	// fixed inputs: the corner lists and one list per block-boundary situation
	seekAll := func(refs []storage.SeriesRef, step int) []c12Op {
		var ops []c12Op
		for i := 0; i < len(refs); i += step {
			ops = append(ops, c12Op{seek: true, x: refs[i]}, c12Op{seek: true, x: refs[i]}, c12Op{})
		}
		return ops
	}
	hashed := make([]storage.SeriesRef, 30000)
	p := uint64(1)
	for i := range hashed {
		p += 1 + c12Mix(uint64(i))&(1<<35-1)
		hashed[i] = storage.SeriesRef(p)
	}
	fixed := []struct {
		refs []storage.SeriesRef
		ops  []c12Op
	}{
		{nil, []c12Op{{}, {seek: true, x: 5}}},
		{nil, []c12Op{{seek: true, x: 5}}},
		{[]storage.SeriesRef{0}, []c12Op{{}, {seek: true, x: 0}}},
		{[]storage.SeriesRef{1}, []c12Op{{seek: true, x: 1}, {seek: true, x: 1}, {seek: true, x: 2}}},
		{[]storage.SeriesRef{16, 32, 48, 1 << 56, 1<<56 + 1, math.MaxUint64}, []c12Op{{seek: true, x: 33}, {seek: true, x: 48}, {}, {seek: true, x: math.MaxUint64}}},
		{c12Seq(16, 16, 70000), seekAll(c12Seq(16, 16, 70000), 9973)},        // 1-byte varints, 2 blocks
		{c12Seq(1, 20000, 50000), seekAll(c12Seq(1, 20000, 50000), 7919)},    // 3-byte varints: straddles every boundary
		{c12Seq(7, 300, 40000), []c12Op{{seek: true, x: 7 + 300*32768 + 1}}}, // 2-byte varints, seek across the boundary
		{hashed, seekAll(hashed, 4999)},                                      // incompressible 5-byte varints: uncompressed chunks
	}
	if os.Getenv("VERIF_SKIP_FIXED") != "" { // sensitivity experiments: let only the generator find mutants
		fixed = nil
	}
	for _, in := range fixed {
		if res := c12Check(in.refs, in.ops, len(in.refs)); res.msg != "" {
			rec.Violation(t, "fixed input: %s | refs %s | ops %s", res.msg, c12RenderRefs(in.refs), c12RenderOps(in.ops))
		}
	}
	rec.Check(t, func(rt *rapid.T) { c12Prop(rt, rec) })
}

// FuzzVerifC12Rapid drives the same property from the native fuzzer's byte stream.
func FuzzVerifC12Rapid(f *testing.F) {
	f.Fuzz(rapid.MakeFuzz(func(rt *rapid.T) { c12Prop(rt, nil) }))
}

// FuzzVerifC12Gaps reads the list directly from fuzz bytes: gaps is a sequence of uvarints (the diff
// encoding itself), repeated `repeat` times so that the fuzzer can reach multi-block lists; every
// 9 bytes of ops are one operation (kind, 8-byte seek target; kind bit 1 selects "existing value").
func FuzzVerifC12Gaps(f *testing.F) {
	f.Add([]byte{16, 16, 16}, []byte{1, 0, 0, 0, 0, 0, 0, 0, 32, 0, 0, 0, 0, 0, 0, 0, 0, 0}, uint16(0))
	f.Add([]byte{0xa0, 0x9c, 0x01}, []byte{3, 0, 0, 0, 0, 0, 0, 0x80, 0x00}, uint16(30000))
	f.Add([]byte{0x80, 0x80, 0x80, 0x80, 0x80, 0x80, 0x80, 0x80, 0x01, 1, 0}, []byte{}, uint16(3))
	f.Add([]byte{0xff, 0xff, 0xff, 0xff, 0x07, 0x81, 0x01}, []byte{2, 1, 2, 3, 4, 5, 6, 7, 8}, uint16(20000))
	f.Fuzz(func(t *testing.T, gaps []byte, opb []byte, repeat uint16) {
		var pattern []uint64
		for b := gaps; len(b) > 0 && len(pattern) < 4096; {
			g, n := binary.Uvarint(b)
			if n <= 0 {
				b = b[1:]
				continue
			}
			pattern = append(pattern, g)
			b = b[n:]
		}
		var refs []storage.SeriesRef
		prev := uint64(0)
	outer:
		for rep := 0; rep <= int(repeat) && len(refs) < 120000; rep++ {
			for _, g := range pattern {
				v := prev + g
				if v < prev {
					break outer
				}
				refs = append(refs, storage.SeriesRef(v))
				prev = v
			}
		}
		var ops []c12Op
		for ; len(opb) >= 9 && len(ops) < 16; opb = opb[9:] {
			x := binary.LittleEndian.Uint64(opb[1:9])
			switch {
			case opb[0]&1 == 0:
				ops = append(ops, c12Op{})
			case opb[0]&2 != 0 && len(refs) > 0:
				ops = append(ops, c12Op{seek: true, x: refs[x%uint64(len(refs))]})
			default:
				ops = append(ops, c12Op{seek: true, x: storage.SeriesRef(x)})
			}
		}
		if res := c12Check(refs, ops, len(refs)); res.msg != "" {
			t.Fatalf("C12 violated: %s\nrefs: %s\nops: %s", res.msg, c12RenderRefs(refs), c12RenderOps(ops))
		}
	})
}
