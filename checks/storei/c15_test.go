package store

// C15 Store gateway picks blocks that cover the query at allowed resolutions.
// Domain: 0..12 block metas over the resolutions raw / 5m / 1h with arbitrary half-open [min,max)
// (gaps, overlaps, nesting, shared boundaries, partial downsampling coverage), added in random order
// with bucketBlockSet.add; query [mint,maxt] (closed, as req.MinTime/req.MaxTime) and a maximum
// resolution >= 0. Oracle (validity predicate on the returned list): (1) no block coarser than the
// maximum, (2) no block twice, (3) every block overlaps the query range, (4) every instant of the
// range that some block of an allowed resolution covers is covered by a selected block (checked on
// all interval end points and, for short ranges, on every instant).

import (
	"fmt"
	"github.com/oklog/ulid/v2"
	"math"
	"os"
	"sort"
	"strings"
	"testing"

	"github.com/prometheus/prometheus/model/labels"
	"pgregory.net/rapid"

	"github.com/thanos-io/thanos/pkg/block/metadata"
	"github.com/thanos-io/thanos/pkg/compact/downsample"
	"github.com/thanos-io/thanos/verifx/kit"
)

// sigC15Dup: a finer-resolution block that sticks out on both sides of a coarser block (or more
// generally overlaps more than one gap that getFor fills recursively) is returned once per gap.
const sigC15Dup = "C15/finer-block-returned-once-per-gap"

type c15Blk struct {
	res      int64
	min, max int64
}

type c15Case struct {
	blocks     []c15Blk // in the order they are added
	removed    []int    // indices of blocks removed again (bucketBlockSet.remove) after all were added: a block set lives through syncs
	mint, maxt int64
	maxRes     int64
}

func c15ResName(r int64) string {
	switch r {
	case downsample.ResLevel0:
		return "raw"
	case downsample.ResLevel1:
		return "5m"
	case downsample.ResLevel2:
		return "1h"
	}
	return fmt.Sprint(r)
}

func (c c15Case) String() string {
	var sb strings.Builder
	for i, b := range c.blocks {
		if i > 0 {
			sb.WriteByte(' ')
		}
		fmt.Fprintf(&sb, "%s[%d,%d)", c15ResName(b.res), b.min, b.max)
	}
	if len(c.removed) > 0 {
		fmt.Fprintf(&sb, " | then removed (by add order) %v", c.removed)
	}
	fmt.Fprintf(&sb, " | getFor(%d,%d,maxRes=%d)", c.mint, c.maxt, c.maxRes)
	return sb.String()
}

type c15Result struct {
	msg        string // violation text ("" = holds)
	dup        bool   // a block was returned more than once
	nontrivial bool
	classes    []string
}

func c15Covers(b c15Blk, t int64) bool { return b.min <= t && t < b.max }

// c15Check builds the set, calls getFor and evaluates the four clauses. With tolerateDup (known
// finding C15/finer-block-returned-once-per-gap) a repeated block is accepted only if it is strictly
// finer than the coarsest allowed resolution level (a block of the level getFor starts from is
// appended by exactly one loop iteration and may never repeat).
func c15Check(c c15Case, tolerateDup bool) c15Result {
	var r c15Result
	set := newBucketBlockSet(labels.EmptyLabels())
	idx := map[*bucketBlock]int{}
	for i, b := range c.blocks {
		var m metadata.Meta
		m.MinTime, m.MaxTime = b.min, b.max
		m.Thanos.Downsample.Resolution = b.res
		m.ULID[14], m.ULID[15] = byte((i+1)>>8), byte(i+1)
		bb := &bucketBlock{meta: &m}
		if err := set.add(bb); err != nil {
			r.msg = fmt.Sprintf("add(%s[%d,%d)) failed: %v", c15ResName(b.res), b.min, b.max, err)
			return r
		}
		idx[bb] = i
	}
	if len(c.removed) > 0 {
		// drop some blocks again (compacted away, retention); the oracle below only knows the survivors
		gone := map[int]bool{}
		for _, i := range c.removed {
			var id ulid.ULID
			id[14], id[15] = byte((i+1)>>8), byte(i+1)
			set.remove(id)
			gone[i] = true
		}
		var live []c15Blk
		remap := map[int]int{}
		for i, b := range c.blocks {
			if !gone[i] {
				remap[i] = len(live)
				live = append(live, b)
			}
		}
		for bb, i := range idx {
			if gone[i] {
				delete(idx, bb)
			} else {
				idx[bb] = remap[i]
			}
		}
		c.blocks = live
		r.classes = append(r.classes, "after-remove")
	}
	got := set.getFor(c.mint, c.maxt, c.maxRes, nil)

	// top = coarsest allowed resolution level of the fixed ladder (the level getFor starts from).
	top := int64(-1)
	for _, lv := range []int64{downsample.ResLevel2, downsample.ResLevel1, downsample.ResLevel0} {
		if lv <= c.maxRes {
			top = lv
			break
		}
	}

	seen := map[int]int{}
	var sel []c15Blk
	for k, bb := range got {
		i, ok := idx[bb]
		if !ok {
			r.msg = fmt.Sprintf("result[%d] is not a block of the set", k)
			return r
		}
		b := c.blocks[i]
		// (1) resolution bound
		if b.res > c.maxRes {
			r.msg = fmt.Sprintf("(1) result[%d]=%s[%d,%d) is coarser than the maximum resolution %d", k, c15ResName(b.res), b.min, b.max, c.maxRes)
			return r
		}
		// (3) overlap with the closed query range
		if !(b.min <= c.maxt && b.max > c.mint) {
			r.msg = fmt.Sprintf("(3) result[%d]=%s[%d,%d) does not overlap the query range [%d,%d]", k, c15ResName(b.res), b.min, b.max, c.mint, c.maxt)
			return r
		}
		seen[i]++
		if seen[i] == 1 {
			sel = append(sel, b)
			continue
		}
		// (2) no duplicates
		r.dup = true
		if !tolerateDup {
			r.msg = fmt.Sprintf("(2) block %s[%d,%d) returned %d times", c15ResName(b.res), b.min, b.max, seen[i])
			return r
		}
		if b.res >= top {
			r.msg = fmt.Sprintf("(2) block %s[%d,%d) of the starting resolution level returned %d times (not the known finer-block class)", c15ResName(b.res), b.min, b.max, seen[i])
			return r
		}
	}

	// (4) coverage
	var allowed []c15Blk
	for _, b := range c.blocks {
		if b.res <= c.maxRes {
			allowed = append(allowed, b)
		}
	}
	checkAt := func(t int64) string {
		if t < c.mint || t > c.maxt {
			return ""
		}
		var by *c15Blk
		for i := range allowed {
			if c15Covers(allowed[i], t) {
				by = &allowed[i]
				break
			}
		}
		if by == nil {
			return ""
		}
		for _, s := range sel {
			if c15Covers(s, t) {
				return ""
			}
		}
		return fmt.Sprintf("(4) instant %d of the range is covered by allowed block %s[%d,%d) but by no selected block", t, c15ResName(by.res), by.min, by.max)
	}
	if c.mint <= c.maxt {
		pts := []int64{c.mint, c.maxt}
		for _, b := range c.blocks {
			pts = append(pts, b.min-1, b.min, b.max-1, b.max)
		}
		for _, t := range pts {
			if m := checkAt(t); m != "" {
				r.msg = m
				return r
			}
		}
		if c.maxt-c.mint <= 400 {
			for t := c.mint; t <= c.maxt; t++ {
				if m := checkAt(t); m != "" {
					r.msg = m + " (found by the full scan only: end-point set incomplete)"
					return r
				}
			}
			r.classes = append(r.classes, "full-scan")
		}
	}

	// classification
	resPresent := map[int64]bool{}
	byRes := map[int64][]c15Blk{}
	for _, b := range c.blocks {
		resPresent[b.res] = true
		byRes[b.res] = append(byRes[b.res], b)
	}
	gapOrOverlap, nested := false, false
	for _, bs := range byRes {
		sort.Slice(bs, func(i, j int) bool {
			if bs[i].min == bs[j].min {
				return bs[i].max < bs[j].max
			}
			return bs[i].min < bs[j].min
		})
		hi := int64(math.MinInt64)
		for i, b := range bs {
			if i > 0 && b.min != hi {
				gapOrOverlap = true
			}
			if i > 0 && b.max <= hi {
				nested = true
			}
			if b.max > hi {
				hi = b.max
			}
		}
	}
	selRes := map[int64]bool{}
	for _, s := range sel {
		selRes[s.res] = true
	}
	r.nontrivial = len(resPresent) >= 2 && gapOrOverlap && len(sel) > 0
	r.classes = append(r.classes, fmt.Sprintf("resolutions-%d", len(resPresent)), fmt.Sprintf("selected-resolutions-%d", len(selRes)))
	if gapOrOverlap {
		r.classes = append(r.classes, "gap-or-overlap-in-resolution")
	}
	if nested {
		r.classes = append(r.classes, "nested-in-resolution")
	}
	if len(allowed) < len(c.blocks) {
		r.classes = append(r.classes, "some-blocks-too-coarse")
	}
	if len(sel) == 0 {
		r.classes = append(r.classes, "empty-selection")
	}
	if len(selRes) >= 2 {
		r.classes = append(r.classes, "gap-filled-by-finer-resolution")
	}
	if c.mint > c.maxt {
		r.classes = append(r.classes, "empty-range")
	}
	if r.dup {
		r.classes = append(r.classes, "duplicate-tolerated")
	}
	return r
}

func c15Gen(rt *rapid.T) c15Case {
	// Times are drawn from a small lattice (multiples of 10 with a -1/0/+1 jitter) so that shared
	// boundaries, off-by-one neighbours, nesting and equal blocks are frequent; then scaled.
	span := rapid.SampledFrom([]int{4, 8, 20}).Draw(rt, "span")
	pt := func(label string, lo, hi int) int64 {
		p := int64(rapid.IntRange(lo, hi).Draw(rt, label)) * 10
		switch rapid.IntRange(0, 7).Draw(rt, label+"Jit") {
		case 0:
			p--
		case 1:
			p++
		}
		return p
	}
	// 0..12 blocks, biased towards many (the table keeps shrinking towards few blocks)
	n := []int{0, 1, 2, 3, 4, 5, 6, 7, 8, 9, 10, 11, 12, 5, 6, 7, 8, 9, 10, 11, 12, 12}[rapid.IntRange(0, 21).Draw(rt, "blocks")]
	resW := rapid.SampledFrom([][]int64{
		{0, 0, 300000, 3600000}, {0, 300000, 300000, 3600000}, {0, 300000, 3600000, 3600000}, {0, 300000}, {300000, 3600000}, {0},
	}).Draw(rt, "resMix")
	var c c15Case
	for i := 0; i < n; i++ {
		var b c15Blk
		b.res = rapid.SampledFrom(resW).Draw(rt, "res")
		b.min = pt("min", 0, span)
		switch rapid.IntRange(0, 3).Draw(rt, "lenKind") {
		case 0:
			b.max = b.min + 10 // one lattice cell
		case 1:
			b.max = pt("max", 0, span+1)
		default:
			b.max = b.min + int64(rapid.IntRange(1, 4).Draw(rt, "cells"))*10
		}
		if b.max <= b.min { // real blocks are never empty
			b.max = b.min + int64(rapid.IntRange(1, 15).Draw(rt, "len"))
		}
		c.blocks = append(c.blocks, b)
	}
	c.mint = pt("mint", -1, span+1)
	c.maxt = pt("maxt", -1, span+2)
	if c.mint > c.maxt && rapid.IntRange(0, 19).Draw(rt, "keepEmptyRange") > 0 {
		c.mint, c.maxt = c.maxt, c.mint
	}
	switch rapid.IntRange(0, 11).Draw(rt, "rangeKind") {
	case 0, 2, 3: // everything
		c.mint, c.maxt = -100, int64(span+10)*10
	case 1: // a single instant on a block boundary
		if n > 0 {
			b := c.blocks[rapid.IntRange(0, n-1).Draw(rt, "bIdx")]
			c.mint = rapid.SampledFrom([]int64{b.min - 1, b.min, b.max - 1, b.max}).Draw(rt, "edge")
			c.maxt = c.mint
		}
	}
	c.maxRes = rapid.SampledFrom([]int64{0, 1, 299999, 300000, 300000, 300000, 300001, 3599999, 3600000, 3600000, 3600000, 3600000, 3600001, math.MaxInt64}).Draw(rt, "maxRes")
	// scale: lattice units, seconds-like, or two-hour blocks in milliseconds (offset keeps times positive)
	scale := rapid.SampledFrom([]int64{1, 1, 1000, 720000}).Draw(rt, "scale")
	if scale != 1 {
		off := rapid.SampledFrom([]int64{0, 1600000000000}).Draw(rt, "offset")
		for i := range c.blocks {
			c.blocks[i].min = c.blocks[i].min*scale + off
			c.blocks[i].max = c.blocks[i].max*scale + off
		}
		c.mint = c.mint*scale + off
		c.maxt = c.maxt*scale + off
		// keep some exact off-by-one relations after scaling
		if n > 0 && rapid.Bool().Draw(rt, "snap") {
			b := c.blocks[rapid.IntRange(0, n-1).Draw(rt, "snapIdx")]
			if rapid.Bool().Draw(rt, "snapMax") {
				c.maxt = rapid.SampledFrom([]int64{b.min - 1, b.min, b.max - 1, b.max}).Draw(rt, "snapEdge")
			} else {
				c.mint = rapid.SampledFrom([]int64{b.min - 1, b.min, b.max - 1, b.max}).Draw(rt, "snapEdge")
			}
			if c.mint > c.maxt {
				c.mint, c.maxt = c.maxt, c.mint
			}
		}
	}
	if n >= 2 && rapid.IntRange(0, 2).Draw(rt, "withRemovals") == 0 {
		seenRm := map[int]bool{}
		for r, m := 0, rapid.IntRange(1, (n+1)/2).Draw(rt, "removals"); r < m; r++ {
			x := rapid.IntRange(0, n-1).Draw(rt, "removeIdx")
			if !seenRm[x] {
				seenRm[x] = true
				c.removed = append(c.removed, x)
			}
		}
	}
	return c
}

func TestVerifC15(t *testing.T) {
	rec := kit.For(t, "C15")
	known := kit.KnownFindings("C15")[sigC15Dup]

	skipFixed := os.Getenv("VERIF_SKIP_FIXED") != "" // sensitivity experiments: let only the generator find mutants
	// saved regression input of finding F4: the raw block surrounds the only 5m block and is picked
	// once for the gap before it and once for the gap behind it.
	if !skipFixed {
		c := c15Case{blocks: []c15Blk{{0, 0, 100}, {downsample.ResLevel1, 40, 60}}, mint: 0, maxt: 100, maxRes: downsample.ResLevel1}
		res := c15Check(c, false)
		if res.msg != "" {
			if known && res.dup {
				rec.Known(sigC15Dup, "getFor returns a block twice: "+res.msg+" | "+c.String())
				// the rest of the predicate must still hold for this input
				if res2 := c15Check(c, true); res2.msg != "" {
					rec.Violation(t, "regression F4 (beyond the known duplicate): %s | %s", res2.msg, c.String())
				}
			} else {
				rec.Violation(t, "regression F4: %s | %s", res.msg, c.String())
			}
		}
	}
	// plain inputs that exercise each clause once (no duplicates involved)
	for _, c := range []c15Case{
		{blocks: []c15Blk{{0, 0, 100}, {0, 100, 200}, {downsample.ResLevel1, 0, 100}}, mint: 0, maxt: 199, maxRes: downsample.ResLevel1},
		{blocks: []c15Blk{{0, 0, 100}, {downsample.ResLevel1, 0, 100}, {downsample.ResLevel2, 0, 100}}, mint: 100, maxt: 100, maxRes: downsample.ResLevel2},
		{blocks: []c15Blk{{downsample.ResLevel2, 0, 100}, {downsample.ResLevel2, 10, 20}, {0, 100, 150}}, mint: 0, maxt: 200, maxRes: math.MaxInt64},
		{blocks: []c15Blk{{0, 50, 60}}, mint: 60, maxt: 70, maxRes: 0},
		{blocks: []c15Blk{{0, 50, 60}}, mint: 40, maxt: 50, maxRes: 0},
	} {
		if skipFixed {
			break
		}
		if res := c15Check(c, known); res.msg != "" {
			rec.Violation(t, "fixed input: %s | %s", res.msg, c.String())
		}
	}

	rec.Check(t, func(rt *rapid.T) {
		c := c15Gen(rt)
		res := c15Check(c, known)
		if res.msg != "" {
			rt.Fatalf("C15 violated: %s\ncase: %s", res.msg, c.String())
		}
		if res.dup && known {
			rec.Excluded(sigC15Dup)
		}
		rec.Case(c.String(), res.nontrivial, res.classes...)
	})
}
