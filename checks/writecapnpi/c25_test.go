package writecapnp

// C25 Cap'n Proto replication encoding is lossless.
//
// Domain: write requests as the receive handler hands them to RemoteWriteClient: 1..3 tenant tuples
// (or the deprecated single-tenant shape) x 0..8 series; label strings drawn from a small shared pool
// (UTF-8, separators, empty strings, arbitrary bytes) plus fresh strings; 0..5 float samples with
// arbitrary float bits; 0..3 native histograms (int / float flavour, spans, deltas, counts, custom
// values, reset hints); 0..3 exemplars with labels; empty lists everywhere.
//
// Encoding is done exactly as RemoteWriteClient.writeWithReconnect does (shared symboltable.Builder,
// BuildInto per tenant, marshalSymbols; or BuildIntoSingleTenantWriteRequest), or through the
// exported Marshal / MarshalPacked; the bytes are then decoded exactly as CapNProtoHandler.Write +
// CapNProtoWriter.Write do (HasTimeSeries dispatch, NewSingleTenantRequest / NewRequest, one reused
// Series value, Next/At, Close).
//
// Oracle (independent of the codec): per tenant the same series in the same order with the same label
// pairs, bitwise-equal samples, histograms equal to what the protobuf replication path hands to the
// appender (prompb.HistogramProtoToHistogram / FloatHistogramProtoToFloatHistogram), exemplars equal.

import (
	"fmt"
	"math"
	"strings"
	"testing"

	"capnproto.org/go/capnp/v3"
	"github.com/prometheus/prometheus/model/histogram"
	"github.com/prometheus/prometheus/model/labels"
	"pgregory.net/rapid"

	"github.com/thanos-io/thanos/pkg/store/labelpb"
	"github.com/thanos-io/thanos/pkg/store/storepb/prompb"
	"github.com/thanos-io/thanos/pkg/symboltable"
	"github.com/thanos-io/thanos/verifx/kit"
)

const (
	// histogram whose count and zero_count oneofs are of different flavours (or one is unset while the
	// other is float): the decoder reads the union member of the *count* flavour and the generated
	// accessor panics.
	sigC25MixedKinds = "C25/mixed-histogram-count-kinds-panic"
	// prompb.Histogram.CustomValues (native histograms with custom buckets) has no field in the schema.
	sigC25CustomValues = "C25/histogram-custom-values-dropped"
)

// ---------------------------------------------------------------------------------------------
// case model

type c25Tenant struct {
	Name   string
	Series []prompb.TimeSeries
}

type c25Case struct {
	Enc     string // client-multi | client-single | marshal
	Packed  bool
	MultiAr bool // multi-segment arena on the encoding side (client-* only)
	Tenants []c25Tenant
}

type c25Pair struct{ N, V string }

// c25Dec is a deep copy of one decoded writecapnp.Series.
type c25Dec struct {
	Labels     []c25Pair
	Samples    []FloatSample
	Histograms []HistogramSample
	Exemplars  []c25DecEx
}

type c25DecEx struct {
	Labels []c25Pair
	Value  float64
	Ts     int64
}

type c25DecTenant struct {
	Name   string
	Series []c25Dec
}

// ---------------------------------------------------------------------------------------------
// rendering

func c25F(f float64) string {
	return fmt.Sprintf("%#x", math.Float64bits(f))
}

func c25Lbls(l []labelpb.ZLabel) string {
	var sb strings.Builder
	sb.WriteByte('{')
	for i, x := range l {
		if i > 0 {
			sb.WriteByte(',')
		}
		fmt.Fprintf(&sb, "%q=%q", x.Name, x.Value)
	}
	sb.WriteByte('}')
	return sb.String()
}

func c25Spans(s []prompb.BucketSpan) string {
	var sb strings.Builder
	sb.WriteByte('[')
	for i, x := range s {
		if i > 0 {
			sb.WriteByte(' ')
		}
		fmt.Fprintf(&sb, "%d:%d", x.Offset, x.Length)
	}
	sb.WriteByte(']')
	return sb.String()
}

func c25Floats(fs []float64) string {
	var sb strings.Builder
	sb.WriteByte('[')
	for i, x := range fs {
		if i > 0 {
			sb.WriteByte(' ')
		}
		sb.WriteString(c25F(x))
	}
	sb.WriteByte(']')
	return sb.String()
}

func c25Hist(h prompb.Histogram) string {
	c, z := "nil", "nil"
	switch v := h.Count.(type) {
	case *prompb.Histogram_CountInt:
		c = fmt.Sprintf("i%d", v.CountInt)
	case *prompb.Histogram_CountFloat:
		c = "f" + c25F(v.CountFloat)
	}
	switch v := h.ZeroCount.(type) {
	case *prompb.Histogram_ZeroCountInt:
		z = fmt.Sprintf("i%d", v.ZeroCountInt)
	case *prompb.Histogram_ZeroCountFloat:
		z = "f" + c25F(v.ZeroCountFloat)
	}
	return fmt.Sprintf("H(t=%d c=%s z=%s sum=%s sch=%d zt=%s rh=%d ps=%s pd=%v pc=%s ns=%s nd=%v nc=%s cv=%s)",
		h.Timestamp, c, z, c25F(h.Sum), h.Schema, c25F(h.ZeroThreshold), h.ResetHint,
		c25Spans(h.PositiveSpans), h.PositiveDeltas, c25Floats(h.PositiveCounts),
		c25Spans(h.NegativeSpans), h.NegativeDeltas, c25Floats(h.NegativeCounts), c25Floats(h.CustomValues))
}

func c25RenderSeries(ts prompb.TimeSeries) string {
	var sb strings.Builder
	sb.WriteString(c25Lbls(ts.Labels))
	sb.WriteString(" S[")
	for i, s := range ts.Samples {
		if i > 0 {
			sb.WriteByte(' ')
		}
		fmt.Fprintf(&sb, "%d:%s", s.Timestamp, c25F(s.Value))
	}
	sb.WriteString("]")
	for _, h := range ts.Histograms {
		sb.WriteByte(' ')
		sb.WriteString(c25Hist(h))
	}
	for _, e := range ts.Exemplars {
		fmt.Fprintf(&sb, " E(%s %s@%d)", c25Lbls(e.Labels), c25F(e.Value), e.Timestamp)
	}
	return sb.String()
}

func c25Render(c c25Case) string {
	var sb strings.Builder
	fmt.Fprintf(&sb, "enc=%s packed=%v multiArena=%v", c.Enc, c.Packed, c.MultiAr)
	for i, tn := range c.Tenants {
		fmt.Fprintf(&sb, " | tenant[%d]=%q", i, tn.Name)
		for j, ts := range tn.Series {
			fmt.Fprintf(&sb, " s%d:%s", j, c25RenderSeries(ts))
		}
	}
	return sb.String()
}

// ---------------------------------------------------------------------------------------------
// encoding: replicas of the production call sequences

func c25NewMessage(multiArena bool) (*capnp.Message, *capnp.Segment, error) {
	var arena capnp.Arena = capnp.SingleSegment(nil)
	if multiArena {
		arena = capnp.MultiSegment(nil)
	}
	return capnp.NewMessage(arena)
}

// c25EncodeClientMulti mirrors the multi-tenant branch of RemoteWriteClient.writeWithReconnect.
func c25EncodeClientMulti(c c25Case) (*capnp.Message, error) {
	msg, seg, err := c25NewMessage(c.MultiAr)
	if err != nil {
		return nil, err
	}
	wr, err := NewRootWriteRequest(seg)
	if err != nil {
		return nil, err
	}
	sym, err := wr.NewSymbols()
	if err != nil {
		return nil, err
	}
	tl, err := NewTimeSeriesTenantTuple_List(wr.Segment(), int32(len(c.Tenants)))
	if err != nil {
		return nil, err
	}
	builder := symboltable.NewBuilder()
	for i, d := range c.Tenants {
		ttl := tl.At(i)
		if err := BuildInto(&ttl, d.Name, d.Series, builder); err != nil {
			return nil, err
		}
	}
	if err := marshalSymbols(builder, sym); err != nil {
		return nil, err
	}
	if err := wr.SetData(tl); err != nil {
		return nil, err
	}
	return msg, nil
}

// c25EncodeClientSingle mirrors the single-tenant branch of RemoteWriteClient.writeWithReconnect.
func c25EncodeClientSingle(c c25Case) (*capnp.Message, error) {
	msg, seg, err := c25NewMessage(c.MultiAr)
	if err != nil {
		return nil, err
	}
	wr, err := NewRootWriteRequest(seg)
	if err != nil {
		return nil, err
	}
	if err := BuildIntoSingleTenantWriteRequest(wr, c.Tenants[0].Name, c.Tenants[0].Series); err != nil {
		return nil, err
	}
	return msg, nil
}

func c25Encode(c c25Case) ([]byte, error) {
	switch c.Enc {
	case "marshal":
		if c.Packed {
			return MarshalPacked(c.Tenants[0].Name, c.Tenants[0].Series)
		}
		return Marshal(c.Tenants[0].Name, c.Tenants[0].Series)
	case "client-single", "client-multi":
		var (
			msg *capnp.Message
			err error
		)
		if c.Enc == "client-single" {
			msg, err = c25EncodeClientSingle(c)
		} else {
			msg, err = c25EncodeClientMulti(c)
		}
		if err != nil {
			return nil, err
		}
		if c.Packed {
			return msg.MarshalPacked()
		}
		return msg.Marshal()
	}
	return nil, fmt.Errorf("unknown encoding %q", c.Enc)
}

// ---------------------------------------------------------------------------------------------
// decoding: replica of CapNProtoHandler.Write + the read loop of CapNProtoWriter.Write

func c25Pairs(l labels.Labels) []c25Pair {
	var out []c25Pair
	l.Range(func(x labels.Label) {
		out = append(out, c25Pair{strings.Clone(x.Name), strings.Clone(x.Value)})
	})
	return out
}

func c25CopyOut(s *Series) c25Dec {
	d := c25Dec{Labels: c25Pairs(s.Labels)}
	d.Samples = append(d.Samples, s.Samples...)
	// readHistogram allocates a fresh histogram (and fresh span / bucket slices) per call, so keeping the
	// pointers is a deep copy already; histogram.Copy() must not be used here, it normalises fields
	// (e.g. drops the zero threshold of custom-bucket schemas) and would blur the comparison.
	d.Histograms = append(d.Histograms, s.Histograms...)
	for _, e := range s.Exemplars {
		d.Exemplars = append(d.Exemplars, c25DecEx{Labels: c25Pairs(e.Labels), Value: e.Value, Ts: e.Ts})
	}
	return d
}

func c25Drain(req *Request) ([]c25Dec, error) {
	var (
		series Series // reused across series exactly as CapNProtoWriter.Write does
		out    []c25Dec
	)
	for req.Next() {
		if err := req.At(&series); err != nil {
			return nil, fmt.Errorf("request.At: %w", err)
		}
		out = append(out, c25CopyOut(&series))
	}
	return out, nil
}

func c25DecodeWR(wr WriteRequest) ([]c25DecTenant, error) {
	var out []c25DecTenant
	if wr.HasTimeSeries() {
		t, err := wr.Tenant()
		if err != nil {
			return nil, err
		}
		req, err := NewSingleTenantRequest(wr, t)
		if err != nil {
			return nil, err
		}
		ss, err := c25Drain(req)
		if err != nil {
			return nil, err
		}
		if err := req.Close(); err != nil {
			return nil, err
		}
		return append(out, c25DecTenant{Name: strings.Clone(req.Tenant), Series: ss}), nil
	}
	data, err := wr.Data()
	if err != nil {
		return nil, err
	}
	symTable, err := wr.Symbols()
	if err != nil {
		return nil, err
	}
	for i := 0; i < data.Len(); i++ {
		d := data.At(i)
		tenant, err := d.Tenant()
		if err != nil {
			return nil, err
		}
		req, err := NewRequest(d, symTable, tenant)
		if err != nil {
			return nil, err
		}
		ss, err := c25Drain(req)
		if err != nil {
			return nil, err
		}
		if err := req.Close(); err != nil {
			return nil, err
		}
		out = append(out, c25DecTenant{Name: strings.Clone(req.Tenant), Series: ss})
	}
	return out, nil
}

// c25Decode never panics: a panic of the decoder is returned as an error text starting with "panic:".
func c25Decode(b []byte, packed bool) (out []c25DecTenant, err error) {
	defer func() {
		if r := recover(); r != nil {
			out, err = nil, fmt.Errorf("panic: %v", r)
		}
	}()
	var msg *capnp.Message
	if packed {
		msg, err = capnp.UnmarshalPacked(b)
	} else {
		msg, err = capnp.Unmarshal(b)
	}
	if err != nil {
		return nil, fmt.Errorf("unmarshal: %w", err)
	}
	wr, err := ReadRootWriteRequest(msg)
	if err != nil {
		return nil, fmt.Errorf("read root: %w", err)
	}
	return c25DecodeWR(wr)
}

// ---------------------------------------------------------------------------------------------
// oracle

func c25IsFloatOneof(count bool, h prompb.Histogram) bool {
	if count {
		_, ok := h.Count.(*prompb.Histogram_CountFloat)
		return ok
	}
	_, ok := h.ZeroCount.(*prompb.Histogram_ZeroCountFloat)
	return ok
}

// c25Mixed: the count and zero_count oneofs are of different flavours (unset counts as integer, which is
// how both the protobuf path and the Cap'n Proto default read it).
func c25Mixed(h prompb.Histogram) bool {
	return c25IsFloatOneof(true, h) != c25IsFloatOneof(false, h)
}

func c25SameBits(a, b float64) bool { return math.Float64bits(a) == math.Float64bits(b) }

func c25SameFloats(a, b []float64) bool {
	if len(a) != len(b) {
		return false
	}
	for i := range a {
		if !c25SameBits(a[i], b[i]) {
			return false
		}
	}
	return true
}

func c25SameInts(a, b []int64) bool {
	if len(a) != len(b) {
		return false
	}
	for i := range a {
		if a[i] != b[i] {
			return false
		}
	}
	return true
}

func c25SameSpans(a, b []histogram.Span) bool {
	if len(a) != len(b) {
		return false
	}
	for i := range a {
		if a[i] != b[i] {
			return false
		}
	}
	return true
}

func c25SamePairs(got []c25Pair, want []labelpb.ZLabel) bool {
	if len(got) != len(want) {
		return false
	}
	for i := range got {
		if got[i].N != want[i].Name || got[i].V != want[i].Value {
			return false
		}
	}
	return true
}

// c25CmpHist compares a decoded histogram with what the protobuf replication path (Writer.Write) would
// hand to the appender for the same prompb.Histogram. ignoreCustom: do not compare CustomValues.
func c25CmpHist(got HistogramSample, hp prompb.Histogram, ignoreCustom bool) string {
	if got.Timestamp != hp.Timestamp {
		return fmt.Sprintf("timestamp %d != %d", got.Timestamp, hp.Timestamp)
	}
	if hp.IsFloatHistogram() {
		want := prompb.FloatHistogramProtoToFloatHistogram(hp)
		g := got.FloatHistogram
		if g == nil || got.Histogram != nil {
			return "float histogram decoded as integer histogram"
		}
		switch {
		case g.CounterResetHint != want.CounterResetHint:
			return fmt.Sprintf("reset hint %d != %d", g.CounterResetHint, want.CounterResetHint)
		case g.Schema != want.Schema:
			return fmt.Sprintf("schema %d != %d", g.Schema, want.Schema)
		case !c25SameBits(g.ZeroThreshold, want.ZeroThreshold):
			return "zero threshold differs"
		case !c25SameBits(g.ZeroCount, want.ZeroCount):
			return fmt.Sprintf("zero count %v != %v", g.ZeroCount, want.ZeroCount)
		case !c25SameBits(g.Count, want.Count):
			return fmt.Sprintf("count %v != %v", g.Count, want.Count)
		case !c25SameBits(g.Sum, want.Sum):
			return "sum differs"
		case !c25SameSpans(g.PositiveSpans, want.PositiveSpans):
			return fmt.Sprintf("positive spans %v != %v", g.PositiveSpans, want.PositiveSpans)
		case !c25SameSpans(g.NegativeSpans, want.NegativeSpans):
			return fmt.Sprintf("negative spans %v != %v", g.NegativeSpans, want.NegativeSpans)
		case !c25SameFloats(g.PositiveBuckets, want.PositiveBuckets):
			return fmt.Sprintf("positive buckets %v != %v", g.PositiveBuckets, want.PositiveBuckets)
		case !c25SameFloats(g.NegativeBuckets, want.NegativeBuckets):
			return fmt.Sprintf("negative buckets %v != %v", g.NegativeBuckets, want.NegativeBuckets)
		case !ignoreCustom && !c25SameFloats(g.CustomValues, want.CustomValues):
			return fmt.Sprintf("custom values %v != %v", g.CustomValues, want.CustomValues)
		}
		return ""
	}
	want := prompb.HistogramProtoToHistogram(hp)
	g := got.Histogram
	if g == nil || got.FloatHistogram != nil {
		return "integer histogram decoded as float histogram"
	}
	switch {
	case g.CounterResetHint != want.CounterResetHint:
		return fmt.Sprintf("reset hint %d != %d", g.CounterResetHint, want.CounterResetHint)
	case g.Schema != want.Schema:
		return fmt.Sprintf("schema %d != %d", g.Schema, want.Schema)
	case !c25SameBits(g.ZeroThreshold, want.ZeroThreshold):
		return "zero threshold differs"
	case g.ZeroCount != want.ZeroCount:
		return fmt.Sprintf("zero count %v != %v", g.ZeroCount, want.ZeroCount)
	case g.Count != want.Count:
		return fmt.Sprintf("count %v != %v", g.Count, want.Count)
	case !c25SameBits(g.Sum, want.Sum):
		return "sum differs"
	case !c25SameSpans(g.PositiveSpans, want.PositiveSpans):
		return fmt.Sprintf("positive spans %v != %v", g.PositiveSpans, want.PositiveSpans)
	case !c25SameSpans(g.NegativeSpans, want.NegativeSpans):
		return fmt.Sprintf("negative spans %v != %v", g.NegativeSpans, want.NegativeSpans)
	case !c25SameInts(g.PositiveBuckets, want.PositiveBuckets):
		return fmt.Sprintf("positive buckets %v != %v", g.PositiveBuckets, want.PositiveBuckets)
	case !c25SameInts(g.NegativeBuckets, want.NegativeBuckets):
		return fmt.Sprintf("negative buckets %v != %v", g.NegativeBuckets, want.NegativeBuckets)
	case !ignoreCustom && !c25SameFloats(g.CustomValues, want.CustomValues):
		return fmt.Sprintf("custom values %v != %v", g.CustomValues, want.CustomValues)
	}
	return ""
}

func c25CmpSeries(got c25Dec, want prompb.TimeSeries, ignoreCustom bool) string {
	if !c25SamePairs(got.Labels, want.Labels) {
		return fmt.Sprintf("labels %q != %s", got.Labels, c25Lbls(want.Labels))
	}
	if len(got.Samples) != len(want.Samples) {
		return fmt.Sprintf("%d samples != %d", len(got.Samples), len(want.Samples))
	}
	for i := range want.Samples {
		if got.Samples[i].Timestamp != want.Samples[i].Timestamp || !c25SameBits(got.Samples[i].Value, want.Samples[i].Value) {
			return fmt.Sprintf("sample %d: %d:%s != %d:%s", i, got.Samples[i].Timestamp, c25F(got.Samples[i].Value),
				want.Samples[i].Timestamp, c25F(want.Samples[i].Value))
		}
	}
	if len(got.Histograms) != len(want.Histograms) {
		return fmt.Sprintf("%d histograms != %d", len(got.Histograms), len(want.Histograms))
	}
	for i := range want.Histograms {
		if m := c25CmpHist(got.Histograms[i], want.Histograms[i], ignoreCustom); m != "" {
			return fmt.Sprintf("histogram %d: %s", i, m)
		}
	}
	if len(got.Exemplars) != len(want.Exemplars) {
		return fmt.Sprintf("%d exemplars != %d", len(got.Exemplars), len(want.Exemplars))
	}
	for i := range want.Exemplars {
		g, w := got.Exemplars[i], want.Exemplars[i]
		if !c25SamePairs(g.Labels, w.Labels) {
			return fmt.Sprintf("exemplar %d labels %q != %s", i, g.Labels, c25Lbls(w.Labels))
		}
		if !c25SameBits(g.Value, w.Value) || g.Ts != w.Timestamp {
			return fmt.Sprintf("exemplar %d: %s@%d != %s@%d", i, c25F(g.Value), g.Ts, c25F(w.Value), w.Timestamp)
		}
	}
	return ""
}

// c25RoundTrip encodes and decodes c and compares; it returns "" or the description of the difference.
func c25RoundTrip(c c25Case, ignoreCustom bool) string {
	b, err := c25Encode(c)
	if err != nil {
		return "encode failed: " + err.Error()
	}
	got, err := c25Decode(b, c.Packed)
	if err != nil {
		return "decode failed: " + err.Error()
	}
	if len(got) != len(c.Tenants) {
		return fmt.Sprintf("%d tenants decoded, %d sent", len(got), len(c.Tenants))
	}
	for i, tn := range c.Tenants {
		if got[i].Name != tn.Name {
			return fmt.Sprintf("tenant[%d] %q != %q", i, got[i].Name, tn.Name)
		}
		if len(got[i].Series) != len(tn.Series) {
			return fmt.Sprintf("tenant[%d]: %d series decoded, %d sent", i, len(got[i].Series), len(tn.Series))
		}
		for j := range tn.Series {
			if m := c25CmpSeries(got[i].Series[j], tn.Series[j], ignoreCustom); m != "" {
				return fmt.Sprintf("tenant[%d] series[%d]: %s", i, j, m)
			}
		}
	}
	return ""
}

// ---------------------------------------------------------------------------------------------
// generators

var c25Fixed = []string{"", "a", "b", "__name__", "job", "le", "a:b", "a=b", "é", "日本語", "\x00", "a\x00b", "a\xffb", "\xf0\x9f\x98\x80", " ", "0"}

func c25GenString(t *rapid.T, label string) string {
	switch rapid.IntRange(0, 9).Draw(t, label+"K") {
	case 0, 1, 2, 3, 4:
		return rapid.SampledFrom(c25Fixed).Draw(t, label)
	case 5, 6:
		return rapid.StringN(0, 6, 12).Draw(t, label)
	case 7:
		return string(rapid.SliceOfN(rapid.Byte(), 0, 6).Draw(t, label))
	case 8:
		return strings.Repeat(rapid.SampledFrom([]string{"x", "yz", "ä"}).Draw(t, label), rapid.IntRange(1, 40).Draw(t, label+"N"))
	default:
		return rapid.StringMatching(`[a-z_][a-z0-9_]{0,5}`).Draw(t, label)
	}
}

func c25GenFloat(t *rapid.T, label string) float64 {
	switch rapid.IntRange(0, 5).Draw(t, label+"K") {
	case 0:
		return float64(rapid.IntRange(-5, 5).Draw(t, label))
	case 1:
		return rapid.SampledFrom([]float64{0, math.Copysign(0, -1), math.Inf(1), math.Inf(-1), math.NaN(),
			math.Float64frombits(0x7ff0000000000002), math.Float64frombits(0x7ff8000000000001), math.MaxFloat64, math.SmallestNonzeroFloat64}).Draw(t, label)
	case 2:
		return rapid.Float64().Draw(t, label)
	default:
		return math.Float64frombits(rapid.Uint64().Draw(t, label))
	}
}

func c25GenInt64(t *rapid.T, label string) int64 {
	switch rapid.IntRange(0, 3).Draw(t, label+"K") {
	case 0:
		return int64(rapid.IntRange(-3, 3).Draw(t, label))
	case 1:
		return rapid.SampledFrom([]int64{math.MinInt64, math.MaxInt64, 1700000000000, -1}).Draw(t, label)
	default:
		return rapid.Int64().Draw(t, label)
	}
}

func c25GenUint64(t *rapid.T, label string) uint64 {
	switch rapid.IntRange(0, 2).Draw(t, label+"K") {
	case 0:
		return uint64(rapid.IntRange(0, 5).Draw(t, label))
	case 1:
		return rapid.SampledFrom([]uint64{math.MaxUint64, 1 << 63, 1 << 32}).Draw(t, label)
	default:
		return rapid.Uint64().Draw(t, label)
	}
}

// c25Gen carries the known-finding switches into the generator and reports which excluded classes the
// draw would have produced.
type c25Gen struct {
	allowMixed, allowCustom bool
	exclMixed, exclCustom   bool
}

type c25Pool struct {
	strs []string
}

func (p *c25Pool) pick(t *rapid.T, label string) string {
	if len(p.strs) > 0 && rapid.IntRange(0, 9).Draw(t, label+"P") < 7 {
		return p.strs[rapid.IntRange(0, len(p.strs)-1).Draw(t, label+"I")]
	}
	return c25GenString(t, label)
}

func c25GenLabels(t *rapid.T, p *c25Pool, max int, label string) []labelpb.ZLabel {
	n := rapid.IntRange(0, max).Draw(t, label+"N")
	if n == 0 {
		if rapid.Bool().Draw(t, label+"Nil") {
			return nil
		}
		return []labelpb.ZLabel{}
	}
	out := make([]labelpb.ZLabel, n)
	for i := range out {
		out[i] = labelpb.ZLabel{Name: p.pick(t, label+"n"), Value: p.pick(t, label+"v")}
	}
	return out
}

func c25GenSpans(t *rapid.T, label string) []prompb.BucketSpan {
	n := rapid.IntRange(0, 3).Draw(t, label+"N")
	if n == 0 {
		return nil
	}
	out := make([]prompb.BucketSpan, n)
	for i := range out {
		out[i].Offset = rapid.Int32().Draw(t, label+"o")
		if rapid.Bool().Draw(t, label+"small") {
			out[i].Offset = int32(rapid.IntRange(-4, 4).Draw(t, label+"os"))
		}
		out[i].Length = uint32(rapid.IntRange(0, 4).Draw(t, label+"l"))
		if rapid.IntRange(0, 7).Draw(t, label+"big") == 0 {
			out[i].Length = rapid.Uint32().Draw(t, label+"lb")
		}
	}
	return out
}

func c25GenInts(t *rapid.T, label string) []int64 {
	n := rapid.IntRange(0, 5).Draw(t, label+"N")
	if n == 0 {
		return nil
	}
	out := make([]int64, n)
	for i := range out {
		out[i] = c25GenInt64(t, label)
	}
	return out
}

func c25GenFloats(t *rapid.T, max int, label string) []float64 {
	n := rapid.IntRange(0, max).Draw(t, label+"N")
	if n == 0 {
		return nil
	}
	out := make([]float64, n)
	for i := range out {
		out[i] = c25GenFloat(t, label)
	}
	return out
}

// c25GenHist draws one histogram. allowMixed / allowCustom switch the two classes that known findings
// exclude by construction.
func c25GenHist(t *rapid.T, g *c25Gen) prompb.Histogram {
	h := prompb.Histogram{
		Sum:           c25GenFloat(t, "hsum"),
		ZeroThreshold: c25GenFloat(t, "hzt"),
		Timestamp:     c25GenInt64(t, "hts"),
		ResetHint:     prompb.Histogram_ResetHint(rapid.IntRange(0, 3).Draw(t, "hrh")),
	}
	switch rapid.IntRange(0, 3).Draw(t, "hschK") {
	case 0:
		h.Schema = int32(rapid.IntRange(-4, 8).Draw(t, "hsch"))
	case 1:
		h.Schema = -53 // custom buckets
	case 2:
		h.Schema = 0
	default:
		h.Schema = rapid.Int32().Draw(t, "hschAny")
	}
	// flavour: 0 int, 1 float, 2 unset count (read as int)
	isFloat := false
	switch rapid.IntRange(0, 4).Draw(t, "hkind") {
	case 0, 1:
		h.Count = &prompb.Histogram_CountInt{CountInt: c25GenUint64(t, "hc")}
	case 2, 3:
		h.Count = &prompb.Histogram_CountFloat{CountFloat: c25GenFloat(t, "hcf")}
		isFloat = true
	}
	zk := rapid.IntRange(0, 9).Draw(t, "hzkind") // 0: unset, 1: other flavour, else same flavour
	zFloat := isFloat
	if zk == 1 {
		zFloat = !isFloat
	}
	switch {
	case zk == 0:
	case zFloat:
		h.ZeroCount = &prompb.Histogram_ZeroCountFloat{ZeroCountFloat: c25GenFloat(t, "hzf")}
	default:
		h.ZeroCount = &prompb.Histogram_ZeroCountInt{ZeroCountInt: c25GenUint64(t, "hz")}
	}
	if !g.allowMixed && c25Mixed(h) {
		g.exclMixed = true
		// exclude the known-finding class by construction: make zero_count follow the count flavour.
		if isFloat {
			h.ZeroCount = &prompb.Histogram_ZeroCountFloat{ZeroCountFloat: c25GenFloat(t, "hzf2")}
		} else {
			h.ZeroCount = &prompb.Histogram_ZeroCountInt{ZeroCountInt: c25GenUint64(t, "hz2")}
		}
	}
	h.PositiveSpans = c25GenSpans(t, "hps")
	h.NegativeSpans = c25GenSpans(t, "hns")
	both := rapid.IntRange(0, 5).Draw(t, "hboth") == 0
	if !isFloat || both {
		h.PositiveDeltas = c25GenInts(t, "hpd")
		h.NegativeDeltas = c25GenInts(t, "hnd")
	}
	if isFloat || both {
		h.PositiveCounts = c25GenFloats(t, 5, "hpc")
		h.NegativeCounts = c25GenFloats(t, 5, "hnc")
	}
	if rapid.IntRange(0, 3).Draw(t, "hcvK") == 0 {
		if g.allowCustom {
			h.CustomValues = c25GenFloats(t, 3, "hcv")
		} else {
			g.exclCustom = true
		}
	}
	return h
}

func c25GenSeries(t *rapid.T, p *c25Pool, g *c25Gen) prompb.TimeSeries {
	ts := prompb.TimeSeries{Labels: c25GenLabels(t, p, 5, "l")}
	if n := rapid.IntRange(0, 5).Draw(t, "nS"); n > 0 {
		ts.Samples = make([]prompb.Sample, n)
		for i := range ts.Samples {
			ts.Samples[i] = prompb.Sample{Timestamp: c25GenInt64(t, "st"), Value: c25GenFloat(t, "sv")}
		}
	}
	if n := rapid.IntRange(0, 6).Draw(t, "nH") - 3; n > 0 {
		ts.Histograms = make([]prompb.Histogram, n)
		for i := range ts.Histograms {
			ts.Histograms[i] = c25GenHist(t, g)
		}
	}
	if n := rapid.IntRange(0, 6).Draw(t, "nE") - 3; n > 0 {
		ts.Exemplars = make([]prompb.Exemplar, n)
		for i := range ts.Exemplars {
			ts.Exemplars[i] = prompb.Exemplar{Labels: c25GenLabels(t, p, 3, "el"), Value: c25GenFloat(t, "ev"), Timestamp: c25GenInt64(t, "et")}
		}
	}
	return ts
}

func c25GenCase(t *rapid.T, g *c25Gen) c25Case {
	c := c25Case{
		Enc:     rapid.SampledFrom([]string{"client-multi", "client-multi", "client-multi", "client-single", "marshal"}).Draw(t, "enc"),
		Packed:  rapid.Bool().Draw(t, "packed"),
		MultiAr: rapid.Bool().Draw(t, "multiArena"),
	}
	p := &c25Pool{}
	for i, n := 0, rapid.IntRange(0, 6).Draw(t, "poolN"); i < n; i++ {
		p.strs = append(p.strs, c25GenString(t, "pool"))
	}
	nt := 1
	if c.Enc == "client-multi" {
		nt = rapid.IntRange(1, 3).Draw(t, "tenants")
	}
	for i := 0; i < nt; i++ {
		tn := c25Tenant{Name: rapid.OneOf(
			rapid.SampledFrom([]string{"default-tenant", "a", "b", "", "tenant:1", "ünï"}),
			rapid.StringN(0, 8, 16),
		).Draw(t, "tenant")}
		ns := rapid.IntRange(0, 8).Draw(t, "series")
		for j := 0; j < ns; j++ {
			tn.Series = append(tn.Series, c25GenSeries(t, p, g))
		}
		c.Tenants = append(c.Tenants, tn)
	}
	return c
}

// c25Classify derives the non-trivial rule and the class histogram from a case.
func c25Classify(c c25Case) (bool, []string) {
	classes := []string{"enc-" + c.Enc}
	if c.Packed {
		classes = append(classes, "packed")
	}
	seen := map[string]int{} // string -> number of series (or exemplars) using it
	series, hists, exs, shared := 0, 0, 0, false
	var emptyStr, nonUTF8, fh, ih, custom, mixed, emptySeries, emptyTenant bool
	for _, tn := range c.Tenants {
		if len(tn.Series) == 0 {
			emptyTenant = true
		}
		for _, ts := range tn.Series {
			series++
			used := map[string]bool{}
			note := func(l []labelpb.ZLabel) {
				for _, x := range l {
					for _, s := range []string{x.Name, x.Value} {
						used[s] = true
						if s == "" {
							emptyStr = true
						}
						if strings.ToValidUTF8(s, "") != s {
							nonUTF8 = true
						}
					}
				}
			}
			note(ts.Labels)
			for _, e := range ts.Exemplars {
				note(e.Labels)
			}
			for s := range used {
				seen[s]++
				if seen[s] >= 2 {
					shared = true
				}
			}
			hists += len(ts.Histograms)
			exs += len(ts.Exemplars)
			for _, h := range ts.Histograms {
				if h.IsFloatHistogram() {
					fh = true
				} else {
					ih = true
				}
				if len(h.CustomValues) > 0 {
					custom = true
				}
				if c25Mixed(h) {
					mixed = true
				}
			}
			if len(ts.Labels) == 0 && len(ts.Samples) == 0 && len(ts.Histograms) == 0 && len(ts.Exemplars) == 0 {
				emptySeries = true
			}
		}
	}
	add := func(b bool, name string) {
		if b {
			classes = append(classes, name)
		}
	}
	add(len(c.Tenants) >= 2, "multi-tenant")
	add(shared, "shared-symbols")
	add(emptyStr, "empty-string-symbol")
	add(nonUTF8, "non-utf8-symbol")
	add(ih, "int-histogram")
	add(fh, "float-histogram")
	add(custom, "custom-values")
	add(mixed, "mixed-count-kinds")
	add(exs > 0, "exemplars")
	add(emptySeries, "all-empty-series")
	add(emptyTenant, "tenant-without-series")
	add(series == 0, "no-series")
	return series >= 2 && shared && (hists > 0 || exs > 0), classes
}

// ---------------------------------------------------------------------------------------------
// regression inputs

func c25MixedCase() c25Case {
	return c25Case{Enc: "client-multi", Tenants: []c25Tenant{{Name: "t", Series: []prompb.TimeSeries{{
		Labels: []labelpb.ZLabel{{Name: "a", Value: "b"}},
		Histograms: []prompb.Histogram{{
			Count:     &prompb.Histogram_CountFloat{CountFloat: 1},
			ZeroCount: &prompb.Histogram_ZeroCountInt{ZeroCountInt: 1},
			Timestamp: 1,
		}},
	}}}}}
}

func c25CustomCase() c25Case {
	return c25Case{Enc: "client-multi", Tenants: []c25Tenant{{Name: "t", Series: []prompb.TimeSeries{{
		Labels: []labelpb.ZLabel{{Name: "a", Value: "b"}},
		Histograms: []prompb.Histogram{{
			Count:          &prompb.Histogram_CountInt{CountInt: 3},
			ZeroCount:      &prompb.Histogram_ZeroCountInt{ZeroCountInt: 0},
			Sum:            4,
			Schema:         -53,
			PositiveSpans:  []prompb.BucketSpan{{Offset: 0, Length: 2}},
			PositiveDeltas: []int64{1, 1},
			CustomValues:   []float64{0.5, 1},
			Timestamp:      1,
		}},
	}}}}}
}

func TestVerifC25(t *testing.T) {
	rec := kit.For(t, "C25")
	known := kit.KnownFindings("C25")

	// saved minimal inputs of the two findings on the unchanged tree
	if msg := c25RoundTrip(c25MixedCase(), false); msg != "" {
		if known[sigC25MixedKinds] {
			rec.Known(sigC25MixedKinds, "histogram with count_float + zero_count_int: "+msg)
		} else {
			rec.Violation(t, "regression (mixed count/zero_count flavours): %s\ncase: %s", msg, c25Render(c25MixedCase()))
		}
	}
	if msg := c25RoundTrip(c25CustomCase(), false); msg != "" {
		if known[sigC25CustomValues] {
			rec.Known(sigC25CustomValues, "histogram schema -53 with custom_values [0.5 1]: "+msg)
		} else {
			rec.Violation(t, "regression (custom values): %s\ncase: %s", msg, c25Render(c25CustomCase()))
		}
	}
	// with the custom values ignored the same input must round-trip (the exclusion is as narrow as the cause)
	if msg := c25RoundTrip(c25CustomCase(), true); msg != "" {
		rec.Violation(t, "regression (custom values ignored): %s", msg)
	}

	allowMixed, allowCustom := !known[sigC25MixedKinds], !known[sigC25CustomValues]
	rec.Check(t, func(rt *rapid.T) {
		g := &c25Gen{allowMixed: allowMixed, allowCustom: allowCustom}
		c := c25GenCase(rt, g)
		if g.exclMixed {
			rec.Excluded(sigC25MixedKinds)
		}
		if g.exclCustom {
			rec.Excluded(sigC25CustomValues)
		}
		if msg := c25RoundTrip(c, false); msg != "" {
			rt.Fatalf("C25 violated: %s\ncase: %s", msg, c25Render(c))
		}
		nt, classes := c25Classify(c)
		rec.Case(c25Render(c), nt, classes...)
	})
}
