package writecapnp

// C25, decode side: every message that satisfies the structural invariants the encoder guarantees
// (symbol offsets non-decreasing and inside the data blob, every label ref inside the symbol table, union
// discriminants in range and of one flavour per histogram, list sizes sane) must decode without error or
// panic to exactly the content an independent reader (c25Walk, written against the generated accessors
// only) sees in the same bytes. Messages that break one of these invariants cannot come from the
// encoder; the property statement says nothing about them and nothing is asserted for them.
//
//   - FuzzVerifC25Decode: native fuzz target (thorough tier), seeded with encoded requests.
//   - TestVerifC25_Decode: the same oracle on rapid-generated requests whose encoded bytes are hit by
//     0..4 drawn byte mutations (quick and thorough tier, reproducible by seed).

import (
	"encoding/hex"
	"fmt"
	"math"
	"testing"

	"capnproto.org/go/capnp/v3"
	"github.com/prometheus/prometheus/model/histogram"
	"pgregory.net/rapid"

	"github.com/thanos-io/thanos/pkg/store/labelpb"
	"github.com/thanos-io/thanos/pkg/store/storepb/prompb"
	"github.com/thanos-io/thanos/verifx/kit"
)

// Size caps of the decode-side oracle. Cap'n Proto charges every pointer dereference against a 64 MiB
// traversal limit (a void list is charged one word per element, so the charge is not bounded by the bytes
// on the wire), and a message with aliased pointers or packed zero runs could legitimately run the decoder
// into that limit. The independent reader therefore dereferences exactly the pointers the decoder
// dereferences, with the same multiplicity (in particular the symbol table once per tenant tuple), under a
// 16 MiB limit: whatever it accepts costs the decoder the same 16 MiB at most. The element / size caps
// only keep single executions short.
const (
	c25MaxList      = 256
	c25MaxSymData   = 1 << 16
	c25WalkReadLim  = 16 << 20
	c25MaxFuzzInput = 1 << 14
)

type c25NotWellFormed struct{ why string }

func c25Bad(format string, a ...any) {
	panic(c25NotWellFormed{fmt.Sprintf(format, a...)})
}

func c25Must(err error, what string) {
	if err != nil {
		c25Bad("%s: %v", what, err)
	}
}

func c25Len(n int, what string) int {
	if n > c25MaxList {
		c25Bad("%s: list of %d elements (cap %d)", what, n, c25MaxList)
	}
	return n
}

func c25WalkSymbols(sym Symbols) []string {
	data, err := sym.Data()
	c25Must(err, "symbols.data")
	if len(data) > c25MaxSymData {
		c25Bad("symbol data of %d bytes (cap %d)", len(data), c25MaxSymData)
	}
	offsets, err := sym.Offsets()
	c25Must(err, "symbols.offsets")
	n := c25Len(offsets.Len(), "symbols.offsets")
	out := make([]string, 0, n)
	start := uint32(0)
	for i := 0; i < n; i++ {
		end := offsets.At(i)
		if end < start || uint64(end) > uint64(len(data)) {
			c25Bad("symbol %d: offsets [%d,%d) outside data of %d bytes", i, start, end, len(data))
		}
		out = append(out, string(data[start:end]))
		start = end
	}
	return out
}

func c25WalkLabels(l Label_List, strs []string, what string) []c25Pair {
	n := c25Len(l.Len(), what)
	var out []c25Pair
	for i := 0; i < n; i++ {
		nm, v := l.At(i).Name(), l.At(i).Value()
		if uint64(nm) >= uint64(len(strs)) || uint64(v) >= uint64(len(strs)) {
			c25Bad("%s[%d]: refs %d/%d outside symbol table of %d", what, i, nm, v, len(strs))
		}
		out = append(out, c25Pair{strs[nm], strs[v]})
	}
	return out
}

func c25WalkSpans(l BucketSpan_List, err error, what string) []histogram.Span {
	c25Must(err, what)
	n := c25Len(l.Len(), what)
	out := make([]histogram.Span, n)
	for i := 0; i < n; i++ {
		out[i] = histogram.Span{Offset: l.At(i).Offset(), Length: l.At(i).Length()}
	}
	return out
}

func c25WalkHist(src Histogram, mixedIsMalformed bool) HistogramSample {
	cw, zw := src.Count().Which(), src.ZeroCount().Which()
	if cw > 1 || zw > 1 {
		c25Bad("histogram union discriminants %d/%d out of range", cw, zw)
	}
	if uint16(cw) != uint16(zw) && mixedIsMalformed {
		c25Bad("histogram count/zeroCount flavours differ (known finding, excluded)")
	}
	ps, err := src.PositiveSpans()
	pspans := c25WalkSpans(ps, err, "positiveSpans")
	ns, err := src.NegativeSpans()
	nspans := c25WalkSpans(ns, err, "negativeSpans")
	out := HistogramSample{Timestamp: src.Timestamp()}
	if cw == Histogram_count_Which_countInt {
		h := &histogram.Histogram{
			CounterResetHint: histogram.CounterResetHint(src.ResetHint()),
			Count:            src.Count().CountInt(),
			Sum:              src.Sum(),
			Schema:           src.Schema(),
			ZeroThreshold:    src.ZeroThreshold(),
			PositiveSpans:    pspans,
			NegativeSpans:    nspans,
		}
		if zw == Histogram_zeroCount_Which_zeroCountInt {
			h.ZeroCount = src.ZeroCount().ZeroCountInt()
		}
		pd, err := src.PositiveDeltas()
		c25Must(err, "positiveDeltas")
		for i, n := 0, c25Len(pd.Len(), "positiveDeltas"); i < n; i++ {
			h.PositiveBuckets = append(h.PositiveBuckets, pd.At(i))
		}
		nd, err := src.NegativeDeltas()
		c25Must(err, "negativeDeltas")
		for i, n := 0, c25Len(nd.Len(), "negativeDeltas"); i < n; i++ {
			h.NegativeBuckets = append(h.NegativeBuckets, nd.At(i))
		}
		out.Histogram = h
		return out
	}
	fh := &histogram.FloatHistogram{
		CounterResetHint: histogram.CounterResetHint(src.ResetHint()),
		Count:            src.Count().CountFloat(),
		Sum:              src.Sum(),
		Schema:           src.Schema(),
		ZeroThreshold:    src.ZeroThreshold(),
		PositiveSpans:    pspans,
		NegativeSpans:    nspans,
	}
	if zw == Histogram_zeroCount_Which_zeroCountFloat {
		fh.ZeroCount = src.ZeroCount().ZeroCountFloat()
	}
	pc, err := src.PositiveCounts()
	c25Must(err, "positiveCounts")
	for i, n := 0, c25Len(pc.Len(), "positiveCounts"); i < n; i++ {
		fh.PositiveBuckets = append(fh.PositiveBuckets, pc.At(i))
	}
	nc, err := src.NegativeCounts()
	c25Must(err, "negativeCounts")
	for i, n := 0, c25Len(nc.Len(), "negativeCounts"); i < n; i++ {
		fh.NegativeBuckets = append(fh.NegativeBuckets, nc.At(i))
	}
	out.FloatHistogram = fh
	return out
}

func c25WalkSeries(list TimeSeries_List, strs []string, mixedIsMalformed bool) []c25Dec {
	n := c25Len(list.Len(), "timeSeries")
	out := make([]c25Dec, 0, n)
	for i := 0; i < n; i++ {
		ts := list.At(i)
		var d c25Dec
		lbls, err := ts.Labels()
		c25Must(err, "labels")
		d.Labels = c25WalkLabels(lbls, strs, "labels")
		samples, err := ts.Samples()
		c25Must(err, "samples")
		for j, m := 0, c25Len(samples.Len(), "samples"); j < m; j++ {
			d.Samples = append(d.Samples, FloatSample{Value: samples.At(j).Value(), Timestamp: samples.At(j).Timestamp()})
		}
		hs, err := ts.Histograms()
		c25Must(err, "histograms")
		for j, m := 0, c25Len(hs.Len(), "histograms"); j < m; j++ {
			d.Histograms = append(d.Histograms, c25WalkHist(hs.At(j), mixedIsMalformed))
		}
		exs, err := ts.Exemplars()
		c25Must(err, "exemplars")
		for j, m := 0, c25Len(exs.Len(), "exemplars"); j < m; j++ {
			el, err := exs.At(j).Labels()
			c25Must(err, "exemplar labels")
			d.Exemplars = append(d.Exemplars, c25DecEx{Labels: c25WalkLabels(el, strs, "exemplar labels"), Value: exs.At(j).Value(), Ts: exs.At(j).Timestamp()})
		}
		out = append(out, d)
	}
	return out
}

// c25Walk reads the message independently of Request / At / readHistogram / readExemplar. It returns
// (nil, why) when the message breaks an invariant the encoder guarantees.
func c25Walk(b []byte, packed, mixedIsMalformed bool) (out []c25DecTenant, why string) {
	defer func() {
		if r := recover(); r != nil {
			if nwf, ok := r.(c25NotWellFormed); ok {
				out, why = nil, nwf.why
				return
			}
			// a panic inside the capnp library / generated accessors on hostile bytes: not a message the
			// encoder can have produced.
			out, why = nil, fmt.Sprintf("walker panic: %v", r)
		}
	}()
	var (
		msg *capnp.Message
		err error
	)
	if packed {
		msg, err = capnp.UnmarshalPacked(b)
	} else {
		msg, err = capnp.Unmarshal(b)
	}
	c25Must(err, "unmarshal")
	msg.ResetReadLimit(c25WalkReadLim)
	wr, err := ReadRootWriteRequest(msg)
	c25Must(err, "root")
	out = []c25DecTenant{}
	if wr.HasTimeSeries() {
		tenant, err := wr.Tenant()
		c25Must(err, "tenant")
		sym, err := wr.Symbols()
		c25Must(err, "symbols")
		strs := c25WalkSymbols(sym)
		list, err := wr.TimeSeries()
		c25Must(err, "timeSeries")
		return append(out, c25DecTenant{Name: tenant, Series: c25WalkSeries(list, strs, mixedIsMalformed)}), ""
	}
	data, err := wr.Data()
	c25Must(err, "data")
	sym, err := wr.Symbols()
	c25Must(err, "symbols")
	var strs []string
	for i, n := 0, c25Len(data.Len(), "data"); i < n; i++ {
		// once per tuple, exactly like NewRequest: the traversal budget is charged per dereference
		strs = c25WalkSymbols(sym)
		tenant, err := data.At(i).Tenant()
		c25Must(err, "tuple tenant")
		list, err := data.At(i).TimeSeries()
		c25Must(err, "tuple timeSeries")
		out = append(out, c25DecTenant{Name: tenant, Series: c25WalkSeries(list, strs, mixedIsMalformed)})
	}
	return out, ""
}

func c25SamePairList(a, b []c25Pair) bool {
	if len(a) != len(b) {
		return false
	}
	for i := range a {
		if a[i] != b[i] {
			return false
		}
	}
	return true
}

func c25SameHistSample(a, b HistogramSample) bool {
	if a.Timestamp != b.Timestamp || (a.Histogram == nil) != (b.Histogram == nil) || (a.FloatHistogram == nil) != (b.FloatHistogram == nil) {
		return false
	}
	if a.Histogram != nil {
		x, y := a.Histogram, b.Histogram
		return x.CounterResetHint == y.CounterResetHint && x.Schema == y.Schema && c25SameBits(x.ZeroThreshold, y.ZeroThreshold) &&
			x.ZeroCount == y.ZeroCount && x.Count == y.Count && c25SameBits(x.Sum, y.Sum) &&
			c25SameSpans(x.PositiveSpans, y.PositiveSpans) && c25SameSpans(x.NegativeSpans, y.NegativeSpans) &&
			c25SameInts(x.PositiveBuckets, y.PositiveBuckets) && c25SameInts(x.NegativeBuckets, y.NegativeBuckets) &&
			c25SameFloats(x.CustomValues, y.CustomValues)
	}
	if a.FloatHistogram != nil {
		x, y := a.FloatHistogram, b.FloatHistogram
		return x.CounterResetHint == y.CounterResetHint && x.Schema == y.Schema && c25SameBits(x.ZeroThreshold, y.ZeroThreshold) &&
			c25SameBits(x.ZeroCount, y.ZeroCount) && c25SameBits(x.Count, y.Count) && c25SameBits(x.Sum, y.Sum) &&
			c25SameSpans(x.PositiveSpans, y.PositiveSpans) && c25SameSpans(x.NegativeSpans, y.NegativeSpans) &&
			c25SameFloats(x.PositiveBuckets, y.PositiveBuckets) && c25SameFloats(x.NegativeBuckets, y.NegativeBuckets) &&
			c25SameFloats(x.CustomValues, y.CustomValues)
	}
	return true
}

// c25DiffDec returns "" when the two decoded views are identical.
func c25DiffDec(got, want []c25DecTenant) string {
	if len(got) != len(want) {
		return fmt.Sprintf("%d tenants != %d", len(got), len(want))
	}
	for i := range want {
		if got[i].Name != want[i].Name {
			return fmt.Sprintf("tenant[%d] %q != %q", i, got[i].Name, want[i].Name)
		}
		if len(got[i].Series) != len(want[i].Series) {
			return fmt.Sprintf("tenant[%d]: %d series != %d", i, len(got[i].Series), len(want[i].Series))
		}
		for j := range want[i].Series {
			g, w := got[i].Series[j], want[i].Series[j]
			at := fmt.Sprintf("tenant[%d] series[%d]", i, j)
			if !c25SamePairList(g.Labels, w.Labels) {
				return fmt.Sprintf("%s: labels %q != %q", at, g.Labels, w.Labels)
			}
			if len(g.Samples) != len(w.Samples) {
				return fmt.Sprintf("%s: %d samples != %d", at, len(g.Samples), len(w.Samples))
			}
			for k := range w.Samples {
				if g.Samples[k].Timestamp != w.Samples[k].Timestamp || !c25SameBits(g.Samples[k].Value, w.Samples[k].Value) {
					return fmt.Sprintf("%s: sample %d differs", at, k)
				}
			}
			if len(g.Histograms) != len(w.Histograms) {
				return fmt.Sprintf("%s: %d histograms != %d", at, len(g.Histograms), len(w.Histograms))
			}
			for k := range w.Histograms {
				if !c25SameHistSample(g.Histograms[k], w.Histograms[k]) {
					return fmt.Sprintf("%s: histogram %d: %+v / %+v != %+v / %+v", at, k, g.Histograms[k].Histogram, g.Histograms[k].FloatHistogram,
						w.Histograms[k].Histogram, w.Histograms[k].FloatHistogram)
				}
			}
			if len(g.Exemplars) != len(w.Exemplars) {
				return fmt.Sprintf("%s: %d exemplars != %d", at, len(g.Exemplars), len(w.Exemplars))
			}
			for k := range w.Exemplars {
				if !c25SamePairList(g.Exemplars[k].Labels, w.Exemplars[k].Labels) || !c25SameBits(g.Exemplars[k].Value, w.Exemplars[k].Value) || g.Exemplars[k].Ts != w.Exemplars[k].Ts {
					return fmt.Sprintf("%s: exemplar %d differs", at, k)
				}
			}
		}
	}
	return ""
}

// c25CheckBytes is the decode-side oracle. wellFormed reports whether anything was asserted.
func c25CheckBytes(b []byte, packed, mixedIsMalformed bool) (msg string, wellFormed bool, want []c25DecTenant) {
	want, why := c25Walk(b, packed, mixedIsMalformed)
	if why != "" {
		return "", false, nil
	}
	got, err := c25Decode(b, packed)
	if err != nil {
		return "well-formed message failed to decode: " + err.Error(), true, want
	}
	if d := c25DiffDec(got, want); d != "" {
		return "decoder disagrees with the independent reader: " + d, true, want
	}
	return "", true, want
}

func c25SeedCases() []c25Case {
	nan := math.Float64frombits(0x7ff8000000000001)
	rich := []prompb.TimeSeries{
		{
			Labels:  []labelpb.ZLabel{{Name: "__name__", Value: "up"}, {Name: "job", Value: ""}, {Name: "é", Value: "a\xffb"}},
			Samples: []prompb.Sample{{Timestamp: 1, Value: 1}, {Timestamp: math.MaxInt64, Value: nan}},
			Histograms: []prompb.Histogram{
				{Count: &prompb.Histogram_CountInt{CountInt: 12}, ZeroCount: &prompb.Histogram_ZeroCountInt{ZeroCountInt: 2}, Sum: 18.4, Schema: 1, ZeroThreshold: 0.001,
					PositiveSpans: []prompb.BucketSpan{{Offset: 0, Length: 2}, {Offset: 1, Length: 2}}, PositiveDeltas: []int64{1, 1, -1, 0},
					NegativeSpans: []prompb.BucketSpan{{Offset: -3, Length: 1}}, NegativeDeltas: []int64{7}, ResetHint: prompb.Histogram_GAUGE, Timestamp: 5},
				{Count: &prompb.Histogram_CountFloat{CountFloat: 2.5}, ZeroCount: &prompb.Histogram_ZeroCountFloat{ZeroCountFloat: 0.5}, Sum: -1, Schema: -4,
					PositiveSpans: []prompb.BucketSpan{{Offset: 2, Length: 1}}, PositiveCounts: []float64{2}, NegativeCounts: []float64{}, ResetHint: prompb.Histogram_NO, Timestamp: 6},
			},
			Exemplars: []prompb.Exemplar{{Labels: []labelpb.ZLabel{{Name: "traceID", Value: "up"}}, Value: 10, Timestamp: 14}, {}},
		},
		{Labels: []labelpb.ZLabel{{Name: "__name__", Value: "up"}, {Name: "job", Value: "thanos"}}, Samples: []prompb.Sample{{Timestamp: 3, Value: 3}}},
		{},
	}
	var out []c25Case
	for _, enc := range []string{"client-multi", "client-single", "marshal"} {
		for _, packed := range []bool{false, true} {
			c := c25Case{Enc: enc, Packed: packed, MultiAr: packed, Tenants: []c25Tenant{{Name: "tenant-a", Series: rich}}}
			if enc == "client-multi" {
				c.Tenants = append(c.Tenants, c25Tenant{Name: "", Series: nil}, c25Tenant{Name: "b", Series: rich[1:2]})
			}
			out = append(out, c)
		}
	}
	out = append(out, c25Case{Enc: "client-multi", Tenants: []c25Tenant{{Name: "empty"}}})
	return out
}

// c25TraversalRegression: found by the fuzz target against an earlier version of this oracle (a mistake of
// the oracle, not of the decoder): 102 zero-sized tenant tuples and a symbol blob encoded as a void list of
// 394758 elements; every NewRequest re-reads the blob, 102 x 3 MB exceeds the traversal limit. The
// independent reader must classify it as "not asserted" (it hits its own, smaller limit).
func c25TraversalRegression() []byte {
	b, _ := hex.DecodeString("000000000d00000000000000000004000c000000000002000000000000000000303030303030303021000000300300001d000000303030001900000030000000" +
		"303030303030303030303030303030303030303030303030303030303030303030303030303030303030303030303030")
	return b
}

func FuzzVerifC25Decode(f *testing.F) {
	mixedIsMalformed := kit.KnownFindings("C25")[sigC25MixedKinds]
	for _, c := range c25SeedCases() {
		b, err := c25Encode(c)
		if err != nil {
			f.Fatalf("seed encode: %v", err)
		}
		f.Add(b, c.Packed)
	}
	f.Add([]byte{}, false)
	f.Add(c25TraversalRegression(), false)
	f.Add([]byte{0, 0, 0, 0, 0, 0, 0, 0}, false)
	f.Fuzz(func(t *testing.T, b []byte, packed bool) {
		if len(b) > c25MaxFuzzInput {
			t.Skip()
		}
		if msg, _, _ := c25CheckBytes(b, packed, mixedIsMalformed); msg != "" {
			t.Fatalf("C25 (decode side) violated: %s\npacked=%v bytes=%x", msg, packed, b)
		}
	})
}

func TestVerifC25_Decode(t *testing.T) {
	rec := kit.For(t, "C25")
	known := kit.KnownFindings("C25")
	mixedIsMalformed := known[sigC25MixedKinds]
	// the fuzz seeds, unmutated: all must be well-formed and agree
	for i, c := range c25SeedCases() {
		b, err := c25Encode(c)
		if err != nil {
			rec.Violation(t, "seed %d: encode: %v", i, err)
		}
		msg, wf, _ := c25CheckBytes(b, c.Packed, mixedIsMalformed)
		if msg != "" || !wf {
			rec.Violation(t, "seed %d: wellFormed=%v %s\ncase: %s", i, wf, msg, c25Render(c))
		}
	}
	if msg, wf, _ := c25CheckBytes(c25TraversalRegression(), false, mixedIsMalformed); msg != "" || wf {
		rec.Violation(t, "traversal-limit regression input: wellFormed=%v %s", wf, msg)
	}
	rec.Check(t, func(rt *rapid.T) {
		g := &c25Gen{allowMixed: !known[sigC25MixedKinds], allowCustom: true}
		c := c25GenCase(rt, g)
		if g.exclMixed {
			rec.Excluded(sigC25MixedKinds)
		}
		b, err := c25Encode(c)
		if err != nil {
			rt.Fatalf("encode failed: %v\ncase: %s", err, c25Render(c))
		}
		orig, why := c25Walk(b, c.Packed, mixedIsMalformed)
		if why != "" {
			rt.Fatalf("C25 violated: the encoder produced a message that breaks its own invariants: %s\ncase: %s", why, c25Render(c))
		}
		nmut := rapid.IntRange(0, 4).Draw(rt, "mutations")
		mut := append([]byte(nil), b...)
		var muts []string
		for i := 0; i < nmut && len(mut) > 0; i++ {
			pos := rapid.IntRange(0, len(mut)-1).Draw(rt, "pos")
			var v byte
			switch rapid.IntRange(0, 2).Draw(rt, "mk") {
			case 0:
				v = mut[pos] ^ (1 << uint(rapid.IntRange(0, 7).Draw(rt, "bit")))
			case 1:
				v = byte(rapid.IntRange(0, 3).Draw(rt, "small"))
			default:
				v = rapid.Byte().Draw(rt, "byte")
			}
			mut[pos] = v
			muts = append(muts, fmt.Sprintf("%d=%#x", pos, v))
		}
		msg, wf, want := c25CheckBytes(mut, c.Packed, mixedIsMalformed)
		if msg != "" {
			rt.Fatalf("C25 (decode side) violated: %s\nmutations %v of the encoding of: %s\npacked=%v bytes=%x", msg, muts, c25Render(c), c.Packed, mut)
		}
		classes := []string{fmt.Sprintf("mutations-%d", nmut)}
		changed := false
		if wf {
			classes = append(classes, "well-formed")
			changed = c25DiffDec(want, orig) != ""
			if changed {
				classes = append(classes, "well-formed-and-content-changed")
			}
		} else {
			classes = append(classes, "malformed-not-asserted")
		}
		// non-trivial: a mutated message that is still well-formed but carries different content, i.e. a
		// message this encoder run did not produce, decoded and cross-checked.
		rec.Case(fmt.Sprintf("%v %s", muts, c25Render(c)), wf && changed, classes...)
	})
}
