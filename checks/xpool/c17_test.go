package xpool

// C17 part B: a size-bounded byte pool never has more bytes checked out than its configured maximum
// and its usage returns to zero once every buffer is returned.
// Domain: pool.NewBucketedPool[byte](minSize, maxSize, factor, maxTotal) with constructor arguments
// whose bucket ladder makes progress, and histories of Get(sz) / Put(outstanding buffer) / Put(nil)
// with sizes around the bucket boundaries and beyond the largest bucket, budgets 0 (unlimited) and
// small. Model: the multiset of outstanding buffers. After every step: UsedBytes() <= maxTotal and
// sum(cap(outstanding)) <= maxTotal when maxTotal > 0; Get fails only with ErrPoolExhausted; a
// returned buffer fits the request and shares no memory with another outstanding buffer; after all
// buffers are returned UsedBytes() == 0.

import (
	"errors"
	"fmt"
	"os"
	"strings"
	"testing"

	"pgregory.net/rapid"

	"github.com/thanos-io/thanos/pkg/pool"
	"github.com/thanos-io/thanos/verifx/kit"
)

// sigC17Budget: Get compares usedTotal+requested with the budget but charges the (larger) bucket size.
const sigC17Budget = "C17/budget-checked-against-requested-size"

type poolCfg struct {
	minSize, maxSize int
	factor           float64
	maxTotal         uint64
}

func (c poolCfg) String() string {
	return fmt.Sprintf("NewBucketedPool(%d,%d,%v,%d)", c.minSize, c.maxSize, c.factor, c.maxTotal)
}

// ladder mirrors the documented bucket ladder (sizes from minSize to maxSize growing by factor); it
// is used only to aim the generator at bucket boundaries and to classify, never as the oracle.
func (c poolCfg) ladder() []int {
	var out []int
	for s := c.minSize; s <= c.maxSize; s = int(float64(s) * c.factor) {
		out = append(out, s)
	}
	return out
}

type poolOp struct {
	kind string // "get", "put", "putnil"
	sz   int    // get: requested size
	idx  int    // put: index into the outstanding list at that moment
	fill int    // get: how many bytes the user appends (<= cap)
}

type outBuf struct {
	b   *[]byte
	id  byte
	req int
}

type poolResult struct {
	msg        string
	overBudget bool // the violation is "more bytes checked out than maxTotal"
	nontrivial bool
	classes    []string
}

func base(b []byte) *byte { return &b[:cap(b)][cap(b)-1] }

// runPool replays a history against a fresh pool and evaluates the invariants after every step.
func runPool(cfg poolCfg, ops []poolOp) poolResult {
	var r poolResult
	p, err := pool.NewBucketedPool[byte](cfg.minSize, cfg.maxSize, cfg.factor, cfg.maxTotal)
	if err != nil {
		r.msg = "constructor failed: " + err.Error()
		return r
	}
	var out []outBuf
	nextID := byte(1)
	rounded, beyond, exhausted, reused := 0, 0, 0, 0
	everSeen := map[*byte]bool{}
	invariant := func(step int, what string) bool {
		sum := uint64(0)
		for _, o := range out {
			sum += uint64(cap(*o.b))
		}
		if cfg.maxTotal > 0 {
			if u := p.UsedBytes(); u > cfg.maxTotal {
				r.msg = fmt.Sprintf("step %d (%s): UsedBytes()=%d exceeds maxTotal=%d", step, what, u, cfg.maxTotal)
				r.overBudget = true
				return false
			}
			if sum > cfg.maxTotal {
				r.msg = fmt.Sprintf("step %d (%s): %d bytes are checked out (sum of capacities of outstanding buffers) but maxTotal=%d (UsedBytes()=%d)", step, what, sum, cfg.maxTotal, p.UsedBytes())
				r.overBudget = true
				return false
			}
		}
		return true
	}
	for i, op := range ops {
		switch op.kind {
		case "get":
			b, err := p.Get(op.sz)
			if err != nil {
				if !errors.Is(err, pool.ErrPoolExhausted) {
					r.msg = fmt.Sprintf("step %d: Get(%d) failed with %v, not ErrPoolExhausted", i, op.sz, err)
					return r
				}
				if cfg.maxTotal == 0 {
					r.msg = fmt.Sprintf("step %d: Get(%d) reported ErrPoolExhausted on an unlimited pool", i, op.sz)
					return r
				}
				if b != nil {
					r.msg = fmt.Sprintf("step %d: Get(%d) returned both a buffer and an error", i, op.sz)
					return r
				}
				exhausted++
				break
			}
			if b == nil {
				r.msg = fmt.Sprintf("step %d: Get(%d) returned nil without an error", i, op.sz)
				return r
			}
			if cap(*b) < op.sz {
				r.msg = fmt.Sprintf("step %d: Get(%d) returned a buffer of capacity %d", i, op.sz, cap(*b))
				return r
			}
			for _, o := range out {
				if o.b == b || (cap(*b) > 0 && cap(*o.b) > 0 && base(*o.b) == base(*b)) {
					r.msg = fmt.Sprintf("step %d: Get(%d) handed out a buffer that is still outstanding (request %d)", i, op.sz, o.req)
					return r
				}
			}
			if cap(*b) > 0 {
				if everSeen[base(*b)] {
					reused++
				}
				everSeen[base(*b)] = true
			}
			if cap(*b) > op.sz {
				rounded++
			}
			if ld := cfg.ladder(); len(ld) == 0 || op.sz > ld[len(ld)-1] {
				beyond++
			}
			// use the buffer like a caller does: append up to its capacity, never beyond
			n := op.fill
			if n > cap(*b) {
				n = cap(*b)
			}
			*b = (*b)[:0]
			for k := 0; k < n; k++ {
				*b = append(*b, nextID)
			}
			out = append(out, outBuf{b: b, id: nextID, req: op.sz})
			nextID++
			if nextID == 0 {
				nextID = 1
			}
		case "put":
			if len(out) == 0 {
				break
			}
			k := op.idx % len(out)
			o := out[k]
			for _, x := range *o.b {
				if x != o.id {
					r.msg = fmt.Sprintf("step %d: outstanding buffer of request %d was overwritten while checked out", i, o.req)
					return r
				}
			}
			p.Put(o.b)
			out = append(out[:k], out[k+1:]...)
		case "putnil":
			p.Put(nil)
		}
		if !invariant(i, fmt.Sprintf("%s %d", op.kind, op.sz)) {
			return r
		}
	}
	// return everything: usage must go back to zero
	for len(out) > 0 {
		o := out[len(out)-1]
		out = out[:len(out)-1]
		p.Put(o.b)
		if !invariant(len(ops), "final put") {
			return r
		}
	}
	if u := p.UsedBytes(); u != 0 {
		r.msg = fmt.Sprintf("after returning every buffer UsedBytes()=%d, want 0", u)
		return r
	}
	r.nontrivial = rounded > 0
	if rounded > 0 {
		r.classes = append(r.classes, "get-rounded-up-to-bucket")
	}
	if beyond > 0 {
		r.classes = append(r.classes, "get-beyond-largest-bucket")
	}
	if exhausted > 0 {
		r.classes = append(r.classes, "pool-exhausted")
	}
	if reused > 0 {
		r.classes = append(r.classes, "buffer-recycled")
	}
	if cfg.maxTotal == 0 {
		r.classes = append(r.classes, "unlimited")
	} else {
		r.classes = append(r.classes, "budgeted")
		if rounded > 0 {
			r.classes = append(r.classes, "budgeted-and-rounded")
		}
	}
	return r
}

func renderOps(cfg poolCfg, ops []poolOp) string {
	var sb strings.Builder
	sb.WriteString(cfg.String())
	for _, op := range ops {
		switch op.kind {
		case "get":
			fmt.Fprintf(&sb, " G%d", op.sz)
		case "put":
			fmt.Fprintf(&sb, " P#%d", op.idx)
		default:
			sb.WriteString(" Pnil")
		}
	}
	return sb.String()
}

func genCfg(rt *rapid.T) poolCfg {
	var c poolCfg
	c.factor = rapid.SampledFrom([]float64{2, 2, 1.5, 3, 1.25, 10}).Draw(rt, "factor")
	lo := 1
	switch c.factor {
	case 1.5:
		lo = 2 // int(s*factor) must exceed s or the constructor's size loop never ends (outside this property)
	case 1.25:
		lo = 4
	}
	c.minSize = rapid.IntRange(lo, 16).Draw(rt, "minSize")
	c.maxSize = rapid.IntRange(1, 200).Draw(rt, "maxSize") // may be below minSize: no buckets at all
	ld := c.ladder()
	switch rapid.IntRange(0, 3).Draw(rt, "budgetKind") {
	case 0:
		c.maxTotal = 0
	case 1:
		if len(ld) > 0 {
			c.maxTotal = uint64(rapid.SampledFrom(ld).Draw(rt, "budgetBucket") + rapid.IntRange(-1, 1).Draw(rt, "budgetOff"))
		} else {
			c.maxTotal = uint64(rapid.IntRange(1, 50).Draw(rt, "budget"))
		}
	default:
		c.maxTotal = uint64(rapid.IntRange(1, 3*c.maxSize+10).Draw(rt, "budget"))
	}
	return c
}

// genSize draws a request size near the bucket boundaries or beyond the largest bucket. With
// exactOnly (known finding, budgeted pool) only sizes for which the charged size equals the
// requested size are produced; the second result says whether a drawn size had to be replaced.
func genSize(rt *rapid.T, cfg poolCfg, exactOnly bool) (int, bool) {
	ld := cfg.ladder()
	top := 0
	if len(ld) > 0 {
		top = ld[len(ld)-1]
	}
	var sz int
	switch rapid.IntRange(0, 5).Draw(rt, "szKind") {
	case 0, 1, 2:
		if len(ld) > 0 {
			sz = rapid.SampledFrom(ld).Draw(rt, "szBucket") + rapid.IntRange(-1, 1).Draw(rt, "szOff")
		} else {
			sz = rapid.IntRange(1, 40).Draw(rt, "sz")
		}
	case 3:
		sz = rapid.IntRange(0, top+1).Draw(rt, "szAny")
	case 4:
		sz = top + rapid.IntRange(1, 50).Draw(rt, "szBeyond")
	default:
		sz = rapid.IntRange(1, 8).Draw(rt, "szSmall")
	}
	if sz < 0 {
		sz = 0
	}
	if !exactOnly {
		return sz, false
	}
	for _, s := range ld {
		if sz == s {
			return sz, false
		}
		if sz < s {
			return s, true // replaced by the bucket size: the rounded request is the excluded class
		}
	}
	return sz, false // beyond the largest bucket: charged exactly
}

func TestVerifC17_BucketedPool(t *testing.T) {
	rec := kit.For(t, "C17")
	known := kit.KnownFindings("C17")[sigC17Budget]

	skipFixed := os.Getenv("VERIF_SKIP_FIXED") != "" // sensitivity experiments: let only the generator find mutants
	// saved regression input of finding F6: 11 bytes requested, 20 charged, budget 15.
	if !skipFixed {
		cfg := poolCfg{10, 100, 2, 15}
		ops := []poolOp{{kind: "get", sz: 11, fill: 11}}
		res := runPool(cfg, ops)
		if res.msg != "" {
			if known && res.overBudget {
				rec.Known(sigC17Budget, "BucketedPool exceeds its budget: "+res.msg+" | "+renderOps(cfg, ops))
			} else {
				rec.Violation(t, "regression F6: %s | %s", res.msg, renderOps(cfg, ops))
			}
		}
	}
	// fixed histories outside the known class
	for _, h := range []struct {
		cfg poolCfg
		ops []poolOp
	}{
		{poolCfg{10, 100, 2, 40}, []poolOp{{kind: "get", sz: 20, fill: 20}, {kind: "get", sz: 20, fill: 3}, {kind: "get", sz: 10}, {kind: "put", idx: 0}, {kind: "get", sz: 20, fill: 20}}},
		{poolCfg{10, 100, 2, 0}, []poolOp{{kind: "get", sz: 11, fill: 11}, {kind: "get", sz: 500, fill: 500}, {kind: "put", idx: 1}, {kind: "put", idx: 0}, {kind: "get", sz: 15, fill: 1}}},
		{poolCfg{4, 2, 2, 10}, []poolOp{{kind: "get", sz: 7, fill: 7}, {kind: "get", sz: 3, fill: 3}, {kind: "get", sz: 1}, {kind: "putnil"}}},
	} {
		if skipFixed {
			break
		}
		if res := runPool(h.cfg, h.ops); res.msg != "" {
			rec.Violation(t, "fixed history: %s | %s", res.msg, renderOps(h.cfg, h.ops))
		}
	}

	rec.Check(t, func(rt *rapid.T) {
		cfg := genCfg(rt)
		n := rapid.IntRange(1, 40).Draw(rt, "ops")
		exactOnly := known && cfg.maxTotal > 0
		var ops []poolOp
		excluded := 0
		for i := 0; i < n; i++ {
			switch rapid.IntRange(0, 9).Draw(rt, "op") {
			case 0, 1, 2, 3, 4, 5:
				sz, replaced := genSize(rt, cfg, exactOnly)
				if replaced {
					excluded++
				}
				ops = append(ops, poolOp{kind: "get", sz: sz, fill: rapid.IntRange(0, sz+2).Draw(rt, "fill")})
			case 6, 7, 8:
				ops = append(ops, poolOp{kind: "put", idx: rapid.IntRange(0, 63).Draw(rt, "idx")})
			default:
				ops = append(ops, poolOp{kind: "putnil"})
			}
		}
		res := runPool(cfg, ops)
		if res.msg != "" {
			rt.Fatalf("C17 (pool budget) violated: %s\nhistory: %s", res.msg, renderOps(cfg, ops))
		}
		for i := 0; i < excluded; i++ {
			rec.Excluded(sigC17Budget)
		}
		rec.Case(renderOps(cfg, ops), res.nontrivial, res.classes...)
	})
}
