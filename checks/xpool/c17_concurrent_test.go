package xpool

// C17, budget under concurrent Get: "a size-bounded byte pool never has more bytes checked out than
// its configured maximum" also when many requests take buffers at the same time (the chunk pool is
// shared by all Series requests of a store gateway).
// Oracle: G goroutines call Get on a cold pool at once; at the quiescent point afterwards the summed
// capacity of the buffers handed out, and UsedBytes(), are at most the budget; failures are only
// ErrPoolExhausted; after every buffer is returned UsedBytes() is 0. No timing enters the verdict.

import (
	"fmt"
	"sync"
	"testing"

	"pgregory.net/rapid"

	"github.com/thanos-io/thanos/pkg/pool"
	"github.com/thanos-io/thanos/verifx/kit"
)

func TestVerifC17_ConcurrentBudget(t *testing.T) {
	rec := kit.For(t, "C17")
	n := kit.Scale("c17conc", 150, 1500)
	type cs struct{ bucket, fit, workers, rounds int }
	gen := rapid.Custom(func(rt *rapid.T) cs {
		return cs{
			bucket:  rapid.SampledFrom([]int{64, 4096, 1 << 16, 1 << 20}).Draw(rt, "bucket"),
			fit:     rapid.SampledFrom([]int{1, 1, 2, 3, 7}).Draw(rt, "fit"),
			workers: rapid.SampledFrom([]int{2, 4, 8, 16}).Draw(rt, "workers"),
			rounds:  rapid.SampledFrom([]int{1, 2, 3}).Draw(rt, "rounds"),
		}
	})
	for i := 0; i < n; i++ {
		c := gen.Example(int(kit.Seed())*977 + i)
		budget := uint64(c.bucket * c.fit)
		p, err := pool.NewBucketedPool[byte](c.bucket, c.bucket, 2, budget)
		if err != nil {
			t.Fatalf("harness: %v", err)
		}
		desc := fmt.Sprintf("bucket=%d budget=%d (%d buffers) workers=%d rounds=%d", c.bucket, budget, c.fit, c.workers, c.rounds)
		for r := 0; r < c.rounds; r++ {
			var (
				mu    sync.Mutex
				held  []*[]byte
				other []error
				wg    sync.WaitGroup
			)
			start := make(chan struct{})
			for w := 0; w < c.workers; w++ {
				wg.Add(1)
				go func() {
					defer wg.Done()
					<-start
					b, err := p.Get(c.bucket)
					mu.Lock()
					defer mu.Unlock()
					if err != nil {
						if err != pool.ErrPoolExhausted {
							other = append(other, err)
						}
						return
					}
					held = append(held, b)
				}()
			}
			close(start)
			wg.Wait()
			if len(other) > 0 {
				rec.Violation(t, "Get failed with an error other than ErrPoolExhausted: %v | %s", other[0], desc)
			}
			out := uint64(0)
			for _, b := range held {
				out += uint64(cap(*b))
			}
			if out > budget {
				rec.Violation(t, "%d buffers (%d bytes) are checked out at the same time with a budget of %d bytes | %s round %d", len(held), out, budget, desc, r)
			}
			if u := p.UsedBytes(); u > budget {
				rec.Violation(t, "UsedBytes()=%d exceeds the budget %d | %s round %d", u, budget, desc, r)
			}
			for _, b := range held {
				p.Put(b)
			}
			if u := p.UsedBytes(); u != 0 {
				rec.Violation(t, "UsedBytes()=%d after every buffer was returned | %s round %d", u, desc, r)
			}
		}
		rec.Case("concurrent-budget "+desc, c.workers > c.fit, "concurrent-get", fmt.Sprintf("concurrent-workers-%d", c.workers))
	}
}
