package xsharding

import (
	"fmt"
	"sort"
	"strings"

	"github.com/prometheus/prometheus/model/labels"
	"github.com/prometheus/prometheus/tsdb/chunks"
	"pgregory.net/rapid"
)

// ---- universe generator ----------------------------------------------------------------------

const (
	stepMs   = 30_000
	nSamples = 21 // t = 0 .. 600 s
)

func genUniverse(rt *rapid.T) universe {
	seen := map[string]bool{}
	var u universe
	add := func(lset labels.Labels, vals func(i int) (float64, bool)) {
		if seen[lset.String()] {
			return
		}
		seen[lset.String()] = true
		s := uSeries{lset: lset}
		for i := 0; i < nSamples; i++ {
			if v, ok := vals(i); ok {
				s.samples = append(s.samples, smpl{t: int64(i) * stepMs, v: v})
			}
		}
		if len(s.samples) > 0 {
			u = append(u, s)
		}
	}
	nVals := rapid.IntRange(2, 3).Draw(rt, "labelValues")
	val := func(label string) string { return fmt.Sprint(rapid.IntRange(0, nVals-1).Draw(rt, label)) }

	nM1 := rapid.IntRange(2, 8).Draw(rt, "m1Series")
	var m1 []labels.Labels
	for k := 0; k < nM1; k++ {
		b := labels.NewBuilder(labels.EmptyLabels())
		if rapid.IntRange(0, 9).Draw(rt, "hasA") > 0 {
			b.Set("a", val("a"))
		}
		if rapid.IntRange(0, 7).Draw(rt, "hasB") > 0 {
			b.Set("b", val("b"))
		}
		if rapid.IntRange(0, 3).Draw(rt, "hasC") > 0 {
			b.Set("c", val("c"))
		}
		ls := b.Labels()
		m1 = append(m1, ls)
		start := float64(rapid.IntRange(0, 30).Draw(rt, "start"))
		slope := float64(rapid.IntRange(0, 4).Draw(rt, "slope"))
		gapAt := rapid.IntRange(-6, nSamples).Draw(rt, "gapAt") // <0: no gap
		gapLen := rapid.IntRange(1, 12).Draw(rt, "gapLen")
		add(labels.NewBuilder(ls).Set("__name__", "m1").Labels(), func(i int) (float64, bool) {
			if gapAt >= 0 && i >= gapAt && i < gapAt+gapLen {
				return 0, false
			}
			return start + slope*float64(i) + float64(k)/16, true
		})
	}
	for k, ls := range m1 {
		if rapid.IntRange(0, 2).Draw(rt, "inM2") == 0 {
			continue
		}
		start := float64(rapid.IntRange(1, 9).Draw(rt, "start2"))
		add(labels.NewBuilder(ls).Set("__name__", "m2").Labels(), func(i int) (float64, bool) {
			return start + float64(i%3) + float64(k)/32, true
		})
	}
	nFam := rapid.IntRange(0, 3).Draw(rt, "histFamilies")
	for f := 0; f < nFam; f++ {
		b := labels.NewBuilder(labels.EmptyLabels())
		b.Set("__name__", "h_bucket")
		b.Set("a", val("ha"))
		if rapid.Bool().Draw(rt, "hHasB") {
			b.Set("b", val("hb"))
		}
		c1 := float64(rapid.IntRange(0, 5).Draw(rt, "c1"))
		c2 := float64(rapid.IntRange(0, 5).Draw(rt, "c2"))
		c3 := float64(rapid.IntRange(1, 5).Draw(rt, "c3"))
		base := b.Labels()
		if seen[labels.NewBuilder(base).Set("le", "+Inf").Labels().String()] {
			continue
		}
		for _, le := range []struct {
			le string
			c  float64
		}{{"0.1", c1}, {"1", c1 + c2}, {"+Inf", c1 + c2 + c3}} {
			c := le.c
			add(labels.NewBuilder(base).Set("le", le.le).Labels(), func(i int) (float64, bool) { return c * float64(i), true })
		}
	}
	sort.Slice(u, func(i, j int) bool { return labels.Compare(u[i].lset, u[j].lset) < 0 })
	return u
}

var _ chunks.Sample = smpl{}

// ---- PromQL program generator ------------------------------------------------------------------

// progGen draws a PromQL program from a grammar biased to what the analyzer shards. Everything is
// drawn through rapid, so a failing program shrinks towards fewer / simpler productions.
type progGen struct {
	rt *rapid.T
	// topk/bottomk break ties by input order, and the engine emits the result of an aggregation in
	// map order, so a program that post-processes a topk is not a function of its input. They are
	// only drawn at the root, where the selected values (not the identities) can be compared.
	atRoot bool
	rootK  *rootTopk
	// exact > 0 while the operand of a discretising operator (comparison, ceil, sgn, clamp_max,
	// count_values) is generated. The engine emits aggregation results in map order, so sums of
	// non-dyadic values (rate, avg, stddev, division) may differ in the last bit between two
	// correct evaluations; a discretising operator would turn that into a different series. In
	// exact mode only productions whose float arithmetic is exact on the dyadic sample values are
	// drawn.
	exact    int
	features map[string]bool
}

// rootTopk describes the grouping of a topk/bottomk at the root of the program.
type rootTopk struct {
	grouped bool // has a by/without clause
	by      bool
	labels  []string
}

func (g *progGen) n(label string, n int) int { return rapid.IntRange(0, n-1).Draw(g.rt, label) }
func (g *progGen) feat(f string)            { g.features[f] = true }

func pickStr(g *progGen, label string, xs ...string) string {
	return xs[g.n(label, len(xs))]
}

func (g *progGen) labelList(label string, pool []string, sizes []int) []string {
	want := sizes[g.n(label+"N", len(sizes))]
	var out []string
	used := map[string]bool{}
	for len(out) < want && len(out) < len(pool) {
		l := pool[g.n(label, len(pool))]
		if used[l] {
			// deterministic fallback: next unused
			for _, p := range pool {
				if !used[p] {
					l = p
					break
				}
			}
		}
		if used[l] {
			break
		}
		used[l] = true
		out = append(out, l)
	}
	return out
}

var groupPool = []string{"a", "b", "c", "a", "b", "le", "dst", "__name__"}

func (g *progGen) grouping() []string {
	return g.labelList("grp", groupPool, []int{1, 1, 1, 2, 2, 2, 3, 0})
}

func (g *progGen) matchers() string {
	switch g.n("matchers", 8) {
	case 0:
		return `{a="0"}`
	case 1:
		return `{b=~"0|1"}`
	case 2:
		return `{c!="1"}`
	case 3:
		return `{a!~"1", b="0"}`
	default:
		return ""
	}
}

func (g *progGen) selector() string {
	switch g.n("selector", 14) {
	case 0, 1, 2, 3, 4, 5:
		return "m1" + g.matchers()
	case 6, 7, 8:
		return "m2" + g.matchers()
	case 9:
		return "h_bucket"
	case 10:
		g.feat("multi-name-selector")
		return `{__name__=~"m1|m2"}`
	case 11:
		g.feat("multi-name-selector")
		return pickStr(g, "nameless", `{a=~".+"}`, `{b="0"}`, `{__name__=~"m.+"}`)
	case 12:
		return "m1 offset 1m"
	default:
		return "m2 offset 30s"
	}
}

func (g *progGen) rangeSel() string {
	sel := pickStr(g, "rsel", "m1", "m1", "m2", "h_bucket", `m1{a="0"}`, `m2{b=~"0|1"}`)
	return sel + "[" + pickStr(g, "range", "1m", "2m", "5m") + "]"
}

func (g *progGen) leaf() string {
	switch g.n("leaf", 6) {
	case 0, 1, 2:
		return g.selector()
	default:
		g.feat("range-function")
		if g.exact > 0 {
			return pickStr(g, "rfnx", "sum_over_time", "max_over_time", "min_over_time", "count_over_time", "last_over_time") + "(" + g.rangeSel() + ")"
		}
		return pickStr(g, "rfn", "rate", "rate", "increase", "delta", "sum_over_time", "max_over_time", "count_over_time", "last_over_time", "avg_over_time") + "(" + g.rangeSel() + ")"
	}
}

func byClause(kind string, ls []string) string {
	return " " + kind + " (" + strings.Join(ls, ", ") + ")"
}

func (g *progGen) agg(depth int) string {
	root := g.atRoot
	g.atRoot = false
	op := pickStr(g, "aggop", "sum", "sum", "sum", "min", "max", "avg", "count", "group", "stddev", "quantile", "topk", "bottomk", "count_values")
	if (op == "topk" || op == "bottomk") && !root {
		op = map[string]string{"topk": "max", "bottomk": "min"}[op]
	}
	if g.exact > 0 {
		if x, ok := map[string]string{"avg": "sum", "stddev": "max", "quantile": "min"}[op]; ok {
			op = x
		}
	}
	if op == "count_values" {
		g.exact++
		defer func() { g.exact-- }()
	}
	param := ""
	switch op {
	case "topk", "bottomk":
		g.feat("topk-bottomk-at-root")
		param = pickStr(g, "k", "1", "2", "3") + ", "
	case "count_values":
		g.feat("count_values")
		param = pickStr(g, "cvlabel", `"v"`, `"v"`, `"v"`, `"dst"`) + ", "
	case "quantile":
		param = pickStr(g, "q", "0.5", "0.9", "0") + ", "
	}
	mod := ""
	rk := &rootTopk{}
	switch g.n("aggmod", 8) {
	case 0:
		g.feat("agg-no-grouping")
	case 1, 2, 3, 4:
		g.feat("agg-by")
		rk.grouped, rk.by, rk.labels = true, true, g.grouping()
		mod = byClause("by", rk.labels)
	default:
		g.feat("agg-without")
		rk.grouped, rk.by, rk.labels = true, false, g.grouping()
		mod = byClause("without", rk.labels)
	}
	if op == "topk" || op == "bottomk" {
		g.rootK = rk
	}
	inner := ""
	if rk.grouped && g.n("dynInner", 6) == 0 {
		// the operand rewrites a label the grouping depends on (by: a listed label; without: a
		// label that is not listed) from another label - the analyzer's "dynamic label" case.
		var dst string
		for _, l := range []string{"a", "b", "c"} {
			if contains(rk.labels, l) == rk.by {
				dst = l
				break
			}
		}
		if dst != "" {
			src := map[string]string{"a": "b", "b": "c", "c": "a"}[dst]
			g.feat("label_replace-join")
			g.feat("grouping-label-rewritten")
			inner = fmt.Sprintf(`label_replace(%s, %q, "$1", %q, "(.*)")`, g.vec(depth-1), dst, src)
		}
	}
	if inner == "" {
		inner = g.vec(depth - 1)
	}
	return op + mod + " (" + param + inner + ")"
}

func contains(xs []string, x string) bool {
	for _, y := range xs {
		if y == x {
			return true
		}
	}
	return false
}

var arith = []string{"+", "-", "*", "/"}
var cmp = []string{">", "<", "==", "!=", ">=", "<="}
var setOps = []string{"and", "or", "unless"}

func (g *progGen) arithOp() string {
	op := arith[g.n("arith", len(arith))]
	if g.exact > 0 && op == "/" {
		op = "*"
	}
	return op
}

func (g *progGen) binOp() (op string, isSet, isCmp bool) {
	switch g.n("opkind", 6) {
	case 0, 1, 2:
		return g.arithOp(), false, false
	case 3:
		return cmp[g.n("cmp", len(cmp))], false, true
	default:
		return setOps[g.n("setop", len(setOps))], true, false
	}
}

func (g *progGen) binVV(depth int) string {
	g.feat("binary-vector-vector")
	op, isSet, isCmp := g.binOp()
	if isCmp {
		g.exact++
		defer func() { g.exact-- }()
	}
	boolMod := ""
	if isCmp && g.n("bool", 3) == 0 {
		boolMod = " bool"
	}
	switch g.n("binshape", 10) {
	case 0, 1: // share of a total: agg by (L1) / on(L2) group_left agg by (L2)
		l1 := g.labelList("l1", []string{"a", "b", "c"}, []int{2, 2, 3})
		l2 := l1[:1+g.n("l2", len(l1)-1)]
		aggop := pickStr(g, "aggop2", "sum", "max", "count", "avg")
		if g.exact > 0 && aggop == "avg" {
			aggop = "sum"
		}
		group := ""
		if !isSet && len(l2) < len(l1) {
			g.feat("group-left-right")
			group = " group_left ()"
		}
		return fmt.Sprintf("%s by (%s) (%s) %s%s on (%s)%s %s by (%s) (%s)", aggop, strings.Join(l1, ", "), g.vec(depth-1), op, boolMod, strings.Join(l2, ", "), group, aggop, strings.Join(l2, ", "), g.vec(depth-1))
	case 2: // series against the aggregate it belongs to
		l := pickStr(g, "ign", "a", "b", "c")
		group := ""
		if !isSet {
			g.feat("group-left-right")
			group = " group_left ()"
		}
		inner := g.leaf()
		return fmt.Sprintf("(%s) %s%s ignoring (%s)%s sum without (%s) (%s)", inner, op, boolMod, l, group, l, inner)
	case 3, 4: // same label sets on both sides
		mod := ""
		switch g.n("vm", 4) {
		case 0:
			mod = " on (a, b, c)"
		case 1:
			mod = " ignoring (dst)"
		}
		return fmt.Sprintf("(%s) %s%s%s (%s)", g.leaf(), op, boolMod, mod, g.leaf())
	default:
		mod := ""
		switch g.n("vm", 5) {
		case 0, 1:
			g.feat("on")
			mod = byClause("on", g.labelList("onl", []string{"a", "b", "c", "le", "dst"}, []int{1, 1, 2, 2, 3, 0}))
		case 2, 3:
			g.feat("ignoring")
			mod = byClause("ignoring", g.labelList("ignl", []string{"a", "b", "c", "le", "dst"}, []int{1, 1, 2, 0}))
		}
		group := ""
		if !isSet && mod != "" {
			gk := g.n("group", 6)
			if gk == 2 && strings.Contains(mod, "c") {
				gk = 0 // a label must not occur in on() and in the include list
			}
			switch gk {
			case 0:
				g.feat("group-left-right")
				group = " group_left ()"
			case 1:
				g.feat("group-left-right")
				group = " group_right ()"
			case 2:
				g.feat("group-left-right")
				group = " group_left (c)"
			}
		}
		return fmt.Sprintf("(%s) %s%s%s%s (%s)", g.vec(depth-1), op, boolMod, mod, group, g.vec(depth-1))
	}
}

func (g *progGen) binVS(depth int) string {
	g.feat("binary-vector-scalar")
	sc := pickStr(g, "scalar", "1", "2", "0.5", "10", "time()")
	switch g.n("vsop", 3) {
	case 0:
		op := cmp[g.n("cmp", len(cmp))]
		if g.n("bool", 3) == 0 {
			op += " bool"
		}
		g.exact++
		defer func() { g.exact-- }()
		return fmt.Sprintf("(%s) %s %s", g.vec(depth-1), op, sc)
	case 1:
		return fmt.Sprintf("%s %s (%s)", sc, g.arithOp(), g.vec(depth-1))
	default:
		return fmt.Sprintf("(%s) %s %s", g.vec(depth-1), g.arithOp(), sc)
	}
}

func (g *progGen) fn1(depth int) string {
	switch g.n("fn1", 8) {
	case 0:
		return "abs(" + g.vec(depth-1) + ")"
	case 1:
		g.exact++
		defer func() { g.exact-- }()
		return "ceil(" + g.vec(depth-1) + ")"
	case 2:
		g.exact++
		defer func() { g.exact-- }()
		return "clamp_max(" + g.vec(depth-1) + ", 20)"
	case 3:
		return "-(" + g.vec(depth-1) + ")"
	case 4:
		return "timestamp(" + g.vec(depth-1) + ")"
	case 5:
		return "sort_desc(" + g.vec(depth-1) + ")"
	case 6:
		g.exact++
		defer func() { g.exact-- }()
		return "sgn(" + g.vec(depth-1) + ")"
	default:
		return "sort(" + g.vec(depth-1) + ")"
	}
}

func (g *progGen) labelFn(depth int) string {
	g.feat("label_replace-join")
	if g.n("lfn", 3) == 0 {
		return fmt.Sprintf(`label_join(%s, %q, "-", %s)`, g.vec(depth-1), pickStr(g, "dstl", "dst", "dst", "a", "c"), pickStr(g, "srcs", `"a", "b"`, `"b"`, `"c", "a"`))
	}
	return fmt.Sprintf(`label_replace(%s, %q, %q, %q, %q)`, g.vec(depth-1), pickStr(g, "dstl", "dst", "dst", "a", "b", "c"),
		pickStr(g, "repl", "$1", "x$1", "k"), pickStr(g, "srcl", "a", "b", "c", "__name__"), pickStr(g, "re", "(.*)", "(.)", "0|1"))
}

func (g *progGen) histQ(depth int) string {
	if g.exact > 0 {
		return g.agg(depth)
	}
	g.feat("histogram_quantile")
	q := pickStr(g, "hq", "0.9", "0.5", "0.99")
	var arg string
	switch g.n("hqarg", 8) {
	case 0:
		arg = "h_bucket"
	case 1:
		arg = "rate(h_bucket[2m])"
	case 2, 3:
		ls := append([]string{"le"}, g.labelList("hql", []string{"a", "b"}, []int{0, 1, 1, 2})...)
		arg = fmt.Sprintf("sum by (%s) (rate(h_bucket[2m]))", strings.Join(ls, ", "))
	case 4:
		arg = fmt.Sprintf("sum without (%s) (h_bucket)", pickStr(g, "hqw", "a", "b", "a, b"))
	case 5:
		arg = fmt.Sprintf("sum by (le, a) (%s)", g.vec(depth-1))
	default:
		arg = g.vec(depth - 1)
	}
	return "histogram_quantile(" + q + ", " + arg + ")"
}

func (g *progGen) vec(depth int) string {
	if depth <= 0 {
		return g.leaf()
	}
	switch g.n("prod", 24) {
	case 0, 1, 2, 3, 4, 5, 6:
		return g.agg(depth)
	case 7, 8, 9, 10:
		return g.binVV(depth)
	case 11, 12:
		return g.binVS(depth)
	case 13, 14:
		return g.fn1(depth)
	case 15, 16:
		return g.labelFn(depth)
	case 17, 18:
		return g.histQ(depth)
	case 19:
		g.feat("subquery")
		fn := pickStr(g, "sqfn", "max_over_time", "avg_over_time", "sum_over_time")
		if g.exact > 0 && fn == "avg_over_time" {
			fn = "min_over_time"
		}
		return fn + "((" + g.vec(depth-1) + ")[2m:30s])"
	case 20:
		g.feat("vector()")
		switch g.n("vecshape", 3) {
		case 0:
			return "vector(" + pickStr(g, "vecv", "0", "1") + ")"
		default:
			return "(" + g.vec(depth-1) + ") or vector(0)"
		}
	case 21:
		g.feat("absent-scalar")
		switch g.n("nonshard", 3) {
		case 0:
			return "absent(" + g.vec(depth-1) + ")"
		case 1:
			return "(" + g.vec(depth-1) + ") * scalar(" + g.leaf() + ")"
		default:
			return "absent_over_time(" + g.rangeSel() + ")"
		}
	default:
		return g.leaf()
	}
}

// program is one generated query with what the oracle needs to know about it.
type program struct {
	q     string
	feats []string
	rootK *rootTopk
}

// genProgram draws a whole query; most of them have a shardable shape at the root.
func genProgram(rt *rapid.T) program {
	g := &progGen{rt: rt, features: map[string]bool{}}
	depth := rapid.IntRange(1, 3).Draw(rt, "depth")
	var q string
	switch g.n("root", 10) {
	case 0, 1, 2, 3, 4:
		g.atRoot = true
		q = g.agg(depth)
	case 5, 6:
		q = g.binVV(depth)
	case 7:
		q = g.histQ(depth)
	default:
		q = g.vec(depth)
	}
	fs := make([]string, 0, len(g.features))
	for f := range g.features {
		fs = append(fs, f)
	}
	sort.Strings(fs)
	return program{q: q, feats: fs, rootK: g.rootK}
}
