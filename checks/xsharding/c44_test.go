package xsharding

// C44 Sharded query execution returns the unsharded result.
// Domain: a generated series universe (two plain metrics with label sets over a,b,c - labels may be
// absent -, a classic histogram family h_bucket), a PromQL program drawn from a grammar biased to
// what the analyzer shards (aggregations by/without, nested aggregations, vector matching with
// on/ignoring/group_left/group_right/bool, set operators, label_replace/label_join,
// histogram_quantile, range functions, subqueries, topk/bottomk, count_values, vector-scalar
// arithmetic, and the non-shardable absent/scalar), 1..5 shards, instant or range evaluation.
// System under test: the real querysharding analyzer, the real queryfrontend sharding middleware
// (querySharder.Do: shardQuery, DoRequests, codec MergeResponse) and, as the "querier + stores" below
// it, the Prometheus engine over the series the real storepb.ShardMatcher lets through.
// Oracle: (a) the shards partition the universe and series equal on the sharding labels share a
// shard; (b) for every program the analyzer declares shardable and that evaluates without error
// unsharded, the frontend's merged answer equals the unsharded answer (same label sets, same
// timestamps, values within 1e-9 relative or 1e-6 absolute, NaN == NaN).

import (
	"context"
	"fmt"
	"strings"
	"testing"

	"github.com/prometheus/prometheus/model/labels"
	"github.com/prometheus/prometheus/promql"
	"github.com/weaveworks/common/user"
	"pgregory.net/rapid"

	"github.com/thanos-io/thanos/internal/cortex/querier/queryrange"
	"github.com/thanos-io/thanos/pkg/queryfrontend"
	"github.com/thanos-io/thanos/pkg/querysharding"
	"github.com/thanos-io/thanos/pkg/store/storepb"
	"github.com/thanos-io/thanos/verifx/kit"
)

// sigC44Vector: vector(x) produces a series out of nothing in every shard and the analyzer does not
// treat it as non-shardable (unlike scalar/absent).
const sigC44Vector = "C44/vector-function-sharded"

// sigC44WithoutName: an aggregation `without (...)` always drops the metric name, but the analyzer
// does not add __name__ to the without-labels (it does for binary operators). With a selector that
// matches several metric names, series that aggregate into one group hash to different shards.
const sigC44WithoutName = "C44/without-aggregation-keeps-metric-name"

// sigC44ByName: __name__ is accepted as a sharding label of `by (__name__)` / `on (__name__)`
// although functions and arithmetic between the selector and the aggregation drop the metric name,
// so series of different metrics that end up in one group hash to different shards.
const sigC44ByName = "C44/by-metric-name-after-name-drop"

// knownExclusion returns the signature of the known finding the generated program may run into.
func (env *c44Env) knownExclusion(known map[string]bool, q string, feats []string) string {
	if known[sigC44Vector] && strings.Contains(q, "vector(") {
		return sigC44Vector
	}
	if known[sigC44WithoutName] && contains(feats, "multi-name-selector") && contains(feats, "agg-without") {
		// reachable only while the final analysis is "without" and does not name __name__
		if a, err := env.analyzer.Analyze(q); err == nil && a.IsShardable() && !a.ShardBy() && !contains(a.ShardingLabels(), "__name__") {
			return sigC44WithoutName
		}
	}
	if known[sigC44ByName] && contains(feats, "multi-name-selector") {
		if a, err := env.analyzer.Analyze(q); err == nil && a.IsShardable() && a.ShardBy() && contains(a.ShardingLabels(), "__name__") {
			return sigC44ByName
		}
	}
	return ""
}

type evalSpec struct {
	instant          bool
	at               int64 // ms, instant
	start, end, step int64 // ms, range
}

func (e evalSpec) String() string {
	if e.instant {
		return fmt.Sprintf("instant@%ds", e.at/1000)
	}
	return fmt.Sprintf("range[%ds..%ds step %ds]", e.start/1000, e.end/1000, e.step/1000)
}

type c44Info struct {
	parseErr       bool
	shardable      bool
	by             bool
	shardLabels    []string
	unshardedErr   error
	nonEmptyShards int // shard requests that returned at least one series
	populated      int // shards that hold at least one universe series
	resultSeries   int
}

type c44Env struct {
	eng      *promql.Engine
	analyzer *querysharding.CachedQueryAnalyzer
}

// projection renders the part of a label set the shard hash is computed from.
func projection(l labels.Labels, by bool, names []string) string {
	set := map[string]bool{}
	for _, n := range names {
		set[n] = true
	}
	var sb strings.Builder
	l.Range(func(x labels.Label) {
		if set[x.Name] == by {
			fmt.Fprintf(&sb, "%s=%q,", x.Name, x.Value)
		}
	})
	return sb.String()
}

// checkPartition: every series is matched by exactly one shard; equal projections share a shard.
func checkPartition(u universe, by bool, names []string, n int) (string, int) {
	owner := map[string]int{} // projection -> shard
	populated := map[int]bool{}
	for _, s := range u {
		found := -1
		for i := 0; i < n; i++ {
			info := &storepb.ShardInfo{TotalShards: int64(n), ShardIndex: int64(i), By: by, Labels: names}
			if len(shardOf(universe{s}, info)) == 1 {
				if found >= 0 {
					return fmt.Sprintf("series %s is matched by shards %d and %d of %d", s.lset, found, i, n), 0
				}
				found = i
			}
		}
		if found < 0 {
			return fmt.Sprintf("series %s is matched by none of the %d shards", s.lset, n), 0
		}
		populated[found] = true
		p := projection(s.lset, by, names)
		if prev, ok := owner[p]; ok && prev != found {
			return fmt.Sprintf("series %s (sharding labels %s) is in shard %d, another series with the same sharding labels in shard %d", s.lset, p, found, prev), 0
		}
		owner[p] = found
	}
	return "", len(populated)
}

func (env *c44Env) run(u universe, q string, rootK *rootTopk, shards int, ev evalSpec) (string, c44Info) {
	var info c44Info
	analysis, err := env.analyzer.Analyze(q)
	if err != nil {
		info.parseErr = true
		return "", info
	}
	if !analysis.IsShardable() {
		return "", info
	}
	info.shardable = true
	info.by = analysis.ShardBy()
	info.shardLabels = analysis.ShardingLabels()

	msg, populated := checkPartition(u, analysis.ShardBy(), analysis.ShardingLabels(), shards)
	if msg != "" {
		return "partition: " + msg, info
	}
	info.populated = populated

	ctx := user.InjectOrgID(context.Background(), "t")
	var (
		req    queryrange.Request
		merger queryrange.Merger
	)
	if ev.instant {
		req = &queryfrontend.ThanosQueryInstantRequest{Path: "/api/v1/query", Query: q, Time: ev.at}
		merger = queryfrontend.NewThanosQueryInstantCodec(false)
	} else {
		req = &queryfrontend.ThanosQueryRangeRequest{Path: "/api/v1/query_range", Query: q, Start: ev.start, End: ev.end, Step: ev.step}
		merger = queryfrontend.NewThanosQueryRangeCodec(false)
	}

	// unsharded: what the frontend does with a query it does not shard.
	direct := &evalHandler{eng: env.eng, u: u}
	wantResp, err := direct.Do(ctx, req)
	if err != nil {
		info.unshardedErr = err
		return "", info
	}
	want := canon(wantResp)
	if len(want.dup) > 0 {
		return "", info // cannot happen: the engine rejects duplicate label sets
	}
	info.resultSeries = len(want.series)

	// sharded: the real middleware in front of the same "querier".
	down := &evalHandler{eng: env.eng, u: u}
	mw := queryfrontend.PromQLShardingMiddleware(env.analyzer, shards, seqLimits{}, merger, nil).Wrap(down)
	gotResp, err := mw.Do(ctx, req)
	if len(down.calls) != shards {
		return fmt.Sprintf("the middleware issued %d downstream requests for %d shards", len(down.calls), shards), info
	}
	for i, c := range down.calls {
		if c.shard == nil || c.shard.TotalShards != int64(shards) || c.shard.ShardIndex != int64(i) {
			return fmt.Sprintf("downstream request %d carries shard info %v", i, c.shard), info
		}
		if c.nResults > 0 {
			info.nonEmptyShards++
		}
	}
	if err != nil {
		return fmt.Sprintf("sharded execution failed (%v) although the unsharded evaluation succeeded", err), info
	}
	if rootK != nil {
		groupOf := func(l labels.Labels) string {
			switch {
			case !rootK.grouped:
				return ""
			case rootK.by:
				return projection(l, true, rootK.labels)
			default: // `without` never groups by the metric name
				return projection(l, false, append([]string{"__name__"}, rootK.labels...))
			}
		}
		if d := diffSelected(want, canon(gotResp), groupOf); d != "" {
			return d, info
		}
		return "", info
	}
	if d := diffAnswers(want, canon(gotResp)); d != "" {
		return d, info
	}
	return "", info
}

func genEval(rt *rapid.T) evalSpec {
	if rapid.IntRange(0, 2).Draw(rt, "instant") > 0 {
		return evalSpec{instant: true, at: int64(rapid.SampledFrom([]int{120, 300, 315, 450, 600}).Draw(rt, "at")) * 1000}
	}
	start := int64(rapid.SampledFrom([]int{90, 300}).Draw(rt, "start")) * 1000
	step := int64(rapid.SampledFrom([]int{30, 45, 60}).Draw(rt, "step")) * 1000
	n := int64(rapid.IntRange(1, 5).Draw(rt, "steps"))
	return evalSpec{start: start, end: start + n*step, step: step}
}

func lsetOf(name string, kv ...string) labels.Labels {
	return labels.FromStrings(append([]string{"__name__", name}, kv...)...)
}

func constSeries(l labels.Labels, v float64) uSeries {
	s := uSeries{lset: l}
	for i := 0; i < nSamples; i++ {
		s.samples = append(s.samples, smpl{t: int64(i) * stepMs, v: v})
	}
	return s
}

func TestVerifC44(t *testing.T) {
	rec := kit.For(t, "C44")
	known := kit.KnownFindings("C44")
	env := &c44Env{eng: newEngine(), analyzer: querysharding.NewQueryAnalyzer()}
	defer env.eng.Close()

	// Regression inputs (plain).
	{
		// F18: the shard that does not hold the c-less series answers `{} 0` for the group c="".
		u := universe{constSeries(lsetOf("m1", "a", "0"), 5), constSeries(lsetOf("m1", "c", "1"), 7)}
		q := `topk by (c) (1, m1 or vector(0))`
		msg, info := env.run(u, q, &rootTopk{grouped: true, by: true, labels: []string{"c"}}, 2, evalSpec{instant: true, at: 300_000})
		if !info.shardable {
			rec.Note("regression F18: the analyzer no longer shards %q", q)
		} else if msg != "" {
			if known[sigC44Vector] {
				rec.Known(sigC44Vector, fmt.Sprintf("%s over m1{a=0}=5, m1{c=1}=7, 2 shards: %s", q, msg))
			} else {
				rec.Violation(t, "regression F18 (vector() sharded): %s: %s", q, msg)
			}
		}
		// an aggregation `without` over a selector that matches two metric names.
		u = universe{constSeries(lsetOf("m1"), 0), constSeries(lsetOf("m2"), 2)}
		q = `sum without (a) ({__name__=~"m1|m2"})`
		msg, info = env.run(u, q, nil, 2, evalSpec{instant: true, at: 120_000})
		if msg != "" {
			if known[sigC44WithoutName] {
				rec.Known(sigC44WithoutName, fmt.Sprintf("%s over m1{}=0, m2{}=2, 2 shards: %s", q, msg))
			} else {
				rec.Violation(t, "regression (without keeps __name__): %s: %s", q, msg)
			}
		}
		// by (__name__) above a function that drops the metric name.
		q = `sum by (__name__) (abs({__name__=~"m1|m2"}))`
		msg, info = env.run(universe{constSeries(lsetOf("m1", "a", "0"), 1), constSeries(lsetOf("m2", "a", "1"), 2)}, q, nil, 2, evalSpec{instant: true, at: 120_000})
		if msg != "" {
			if known[sigC44ByName] {
				rec.Known(sigC44ByName, fmt.Sprintf("%s over m1{a=0}=1, m2{a=1}=2, 2 shards: %s", q, msg))
			} else {
				rec.Violation(t, "regression (by __name__ after abs): %s: %s", q, msg)
			}
		}
		// sanity inputs that must agree
		if msg, _ := env.run(universe{constSeries(lsetOf("m1", "a", "0", "b", "0"), 1), constSeries(lsetOf("m1", "a", "0", "b", "1"), 1), constSeries(lsetOf("m1", "a", "1"), 3)},
			`topk by (a) (1, m1)`, &rootTopk{grouped: true, by: true, labels: []string{"a"}}, 3, evalSpec{instant: true, at: 300_000}); msg != "" {
			rec.Violation(t, "regression root topk with a tie: %s", msg)
		}
		u = universe{
			constSeries(lsetOf("m1", "a", "0", "b", "0"), 1), constSeries(lsetOf("m1", "a", "0", "b", "1"), 2),
			constSeries(lsetOf("m1", "a", "1", "b", "0"), 3), constSeries(lsetOf("m1", "a", "1", "b", "1"), 4),
			constSeries(lsetOf("m2", "a", "0", "b", "0"), 10), constSeries(lsetOf("m2", "a", "1", "b", "1"), 20),
		}
		for _, q := range []string{
			`sum by (a) (m1)`,
			`sum without (b) (m1) / on (a) sum by (a) (m2)`,
			`m1 / ignoring (b) group_left sum without (b) (m1)`,
			`count_values by (a) ("v", m1)`,
		} {
			for n := 2; n <= 3; n++ {
				if msg, _ := env.run(u, q, nil, n, evalSpec{start: 90_000, end: 210_000, step: 60_000}); msg != "" {
					rec.Violation(t, "regression %q with %d shards: %s", q, n, msg)
				}
			}
		}
	}

	rec.Check(t, func(rt *rapid.T) {
		u := genUniverse(rt)
		prog := genProgram(rt)
		q, feats := prog.q, prog.feats
		shards := rapid.SampledFrom([]int{1, 2, 2, 3, 3, 4, 5}).Draw(rt, "shards")
		ev := genEval(rt)
		if sig := env.knownExclusion(known, q, feats); sig != "" {
			rec.Excluded(sig)
			return
		}
		msg, info := env.run(u, q, prog.rootK, shards, ev)
		if msg != "" {
			rt.Fatalf("C44 violated: %s\nquery: %s\nshards: %d (%s %v) eval: %s\nuniverse: %s", msg, q, shards, byWord(info.by), info.shardLabels, ev, u)
		}
		key := fmt.Sprintf("%s | shards=%d %s | %s", q, shards, ev, u)
		var classes []string
		switch {
		case info.parseErr:
			classes = append(classes, "program-rejected-by-parser")
		case !info.shardable:
			classes = append(classes, "not-shardable")
		case info.unshardedErr != nil:
			classes = append(classes, "shardable", "unsharded-evaluation-error")
		default:
			classes = append(classes, "shardable", "compared", "shard-"+byWord(info.by), fmt.Sprintf("shards-%d", shards))
			if ev.instant {
				classes = append(classes, "instant")
			} else {
				classes = append(classes, "range")
			}
			if info.resultSeries == 0 {
				classes = append(classes, "empty-answer")
			}
			if info.nonEmptyShards >= 2 {
				classes = append(classes, "answer-from->=2-shards")
			}
			for _, f := range feats {
				classes = append(classes, "compared:"+f)
			}
		}
		nontrivial := info.shardable && info.unshardedErr == nil && !info.parseErr && shards >= 2 && info.nonEmptyShards >= 2
		rec.Case(key, nontrivial, classes...)
	})
}

func byWord(by bool) string {
	if by {
		return "by"
	}
	return "without"
}

// TestVerifC44_Partition checks the partition half of the statement on label sets and sharding
// label lists that are richer than what the PromQL universe offers (UTF-8 names and values, values
// that look like separators, labels named in the shard info that no series carries).
func TestVerifC44_Partition(t *testing.T) {
	rec := kit.For(t, "C44")
	names := []string{"a", "b", "c", "le", "__name__", "ä", "a b", "x:y"}
	vals := []string{"0", "1", "", "a", "a\xc3\xbf", "=", "0,b=1", "ÿ", "long-value-0123456789"}
	rec.Check(t, func(rt *rapid.T) {
		n := rapid.IntRange(1, 6).Draw(rt, "series")
		seen := map[string]bool{}
		var u universe
		for i := 0; i < n; i++ {
			b := labels.NewBuilder(labels.EmptyLabels())
			for _, ln := range names {
				if rapid.IntRange(0, 2).Draw(rt, "has") == 0 {
					b.Set(ln, rapid.SampledFrom(vals).Draw(rt, "v"))
				}
			}
			l := b.Labels()
			if seen[l.String()] {
				continue
			}
			seen[l.String()] = true
			u = append(u, uSeries{lset: l})
		}
		by := rapid.Bool().Draw(rt, "by")
		k := rapid.IntRange(0, 4).Draw(rt, "nlabels")
		var shardLabels []string
		for i := 0; i < k; i++ {
			shardLabels = append(shardLabels, rapid.SampledFrom(append(names, "absent")).Draw(rt, "sl"))
		}
		shards := rapid.IntRange(1, 6).Draw(rt, "shards")
		msg, populated := checkPartition(u, by, shardLabels, shards)
		if msg != "" {
			rt.Fatalf("C44 violated (partition): %s\nshard %s %q total %d\nuniverse: %s", msg, byWord(by), shardLabels, shards, u)
		}
		rec.Case(fmt.Sprintf("partition %s %q n=%d %s", byWord(by), shardLabels, shards, u), shards >= 2 && populated >= 2, "partition-only", "partition-"+byWord(by))
	})
}
