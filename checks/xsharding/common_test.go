package xsharding

import (
	"context"
	"fmt"
	"math"
	"sort"
	"strings"
	"sync"
	"time"

	"github.com/prometheus/prometheus/model/histogram"
	"github.com/prometheus/prometheus/model/labels"
	"github.com/prometheus/prometheus/promql"
	"github.com/prometheus/prometheus/storage"
	"github.com/prometheus/prometheus/tsdb/chunkenc"
	"github.com/prometheus/prometheus/tsdb/chunks"
	"github.com/prometheus/prometheus/util/annotations"

	"github.com/thanos-io/thanos/internal/cortex/cortexpb"
	"github.com/thanos-io/thanos/internal/cortex/querier/queryrange"
	"github.com/thanos-io/thanos/pkg/queryfrontend"
	"github.com/thanos-io/thanos/pkg/store/storepb"
)

// ---- series universe --------------------------------------------------------------------------

type smpl struct {
	t int64
	v float64
}

func (s smpl) T() int64                      { return s.t }
func (s smpl) F() float64                    { return s.v }
func (s smpl) H() *histogram.Histogram       { return nil }
func (s smpl) FH() *histogram.FloatHistogram { return nil }
func (s smpl) Type() chunkenc.ValueType      { return chunkenc.ValFloat }
func (s smpl) Copy() chunks.Sample           { return s }

type uSeries struct {
	lset    labels.Labels
	samples []chunks.Sample
}

// universe is the full series set a querier would see (sorted by labels).
type universe []uSeries

func (u universe) String() string {
	var sb strings.Builder
	for _, s := range u {
		sb.WriteString(s.lset.String())
		sb.WriteString("[")
		for i, x := range s.samples {
			if i > 0 {
				sb.WriteString(" ")
			}
			fmt.Fprintf(&sb, "%d:%v", x.T()/1000, x.F())
		}
		sb.WriteString("] ")
	}
	return sb.String()
}

// ---- storage.Queryable over a (sharded) universe --------------------------------------------

type memQueryable struct{ series universe }

func (q memQueryable) Querier(mint, maxt int64) (storage.Querier, error) {
	return memQuerier{series: q.series}, nil
}

type memQuerier struct{ series universe }

func (q memQuerier) Select(_ context.Context, _ bool, _ *storage.SelectHints, ms ...*labels.Matcher) storage.SeriesSet {
	var out []storage.Series
Outer:
	for _, s := range q.series {
		for _, m := range ms {
			if !m.Matches(s.lset.Get(m.Name)) {
				continue Outer
			}
		}
		out = append(out, storage.NewListSeries(s.lset, s.samples))
	}
	return &listSeriesSet{series: out, idx: -1}
}

func (q memQuerier) LabelValues(context.Context, string, *storage.LabelHints, ...*labels.Matcher) ([]string, annotations.Annotations, error) {
	return nil, nil, nil
}

func (q memQuerier) LabelNames(context.Context, *storage.LabelHints, ...*labels.Matcher) ([]string, annotations.Annotations, error) {
	return nil, nil, nil
}
func (q memQuerier) Close() error { return nil }

type listSeriesSet struct {
	series []storage.Series
	idx    int
}

func (s *listSeriesSet) Next() bool                        { s.idx++; return s.idx < len(s.series) }
func (s *listSeriesSet) At() storage.Series                { return s.series[s.idx] }
func (s *listSeriesSet) Err() error                        { return nil }
func (s *listSeriesSet) Warnings() annotations.Annotations { return nil }

// ---- shard membership through the real ShardMatcher -------------------------------------------

var bufPool = sync.Pool{New: func() any {
	b := make([]byte, 0, 128)
	return &b
}}

// shardOf returns the universe restricted to the series the store-side ShardMatcher lets through.
func shardOf(u universe, info *storepb.ShardInfo) universe {
	m := info.Matcher(&bufPool)
	defer m.Close()
	var out universe
	for _, s := range u {
		if m.MatchesLabels(s.lset) {
			out = append(out, s)
		}
	}
	return out
}

// ---- the "querier" behind the frontend: Prometheus engine over the shard's series --------------

type evalHandler struct {
	eng *promql.Engine
	u   universe
	// per-request log of what the downstream saw (one entry per Do call)
	calls []evalCall
}

type evalCall struct {
	shard    *storepb.ShardInfo
	nSeries  int // universe series visible to this call
	nResults int // series in the answer
	err      error
}

func newEngine() *promql.Engine {
	return promql.NewEngine(promql.EngineOpts{
		MaxSamples:           5_000_000,
		Timeout:              time.Minute, // guard only, never the oracle
		LookbackDelta:        5 * time.Minute,
		EnableAtModifier:     true,
		EnableNegativeOffset: true,
	})
}

func (h *evalHandler) Do(ctx context.Context, r queryrange.Request) (queryrange.Response, error) {
	var (
		info *storepb.ShardInfo
		q    promql.Query
		err  error
	)
	switch req := r.(type) {
	case *queryfrontend.ThanosQueryInstantRequest:
		info = req.ShardInfo
	case *queryfrontend.ThanosQueryRangeRequest:
		info = req.ShardInfo
	default:
		return nil, fmt.Errorf("harness: unexpected request type %T", r)
	}
	visible := h.u
	if info != nil {
		visible = shardOf(h.u, info)
	}
	call := evalCall{shard: info, nSeries: len(visible)}
	qa := memQueryable{series: visible}
	switch req := r.(type) {
	case *queryfrontend.ThanosQueryInstantRequest:
		q, err = h.eng.NewInstantQuery(ctx, qa, nil, req.Query, time.UnixMilli(req.Time))
	case *queryfrontend.ThanosQueryRangeRequest:
		q, err = h.eng.NewRangeQuery(ctx, qa, nil, req.Query, time.UnixMilli(req.Start), time.UnixMilli(req.End), time.Duration(req.Step)*time.Millisecond)
	}
	if err != nil {
		call.err = err
		h.calls = append(h.calls, call)
		return nil, err
	}
	defer q.Close()
	res := q.Exec(ctx)
	if res.Err != nil {
		call.err = res.Err
		h.calls = append(h.calls, call)
		return nil, res.Err
	}
	var resp queryrange.Response
	switch req := r.(type) {
	case *queryfrontend.ThanosQueryInstantRequest:
		resp, call.nResults = instantResponse(res, req.Time)
	case *queryfrontend.ThanosQueryRangeRequest:
		resp, call.nResults = rangeResponse(res)
	}
	h.calls = append(h.calls, call)
	return resp, nil
}

func adapters(l labels.Labels) []cortexpb.LabelAdapter {
	return cortexpb.FromLabelsToLabelAdapters(l.Copy())
}

func instantResponse(res *promql.Result, ts int64) (queryrange.Response, int) {
	out := &queryrange.PrometheusInstantQueryResponse{Status: queryrange.StatusSuccess}
	switch v := res.Value.(type) {
	case promql.Vector:
		vec := &queryrange.Vector{}
		for _, s := range v {
			vec.Samples = append(vec.Samples, &queryrange.Sample{Labels: adapters(s.Metric), SampleValue: s.F, Timestamp: s.T})
		}
		out.Data = queryrange.PrometheusInstantQueryData{ResultType: "vector", Result: queryrange.PrometheusInstantQueryResult{Result: &queryrange.PrometheusInstantQueryResult_Vector{Vector: vec}}}
		return out, len(v)
	case promql.Matrix:
		m := &queryrange.Matrix{}
		for _, s := range v {
			ss := &queryrange.SampleStream{Labels: adapters(s.Metric)}
			for _, p := range s.Floats {
				ss.Samples = append(ss.Samples, cortexpb.Sample{Value: p.F, TimestampMs: p.T})
			}
			m.SampleStreams = append(m.SampleStreams, ss)
		}
		out.Data = queryrange.PrometheusInstantQueryData{ResultType: "matrix", Result: queryrange.PrometheusInstantQueryResult{Result: &queryrange.PrometheusInstantQueryResult_Matrix{Matrix: m}}}
		return out, len(v)
	case promql.Scalar:
		out.Data = queryrange.PrometheusInstantQueryData{ResultType: "scalar", Result: queryrange.PrometheusInstantQueryResult{Result: &queryrange.PrometheusInstantQueryResult_Scalar{Scalar: &cortexpb.Sample{Value: v.V, TimestampMs: ts}}}}
		return out, 1
	default:
		out.Data = queryrange.PrometheusInstantQueryData{ResultType: "string"}
		return out, 0
	}
}

func rangeResponse(res *promql.Result) (queryrange.Response, int) {
	out := &queryrange.PrometheusResponse{Status: queryrange.StatusSuccess, Data: queryrange.PrometheusData{ResultType: "matrix"}}
	m, _ := res.Value.(promql.Matrix)
	for _, s := range m {
		ss := queryrange.SampleStream{Labels: adapters(s.Metric)}
		for _, p := range s.Floats {
			ss.Samples = append(ss.Samples, cortexpb.Sample{Value: p.F, TimestampMs: p.T})
		}
		out.Data.Result = append(out.Data.Result, ss)
	}
	return out, len(m)
}

// ---- canonical form of an answer ----------------------------------------------------------------

type point struct {
	t int64
	v float64
}

// answer maps a result series (rendered labels) to its points; dup records label sets that occur
// more than once in one answer.
type answer struct {
	kind   string
	series map[string][]point
	lsets  map[string]labels.Labels
	dup    []string
}

func canon(resp queryrange.Response) answer {
	a := answer{series: map[string][]point{}, lsets: map[string]labels.Labels{}}
	add := func(ls []cortexpb.LabelAdapter, ps []point) {
		k := cortexpb.FromLabelAdaptersToLabels(ls).String()
		a.lsets[k] = cortexpb.FromLabelAdaptersToLabels(ls).Copy()
		if _, ok := a.series[k]; ok {
			a.dup = append(a.dup, k)
		}
		a.series[k] = append(a.series[k], ps...)
	}
	switch r := resp.(type) {
	case *queryrange.PrometheusInstantQueryResponse:
		a.kind = r.Data.ResultType
		if v := r.Data.Result.GetVector(); v != nil {
			for _, s := range v.Samples {
				add(s.Labels, []point{{s.Timestamp, s.SampleValue}})
			}
		}
		if m := r.Data.Result.GetMatrix(); m != nil {
			for _, s := range m.SampleStreams {
				ps := make([]point, len(s.Samples))
				for i, p := range s.Samples {
					ps[i] = point{p.TimestampMs, p.Value}
				}
				add(s.Labels, ps)
			}
		}
		if r.Data.ResultType == "scalar" {
			sc := r.Data.Result.GetScalar()
			add(nil, []point{{sc.TimestampMs, sc.Value}})
		}
	case *queryrange.PrometheusResponse:
		a.kind = r.Data.ResultType
		for _, s := range r.Data.Result {
			ps := make([]point, len(s.Samples))
			for i, p := range s.Samples {
				ps[i] = point{p.TimestampMs, p.Value}
			}
			add(s.Labels, ps)
		}
	}
	return a
}

func closeEnough(a, b float64) bool {
	if math.IsNaN(a) || math.IsNaN(b) {
		return math.IsNaN(a) && math.IsNaN(b)
	}
	if a == b { // also equal infinities
		return true
	}
	if math.IsInf(a, 0) || math.IsInf(b, 0) {
		return false
	}
	// 1e-9 relative; plus 1e-6 absolute because results that are exactly 0 in one summation order
	// (e.g. stddev of equal values) come out as ~1e-16..1e-8 in another. Sample values are multiples
	// of 1/32 and rates multiples of 1/30, so a mis-sharded result is off by far more than that.
	d := math.Abs(a - b)
	return d <= 1e-9*math.Max(math.Abs(a), math.Abs(b)) || d <= 1e-6
}

// diffAnswers returns "" when both answers hold the same series with the same points.
func diffAnswers(want, got answer) string {
	if len(got.dup) > 0 {
		return fmt.Sprintf("merged answer holds label set %s more than once", got.dup[0])
	}
	keys := map[string]bool{}
	for k := range want.series {
		keys[k] = true
	}
	for k := range got.series {
		keys[k] = true
	}
	sorted := make([]string, 0, len(keys))
	for k := range keys {
		sorted = append(sorted, k)
	}
	sort.Strings(sorted)
	for _, k := range sorted {
		w, okW := want.series[k]
		g, okG := got.series[k]
		switch {
		case !okG:
			return fmt.Sprintf("series %s %v is in the unsharded answer but not in the sharded one", k, renderPoints(w))
		case !okW:
			return fmt.Sprintf("series %s %v is in the sharded answer but not in the unsharded one", k, renderPoints(g))
		}
		if len(w) != len(g) {
			return fmt.Sprintf("series %s: unsharded %v, sharded %v", k, renderPoints(w), renderPoints(g))
		}
		for i := range w {
			if w[i].t != g[i].t || !closeEnough(w[i].v, g[i].v) {
				return fmt.Sprintf("series %s: unsharded %v, sharded %v", k, renderPoints(w), renderPoints(g))
			}
		}
	}
	return ""
}

// diffSelected compares two answers of a root topk/bottomk: per aggregation group and timestamp the
// multiset of selected values must agree (which of several tied series is selected is up to the
// engine's input order and is not compared).
func diffSelected(want, got answer, groupOf func(labels.Labels) string) string {
	if len(got.dup) > 0 {
		return fmt.Sprintf("merged answer holds label set %s more than once", got.dup[0])
	}
	collect := func(a answer) map[string][]float64 {
		out := map[string][]float64{}
		for k, ps := range a.series {
			g := groupOf(a.lsets[k])
			for _, p := range ps {
				key := fmt.Sprintf("group{%s}@%d", g, p.t/1000)
				out[key] = append(out[key], p.v)
			}
		}
		for _, vs := range out {
			sort.Slice(vs, func(i, j int) bool {
				if math.IsNaN(vs[i]) || math.IsNaN(vs[j]) {
					return math.IsNaN(vs[i]) && !math.IsNaN(vs[j])
				}
				return vs[i] < vs[j]
			})
		}
		return out
	}
	w, g := collect(want), collect(got)
	keys := map[string]bool{}
	for k := range w {
		keys[k] = true
	}
	for k := range g {
		keys[k] = true
	}
	sorted := make([]string, 0, len(keys))
	for k := range keys {
		sorted = append(sorted, k)
	}
	sort.Strings(sorted)
	for _, k := range sorted {
		a, b := w[k], g[k]
		same := len(a) == len(b)
		for i := 0; same && i < len(a); i++ {
			same = closeEnough(a[i], b[i])
		}
		if !same {
			return fmt.Sprintf("%s: unsharded selects values %v, sharded %v", k, a, b)
		}
	}
	return ""
}

func renderPoints(ps []point) string {
	var sb strings.Builder
	sb.WriteString("[")
	for i, p := range ps {
		if i > 0 {
			sb.WriteString(" ")
		}
		fmt.Fprintf(&sb, "%d:%v", p.t/1000, p.v)
	}
	sb.WriteString("]")
	return sb.String()
}

// ---- limits for the sharding middleware ---------------------------------------------------------

// seqLimits makes queryrange.DoRequests use one worker, so that shard requests are evaluated and
// merged in shard order (deterministic; the verdict never depends on it for disjoint shard answers).
type seqLimits struct{}

func (seqLimits) MaxQueryLookback(string) time.Duration  { return 0 }
func (seqLimits) MaxQueryLength(string) time.Duration    { return 0 }
func (seqLimits) MaxQueryParallelism(string) int         { return 1 }
func (seqLimits) MaxCacheFreshness(string) time.Duration { return 0 }
