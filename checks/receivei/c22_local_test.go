package receive

// C22, local replica: the node's own endpoint is written through localAsyncWriter (a peer client
// that calls Writer.Write for every tenant of the batch). The fan-out counts a replica as successful
// for EVERY series id of a write when that client returns nil, so the client may only return nil when
// every tenant's series were really stored. This test drives the real localAsyncWriter + real Writer
// over a fake TenantStorage whose tenants succeed or fail in drawn ways, in drawn batch orders.
// Oracle: RemoteWrite returned nil  =>  every series of every tenant in the batch was appended and
// committed (recorded by the fake appenders).

import (
	"context"
	"errors"
	"fmt"
	"strings"
	"sync"
	"testing"

	"github.com/go-kit/log"
	"github.com/prometheus/prometheus/model/labels"
	"github.com/prometheus/prometheus/storage"
	"github.com/prometheus/prometheus/tsdb"
	"pgregory.net/rapid"

	"github.com/thanos-io/thanos/pkg/store/labelpb"
	"github.com/thanos-io/thanos/pkg/store/storepb"
	"github.com/thanos-io/thanos/pkg/store/storepb/prompb"
	"github.com/thanos-io/thanos/verifx/kit"
)

type c22lOutcome int

const (
	c22lOK c22lOutcome = iota
	c22lNoTenant        // TenantAppendable fails
	c22lNotReady        // Appender returns tsdb.ErrNotReady
	c22lAppenderErr     // Appender returns another error
	c22lCommitErr       // Commit fails
)

var c22lNames = []string{"ok", "tenant-unavailable", "tsdb-not-ready", "appender-error", "commit-error"}

type c22lStorage struct {
	mu        sync.Mutex
	outcome   map[string]c22lOutcome
	committed map[string]int // tenant -> number of samples committed
}

func (s *c22lStorage) TenantAppendable(tenant string) (Appendable, error) {
	if s.outcome[tenant] == c22lNoTenant {
		return nil, errors.New("injected: tenant storage unavailable")
	}
	return &c22lAppendable{s: s, tenant: tenant}, nil
}

type c22lAppendable struct {
	s      *c22lStorage
	tenant string
}

func (a *c22lAppendable) Appender(context.Context) (storage.Appender, error) {
	switch a.s.outcome[a.tenant] {
	case c22lNotReady:
		return nil, tsdb.ErrNotReady
	case c22lAppenderErr:
		return nil, errors.New("injected: appender error")
	}
	return &c22lAppender{s: a.s, tenant: a.tenant}, nil
}

type c22lAppender struct {
	storage.Appender // methods the Writer does not need for float samples are left unimplemented
	s       *c22lStorage
	tenant  string
	pending int
}

func (a *c22lAppender) Append(_ storage.SeriesRef, _ labels.Labels, _ int64, _ float64) (storage.SeriesRef, error) {
	a.pending++
	return 1, nil
}
func (a *c22lAppender) Commit() error {
	if a.s.outcome[a.tenant] == c22lCommitErr {
		return errors.New("injected: commit failed")
	}
	a.s.mu.Lock()
	a.s.committed[a.tenant] += a.pending
	a.s.mu.Unlock()
	a.pending = 0
	return nil
}
func (a *c22lAppender) Rollback() error { a.pending = 0; return nil }
func (a *c22lAppender) GetRef(labels.Labels, uint64) (storage.SeriesRef, labels.Labels) {
	return 0, labels.EmptyLabels()
}
type c22lTenant struct {
	name    string
	outcome c22lOutcome
	series  int
}

func c22lRun(batch []c22lTenant) (string, bool) {
	st := &c22lStorage{outcome: map[string]c22lOutcome{}, committed: map[string]int{}}
	req := &storepb.WriteRequest{Replica: 1}
	for _, tn := range batch {
		st.outcome[tn.name] = tn.outcome
		var tss []prompb.TimeSeries
		for i := 0; i < tn.series; i++ {
			tss = append(tss, prompb.TimeSeries{
				Labels:  labelpb.ZLabelsFromPromLabels(labels.FromStrings("__name__", "m", "i", fmt.Sprint(i), "tenant", tn.name)),
				Samples: []prompb.Sample{{Timestamp: int64(1000 + i), Value: float64(i)}},
			})
		}
		req.TimeseriesTenantData = append(req.TimeseriesTenantData, storepb.TimeSeriesTenantTuple{Tenant: tn.name, Timeseries: tss})
	}
	lw := &localAsyncWriter{w: NewWriter(log.NewNopLogger(), st, &WriterOptions{})}
	_, err := lw.RemoteWrite(context.Background(), req)
	if err != nil {
		return "", false
	}
	for _, tn := range batch {
		if got := st.committed[tn.name]; got != tn.series {
			return fmt.Sprintf("the local write was reported successful but tenant %q (%s) has %d of its %d series stored", tn.name, c22lNames[tn.outcome], got, tn.series), true
		}
	}
	return "", true
}

func c22lRender(batch []c22lTenant) string {
	var parts []string
	for _, tn := range batch {
		parts = append(parts, fmt.Sprintf("%s:%s:%d", tn.name, c22lNames[tn.outcome], tn.series))
	}
	return strings.Join(parts, " ")
}

func TestVerifC22_LocalWriter(t *testing.T) {
	rec := kit.For(t, "C22")
	// saved input: a failing tenant followed by a succeeding one in the same batch
	fixed := []c22lTenant{{"tenant-x", c22lNotReady, 1}, {"tenant-y", c22lOK, 1}}
	if msg, _ := c22lRun(fixed); msg != "" {
		rec.Violation(t, "%s | batch: %s", msg, c22lRender(fixed))
	}
	rec.Check(t, func(rt *rapid.T) {
		n := rapid.IntRange(1, 4).Draw(rt, "tenants")
		var batch []c22lTenant
		for i := 0; i < n; i++ {
			batch = append(batch, c22lTenant{
				name:    fmt.Sprintf("t%d", i),
				outcome: c22lOutcome(rapid.SampledFrom([]int{0, 0, 0, 1, 2, 3, 4}).Draw(rt, "outcome")),
				series:  rapid.IntRange(1, 3).Draw(rt, "series"),
			})
		}
		msg, acked := c22lRun(batch)
		if msg != "" {
			rt.Fatalf("C22 violated (local replica): %s\nbatch: %s", msg, c22lRender(batch))
		}
		failing, okAfterFail, seenFail := 0, false, false
		for _, tn := range batch {
			if tn.outcome != c22lOK {
				failing++
				seenFail = true
			} else if seenFail {
				okAfterFail = true
			}
		}
		cls := []string{"local-writer", fmt.Sprintf("local-tenants-%d", n)}
		if acked {
			cls = append(cls, "local-ack")
		}
		if okAfterFail {
			cls = append(cls, "local-ok-tenant-after-failing-tenant")
		}
		rec.Case("local "+c22lRender(batch), n >= 2 && failing >= 1, cls...)
	})
}
