package receive

// C26 Remote-write v2 requests are translated faithfully and safely.
//
// Generator: writev2.Request with a drawn symbol table (usually starting with "", duplicates allowed,
// UTF-8 strings) and series whose label / exemplar-label references are valid indices or - with drawn
// probability - out of range, plus samples, native histograms (int and float flavours, spans, deltas,
// counts, custom values, reset hints) and exemplars with any float bits.
// Oracle, valid references: (a) translateV2ToV1(req) and (b) what a real Handler hands to its peers after
// a POST with the v2 headers both equal an independent expansion of the symbol table (labels, samples,
// exemplars, every histogram field; floats compared bitwise). Nothing lost, nothing invented.
// Oracle, reference outside the table: the POST returns (no panic escapes receiveHTTP) with a 4xx
// status and nothing is forwarded to any peer.

import (
	"context"
	"fmt"
	"math"
	"sort"
	"strings"
	"testing"

	"github.com/gogo/protobuf/proto"
	"github.com/golang/snappy"
	"pgregory.net/rapid"

	"github.com/thanos-io/thanos/pkg/store/labelpb"
	"github.com/thanos-io/thanos/pkg/store/storepb/prompb"
	writev2 "github.com/thanos-io/thanos/pkg/store/storepb/prompb/io/prometheus/write/v2"
	"github.com/thanos-io/thanos/verifx/kit"
)

// Known finding F11: translateV2ToV1 indexes w.Symbols with the references of the request without
// checking them: index-out-of-range panic inside receiveHTTP.
const sigC26Refs = "C26/unchecked-symbol-ref"

// ---------------------------------------------------------------------------------------------
// canonical renderings (written against the two schemas separately)

func c26F(f float64) string { return fmt.Sprintf("%016x", math.Float64bits(f)) }

func c26Floats(fs []float64) string {
	parts := make([]string, len(fs))
	for i, f := range fs {
		parts[i] = c26F(f)
	}
	return strings.Join(parts, ",")
}

func c26Ints(is []int64) string {
	parts := make([]string, len(is))
	for i, v := range is {
		parts[i] = fmt.Sprint(v)
	}
	return strings.Join(parts, ",")
}

// expansion of a v2 series through the symbol table; ok=false if a reference is outside the table or a
// reference list has odd length.
func c26ExpandRefs(symbols []string, refs []uint32) (string, bool) {
	if len(refs)%2 != 0 {
		return "", false
	}
	var sb strings.Builder
	for i := 0; i < len(refs); i += 2 {
		if uint64(refs[i]) >= uint64(len(symbols)) || uint64(refs[i+1]) >= uint64(len(symbols)) {
			return "", false
		}
		fmt.Fprintf(&sb, "%q=%q|", symbols[refs[i]], symbols[refs[i+1]])
	}
	return sb.String(), true
}

func c26ExpectSeries(symbols []string, ts *writev2.TimeSeries) (string, bool) {
	var sb strings.Builder
	ls, ok := c26ExpandRefs(symbols, ts.LabelsRefs)
	if !ok {
		return "", false
	}
	sb.WriteString("L[" + ls + "] S[")
	for _, s := range ts.Samples {
		fmt.Fprintf(&sb, "(%d,%s)", s.Timestamp, c26F(s.Value))
	}
	sb.WriteString("] E[")
	for _, e := range ts.Exemplars {
		els, ok := c26ExpandRefs(symbols, e.LabelsRefs)
		if !ok {
			return "", false
		}
		fmt.Fprintf(&sb, "{L[%s] %s %d}", els, c26F(e.Value), e.Timestamp)
	}
	sb.WriteString("] H[")
	for _, h := range ts.Histograms {
		cnt, zc := "nil", "nil"
		switch c := h.Count.(type) {
		case *writev2.Histogram_CountInt:
			cnt = fmt.Sprintf("i%d", c.CountInt)
		case *writev2.Histogram_CountFloat:
			cnt = "f" + c26F(c.CountFloat)
		}
		switch c := h.ZeroCount.(type) {
		case *writev2.Histogram_ZeroCountInt:
			zc = fmt.Sprintf("i%d", c.ZeroCountInt)
		case *writev2.Histogram_ZeroCountFloat:
			zc = "f" + c26F(c.ZeroCountFloat)
		}
		spans := func(ss []writev2.BucketSpan) string {
			var b strings.Builder
			for _, s := range ss {
				fmt.Fprintf(&b, "(%d,%d)", s.Offset, s.Length)
			}
			return b.String()
		}
		fmt.Fprintf(&sb, "{c=%s sum=%s sch=%d zt=%s zc=%s ns=%s nd=%s nc=%s ps=%s pd=%s pc=%s rh=%d t=%d cv=%s}",
			cnt, c26F(h.Sum), h.Schema, c26F(h.ZeroThreshold), zc, spans(h.NegativeSpans), c26Ints(h.NegativeDeltas), c26Floats(h.NegativeCounts),
			spans(h.PositiveSpans), c26Ints(h.PositiveDeltas), c26Floats(h.PositiveCounts), int32(h.ResetHint), h.Timestamp, c26Floats(h.CustomValues))
	}
	sb.WriteString("]")
	return sb.String(), true
}

func c26RenderLabels(ls []labelpb.ZLabel) string {
	var sb strings.Builder
	for _, l := range ls {
		fmt.Fprintf(&sb, "%q=%q|", l.Name, l.Value)
	}
	return sb.String()
}

func c26RenderV1(ts *prompb.TimeSeries) string {
	var sb strings.Builder
	sb.WriteString("L[" + c26RenderLabels(ts.Labels) + "] S[")
	for _, s := range ts.Samples {
		fmt.Fprintf(&sb, "(%d,%s)", s.Timestamp, c26F(s.Value))
	}
	sb.WriteString("] E[")
	for _, e := range ts.Exemplars {
		fmt.Fprintf(&sb, "{L[%s] %s %d}", c26RenderLabels(e.Labels), c26F(e.Value), e.Timestamp)
	}
	sb.WriteString("] H[")
	for _, h := range ts.Histograms {
		cnt, zc := "nil", "nil"
		switch c := h.Count.(type) {
		case *prompb.Histogram_CountInt:
			cnt = fmt.Sprintf("i%d", c.CountInt)
		case *prompb.Histogram_CountFloat:
			cnt = "f" + c26F(c.CountFloat)
		}
		switch c := h.ZeroCount.(type) {
		case *prompb.Histogram_ZeroCountInt:
			zc = fmt.Sprintf("i%d", c.ZeroCountInt)
		case *prompb.Histogram_ZeroCountFloat:
			zc = "f" + c26F(c.ZeroCountFloat)
		}
		spans := func(ss []prompb.BucketSpan) string {
			var b strings.Builder
			for _, s := range ss {
				fmt.Fprintf(&b, "(%d,%d)", s.Offset, s.Length)
			}
			return b.String()
		}
		fmt.Fprintf(&sb, "{c=%s sum=%s sch=%d zt=%s zc=%s ns=%s nd=%s nc=%s ps=%s pd=%s pc=%s rh=%d t=%d cv=%s}",
			cnt, c26F(h.Sum), h.Schema, c26F(h.ZeroThreshold), zc, spans(h.NegativeSpans), c26Ints(h.NegativeDeltas), c26Floats(h.NegativeCounts),
			spans(h.PositiveSpans), c26Ints(h.PositiveDeltas), c26Floats(h.PositiveCounts), int32(h.ResetHint), h.Timestamp, c26Floats(h.CustomValues))
	}
	sb.WriteString("]")
	return sb.String()
}

// c26Expect expands the whole request: the expected series in order; valid=false if any reference is
// out of range; odd=true if some reference list has odd length (the statement is silent about those).
func c26Expect(req *writev2.Request) (want []string, outOfRange, odd bool) {
	check := func(refs []uint32) {
		if len(refs)%2 != 0 {
			odd = true
		}
		for _, r := range refs {
			if uint64(r) >= uint64(len(req.Symbols)) {
				outOfRange = true
			}
		}
	}
	for i := range req.Timeseries {
		check(req.Timeseries[i].LabelsRefs)
		for _, e := range req.Timeseries[i].Exemplars {
			check(e.LabelsRefs)
		}
	}
	if outOfRange || odd {
		return nil, outOfRange, odd
	}
	for i := range req.Timeseries {
		s, _ := c26ExpectSeries(req.Symbols, &req.Timeseries[i])
		want = append(want, s)
	}
	return want, false, false
}

// ---------------------------------------------------------------------------------------------
// through the handler

type c26Post struct {
	res       vfResult
	forwarded []string // rendered series handed to peer clients
	writes    int
}

// c26PostBody POSTs an (uncompressed) v2 protobuf body to a fresh router with nodes peers, RF 1; peers
// answer at once with success.
func c26PostBody(tb testing.TB, body []byte, nodes int, algo HashringAlgorithm) c26Post {
	hz := vfNewHarness(tb, vfConfig{rf: 1, nodes: nodes, algo: algo, mode: RouterOnly, workers: 8})
	hz.peers.mu.Lock()
	hz.peers.open = true
	hz.peers.mu.Unlock()
	done, res := vfRun(func() vfResult { return hz.httpV2(context.Background(), "t0", snappy.Encode(nil, body)) })
	<-done
	var out c26Post
	out.res = *res
	ds := hz.destsSnapshot()
	for _, d := range ds {
		<-d.done
	}
	hz.close()
	for _, d := range ds {
		out.writes++
		for _, tup := range d.payload {
			for i := range tup.Timeseries {
				out.forwarded = append(out.forwarded, c26RenderV1(&tup.Timeseries[i]))
			}
		}
	}
	return out
}

func c26SameMultiset(a, b []string) bool {
	if len(a) != len(b) {
		return false
	}
	x := append([]string(nil), a...)
	y := append([]string(nil), b...)
	sort.Strings(x)
	sort.Strings(y)
	for i := range x {
		if x[i] != y[i] {
			return false
		}
	}
	return true
}

// c26Check applies the oracle to one request; it returns the violation text or "".
func c26Check(tb testing.TB, req *writev2.Request, nodes int, algo HashringAlgorithm, skipOutOfRange bool) (msg string, classes []string, nontrivial bool) {
	want, outOfRange, odd := c26Expect(req)
	body, err := proto.Marshal(req)
	if err != nil {
		tb.Fatalf("harness: marshal: %v", err)
	}
	switch {
	case outOfRange:
		classes = append(classes, "ref-out-of-range")
		if skipOutOfRange {
			return "", classes, false
		}
		p := c26PostBody(tb, body, nodes, algo)
		if p.res.panicked != nil {
			return fmt.Sprintf("a request with a symbol reference outside the table crashed request handling: %v\n%s", p.res.panicked, p.res.stack), classes, true
		}
		if p.res.status/100 != 4 {
			return fmt.Sprintf("a request with a symbol reference outside the table got status %d, want a client error (4xx); body=%q", p.res.status, p.res.body), classes, true
		}
		if p.writes != 0 {
			return fmt.Sprintf("a request with a symbol reference outside the table was rejected with %d but %d write(s) (%d series) reached the peers", p.res.status, p.writes, len(p.forwarded)), classes, true
		}
		return "", classes, true
	case odd:
		// Not covered by the statement (no reference is outside the table): only "does not crash".
		classes = append(classes, "odd-length-refs")
		p := c26PostBody(tb, body, nodes, algo)
		if p.res.panicked != nil {
			return fmt.Sprintf("request handling panicked: %v\n%s", p.res.panicked, p.res.stack), classes, false
		}
		if s := p.res.status / 100; s != 2 && s != 4 {
			return fmt.Sprintf("status %d for a decodable request", p.res.status), classes, false
		}
		return "", classes, false
	}
	classes = append(classes, "refs-valid")
	// (a) the translation function
	var got []string
	func() {
		defer func() {
			if p := recover(); p != nil {
				msg = fmt.Sprintf("translateV2ToV1 panicked on a valid request: %v", p)
			}
		}()
		v1 := translateV2ToV1(*req)
		for i := range v1.Timeseries {
			got = append(got, c26RenderV1(&v1.Timeseries[i]))
		}
	}()
	if msg != "" {
		return msg, classes, false
	}
	if len(got) != len(want) {
		return fmt.Sprintf("translateV2ToV1 returned %d series for %d", len(got), len(want)), classes, false
	}
	for i := range want {
		if got[i] != want[i] {
			return fmt.Sprintf("translateV2ToV1 series %d differs from the expansion of the symbol table\n got: %s\nwant: %s", i, got[i], want[i]), classes, false
		}
	}
	// (b) through the handler, as ingested by the peers. The expectation is taken from the request as it
	// is on the wire (the test's own gogo marshaller is not neutral: it drops -0.0 like a proto3 zero).
	var wire writev2.Request
	if err := proto.Unmarshal(append([]byte(nil), body...), &wire); err != nil {
		tb.Fatalf("harness: unmarshal of own body: %v", err)
	}
	want, _, _ = c26Expect(&wire)
	p := c26PostBody(tb, body, nodes, algo)
	if p.res.panicked != nil {
		return fmt.Sprintf("request handling panicked on a valid request: %v\n%s", p.res.panicked, p.res.stack), classes, false
	}
	if p.res.status/100 != 2 {
		return fmt.Sprintf("valid request got status %d body=%q", p.res.status, p.res.body), classes, false
	}
	if !c26SameMultiset(p.forwarded, want) {
		return fmt.Sprintf("the series handed to the peers differ from the request\n got: %s\nwant: %s", strings.Join(p.forwarded, "\n      "), strings.Join(want, "\n      ")), classes, false
	}
	histEx, hasH, hasE := false, false, false
	for i := range req.Timeseries {
		if len(req.Timeseries[i].Histograms) > 0 && len(req.Timeseries[i].Exemplars) > 0 {
			histEx = true
		}
		hasH = hasH || len(req.Timeseries[i].Histograms) > 0
		hasE = hasE || len(req.Timeseries[i].Exemplars) > 0
	}
	if hasH {
		classes = append(classes, "has-histogram")
	}
	if hasE {
		classes = append(classes, "has-exemplar")
	}
	if len(req.Timeseries) == 0 {
		classes = append(classes, "no-series")
	}
	if len(req.Symbols) == 0 || req.Symbols[0] != "" {
		classes = append(classes, "first-symbol-not-empty")
	}
	return "", classes, histEx
}

// ---------------------------------------------------------------------------------------------
// generator

var c26Strings = []string{"", "__name__", "a", "b", "job", "instance", "le", "x:y", "é", "trace_id", "0", "a=b", "\"q\"", "m", "up", "日本"}

func c26GenFloat(rt *rapid.T, label string) float64 {
	switch rapid.IntRange(0, 5).Draw(rt, label+"k") {
	case 0:
		return float64(rapid.IntRange(-5, 100).Draw(rt, label+"i"))
	case 1:
		return math.Float64frombits(rapid.Uint64().Draw(rt, label+"bits")) // NaN payloads, denormals, infinities
	case 2:
		return math.NaN()
	case 3:
		return math.Float64frombits(0x7ff0000000000002) // stale marker
	default:
		return rapid.Float64().Draw(rt, label+"f")
	}
}

func c26GenRefs(rt *rapid.T, label string, nsym int, pairs int, bad *bool, allowBad bool) []uint32 {
	var refs []uint32
	for i := 0; i < 2*pairs; i++ {
		if allowBad && rapid.IntRange(0, 9).Draw(rt, label+"bad") == 0 {
			*bad = true
			refs = append(refs, rapid.SampledFrom([]uint32{uint32(nsym), uint32(nsym) + 1, uint32(nsym) + 7, 1 << 20, math.MaxUint32}).Draw(rt, label+"oor"))
			continue
		}
		if nsym == 0 {
			if allowBad {
				*bad = true
				refs = append(refs, 0)
			}
			continue
		}
		refs = append(refs, uint32(rapid.IntRange(0, nsym-1).Draw(rt, label+"ref")))
	}
	if len(refs)%2 == 1 {
		refs = refs[:len(refs)-1]
	}
	return refs
}

func c26GenSpans(rt *rapid.T, label string) []writev2.BucketSpan {
	n := rapid.IntRange(0, 3).Draw(rt, label+"n")
	var out []writev2.BucketSpan
	for i := 0; i < n; i++ {
		out = append(out, writev2.BucketSpan{Offset: int32(rapid.IntRange(-10, 10).Draw(rt, label+"o")), Length: uint32(rapid.IntRange(0, 5).Draw(rt, label+"l"))})
	}
	return out
}

func c26GenHistogram(rt *rapid.T) writev2.Histogram {
	h := writev2.Histogram{
		Sum:           c26GenFloat(rt, "sum"),
		Schema:        int32(rapid.SampledFrom([]int{-53, -4, -1, 0, 1, 3, 8}).Draw(rt, "schema")),
		ZeroThreshold: c26GenFloat(rt, "zt"),
		NegativeSpans: c26GenSpans(rt, "ns"),
		PositiveSpans: c26GenSpans(rt, "ps"),
		ResetHint:     writev2.Histogram_ResetHint(rapid.IntRange(0, 3).Draw(rt, "rh")),
		Timestamp:     rapid.Int64Range(-5, 1_700_000_000_000).Draw(rt, "ht"),
	}
	float := rapid.Bool().Draw(rt, "floatHist")
	switch rapid.IntRange(0, 4).Draw(rt, "countKind") {
	case 0: // unset oneof
	default:
		if float {
			h.Count = &writev2.Histogram_CountFloat{CountFloat: c26GenFloat(rt, "cf")}
			h.ZeroCount = &writev2.Histogram_ZeroCountFloat{ZeroCountFloat: c26GenFloat(rt, "zcf")}
		} else {
			h.Count = &writev2.Histogram_CountInt{CountInt: rapid.Uint64().Draw(rt, "ci")}
			h.ZeroCount = &writev2.Histogram_ZeroCountInt{ZeroCountInt: rapid.Uint64Range(0, 9).Draw(rt, "zci")}
		}
	}
	nb := rapid.IntRange(0, 4).Draw(rt, "buckets")
	for i := 0; i < nb; i++ {
		if float {
			h.NegativeCounts = append(h.NegativeCounts, c26GenFloat(rt, "nc"))
			h.PositiveCounts = append(h.PositiveCounts, c26GenFloat(rt, "pc"))
		} else {
			h.NegativeDeltas = append(h.NegativeDeltas, rapid.Int64Range(-9, 9).Draw(rt, "nd"))
			h.PositiveDeltas = append(h.PositiveDeltas, rapid.Int64().Draw(rt, "pd"))
		}
	}
	if h.Schema == -53 {
		for i := 0; i < rapid.IntRange(0, 3).Draw(rt, "cvn"); i++ {
			h.CustomValues = append(h.CustomValues, c26GenFloat(rt, "cv"))
		}
	}
	return h
}

func c26Gen(rt *rapid.T, allowBad bool) (*writev2.Request, bool) {
	req := &writev2.Request{}
	nsym := rapid.IntRange(0, 12).Draw(rt, "symbols")
	for i := 0; i < nsym; i++ {
		if i == 0 && rapid.IntRange(0, 9).Draw(rt, "firstEmpty") > 0 {
			req.Symbols = append(req.Symbols, "")
			continue
		}
		if rapid.IntRange(0, 5).Draw(rt, "symKind") == 0 {
			req.Symbols = append(req.Symbols, rapid.StringN(0, 6, -1).Draw(rt, "symFree"))
		} else {
			req.Symbols = append(req.Symbols, rapid.SampledFrom(c26Strings).Draw(rt, "sym"))
		}
	}
	bad := false
	nser := rapid.IntRange(0, 5).Draw(rt, "series")
	for s := 0; s < nser; s++ {
		ts := writev2.TimeSeries{LabelsRefs: c26GenRefs(rt, "l", nsym, rapid.IntRange(0, 4).Draw(rt, "labels"), &bad, allowBad)}
		for i := 0; i < rapid.IntRange(0, 3).Draw(rt, "samples"); i++ {
			ts.Samples = append(ts.Samples, writev2.Sample{Timestamp: rapid.Int64Range(-5, 1_700_000_000_000).Draw(rt, "t"), Value: c26GenFloat(rt, "v"),
				StartTimestamp: rapid.Int64Range(0, 3).Draw(rt, "st")})
		}
		for i := 0; i < rapid.IntRange(0, 2).Draw(rt, "histograms"); i++ {
			ts.Histograms = append(ts.Histograms, c26GenHistogram(rt))
		}
		for i := 0; i < rapid.IntRange(0, 2).Draw(rt, "exemplars"); i++ {
			ts.Exemplars = append(ts.Exemplars, writev2.Exemplar{LabelsRefs: c26GenRefs(rt, "e", nsym, rapid.IntRange(0, 2).Draw(rt, "elabels"), &bad, allowBad),
				Value: c26GenFloat(rt, "ev"), Timestamp: rapid.Int64Range(-5, 1_700_000_000_000).Draw(rt, "et")})
		}
		if nsym > 0 {
			ts.Metadata = writev2.Metadata{Type: writev2.Metadata_MetricType(rapid.IntRange(0, 7).Draw(rt, "mt")),
				HelpRef: uint32(rapid.IntRange(0, nsym-1).Draw(rt, "help")), UnitRef: uint32(rapid.IntRange(0, nsym-1).Draw(rt, "unit"))}
		}
		if rapid.IntRange(0, 39).Draw(rt, "oddRefs") == 17 && nsym > 0 {
			ts.LabelsRefs = append(ts.LabelsRefs, 0) // odd length, every index valid
		}
		req.Timeseries = append(req.Timeseries, ts)
	}
	if allowBad && !bad {
		// the case was drawn as "has a reference outside the table": make sure it has one
		oor := uint32(nsym + rapid.IntRange(0, 3).Draw(rt, "forcedOor"))
		ts := writev2.TimeSeries{LabelsRefs: []uint32{oor, 0}, Samples: []writev2.Sample{{Timestamp: 1, Value: 1}}}
		if rapid.Bool().Draw(rt, "forcedInExemplar") && nsym >= 2 {
			ts = writev2.TimeSeries{LabelsRefs: []uint32{0, 1}, Exemplars: []writev2.Exemplar{{LabelsRefs: []uint32{1, oor}, Value: 1}}}
		}
		pos := rapid.IntRange(0, len(req.Timeseries)).Draw(rt, "forcedPos")
		req.Timeseries = append(req.Timeseries[:pos], append([]writev2.TimeSeries{ts}, req.Timeseries[pos:]...)...)
		bad = true
	}
	return req, bad
}

func c26Render(req *writev2.Request) string {
	var sb strings.Builder
	fmt.Fprintf(&sb, "symbols=%q series=[", req.Symbols)
	for i := range req.Timeseries {
		ts := &req.Timeseries[i]
		fmt.Fprintf(&sb, "{refs=%v samples=%d hist=%d ex=[", ts.LabelsRefs, len(ts.Samples), len(ts.Histograms))
		for _, e := range ts.Exemplars {
			fmt.Fprintf(&sb, "%v", e.LabelsRefs)
		}
		sb.WriteString("]} ")
	}
	sb.WriteString("]")
	return sb.String()
}

// ---------------------------------------------------------------------------------------------
// tests

func c26Regression() *writev2.Request {
	return &writev2.Request{Symbols: []string{"", "__name__", "up"},
		Timeseries: []writev2.TimeSeries{{LabelsRefs: []uint32{1, 7}, Samples: []writev2.Sample{{Timestamp: 1000, Value: 1}}}}}
}

func TestVerifC26(t *testing.T) {
	rec := kit.For(t, "C26")
	known := kit.KnownFindings("C26")
	{
		req := c26Regression()
		if msg, _, _ := c26Check(t, req, 1, AlgorithmHashmod, false); msg != "" {
			if known[sigC26Refs] {
				rec.Known(sigC26Refs, "3 symbols, label value reference 7: "+strings.SplitN(msg, "\n", 2)[0])
			} else {
				rec.Violation(t, "regression F11: %s\nrequest: %s", msg, c26Render(req))
			}
		}
		// exemplar reference out of range
		req2 := &writev2.Request{Symbols: []string{"", "__name__", "up"},
			Timeseries: []writev2.TimeSeries{{LabelsRefs: []uint32{1, 2}, Exemplars: []writev2.Exemplar{{LabelsRefs: []uint32{3, 0}, Value: 1, Timestamp: 5}}}}}
		if msg, _, _ := c26Check(t, req2, 1, AlgorithmHashmod, false); msg != "" {
			if known[sigC26Refs] {
				rec.Known(sigC26Refs, "3 symbols, exemplar label name reference 3: "+strings.SplitN(msg, "\n", 2)[0])
			} else {
				rec.Violation(t, "regression F11 (exemplar): %s\nrequest: %s", msg, c26Render(req2))
			}
		}
	}
	rec.Check(t, func(rt *rapid.T) {
		// one case in six carries a reference outside the table; while F11 is open that class is not generated
		outOfRange := rapid.IntRange(0, 5).Draw(rt, "withRefOutsideTable") == 3
		if outOfRange && known[sigC26Refs] {
			rec.Excluded(sigC26Refs)
			return
		}
		req, _ := c26Gen(rt, outOfRange)
		nodes := rapid.IntRange(1, 3).Draw(rt, "nodes")
		algo := rapid.SampledFrom([]HashringAlgorithm{AlgorithmHashmod, AlgorithmKetama}).Draw(rt, "algo")
		msg, classes, nt := c26Check(t, req, nodes, algo, known[sigC26Refs])
		if msg != "" {
			rt.Fatalf("C26 violated: %s\nrequest: %s", msg, c26Render(req))
		}
		rec.Case(c26Render(req), nt, classes...)
	})
}

// FuzzVerifC26Body: arbitrary bytes as the protobuf body of a v2 request (thorough tier, coverage guided).
// Anything that decodes is judged by the same oracle; anything else must be answered with 400.
func FuzzVerifC26Body(f *testing.F) {
	known := kit.KnownFindings("C26")
	for _, req := range []*writev2.Request{
		c26Regression(),
		{Symbols: []string{"", "__name__", "up", "a", "b"}, Timeseries: []writev2.TimeSeries{{LabelsRefs: []uint32{1, 2, 3, 4},
			Samples:    []writev2.Sample{{Timestamp: 1, Value: 2}},
			Histograms: []writev2.Histogram{{Count: &writev2.Histogram_CountInt{CountInt: 3}, Sum: 4, PositiveSpans: []writev2.BucketSpan{{Offset: 1, Length: 2}}, PositiveDeltas: []int64{1, 2}}},
			Exemplars:  []writev2.Exemplar{{LabelsRefs: []uint32{3, 4}, Value: 1, Timestamp: 2}}}}},
		{},
	} {
		b, err := proto.Marshal(req)
		if err != nil {
			f.Fatal(err)
		}
		f.Add(b)
	}
	f.Add([]byte{0x22, 0x00, 0x2a, 0x04, 0x0a, 0x02, 0x05, 0x05})
	f.Fuzz(func(t *testing.T, body []byte) {
		if len(body) > 1<<14 {
			return
		}
		var req writev2.Request
		if err := proto.Unmarshal(append([]byte(nil), body...), &req); err != nil {
			p := c26PostBody(t, body, 1, AlgorithmHashmod)
			if p.res.panicked != nil {
				t.Fatalf("C26 violated: undecodable body crashed request handling: %v\n%s", p.res.panicked, p.res.stack)
			}
			if p.res.status != 400 || p.writes != 0 {
				t.Fatalf("C26 violated: undecodable body got status %d, %d writes", p.res.status, p.writes)
			}
			return
		}
		// re-encode: the oracle works on the decoded request (unknown fields are dropped by both sides)
		if msg, _, _ := c26Check(t, &req, 1, AlgorithmHashmod, known[sigC26Refs]); msg != "" {
			t.Fatalf("C26 violated: %s\nrequest: %s", msg, c26Render(&req))
		}
	})
}
