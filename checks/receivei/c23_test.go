package receive

// C23 Failed replicated writes report retryable and permanent failures correctly.
//
// Same parked-response harness as C22, entered through receiveHTTP / receiveOTLPHTTP; the HTTP status
// on an httptest.ResponseRecorder is the observation.
// Oracle (pure arithmetic on the predetermined outcomes, independent of replicationErrors / writeErrors):
// per series s = #success, c = #conflict, u = #unavailable replicas (refused connections count as
// unavailable), q = write quorum, ft = RF - q + 1 (number of failures that make quorum impossible).
//   - no series below quorum        -> 2xx (503 would also satisfy the statement's letter; 409/500/4xx never)
//   - some series below quorum      -> never 2xx, never 500 (all failures are conflicts / unavailable)
//       409  only if some series has c >= ft                      (conflicts alone make quorum impossible)
//       no series with c >= ft                        -> 503      (retrying can still help)
//       every failed series has c >= ft               -> 409      (nothing left that a retry could fix)
//   - the status is the same for every arrival order of the replica responses.

import (
	"fmt"
	"sort"
	"strings"
	"sync"
	"testing"

	"pgregory.net/rapid"

	"github.com/thanos-io/thanos/pkg/store/storepb/prompb"
	"github.com/thanos-io/thanos/verifx/kit"
)

// Known finding F8: fanoutForward hands the write quorum to newReplicationErrors where
// replicationErrors.Cause needs the failure threshold. Wrong for every RF with quorum != RF-quorum+1.
const sigC23Threshold = "C23/replication-errors-threshold-is-quorum"

// c23Affected says whether a failed series with c conflicts and u unavailable replicas (out of rf) is in
// the class whose reported cause is computed with the wrong threshold AND comes out different:
//
//	quorum <  ft (RF=2):      the mixed failure c=1,u=1 (one conflict already "dominates" threshold 1)
//	quorum >  ft (RF=4,6,..): c >= ft (early return with ft < quorum conflicts: no dominating cause) or
//	                          fewer than quorum failures in total (cause nil -> 500)
func c23Affected(rf, c, u int) bool {
	q := vfQuorum(rf)
	ft := rf - q + 1
	if q == ft || c+u < ft {
		return false
	}
	if q < ft {
		return c >= 1 && u >= 1 && c < ft
	}
	return c >= ft || c+u < q
}

type c23Counts struct{ s, c, u int }

// c23PerSeries derives the per-series outcome counts from the recorded writes; replicas that were never
// written (connection refused) are unavailable.
func c23PerSeries(sc *c22Scenario, obs c22Obs) (map[vfSeriesKey]c23Counts, string) {
	out := map[vfSeriesKey]c23Counts{}
	for _, tup := range sc.data {
		for i := range tup.series {
			out[vfSeriesKey{tenant: tup.tenant, labels: vfLabelsString(tup.series[i].Labels)}] = c23Counts{}
		}
	}
	for _, d := range obs.dests {
		for _, k := range d.series {
			cnt, ok := out[k]
			if !ok {
				return nil, fmt.Sprintf("peer %s received a series that is not in the request: %v", d, k)
			}
			switch d.spec.kind {
			case vfOK:
				cnt.s++
			case vfConflict:
				cnt.c++
			default:
				cnt.u++
			}
			out[k] = cnt
		}
	}
	r := len(sc.replicas())
	for k, cnt := range out {
		if cnt.s+cnt.c+cnt.u > r {
			return nil, fmt.Sprintf("series %v was written %d times for %d replicas", k, cnt.s+cnt.c+cnt.u, r)
		}
		cnt.u = r - cnt.s - cnt.c
		out[k] = cnt
	}
	return out, ""
}

type c23Verdict struct {
	failed    int  // series below quorum
	permanent int  // failed series with c >= ft
	affected  bool // some failed series is in the F8 class
	mixed     bool // some failed series has both conflicts and unavailable replicas
	allowed   []int
}

func c23Expect(sc *c22Scenario, per map[vfSeriesKey]c23Counts) c23Verdict {
	r := len(sc.replicas())
	q := sc.threshold()
	ft := r - q + 1
	var v c23Verdict
	for _, cnt := range per {
		if cnt.s >= q {
			continue
		}
		v.failed++
		if cnt.c >= ft {
			v.permanent++
		}
		if cnt.c > 0 && cnt.u > 0 {
			v.mixed = true
		}
		if sc.rep == 0 && c23Affected(r, cnt.c, cnt.u) {
			v.affected = true
		}
	}
	switch {
	case v.failed == 0:
		v.allowed = []int{200, 503}
	case v.permanent == 0:
		v.allowed = []int{503}
	case v.permanent == v.failed:
		v.allowed = []int{409}
	default:
		v.allowed = []int{409, 503}
	}
	return v
}

func c23StatusOK(status int, allowed []int) bool {
	for _, a := range allowed {
		if status == a || (a == 200 && status/100 == 2) {
			return true
		}
	}
	return false
}

// c23Check returns the violation text ("" if none), the verdict and whether the case belongs to the
// known-finding class.
func c23Check(sc *c22Scenario, obs c22Obs) (string, c23Verdict) {
	if obs.res.panicked != nil {
		return fmt.Sprintf("request handling panicked: %v\n%s", obs.res.panicked, obs.res.stack), c23Verdict{}
	}
	per, bad := c23PerSeries(sc, obs)
	if bad != "" {
		return bad, c23Verdict{}
	}
	v := c23Expect(sc, per)
	if !c23StatusOK(obs.res.status, v.allowed) {
		return fmt.Sprintf("status %d, allowed %v (series below quorum: %d, of which conflicts alone make quorum impossible: %d; per series s/c/u: %s) body=%q",
			obs.res.status, v.allowed, v.failed, v.permanent, c23RenderPer(per), strings.TrimSpace(obs.res.body)), v
	}
	return "", v
}

func c23RenderPer(per map[vfSeriesKey]c23Counts) string {
	var parts []string
	for k, c := range per {
		parts = append(parts, fmt.Sprintf("%s/%s=%d/%d/%d", k.tenant, k.labels, c.s, c.c, c.u))
	}
	sort.Strings(parts)
	return strings.Join(parts, " ")
}

func c23Classes(sc *c22Scenario, obs c22Obs, v c23Verdict) ([]string, bool) {
	rf := int(sc.cfg.rf)
	q := vfQuorum(rf)
	classes := []string{fmt.Sprintf("rf-%d", rf), "entry-" + c22EntryNames[sc.entry], fmt.Sprintf("status-%d", obs.res.status)}
	if sc.rep > 0 {
		classes = append(classes, "already-replicated")
	}
	if obs.refused > 0 {
		classes = append(classes, "node-refuses-connection")
	}
	if v.failed > 0 {
		classes = append(classes, "failed")
		if v.permanent > 0 && v.permanent < v.failed {
			classes = append(classes, "permanent-and-retryable-series-mixed")
		}
		if v.mixed {
			classes = append(classes, "conflict-and-unavailable-in-one-series")
		}
		if obs.doneAfter < len(obs.order) {
			classes = append(classes, "answered-before-all-responses")
		}
	}
	evenRF := q != rf-q+1
	if evenRF {
		classes = append(classes, "quorum-differs-from-failure-threshold")
	}
	return classes, v.failed > 0 && (evenRF && sc.rep == 0 || v.mixed)
}

// c23Single builds the one-series scenario for rf whose replica outcomes, in canonical destination order,
// are kinds; flv selects the error flavors, connDown turns "unavailable" into refused connections.
func c23Single(t testing.TB, rf int, algo HashringAlgorithm, entry int, kinds []vfKind, flv int, connDown bool, keys []string) *c22Scenario {
	cfg := vfConfig{rf: uint64(rf), nodes: rf, algo: algo, mode: RouterOnly}
	sc := &c22Scenario{cfg: cfg, entry: entry, matrix: map[string]vfSpec{}, down: map[string]bool{}}
	sc.data = []vfTuple{{tenant: "t0", series: []prompb.TimeSeries{vfSeries("up", "a", "1")}}}
	if entry == c22EntryOTLP {
		c23OTLPOnce.Do(func() {
			hz := vfNewHarness(t, cfg)
			c23OTLPBody, c23OTLPSeries = vfOTLP(t, hz.h, []string{"up"}, "1")
			hz.close()
		})
		sc.otlpBody, sc.data[0].series = c23OTLPBody, c23OTLPSeries
	}
	for i, k := range keys {
		sc.matrix[k] = vfSpec{kind: kinds[i], flavor: flv + i}
		if connDown && kinds[i] == vfUnavail {
			sc.down[k[:strings.IndexByte(k, '#')]] = true
		}
	}
	return sc
}

// the OTLP form of the single-series request (a constant; converted once)
var (
	c23OTLPOnce   sync.Once
	c23OTLPBody   []byte
	c23OTLPSeries []prompb.TimeSeries
)

// c23Keys returns the canonical destination keys of the single-series request (probe run, all success).
func c23Keys(t testing.TB, rf int, algo HashringAlgorithm, entry int) []string {
	sc := c23Single(t, rf, algo, entry, nil, 0, false, nil)
	probe := c22Exec(t, sc, c22Identity)
	var keys []string
	for _, d := range probe.dests {
		keys = append(keys, c22Key(d.er.endpoint.Address, d.er.replica))
	}
	if len(keys) != rf {
		t.Fatalf("harness: %d destinations for rf=%d", len(keys), rf)
	}
	return keys
}

func c23KindsString(kinds []vfKind) string {
	var sb strings.Builder
	for _, k := range kinds {
		sb.WriteString(k.String())
		sb.WriteByte(' ')
	}
	return strings.TrimSpace(sb.String())
}

// c23Sequences enumerates all sequences of length n over the three outcome kinds.
func c23Sequences(n int) [][]vfKind {
	kinds := []vfKind{vfOK, vfConflict, vfUnavail}
	out := [][]vfKind{{}}
	for i := 0; i < n; i++ {
		var next [][]vfKind
		for _, p := range out {
			for _, k := range kinds {
				next = append(next, append(append([]vfKind(nil), p...), k))
			}
		}
		out = next
	}
	return out
}

func c23Multiset(kinds []vfKind) (s, c, u int) {
	for _, k := range kinds {
		switch k {
		case vfOK:
			s++
		case vfConflict:
			c++
		default:
			u++
		}
	}
	return
}

// orderFor returns the permutation of the parked destinations that makes the responses arrive as the
// sequence arrival says: arrival[i] is the index (into keys) of the i-th destination to answer;
// destinations that refuse connections are not parked and are skipped.
func c23OrderFor(keys []string, arrival []int) func(ds []*vfDest) []int {
	return func(ds []*vfDest) []int {
		pos := map[string]int{}
		for i, d := range ds {
			pos[c22Key(d.er.endpoint.Address, d.er.replica)] = i
		}
		var p []int
		for _, a := range arrival {
			if i, ok := pos[keys[a]]; ok {
				p = append(p, i)
			}
		}
		return p
	}
}

func TestVerifC23(t *testing.T) {
	rec := kit.For(t, "C23")
	known := kit.KnownFindings("C23")

	type regression struct {
		rf    int
		kinds []vfKind
		what  string
	}
	for _, rg := range []regression{
		{4, []vfKind{vfConflict, vfConflict, vfOK, vfOK}, "RF=4 [conflict,conflict,ok,ok] must be 409"},
		{4, []vfKind{vfConflict, vfUnavail, vfOK, vfOK}, "RF=4 [conflict,unavailable,ok,ok] must be 503"},
		{2, []vfKind{vfConflict, vfUnavail}, "RF=2 [conflict,unavailable] must be 503"},
		{6, []vfKind{vfConflict, vfConflict, vfConflict, vfOK, vfOK, vfOK}, "RF=6 [3x conflict, 3x ok] must be 409"},
	} {
		keys := c23Keys(t, rg.rf, AlgorithmHashmod, c22EntryHTTP)
		sc := c23Single(t, rg.rf, AlgorithmHashmod, c22EntryHTTP, rg.kinds, 0, false, keys)
		arrival := vfPermutations(rg.rf)[0]
		obs := c22Exec(t, sc, c23OrderFor(keys, arrival))
		if msg, _ := c23Check(sc, obs); msg != "" {
			if known[sigC23Threshold] {
				rec.Known(sigC23Threshold, rg.what+": "+msg)
			} else {
				rec.Violation(t, "regression F8 %s: %s", rg.what, msg)
			}
		}
	}

	// Exhaustive part: one series, RF 1..6, every assignment of {ok, conflict, unavailable} to the
	// replicas, every arrival order (RF <= 4: all RF! orders of every assignment; RF 5, 6: the sorted
	// assignment of every multiset in every distinct arrival sequence).
	complete := true
	run := 0
	for rf := 1; rf <= 6; rf++ {
		algo := AlgorithmKetama
		if rf%2 == 0 {
			algo = AlgorithmHashmod
		}
		for pass := 0; pass < 2; pass++ {
			entry := c22EntryHTTP
			if pass == 1 && rf%3 != 0 {
				entry = c22EntryOTLP
			}
			keys := c23Keys(t, rf, algo, entry)
			statusOf := map[[3]int]int{}
			orderOf := map[[3]int]string{}
			exec := func(kinds []vfKind, arrival []int) {
				run++
				flv, connDown := 0, false
				if pass == 1 {
					flv, connDown = run%7+1, run%3 == 0
				}
				s, c, u := c23Multiset(kinds)
				if known[sigC23Threshold] && s < vfQuorum(rf) && c23Affected(rf, c, u) {
					rec.Excluded(sigC23Threshold)
					return
				}
				sc := c23Single(t, rf, algo, entry, kinds, flv, connDown, keys)
				obs := c22Exec(t, sc, c23OrderFor(keys, arrival))
				msg, v := c23Check(sc, obs)
				if msg != "" {
					rec.Violation(t, "C23 violated: %s\nrf=%d outcomes per replica [%s] arrival order: %s (%s)", msg, rf, c23KindsString(kinds), obs.orderString(), sc.render())
				}
				ms := [3]int{s, c, u}
				if prev, ok := statusOf[ms]; ok && prev != obs.res.status {
					rec.Violation(t, "C23 violated: the status depends on the arrival order: rf=%d outcomes {ok:%d conflict:%d unavailable:%d}: %d for [%s], %d for [%s]",
						rf, s, c, u, prev, orderOf[ms], obs.res.status, obs.orderString())
				}
				statusOf[ms], orderOf[ms] = obs.res.status, obs.orderString()
				classes, nt := c23Classes(sc, obs, v)
				rec.Case(fmt.Sprintf("single rf=%d [%s] arrival=%v entry=%s flv=%d down=%v", rf, c23KindsString(kinds), arrival, c22EntryNames[entry], flv, connDown), nt, append(classes, "exhaustive-single-series")...)
			}
			if rf <= 4 {
				for _, kinds := range c23Sequences(rf) {
					for _, arrival := range vfPermutations(rf) {
						exec(kinds, arrival)
					}
				}
				continue
			}
			// sorted assignment per multiset; distinct arrival sequences
			for _, seq := range c23Sequences(rf) {
				s, c, u := c23Multiset(seq)
				var kinds []vfKind
				for i := 0; i < s; i++ {
					kinds = append(kinds, vfOK)
				}
				for i := 0; i < c; i++ {
					kinds = append(kinds, vfConflict)
				}
				for i := 0; i < u; i++ {
					kinds = append(kinds, vfUnavail)
				}
				next := map[vfKind]int{vfOK: 0, vfConflict: s, vfUnavail: s + c}
				arrival := make([]int, 0, rf)
				for _, k := range seq {
					arrival = append(arrival, next[k])
					next[k]++
				}
				exec(kinds, arrival)
			}
		}
	}
	rec.Exhaustive(complete)
}

// TestVerifC23_Multi: generated multi-series requests (series share nodes, so their outcome vectors are
// correlated), two arrival orders per scenario.
func TestVerifC23_Multi(t *testing.T) {
	rec := kit.For(t, "C23")
	known := kit.KnownFindings("C23")
	rec.Check(t, func(rt *rapid.T) {
		sc := &c22Scenario{matrix: map[string]vfSpec{}, down: map[string]bool{}}
		sc.cfg.rf = uint64(rapid.IntRange(1, 6).Draw(rt, "rf"))
		sc.cfg.nodes = rapid.IntRange(int(sc.cfg.rf), 7).Draw(rt, "nodes")
		sc.cfg.algo = rapid.SampledFrom([]HashringAlgorithm{AlgorithmKetama, AlgorithmHashmod}).Draw(rt, "algo")
		sc.cfg.mode = rapid.SampledFrom([]ReceiverMode{RouterOnly, RouterOnly, RouterIngestor}).Draw(rt, "mode")
		sc.entry = rapid.SampledFrom([]int{c22EntryHTTP, c22EntryHTTP, c22EntryOTLP}).Draw(rt, "entry")
		if sc.cfg.mode == RouterIngestor && rapid.IntRange(0, 2).Draw(rt, "replicated") == 0 {
			sc.rep = uint64(rapid.IntRange(1, int(sc.cfg.rf)).Draw(rt, "rep"))
		}
		n := rapid.IntRange(1, 6).Draw(rt, "series")
		if sc.entry == c22EntryOTLP {
			names := make([]string, n)
			for i := range names {
				names[i] = fmt.Sprintf("g%d", i)
			}
			hz := vfNewHarness(t, sc.cfg)
			body, series := vfOTLP(t, hz.h, names, fmt.Sprint(rapid.IntRange(0, 40).Draw(rt, "attr")))
			hz.close()
			sc.otlpBody = body
			sc.data = []vfTuple{{tenant: "t0", series: series}}
		} else {
			sc.data = []vfTuple{{tenant: "t0", series: c22GenSeries(rt, n, "s")}}
		}
		mix := rapid.SampledFrom([][]vfKind{
			{vfOK, vfOK, vfOK, vfConflict, vfUnavail},
			{vfOK, vfConflict, vfUnavail},
			{vfOK, vfConflict, vfConflict, vfUnavail},
			{vfOK, vfOK, vfUnavail, vfUnavail, vfConflict},
		}).Draw(rt, "mix")
		for _, ep := range vfEndpoints(sc.cfg.nodes) {
			sc.down[ep.Address] = rapid.IntRange(0, 11).Draw(rt, "down") == 0
			for r := uint64(0); r < sc.cfg.rf; r++ {
				sc.matrix[c22Key(ep.Address, r)] = c22GenKind(rt, "out", mix)
			}
		}

		a := c22Exec(t, sc, c22DrawPerm(rt, "orderA"))
		msgA, v := c23Check(sc, a)
		if known[sigC23Threshold] && v.affected {
			rec.Excluded(sigC23Threshold)
			return
		}
		if msgA != "" {
			rt.Fatalf("C23 violated: %s\nscenario: %s\narrival order: %s", msgA, sc.render(), a.orderString())
		}
		b := c22Exec(t, sc, c22DrawPerm(rt, "orderB"))
		if msgB, _ := c23Check(sc, b); msgB != "" {
			rt.Fatalf("C23 violated: %s\nscenario: %s\narrival order: %s", msgB, sc.render(), b.orderString())
		}
		if a.res.status != b.res.status {
			rt.Fatalf("C23 violated: the status depends on the arrival order of the replica responses\nscenario: %s\norder A: %s => %d\norder B: %s => %d",
				sc.render(), a.orderString(), a.res.status, b.orderString(), b.res.status)
		}
		classes, nt := c23Classes(sc, a, v)
		rec.Case(sc.render()+" | "+a.orderString(), nt, append(classes, "multi-series")...)
	})
}
