package receive

// Shared harness of the receivei checks (C22, C23, C24, C26): one real Handler whose peers container
// is replaced by fake peers that PARK their responses.
//
//   - the Handler, the hashring (ketama / hashmod), the per-peer worker (peerWorker + worker pool) and the
//     whole response path (responses channel, completion callback) are the production code;
//   - only the innermost peerClient (the thing that would be a gRPC / cap'n proto / local TSDB client) is a
//     fake: its RemoteWrite records the series it was handed, blocks until the check releases it and then
//     returns the outcome that was fixed before the request started;
//   - the check releases destinations one at a time and waits for the completion callback of each before
//     it releases the next one. The responses channel is FIFO, so the order in which fanoutForward sees
//     the replica responses is owned by the check and not by the Go scheduler.
//
// Nothing here uses the wall clock to decide anything; every wait is on an event. All goroutines are
// stopped in vfHarness.close (pkg/receive has a goleak TestMain).

import (
	"bytes"
	"context"
	"fmt"
	"net/http"
	"net/http/httptest"
	"runtime"
	"sort"
	"strings"
	"sync"
	"sync/atomic"
	"testing"
	"time"

	"github.com/go-kit/log"
	"github.com/gogo/protobuf/proto"
	"github.com/golang/snappy"
	"github.com/pkg/errors"
	"github.com/prometheus/client_golang/prometheus"
	"github.com/prometheus/prometheus/storage"
	"github.com/prometheus/prometheus/tsdb"
	"go.opentelemetry.io/collector/pdata/pcommon"
	"go.opentelemetry.io/collector/pdata/pmetric"
	"go.opentelemetry.io/collector/pdata/pmetric/pmetricotlp"
	"google.golang.org/grpc"
	"google.golang.org/grpc/codes"
	"google.golang.org/grpc/status"

	"github.com/thanos-io/thanos/pkg/store/labelpb"
	"github.com/thanos-io/thanos/pkg/store/storepb"
	"github.com/thanos-io/thanos/pkg/store/storepb/prompb"
	writev2 "github.com/thanos-io/thanos/pkg/store/storepb/prompb/io/prometheus/write/v2"
)

// ---------------------------------------------------------------------------------------------
// outcomes

type vfKind int

const (
	vfOK vfKind = iota
	vfConflict
	vfUnavail
	vfOther
)

func (k vfKind) String() string {
	switch k {
	case vfOK:
		return "ok"
	case vfConflict:
		return "c"
	case vfUnavail:
		return "u"
	default:
		return "x"
	}
}

// vfSpec is the predetermined outcome of one (node, replica) write. flavor selects how the outcome
// materialises; every flavor is an error shape a production peer client can return.
type vfSpec struct {
	kind   vfKind
	flavor int
}

const (
	vfConflictFlavors = 3
	vfUnavailFlavors  = 2 // + connection level (node down), which is a property of the node
	vfOtherFlavors    = 6
)

func (s vfSpec) String() string { return fmt.Sprintf("%s%d", s.kind, s.flavor) }

// err is what the innermost peer client returns from RemoteWrite.
func (s vfSpec) err() error {
	switch s.kind {
	case vfOK:
		return nil
	case vfConflict:
		switch s.flavor % vfConflictFlavors {
		case 0: // remote receiver answered AlreadyExists (Handler.RemoteWrite maps errConflict to it)
			return status.Error(codes.AlreadyExists, "conflict")
		case 1: // local TSDB write: localAsyncWriter wraps Writer.Write's *writeErrors
			we := &writeErrors{}
			we.Add(errors.Wrapf(storage.ErrOutOfOrderSample, "add %d samples", 1))
			return errors.Wrap(we, "writing locally")
		default:
			we := &writeErrors{}
			we.Add(errors.Wrapf(storage.ErrDuplicateSampleForTimestamp, "add %d samples", 2))
			we.Add(errors.Wrapf(labelpb.ErrDuplicateLabels, "add %d series", 1))
			return errors.Wrap(we, "writing locally")
		}
	case vfUnavail:
		switch s.flavor % vfUnavailFlavors {
		case 0: // remote receiver not reachable / not ready
			return status.Error(codes.Unavailable, "unavailable")
		default: // local TSDB not ready: Writer.Write returns tsdb.ErrNotReady unwrapped
			return errors.Wrap(tsdb.ErrNotReady, "writing locally")
		}
	default:
		switch s.flavor % vfOtherFlavors {
		case 0:
			return status.Error(codes.Internal, "boom")
		case 1:
			return errors.New("some other failure")
		case 2:
			return status.Error(codes.ResourceExhausted, "too many")
		case 3: // the peer (or a proxy in between) cancelled the call: a failure like any other
			return status.Error(codes.Canceled, "context canceled")
		case 4:
			return status.Error(codes.DeadlineExceeded, "deadline exceeded")
		default:
			return status.Error(codes.Unknown, "unknown")
		}
	}
}

// ---------------------------------------------------------------------------------------------
// fake peers

type vfSeriesKey struct {
	tenant string
	labels string
}

// vfDest is one outgoing write (endpoint, replica) of one request.
type vfDest struct {
	er        endpointReplica
	ids       []int
	responses chan writeResponse
	req       *storepb.WriteRequest
	spec      vfSpec

	series   []vfSeriesKey                   // filled when the peer client is entered
	payload  []storepb.TimeSeriesTenantTuple // deep copy of what the peer client was handed
	parked   chan struct{}                   // closed when the peer client was entered
	release  chan struct{}                   // closed by the check
	done     chan struct{}                   // closed after the completion callback ran (response is in the channel)
	released bool
}

func (d *vfDest) String() string {
	return fmt.Sprintf("%s#%d=%s", vfShort(d.er.endpoint.Address), d.er.replica, d.spec)
}

func vfShort(addr string) string { return strings.TrimPrefix(addr, "http://") }

type vfPeers struct {
	mu       sync.Mutex
	spec     func(ep Endpoint, replica uint64) vfSpec
	down     func(ep Endpoint) bool
	workers  map[Endpoint]*peerWorker
	nWorkers uint
	byReq    map[*storepb.WriteRequest]*vfDest
	dests    []*vfDest // in dispatch order
	parkEv   chan *vfDest
	open     bool // true: nothing parks any more (set at close)
	connDown int  // number of getConnection calls answered with errUnavailable
	conns    int
	closed   bool
}

var _ peersContainer = (*vfPeers)(nil)

func vfNewPeers(nWorkers uint) *vfPeers {
	return &vfPeers{
		workers:  map[Endpoint]*peerWorker{},
		nWorkers: nWorkers,
		byReq:    map[*storepb.WriteRequest]*vfDest{},
		parkEv:   make(chan *vfDest, 4096),
		spec:     func(Endpoint, uint64) vfSpec { return vfSpec{} },
		down:     func(Endpoint) bool { return false },
	}
}

func (p *vfPeers) close(Endpoint) error         { return nil }
func (p *vfPeers) markPeerUnavailable(Endpoint) {}
func (p *vfPeers) markPeerAvailable(Endpoint)   {}
func (p *vfPeers) reset()                       {}

func (p *vfPeers) Close() error {
	p.mu.Lock()
	defer p.mu.Unlock()
	if p.closed {
		return nil
	}
	p.closed = true
	for _, w := range p.workers {
		w.wp.Close()
	}
	return nil
}

func (p *vfPeers) getConnection(_ context.Context, ep Endpoint) (WriteableStoreAsyncClient, error) {
	p.mu.Lock()
	defer p.mu.Unlock()
	p.conns++
	if p.down(ep) {
		p.connDown++
		return nil, errUnavailable // what peerGroup.getConnection returns while a peer is backing off
	}
	w, ok := p.workers[ep]
	if !ok {
		w = newPeerWorker(&vfPeerClient{p: p, ep: ep}, prometheus.NewHistogram(prometheus.HistogramOpts{Name: "vf"}), p.nWorkers, 0)
		p.workers[ep] = w
	}
	return &vfClient{p: p, ep: ep, pw: w}, nil
}

// vfClient is handed to the Handler; it only observes (destination bookkeeping, completion signal) and
// delegates to the production peerWorker.
type vfClient struct {
	p  *vfPeers
	ep Endpoint
	pw *peerWorker
}

func (c *vfClient) RemoteWrite(ctx context.Context, in *storepb.WriteRequest, opts ...grpc.CallOption) (*storepb.WriteResponse, error) {
	return c.pw.RemoteWrite(ctx, in, opts...)
}

func (c *vfClient) register(req *storepb.WriteRequest, er endpointReplica, ids []int, responses chan writeResponse) *vfDest {
	d := &vfDest{er: er, ids: append([]int(nil), ids...), responses: responses, req: req,
		parked: make(chan struct{}), release: make(chan struct{}), done: make(chan struct{})}
	c.p.mu.Lock()
	d.spec = c.p.spec(er.endpoint, er.replica)
	c.p.byReq[req] = d
	c.p.dests = append(c.p.dests, d)
	c.p.mu.Unlock()
	return d
}

func (c *vfClient) unregister(d *vfDest) {
	c.p.mu.Lock()
	delete(c.p.byReq, d.req)
	for i, x := range c.p.dests {
		if x == d {
			c.p.dests = append(c.p.dests[:i], c.p.dests[i+1:]...)
			break
		}
	}
	c.p.mu.Unlock()
}

func (c *vfClient) RemoteWriteAsync(ctx context.Context, req *storepb.WriteRequest, er endpointReplica, ids []int, responses chan writeResponse, cb func(error)) {
	d := c.register(req, er, ids, responses)
	c.pw.RemoteWriteAsync(ctx, req, er, ids, responses, func(err error) { cb(err); close(d.done) })
}

func (c *vfClient) TryRemoteWriteAsync(ctx context.Context, req *storepb.WriteRequest, er endpointReplica, ids []int, responses chan writeResponse, cb func(error)) bool {
	d := c.register(req, er, ids, responses)
	if c.pw.TryRemoteWriteAsync(ctx, req, er, ids, responses, func(err error) { cb(err); close(d.done) }) {
		return true
	}
	c.unregister(d)
	return false
}

// vfPeerClient is the innermost fake: the network / TSDB.
type vfPeerClient struct {
	p  *vfPeers
	ep Endpoint
}

func (c *vfPeerClient) Close() error { return nil }

func (c *vfPeerClient) RemoteWrite(_ context.Context, in *storepb.WriteRequest, _ ...grpc.CallOption) (*storepb.WriteResponse, error) {
	c.p.mu.Lock()
	d := c.p.byReq[in]
	open := c.p.open
	c.p.mu.Unlock()
	if d == nil {
		// Not dispatched through vfClient: cannot happen with the Handler; answer without parking.
		return nil, status.Error(codes.Internal, "vf: unknown request")
	}
	for _, tup := range in.TimeseriesTenantData {
		cp := storepb.TimeSeriesTenantTuple{Tenant: strings.Clone(tup.Tenant)}
		for i := range tup.Timeseries {
			d.series = append(d.series, vfSeriesKey{tenant: cp.Tenant, labels: vfLabelsString(tup.Timeseries[i].Labels)})
			cp.Timeseries = append(cp.Timeseries, vfCloneSeries(tup.Timeseries[i]))
		}
		d.payload = append(d.payload, cp)
	}
	close(d.parked)
	c.p.parkEv <- d
	if !open {
		<-d.release
	}
	if err := d.spec.err(); err != nil {
		return nil, err
	}
	return &storepb.WriteResponse{}, nil
}

func vfLabelsString(ls []labelpb.ZLabel) string {
	var sb strings.Builder
	for i, l := range ls {
		if i > 0 {
			sb.WriteByte(',')
		}
		fmt.Fprintf(&sb, "%q=%q", l.Name, l.Value)
	}
	return sb.String()
}

// vfCloneSeries is a field-by-field deep copy (a marshal/unmarshal round trip would not be neutral: the
// generated proto3 marshaller drops -0.0 like any other zero).
func vfCloneSeries(ts prompb.TimeSeries) prompb.TimeSeries {
	cl := func(ls []labelpb.ZLabel) []labelpb.ZLabel {
		if ls == nil {
			return nil
		}
		out := make([]labelpb.ZLabel, len(ls))
		for i, l := range ls {
			out[i] = labelpb.ZLabel{Name: strings.Clone(l.Name), Value: strings.Clone(l.Value)}
		}
		return out
	}
	out := prompb.TimeSeries{Labels: cl(ts.Labels), Samples: append([]prompb.Sample(nil), ts.Samples...)}
	for _, e := range ts.Exemplars {
		out.Exemplars = append(out.Exemplars, prompb.Exemplar{Labels: cl(e.Labels), Value: e.Value, Timestamp: e.Timestamp})
	}
	for _, h := range ts.Histograms {
		c := h
		c.NegativeSpans = append([]prompb.BucketSpan(nil), h.NegativeSpans...)
		c.PositiveSpans = append([]prompb.BucketSpan(nil), h.PositiveSpans...)
		c.NegativeDeltas = append([]int64(nil), h.NegativeDeltas...)
		c.PositiveDeltas = append([]int64(nil), h.PositiveDeltas...)
		c.NegativeCounts = append([]float64(nil), h.NegativeCounts...)
		c.PositiveCounts = append([]float64(nil), h.PositiveCounts...)
		c.CustomValues = append([]float64(nil), h.CustomValues...)
		switch x := h.Count.(type) {
		case *prompb.Histogram_CountInt:
			c.Count = &prompb.Histogram_CountInt{CountInt: x.CountInt}
		case *prompb.Histogram_CountFloat:
			c.Count = &prompb.Histogram_CountFloat{CountFloat: x.CountFloat}
		}
		switch x := h.ZeroCount.(type) {
		case *prompb.Histogram_ZeroCountInt:
			c.ZeroCount = &prompb.Histogram_ZeroCountInt{ZeroCountInt: x.ZeroCountInt}
		case *prompb.Histogram_ZeroCountFloat:
			c.ZeroCount = &prompb.Histogram_ZeroCountFloat{ZeroCountFloat: x.ZeroCountFloat}
		}
		out.Histograms = append(out.Histograms, c)
	}
	return out
}

// ---------------------------------------------------------------------------------------------
// harness

type vfConfig struct {
	rf      uint64
	nodes   int
	algo    HashringAlgorithm
	mode    ReceiverMode
	limits  string // limits file content; "" = no limits
	workers uint   // async forward workers per peer; 0 = rf (never saturates)
}

type vfHarness struct {
	tb     testing.TB
	cfg    vfConfig
	h      *Handler
	peers  *vfPeers
	ring   Hashring
	eps    []Endpoint
	closed bool
	// unknownLenEvery > 0: every n-th HTTP request is sent without a declared body length
	// (ContentLength -1, as the server sees a Transfer-Encoding: chunked request).
	unknownLenEvery int64
	httpSeq         atomic.Int64
}

func (hz *vfHarness) lengthOf(req *http.Request) {
	if hz.unknownLenEvery > 0 && hz.httpSeq.Add(1)%hz.unknownLenEvery == 0 {
		req.ContentLength = -1
	}
}

const (
	vfTenantHeader  = "THANOS-TENANT"
	vfReplicaHeader = "THANOS-REPLICA"
)

type vfFileContent struct{ b []byte }

func (f vfFileContent) Content() ([]byte, error) { return f.b, nil }
func (f vfFileContent) Path() string             { return "" }

func vfEndpoints(n int) []Endpoint {
	eps := make([]Endpoint, n)
	for i := range eps {
		a := fmt.Sprintf("http://n%d:10901", i)
		eps[i] = Endpoint{Address: a, CapNProtoAddress: a}
	}
	return eps
}

func vfNewHarness(tb testing.TB, cfg vfConfig) *vfHarness {
	if cfg.mode == "" {
		cfg.mode = RouterOnly
	}
	if cfg.algo == "" {
		cfg.algo = AlgorithmKetama
	}
	if cfg.workers == 0 {
		cfg.workers = uint(cfg.rf)
	}
	var fc fileContent
	if cfg.limits != "" {
		fc = vfFileContent{b: []byte(cfg.limits)}
	}
	lim, err := NewLimiter(fc, prometheus.NewRegistry(), cfg.mode, log.NewNopLogger(), time.Hour)
	if err != nil {
		tb.Fatalf("harness: NewLimiter: %v", err)
	}
	eps := vfEndpoints(cfg.nodes)
	h := NewHandler(log.NewNopLogger(), &Options{
		TenantHeader:      vfTenantHeader,
		ReplicaHeader:     vfReplicaHeader,
		DefaultTenantID:   "default-tenant",
		ReplicationFactor: cfg.rf,
		ForwardTimeout:    6 * time.Hour, // never fires: no verdict may depend on the clock
		Limiter:           lim,
		ReceiverMode:      cfg.mode,
		Endpoint:          "http://router:10901",
	})
	ring, err := vfRing(cfg.algo, cfg.rf, eps)
	if err != nil {
		tb.Fatalf("harness: NewMultiHashring(%s, rf=%d, nodes=%d): %v", cfg.algo, cfg.rf, cfg.nodes, err)
	}
	p := vfNewPeers(cfg.workers)
	h.peers = p
	h.Hashring(ring)
	return &vfHarness{tb: tb, cfg: cfg, h: h, peers: p, ring: ring, eps: eps}
}

// vfRing memoises hashrings: a ring is a pure function of (algorithm, replication factor, endpoints) and
// is never mutated after construction (building a 6-node ketama ring costs ~7 ms, more than a whole case).
var (
	vfRingMu    sync.Mutex
	vfRingCache = map[string]Hashring{}
)

func vfRing(algo HashringAlgorithm, rf uint64, eps []Endpoint) (Hashring, error) {
	key := fmt.Sprintf("%s/%d/%d", algo, rf, len(eps))
	vfRingMu.Lock()
	defer vfRingMu.Unlock()
	if r, ok := vfRingCache[key]; ok {
		return r, nil
	}
	r, err := NewMultiHashring(algo, rf, []HashringConfig{{Hashring: "vf", Endpoints: append([]Endpoint(nil), eps...)}}, nil)
	if err != nil {
		return nil, err
	}
	vfRingCache[key] = r
	return r, nil
}

// openAll releases everything that is parked and lets every later write pass without parking.
func (hz *vfHarness) openAll() []*vfDest {
	hz.peers.mu.Lock()
	hz.peers.open = true
	ds := append([]*vfDest(nil), hz.peers.dests...)
	hz.peers.mu.Unlock()
	for _, d := range ds {
		hz.releaseNoWait(d)
	}
	return ds
}

// close releases everything that is parked, waits for every dispatched write to complete and stops the
// worker pools. Callers that still have requests running must wait for them between openAll and close.
func (hz *vfHarness) close() {
	if hz.closed {
		return
	}
	hz.closed = true
	hz.openAll()
	for _, d := range hz.destsSnapshot() {
		<-d.done
	}
	_ = hz.peers.Close()
}

func (hz *vfHarness) releaseNoWait(d *vfDest) {
	hz.peers.mu.Lock()
	r := d.released
	d.released = true
	hz.peers.mu.Unlock()
	if !r {
		close(d.release)
	}
}

// release lets the parked destination answer and returns once its response is in the responses channel
// and the completion callback has run.
func (hz *vfHarness) release(d *vfDest) {
	hz.releaseNoWait(d)
	<-d.done
}

// settle gives the handler goroutine the chance to consume what was delivered and to return. It only
// improves how precisely the check can attribute an early return to a prefix of the responses; no
// verdict depends on it.
func (hz *vfHarness) settle(d *vfDest, done <-chan struct{}) bool {
	for i := 0; i < 2000; i++ {
		select {
		case <-done:
			return true
		default:
		}
		if len(d.responses) == 0 && i >= 20 {
			break
		}
		runtime.Gosched()
	}
	for i := 0; i < 50; i++ {
		select {
		case <-done:
			return true
		default:
		}
		runtime.Gosched()
	}
	return false
}

func vfYield() {
	for i := 0; i < 4; i++ {
		runtime.Gosched()
	}
}

// awaitParked blocks until n destinations in total have entered their peer client.
func (hz *vfHarness) awaitParked(n int, seen *int) {
	for *seen < n {
		<-hz.peers.parkEv
		*seen++
	}
}

func (hz *vfHarness) destsSnapshot() []*vfDest {
	hz.peers.mu.Lock()
	defer hz.peers.mu.Unlock()
	return append([]*vfDest(nil), hz.peers.dests...)
}

// vfTuple is one tenant's part of a request.
type vfTuple struct {
	tenant string
	series []prompb.TimeSeries
}

// expectedDests computes, for harness synchronisation only (never for an oracle), how many writes the
// handler will hand to peer clients and how many destinations sit on a node that refuses connections.
func (hz *vfHarness) expectedDests(data []vfTuple, replicas []uint64) (parkable, refused int) {
	seen := map[endpointReplica]bool{}
	for _, tup := range data {
		for i := range tup.series {
			for _, rn := range replicas {
				ep, err := hz.ring.GetN(tup.tenant, &tup.series[i], rn)
				if err != nil {
					hz.tb.Fatalf("harness: GetN: %v", err)
				}
				er := endpointReplica{endpoint: ep, replica: rn}
				if seen[er] {
					continue
				}
				seen[er] = true
				if hz.peers.down(ep) {
					refused++
				} else {
					parkable++
				}
			}
		}
	}
	return parkable, refused
}

// vfResult is the observable result of one request.
type vfResult struct {
	err      error // forward / RemoteWrite error (nil for HTTP entries)
	status   int   // HTTP status (0 for non-HTTP entries)
	body     string
	header   http.Header
	panicked any
	stack    string
}

func (r vfResult) acked(http bool) bool {
	if r.panicked != nil {
		return false
	}
	if http {
		return r.status/100 == 2
	}
	return r.err == nil
}

// vfRun starts fn in its own goroutine and returns its completion channel.
func vfRun(fn func() vfResult) (<-chan struct{}, *vfResult) {
	done := make(chan struct{})
	res := &vfResult{}
	go func() {
		defer close(done)
		defer func() {
			if p := recover(); p != nil {
				res.panicked = p
				buf := make([]byte, 8192)
				res.stack = string(buf[:runtime.Stack(buf, false)])
			}
		}()
		*res = fn()
	}()
	return done, res
}

func vfV1Body(series []prompb.TimeSeries) []byte {
	b, err := proto.Marshal(&prompb.WriteRequest{Timeseries: series})
	if err != nil {
		panic(err)
	}
	return snappy.Encode(nil, b)
}

func vfV2Body(req *writev2.Request) []byte {
	b, err := proto.Marshal(req)
	if err != nil {
		panic(err)
	}
	return snappy.Encode(nil, b)
}

func (hz *vfHarness) httpV1(ctx context.Context, tenant string, replicaHeader uint64, body []byte) vfResult {
	req := httptest.NewRequest(http.MethodPost, "/api/v1/receive", bytes.NewReader(body)).WithContext(ctx)
	req.Header.Set(vfTenantHeader, tenant)
	if replicaHeader > 0 {
		req.Header.Set(vfReplicaHeader, fmt.Sprint(replicaHeader))
	}
	hz.lengthOf(req)
	rec := httptest.NewRecorder()
	hz.h.receiveHTTP(rec, req)
	return vfResult{status: rec.Code, body: rec.Body.String(), header: rec.Header()}
}

func (hz *vfHarness) httpV2(ctx context.Context, tenant string, body []byte) vfResult {
	req := httptest.NewRequest(http.MethodPost, "/api/v1/receive", bytes.NewReader(body)).WithContext(ctx)
	req.Header.Set(vfTenantHeader, tenant)
	req.Header.Set("X-Prometheus-Remote-Write-Version", "2.0.0")
	req.Header.Set("Content-Type", "application/x-protobuf;proto=io.prometheus.write.v2.Request")
	hz.lengthOf(req)
	rec := httptest.NewRecorder()
	hz.h.receiveHTTP(rec, req)
	return vfResult{status: rec.Code, body: rec.Body.String(), header: rec.Header()}
}

func (hz *vfHarness) httpOTLP(ctx context.Context, tenant string, replicaHeader uint64, body []byte) vfResult {
	req := httptest.NewRequest(http.MethodPost, "/api/v1/otlp", bytes.NewReader(body)).WithContext(ctx)
	req.Header.Set(vfTenantHeader, tenant)
	req.Header.Set("Content-Type", "application/x-protobuf")
	if replicaHeader > 0 {
		req.Header.Set(vfReplicaHeader, fmt.Sprint(replicaHeader))
	}
	hz.lengthOf(req)
	rec := httptest.NewRecorder()
	hz.h.receiveOTLPHTTP(rec, req)
	return vfResult{status: rec.Code, body: rec.Body.String(), header: rec.Header()}
}

// vfOTLP builds an OTLP export request with one gauge data point per name and returns its protobuf
// body together with the series the handler's own converter makes of it (used for harness
// synchronisation and as the identity of the request's series).
func vfOTLP(tb testing.TB, h *Handler, names []string, attr string) ([]byte, []prompb.TimeSeries) {
	md := pmetric.NewMetrics()
	sm := md.ResourceMetrics().AppendEmpty().ScopeMetrics().AppendEmpty()
	for _, n := range names {
		m := sm.Metrics().AppendEmpty()
		m.SetName(n)
		m.SetEmptyGauge()
		dp := m.Gauge().DataPoints().AppendEmpty()
		dp.SetTimestamp(pcommon.Timestamp(1_000_000_000))
		dp.SetDoubleValue(1)
		dp.Attributes().PutStr("a", attr)
	}
	body, err := pmetricotlp.NewExportRequestFromMetrics(md).MarshalProto()
	if err != nil {
		tb.Fatalf("harness: otlp marshal: %v", err)
	}
	series, _, err := h.convertToPrometheusFormat(context.Background(), md)
	if err != nil {
		tb.Fatalf("harness: otlp convert: %v", err)
	}
	out := make([]prompb.TimeSeries, len(series))
	for i := range series {
		out[i] = vfCloneSeries(series[i])
	}
	return body, out
}

// ---------------------------------------------------------------------------------------------
// small helpers shared by the checks

func vfSeries(name string, kv ...string) prompb.TimeSeries {
	ls := []labelpb.ZLabel{{Name: "__name__", Value: name}}
	for i := 0; i+1 < len(kv); i += 2 {
		ls = append(ls, labelpb.ZLabel{Name: kv[i], Value: kv[i+1]})
	}
	sort.Slice(ls, func(i, j int) bool { return ls[i].Name < ls[j].Name })
	return prompb.TimeSeries{Labels: ls, Samples: []prompb.Sample{{Timestamp: 1000, Value: 1}}}
}

// vfQuorum is the write quorum of the property statement, written down independently of
// Handler.writeQuorum: RF=2 needs one copy, everything else a strict majority.
func vfQuorum(rf int) int {
	if rf == 2 {
		return 1
	}
	return rf/2 + 1
}

func vfPermutations(n int) [][]int {
	var out [][]int
	a := make([]int, n)
	for i := range a {
		a[i] = i
	}
	var rec func(k int)
	rec = func(k int) {
		if k == n {
			out = append(out, append([]int(nil), a...))
			return
		}
		for i := k; i < n; i++ {
			a[k], a[i] = a[i], a[k]
			rec(k + 1)
			a[k], a[i] = a[i], a[k]
		}
	}
	rec(0)
	return out
}
