package receive

// C24 The remote-write concurrency gate is never exceeded.
//
// Harness: real Handler + real Limiter built from a limits file (max_concurrency N), the parked-response
// fake peers of common_test.go (a request that reached the write path sits in its peer clients until the
// check releases it), and a transparent wrapper around Limiter.writeGate that only reports what the
// handler does with the gate (enter Start / Start returned / Done). The check owns the schedule: start
// request, cancel its context, release its writes, start with an already cancelled context. After every
// action it waits - on events, never on the clock - until the affected request reached a stable point.
//
// Oracle (positive observations only):
//   - at no time are more than N requests inside the write path (request has >= 1 write sitting in a
//     peer client and none of its writes has been allowed to answer yet, so its handler cannot be done);
//   - no panic escapes receiveHTTP / receiveOTLPHTTP.

import (
	"context"
	"fmt"
	"runtime"
	"strings"
	"testing"
	"time"

	"pgregory.net/rapid"

	"github.com/thanos-io/thanos/pkg/gate"
	"github.com/thanos-io/thanos/pkg/store/storepb/prompb"
	writev2 "github.com/thanos-io/thanos/pkg/store/storepb/prompb/io/prometheus/write/v2"
	"github.com/thanos-io/thanos/verifx/kit"
)

// Known finding F10: receiveHTTP and receiveOTLPHTTP run `defer writeGate.Done()` before they look at the
// error of writeGate.Start: a request whose Start failed (context cancelled while queued, or already
// cancelled on arrival) still calls Done and takes the slot of a request that is in flight (or panics
// in gate.Done when no slot is taken).
const sigC24Done = "C24/done-after-failed-start"

type c24CtxKey struct{}

type c24Ev struct {
	id   int
	kind string // enter, admitted, refused, done, returned
}

// c24Gate reports the handler's use of the gate and otherwise delegates.
type c24Gate struct {
	inner gate.Gate
	ev    chan c24Ev
}

func (g *c24Gate) Start(ctx context.Context) error {
	id, _ := ctx.Value(c24CtxKey{}).(int)
	g.ev <- c24Ev{id, "enter"}
	err := g.inner.Start(ctx)
	if err != nil {
		g.ev <- c24Ev{id, "refused"}
	} else {
		g.ev <- c24Ev{id, "admitted"}
	}
	return err
}

func (g *c24Gate) Done() {
	g.ev <- c24Ev{-1, "done"}
	g.inner.Done()
}

const (
	c24Started = iota
	c24Queued
	c24Admitted // Start succeeded, writes not all parked yet
	c24InFlight
	c24Returned
	c24Stuck // see start(): blocked somewhere the harness does not observe
)

type c24Req struct {
	id      int
	kind    string // v1, v2, otlp
	cancel  context.CancelFunc
	state   int
	entered bool
	refused bool
	// wasQueued: the request was seen waiting at the full gate
	wasQueued bool
	// releasing: the check has started to let this request's writes answer
	releasing bool
	parked    []*vfDest
	done      <-chan struct{}
	res       *vfResult
}

type c24Run struct {
	tb    testing.TB
	hz    *vfHarness
	n     int // max_concurrency
	rf    int
	gate  *c24Gate
	reqs  []*c24Req
	held  int // model of the gate's slots, mirrors promgate from the observed Start/Done calls
	log   []string
	viol  string
	maxIn int
	// teardown: the schedule is over, everything is being cancelled and released; nothing is judged any more
	teardown bool

	sawQueued, sawQueuedAdmitted, sawCancelQueued, sawPreCancelled, sawCancelInFlight, sawFull, sawStuck bool
}

// c24UnknownLenEvery is set by the property before a schedule is played: every n-th request then has
// no declared body length (chunked transfer), which must not change how it is gated.
var c24UnknownLenEvery int64

func c24NewRun(tb testing.TB, n, rf, nodes int, algo HashringAlgorithm) *c24Run {
	cfg := vfConfig{rf: uint64(rf), nodes: nodes, algo: algo, mode: RouterOnly, workers: 32,
		limits: fmt.Sprintf("write:\n  global:\n    max_concurrency: %d\n", n)}
	hz := vfNewHarness(tb, cfg)
	hz.unknownLenEvery = c24UnknownLenEvery
	g := &c24Gate{inner: hz.h.Limiter.writeGate, ev: make(chan c24Ev, 4096)}
	hz.h.Limiter.writeGate = g
	return &c24Run{tb: tb, hz: hz, n: n, rf: rf, gate: g}
}

func (r *c24Run) logf(format string, a ...any) { r.log = append(r.log, fmt.Sprintf(format, a...)) }

func (r *c24Run) inside() []int {
	var in []int
	for _, q := range r.reqs {
		// Ground truth, independent of the order in which events of different goroutines are seen: the
		// request handed at least one write to a peer client and the check has not let any of its writes
		// answer yet, so its handler cannot have finished.
		if len(q.parked) > 0 && !q.releasing {
			in = append(in, q.id)
		}
	}
	return in
}

func (r *c24Run) queued() []*c24Req {
	var out []*c24Req
	for _, q := range r.reqs {
		if q.state == c24Queued {
			out = append(out, q)
		}
	}
	return out
}

func (r *c24Run) inFlight() []*c24Req {
	var out []*c24Req
	for _, q := range r.reqs {
		if q.state == c24InFlight {
			out = append(out, q)
		}
	}
	return out
}

func (r *c24Run) checkInvariant() {
	in := r.inside()
	if len(in) > r.maxIn {
		r.maxIn = len(in)
	}
	if len(in) == r.n {
		r.sawFull = true
	}
	if len(in) > r.n && r.viol == "" && !r.teardown {
		r.viol = fmt.Sprintf("%d requests %v are inside the write path at the same time, max_concurrency is %d", len(in), in, r.n)
		r.logf("!! %s", r.viol)
	}
}

func (r *c24Run) apply(e c24Ev) {
	switch e.kind {
	case "enter":
		r.reqs[e.id].entered = true
	case "admitted":
		r.held++
		q := r.reqs[e.id]
		if q.wasQueued {
			r.sawQueuedAdmitted = true
		}
		if q.state != c24InFlight {
			q.state = c24Admitted
		}
		r.logf("   request %d passed the gate (gate holds %d/%d)", e.id, r.held, r.n)
	case "refused":
		r.reqs[e.id].refused = true
		r.logf("   request %d: gate Start failed", e.id)
	case "done":
		if r.held > 0 {
			r.held--
		}
	case "returned":
		q := r.reqs[e.id]
		q.state = c24Returned
		if q.res.panicked != nil {
			if r.viol == "" && !r.teardown {
				r.viol = fmt.Sprintf("request %d (%s): a panic escaped the handler: %v", q.id, q.kind, q.res.panicked)
			}
			r.logf("!! request %d panicked: %v", q.id, q.res.panicked)
		} else {
			r.logf("   request %d returned %d", q.id, q.res.status)
		}
	}
}

func (r *c24Run) applyPark(d *vfDest) {
	id := -1
	if len(d.payload) > 0 {
		_, _ = fmt.Sscanf(d.payload[0].Tenant, "r%d", &id)
	}
	if id < 0 || id >= len(r.reqs) {
		r.tb.Fatalf("harness: write of unknown tenant %v", d.payload)
	}
	q := r.reqs[id]
	q.parked = append(q.parked, d)
	if len(q.parked) >= r.rf && q.state != c24Returned { // also from c24Stuck
		// also when it never passed the gate: all its writes sit in the peers
		q.state = c24InFlight
	}
	r.logf("   request %d entered the write path (%s)", id, d)
	r.checkInvariant()
}

// pump folds events into the model until cond holds. It blocks on events only.
func (r *c24Run) pump(cond func() bool) {
	for !cond() {
		select {
		case e := <-r.gate.ev:
			r.apply(e)
		case d := <-r.hz.peers.parkEv:
			r.applyPark(d)
		}
	}
}

// pumpFor is pump with a deadline; it reports whether cond became true.
func (r *c24Run) pumpFor(d time.Duration, cond func() bool) bool {
	deadline := time.After(d)
	for !cond() {
		select {
		case e := <-r.gate.ev:
			r.apply(e)
		case dst := <-r.hz.peers.parkEv:
			r.applyPark(dst)
		case <-deadline:
			return cond()
		}
	}
	return true
}

// spin gives other goroutines a bounded chance to make progress and folds whatever events exist by
// then; used only where the model expects "nothing happens" (a request that should wait at the full
// gate), so that a request that gets in anyway is noticed at once. Costs sensitivity at worst.
func (r *c24Run) spin(until func() bool) {
	for i := 0; i < 400 && !until(); i++ {
		for more := true; more; {
			select {
			case e := <-r.gate.ev:
				r.apply(e)
			case d := <-r.hz.peers.parkEv:
				r.applyPark(d)
			default:
				more = false
			}
		}
		runtime.Gosched()
	}
}

// quiesce waits for the stable state the model demands: every request that passed the gate has reached
// the peers, and either the gate is full or nobody waits at it (while a slot is free and requests wait,
// one of them must get in). The condition is re-evaluated after every event.
func (r *c24Run) quiesce() {
	r.pump(func() bool {
		if r.viol != "" {
			return true
		}
		for _, q := range r.reqs {
			if q.state == c24Admitted {
				return false
			}
		}
		return r.held >= r.n || len(r.queued()) == 0
	})
}

func (r *c24Run) start(kind string, preCancelled bool) {
	id := len(r.reqs)
	ctx, cancel := context.WithCancel(context.WithValue(context.Background(), c24CtxKey{}, id))
	q := &c24Req{id: id, kind: kind, cancel: cancel}
	tenant := fmt.Sprintf("r%d", id)
	var fn func() vfResult
	switch kind {
	case "v1":
		body := vfV1Body([]prompb.TimeSeries{vfSeries("m", "req", fmt.Sprint(id))})
		fn = func() vfResult { return r.hz.httpV1(ctx, tenant, 0, body) }
	case "v2":
		body := vfV2Body(&writev2.Request{Symbols: []string{"", "__name__", "m", "req", fmt.Sprint(id)},
			Timeseries: []writev2.TimeSeries{{LabelsRefs: []uint32{1, 2, 3, 4}, Samples: []writev2.Sample{{Timestamp: 1000, Value: 1}}}}})
		fn = func() vfResult { return r.hz.httpV2(ctx, tenant, body) }
	default:
		body, _ := vfOTLP(r.tb, r.hz.h, []string{"g"}, fmt.Sprint(id))
		fn = func() vfResult { return r.hz.httpOTLP(ctx, tenant, 0, body) }
	}
	if preCancelled {
		cancel()
		r.sawPreCancelled = true
	}
	r.logf("start request %d (%s)%s", id, kind, map[bool]string{true: " with an already cancelled context", false: ""}[preCancelled])
	r.reqs = append(r.reqs, q)
	q.done, q.res = vfRun(fn)
	go func() { <-q.done; r.gate.ev <- c24Ev{id, "returned"} }()

	// stable point: reached the gate ...
	if !r.pumpFor(5*time.Second, func() bool { return q.entered || q.state == c24Returned || q.state == c24InFlight }) {
		// The request neither asked the observed gate, nor reached the peers, nor returned: it is
		// blocked somewhere the harness does not see (cannot happen in the code as it is: every
		// remote-write endpoint asks Limiter.WriteGate()). Not judged by itself - the schedule goes on
		// without it, so that the invariant can still be evaluated on what the other requests do.
		q.state = c24Stuck
		r.sawStuck = true
		r.logf("   request %d (%s) neither reached the write gate nor the write path within 5 s", id, kind)
		return
	}
	if q.state == c24Returned {
		return
	}
	switch {
	case q.state == c24InFlight:
		// reached the peers (possibly without ever asking the gate)
	case q.state == c24Admitted:
		r.pump(func() bool { return q.state != c24Admitted })
	case preCancelled:
		// ... Start fails (always when the gate is full, by chance when it is free) or it gets in
		r.pump(func() bool { return q.state == c24Returned || q.state == c24InFlight })
	case r.held < r.n:
		// ... a slot is free: it gets in and reaches the peers
		r.pump(func() bool { return q.state == c24InFlight || q.state == c24Returned })
	default:
		// ... the gate is full: it waits there
		if q.state == c24Started {
			q.state = c24Queued
		}
		r.spin(func() bool { return q.state != c24Queued })
		if q.state == c24Queued {
			r.sawQueued = true
			q.wasQueued = true
			r.logf("   request %d waits at the full gate", id)
		} else if q.state == c24Admitted {
			r.pump(func() bool { return q.state != c24Admitted })
		}
	}
	r.quiesce()
}

func (r *c24Run) cancelReq(q *c24Req) {
	r.logf("cancel the context of request %d", q.id)
	wasQueued := q.state == c24Queued
	q.cancel()
	if wasQueued {
		r.sawCancelQueued = true
		r.pump(func() bool { return q.state == c24Returned || q.state == c24InFlight })
	} else {
		r.sawCancelInFlight = true
	}
	r.quiesce()
}

func (r *c24Run) releaseReq(q *c24Req) {
	r.logf("release the writes of request %d", q.id)
	q.releasing = true
	for _, d := range q.parked {
		r.hz.release(d)
	}
	r.pump(func() bool { return q.state == c24Returned })
	r.quiesce()
}

// finish drains the schedule, then stops everything (also after a violation).
func (r *c24Run) finish() {
	for r.viol == "" {
		in := r.inFlight()
		if len(in) == 0 {
			break
		}
		r.releaseReq(in[0])
	}
	r.teardown = true
	for _, q := range r.reqs {
		q.releasing = true
		q.cancel()
	}
	r.hz.openAll()
	r.pump(func() bool {
		for _, q := range r.reqs {
			if q.state != c24Returned {
				return false
			}
		}
		return true
	})
	r.hz.close()
}

func (r *c24Run) history() string { return strings.Join(r.log, "\n") }

type c24Action struct {
	op   string // start, startCancelled, cancel, release
	kind string
	pick int
}

func (a c24Action) String() string { return fmt.Sprintf("%s/%s/%d", a.op, a.kind, a.pick) }

// c24Play runs a schedule; picks address live requests by index modulo the candidates.
func c24Play(tb testing.TB, n, rf, nodes int, algo HashringAlgorithm, acts []c24Action) *c24Run {
	r := c24NewRun(tb, n, rf, nodes, algo)
	for _, a := range acts {
		if r.viol != "" {
			break
		}
		switch a.op {
		case "start":
			r.start(a.kind, false)
		case "startCancelled":
			r.start(a.kind, true)
		case "cancel", "cancelQueued":
			var cand []*c24Req
			for _, q := range r.reqs {
				if (a.op == "cancel" && q.state == c24InFlight) || (a.op == "cancelQueued" && q.state == c24Queued) {
					cand = append(cand, q)
				}
			}
			if len(cand) > 0 {
				r.cancelReq(cand[a.pick%len(cand)])
			}
		case "release":
			if cand := r.inFlight(); len(cand) > 0 {
				r.releaseReq(cand[a.pick%len(cand)])
			}
		}
	}
	r.finish()
	return r
}

func TestVerifC24(t *testing.T) {
	rec := kit.For(t, "C24")
	known := kit.KnownFindings("C24")

	// Regression inputs of F10.
	{
		// limit 1: A in flight, B queued, B's client gives up, C arrives.
		for _, kind := range []string{"v1", "otlp"} {
			r := c24Play(t, 1, 1, 1, AlgorithmHashmod, []c24Action{{"start", kind, 0}, {"start", kind, 0}, {"cancelQueued", "", 0}, {"start", kind, 0}})
			if r.viol != "" {
				if known[sigC24Done] {
					rec.Known(sigC24Done, fmt.Sprintf("limit 1, %s endpoint: request queued at the full gate is cancelled, the next request is admitted next to the one in flight: %s", kind, r.viol))
				} else {
					rec.Violation(t, "regression F10 (%s): %s\nhistory:\n%s", kind, r.viol, r.history())
				}
			}
		}
		// idle gate, requests arriving with an already cancelled context (select picks ctx.Done at random).
		var acts []c24Action
		for i := 0; i < 16; i++ {
			acts = append(acts, c24Action{"startCancelled", []string{"v1", "otlp"}[i%2], 0}, c24Action{"release", "", 0})
		}
		r := c24Play(t, 2, 1, 1, AlgorithmHashmod, acts)
		if r.viol != "" {
			if known[sigC24Done] {
				rec.Known(sigC24Done, "idle gate, request arrives with an already cancelled context: "+r.viol)
			} else {
				rec.Violation(t, "regression F10 (cancelled on arrival): %s\nhistory:\n%s", r.viol, r.history())
			}
		}
	}

	rec.Check(t, func(rt *rapid.T) {
		n := rapid.IntRange(1, 3).Draw(rt, "max_concurrency")
		rf := rapid.IntRange(1, 2).Draw(rt, "rf")
		nodes := rapid.IntRange(rf, 3).Draw(rt, "nodes")
		algo := rapid.SampledFrom([]HashringAlgorithm{AlgorithmHashmod, AlgorithmKetama}).Draw(rt, "algo")
		ops := []string{"start", "start", "start", "release", "release", "cancel"}
		if !known[sigC24Done] {
			ops = append(ops, "cancelQueued", "cancelQueued", "startCancelled")
		}
		k := rapid.IntRange(2, 14).Draw(rt, "len")
		var acts []c24Action
		for i := 0; i < k; i++ {
			acts = append(acts, c24Action{
				op:   rapid.SampledFrom(ops).Draw(rt, "op"),
				kind: rapid.SampledFrom([]string{"v1", "v1", "otlp", "otlp", "v2"}).Draw(rt, "endpoint"),
				pick: rapid.IntRange(0, 5).Draw(rt, "pick"),
			})
		}
		c24UnknownLenEvery = int64(rapid.SampledFrom([]int{0, 0, 1, 2, 3}).Draw(rt, "unknownLengthEvery"))
		r := c24Play(t, n, rf, nodes, algo, acts)
		unk := c24UnknownLenEvery
		c24UnknownLenEvery = 0
		if r.viol != "" {
			rt.Fatalf("C24 violated: %s\nmax_concurrency=%d rf=%d nodes=%d %s unknownLengthEvery=%d schedule=%v\nhistory:\n%s", r.viol, n, rf, nodes, algo, unk, acts, r.history())
		}
		if known[sigC24Done] && r.sawQueued {
			// a client giving up while queued was possible here and is not generated while F10 is open
			rec.Excluded(sigC24Done)
		}
		classes := []string{fmt.Sprintf("limit-%d", n), fmt.Sprintf("max-inside-%d", r.maxIn)}
		if unk > 0 {
			classes = append(classes, "requests-without-content-length")
		}
		endpoints := map[string]bool{}
		for _, q := range r.reqs {
			endpoints[q.kind] = true
		}
		for e := range endpoints {
			classes = append(classes, "endpoint-"+e)
		}
		for name, saw := range map[string]bool{"queued-at-full-gate": r.sawQueued, "queued-then-admitted": r.sawQueuedAdmitted,
			"cancel-while-queued": r.sawCancelQueued, "cancelled-on-arrival": r.sawPreCancelled, "cancel-while-in-flight": r.sawCancelInFlight, "gate-full": r.sawFull} {
			if saw {
				classes = append(classes, name)
			}
		}
		nt := r.sawCancelQueued || r.sawQueuedAdmitted
		rec.Case(fmt.Sprintf("N=%d rf=%d nodes=%d %s %v", n, rf, nodes, algo, acts), nt, classes...)
	})
}

// reload re-reads the limits configuration the way the config reloader does (Limiter.loadConfig installs
// a fresh gate on every reload, also when max_concurrency is unchanged) and puts the reporting wrapper
// around the new gate.
func (r *c24Run) reload() {
	r.logf("the limits configuration is reloaded (same max_concurrency)")
	l := r.hz.h.Limiter
	if err := l.loadConfig(); err != nil {
		r.tb.Fatalf("harness: reload of the limits configuration failed: %v", err)
	}
	l.Lock()
	l.writeGate = &c24Gate{inner: l.writeGate, ev: r.gate.ev}
	l.Unlock()
}

// TestVerifC24_Reload: requests that wait at the full gate while the limits configuration is reloaded.
// The unchanged code lets holders of the old and of the new gate overlap for a moment after a reload
// (outside the statement's quantifier), so the schedule keeps new arrivals away until the old gate has
// drained, and asserts only what the statement says for waiting requests and for the settled state:
// no request crashes (a Done on a gate that was never Started panics in the gate), and once everything
// has drained the gate in force admits exactly max_concurrency requests again.
func TestVerifC24_Reload(t *testing.T) {
	rec := kit.For(t, "C24")
	rec.Check(t, func(rt *rapid.T) {
		n := rapid.IntRange(1, 3).Draw(rt, "max_concurrency")
		waiting := rapid.IntRange(1, 3).Draw(rt, "waiting")
		kinds := rapid.SliceOfN(rapid.SampledFrom([]string{"v1", "otlp", "v2"}), 2*n+waiting+1, 2*n+waiting+1).Draw(rt, "endpoints")
		reloads := rapid.IntRange(1, 2).Draw(rt, "reloads")
		picks := rapid.SliceOfN(rapid.IntRange(0, 5), n+waiting, n+waiting).Draw(rt, "releaseOrder")
		r := c24NewRun(t, n, 1, 1, AlgorithmHashmod)
		k := 0
		for i := 0; i < n+waiting && r.viol == ""; i++ { // fill the gate, then let requests queue up
			r.start(kinds[k], false)
			k++
		}
		queuedAtReload := len(r.queued())
		for i := 0; i < reloads && r.viol == ""; i++ {
			r.reload()
		}
		for _, p := range picks { // drain: the waiting requests get the old gate's slots one by one
			if r.viol != "" {
				break
			}
			if cand := r.inFlight(); len(cand) > 0 {
				r.releaseReq(cand[p%len(cand)])
			}
		}
		for r.viol == "" {
			cand := r.inFlight()
			if len(cand) == 0 {
				break
			}
			r.releaseReq(cand[0])
		}
		settled := false
		if r.viol == "" && len(r.queued()) == 0 && r.held == 0 {
			// settled: the gate now in force admits n requests and makes the next one wait
			settled = true
			for i := 0; i < n+1 && r.viol == ""; i++ {
				r.start(kinds[k], false)
				k++
			}
			if r.viol == "" && len(r.inFlight()) != n {
				r.viol = fmt.Sprintf("after the reload settled %d requests are in flight with %d more started, max_concurrency is %d", len(r.inFlight()), n+1, n)
			}
		}
		r.finish()
		if r.viol != "" {
			rt.Fatalf("C24 violated (reload while requests wait): %s\nmax_concurrency=%d waiting=%d reloads=%d\nhistory:\n%s", r.viol, n, waiting, reloads, r.history())
		}
		classes := []string{"reload-while-queued", fmt.Sprintf("limit-%d", n), fmt.Sprintf("queued-at-reload-%d", queuedAtReload)}
		if settled {
			classes = append(classes, "settled-gate-probed")
		}
		rec.Case(fmt.Sprintf("reload N=%d waiting=%d reloads=%d kinds=%v order=%v", n, waiting, reloads, kinds, picks), queuedAtReload > 0 && r.sawQueuedAdmitted, classes...)
	})
}
