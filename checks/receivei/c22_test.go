package receive

// C22 An acknowledged remote write reached quorum for every series.
//
// Harness: common_test.go (real Handler + real hashring + real peerWorker, fake innermost peer clients
// with predetermined outcomes per (node, replica) that park their responses; the check owns the
// arrival order).
// Oracle (independent of fanoutForward's counters): from what the fake peers RECORDED, count for every
// series of the request the replica numbers that were written with outcome "success".
//   (1) ack  =>  every series has >= threshold successful replicas (threshold = write quorum, or 1 for
//       an already-replicated request: the addressed replica); equivalently some series below the
//       threshold => the request fails;
//   (2) at the moment the ack was observed, the responses released so far already contain that quorum
//       (the handler may not acknowledge on responses that have not arrived);
//   (3) the verdict (ack / fail) does not depend on the order in which the replica responses arrive.

import (
	"context"
	"fmt"
	"os"
	"sort"
	"strconv"
	"strings"
	"testing"

	"pgregory.net/rapid"

	"github.com/thanos-io/thanos/pkg/store/storepb"
	"github.com/thanos-io/thanos/pkg/store/storepb/prompb"
	"github.com/thanos-io/thanos/verifx/kit"
)

const (
	c22EntryForward = iota
	c22EntryGRPC
	c22EntryGRPCLegacy // single tenant in the deprecated Tenant/Timeseries fields
	c22EntryHTTP
	c22EntryOTLP // receiveOTLPHTTP; data[0].series must be the converted series of otlpBody (vfOTLP)
)

var c22EntryNames = []string{"forward", "grpc", "grpc-legacy", "http", "otlp"}

// Known finding (same root cause as C23's F8, different consequence): fanoutForward builds its
// replicationErrors with threshold = write quorum instead of the failure threshold. For replication
// factors whose quorum is larger than the failure threshold (RF 4, 6, ...) a series that failed with
// fewer than quorum errors has Cause()==nil, so the writeErrors returned by fanoutForward is non-nil but
// errors.Cause(err)==nil, and Handler.RemoteWrite (gRPC) does `switch errors.Cause(err) { case nil: ack }`.
const sigC22GRPCAck = "C22/grpc-ack-on-causeless-error"

// c22InGRPCAckClass is the narrow class excluded while the finding is listed as known: gRPC entry,
// fresh (not yet replicated) request, quorum > failure threshold, and some series below quorum.
func c22InGRPCAckClass(sc *c22Scenario, obs c22Obs) bool {
	if sc.entry != c22EntryGRPC && sc.entry != c22EntryGRPCLegacy {
		return false
	}
	rf := int(sc.cfg.rf)
	if sc.rep != 0 || vfQuorum(rf) <= rf-vfQuorum(rf)+1 {
		return false
	}
	all, bad := c22Successes(sc, obs, -1)
	if bad != "" {
		return false
	}
	m, _ := c22Min(all)
	return m < sc.threshold()
}

// c22RegressionGRPCAck: RF=4, one series, replicas 0 and 1 unavailable, replicas 2 and 3 succeed,
// request entered through the gRPC RemoteWrite of a RouterOnly receiver.
func c22RegressionGRPCAck() *c22Scenario {
	sc := &c22Scenario{cfg: vfConfig{rf: 4, nodes: 4, algo: AlgorithmHashmod, mode: RouterOnly}, entry: c22EntryGRPC,
		data: []vfTuple{{tenant: "t0", series: []prompb.TimeSeries{vfSeries("m0", "a", "0")}}}, matrix: map[string]vfSpec{}, down: map[string]bool{}}
	for _, ep := range vfEndpoints(4) {
		for r := uint64(0); r < 4; r++ {
			k := vfOK
			if r < 2 {
				k = vfUnavail
			}
			sc.matrix[c22Key(ep.Address, r)] = vfSpec{kind: k}
		}
	}
	return sc
}

type c22Scenario struct {
	cfg    vfConfig
	entry  int
	rep    uint64 // 0 = fresh request, k = already replicated request addressed to replica k (1-indexed)
	data   []vfTuple
	matrix map[string]vfSpec // "addr#replica" -> outcome
	down   map[string]bool   // node address -> refuses connections

	otlpBody []byte
}

func c22Key(addr string, replica uint64) string { return addr + "#" + strconv.FormatUint(replica, 10) }

func (sc *c22Scenario) replicas() []uint64 {
	if sc.rep > 0 {
		return []uint64{sc.rep - 1}
	}
	var out []uint64
	for r := uint64(0); r < sc.cfg.rf; r++ {
		out = append(out, r)
	}
	return out
}

func (sc *c22Scenario) threshold() int {
	if sc.rep > 0 {
		return 1
	}
	return vfQuorum(int(sc.cfg.rf))
}

func (sc *c22Scenario) render() string {
	var sb strings.Builder
	fmt.Fprintf(&sb, "rf=%d nodes=%d %s %s entry=%s rep=%d data=[", sc.cfg.rf, sc.cfg.nodes, sc.cfg.algo, sc.cfg.mode, c22EntryNames[sc.entry], sc.rep)
	for _, tup := range sc.data {
		fmt.Fprintf(&sb, "%s:{", tup.tenant)
		for i := range tup.series {
			fmt.Fprintf(&sb, "%s;", vfLabelsString(tup.series[i].Labels))
		}
		sb.WriteString("} ")
	}
	sb.WriteString("] outcomes=[")
	keys := make([]string, 0, len(sc.matrix))
	for k := range sc.matrix {
		keys = append(keys, k)
	}
	sort.Strings(keys)
	for _, k := range keys {
		fmt.Fprintf(&sb, "%s=%s ", vfShort(k), sc.matrix[k])
	}
	sb.WriteString("] down=[")
	dk := make([]string, 0, len(sc.down))
	for k, v := range sc.down {
		if v {
			dk = append(dk, vfShort(k))
		}
	}
	sort.Strings(dk)
	sb.WriteString(strings.Join(dk, ","))
	sb.WriteString("]")
	return sb.String()
}

// c22Obs is what one execution of a scenario under one release order showed.
type c22Obs struct {
	res       vfResult
	http      bool
	dests     []*vfDest // canonical order (address, replica)
	order     []*vfDest // release order
	doneAfter int       // number of released responses after which the request was seen to have returned
	refused   int
}

func (o c22Obs) acked() bool { return o.res.acked(o.http) }

func (o c22Obs) orderString() string {
	var parts []string
	for _, d := range o.order {
		parts = append(parts, d.String())
	}
	return strings.Join(parts, " > ")
}

func c22Canonical(ds []*vfDest) {
	sort.Slice(ds, func(i, j int) bool {
		if ds[i].er.endpoint.Address != ds[j].er.endpoint.Address {
			return ds[i].er.endpoint.Address < ds[j].er.endpoint.Address
		}
		return ds[i].er.replica < ds[j].er.replica
	})
}

// c22Exec runs the scenario once; perm permutes the canonical list of parked destinations.
func c22Exec(tb testing.TB, sc *c22Scenario, perm func(ds []*vfDest) []int) c22Obs {
	hz := vfNewHarness(tb, sc.cfg)
	defer hz.close()
	hz.peers.spec = func(ep Endpoint, replica uint64) vfSpec { return sc.matrix[c22Key(ep.Address, replica)] }
	hz.peers.down = func(ep Endpoint) bool { return sc.down[ep.Address] }
	parkable, refused := hz.expectedDests(sc.data, sc.replicas())

	ctx := context.Background()
	var start func() vfResult
	switch sc.entry {
	case c22EntryForward:
		data := make([]wreqTenantTuple, 0, len(sc.data))
		for _, tup := range sc.data {
			data = append(data, wreqTenantTuple{tenant: tup.tenant, wreq: &prompb.WriteRequest{Timeseries: append([]prompb.TimeSeries(nil), tup.series...)}})
		}
		r := replica{}
		if sc.rep > 0 {
			r = replica{n: sc.rep - 1, replicated: true}
		}
		start = func() vfResult { _, err := hz.h.forward(ctx, r, data); return vfResult{err: err} }
	case c22EntryGRPC:
		req := &storepb.WriteRequest{Replica: int64(sc.rep)}
		for _, tup := range sc.data {
			req.TimeseriesTenantData = append(req.TimeseriesTenantData, storepb.TimeSeriesTenantTuple{Tenant: tup.tenant, Timeseries: append([]prompb.TimeSeries(nil), tup.series...)})
		}
		start = func() vfResult { _, err := hz.h.RemoteWrite(ctx, req); return vfResult{err: err} }
	case c22EntryGRPCLegacy:
		req := &storepb.WriteRequest{Replica: int64(sc.rep), Tenant: sc.data[0].tenant, Timeseries: append([]prompb.TimeSeries(nil), sc.data[0].series...)}
		start = func() vfResult { _, err := hz.h.RemoteWrite(ctx, req); return vfResult{err: err} }
	case c22EntryOTLP:
		start = func() vfResult { return hz.httpOTLP(ctx, sc.data[0].tenant, sc.rep, sc.otlpBody) }
	default:
		body := vfV1Body(sc.data[0].series)
		start = func() vfResult { return hz.httpV1(ctx, sc.data[0].tenant, sc.rep, body) }
	}

	done, res := vfRun(start)
	seen := 0
	hz.awaitParked(parkable, &seen)
	ds := hz.destsSnapshot()
	if len(ds) != parkable {
		tb.Fatalf("harness: %d destinations dispatched, %d expected (%s)", len(ds), parkable, sc.render())
	}
	c22Canonical(ds)
	p := perm(ds)
	if len(p) != len(ds) {
		tb.Fatalf("harness: permutation of %d for %d destinations", len(p), len(ds))
	}
	order := make([]*vfDest, len(ds))
	for i, j := range p {
		order[i] = ds[j]
	}
	obs := c22Obs{http: sc.entry == c22EntryHTTP || sc.entry == c22EntryOTLP, dests: ds, order: order, doneAfter: -1, refused: refused}
	if len(order) > 0 && refused > 0 {
		// refused connections answer immediately; let the handler look at them first
		for i := 0; i < 50 && obs.doneAfter < 0; i++ {
			select {
			case <-done:
				obs.doneAfter = 0
			default:
				vfYield()
			}
		}
	}
	for k, d := range order {
		hz.release(d)
		if obs.doneAfter < 0 && hz.settle(d, done) {
			obs.doneAfter = k + 1
		}
	}
	<-done
	if obs.doneAfter < 0 {
		obs.doneAfter = len(order)
	}
	obs.res = *res
	return obs
}

// c22Successes counts, from the recorded writes only, the successful replicas of every series; prefix<0
// counts all destinations, otherwise only the first prefix released ones.
func c22Successes(sc *c22Scenario, obs c22Obs, prefix int) (map[vfSeriesKey]int, string) {
	succ := map[vfSeriesKey]int{}
	for _, tup := range sc.data {
		for i := range tup.series {
			succ[vfSeriesKey{tenant: tup.tenant, labels: vfLabelsString(tup.series[i].Labels)}] = 0
		}
	}
	list := obs.dests
	if prefix >= 0 {
		list = obs.order[:prefix]
	}
	type sr struct {
		k vfSeriesKey
		r uint64
	}
	seen := map[sr]bool{}
	for _, d := range list {
		for _, k := range d.series {
			if _, ok := succ[k]; !ok {
				return nil, fmt.Sprintf("peer %s received a series that is not in the request: %v", d, k)
			}
			if seen[sr{k, d.er.replica}] {
				return nil, fmt.Sprintf("series %v was written twice for replica %d", k, d.er.replica)
			}
			seen[sr{k, d.er.replica}] = true
			if d.spec.kind == vfOK {
				succ[k]++
			}
		}
	}
	return succ, ""
}

func c22Min(m map[vfSeriesKey]int) (int, vfSeriesKey) {
	min := 1 << 30
	var at vfSeriesKey
	keys := make([]vfSeriesKey, 0, len(m))
	for k := range m {
		keys = append(keys, k)
	}
	sort.Slice(keys, func(i, j int) bool {
		if keys[i].tenant != keys[j].tenant {
			return keys[i].tenant < keys[j].tenant
		}
		return keys[i].labels < keys[j].labels
	})
	for _, k := range keys {
		if m[k] < min {
			min, at = m[k], k
		}
	}
	return min, at
}

// c22Check applies oracle parts (1) and (2) to one observation. It returns "" or the violation text.
func c22Check(sc *c22Scenario, obs c22Obs) string {
	if obs.res.panicked != nil {
		return fmt.Sprintf("request handling panicked: %v\n%s", obs.res.panicked, obs.res.stack)
	}
	all, bad := c22Successes(sc, obs, -1)
	if bad != "" {
		return bad
	}
	thr := sc.threshold()
	min, at := c22Min(all)
	if obs.acked() && min < thr {
		return fmt.Sprintf("request was ACKNOWLEDGED although series %v was stored on %d replica(s), quorum is %d", at, min, thr)
	}
	if obs.acked() {
		pre, _ := c22Successes(sc, obs, obs.doneAfter)
		if m, a := c22Min(pre); m < thr {
			return fmt.Sprintf("request was acknowledged after %d released response(s) when series %v had only %d confirmed replica(s), quorum is %d", obs.doneAfter, a, m, thr)
		}
	}
	return ""
}

func c22Classes(sc *c22Scenario, obs c22Obs) (classes []string, nontrivial bool) {
	classes = append(classes, fmt.Sprintf("rf-%d", sc.cfg.rf), "entry-"+c22EntryNames[sc.entry], "algo-"+string(sc.cfg.algo), "mode-"+string(sc.cfg.mode))
	if sc.rep > 0 {
		classes = append(classes, "already-replicated")
	}
	if len(sc.data) > 1 {
		classes = append(classes, "multi-tenant")
	}
	failing, other := obs.refused, false
	nodes := map[string]bool{}
	for _, d := range obs.dests {
		nodes[d.er.endpoint.Address] = true
		if d.spec.kind != vfOK {
			failing++
		}
		if d.spec.kind == vfOther {
			other = true
		}
	}
	if obs.refused > 0 {
		classes = append(classes, "node-refuses-connection")
	}
	if other {
		classes = append(classes, "other-error")
	}
	if failing > 0 {
		classes = append(classes, "some-replica-failed")
	}
	nseries := 0
	for _, tup := range sc.data {
		nseries += len(tup.series)
	}
	if obs.acked() {
		classes = append(classes, "ack")
		if failing > 0 {
			classes = append(classes, "ack-despite-failures")
		}
		if obs.doneAfter < len(obs.order) {
			classes = append(classes, "ack-before-all-responses")
		}
	} else {
		classes = append(classes, "fail")
		if obs.doneAfter < len(obs.order) {
			classes = append(classes, "fail-before-all-responses")
		}
		all, _ := c22Successes(sc, obs, -1)
		if m, _ := c22Min(all); m >= sc.threshold() {
			classes = append(classes, "fail-although-quorum-outcomes") // not asserted by the statement; see (3)
		}
	}
	nontrivial = failing >= 1 && nseries >= 2 && len(nodes)+obs.refused >= 2
	return classes, nontrivial
}

// ---------------------------------------------------------------------------------------------
// generator

func c22GenSeries(rt *rapid.T, n int, label string) []prompb.TimeSeries {
	seen := map[string]bool{}
	var out []prompb.TimeSeries
	for len(out) < n {
		name := fmt.Sprintf("m%d", rapid.IntRange(0, 3).Draw(rt, label+"name"))
		v := strconv.Itoa(rapid.IntRange(0, 40).Draw(rt, label+"a"))
		k := name + "/" + v
		if seen[k] {
			// make it unique deterministically instead of rejecting
			v = v + "_" + strconv.Itoa(len(out))
			k = name + "/" + v
		}
		seen[k] = true
		out = append(out, vfSeries(name, "a", v))
	}
	return out
}

func c22GenKind(rt *rapid.T, label string, kinds []vfKind) vfSpec {
	k := rapid.SampledFrom(kinds).Draw(rt, label)
	return vfSpec{kind: k, flavor: rapid.IntRange(0, 5).Draw(rt, label+"f")}
}

var c22KindMix = []vfKind{vfOK, vfOK, vfOK, vfOK, vfConflict, vfConflict, vfUnavail, vfUnavail, vfOther}

func c22Gen(rt *rapid.T) *c22Scenario {
	sc := &c22Scenario{matrix: map[string]vfSpec{}, down: map[string]bool{}}
	sc.cfg.rf = uint64(rapid.IntRange(1, 5).Draw(rt, "rf"))
	sc.cfg.nodes = rapid.IntRange(int(sc.cfg.rf), 6).Draw(rt, "nodes")
	sc.cfg.algo = rapid.SampledFrom([]HashringAlgorithm{AlgorithmKetama, AlgorithmHashmod}).Draw(rt, "algo")
	sc.cfg.mode = rapid.SampledFrom([]ReceiverMode{RouterOnly, RouterIngestor}).Draw(rt, "mode")
	sc.entry = rapid.IntRange(0, 3).Draw(rt, "entry")
	if sc.cfg.mode == RouterIngestor && rapid.IntRange(0, 3).Draw(rt, "replicated") == 0 {
		// RouterOnly receivers ignore the replica header by design (handleRequest), so replicated
		// requests are only addressed to RouterIngestor receivers.
		sc.rep = uint64(rapid.IntRange(1, int(sc.cfg.rf)).Draw(rt, "rep"))
	}
	tenants := 1
	if sc.entry == c22EntryForward || sc.entry == c22EntryGRPC {
		tenants = rapid.IntRange(1, 2).Draw(rt, "tenants")
	}
	total := rapid.IntRange(1, 6).Draw(rt, "series")
	for i := 0; i < tenants; i++ {
		n := total / tenants
		if i == 0 {
			n = total - (tenants-1)*(total/tenants)
		}
		if n == 0 {
			n = 1
		}
		sc.data = append(sc.data, vfTuple{tenant: fmt.Sprintf("t%d", i), series: c22GenSeries(rt, n, fmt.Sprintf("t%d", i))})
	}
	for _, ep := range vfEndpoints(sc.cfg.nodes) {
		sc.down[ep.Address] = rapid.IntRange(0, 9).Draw(rt, "down") == 0
		for r := uint64(0); r < sc.cfg.rf; r++ {
			sc.matrix[c22Key(ep.Address, r)] = c22GenKind(rt, "out", c22KindMix)
		}
	}
	return sc
}

func c22Identity(ds []*vfDest) []int { return vfPermutations(len(ds))[0] }

func c22DrawPerm(rt *rapid.T, label string) func(ds []*vfDest) []int {
	return func(ds []*vfDest) []int {
		n := len(ds)
		idx := make([]int, n)
		for i := range idx {
			idx[i] = i
		}
		if n < 2 {
			return idx
		}
		return rapid.Permutation(idx).Draw(rt, label)
	}
}

// ---------------------------------------------------------------------------------------------
// tests

func TestVerifC22(t *testing.T) {
	rec := kit.For(t, "C22")
	known := kit.KnownFindings("C22")
	{
		sc := c22RegressionGRPCAck()
		obs := c22Exec(t, sc, c22Identity)
		if msg := c22Check(sc, obs); msg != "" {
			if known[sigC22GRPCAck] {
				rec.Known(sigC22GRPCAck, "RF=4 one series [unavailable,unavailable,ok,ok] through gRPC RemoteWrite: "+msg)
			} else {
				rec.Violation(t, "regression %s: %s\nscenario: %s", sigC22GRPCAck, msg, sc.render())
			}
		}
	}
	rec.Check(t, func(rt *rapid.T) {
		sc := c22Gen(rt)
		a := c22Exec(t, sc, c22DrawPerm(rt, "orderA"))
		if known[sigC22GRPCAck] && c22InGRPCAckClass(sc, a) {
			rec.Excluded(sigC22GRPCAck)
			return
		}
		if msg := c22Check(sc, a); msg != "" {
			rt.Fatalf("C22 violated: %s\nscenario: %s\nrelease order: %s\nresult: err=%v status=%d", msg, sc.render(), a.orderString(), a.res.err, a.res.status)
		}
		b := c22Exec(t, sc, c22DrawPerm(rt, "orderB"))
		if msg := c22Check(sc, b); msg != "" {
			rt.Fatalf("C22 violated: %s\nscenario: %s\nrelease order: %s\nresult: err=%v status=%d", msg, sc.render(), b.orderString(), b.res.err, b.res.status)
		}
		if a.acked() != b.acked() {
			rt.Fatalf("C22 violated: the verdict depends on the order of the replica responses\nscenario: %s\norder A: %s => ack=%v (err=%v status=%d)\norder B: %s => ack=%v (err=%v status=%d)",
				sc.render(), a.orderString(), a.acked(), a.res.err, a.res.status, b.orderString(), b.acked(), b.res.err, b.res.status)
		}
		classes, nt := c22Classes(sc, a)
		rec.Case(sc.render()+" | "+a.orderString(), nt, classes...)
	})
}

// c22FindSeries looks for label values that give the wanted placement shape on a ring (harness
// construction only): the replica node sets of the series are pairwise disjoint when the ring has enough
// nodes for that, otherwise at least their first replicas differ.
func c22FindSeries(tb testing.TB, cfg vfConfig, tenant string, n int) []prompb.TimeSeries {
	hz := vfNewHarness(tb, cfg)
	defer hz.close()
	wantDisjoint := n*int(cfg.rf) <= cfg.nodes
	var out []prompb.TimeSeries
	used := map[string]bool{}
	for v := 0; v < 5000 && len(out) < n; v++ {
		s := vfSeries("m", "a", strconv.Itoa(v))
		var eps []string
		clash := false
		for r := uint64(0); r < cfg.rf; r++ {
			ep, err := hz.ring.GetN(tenant, &s, r)
			if err != nil {
				tb.Fatalf("harness: %v", err)
			}
			if used[ep.Address] && (wantDisjoint || r == 0) && len(used) < cfg.nodes {
				clash = true
			}
			eps = append(eps, ep.Address)
		}
		if clash {
			continue
		}
		if wantDisjoint {
			for _, a := range eps {
				used[a] = true
			}
		} else {
			used[eps[0]] = true
		}
		out = append(out, s)
	}
	if len(out) < n {
		tb.Fatalf("harness: could not place %d series", n)
	}
	return out
}

// TestVerifC22_Exhaustive enumerates, for small replication factors, EVERY outcome matrix over the
// destinations of a fixed request and EVERY arrival order.
func TestVerifC22_Exhaustive(t *testing.T) {
	rec := kit.For(t, "C22")
	shard, shards := 0, 1
	if v, err := strconv.Atoi(os.Getenv("VERIF_SHARD")); err == nil {
		shard = v
	}
	if v, err := strconv.Atoi(os.Getenv("VERIF_SHARDS")); err == nil && v > 0 {
		shards = v
	}
	type space struct {
		rf, nodes, series int
		kinds             []vfKind
		rep               uint64
		mode              ReceiverMode
	}
	all4 := []vfKind{vfOK, vfConflict, vfUnavail, vfOther}
	three := []vfKind{vfOK, vfConflict, vfUnavail}
	spaces := []space{
		{1, 2, 1, all4, 0, RouterOnly}, {2, 3, 1, all4, 0, RouterOnly}, {3, 4, 1, all4, 0, RouterOnly},
		{1, 2, 2, all4, 0, RouterOnly}, {2, 4, 2, all4, 0, RouterOnly},
		{3, 3, 1, all4, 2, RouterIngestor}, {2, 4, 2, all4, 1, RouterIngestor},
	}
	if kit.Tier() == "thorough" {
		spaces = append(spaces, space{3, 6, 2, three, 0, RouterOnly}, space{4, 5, 1, all4, 0, RouterOnly}, space{5, 5, 1, three, 0, RouterOnly})
	} else {
		spaces = append(spaces, space{4, 5, 1, three, 0, RouterOnly})
	}
	complete := true
	unit := 0
	for _, sp := range spaces {
		for _, algo := range []HashringAlgorithm{AlgorithmKetama, AlgorithmHashmod} {
			if sp.rf == 3 && sp.series == 2 && algo == AlgorithmHashmod {
				continue // 3^6 x 6! executions: one ring is enough, the ring only decides the placement
			}
			cfg := vfConfig{rf: uint64(sp.rf), nodes: sp.nodes, algo: algo, mode: sp.mode}
			series := c22FindSeries(t, cfg, "t0", sp.series)
			base := &c22Scenario{cfg: cfg, entry: c22EntryForward, rep: sp.rep, data: []vfTuple{{tenant: "t0", series: series}}, matrix: map[string]vfSpec{}, down: map[string]bool{}}
			// destinations of this request (one probe execution with all-success outcomes)
			probe := c22Exec(t, base, c22Identity)
			var keys []string
			for _, d := range probe.dests {
				keys = append(keys, c22Key(d.er.endpoint.Address, d.er.replica))
			}
			perms := vfPermutations(len(keys))
			nm := 1
			for range keys {
				nm *= len(sp.kinds)
			}
			for m := 0; m < nm; m++ {
				unit++
				if unit%shards != shard%shards {
					continue
				}
				sc := &c22Scenario{cfg: cfg, entry: c22EntryForward, rep: sp.rep, data: base.data, matrix: map[string]vfSpec{}, down: map[string]bool{}}
				x := m
				for _, k := range keys {
					sc.matrix[k] = vfSpec{kind: sp.kinds[x%len(sp.kinds)], flavor: m % 3}
					x /= len(sp.kinds)
				}
				var first c22Obs
				for pi, p := range perms {
					p := p
					obs := c22Exec(t, sc, func([]*vfDest) []int { return p })
					if msg := c22Check(sc, obs); msg != "" {
						rec.Violation(t, "C22 violated: %s\nscenario: %s\nrelease order: %s\nresult: err=%v", msg, sc.render(), obs.orderString(), obs.res.err)
					}
					if pi == 0 {
						first = obs
					} else if obs.acked() != first.acked() {
						rec.Violation(t, "C22 violated: the verdict depends on the order of the replica responses\nscenario: %s\norder A: %s => ack=%v (err=%v)\norder B: %s => ack=%v (err=%v)",
							sc.render(), first.orderString(), first.acked(), first.res.err, obs.orderString(), obs.acked(), obs.res.err)
					}
					classes, nt := c22Classes(sc, obs)
					rec.Case(sc.render()+" | "+obs.orderString(), nt, append(classes, "exhaustive")...)
				}
			}
		}
	}
	if shards > 1 {
		rec.Note("exhaustive spaces partitioned over %d shards (this process: shard %d)", shards, shard)
	}
	rec.Exhaustive(complete)
}
