package xshipper

// C35 The shipper uploads every eligible block completely, at least once.
//
// A generated history (1..2 phases) over a TSDB directory with 1..4 blocks (levels 1..2, possibly
// one empty block), options (upload-compacted, out-of-order uploads, hash function, upload
// concurrency), external labels that may change between phases (SetLabels on the same instance or a
// restart), a thanos.shipper.json that is absent / stale / corrupt / deleted between phases, and a
// "compactor" that may remove uploaded blocks from the bucket between phases. Every phase calls
// Shipper.Sync until it returns nil (at most 3 attempts).
//
// The history is run crash-free (counting M bucket mutations and N bucket operations), then once for
// every crash prefix p = 0..M (the goroutine is frozen at the bucket operation and abandoned; a new
// Shipper is created on the same directory and bucket and the history continues) and once for every
// operation n = 1..N failing (same instance retries).
//
// Oracle (independent of the shipper: plain JSON, file bytes, the harness' own bookkeeping):
//   (a) after a Sync that returned nil, every local block that is non-empty, eligible (level 1, or
//       upload-compacted) and not listed in thanos.shipper.json when that Sync started has meta.json
//       in the bucket, every local index / chunk file is in the bucket with identical bytes, and
//       the external labels in meta.json are those that were current when meta.json was uploaded;
//   (b) after every Sync (nil or error) every ULID newly listed in thanos.shipper.json has meta.json
//       in the bucket;
//   (c) C28's invariant after every applied bucket mutation.

import (
	"context"
	"encoding/json"
	"fmt"
	"os"
	"path/filepath"
	"sort"
	"strings"
	"testing"

	"github.com/go-kit/log"
	"github.com/prometheus/prometheus/model/labels"
	"github.com/thanos-io/objstore"
	"pgregory.net/rapid"

	"github.com/thanos-io/thanos/pkg/block/metadata"
	"github.com/thanos-io/thanos/pkg/shipper"
	"github.com/thanos-io/thanos/verifx/kit"
)

// sigC35PartialCompacted: a failed or crashed upload of a compacted (level > 1) block leaves a
// block directory without meta.json; with upload-compacted and without out-of-order uploads the
// next Sync runs the overlap check first, which downloads meta.json of EVERY block directory in the
// bucket and fails on the shipper's own partial upload - for ever.
const sigC35PartialCompacted = "C35/partial-upload-of-compacted-block-blocks-overlap-check"

var c35Logger = log.NewNopLogger()

type c35Phase struct {
	Labels    map[string]string
	Restart   bool     // a new Shipper instance serves this phase (else SetLabels on the running one)
	Tamper    string   // thanos.shipper.json before the phase: keep | delete | corrupt | stale | badversion
	NewBlocks []int    // indices of blocks that appear in the TSDB directory before this phase
	Compactor []int    // indices of blocks the compactor removed from the bucket before this phase
	StaleIDs  []string // ULIDs written by Tamper == stale (not local blocks)
}

type c35Scenario struct {
	Tmpl            string // directory holding the built blocks
	Blocks          []builtBlock
	Phases          []c35Phase
	UploadCompacted bool
	OOO             bool
	Hash            metadata.HashFunc
	Conc            int
	// RelabelAfterFault (nil = no change): the external labels change right after the injected crash
	// (the restarted instance is configured with them) or failed operation (SetLabels on the running
	// instance) and stay until the next phase sets its own.
	RelabelAfterFault map[string]string
}

func c35RenderLabels(m map[string]string) string {
	ks := make([]string, 0, len(m))
	for k := range m {
		ks = append(ks, k)
	}
	sort.Strings(ks)
	var sb strings.Builder
	for _, k := range ks {
		fmt.Fprintf(&sb, "%s=%s,", k, m[k])
	}
	return sb.String()
}

func (sc c35Scenario) render() string {
	var sb strings.Builder
	fmt.Fprintf(&sb, "shipper compacted=%v ooo=%v hash=%q conc=%d blocks=[", sc.UploadCompacted, sc.OOO, string(sc.Hash), sc.Conc)
	for i, b := range sc.Blocks {
		if i > 0 {
			sb.WriteString(", ")
		}
		sb.WriteString(b.render())
	}
	sb.WriteString("]")
	if sc.RelabelAfterFault != nil {
		fmt.Fprintf(&sb, " relabelAfterFault=%s", c35RenderLabels(sc.RelabelAfterFault))
	}
	for i, p := range sc.Phases {
		fmt.Fprintf(&sb, " phase%d{labels=%s restart=%v shipperfile=%s new=%v compactorRemoved=%v}", i, c35RenderLabels(p.Labels), p.Restart, p.Tamper, p.NewBlocks, p.Compactor)
	}
	return sb.String()
}

type c35Fault struct {
	// CancelOp > 0: the context of the Sync call is cancelled right after its bucket operation with
	// this number was carried out (shutdown, or the per-sync timeout of receive); -1: before the call.
	CancelOp  int
	FailOp    int
	FreezeMut int
	Before    bool
}

func (f c35Fault) String() string {
	switch {
	case f.CancelOp > 0:
		return fmt.Sprintf("cancel-after-op%d", f.CancelOp)
	case f.CancelOp < 0:
		return "cancel-before-sync"
	case f.FailOp > 0:
		return fmt.Sprintf("fail@op%d", f.FailOp)
	case f.FreezeMut > 0 && f.Before:
		return "crash@0"
	case f.FreezeMut > 0:
		return fmt.Sprintf("crash@%d", f.FreezeMut)
	}
	return "crash-free"
}

type c35Outcome struct {
	Viol           string
	Sig            string // signature of the violation's root-cause class, if classified
	Excluded       bool   // stopped because the state belongs to a known finding
	Muts, Ops      int
	FaultHit       bool
	PartialAtFault bool
	Classes        []string
	Log            string
}

// c35ReadListed parses thanos.shipper.json the way its documentation says it is used: a version-1
// file lists uploaded blocks, anything else counts as "no information".
func c35ReadListed(dir string) map[string]bool {
	out := map[string]bool{}
	b, err := os.ReadFile(filepath.Join(dir, "thanos.shipper.json"))
	if err != nil {
		return out
	}
	var doc struct {
		Version  int      `json:"version"`
		Uploaded []string `json:"uploaded"`
	}
	if json.Unmarshal(b, &doc) != nil || doc.Version != 1 {
		return out
	}
	for _, id := range doc.Uploaded {
		out[id] = true
	}
	return out
}

func c35PartialDirs(objs map[string][]byte) map[string]bool {
	has := map[string]bool{}
	meta := map[string]bool{}
	for name := range objs {
		parts := strings.SplitN(name, "/", 2)
		if len(parts) != 2 || !ulidDirRe.MatchString(parts[0]) {
			continue
		}
		has[parts[0]] = true
		if parts[1] == "meta.json" {
			meta[parts[0]] = true
		}
	}
	out := map[string]bool{}
	for id := range has {
		if !meta[id] {
			out[id] = true
		}
	}
	return out
}

// c35RunHistory executes the scenario's history once with the given fault.
func c35RunHistory(sc c35Scenario, fault c35Fault, known bool, work string) (out c35Outcome) {
	dir := filepath.Join(work, "tsdb")
	if err := os.MkdirAll(dir, 0o750); err != nil {
		out.Viol = "HARNESS: " + err.Error()
		return
	}
	defer os.RemoveAll(dir)
	inner := objstore.NewInMemBucket()
	var (
		c28viol      string
		curLabels    string
		uploadLabels = map[string]string{} // block id -> labels current when its meta.json was uploaded
		abandoned    []*crashRun
		roots        []*os.Root
		logLines     []string
		classes      = map[string]bool{}
	)
	logf := func(f string, a ...any) { logLines = append(logLines, fmt.Sprintf(f, a...)) }
	defer func() {
		for _, r := range abandoned {
			r.finish()
		}
		for _, r := range roots {
			_ = r.Close()
		}
		for c := range classes {
			out.Classes = append(out.Classes, c)
		}
		sort.Strings(out.Classes)
		out.Log = strings.Join(logLines, " | ")
	}()
	mkBucket := func(f c35Fault) *opBucket {
		ob := newOpBucket(inner)
		ob.failOp, ob.freezeMut, ob.freezeBefore = f.FailOp, f.FreezeMut, f.Before
		if f.CancelOp > 0 {
			ob.cancelAfterOp = f.CancelOp
		}
		ob.observe = func(o opRec) {
			if o.Kind == "upload" && strings.HasSuffix(o.Name, "/meta.json") {
				uploadLabels[strings.SplitN(o.Name, "/", 2)[0]] = curLabels
			}
			if c28viol != "" {
				return
			}
			objs := inner.Objects()
			if v, _, _ := visibleInvariant(objs); v != "" {
				c28viol = fmt.Sprintf("after %s: %s [bucket: %s]", o, v, objectList(objs))
			}
		}
		return ob
	}
	ob := mkBucket(fault)
	firstOb := ob
	var curLset labels.Labels
	mkShipper := func(b *opBucket) (*shipper.Shipper, error) {
		root, err := os.OpenRoot(dir)
		if err != nil {
			return nil, err
		}
		roots = append(roots, root)
		lset := curLset
		return shipper.New(b, root,
			shipper.WithLogger(c35Logger),
			shipper.WithSource(metadata.SidecarSource),
			shipper.WithHashFunc(sc.Hash),
			shipper.WithLabels(func() labels.Labels { return lset }),
			shipper.WithUploadCompacted(sc.UploadCompacted),
			shipper.WithAllowOutOfOrderUploads(sc.OOO),
			shipper.WithUploadConcurrency(sc.Conc),
		), nil
	}
	present := map[int]bool{}
	relabelled := false
	preCancelled := false
	var sh *shipper.Shipper
	for pi, ph := range sc.Phases {
		// --- environment changes before the phase (not under test)
		for _, bi := range ph.NewBlocks {
			if err := copyTree(sc.Blocks[bi].Dir, filepath.Join(dir, sc.Blocks[bi].ID)); err != nil {
				out.Viol = "HARNESS: " + err.Error()
				return
			}
			present[bi] = true
		}
		for _, bi := range ph.Compactor {
			id := sc.Blocks[bi].ID
			removed := 0
			// meta.json first, like block.Delete, so that the bucket never shows a visible incomplete block.
			if _, ok := inner.Objects()[id+"/meta.json"]; ok {
				_ = inner.Delete(context.Background(), id+"/meta.json")
				removed++
			}
			for name := range inner.Objects() {
				if strings.HasPrefix(name, id+"/") {
					_ = inner.Delete(context.Background(), name)
					removed++
				}
			}
			if removed > 0 {
				classes["compactor-removed-uploaded-block"] = true
			}
		}
		sf := filepath.Join(dir, "thanos.shipper.json")
		switch ph.Tamper {
		case "delete":
			_ = os.Remove(sf)
		case "corrupt":
			_ = os.WriteFile(sf, []byte("{\"version\": 1, \"uploaded\": [\"01"), 0o640)
		case "badversion":
			_ = os.WriteFile(sf, []byte("{\"version\": 2, \"uploaded\": []}"), 0o640)
		case "stale":
			b, _ := json.Marshal(map[string]any{"version": 1, "uploaded": ph.StaleIDs})
			_ = os.WriteFile(sf, b, 0o640)
		}
		curLset = labels.FromMap(ph.Labels)
		curLabels = c35RenderLabels(ph.Labels)
		if sh == nil || ph.Restart {
			s, err := mkShipper(ob)
			if err != nil {
				out.Viol = "HARNESS: " + err.Error()
				return
			}
			sh = s
		} else {
			sh.SetLabels(curLset)
		}
		// --- Sync until it returns nil
		ok := false
		sigCandidate := ""
		var lastErr error
		for attempt := 0; attempt < 3; attempt++ {
			listedBefore := c35ReadListed(dir)
			// pending[i]: block i must be in the bucket after a successful Sync.
			var pending []int
			for bi := range sc.Blocks {
				b := sc.Blocks[bi]
				if present[bi] && !b.Spec.Empty && (b.Spec.Level == 1 || sc.UploadCompacted) && !listedBefore[b.ID] {
					pending = append(pending, bi)
				}
			}
			// known finding: the shipper's own partial upload of a compacted block blocks the overlap check.
			if sc.UploadCompacted && !sc.OOO {
				partial := c35PartialDirs(inner.Objects())
				for _, bi := range pending {
					if sc.Blocks[bi].Spec.Level > 1 && partial[sc.Blocks[bi].ID] {
						classes["state-of-"+sigC35PartialCompacted] = true
						if known {
							out.Excluded = true
							return
						}
						sigCandidate = sigC35PartialCompacted
					}
				}
			}
			theSh, theOb := sh, ob
			run := runCrashable(ob, func(ctx context.Context) error {
				cctx, cancel := context.WithCancel(ctx)
				defer cancel()
				theOb.armCancel(cancel)
				if fault.CancelOp < 0 && !preCancelled {
					preCancelled = true
					theOb.cancelNow()
					out.FaultHit = true
				}
				_, err := theSh.Sync(cctx)
				return err
			})
			if run.Panic != nil {
				out.Viol = fmt.Sprintf("phase %d: Sync panicked: %v", pi, run.Panic)
				return
			}
			if run.Crashed {
				abandoned = append(abandoned, run)
				out.FaultHit = true
				out.PartialAtFault = len(c35PartialDirs(inner.Objects())) > 0
				logf("phase %d attempt %d: CRASH after ops [%s]", pi, attempt, renderOps(ob.opLog()))
				crashObjs := inner.Objects()
				for id := range c35ReadListed(dir) {
					if _, okm := crashObjs[id+"/meta.json"]; !listedBefore[id] && !okm {
						out.Viol = fmt.Sprintf("phase %d: at the crash thanos.shipper.json newly lists %s as uploaded but the bucket has no %s/meta.json [bucket: %s]", pi, id, id, objectList(crashObjs))
						return
					}
				}
				if c28viol != "" {
					out.Viol = "C28 invariant: " + c28viol
					return
				}
				// restart: a new process = new Shipper on the same directory and bucket, no more faults.
				if sc.RelabelAfterFault != nil {
					curLset = labels.FromMap(sc.RelabelAfterFault)
					curLabels = c35RenderLabels(sc.RelabelAfterFault)
					classes["labels-changed-after-fault"] = true
				}
				ob = mkBucket(c35Fault{})
				s, err := mkShipper(ob)
				if err != nil {
					out.Viol = "HARNESS: " + err.Error()
					return
				}
				sh = s
				attempt = -1
				continue
			}
			logf("phase %d attempt %d: Sync err=%v", pi, attempt, run.Err)
			if nops, _ := firstOb.counts(); fault.CancelOp > 0 && !out.FaultHit && nops >= fault.CancelOp {
				out.FaultHit = true
				classes["sync-context-cancelled-between-operations"] = true
				if run.Err == nil {
					classes["cancelled-sync-returned-nil"] = true
				}
			}
			if nops, _ := firstOb.counts(); fault.FailOp > 0 && !out.FaultHit && nops >= fault.FailOp {
				out.FaultHit = true
				out.PartialAtFault = len(c35PartialDirs(inner.Objects())) > 0
			}
			if c28viol != "" {
				out.Viol = "C28 invariant: " + c28viol
				return
			}
			objs := inner.Objects()
			// (b) nothing is recorded as uploaded that is not in the bucket
			listedNow := c35ReadListed(dir)
			var ids []string
			for id := range listedNow {
				ids = append(ids, id)
			}
			sort.Strings(ids)
			for _, id := range ids {
				if listedBefore[id] {
					continue
				}
				if _, okm := objs[id+"/meta.json"]; !okm {
					out.Viol = fmt.Sprintf("phase %d attempt %d (Sync err=%v): thanos.shipper.json newly lists %s as uploaded but the bucket has no %s/meta.json [bucket: %s]", pi, attempt, run.Err, id, id, objectList(objs))
					return
				}
			}
			if run.Err != nil {
				lastErr = run.Err
				if sc.RelabelAfterFault != nil && fault.FailOp > 0 && out.FaultHit && !relabelled {
					relabelled = true
					curLset = labels.FromMap(sc.RelabelAfterFault)
					curLabels = c35RenderLabels(sc.RelabelAfterFault)
					sh.SetLabels(curLset)
					classes["labels-changed-after-fault"] = true
				}
				continue
			}
			// (a) a successful Sync: every pending block is completely in the bucket
			for _, bi := range pending {
				b := sc.Blocks[bi]
				mb, okm := objs[b.ID+"/meta.json"]
				if !okm {
					out.Viol = fmt.Sprintf("phase %d attempt %d: Sync returned nil but eligible block %s (%s) has no meta.json in the bucket [bucket: %s]", pi, attempt, b.ID, b.render(), objectList(objs))
					return
				}
				for _, rel := range sortedKeys(b.Files) {
					want, err := os.ReadFile(filepath.Join(b.Dir, filepath.FromSlash(rel)))
					if err != nil {
						out.Viol = "HARNESS: " + err.Error()
						return
					}
					got, okf := objs[b.ID+"/"+rel]
					if !okf {
						out.Viol = fmt.Sprintf("phase %d: Sync returned nil but file %s of eligible block %s is not in the bucket", pi, rel, b.ID)
						return
					}
					if string(got) != string(want) {
						out.Viol = fmt.Sprintf("phase %d: Sync returned nil but file %s of block %s differs from the local file (%d vs %d bytes)", pi, rel, b.ID, len(got), len(want))
						return
					}
				}
				var vm visMeta
				if err := json.Unmarshal(mb, &vm); err != nil {
					out.Viol = fmt.Sprintf("phase %d: meta.json of %s is not JSON: %v", pi, b.ID, err)
					return
				}
				wantL, okl := uploadLabels[b.ID]
				if !okl {
					out.Viol = fmt.Sprintf("HARNESS: meta.json of %s is in the bucket but its upload was never observed", b.ID)
					return
				}
				if gotL := c35RenderLabels(vm.Thanos.Labels); gotL != wantL {
					out.Viol = fmt.Sprintf("phase %d: block %s was uploaded while the external labels were {%s} but its meta.json says {%s}", pi, b.ID, wantL, gotL)
					return
				}
				if wantL != curLabels {
					classes["block-keeps-labels-of-earlier-upload"] = true
				}
			}
			ok = true
			if len(pending) > 0 {
				classes["sync-ok-with-pending-blocks"] = true
			}
			break
		}
		if !ok {
			out.Viol = fmt.Sprintf("phase %d: Sync did not succeed within 3 attempts on a healthy bucket and directory (last error: %v), so eligible blocks are never uploaded", pi, lastErr)
			out.Sig = sigCandidate
			return
		}
	}
	out.Ops, out.Muts = firstOb.counts()
	return
}

func c35GenLabels(rt *rapid.T, label string) map[string]string {
	return rapid.SampledFrom([]map[string]string{
		{"ext": "a"},
		{"ext": "b"},
		{"ext": "a", "region": "x"},
		{"region": "y"},
	}).Draw(rt, label)
}

func c35GenScenario(rt *rapid.T, tmpl string) c35Scenario {
	sc := c35Scenario{Tmpl: tmpl}
	n := rapid.IntRange(1, 4).Draw(rt, "blocks")
	nPhases := rapid.SampledFrom([]int{1, 2, 2}).Draw(rt, "phases")
	sc.UploadCompacted = rapid.Bool().Draw(rt, "uploadCompacted")
	sc.OOO = rapid.Bool().Draw(rt, "allowOutOfOrder")
	if rapid.Bool().Draw(rt, "sha256") {
		sc.Hash = metadata.SHA256Func
	}
	sc.Conc = rapid.SampledFrom([]int{0, 0, 0, 3}).Draw(rt, "uploadConcurrency")
	emptyAt := -1
	if rapid.IntRange(0, 3).Draw(rt, "hasEmpty") == 0 {
		emptyAt = rapid.IntRange(0, n-1).Draw(rt, "emptyAt")
	}
	// which phase each block appears in; blocks of later phases are later in time.
	phaseOf := make([]int, n)
	for i := range phaseOf {
		if nPhases == 2 {
			phaseOf[i] = rapid.IntRange(0, 1).Draw(rt, "phaseOf")
		}
	}
	if nPhases == 2 && n >= 2 && rapid.IntRange(0, 3).Draw(rt, "forceNewBlock") > 0 {
		phaseOf[n-1] = 1 // usually at least one block appears between the syncs
	}
	sort.Ints(phaseOf)
	minT := int64(1_600_000_000_000)
	seen := map[string]bool{}
	for i := 0; i < n; i++ {
		spec := genBlockSpec(rt, fmt.Sprintf("b%d", i), minT)
		spec.Series = rapid.IntRange(1, 3).Draw(rt, "series")
		spec.Samples = rapid.IntRange(1, 130).Draw(rt, "samples")
		spec.Segments = rapid.IntRange(1, 2).Draw(rt, "segments")
		if spec.Series < spec.Segments {
			spec.Series = spec.Segments
		}
		spec.Level = rapid.SampledFrom([]int{1, 1, 2}).Draw(rt, "level")
		spec.Empty = i == emptyAt
		if seen[spec.ULID.String()] {
			rt.Skip("same ULID drawn twice")
		}
		seen[spec.ULID.String()] = true
		b, err := buildBlock(tmpl, spec) // a plain Prometheus block, no Thanos section
		if err != nil {
			rt.Fatalf("HARNESS: build block: %v", err)
		}
		sc.Blocks = append(sc.Blocks, b)
		minT = spec.MaxT() + int64(rapid.IntRange(0, 2).Draw(rt, "gap"))*1000
	}
	for p := 0; p < nPhases; p++ {
		ph := c35Phase{Labels: c35GenLabels(rt, fmt.Sprintf("labels%d", p))}
		for i := range sc.Blocks {
			if phaseOf[i] == p {
				ph.NewBlocks = append(ph.NewBlocks, i)
			}
		}
		if p == 0 {
			ph.Tamper = rapid.SampledFrom([]string{"keep", "keep", "stale", "corrupt", "badversion"}).Draw(rt, "shipperFile0")
		} else {
			ph.Restart = rapid.IntRange(0, 2).Draw(rt, "restart") == 0
			if rapid.IntRange(0, 2).Draw(rt, "sameLabels") == 0 {
				ph.Labels = sc.Phases[0].Labels
			}
			ph.Tamper = rapid.SampledFrom([]string{"keep", "keep", "keep", "delete", "stale", "corrupt", "badversion"}).Draw(rt, "shipperFile1")
			for i := range sc.Blocks {
				if phaseOf[i] == 0 && rapid.IntRange(0, 3).Draw(rt, "compactorRemoves") == 0 {
					ph.Compactor = append(ph.Compactor, i)
				}
			}
		}
		if ph.Tamper == "stale" {
			k := rapid.IntRange(1, 2).Draw(rt, "staleN")
			for j := 0; j < k; j++ {
				id := genULID(rt, "stale").String()
				if seen[id] {
					rt.Skip("same ULID drawn twice")
				}
				ph.StaleIDs = append(ph.StaleIDs, id)
			}
		}
		sc.Phases = append(sc.Phases, ph)
	}
	if rapid.Bool().Draw(rt, "relabelAfterFault") {
		sc.RelabelAfterFault = c35GenLabels(rt, "labelsAfterFault")
	}
	return sc
}

// c35Enumerate runs the history crash-free and under every crash prefix and every failing
// operation. It returns the first violation.
func c35Enumerate(sc c35Scenario, known bool, work string, sink func(key string, nt bool, classes ...string), excluded func()) (viol, sig string) {
	name := sc.render()
	var scCls []string
	scCls = append(scCls, fmt.Sprintf("phases-%d", len(sc.Phases)), fmt.Sprintf("blocks-%d", len(sc.Blocks)))
	if sc.UploadCompacted {
		scCls = append(scCls, "opt-upload-compacted")
	}
	if sc.OOO {
		scCls = append(scCls, "opt-out-of-order")
	}
	if sc.Conc > 1 {
		scCls = append(scCls, "opt-concurrent-upload")
	}
	for _, b := range sc.Blocks {
		if b.Spec.Level > 1 {
			scCls = append(scCls, "has-compacted-block")
			break
		}
	}
	for _, b := range sc.Blocks {
		if b.Spec.Empty {
			scCls = append(scCls, "has-empty-block")
		}
	}
	for i, p := range sc.Phases {
		scCls = append(scCls, fmt.Sprintf("shipperfile%d-%s", i, p.Tamper))
		if i > 0 {
			if p.Restart {
				scCls = append(scCls, "restart-between-phases")
			}
			if c35RenderLabels(p.Labels) != c35RenderLabels(sc.Phases[0].Labels) {
				scCls = append(scCls, "labels-changed")
			}
			if len(p.NewBlocks) > 0 {
				scCls = append(scCls, "new-blocks-in-phase1")
				if !p.Restart && c35RenderLabels(p.Labels) != c35RenderLabels(sc.Phases[0].Labels) {
					scCls = append(scCls, "setlabels-then-new-blocks")
				}
			}
		}
	}
	base := c35RunHistory(sc, c35Fault{}, known, work)
	if base.Viol != "" {
		return fmt.Sprintf("crash-free history: %s\nlog: %s", base.Viol, base.Log), base.Sig
	}
	if base.Excluded {
		return "HARNESS: the crash-free history reached the state of a known finding", ""
	}
	sink(fmt.Sprintf("%s | crash-free M=%d ops=%d", name, base.Muts, base.Ops), false, append(append(base.Classes, "crash-free"), scCls...)...)
	var faults []c35Fault
	if base.Muts > 0 {
		faults = append(faults, c35Fault{FreezeMut: 1, Before: true})
	}
	for k := 1; k <= base.Muts; k++ {
		faults = append(faults, c35Fault{FreezeMut: k})
	}
	for n := 1; n <= base.Ops; n++ {
		faults = append(faults, c35Fault{FailOp: n})
	}
	if base.Ops > 0 {
		faults = append(faults, c35Fault{CancelOp: -1})
	}
	for n := 1; n <= base.Ops; n++ {
		faults = append(faults, c35Fault{CancelOp: n})
	}
	for _, f := range faults {
		o := c35RunHistory(sc, f, known, work)
		if o.Viol != "" {
			return fmt.Sprintf("%s: %s\nlog: %s", f, o.Viol, o.Log), o.Sig
		}
		if o.Excluded {
			excluded()
			continue
		}
		if !o.FaultHit {
			return fmt.Sprintf("HARNESS: %s: the fault point was never reached (M=%d ops=%d)\nlog: %s", f, base.Muts, base.Ops, o.Log), ""
		}
		cls := append(append([]string{}, o.Classes...), scCls...)
		if f.CancelOp != 0 {
			cls = append(cls, "cancel")
		} else if f.FailOp > 0 {
			cls = append(cls, "fail-op")
		} else {
			cls = append(cls, "crash")
		}
		if o.PartialAtFault {
			cls = append(cls, "partial-block-at-fault")
		}
		sink(fmt.Sprintf("%s | %s", name, f), o.PartialAtFault, cls...)
	}
	return "", ""
}

// c35RegressionPartialCompacted is the saved minimal input of the known finding: one compacted
// block, upload-compacted on, out-of-order uploads off, the upload of its index file fails once.
func c35RegressionPartialCompacted(work string) (string, error) {
	tmpl := filepath.Join(work, "template")
	spec := blockSpec{Series: 1, Samples: 3, Step: 1000, ValSeed: 1, Segments: 1, Level: 2, MinT: 1_600_000_000_000}
	if err := spec.ULID.UnmarshalText([]byte("01EJ3PX0000000000000000001")); err != nil {
		return "", err
	}
	b, err := buildBlock(tmpl, spec)
	if err != nil {
		return "", err
	}
	sc := c35Scenario{Tmpl: tmpl, Blocks: []builtBlock{b}, UploadCompacted: true, OOO: false,
		Phases: []c35Phase{{Labels: map[string]string{"ext": "a"}, Tamper: "keep", NewBlocks: []int{0}}}}
	// operations of the crash-free sync: exists meta.json, iter "" (overlap check), upload chunk, upload index, upload meta
	base := c35RunHistory(sc, c35Fault{}, false, work)
	if base.Viol != "" {
		return "", fmt.Errorf("crash-free regression history failed: %s", base.Viol)
	}
	o := c35RunHistory(sc, c35Fault{FailOp: base.Ops - 1}, false, work)
	return o.Viol, nil
}

func TestVerifC35(t *testing.T) {
	rec := kit.For(t, "C35")
	known := kit.KnownFindings("C35")[sigC35PartialCompacted]
	{
		work, err := os.MkdirTemp("", "c35r-")
		if err != nil {
			t.Fatalf("HARNESS: %v", err)
		}
		viol, err := c35RegressionPartialCompacted(work)
		_ = os.RemoveAll(work)
		if err != nil {
			t.Fatalf("HARNESS: %v", err)
		}
		if viol != "" {
			if known {
				rec.Known(sigC35PartialCompacted, "one failed upload of a compacted block (upload-compacted, no out-of-order uploads) and no later Sync succeeds: "+viol)
			} else {
				rec.Violation(t, "regression %s: %s", sigC35PartialCompacted, viol)
			}
		}
	}
	rec.Check(t, func(rt *rapid.T) {
		work, err := os.MkdirTemp("", "c35-")
		if err != nil {
			rt.Fatalf("HARNESS: %v", err)
		}
		defer os.RemoveAll(work)
		sc := c35GenScenario(rt, filepath.Join(work, "template"))
		viol, sig := c35Enumerate(sc, known, work, func(key string, nt bool, classes ...string) {
			rec.Case(key, nt, classes...)
		}, func() { rec.Excluded(sigC35PartialCompacted) })
		if viol != "" {
			if sig != "" {
				rt.Fatalf("C35 violated [%s] in scenario %s: %s", sig, sc.render(), viol)
			}
			rt.Fatalf("C35 violated in scenario %s: %s", sc.render(), viol)
		}
	})
	if !t.Failed() {
		rec.Exhaustive(true)
	}
}
