package xshipper

// Shared machinery of the block-visibility / shipper checks (C28, C35). The same file is used (with a
// different package clause) by the groups xblock, xshipper and replicatei.
//
//   * opBucket        F-opbucket of DESIGN §3: numbers every bucket operation, observes after every
//                     mutation, can fail one operation, can freeze (= crash) at a mutation.
//   * runCrashable    runs a component on its own goroutine and reports "returned" or "parked".
//   * buildBlock      writes a real TSDB block (index + 1..n chunk segment files + meta.json +
//                     tombstones) directly with the Prometheus index / chunk writers.
//   * visibleInvariant / deletionInvariant   the independent oracles of C28 (plain JSON + byte
//                     lengths; they do not use any Thanos code).

import (
	"bytes"
	"context"
	"encoding/json"
	"errors"
	"fmt"
	"io"
	"math"
	"os"
	"path/filepath"
	"regexp"
	"sort"
	"strings"
	"sync"

	"github.com/oklog/ulid/v2"
	"github.com/prometheus/prometheus/model/labels"
	"github.com/prometheus/prometheus/storage"
	"github.com/prometheus/prometheus/tsdb"
	"github.com/prometheus/prometheus/tsdb/chunkenc"
	"github.com/prometheus/prometheus/tsdb/chunks"
	"github.com/prometheus/prometheus/tsdb/index"
	"github.com/prometheus/prometheus/tsdb/tombstones"
	"github.com/thanos-io/objstore"
	"pgregory.net/rapid"
)

// ------------------------------------------------------------------------------------------------
// F-opbucket

var (
	errVerifInjected = errors.New("verif: injected bucket failure")
	errVerifCrashed  = errors.New("verif: process crashed (frozen bucket operation released)")
)

type opRec struct {
	N    int    // global operation number (1-based, reads and mutations)
	Mut  int    // mutation number (1-based), 0 for reads
	Kind string // upload, delete, get, getrange, exists, iter, attributes
	Name string
	Err  bool
}

func (o opRec) String() string {
	s := fmt.Sprintf("#%d %s %s", o.N, o.Kind, o.Name)
	if o.Mut > 0 {
		s = fmt.Sprintf("#%d(m%d) %s %s", o.N, o.Mut, o.Kind, o.Name)
	}
	if o.Err {
		s += " !err"
	}
	return s
}

// opBucket wraps an in-memory bucket. All operations are serialized by mu, so the operation numbers
// form a total order even if the component uploads concurrently, and "the state after mutation k" is
// well defined.
type opBucket struct {
	objstore.Bucket // the inner bucket: Name, Close, Provider, IsObjNotFoundErr, ...
	inner           *objstore.InMemBucket

	mu   sync.Mutex
	ops  int
	muts int
	log  []opRec

	failOp       int  // fail (without applying) the operation with this global number; 0 = none
	// cancelAfterOp: once the operation with this number was carried out, the caller's context is
	// cancelled (cancel) and every later operation fails with context.Canceled, as a bucket client
	// that honours the context does; armCancel re-arms it for the next call of the component.
	cancelAfterOp int
	cancel        func()
	cancelled     bool
	freezeMut    int  // crash at this mutation; 0 = none
	freezeBefore bool // true: park before applying mutation freezeMut; false: apply it, then park
	// every mutation after the freeze point parks without being applied.

	observe func(o opRec) // called (under mu) after every applied mutation

	release  chan struct{}
	parked   chan struct{}
	parkOnce sync.Once
	frozen   bool
}

func newOpBucket(inner *objstore.InMemBucket) *opBucket {
	return &opBucket{Bucket: inner, inner: inner, release: make(chan struct{}), parked: make(chan struct{})}
}

func (b *opBucket) park() error {
	b.parkOnce.Do(func() { close(b.parked) })
	<-b.release
	return errVerifCrashed
}

// counts returns (operations, mutations) seen so far.
func (b *opBucket) counts() (int, int) {
	b.mu.Lock()
	defer b.mu.Unlock()
	return b.ops, b.muts
}

func (b *opBucket) opLog() []opRec {
	b.mu.Lock()
	defer b.mu.Unlock()
	return append([]opRec(nil), b.log...)
}

func (b *opBucket) armCancel(cancel func()) {
	b.mu.Lock()
	b.cancel, b.cancelled = cancel, false
	b.mu.Unlock()
}

// cancelNow cancels the caller's context before it issued any operation.
func (b *opBucket) cancelNow() {
	b.mu.Lock()
	b.cancelled = true
	if b.cancel != nil {
		b.cancel()
	}
	b.mu.Unlock()
}

// afterOp is called under mu once operation n was carried out.
func (b *opBucket) afterOp(n int) {
	if b.cancelAfterOp > 0 && n == b.cancelAfterOp {
		b.cancelled = true
		if b.cancel != nil {
			b.cancel()
		}
	}
}

func (b *opBucket) mutate(kind, name string, apply func() error) error {
	b.mu.Lock()
	b.ops++
	b.muts++
	o := opRec{N: b.ops, Mut: b.muts, Kind: kind, Name: name}
	if b.cancelled {
		o.Err = true
		b.log = append(b.log, o)
		b.mu.Unlock()
		return context.Canceled
	}
	if b.frozen || (b.freezeMut > 0 && (o.Mut > b.freezeMut || (o.Mut == b.freezeMut && b.freezeBefore))) {
		b.frozen = true
		b.mu.Unlock()
		return b.park()
	}
	if b.failOp == o.N {
		o.Err = true
		b.log = append(b.log, o)
		b.mu.Unlock()
		return errVerifInjected
	}
	err := apply()
	o.Err = err != nil
	b.log = append(b.log, o)
	if err == nil && b.observe != nil {
		b.observe(o)
	}
	b.afterOp(o.N)
	parkAfter := b.freezeMut > 0 && o.Mut == b.freezeMut
	if parkAfter {
		b.frozen = true
	}
	b.mu.Unlock()
	if parkAfter {
		return b.park()
	}
	return err
}

// read numbers a reading operation; it returns an error iff the operation must fail.
func (b *opBucket) read(kind, name string) error {
	b.mu.Lock()
	defer b.mu.Unlock()
	b.ops++
	o := opRec{N: b.ops, Kind: kind, Name: name}
	if b.cancelled {
		o.Err = true
		b.log = append(b.log, o)
		return context.Canceled
	}
	if b.failOp == o.N {
		o.Err = true
		b.log = append(b.log, o)
		return errVerifInjected
	}
	b.log = append(b.log, o)
	b.afterOp(o.N)
	return nil
}

func (b *opBucket) Upload(ctx context.Context, name string, r io.Reader, opts ...objstore.ObjectUploadOption) error {
	return b.mutate("upload", name, func() error { return b.inner.Upload(ctx, name, r, opts...) })
}

func (b *opBucket) Delete(ctx context.Context, name string) error {
	return b.mutate("delete", name, func() error { return b.inner.Delete(ctx, name) })
}

func (b *opBucket) Get(ctx context.Context, name string) (io.ReadCloser, error) {
	if err := b.read("get", name); err != nil {
		return nil, err
	}
	return b.inner.Get(ctx, name)
}

func (b *opBucket) GetRange(ctx context.Context, name string, off, length int64) (io.ReadCloser, error) {
	if err := b.read("getrange", name); err != nil {
		return nil, err
	}
	return b.inner.GetRange(ctx, name, off, length)
}

func (b *opBucket) Exists(ctx context.Context, name string) (bool, error) {
	if err := b.read("exists", name); err != nil {
		return false, err
	}
	return b.inner.Exists(ctx, name)
}

func (b *opBucket) Attributes(ctx context.Context, name string) (objstore.ObjectAttributes, error) {
	if err := b.read("attributes", name); err != nil {
		return objstore.ObjectAttributes{}, err
	}
	return b.inner.Attributes(ctx, name)
}

func (b *opBucket) Iter(ctx context.Context, dir string, f func(string) error, options ...objstore.IterOption) error {
	if err := b.read("iter", dir); err != nil {
		return err
	}
	return b.inner.Iter(ctx, dir, f, options...)
}

func (b *opBucket) IterWithAttributes(ctx context.Context, dir string, f func(objstore.IterObjectAttributes) error, options ...objstore.IterOption) error {
	if err := b.read("iter", dir); err != nil {
		return err
	}
	return b.inner.IterWithAttributes(ctx, dir, f, options...)
}

// crashRun is one execution of a component over an opBucket.
type crashRun struct {
	Err     error // the component's result if it returned
	Crashed bool  // the component was parked at the freeze point and abandoned
	Panic   any
	finish  func()
}

// runCrashable runs f on its own goroutine. It returns when f returned or when f is parked at the
// freeze point of b. Finish must be called (after the oracle ran) to release an abandoned goroutine
// and wait for it; it is idempotent.
func runCrashable(b *opBucket, f func(ctx context.Context) error) *crashRun {
	ctx, cancel := context.WithCancel(context.Background())
	done := make(chan struct{})
	r := &crashRun{}
	var ferr error
	var fpanic any
	go func() {
		defer close(done)
		defer func() {
			if p := recover(); p != nil {
				fpanic = p
			}
		}()
		ferr = f(ctx)
	}()
	var once sync.Once
	r.finish = func() {
		once.Do(func() {
			close(b.release)
			cancel()
			<-done
		})
	}
	select {
	case <-done:
		r.Err, r.Panic = ferr, fpanic
		once.Do(func() { cancel() })
	case <-b.parked:
		r.Crashed = true
	}
	return r
}

// ------------------------------------------------------------------------------------------------
// Oracles of C28 (independent of Thanos code: plain JSON and object lengths).

var ulidDirRe = regexp.MustCompile(`^[0-9A-HJKMNP-TV-Z]{26}$`)

type visMetaFile struct {
	RelPath   string `json:"rel_path"`
	SizeBytes int64  `json:"size_bytes"`
}

type visMeta struct {
	ULID   string `json:"ulid"`
	Thanos struct {
		Labels map[string]string `json:"labels"`
		Files  []visMetaFile     `json:"files"`
	} `json:"thanos"`
}

// visibleInvariant checks: for every block directory whose meta.json is present, every index /
// chunk file listed in meta.json exists with the recorded size. It returns a violation text or "",
// and the number of visible blocks and of listed data files it verified.
func visibleInvariant(objs map[string][]byte) (viol string, visible, files int) {
	var metas []string
	for name := range objs {
		parts := strings.Split(name, "/")
		if len(parts) == 2 && parts[1] == "meta.json" && ulidDirRe.MatchString(parts[0]) {
			metas = append(metas, name)
		}
	}
	sort.Strings(metas)
	for _, name := range metas {
		id := strings.SplitN(name, "/", 2)[0]
		var m visMeta
		if err := json.Unmarshal(objs[name], &m); err != nil {
			return fmt.Sprintf("block %s: meta.json in the bucket is not valid JSON: %v", id, err), visible, files
		}
		visible++
		for _, f := range m.Thanos.Files {
			rel := filepath.ToSlash(f.RelPath)
			if rel == "meta.json" || rel == "" {
				continue
			}
			o, ok := objs[id+"/"+rel]
			if !ok {
				return fmt.Sprintf("block %s is visible (meta.json present) but listed file %q is missing", id, rel), visible, files
			}
			if int64(len(o)) != f.SizeBytes {
				return fmt.Sprintf("block %s is visible but listed file %q has %d bytes, meta.json records %d", id, rel, len(o), f.SizeBytes), visible, files
			}
			files++
		}
	}
	return "", visible, files
}

// deletionInvariant checks for every block id in started (deletion was started with a deletion
// mark): any other object left under the block directory => deletion-mark.json still present.
func deletionInvariant(objs map[string][]byte, started map[string]bool) string {
	ids := make([]string, 0, len(started))
	for id := range started {
		ids = append(ids, id)
	}
	sort.Strings(ids)
	for _, id := range ids {
		_, mark := objs[id+"/deletion-mark.json"]
		if mark {
			continue
		}
		var left []string
		for name := range objs {
			if strings.HasPrefix(name, id+"/") {
				left = append(left, name)
			}
		}
		if len(left) > 0 {
			sort.Strings(left)
			return fmt.Sprintf("block %s: deletion-mark.json is gone while %d other object(s) remain: %v", id, len(left), left)
		}
	}
	return ""
}

func objectList(objs map[string][]byte) string {
	names := make([]string, 0, len(objs))
	for n := range objs {
		names = append(names, fmt.Sprintf("%s(%d)", n, len(objs[n])))
	}
	sort.Strings(names)
	return strings.Join(names, " ")
}

func renderOps(ops []opRec) string {
	var sb strings.Builder
	for i, o := range ops {
		if i > 0 {
			sb.WriteString("; ")
		}
		sb.WriteString(o.String())
	}
	return sb.String()
}

// ------------------------------------------------------------------------------------------------
// Block builder

type blockSpec struct {
	ULID     ulid.ULID
	MinT     int64 // first sample timestamp
	Series   int
	Samples  int   // per series
	Step     int64 // ms between samples
	ValSeed  uint64
	Segments int // wanted number of chunk segment files (the result may differ by one)
	Level    int // compaction level written to meta.json
	Empty    bool
}

func (s blockSpec) MaxT() int64 { return s.MinT + int64(s.Samples-1)*s.Step + 1 }

type builtBlock struct {
	Spec     blockSpec
	Dir      string           // <parent>/<ULID>
	ID       string           // ULID string
	Files    map[string]int64 // relative slash path -> size, index and chunks/* only
	Segments int
	SegSizes []int64
}

func (b builtBlock) render() string {
	return fmt.Sprintf("blk{series=%d samples=%d segs=%v idx=%d lvl=%d empty=%v t=[%d,%d)}", b.Spec.Series, b.Spec.Samples, b.SegSizes, b.Files["index"], b.Spec.Level, b.Spec.Empty, b.Spec.MinT, b.Spec.MaxT())
}

func genULID(t *rapid.T, label string) ulid.ULID {
	ms := rapid.Uint64Range(1_600_000_000_000, 1_700_000_000_000).Draw(t, label+"-ms")
	ent := rapid.SliceOfN(rapid.Byte(), 10, 10).Draw(t, label+"-entropy")
	var id ulid.ULID
	if err := id.SetTime(ms); err != nil {
		panic(err)
	}
	if err := id.SetEntropy(ent); err != nil {
		panic(err)
	}
	return id
}

func genBlockSpec(t *rapid.T, label string, minT int64) blockSpec {
	s := blockSpec{
		ULID:     genULID(t, label+"-ulid"),
		MinT:     minT,
		Series:   rapid.IntRange(1, 6).Draw(t, label+"-series"),
		Samples:  rapid.IntRange(1, 260).Draw(t, label+"-samples"),
		Step:     rapid.SampledFrom([]int64{1000, 15000}).Draw(t, label+"-step"),
		ValSeed:  rapid.Uint64().Draw(t, label+"-valseed"),
		Segments: rapid.IntRange(1, 3).Draw(t, label+"-segments"),
		Level:    1,
	}
	if s.Series < s.Segments {
		s.Series = s.Segments // one chunk per series at least, so the wanted segment count is reachable
	}
	return s
}

func splitmix(x *uint64) uint64 {
	*x += 0x9e3779b97f4a7c15
	z := *x
	z = (z ^ (z >> 30)) * 0xbf58476d1ce4e5b9
	z = (z ^ (z >> 27)) * 0x94d049bb133111eb
	return z ^ (z >> 31)
}

// buildBlock writes the block described by spec under parent and returns its description.
func buildBlock(parent string, spec blockSpec) (builtBlock, error) {
	out := builtBlock{Spec: spec, ID: spec.ULID.String(), Files: map[string]int64{}}
	dir := filepath.Join(parent, out.ID)
	out.Dir = dir
	if err := os.MkdirAll(filepath.Join(dir, "chunks"), 0o750); err != nil {
		return out, err
	}
	// encode all chunks first so that the segment size can be derived from the total.
	type ser struct {
		lset labels.Labels
		chks []chunks.Meta
	}
	var all []ser
	seed := spec.ValSeed
	var total, maxChunk int64
	var nchunks, nsamples uint64
	for i := 0; i < spec.Series; i++ {
		s := ser{lset: labels.FromStrings("__name__", "m", "s", fmt.Sprintf("%03d", i))}
		var c chunkenc.Chunk
		var app chunkenc.Appender
		var cm chunks.Meta
		for j := 0; j < spec.Samples; j++ {
			ts := spec.MinT + int64(j)*spec.Step
			if j%120 == 0 {
				if c != nil {
					cm.Chunk = c
					s.chks = append(s.chks, cm)
				}
				c = chunkenc.NewXORChunk()
				a, err := c.Appender()
				if err != nil {
					return out, err
				}
				app = a
				cm = chunks.Meta{MinTime: ts}
			}
			r := splitmix(&seed)
			var v float64
			switch r % 3 {
			case 0:
				v = float64(int64(r>>8) % 1000)
			case 1:
				v = math.Float64frombits(r>>2) + 1
				if math.IsNaN(v) || math.IsInf(v, 0) {
					v = 1
				}
			default:
				v = float64(j)
			}
			app.Append(ts, v)
			cm.MaxTime = ts
			nsamples++
		}
		cm.Chunk = c
		s.chks = append(s.chks, cm)
		for _, m := range s.chks {
			sz := int64(chunks.MaxChunkLengthFieldSize) + chunks.ChunkEncodingSize + int64(len(m.Chunk.Bytes())) + 4
			total += sz
			if sz > maxChunk {
				maxChunk = sz
			}
			nchunks++
		}
		all = append(all, s)
	}
	segSize := int64(chunks.DefaultChunkSegmentSize)
	if spec.Segments > 1 {
		// greedy filling puts more than total/Segments bytes into every segment but the last, so at
		// most spec.Segments files result (fewer if there are fewer chunks).
		segSize = total/int64(spec.Segments) + maxChunk + int64(chunks.SegmentHeaderSize)
	}
	cw, err := chunks.NewWriter(filepath.Join(dir, "chunks"), chunks.WithSegmentSize(segSize))
	if err != nil {
		return out, err
	}
	iw, err := index.NewWriter(context.Background(), filepath.Join(dir, "index"))
	if err != nil {
		return out, err
	}
	syms := map[string]struct{}{}
	for _, s := range all {
		s.lset.Range(func(l labels.Label) { syms[l.Name] = struct{}{}; syms[l.Value] = struct{}{} })
	}
	symList := make([]string, 0, len(syms))
	for s := range syms {
		symList = append(symList, s)
	}
	sort.Strings(symList)
	for _, s := range symList {
		if err := iw.AddSymbol(s); err != nil {
			return out, err
		}
	}
	for i, s := range all {
		if err := cw.WriteChunks(s.chks...); err != nil {
			return out, err
		}
		if err := iw.AddSeries(storage.SeriesRef(i), s.lset, s.chks...); err != nil {
			return out, err
		}
	}
	if err := cw.Close(); err != nil {
		return out, err
	}
	if err := iw.Close(); err != nil {
		return out, err
	}
	if _, err := tombstones.WriteFile(nil, dir, tombstones.NewMemTombstones()); err != nil {
		return out, err
	}
	if spec.Empty {
		nsamples = 0
	}
	meta := map[string]any{
		"ulid":    out.ID,
		"minTime": spec.MinT,
		"maxTime": spec.MaxT(),
		"stats": map[string]any{
			"numSamples": nsamples, "numFloatSamples": nsamples, "numSeries": spec.Series, "numChunks": nchunks,
		},
		"compaction": map[string]any{"level": spec.Level, "sources": []string{out.ID}},
		"version":    1,
	}
	if spec.Empty {
		meta["stats"] = map[string]any{}
	}
	mb, err := json.MarshalIndent(meta, "", "\t")
	if err != nil {
		return out, err
	}
	if err := os.WriteFile(filepath.Join(dir, "meta.json"), mb, 0o640); err != nil {
		return out, err
	}
	// describe
	fi, err := os.Stat(filepath.Join(dir, "index"))
	if err != nil {
		return out, err
	}
	out.Files["index"] = fi.Size()
	des, err := os.ReadDir(filepath.Join(dir, "chunks"))
	if err != nil {
		return out, err
	}
	for _, de := range des {
		st, err := de.Info()
		if err != nil {
			return out, err
		}
		out.Files["chunks/"+de.Name()] = st.Size()
		out.SegSizes = append(out.SegSizes, st.Size())
		out.Segments++
	}
	return out, nil
}

// checkBlockReadable opens the block with the Prometheus TSDB reader and counts its samples: a
// sanity check of the builder, not of Thanos.
func checkBlockReadable(b builtBlock) error {
	blk, err := tsdb.OpenBlock(nil, b.Dir, nil, nil)
	if err != nil {
		return fmt.Errorf("open built block: %w", err)
	}
	defer blk.Close()
	q, err := tsdb.NewBlockQuerier(blk, math.MinInt64, math.MaxInt64)
	if err != nil {
		return err
	}
	defer q.Close()
	ss := q.Select(context.Background(), true, nil, labels.MustNewMatcher(labels.MatchEqual, "__name__", "m"))
	n, series := 0, 0
	var it chunkenc.Iterator
	for ss.Next() {
		series++
		it = ss.At().Iterator(it)
		for it.Next() != chunkenc.ValNone {
			n++
		}
	}
	if ss.Err() != nil {
		return ss.Err()
	}
	if series != b.Spec.Series || n != b.Spec.Series*b.Spec.Samples {
		return fmt.Errorf("built block has %d series / %d samples, want %d / %d", series, n, b.Spec.Series, b.Spec.Series*b.Spec.Samples)
	}
	return nil
}

// copyTree copies a directory tree (regular files and directories only).
func copyTree(src, dst string) error {
	return filepath.Walk(src, func(p string, info os.FileInfo, err error) error {
		if err != nil {
			return err
		}
		rel, err := filepath.Rel(src, p)
		if err != nil {
			return err
		}
		target := filepath.Join(dst, rel)
		if info.IsDir() {
			return os.MkdirAll(target, 0o750)
		}
		b, err := os.ReadFile(p)
		if err != nil {
			return err
		}
		return os.WriteFile(target, b, 0o640)
	})
}

// copyBucket returns a fresh in-memory bucket with the same objects.
func copyBucket(src map[string][]byte) *objstore.InMemBucket {
	b := objstore.NewInMemBucket()
	names := make([]string, 0, len(src))
	for n := range src {
		names = append(names, n)
	}
	sort.Strings(names)
	for _, n := range names {
		_ = b.Upload(context.Background(), n, bytes.NewReader(src[n]))
	}
	return b
}

func sortedKeys(m map[string]int64) []string {
	out := make([]string, 0, len(m))
	for k := range m {
		out = append(out, k)
	}
	sort.Strings(out)
	return out
}

// ------------------------------------------------------------------------------------------------
// Crash-point / fault enumeration engine for C28-style scenarios.

// vScenario is one generated scenario: an initial bucket, optional local state, and a component run.
type vScenario struct {
	Name    string            // deterministic rendering (no temp paths)
	Segs    int               // chunk segment files of the block under test (non-trivial rule)
	Initial map[string][]byte // bucket objects before the component starts
	Started map[string]bool   // blocks whose deletion already started (deletion mark present initially)
	// NewLocal creates fresh local state for one sequence of lives (nil if the component has none
	// or does not change it); CloseLocal releases it.
	NewLocal   func() (any, error)
	CloseLocal func(local any)
	// Run is one life of the component: first life and restart use the same function.
	Run func(ctx context.Context, bkt objstore.Bucket, local any) error
}

type vCaseSink func(key string, nontrivial bool, classes ...string)

type vLife struct {
	ob   *opBucket
	run  *crashRun
	viol *string
}

func (l vLife) violation() string {
	l.ob.mu.Lock()
	defer l.ob.mu.Unlock()
	return *l.viol
}

// vStartLife runs one life of the component over a new opBucket on inner. The C28 invariants are
// evaluated after every applied mutation; started is updated when a deletion mark is uploaded.
func vStartLife(sc vScenario, inner *objstore.InMemBucket, local any, started map[string]bool, failOp, freezeMut int, freezeBefore bool) vLife {
	ob := newOpBucket(inner)
	ob.failOp, ob.freezeMut, ob.freezeBefore = failOp, freezeMut, freezeBefore
	viol := new(string)
	ob.observe = func(o opRec) {
		if *viol != "" {
			return
		}
		if o.Kind == "upload" && strings.HasSuffix(o.Name, "/deletion-mark.json") {
			started[strings.SplitN(o.Name, "/", 2)[0]] = true
		}
		objs := inner.Objects()
		if v, _, _ := visibleInvariant(objs); v != "" {
			*viol = fmt.Sprintf("after %s: %s [bucket: %s]", o, v, objectList(objs))
		} else if v := deletionInvariant(objs, started); v != "" {
			*viol = fmt.Sprintf("after %s: %s", o, v)
		}
	}
	run := runCrashable(ob, func(ctx context.Context) error { return sc.Run(ctx, ob, local) })
	return vLife{ob: ob, run: run, viol: viol}
}

func vStateViolation(inner *objstore.InMemBucket, started map[string]bool) string {
	objs := inner.Objects()
	if v, _, _ := visibleInvariant(objs); v != "" {
		return fmt.Sprintf("%s [bucket: %s]", v, objectList(objs))
	}
	return deletionInvariant(objs, started)
}

func copyStarted(m map[string]bool) map[string]bool {
	out := map[string]bool{}
	for k, v := range m {
		out[k] = v
	}
	return out
}

// vEnumerate runs sc crash-free, then with a crash at every prefix 0..M of its mutation sequence
// (each followed by a restart), then with every single operation failing (followed by a retry). It
// returns a violation / harness-error text or "".
func vEnumerate(sc vScenario, sink vCaseSink) (viol string, muts, ops int) {
	newLocal := func() (any, error) {
		if sc.NewLocal == nil {
			return nil, nil
		}
		return sc.NewLocal()
	}
	closeLocal := func(l any) {
		if sc.CloseLocal != nil && l != nil {
			sc.CloseLocal(l)
		}
	}
	if v := vStateViolation(copyBucket(sc.Initial), sc.Started); v != "" {
		return "HARNESS: the initial state already violates the invariant: " + v, 0, 0
	}
	// 1. crash-free
	{
		inner := copyBucket(sc.Initial)
		local, err := newLocal()
		if err != nil {
			return "HARNESS: local state: " + err.Error(), 0, 0
		}
		started := copyStarted(sc.Started)
		l := vStartLife(sc, inner, local, started, 0, 0, false)
		l.run.finish()
		closeLocal(local)
		if l.run.Panic != nil {
			return fmt.Sprintf("component panicked in the crash-free run: %v", l.run.Panic), 0, 0
		}
		if v := l.violation(); v != "" {
			return fmt.Sprintf("crash-free run (err=%v): %s; ops: %s", l.run.Err, v, renderOps(l.ob.opLog())), 0, 0
		}
		if l.run.Err != nil {
			return fmt.Sprintf("HARNESS: the crash-free run failed: %v", l.run.Err), 0, 0
		}
		if v := vStateViolation(inner, started); v != "" {
			return "crash-free run, final state: " + v, 0, 0
		}
		ops, muts = l.ob.counts()
		sink(fmt.Sprintf("%s | crash-free M=%d ops=%d", sc.Name, muts, ops), false, "crash-free")
	}
	// 2. crash at every prefix p = 0..M of the mutation sequence, then restart.
	for p := 0; p <= muts; p++ {
		if muts == 0 {
			break
		}
		inner := copyBucket(sc.Initial)
		local, err := newLocal()
		if err != nil {
			return "HARNESS: local state: " + err.Error(), muts, ops
		}
		started := copyStarted(sc.Started)
		var l1 vLife
		if p == 0 {
			l1 = vStartLife(sc, inner, local, started, 0, 1, true)
		} else {
			l1 = vStartLife(sc, inner, local, started, 0, p, false)
		}
		where := fmt.Sprintf("crash after %d of %d mutations", p, muts)
		fail := func(msg string) string {
			l1.run.finish()
			closeLocal(local)
			return fmt.Sprintf("%s: %s; first life ops: %s", where, msg, renderOps(l1.ob.opLog()))
		}
		if !l1.run.Crashed {
			return fail(fmt.Sprintf("HARNESS: the component returned (err=%v, panic=%v) instead of reaching the crash point", l1.run.Err, l1.run.Panic)), muts, ops
		}
		if v := l1.violation(); v != "" {
			return fail(v), muts, ops
		}
		if v := vStateViolation(inner, started); v != "" {
			return fail("state left by the crash: " + v), muts, ops
		}
		// restart on the same bucket and local state
		l2 := vStartLife(sc, inner, local, started, 0, 0, false)
		l2.run.finish()
		if l2.run.Panic != nil {
			return fail(fmt.Sprintf("component panicked after restart: %v", l2.run.Panic)), muts, ops
		}
		if v := l2.violation(); v != "" {
			return fail(fmt.Sprintf("after restart (err=%v): %s; restart ops: %s", l2.run.Err, v, renderOps(l2.ob.opLog()))), muts, ops
		}
		if v := vStateViolation(inner, started); v != "" {
			return fail("final state after restart: " + v), muts, ops
		}
		l1.run.finish()
		closeLocal(local)
		inside := p > 0 && p < muts
		cls := []string{"crash", fmt.Sprintf("segs-%d", sc.Segs)}
		if inside {
			cls = append(cls, "crash-inside")
		}
		if l2.run.Err != nil {
			cls = append(cls, "restart-returned-error")
		}
		sink(fmt.Sprintf("%s | crash@%d/%d", sc.Name, p, muts), sc.Segs >= 2 && inside, cls...)
	}
	// 3. every single operation fails once, then the component is retried.
	for n := 1; n <= ops; n++ {
		inner := copyBucket(sc.Initial)
		local, err := newLocal()
		if err != nil {
			return "HARNESS: local state: " + err.Error(), muts, ops
		}
		started := copyStarted(sc.Started)
		l1 := vStartLife(sc, inner, local, started, n, 0, false)
		l1.run.finish()
		where := fmt.Sprintf("operation %d of %d fails", n, ops)
		fail := func(msg string) string {
			closeLocal(local)
			return fmt.Sprintf("%s: %s; ops: %s", where, msg, renderOps(l1.ob.opLog()))
		}
		if l1.run.Panic != nil {
			return fail(fmt.Sprintf("component panicked: %v", l1.run.Panic)), muts, ops
		}
		if v := l1.violation(); v != "" {
			return fail(v), muts, ops
		}
		if v := vStateViolation(inner, started); v != "" {
			return fail("state after the failed run: " + v), muts, ops
		}
		var failed opRec
		applied := 0
		for _, o := range l1.ob.opLog() {
			if o.N == n {
				failed = o
			}
			if o.Mut > 0 && !o.Err && o.N < n {
				applied++
			}
		}
		l2 := vStartLife(sc, inner, local, started, 0, 0, false)
		l2.run.finish()
		if l2.run.Panic != nil {
			return fail(fmt.Sprintf("component panicked on retry: %v", l2.run.Panic)), muts, ops
		}
		if v := l2.violation(); v != "" {
			return fail(fmt.Sprintf("retry (err=%v): %s; retry ops: %s", l2.run.Err, v, renderOps(l2.ob.opLog()))), muts, ops
		}
		if v := vStateViolation(inner, started); v != "" {
			return fail("final state after retry: " + v), muts, ops
		}
		closeLocal(local)
		inside := failed.Mut > 0 && applied > 0 && applied < muts
		cls := []string{"fail-op", "fail-" + failed.Kind}
		if l1.run.Err == nil {
			cls = append(cls, "failure-swallowed")
		}
		sink(fmt.Sprintf("%s | fail@%d/%d %s", sc.Name, n, ops, failed.Kind), sc.Segs >= 2 && inside, cls...)
	}
	return "", muts, ops
}
