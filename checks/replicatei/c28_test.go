package replicate

// C28 (replication scenario) A block is visible in the target bucket only when all its files are.
//
// In-package because replicationScheme / newMetaFetcher are unexported. A generated origin bucket
// (1..2 complete blocks with 1..3 chunk segment files, optionally an unselected block, a partial
// block and a block marked for deletion) is replicated with replicationScheme.execute into a target
// bucket wrapped by the F-opbucket; crash after every prefix of the target's mutation sequence
// (then a new replication run = restart), and every single target operation failing once (then a
// retry). Oracle after every applied mutation: meta.json present in the target => every listed
// index / chunk file present with the recorded size (see common_test.go).

import (
	"context"
	"fmt"
	"os"
	"path/filepath"
	"strings"
	"testing"
	"time"

	"github.com/go-kit/log"
	"github.com/prometheus/prometheus/model/labels"
	"github.com/thanos-io/objstore"
	"pgregory.net/rapid"

	thanosblock "github.com/thanos-io/thanos/pkg/block"
	"github.com/thanos-io/thanos/pkg/block/metadata"
	"github.com/thanos-io/thanos/pkg/compact"
	thanosmodel "github.com/thanos-io/thanos/pkg/model"
	"github.com/thanos-io/thanos/verifx/kit"
)

var c28Logger = log.NewNopLogger()

func c28OriginBlock(parent string, spec blockSpec, ext map[string]string) (builtBlock, error) {
	b, err := buildBlock(parent, spec)
	if err != nil {
		return b, err
	}
	_, err = metadata.InjectThanos(c28Logger, b.Dir, metadata.Thanos{
		Labels:     ext,
		Downsample: metadata.ThanosDownsample{Resolution: int64(compact.ResolutionLevelRaw)},
		Source:     metadata.TestSource,
	}, nil)
	return b, err
}

func TestVerifC28_Replicate(t *testing.T) {
	rec := kit.For(t, "C28")
	c28Min := time.Unix(0, 0)
	c28Max, _ := time.Parse(time.RFC3339, "9999-12-31T23:59:59Z")
	minT := thanosmodel.TimeOrDurationValue{Time: &c28Min}
	maxT := thanosmodel.TimeOrDurationValue{Time: &c28Max}
	rec.Check(t, func(rt *rapid.T) {
		tmp, err := os.MkdirTemp("", "c28r-")
		if err != nil {
			rt.Fatalf("HARNESS: %v", err)
		}
		defer os.RemoveAll(tmp)
		ctx := context.Background()
		origin := objstore.NewInMemBucket()
		n := rapid.IntRange(1, 2).Draw(rt, "blocks")
		var blocks []builtBlock
		var names []string
		segs := 0
		seen := map[string]bool{}
		t0 := int64(1_600_000_000_000)
		for i := 0; i < n; i++ {
			spec := genBlockSpec(rt, fmt.Sprintf("b%d", i), t0)
			if seen[spec.ULID.String()] {
				rt.Skip("same ULID drawn twice")
			}
			seen[spec.ULID.String()] = true
			b, err := c28OriginBlock(filepath.Join(tmp, "origin"), spec, map[string]string{"ext": "1"})
			if err != nil {
				rt.Fatalf("HARNESS: build block: %v", err)
			}
			hf := metadata.NoneFunc
			if rapid.Bool().Draw(rt, "sha256") {
				hf = metadata.SHA256Func
			}
			if err := thanosblock.Upload(ctx, c28Logger, origin, b.Dir, hf); err != nil {
				rt.Fatalf("HARNESS: upload to origin: %v", err)
			}
			blocks = append(blocks, b)
			names = append(names, b.render())
			if b.Segments > segs {
				segs = b.Segments
			}
			t0 = spec.MaxT()
		}
		// origin noise: a block the selector does not choose, a partial block, a deletion mark.
		noise := rapid.SliceOfDistinct(rapid.SampledFrom([]string{"unselected", "partial", "deletion-mark"}), func(s string) string { return s }).Draw(rt, "originNoise")
		ignoreMarked := rapid.Bool().Draw(rt, "ignoreMarkedForDeletion")
		for _, kind := range noise {
			switch kind {
			case "unselected", "partial":
				spec := genBlockSpec(rt, kind, t0)
				if seen[spec.ULID.String()] {
					rt.Skip("same ULID drawn twice")
				}
				seen[spec.ULID.String()] = true
				ext := map[string]string{"ext": "1"}
				if kind == "unselected" {
					ext = map[string]string{"ext": "other"}
				}
				b, err := c28OriginBlock(filepath.Join(tmp, "origin"), spec, ext)
				if err != nil {
					rt.Fatalf("HARNESS: build block: %v", err)
				}
				if err := thanosblock.Upload(ctx, c28Logger, origin, b.Dir, metadata.NoneFunc); err != nil {
					rt.Fatalf("HARNESS: upload to origin: %v", err)
				}
				if kind == "partial" {
					if err := origin.Delete(ctx, b.ID+"/meta.json"); err != nil {
						rt.Fatalf("HARNESS: %v", err)
					}
				}
				t0 = spec.MaxT()
			case "deletion-mark":
				id := blocks[len(blocks)-1].ID
				if err := origin.Upload(ctx, id+"/deletion-mark.json", strings.NewReader(`{"id":"`+id+`","version":1,"deletion_time":1}`)); err != nil {
					rt.Fatalf("HARNESS: %v", err)
				}
			}
		}
		if v, _, _ := visibleInvariant(origin.Objects()); v != "" {
			rt.Fatalf("HARNESS: origin bucket violates the invariant: %v", v)
		}
		// target: empty, or the first block is already there (replicated by an earlier run), or the
		// first block was there, got marked for deletion and its block.Delete was interrupted after
		// k removals (the order of the removals depends on the listing order of the bucket).
		initial := map[string][]byte{}
		lex := rapid.Bool().Draw(rt, "lexicographicListing")
		pre := rapid.SampledFrom([]string{"empty", "present", "present", "deletion-interrupted", "deletion-interrupted"}).Draw(rt, "firstBlockInTarget")
		started := map[string]bool{}
		if pre != "empty" {
			for name, o := range origin.Objects() {
				if strings.HasPrefix(name, blocks[0].ID+"/") && !strings.HasSuffix(name, "deletion-mark.json") {
					initial[name] = o
				}
			}
		}
		if pre == "deletion-interrupted" {
			id := blocks[0].ID
			initial[id+"/deletion-mark.json"] = []byte(`{"id":"` + id + `","version":1,"deletion_time":1}`)
			k := rapid.IntRange(1, len(initial)-1).Draw(rt, "removalsBeforeTheCrash")
			ob := newOpBucket(copyBucket(initial))
			ob.lexIter = lex
			ob.freezeMut = k
			run := runCrashable(ob, func(ctx context.Context) error {
				return thanosblock.Delete(ctx, c28Logger, ob, blocks[0].Spec.ULID)
			})
			if !run.Crashed {
				rt.Fatalf("HARNESS: block.Delete returned (err=%v) before removal %d", run.Err, k)
			}
			initial = map[string][]byte{}
			for name, o := range ob.inner.Objects() {
				initial[name] = o
			}
			run.finish()
			started[id] = true
			pre = fmt.Sprintf("deletion-interrupted@%d", k)
		}
		matcher := labels.MustNewMatcher(labels.MatchEqual, "ext", "1")
		filter := NewBlockFilter(c28Logger, labels.Selector{matcher}, []compact.ResolutionLevel{compact.ResolutionLevelRaw}, []int{1}, nil).Filter
		sc := vScenario{
			Name:    fmt.Sprintf("replicate [%s] noise=%v ignoreMarked=%v firstInTarget=%v lex=%v", strings.Join(names, ", "), noise, ignoreMarked, pre, lex),
			Segs:    segs,
			Lex:     lex,
			Initial: initial,
			Started: started,
			Run: func(ctx context.Context, bkt objstore.Bucket, _ any) error {
				fetcher, err := newMetaFetcher(c28Logger, objstore.WithNoopInstr(origin), nil, minT, maxT, 4, ignoreMarked)
				if err != nil {
					return err
				}
				return newReplicationScheme(c28Logger, newReplicationMetrics(nil), filter, fetcher, objstore.WithNoopInstr(origin), bkt, nil).execute(ctx)
			},
		}
		viol, muts, _ := vEnumerate(sc, func(key string, nt bool, classes ...string) {
			rec.Case(key, nt, append(classes, "scenario-replicate")...)
		})
		if viol != "" {
			rt.Fatalf("C28 violated in scenario %s (M=%d): %s", sc.Name, muts, viol)
		}
	})
	if !t.Failed() {
		rec.Exhaustive(true)
	}
}
