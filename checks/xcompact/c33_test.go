package xcompact

// C33 The compactor does nothing destructive on an incomplete view.
//
// Domain: the C29 scenarios (compactable block sets), optionally with a pre-existing deletion mark
// and/or no-compact mark and with a raw retention that makes the end of every cycle destructive.
// One fault-free cycle (compactMainFn: Compact loop, sync before retention, retention, partial
// upload clean-up) records every read the syncs issue (listing, Exists/Get meta.json, Get
// deletion-mark.json, Get no-compact-mark.json), per sync ordinal. Then, for EVERY such read
// (sync ordinal, operation class, occurrence) the cycle is repeated from the initial bucket with a
// transient error injected into exactly that read (as an error of the call, and for Get also as an
// error of the returned stream after a few bytes).
//
// Oracle: between the injected failure and the start of the next sync (or the end of the cycle) the
// instance issues no Upload and no Delete at all.

import (
	"context"
	"fmt"
	"os"
	"path"
	"path/filepath"
	"sort"
	"sync"
	"testing"
	"time"

	"github.com/go-kit/log"
	"github.com/prometheus/client_golang/prometheus"
	"pgregory.net/rapid"

	"github.com/thanos-io/thanos/pkg/block"
	"github.com/thanos-io/thanos/pkg/block/metadata"
	"github.com/thanos-io/thanos/verifx/kit"
)

type c33Extras struct {
	DelMark   int // index of a source block carrying a deletion mark in the initial bucket, -1 = none
	NoCompact int // index of a source block carrying a no-compact mark, -1 = none
	// further source blocks carrying a no-compact mark; with several marks read by the same worker of
	// the marker filter a failed read is followed by successful ones
	MoreNoCompact []int
	FetchConc     int // --block-meta-fetch-concurrency of the instance (1 = one worker reads every marker)
	Retention     time.Duration
}

type c33Target struct {
	Sync    int
	Class   string
	Occ     int
	OnRead  bool
	Present bool // the object read exists in the fault-free run (the failure hides real information)
	Name    string
}

func (t c33Target) String() string {
	v := "call-error"
	if t.OnRead {
		v = "stream-error"
	}
	return fmt.Sprintf("sync#%d %s occurrence %d %s", t.Sync, t.Class, t.Occ, v)
}

type c33Result struct {
	injected   bool
	injectedOp opRec
	present    bool // the object read existed when the fault was injected
	mutBefore  int
	mutAfter   int
	cycleErr   error
	laterSync  bool
	log        []opRec
	afterOps   []opRec
}

// c33Run runs one cycle on a fresh copy of the initial bucket; tgt == nil is the fault-free run.
func c33Run(fx *fixture, ex c33Extras, tmp string, tgt *c33Target) (c33Result, error) {
	var res c33Result
	ctx, cancel := context.WithCancel(context.Background())
	defer cancel()
	inner := fx.freshBucket()
	dataDir, err := os.MkdirTemp(tmp, "data")
	if err != nil {
		return res, err
	}
	defer os.RemoveAll(dataDir)
	ob := newOpBucket(inner)
	defer ob.release()

	var mu sync.Mutex
	occ := 0
	windowOpen := false
	if tgt != nil {
		ob.failRead = func(op opRec) (bool, bool) {
			mu.Lock()
			defer mu.Unlock()
			if res.injected || op.Sync != tgt.Sync || op.Class != tgt.Class {
				return false, false
			}
			occ++
			if occ-1 != tgt.Occ {
				return false, false
			}
			res.injected = true
			res.injectedOp = op
			res.mutBefore = ob.mutations()
			res.present, _ = inner.Exists(ctx, op.Name)
			windowOpen = true
			return true, tgt.OnRead
		}
		ob.onSyncBegin = func(ord int) {
			mu.Lock()
			defer mu.Unlock()
			if windowOpen && ord > tgt.Sync {
				windowOpen = false
				res.laterSync = true
				res.mutAfter = ob.mutations()
			}
		}
	}
	st, err := newStack(ctx, ob, stackConfig{dataDir: filepath.Join(dataDir, "d"), deleteDelay: fx.sc.DeleteDelay,
		vertical: fx.sc.Vertical, replicaLabel: fx.sc.Replicas, retentionRaw: ex.Retention, fetchConc: ex.FetchConc})
	if err != nil {
		return res, err
	}
	res.cycleErr = st.cycle(ctx)
	mu.Lock()
	if windowOpen {
		res.mutAfter = ob.mutations()
	}
	mu.Unlock()
	res.log = ob.opLog()
	if res.injected {
		n := 0
		for _, op := range res.log {
			if op.N > res.injectedOp.N && op.Mut {
				n++
				if n <= res.mutAfter-res.mutBefore {
					res.afterOps = append(res.afterOps, op)
				}
			}
		}
	}
	return res, nil
}

// c33Targets enumerates every read issued inside a sync of the fault-free run.
func c33Targets(fx *fixture, oplog []opRec) []c33Target {
	type key struct {
		s int
		c string
	}
	cnt := map[key]int{}
	var out []c33Target
	// object existence is judged against the state at the time of the read: replay mutations.
	exists := map[string]bool{}
	for n := range fx.objects {
		exists[n] = true
	}
	for _, op := range oplog {
		if op.Mut {
			switch op.Kind {
			case "upload":
				exists[op.Name] = true
			case "delete":
				delete(exists, op.Name)
			}
			continue
		}
		if op.Sync == 0 {
			continue
		}
		k := key{op.Sync, op.Class}
		t := c33Target{Sync: op.Sync, Class: op.Class, Occ: cnt[k], Present: exists[op.Name], Name: op.Name}
		cnt[k]++
		out = append(out, t)
		if op.Kind == "get" && t.Present {
			t.OnRead = true
			out = append(out, t)
		}
	}
	sort.SliceStable(out, func(i, j int) bool {
		if out[i].Sync != out[j].Sync {
			return out[i].Sync < out[j].Sync
		}
		if out[i].Class != out[j].Class {
			return out[i].Class < out[j].Class
		}
		if out[i].Occ != out[j].Occ {
			return out[i].Occ < out[j].Occ
		}
		return !out[i].OnRead && out[j].OnRead
	})
	return out
}

func c33Scenario(rt *rapid.T, rec *kit.Rec, sc scenario, ex c33Extras, maxTargets int) bool {
	tmp, err := os.MkdirTemp("", "c33")
	if err != nil {
		rt.Fatalf("HARNESS: %v", err)
	}
	defer os.RemoveAll(tmp)
	fx, err := buildFixture(sc, tmp)
	if err != nil {
		rt.Fatalf("HARNESS: building blocks failed: %v\nscenario: %s", err, sc)
	}
	// pre-existing markers, written by the real marking functions.
	if ex.DelMark >= 0 || ex.NoCompact >= 0 {
		bkt := fx.freshBucket()
		ctx := context.Background()
		c := prometheus.NewCounter(prometheus.CounterOpts{Name: "x"})
		if ex.DelMark >= 0 {
			if err := block.MarkForDeletion(ctx, log.NewNopLogger(), bkt, fx.ids[ex.DelMark], "verif", c); err != nil {
				rt.Fatalf("HARNESS: %v", err)
			}
		}
		if ex.NoCompact >= 0 {
			if err := block.MarkForNoCompact(ctx, log.NewNopLogger(), bkt, fx.ids[ex.NoCompact], metadata.ManualNoCompactReason, "verif", c); err != nil {
				rt.Fatalf("HARNESS: %v", err)
			}
		}
		for _, i := range ex.MoreNoCompact {
			if err := block.MarkForNoCompact(ctx, log.NewNopLogger(), bkt, fx.ids[i], metadata.ManualNoCompactReason, "verif", c); err != nil {
				rt.Fatalf("HARNESS: %v", err)
			}
		}
		fx.objects = bkt.Objects()
	}
	desc := fmt.Sprintf("delmark=%d nocompact=%d%v conc=%d retention=%s %s", ex.DelMark, ex.NoCompact, ex.MoreNoCompact, ex.FetchConc, ex.Retention, sc)

	base, err := c33Run(fx, ex, tmp, nil)
	if err != nil {
		rt.Fatalf("HARNESS: %v", err)
	}
	targets := c33Targets(fx, base.log)
	totalMut := 0
	mutAtSyncEnd := map[int]int{} // mutations issued up to the last read of sync s in the fault-free run
	for _, op := range base.log {
		if op.Mut {
			totalMut++
		} else if op.Sync > 0 {
			mutAtSyncEnd[op.Sync] = totalMut
		}
	}
	cls := []string{"fault-free-run", "mode-" + sc.Mode}
	if base.cycleErr != nil {
		cls = append(cls, "fault-free-cycle-error")
		rec.Note("fault-free cycle returned an error: %v (%s)", base.cycleErr, desc)
	}
	if totalMut == 0 {
		cls = append(cls, "healthy-run-mutates-nothing")
	}
	rec.Class("syncs-per-cycle-" + fmt.Sprint(min(len(mutAtSyncEnd), 6)))
	for _, c := range cls {
		rec.Class(c)
	}

	exhaustive := true
	if maxTargets > 0 && len(targets) > maxTargets {
		exhaustive = false
		// prefer marker reads, then fill up
		var markers, others []int
		for i, t := range targets {
			if t.Class == "get:deletion-mark" || t.Class == "get:no-compact-mark" {
				markers = append(markers, i)
			} else {
				others = append(others, i)
			}
		}
		pick := pickInts(rt, markers, min(len(markers), maxTargets*2/3), "tMarker")
		pick = append(pick, pickInts(rt, others, maxTargets-len(pick), "tOther")...)
		sort.Ints(pick)
		sel := make([]c33Target, 0, len(pick))
		for _, i := range pick {
			sel = append(sel, targets[i])
		}
		targets = sel
	}

	for i := range targets {
		tgt := targets[i]
		r, err := c33Run(fx, ex, tmp, &tgt)
		if err != nil {
			rt.Fatalf("HARNESS: %v", err)
		}
		if !r.injected {
			rec.Class("target-not-reached")
			continue
		}
		if n := r.mutAfter - r.mutBefore; n > 0 {
			var ops []string
			for _, op := range r.afterOps {
				ops = append(ops, op.Kind+" "+op.Name)
			}
			rt.Fatalf("C33 violated: after a transient failure of %s %q (%s) the compactor issued %d mutating bucket operations before the next sync: %v; cycle error: %v\nscenario: %s",
				r.injectedOp.Kind, r.injectedOp.Name, tgt, n, ops, r.cycleErr, desc)
		}
		c := []string{"fail-" + tgt.Class, fmt.Sprintf("sync-ordinal-%d", min(tgt.Sync, 5)), "mode-" + sc.Mode}
		if tgt.OnRead {
			c = append(c, "stream-error")
		} else {
			c = append(c, "call-error")
		}
		marker := tgt.Class == "get:deletion-mark" || tgt.Class == "get:no-compact-mark"
		if marker && r.present {
			c = append(c, "failed-read-of-existing-marker")
			if tgt.Class == "get:no-compact-mark" && len(ex.MoreNoCompact) > 0 {
				c = append(c, "failed-read-of-one-of-several-no-compact-marks")
			}
		}
		c = append(c, fmt.Sprintf("fetch-concurrency-%d", ex.FetchConc))
		if r.cycleErr != nil {
			c = append(c, "cycle-returned-error")
		} else {
			c = append(c, "cycle-returned-nil")
		}
		if r.laterSync {
			c = append(c, "later-sync-in-same-cycle")
		}
		if totalMut-mutAtSyncEnd[tgt.Sync] > 0 {
			c = append(c, "healthy-run-mutates-after-this-sync")
		}
		rec.Case(fmt.Sprintf("%s obj=%s present=%v | %s", tgt, path.Base(r.injectedOp.Name), r.present, desc), marker, c...)
	}
	return exhaustive
}

// genC33Extras draws the extras; severalMarks forces at least two no-compact marks read by one worker.
func genC33Extras(rt *rapid.T, sc scenario, severalMarks bool) c33Extras {
	ex := c33Extras{DelMark: -1, NoCompact: -1}
	n := len(sc.Blocks)
	if severalMarks {
		marks := rapid.SliceOfNDistinct(rapid.IntRange(0, n-1), 2, min(n, 3), rapid.ID[int]).Draw(rt, "noCompactSeveral")
		ex.NoCompact, ex.MoreNoCompact = marks[0], marks[1:]
		ex.FetchConc = 1
		if rapid.Bool().Draw(rt, "retention") {
			ex.Retention = 10 * 365 * 24 * time.Hour
		}
		return ex
	}
	if rapid.IntRange(0, 2).Draw(rt, "hasDelMark") == 0 {
		ex.DelMark = rapid.IntRange(0, n-1).Draw(rt, "delMark")
	}
	if rapid.IntRange(0, 2).Draw(rt, "hasNoCompact") == 0 {
		ex.NoCompact = rapid.IntRange(0, n-1).Draw(rt, "noCompact")
		if n > 1 && rapid.Bool().Draw(rt, "moreNoCompact") {
			for _, i := range rapid.SliceOfNDistinct(rapid.IntRange(0, n-1), 1, min(n-1, 3), rapid.ID[int]).Draw(rt, "noCompactMore") {
				if i != ex.NoCompact {
					ex.MoreNoCompact = append(ex.MoreNoCompact, i)
				}
			}
		}
	}
	ex.FetchConc = rapid.SampledFrom([]int{1, 1, 4}).Draw(rt, "fetchConcurrency")
	if rapid.Bool().Draw(rt, "retention") {
		ex.Retention = 10 * 365 * 24 * time.Hour // every generated block (timestamps near the epoch) exceeds it
	}
	return ex
}

func TestVerifC33(t *testing.T) {
	rec := kit.For(t, "C33")
	maxTargets := kit.Scale("C33_TARGETS", 0, 0) // reads failed per scenario; 0 = every read of every sync
	all := true
	rec.Check(t, func(rt *rapid.T) {
		sc := genScenario(rt)
		ex := genC33Extras(rt, sc, false)
		if !c33Scenario(rt, rec, sc, ex, maxTargets) {
			all = false
		}
	})
	rec.Exhaustive(all)
}

// TestVerifC33_SeveralMarks: scenarios of at least three blocks of which two or three carry a
// no-compact mark, all read by a single worker of GatherNoCompactionMarkFilter, so that the failed
// read of one mark is followed (or preceded) by successful reads of the others.
func TestVerifC33_SeveralMarks(t *testing.T) {
	rec := kit.For(t, "C33")
	maxTargets := kit.Scale("C33_TARGETS", 0, 0)
	rec.Check(t, func(rt *rapid.T) {
		sc := genScenario(rt)
		if len(sc.Blocks) < 3 {
			rt.Skip("fewer than three blocks")
		}
		ex := genC33Extras(rt, sc, true)
		c33Scenario(rt, rec, sc, ex, maxTargets)
	})
}
