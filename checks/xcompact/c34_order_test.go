package xcompact

// C34 (trace conformance of the real compactor with the model's step order)
//
// The model part of C34 (checks/xcompactplan) lets the harness issue the compactor's steps in the
// order "upload result, mark sources, clean". This test ties that order to the code: the real
// compactor stack (cmd/thanos/compact.go wiring, see common_test.go) runs compaction / GC / clean-up
// cycles over generated block sets behind the operation-recording bucket, crash-free and with every
// sampled bucket mutation failing once, and after EVERY executed upload of a deletion-mark.json the
// bucket is inspected:
//
//	the marked block's compaction sources are contained in the sources of another block of the same
//	group that is visible (meta.json present), complete (every listed file present with its size) and
//	not itself marked for deletion.
//
// I.e. a source is never marked before its replacement is completely in the bucket - the premise
// under which "store gateways hide marked blocks after a delay shorter than the delete delay" keeps
// every sample served. Retention is disabled in these runs (it marks blocks without a replacement by
// design).

import (
	"context"
	"fmt"
	"os"
	"path/filepath"
	"strings"
	"testing"

	"github.com/oklog/ulid/v2"
	"github.com/thanos-io/objstore"
	"pgregory.net/rapid"

	"github.com/thanos-io/thanos/pkg/block/metadata"
	"github.com/thanos-io/thanos/verifx/kit"
)

// c34Covered says whether block id (with meta m) has a visible, complete, unmarked replacement.
func c34Covered(st bucketState, id ulid.ULID, m *metadata.Meta) bool {
	for _, other := range sortedIDs(st.metas) {
		mo := st.metas[other]
		if other == id || st.marked[other] || !st.complete(other) || groupString(mo.Thanos.Labels) != groupString(m.Thanos.Labels) {
			continue
		}
		in := map[ulid.ULID]bool{}
		for _, s := range mo.Compaction.Sources {
			in[s] = true
		}
		all := true
		for _, s := range m.Compaction.Sources {
			all = all && in[s]
		}
		if all {
			return true
		}
	}
	return false
}

type c34Run struct {
	viol      string
	marks     int
	mutations int
	cycles    int
	quiescent bool
	failedOp  opRec
	log       []opRec
}

// c34RunOnce runs cycles to quiescence; failAt > 0 makes that mutation fail once with a transient error.
func c34RunOnce(fx *fixture, tmp string, failAt int, tag string) (res c34Run, harnessErr error) {
	ctx, cancel := context.WithCancel(context.Background())
	defer cancel()
	inner := fx.freshBucket()
	dataDir, err := os.MkdirTemp(tmp, "data")
	if err != nil {
		return res, err
	}
	defer os.RemoveAll(dataDir)
	ob := newOpBucket(inner)
	ob.failAtMut = failAt
	defer ob.release()
	ob.observe = func(op opRec) {
		if res.viol != "" || op.Class != "upload:deletion-mark" {
			return
		}
		res.marks++
		st := readState(inner)
		id := blockOf(op.Name)
		m := st.metas[id]
		if m == nil {
			return // a partial upload being cleaned: nothing a store gateway would serve
		}
		if !c34Covered(st, id, m) {
			res.viol = fmt.Sprintf("%s mutation %d marks block %s for deletion while no visible, complete, unmarked block of its group contains its sources; bucket: %s",
				tag, op.MutN, id, describeBucket(st, nil))
		}
	}
	st, err := newStack(ctx, ob, stackConfig{dataDir: filepath.Join(dataDir, "d"), deleteDelay: fx.sc.DeleteDelay, vertical: fx.sc.Vertical, replicaLabel: fx.sc.Replicas})
	if err != nil {
		return res, err
	}
	for !res.quiescent && res.cycles < c29MaxCycles && res.viol == "" {
		before := ob.mutations()
		err := st.cycle(ctx)
		res.cycles++
		if err != nil {
			continue
		}
		if ob.mutations() == before {
			res.quiescent = true
		}
	}
	res.mutations = ob.mutations()
	res.log = ob.opLog()
	if failAt > 0 {
		res.failedOp = ob.frozenOp
	}
	return res, nil
}

func TestVerifC34_CompactorOrder(t *testing.T) {
	rec := kit.For(t, "C34")
	maxPoints := kit.Scale("C34_ORDER_POINTS", 8, 0) // failing mutations per scenario; 0 = all
	n := kit.Scale("C34_ORDER", 3, 40)
	gen := rapid.Custom(func(rt *rapid.T) scenario { return genScenario(rt) })
	for i := 0; i < n; i++ {
		sc := gen.Example(int(kit.Seed())*100019 + i)
		func() {
			tmp, err := os.MkdirTemp("", "c34o")
			if err != nil {
				t.Fatalf("HARNESS: %v", err)
			}
			defer os.RemoveAll(tmp)
			fx, err := buildFixture(sc, tmp)
			if err != nil {
				t.Fatalf("HARNESS: building blocks failed: %v\nscenario: %s", err, sc)
			}
			base, err := c34RunOnce(fx, tmp, 0, "fault-free run:")
			if err != nil {
				t.Fatalf("HARNESS: %v", err)
			}
			if base.viol != "" {
				rec.Violation(t, "%s\nscenario: %s", base.viol, sc)
				return
			}
			cls := []string{"compactor-order", "fault-free", "mode-" + sc.Mode}
			if base.marks > 0 {
				cls = append(cls, "marks-written")
			}
			rec.Case("order fault-free "+sc.String(), false, cls...)
			// every (sampled) mutation fails once
			var ks []int
			for k := 1; k <= base.mutations; k++ {
				ks = append(ks, k)
			}
			if maxPoints > 0 && len(ks) > maxPoints {
				// prefer the uploads of compaction results (not deletion marks), spread over the run
				var pref, rest []int
				for _, op := range base.log {
					if !op.Mut {
						continue
					}
					if op.Kind == "upload" && op.Class != "upload:deletion-mark" {
						pref = append(pref, op.MutN)
					} else {
						rest = append(rest, op.MutN)
					}
				}
				ks = nil
				for j := 0; j < len(pref) && len(ks) < maxPoints*3/4; j += max(1, len(pref)/(maxPoints*3/4)) {
					ks = append(ks, pref[j])
				}
				for j := 0; j < len(rest) && len(ks) < maxPoints; j += max(1, len(rest)/max(1, maxPoints-len(ks))) {
					ks = append(ks, rest[j])
				}
			}
			for _, k := range ks {
				r, err := c34RunOnce(fx, tmp, k, fmt.Sprintf("mutation %d fails once:", k))
				if err != nil {
					t.Fatalf("HARNESS: %v", err)
				}
				if r.viol != "" {
					rec.Violation(t, "%s\nscenario: %s", r.viol, sc)
					return
				}
				c := []string{"compactor-order", "fault", "mode-" + sc.Mode}
				resultUpload := false
				if r.failedOp.N > 0 {
					c = append(c, "fault-at-"+r.failedOp.Class)
					_, isSource := fx.perBlock[blockOf(r.failedOp.Name)]
					resultUpload = r.failedOp.Kind == "upload" && !isSource && !strings.HasSuffix(r.failedOp.Name, metadata.DeletionMarkFilename)
					if resultUpload {
						c = append(c, "fault-in-result-upload")
					}
				} else {
					c = append(c, "fault-point-not-reached")
				}
				if r.marks > 0 {
					c = append(c, "marks-written")
				}
				rec.Case(fmt.Sprintf("order fault k=%d/%d at=%s %s", k, base.mutations, r.failedOp.Class, sc), resultUpload && r.marks > 0, c...)
			}
		}()
	}
}

var _ = objstore.NewInMemBucket
