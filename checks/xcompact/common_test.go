package xcompact

// Shared harness of the compactor checks (C29 crash points, C33 read faults):
//   * scenario generator: 1..6 tiny level-1 blocks cut out of per-group sample streams
//     (aligned windows, replicated streams, overlapping blocks of one stream);
//   * opBucket: the F-opbucket wrapper of DESIGN §3 (number every operation, observe after a
//     mutation, fail a read, freeze = crash);
//   * stack: the compactor wired as cmd/thanos/compact.go does, plus cycle() = compactMainFn with
//     downsampling disabled;
//   * oracle: the set of blocks a store gateway would serve (real filter chain on the inner bucket)
//     and the samples readable from them (memoised per block by download + tsdb.OpenBlock).

import (
	"bytes"
	"context"
	"encoding/json"
	"errors"
	"fmt"
	"io"
	"os"
	"path"
	"path/filepath"
	"sort"
	"strings"
	"sync"
	"time"

	"github.com/go-kit/log"
	"github.com/oklog/ulid/v2"
	"github.com/prometheus/client_golang/prometheus"
	"github.com/prometheus/prometheus/model/histogram"
	"github.com/prometheus/prometheus/model/labels"
	"github.com/prometheus/prometheus/storage"
	"github.com/prometheus/prometheus/tsdb"
	"github.com/prometheus/prometheus/tsdb/chunkenc"
	"github.com/prometheus/prometheus/tsdb/chunks"
	"github.com/thanos-io/objstore"
	objstoretracing "github.com/thanos-io/objstore/tracing/opentracing"
	"pgregory.net/rapid"

	"github.com/thanos-io/thanos/pkg/block"
	"github.com/thanos-io/thanos/pkg/block/metadata"
	"github.com/thanos-io/thanos/pkg/compact"
	"github.com/thanos-io/thanos/pkg/compact/downsample"
	"github.com/thanos-io/thanos/pkg/extprom"
	"github.com/thanos-io/thanos/pkg/logutil"
)

// ---------------------------------------------------------------------------------------------
// samples / scenario

type smpl struct {
	t int64
	v float64
}

func (s smpl) T() int64                      { return s.t }
func (s smpl) F() float64                    { return s.v }
func (s smpl) H() *histogram.Histogram       { return nil }
func (s smpl) FH() *histogram.FloatHistogram { return nil }
func (s smpl) Type() chunkenc.ValueType      { return chunkenc.ValFloat }
func (s smpl) Copy() chunks.Sample           { return s }

const (
	windowMs      = 1000 // level-1 block range; compaction levels are {1000, 4000, 16000} ms
	replicaLabel  = "replica"
	tenantLabel   = "tenant"
	maxWindows    = 7
	streamHorizon = (maxWindows + 1) * windowMs
)

var compactionLevels = []int64{windowMs, 4 * windowMs, 16 * windowMs}

// streamSeries is one series of a group's stream: samples on a grid phase + j*step.
type streamSeries struct {
	name  string
	step  int64
	phase int64
	vmul  int64
}

func (s streamSeries) value(t int64) float64 { return float64((t/s.step)*s.vmul + int64(len(s.name))) }

func (s streamSeries) samples(lo, hi, dropLo, dropHi int64) []smpl {
	var out []smpl
	for t := s.phase; t <= hi && t < streamHorizon; t += s.step {
		if t < lo || (t >= dropLo && t <= dropHi) {
			continue
		}
		out = append(out, smpl{t, s.value(t)})
	}
	return out
}

// blockSpec is one source block: the samples of its group's stream with lo <= t <= hi, minus a
// dropped run (a scrape gap of that replica) and minus dropped series.
type blockSpec struct {
	Group      int
	Replica    string // "" = no replica label
	Lo, Hi     int64
	DropLo     int64
	DropHi     int64
	SkipSeries int // index of a series this block lacks (-1 = none)
}

type scenario struct {
	Mode        string // aligned | replicas | overlap
	Streams     [][]streamSeries
	Blocks      []blockSpec
	Vertical    bool // --compact.enable-vertical-compaction
	Replicas    bool // --deduplication.replica-label=replica
	DeleteDelay time.Duration
}

func (sc scenario) String() string {
	var sb strings.Builder
	fmt.Fprintf(&sb, "mode=%s vertical=%v replicaLabel=%v delay=%s streams=", sc.Mode, sc.Vertical, sc.Replicas, sc.DeleteDelay)
	for g, ss := range sc.Streams {
		fmt.Fprintf(&sb, "g%d[", g)
		for _, s := range ss {
			fmt.Fprintf(&sb, "%s:%d+%d*%d ", s.name, s.phase, s.step, s.vmul)
		}
		sb.WriteString("] ")
	}
	sb.WriteString("blocks=")
	for _, b := range sc.Blocks {
		fmt.Fprintf(&sb, "{g%d r=%q [%d,%d] drop[%d,%d] skip=%d} ", b.Group, b.Replica, b.Lo, b.Hi, b.DropLo, b.DropHi, b.SkipSeries)
	}
	return sb.String()
}

func (sc scenario) extLabels(b blockSpec) map[string]string {
	m := map[string]string{tenantLabel: fmt.Sprintf("t%d", b.Group)}
	if b.Replica != "" {
		m[replicaLabel] = b.Replica
	}
	return m
}

// seriesOf returns label set -> samples held by block b.
func (sc scenario) seriesOf(b blockSpec) map[string][]smpl {
	out := map[string][]smpl{}
	for i, s := range sc.Streams[b.Group] {
		if i == b.SkipSeries {
			continue
		}
		ss := s.samples(b.Lo, b.Hi, b.DropLo, b.DropHi)
		if len(ss) > 0 {
			out[s.name] = ss
		}
	}
	return out
}

// pick draws a roughly uniform choice in [0,n): rapid's integer ranges are deliberately biased
// towards small values, which would starve the later alternatives of a switch.
func pick(rt *rapid.T, label string, n int) int {
	return int(rapid.Uint64().Draw(rt, label) % uint64(n))
}

func genStream(rt *rapid.T, g int) []streamSeries {
	n := rapid.IntRange(2, 5).Draw(rt, "series")
	out := make([]streamSeries, 0, n)
	for i := 0; i < n; i++ {
		step := rapid.SampledFrom([]int64{40, 50, 100, 125, 250}).Draw(rt, "step")
		out = append(out, streamSeries{
			name:  fmt.Sprintf("s%d", i),
			step:  step,
			phase: rapid.Int64Range(0, step-1).Draw(rt, "phase"),
			vmul:  rapid.Int64Range(1, 3).Draw(rt, "vmul"),
		})
	}
	return out
}

// genWindows draws n distinct windows, mostly contiguous from 0 (which is what makes the planner act).
func genWindows(rt *rapid.T, n int, label string) []int {
	if pick(rt, label+"Contig", 10) < 7 {
		start := 0
		if n < maxWindows && pick(rt, label+"Shift", 5) == 1 {
			start = rapid.IntRange(0, maxWindows-n).Draw(rt, label+"Start")
		}
		out := make([]int, n)
		for i := range out {
			out[i] = start + i
		}
		return out
	}
	all := []int{0, 1, 2, 3, 4, 5, 6}
	perm := rapid.Permutation(all).Draw(rt, label+"Perm")
	out := append([]int(nil), perm[:n]...)
	sort.Ints(out)
	return out
}

func windowBlock(rt *rapid.T, g int, replica string, w int, nSeries int) blockSpec {
	lo := int64(w) * windowMs
	hi := lo + windowMs - 1
	b := blockSpec{Group: g, Replica: replica, Lo: lo, Hi: hi, DropLo: -1, DropHi: -1, SkipSeries: -1}
	switch pick(rt, "cut", 6) {
	case 0: // late start
		b.Lo += rapid.Int64Range(1, 400).Draw(rt, "late")
	case 1: // early end
		b.Hi -= rapid.Int64Range(1, 400).Draw(rt, "early")
	case 2: // scrape gap
		b.DropLo = lo + rapid.Int64Range(100, 600).Draw(rt, "dropLo")
		b.DropHi = b.DropLo + rapid.Int64Range(0, 300).Draw(rt, "dropLen")
	case 3:
		b.SkipSeries = rapid.IntRange(0, nSeries-1).Draw(rt, "skip")
	}
	return b
}

// genScenario draws a block set; the shapes are biased towards inputs on which a healthy compactor
// run mutates the bucket (otherwise there is no crash point / no destructive work to withhold).
func genScenario(rt *rapid.T) scenario {
	sc := scenario{}
	sc.Mode = []string{"aligned", "replicas", "overlap", "replicas", "aligned"}[pick(rt, "mode", 5)]
	if pick(rt, "delayKind", 4) == 1 {
		sc.DeleteDelay = 2 * time.Hour
	}
	nGroups := 1
	if pick(rt, "twoGroups", 4) == 1 {
		nGroups = 2
	}
	for g := 0; g < nGroups; g++ {
		sc.Streams = append(sc.Streams, genStream(rt, g))
	}
	budget := []int{6, 5, 4, 3, 2, 4, 5, 6}[pick(rt, "blocks", 8)]
	if pick(rt, "single", 20) == 1 {
		budget = 1
	}
	switch sc.Mode {
	case "aligned":
		// non-overlapping level-1 blocks; vertical compaction flag drawn (must not matter).
		sc.Vertical = pick(rt, "vflag", 4) == 1
		if budget > 1 && budget < 4 && pick(rt, "small", 4) != 1 {
			budget = 4 // fewer than 4 aligned blocks of a group are never compacted
		}
		for g := 0; g < nGroups && budget > 0; g++ {
			n := budget
			if g == 0 && nGroups == 2 {
				n = rapid.IntRange(min(4, budget), budget).Draw(rt, "g0blocks")
			}
			var ws []int
			if n >= 4 && pick(rt, "planShape", 6) > 0 {
				// the shape the planner acts on: >= 2 blocks inside the first 4000-ms range, one block
				// after it, and one newest block (which the planner always leaves alone).
				lowN := n - 2
				low := rapid.Permutation([]int{0, 1, 2, 3}).Draw(rt, "low")[:lowN]
				high := rapid.SampledFrom([][]int{{4, 5}, {4, 6}, {5, 6}, {4, 7}}).Draw(rt, "high")
				ws = append(append(ws, low...), high...)
				sort.Ints(ws)
			} else {
				ws = genWindows(rt, n, "w")
			}
			for _, w := range ws {
				sc.Blocks = append(sc.Blocks, windowBlock(rt, g, "", w, len(sc.Streams[g])))
			}
			budget -= n
		}
	case "replicas":
		// the same stream scraped by replicas a and b; the replica label is configured as dedup label,
		// which enables vertical compaction (1:1 chained merge of identical samples).
		sc.Replicas, sc.Vertical = true, true
		for g := 0; g < nGroups && budget > 0; g++ {
			n := budget
			if g == 0 && nGroups == 2 {
				n = rapid.IntRange(1, budget).Draw(rt, "g0blocks")
			}
			na := (n + 1) / 2
			if n >= 2 {
				na = rapid.IntRange(1, n-1).Draw(rt, "na")
			}
			wa := genWindows(rt, na, "wa")
			for _, w := range wa {
				sc.Blocks = append(sc.Blocks, windowBlock(rt, g, "a", w, len(sc.Streams[g])))
			}
			if n-na > 0 {
				var wb []int
				if pick(rt, "sameWindows", 6) > 0 {
					// replica b covers (a prefix / cyclic reuse of) the windows of replica a: overlap guaranteed
					for i := 0; i < n-na; i++ {
						wb = append(wb, wa[i%len(wa)]+(i/len(wa))*len(wa))
					}
				} else {
					wb = genWindows(rt, n-na, "wb")
				}
				for _, w := range wb {
					sc.Blocks = append(sc.Blocks, windowBlock(rt, g, "b", w, len(sc.Streams[g])))
				}
			}
			budget -= n
		}
	default: // overlap: one external label set, blocks of arbitrary extent, vertical compaction flag set
		sc.Vertical = true
		for i := 0; i < budget; i++ {
			g := 0
			if nGroups == 2 {
				g = rapid.IntRange(0, 1).Draw(rt, "g")
			}
			lo := rapid.Int64Range(0, 5*windowMs).Draw(rt, "lo")
			if rapid.Bool().Draw(rt, "snap") {
				lo = lo / 500 * 500
			}
			if i > 0 && pick(rt, "onPrev", 4) > 0 {
				// start inside the previous block of the same group, if any: a certain overlap
				for j := len(sc.Blocks) - 1; j >= 0; j-- {
					if p := sc.Blocks[j]; p.Group == g {
						lo = rapid.Int64Range(p.Lo, p.Hi).Draw(rt, "loIn")
						break
					}
				}
			}
			hi := lo + rapid.Int64Range(300, 1500).Draw(rt, "len")
			sc.Blocks = append(sc.Blocks, blockSpec{Group: g, Lo: lo, Hi: hi, DropLo: -1, DropHi: -1, SkipSeries: -1})
		}
	}
	// drop blocks that hold no sample (a TSDB never cuts an empty block); keep at least the request's shape.
	kept := sc.Blocks[:0]
	for _, b := range sc.Blocks {
		if len(sc.seriesOf(b)) > 0 {
			kept = append(kept, b)
		}
	}
	sc.Blocks = kept
	if len(sc.Blocks) == 0 {
		sc.Blocks = []blockSpec{{Group: 0, Lo: 0, Hi: windowMs - 1, DropLo: -1, DropHi: -1, SkipSeries: -1}}
	}
	return sc
}

// ---------------------------------------------------------------------------------------------
// sample sets

// skey identifies a sample as a store gateway client sees it after query-time replica
// deduplication: external labels without the replica label, series labels, timestamp.
type skey struct {
	series string
	t      int64
}

type sampleSet map[skey]float64

func groupString(ext map[string]string) string {
	ks := make([]string, 0, len(ext))
	for k := range ext {
		if k == replicaLabel {
			continue
		}
		ks = append(ks, k)
	}
	sort.Strings(ks)
	var sb strings.Builder
	for _, k := range ks {
		fmt.Fprintf(&sb, "%s=%s,", k, ext[k])
	}
	return sb.String()
}

// fixture is the initial bucket content of a scenario plus what it holds.
type fixture struct {
	sc       scenario
	objects  map[string][]byte
	ids      []ulid.ULID // same order as sc.Blocks
	original sampleSet
	perBlock map[ulid.ULID]sampleSet
}

func newTestLogger() log.Logger {
	if os.Getenv("VERIF_XCOMPACT_LOG") != "" {
		return log.NewLogfmtLogger(log.NewSyncWriter(os.Stderr))
	}
	return log.NewNopLogger()
}

// buildFixture creates the blocks with the real TSDB block writer, injects Thanos metadata and
// uploads them with block.Upload into an in-memory bucket.
func buildFixture(sc scenario, tmp string) (*fixture, error) {
	ctx := context.Background()
	logger := log.NewNopLogger()
	bkt := objstore.NewInMemBucket()
	fx := &fixture{sc: sc, original: sampleSet{}, perBlock: map[ulid.ULID]sampleSet{}}
	dir := filepath.Join(tmp, "build")
	if err := os.MkdirAll(dir, 0o755); err != nil {
		return nil, err
	}
	defer os.RemoveAll(dir)
	for _, b := range sc.Blocks {
		held := sc.seriesOf(b)
		names := make([]string, 0, len(held))
		for n := range held {
			names = append(names, n)
		}
		sort.Strings(names)
		var ss []storage.Series
		set := sampleSet{}
		ext := sc.extLabels(b)
		for _, n := range names {
			lset := labels.FromStrings("__name__", "m", "s", n)
			cs := make([]chunks.Sample, 0, len(held[n]))
			for _, s := range held[n] {
				cs = append(cs, s)
				k := skey{groupString(ext) + lset.String(), s.t}
				set[k] = s.v
				fx.original[k] = s.v
			}
			ss = append(ss, storage.NewListSeries(lset, cs))
		}
		bdir, err := tsdb.CreateBlock(ss, dir, windowMs, logutil.GoKitLogToSlog(logger))
		if err != nil {
			return nil, fmt.Errorf("create block: %w", err)
		}
		if _, err := metadata.InjectThanos(logger, bdir, metadata.Thanos{
			Labels:     ext,
			Downsample: metadata.ThanosDownsample{Resolution: 0},
			Source:     metadata.SidecarSource,
		}, nil); err != nil {
			return nil, err
		}
		if err := block.Upload(ctx, logger, bkt, bdir, metadata.NoneFunc); err != nil {
			return nil, err
		}
		id, err := ulid.Parse(filepath.Base(bdir))
		if err != nil {
			return nil, err
		}
		fx.ids = append(fx.ids, id)
		fx.perBlock[id] = set
	}
	fx.objects = bkt.Objects()
	return fx, nil
}

// freshBucket returns a new in-memory bucket holding the fixture's initial objects.
func (fx *fixture) freshBucket() *objstore.InMemBucket {
	bkt := objstore.NewInMemBucket()
	names := make([]string, 0, len(fx.objects))
	for n := range fx.objects {
		names = append(names, n)
	}
	sort.Strings(names)
	for _, n := range names {
		_ = bkt.Upload(context.Background(), n, bytes.NewReader(fx.objects[n]))
	}
	return bkt
}

// readBlockSamples downloads block id from bkt and reads every sample through the TSDB block querier.
func readBlockSamples(bkt objstore.Bucket, id ulid.ULID, tmp string) (sampleSet, *metadata.Meta, error) {
	ctx := context.Background()
	dir, err := os.MkdirTemp(tmp, "read")
	if err != nil {
		return nil, nil, err
	}
	defer os.RemoveAll(dir)
	bdir := filepath.Join(dir, id.String())
	if err := block.Download(ctx, log.NewNopLogger(), bkt, id, bdir); err != nil {
		return nil, nil, fmt.Errorf("download %s: %w", id, err)
	}
	meta, err := metadata.ReadFromDir(bdir)
	if err != nil {
		return nil, nil, err
	}
	b, err := tsdb.OpenBlock(nil, bdir, nil, nil)
	if err != nil {
		return nil, nil, fmt.Errorf("open %s: %w", id, err)
	}
	defer b.Close()
	q, err := tsdb.NewBlockQuerier(b, -1<<62, 1<<62)
	if err != nil {
		return nil, nil, err
	}
	defer q.Close()
	out := sampleSet{}
	g := groupString(meta.Thanos.Labels)
	ss := q.Select(ctx, true, nil, labels.MustNewMatcher(labels.MatchRegexp, "__name__", ".*"))
	var it chunkenc.Iterator
	for ss.Next() {
		s := ss.At()
		ls := s.Labels().String()
		it = s.Iterator(it)
		for it.Next() != chunkenc.ValNone {
			t, v := it.At()
			k := skey{g + ls, t}
			if _, dup := out[k]; dup {
				return nil, nil, fmt.Errorf("block %s holds sample %v twice", id, k)
			}
			out[k] = v
		}
		if it.Err() != nil {
			return nil, nil, it.Err()
		}
	}
	if ss.Err() != nil {
		return nil, nil, ss.Err()
	}
	return out, meta, nil
}

// ---------------------------------------------------------------------------------------------
// F-opbucket

var errInjected = errors.New("verif: injected transient bucket error (i/o timeout)")
var errDead = errors.New("verif: process is dead (crashed instance released)")

type opRec struct {
	N     int    // 1-based operation number
	Kind  string // iter, iterattr, get, getrange, exists, attributes, upload, delete
	Name  string
	Mut   bool
	MutN  int // 1-based mutation number (0 for reads)
	Sync  int // ordinal (1-based) of the sync this read belongs to; 0 outside a sync
	Class string
}

// opClass classifies an operation by kind and object type, independent of block ids.
func opClass(kind, name string) string {
	base := path.Base(name)
	switch {
	case name == "":
		return kind + ":root"
	case strings.HasSuffix(name, "/"):
		return kind + ":dir"
	case base == block.MetaFilename:
		return kind + ":meta"
	case base == metadata.DeletionMarkFilename:
		return kind + ":deletion-mark"
	case base == metadata.NoCompactMarkFilename:
		return kind + ":no-compact-mark"
	case base == metadata.NoDownsampleMarkFilename:
		return kind + ":no-downsample-mark"
	case base == block.IndexFilename:
		return kind + ":index"
	case strings.Contains(name, "/"+block.ChunksDirname+"/"):
		return kind + ":chunks"
	default:
		if _, ok := block.IsBlockDir(name); ok {
			return kind + ":blockdir"
		}
		return kind + ":other"
	}
}

const (
	stLive = iota
	stFrozen
	stDead
)

// opBucket wraps the inner bucket. All mutating operations (Upload, Delete) are serialised with
// the observer so that every observation sees exactly a prefix of the mutation sequence.
type opBucket struct {
	inner objstore.Bucket

	mu        sync.Mutex
	state     int
	n, nMut   int
	log       []opRec
	syncOrd   int
	inSync    bool
	frozenCh  chan struct{}
	releaseCh chan struct{}

	// control, set before use
	freezeAtMut int                                     // park instead of executing mutation #k; 0 = never
	failAtMut   int                                     // mutation #k is not applied and returns a transient error; 0 = never
	observe     func(op opRec)                          // after each executed mutation (mutex held)
	failRead    func(op opRec) (fail bool, onRead bool) // decide on injecting a transient error into a read
	onSyncBegin func(ord int)
	frozenOp    opRec
}

func newOpBucket(inner objstore.Bucket) *opBucket {
	return &opBucket{inner: inner, frozenCh: make(chan struct{}), releaseCh: make(chan struct{})}
}

func (b *opBucket) beginSync() {
	b.mu.Lock()
	b.syncOrd++
	b.inSync = true
	ord := b.syncOrd
	cb := b.onSyncBegin
	b.mu.Unlock()
	if cb != nil {
		cb(ord)
	}
}

func (b *opBucket) endSync() {
	b.mu.Lock()
	b.inSync = false
	b.mu.Unlock()
}

// release lets every parked operation return an error; the instance stays dead.
func (b *opBucket) release() {
	b.mu.Lock()
	if b.state != stDead {
		b.state = stDead
		close(b.releaseCh)
	}
	b.mu.Unlock()
}

func (b *opBucket) mutations() int {
	b.mu.Lock()
	defer b.mu.Unlock()
	return b.nMut
}

func (b *opBucket) opLog() []opRec {
	b.mu.Lock()
	defer b.mu.Unlock()
	return append([]opRec(nil), b.log...)
}

// read gates a read operation. It returns (injectOnRead, err).
func (b *opBucket) read(kind, name string) (bool, error) {
	b.mu.Lock()
	switch b.state {
	case stFrozen:
		b.mu.Unlock()
		<-b.releaseCh
		return false, errDead
	case stDead:
		b.mu.Unlock()
		return false, errDead
	}
	b.n++
	op := opRec{N: b.n, Kind: kind, Name: name, Class: opClass(kind, name)}
	if b.inSync {
		op.Sync = b.syncOrd
	}
	b.log = append(b.log, op)
	f := b.failRead
	b.mu.Unlock()
	if f != nil {
		if fail, onRead := f(op); fail {
			if onRead {
				return true, nil
			}
			return false, errInjected
		}
	}
	return false, nil
}

// mutate gates and executes a mutating operation.
func (b *opBucket) mutate(kind, name string, do func() error) error {
	b.mu.Lock()
	switch b.state {
	case stFrozen:
		b.mu.Unlock()
		<-b.releaseCh
		return errDead
	case stDead:
		b.mu.Unlock()
		return errDead
	}
	b.n++
	b.nMut++
	op := opRec{N: b.n, Kind: kind, Name: name, Mut: true, MutN: b.nMut, Class: opClass(kind, name)}
	b.log = append(b.log, op)
	if b.freezeAtMut > 0 && b.nMut == b.freezeAtMut {
		b.state = stFrozen
		b.frozenOp = op
		close(b.frozenCh)
		b.mu.Unlock()
		<-b.releaseCh
		return errDead
	}
	if b.failAtMut > 0 && b.nMut == b.failAtMut {
		b.frozenOp = op
		b.mu.Unlock()
		return errInjected
	}
	err := do()
	if err == nil && b.observe != nil {
		b.observe(op)
	}
	b.mu.Unlock()
	return err
}

func (b *opBucket) Close() error                    { return nil }
func (b *opBucket) Name() string                    { return "verif-opbucket" }
func (b *opBucket) Provider() objstore.ObjProvider  { return b.inner.Provider() }
func (b *opBucket) IsObjNotFoundErr(err error) bool { return b.inner.IsObjNotFoundErr(err) }
func (b *opBucket) IsAccessDeniedErr(err error) bool {
	return b.inner.IsAccessDeniedErr(err)
}
func (b *opBucket) SupportedIterOptions() []objstore.IterOptionType {
	return b.inner.SupportedIterOptions()
}

func (b *opBucket) Iter(ctx context.Context, dir string, f func(string) error, o ...objstore.IterOption) error {
	if _, err := b.read("iter", dir); err != nil {
		return err
	}
	return b.inner.Iter(ctx, dir, f, o...)
}

func (b *opBucket) IterWithAttributes(ctx context.Context, dir string, f func(objstore.IterObjectAttributes) error, o ...objstore.IterOption) error {
	if _, err := b.read("iter", dir); err != nil {
		return err
	}
	return b.inner.IterWithAttributes(ctx, dir, f, o...)
}

type failingReader struct {
	r    io.ReadCloser
	left int
}

func (f *failingReader) Read(p []byte) (int, error) {
	if f.left <= 0 {
		return 0, errInjected
	}
	if len(p) > f.left {
		p = p[:f.left]
	}
	n, err := f.r.Read(p)
	f.left -= n
	if err == io.EOF {
		return n, errInjected
	}
	return n, err
}
func (f *failingReader) Close() error { return f.r.Close() }

func (b *opBucket) Get(ctx context.Context, name string) (io.ReadCloser, error) {
	onRead, err := b.read("get", name)
	if err != nil {
		return nil, err
	}
	r, err := b.inner.Get(ctx, name)
	if !onRead {
		return r, err
	}
	if err != nil {
		// the stream of a missing object cannot fail: the injected fault becomes an error of the call
		// (reads run concurrently, so the occurrence hit may be another object than in the dry run).
		return nil, errInjected
	}
	// the object exists: hand out a few bytes, then fail the stream.
	return &failingReader{r: r, left: 7}, nil
}

func (b *opBucket) GetRange(ctx context.Context, name string, off, length int64) (io.ReadCloser, error) {
	if _, err := b.read("getrange", name); err != nil {
		return nil, err
	}
	return b.inner.GetRange(ctx, name, off, length)
}

func (b *opBucket) Exists(ctx context.Context, name string) (bool, error) {
	if _, err := b.read("exists", name); err != nil {
		return false, err
	}
	return b.inner.Exists(ctx, name)
}

func (b *opBucket) Attributes(ctx context.Context, name string) (objstore.ObjectAttributes, error) {
	if _, err := b.read("attributes", name); err != nil {
		return objstore.ObjectAttributes{}, err
	}
	return b.inner.Attributes(ctx, name)
}

func (b *opBucket) Upload(ctx context.Context, name string, r io.Reader, o ...objstore.ObjectUploadOption) error {
	return b.mutate("upload", name, func() error { return b.inner.Upload(ctx, name, r, o...) })
}

func (b *opBucket) Delete(ctx context.Context, name string) error {
	return b.mutate("delete", name, func() error { return b.inner.Delete(ctx, name) })
}

// ---------------------------------------------------------------------------------------------
// the compactor, wired as cmd/thanos/compact.go runCompact does

type stackConfig struct {
	dataDir      string
	deleteDelay  time.Duration
	vertical     bool
	replicaLabel bool
	retentionRaw time.Duration
	fetchConc    int // --block-meta-fetch-concurrency; 0 = defaultMetaFetchConcurrency
}

type stack struct {
	cfg       stackConfig
	logger    log.Logger
	insBkt    objstore.InstrumentedBucket
	sy        *compact.Syncer
	compactor *compact.BucketCompactor
	ignoreDel *block.IgnoreDeletionMarkFilter
	retention map[compact.ResolutionLevel]time.Duration
	marked    prometheus.Counter
	c         prometheus.Counter
}

// syncMarkFetcher brackets every Fetch so that the opBucket can attribute reads to a sync. It does
// not change what the real fetcher does.
type syncMarkFetcher struct {
	block.MetadataFetcher
	ob *opBucket
}

func (f syncMarkFetcher) Fetch(ctx context.Context) (map[ulid.ULID]*metadata.Meta, map[ulid.ULID]error, error) {
	f.ob.beginSync()
	defer f.ob.endSync()
	return f.MetadataFetcher.Fetch(ctx)
}

const defaultMetaFetchConcurrency = 4 // --block-meta-fetch-concurrency (default 32)

func newStack(ctx context.Context, ob *opBucket, cfg stackConfig) (*stack, error) {
	logger := newTestLogger()
	reg := prometheus.NewRegistry()
	s := &stack{cfg: cfg, logger: logger}
	deleteDelay := cfg.deleteDelay
	metaFetchConcurrency := cfg.fetchConc
	if metaFetchConcurrency <= 0 {
		metaFetchConcurrency = defaultMetaFetchConcurrency
	}

	blocksMarked := prometheus.NewCounterVec(prometheus.CounterOpts{Name: "verif_blocks_marked"}, []string{"marker", "reason"})
	s.marked = blocksMarked.WithLabelValues(metadata.DeletionMarkFilename, "")
	s.c = prometheus.NewCounter(prometheus.CounterOpts{Name: "verif_misc"})

	insBkt := objstoretracing.WrapWithTraces(objstore.WrapWithMetrics(ob, extprom.WrapRegistererWithPrefix("thanos_", reg), ob.Name()))
	s.insBkt = insBkt

	var dedupReplicaLabels []string
	if cfg.replicaLabel {
		dedupReplicaLabels = []string{replicaLabel}
	}

	ignoreDeletionMarkFilter := block.NewIgnoreDeletionMarkFilter(logger, insBkt, deleteDelay/2, metaFetchConcurrency)
	duplicateBlocksFilter := block.NewDeduplicateFilter(metaFetchConcurrency)
	noCompactMarkerFilter := compact.NewGatherNoCompactionMarkFilter(logger, insBkt, metaFetchConcurrency)
	labelShardedMetaFilter := block.NewLabelShardedMetaFilter(nil, dedupReplicaLabels...)
	consistencyDelayMetaFilter := block.NewConsistencyDelayMetaFilter(logger, 0, extprom.WrapRegistererWithPrefix("thanos_", reg))
	s.ignoreDel = ignoreDeletionMarkFilter

	blockLister := block.NewConcurrentLister(logger, insBkt)
	baseMetaFetcher, err := block.NewBaseFetcher(logger, metaFetchConcurrency, insBkt, blockLister, cfg.dataDir, extprom.WrapRegistererWithPrefix("thanos_", reg))
	if err != nil {
		return nil, err
	}
	enableVerticalCompaction := cfg.vertical
	if len(dedupReplicaLabels) > 0 {
		enableVerticalCompaction = true
	}
	filters := []block.MetadataFilter{
		labelShardedMetaFilter,
		consistencyDelayMetaFilter,
		ignoreDeletionMarkFilter,
		block.NewReplicaLabelRemover(logger, dedupReplicaLabels),
		duplicateBlocksFilter,
		noCompactMarkerFilter,
	}
	cf := baseMetaFetcher.NewMetaFetcher(extprom.WrapRegistererWithPrefix("thanos_", reg), filters)
	sy, err := compact.NewMetaSyncer(logger, reg, insBkt, syncMarkFetcher{cf, ob}, duplicateBlocksFilter, ignoreDeletionMarkFilter, s.marked, s.c, 0)
	if err != nil {
		return nil, err
	}
	s.sy = sy

	mergeFunc := storage.NewCompactingChunkSeriesMerger(storage.ChainedSeriesMerge) // --deduplication.func=""
	comp, err := tsdb.NewLeveledCompactor(ctx, reg, logutil.GoKitLogToSlog(logger), compactionLevels, downsample.NewPool(), mergeFunc)
	if err != nil {
		return nil, err
	}
	compactDir := path.Join(cfg.dataDir, "compact")
	if err := os.MkdirAll(compactDir, os.ModePerm); err != nil {
		return nil, err
	}
	grouper := compact.NewDefaultGrouper(logger, insBkt, false, enableVerticalCompaction, reg, s.marked, s.c,
		blocksMarked.WithLabelValues(metadata.NoCompactMarkFilename, metadata.OutOfOrderChunksNoCompactReason),
		metadata.NoneFunc, 1, 1)
	tsdbPlanner := compact.NewPlanner(logger, compactionLevels, noCompactMarkerFilter)
	largeIndexFilterPlanner := compact.WithLargeTotalIndexSizeFilter(tsdbPlanner, insBkt, int64(64<<30),
		blocksMarked.WithLabelValues(metadata.NoCompactMarkFilename, metadata.IndexSizeExceedingNoCompactReason))
	var planner compact.Planner = largeIndexFilterPlanner
	if enableVerticalCompaction {
		planner = compact.WithVerticalCompactionDownsampleFilter(largeIndexFilterPlanner, insBkt,
			blocksMarked.WithLabelValues(metadata.NoCompactMarkFilename, metadata.DownsampleVerticalCompactionNoCompactReason))
	}
	blocksCleaner := compact.NewBlocksCleaner(logger, insBkt, ignoreDeletionMarkFilter, deleteDelay, s.c, s.c)
	s.compactor, err = compact.NewBucketCompactor(logger, sy, grouper, planner, comp, compactDir, insBkt, 1, false, blocksCleaner)
	if err != nil {
		return nil, err
	}
	s.retention = map[compact.ResolutionLevel]time.Duration{
		compact.ResolutionLevelRaw: cfg.retentionRaw,
		compact.ResolutionLevel5m:  0,
		compact.ResolutionLevel1h:  0,
	}
	return s, nil
}

// cycle is compactMainFn of cmd/thanos/compact.go with --downsampling.disable.
func (s *stack) cycle(ctx context.Context) error {
	if err := s.compactor.Compact(ctx); err != nil {
		return fmt.Errorf("compaction: %w", err)
	}
	if err := s.sy.SyncMetas(ctx); err != nil {
		return fmt.Errorf("sync before retention: %w", err)
	}
	if err := compact.ApplyRetentionPolicyByResolution(ctx, s.logger, s.insBkt, s.sy.Metas(), s.retention, s.marked); err != nil {
		return fmt.Errorf("retention failed: %w", err)
	}
	compact.BestEffortCleanAbortedPartialUploads(ctx, s.logger, s.sy.Partial(), s.insBkt, s.c, s.c, s.c, s.ignoreDel.DeletionMarkBlocks())
	return nil
}

// ---------------------------------------------------------------------------------------------
// bucket state helpers (read the inner in-memory bucket directly)

type bucketState struct {
	metas   map[ulid.ULID]*metadata.Meta
	marked  map[ulid.ULID]bool // deletion-mark.json present
	partial map[ulid.ULID]bool // objects under the dir but no meta.json
	objects map[string][]byte
}

func readState(inner *objstore.InMemBucket) bucketState {
	st := bucketState{metas: map[ulid.ULID]*metadata.Meta{}, marked: map[ulid.ULID]bool{}, partial: map[ulid.ULID]bool{}, objects: inner.Objects()}
	for name, data := range st.objects {
		parts := strings.SplitN(name, "/", 2)
		id, ok := block.IsBlockDir(parts[0])
		if !ok || len(parts) < 2 {
			continue
		}
		switch parts[1] {
		case block.MetaFilename:
			m := &metadata.Meta{}
			if json.Unmarshal(data, m) == nil {
				st.metas[id] = m
			}
		case metadata.DeletionMarkFilename:
			st.marked[id] = true
		}
		if _, ok := st.partial[id]; !ok {
			st.partial[id] = true
		}
	}
	for id := range st.metas {
		st.partial[id] = false
	}
	return st
}

// complete says whether every file listed in the block's meta.json exists with the recorded size.
func (st bucketState) complete(id ulid.ULID) bool {
	m := st.metas[id]
	if m == nil {
		return false
	}
	for _, f := range m.Thanos.Files {
		if f.RelPath == block.MetaFilename {
			continue
		}
		data, ok := st.objects[path.Join(id.String(), f.RelPath)]
		if !ok || int64(len(data)) != f.SizeBytes {
			return false
		}
	}
	return true
}

// storeView returns the ids a store gateway's meta fetcher selects on bkt: the filter chain of
// cmd/thanos/store.go with --ignore-deletion-marks-delay=0 and --consistency-delay=0.
func storeView(ctx context.Context, inner objstore.Bucket) (map[ulid.ULID]*metadata.Meta, error) {
	ibkt := objstore.WithNoopInstr(inner)
	logger := log.NewNopLogger()
	f, err := block.NewMetaFetcher(logger, 1, ibkt, block.NewConcurrentLister(logger, ibkt), "", nil, []block.MetadataFilter{
		block.NewLabelShardedMetaFilter(nil),
		block.NewConsistencyDelayMetaFilter(logger, 0, nil),
		block.NewIgnoreDeletionMarkFilter(logger, ibkt, 0, 1),
		block.NewDeduplicateFilter(1),
	})
	if err != nil {
		return nil, err
	}
	metas, _, err := f.Fetch(ctx)
	return metas, err
}

func sortedIDs[T any](m map[ulid.ULID]T) []ulid.ULID {
	out := make([]ulid.ULID, 0, len(m))
	for id := range m {
		out = append(out, id)
	}
	sort.Slice(out, func(i, j int) bool { return out[i].Compare(out[j]) < 0 })
	return out
}
