package xcompact

// C29 Compaction never loses or invents data, even if it crashes.
//
// Domain: generated sets of 1..6 tiny level-1 blocks (aligned windows, replicated streams with the
// replica label configured for deduplication, overlapping blocks with vertical compaction enabled,
// one or two external-label groups, delete delay 0 or 2h) behind the compactor wired as
// cmd/thanos/compact.go does. One crash-free cycle numbers the bucket mutations (Upload/Delete);
// then for crash points k the run is repeated from the initial bucket, frozen just before
// mutation k (the instance is parked and abandoned like a killed process), and a new compactor is
// started on the same bucket (same or fresh data dir) and cycled until a cycle mutates nothing.
//
// Oracle (after every executed mutation of every run, on the inner bucket): the blocks selected by a
// store gateway's filter chain, restricted to complete blocks, still hold every original sample;
// no block that ever gets a meta.json holds a sample that is not original; at quiescence every
// original sample is held by exactly one served block.

import (
	"context"
	"fmt"
	"os"
	"path/filepath"
	"sort"
	"strings"
	"testing"
	"time"

	"github.com/oklog/ulid/v2"
	"github.com/thanos-io/objstore"
	"pgregory.net/rapid"

	"github.com/thanos-io/thanos/pkg/block/metadata"
	"github.com/thanos-io/thanos/verifx/kit"
)

const c29MaxCycles = 6

// c29Oracle accumulates the per-block sample memo and the first violation. Its observe method runs on
// goroutines of the compactor under test, so it never calls into testing/rapid.
type c29Oracle struct {
	fx        *fixture
	tmp       string
	memo      map[ulid.ULID]sampleSet
	violation string
	observed  int
}

func newC29Oracle(fx *fixture, tmp string) *c29Oracle {
	o := &c29Oracle{fx: fx, tmp: tmp, memo: map[ulid.ULID]sampleSet{}}
	for id, s := range fx.perBlock {
		o.memo[id] = s
	}
	return o
}

func (o *c29Oracle) fail(format string, a ...any) {
	if o.violation == "" {
		o.violation = fmt.Sprintf(format, a...)
	}
}

func describeBucket(st bucketState, view map[ulid.ULID]*metadata.Meta) string {
	var sb strings.Builder
	for _, id := range sortedIDs(st.partial) {
		m := st.metas[id]
		switch {
		case m == nil:
			fmt.Fprintf(&sb, "%s{partial marked=%v} ", id, st.marked[id])
		default:
			_, served := view[id]
			src := make([]string, 0, len(m.Compaction.Sources))
			for _, s := range m.Compaction.Sources {
				src = append(src, s.String()[20:])
			}
			fmt.Fprintf(&sb, "%s{[%d,%d) lvl=%d labels=%v sources=%v marked=%v complete=%v served=%v} ", id, m.MinTime, m.MaxTime,
				m.Compaction.Level, m.Thanos.Labels, src, st.marked[id], st.complete(id), served)
		}
	}
	return sb.String()
}

// check evaluates the invariant on the inner bucket. final additionally demands exactly-once.
func (o *c29Oracle) check(inner *objstore.InMemBucket, when string, final bool) {
	if o.violation != "" {
		return
	}
	o.observed++
	st := readState(inner)
	for _, id := range sortedIDs(st.metas) {
		if _, ok := o.memo[id]; ok {
			continue
		}
		if !st.complete(id) {
			// meta.json without all of its files (C28's subject, not C29's): such a block serves
			// nothing, so it simply does not count below; it is read once it is complete.
			continue
		}
		set, _, err := readBlockSamples(inner, id, o.tmp)
		if err != nil {
			o.fail("%s: block %s became visible but cannot be read: %v", when, id, err)
			return
		}
		o.memo[id] = set
		for k, v := range set {
			ov, ok := o.fx.original[k]
			if !ok {
				o.fail("%s: block %s holds sample %s@%d=%v that no source block holds (invented)", when, id, k.series, k.t, v)
				return
			}
			if ov != v {
				o.fail("%s: block %s holds sample %s@%d=%v, the sources hold %v (changed)", when, id, k.series, k.t, v, ov)
				return
			}
		}
	}
	view, err := storeView(context.Background(), inner)
	if err != nil {
		o.fail("%s: store gateway fetch failed on the inner bucket: %v", when, err)
		return
	}
	have := make(map[skey]int, len(o.fx.original))
	for _, id := range sortedIDs(view) {
		if !st.complete(id) {
			continue
		}
		for k := range o.memo[id] {
			have[k]++
		}
	}
	for k, v := range o.fx.original {
		n := have[k]
		if n == 0 {
			o.fail("%s: original sample %s@%d=%v is in no block a store gateway would serve; bucket: %s", when, k.series, k.t, v, describeBucket(st, view))
			return
		}
		if final && n != 1 {
			o.fail("%s: at quiescence original sample %s@%d=%v is served by %d blocks; bucket: %s", when, k.series, k.t, v, n, describeBucket(st, view))
			return
		}
	}
}

// c29Window says whether the bucket state is "result uploaded, not every source marked yet": some
// complete unmarked block's sources are strictly contained in the sources of another complete block
// of the same group (external labels without the replica label).
func c29Window(st bucketState) bool {
	ids := sortedIDs(st.metas)
	for _, a := range ids {
		if st.marked[a] {
			continue
		}
		ma := st.metas[a]
		for _, b := range ids {
			mb := st.metas[b]
			if a == b || len(mb.Compaction.Sources) <= len(ma.Compaction.Sources) || groupString(ma.Thanos.Labels) != groupString(mb.Thanos.Labels) {
				continue
			}
			in := map[ulid.ULID]bool{}
			for _, s := range mb.Compaction.Sources {
				in[s] = true
			}
			all := true
			for _, s := range ma.Compaction.Sources {
				all = all && in[s]
			}
			if all {
				return true
			}
		}
	}
	return false
}

type c29Run struct {
	frozen    bool
	frozenOp  opRec
	window    bool
	cycles    int
	quiescent bool
	errs      []string
	log       []opRec // first instance's operation log
	mutations int
}

// c29RunOnce runs the compactor from the initial bucket with a crash before mutation k (k==0: no
// crash), restarts it and cycles until quiescence. reuseDir: the restarted instance keeps the data dir.
//
// fault (instead of a crash): mutation k of the first instance is not applied and returns a transient
// error to the compactor; the same instance keeps cycling (what the compactor's retry loop does) until
// quiescence.
func c29RunOnce(fx *fixture, o *c29Oracle, k int, reuseDir bool, tag string, fault ...bool) (res c29Run, harnessErr error) {
	ctx, cancel := context.WithCancel(context.Background())
	defer cancel()
	inner := fx.freshBucket()
	dataDir, err := os.MkdirTemp(o.tmp, "data")
	if err != nil {
		return res, err
	}
	defer os.RemoveAll(dataDir)
	cfg := stackConfig{dataDir: filepath.Join(dataDir, "d1"), deleteDelay: fx.sc.DeleteDelay, vertical: fx.sc.Vertical, replicaLabel: fx.sc.Replicas}

	ob1 := newOpBucket(inner)
	if len(fault) > 0 && fault[0] {
		ob1.failAtMut = k
		k = 0
	} else {
		ob1.freezeAtMut = k
	}
	ob1.observe = func(op opRec) {
		o.check(inner, fmt.Sprintf("%s instance 1 after mutation %d (%s %s)", tag, op.MutN, op.Kind, op.Name), false)
	}
	s1, err := newStack(ctx, ob1, cfg)
	if err != nil {
		return res, err
	}
	defer ob1.release()

	live := ob1 // the instance currently alive
	st := s1
	var done1 chan error
	if k > 0 {
		done1 = make(chan error, 1)
		go func() { done1 <- s1.cycle(ctx) }()
		select {
		case <-ob1.frozenCh:
			res.frozen = true
			res.frozenOp = ob1.frozenOp
			res.window = c29Window(readState(inner))
			// the crashed instance is abandoned; a new one starts on the same bucket.
			if !reuseDir {
				cfg.dataDir = filepath.Join(dataDir, "d2")
			}
			ob2 := newOpBucket(inner)
			ob2.observe = func(op opRec) {
				o.check(inner, fmt.Sprintf("%s restarted instance after mutation %d (%s %s)", tag, op.MutN, op.Kind, op.Name), false)
			}
			s2, err := newStack(ctx, ob2, cfg)
			if err != nil {
				return res, err
			}
			defer ob2.release()
			live, st = ob2, s2
		case err := <-done1:
			// crash point beyond the end of this run: the first cycle completed.
			done1 = nil
			res.cycles = 1
			if err != nil {
				res.errs = append(res.errs, err.Error())
			}
		}
	}
	for !res.quiescent && res.cycles < c29MaxCycles && o.violation == "" {
		before := live.mutations()
		err := st.cycle(ctx)
		res.cycles++
		if err != nil {
			res.errs = append(res.errs, err.Error())
			continue
		}
		if live.mutations() == before {
			res.quiescent = true
		}
	}
	if res.quiescent && o.violation == "" {
		o.check(inner, tag+" at quiescence", true)
	}
	res.log = ob1.opLog()
	res.mutations = ob1.mutations()
	if ob1.failAtMut > 0 && ob1.frozenOp.N > 0 {
		res.frozenOp = ob1.frozenOp
	}
	// let the parked goroutines of the dead instance unwind before the directories go away.
	ob1.release()
	if done1 != nil {
		select {
		case <-done1:
		case <-time.After(60 * time.Second):
			return res, fmt.Errorf("crashed instance did not unwind after release")
		}
	}
	return res, nil
}

// c29Points returns the crash points worth preferring when sampling: those whose prefix contains a
// result's meta.json while the deletion marks of its sources are not all written yet.
// blockOf returns the block id an object name belongs to (zero ULID if none).
func blockOf(name string) ulid.ULID {
	id, err := ulid.Parse(strings.SplitN(name, "/", 2)[0])
	if err != nil {
		return ulid.ULID{}
	}
	return id
}

func c29Points(log []opRec) (window, rest []int) {
	inWin := false
	for _, op := range log {
		if !op.Mut {
			continue
		}
		k := op.MutN
		if inWin && op.Class == "upload:deletion-mark" {
			window = append(window, k)
			continue
		}
		inWin = false
		rest = append(rest, k)
		if op.Class == "upload:meta" {
			inWin = true
		}
	}
	return window, rest
}

func pickInts(rt *rapid.T, from []int, n int, label string) []int {
	pool := append([]int(nil), from...)
	var out []int
	for len(out) < n && len(pool) > 0 {
		j := rapid.IntRange(0, len(pool)-1).Draw(rt, label)
		out = append(out, pool[j])
		pool = append(pool[:j], pool[j+1:]...)
	}
	return out
}

func c29Scenario(rt *rapid.T, rec *kit.Rec, sc scenario, maxPoints int, bothDirs bool) (exhaustive bool) {
	tmp, err := os.MkdirTemp("", "c29")
	if err != nil {
		rt.Fatalf("HARNESS: %v", err)
	}
	defer os.RemoveAll(tmp)
	fx, err := buildFixture(sc, tmp)
	if err != nil {
		rt.Fatalf("HARNESS: building blocks failed: %v\nscenario: %s", err, sc)
	}
	o := newC29Oracle(fx, tmp)
	// the fixture itself: what the TSDB reader returns for the uploaded source blocks is what was generated.
	inner0 := fx.freshBucket()
	for _, id := range fx.ids {
		got, _, err := readBlockSamples(inner0, id, tmp)
		if err != nil {
			rt.Fatalf("HARNESS: reading back source block %s: %v", id, err)
		}
		if len(got) != len(fx.perBlock[id]) {
			rt.Fatalf("HARNESS: source block %s holds %d samples, generated %d", id, len(got), len(fx.perBlock[id]))
		}
		for k, v := range fx.perBlock[id] {
			if gv, ok := got[k]; !ok || gv != v {
				rt.Fatalf("HARNESS: source block %s lacks generated sample %v", id, k)
			}
		}
	}
	o.check(inner0, "initial bucket", false)
	if o.violation != "" {
		rt.Fatalf("HARNESS: oracle rejects the initial bucket: %s\nscenario: %s", o.violation, sc)
	}

	base, err := c29RunOnce(fx, o, 0, true, "crash-free run:")
	if err != nil {
		rt.Fatalf("HARNESS: %v", err)
	}
	if o.violation != "" {
		rt.Fatalf("C29 violated: %s\nscenario: %s", o.violation, sc)
	}
	M := base.mutations
	cls := []string{"crash-free", "mode-" + sc.Mode, fmt.Sprintf("blocks-%d", len(sc.Blocks)), fmt.Sprintf("groups-%d", len(sc.Streams))}
	if !base.quiescent {
		cls = append(cls, "crash-free-not-quiescent")
		rec.Note("crash-free run not quiescent after %d cycles: errs=%v scenario=%s", base.cycles, base.errs, sc)
	}
	if len(base.errs) > 0 {
		cls = append(cls, "crash-free-cycle-error")
	}
	if M == 0 {
		cls = append(cls, "nothing-to-compact")
	}
	compactions := 0
	for _, op := range base.log {
		if op.Class == "upload:meta" {
			compactions++
		}
	}
	cls = append(cls, fmt.Sprintf("compactions-%d", min(compactions, 4)))
	rec.Case("crashfree "+sc.String(), false, cls...)

	window, rest := c29Points(base.log)
	var ks []int
	exhaustive = true
	if maxPoints > 0 && M > maxPoints {
		exhaustive = false
		nw := min(len(window), (maxPoints+1)/2)
		ks = append(ks, pickInts(rt, window, nw, "kWindow")...)
		ks = append(ks, pickInts(rt, rest, maxPoints-len(ks), "kRest")...)
		sort.Ints(ks)
	} else {
		for k := 1; k <= M; k++ {
			ks = append(ks, k)
		}
	}
	flip := rapid.Bool().Draw(rt, "reuseFirst")
	for _, k := range ks {
		dirs := []bool{(k%2 == 0) != flip}
		if bothDirs {
			dirs = []bool{true, false}
		}
		for _, reuse := range dirs {
			tag := fmt.Sprintf("crash before mutation %d, restart reuseDir=%v:", k, reuse)
			r, err := c29RunOnce(fx, o, k, reuse, tag)
			if err != nil {
				rt.Fatalf("HARNESS: %v", err)
			}
			if o.violation != "" {
				rt.Fatalf("C29 violated: %s\nscenario: %s", o.violation, sc)
			}
			c := []string{"mode-" + sc.Mode, "delay-" + sc.DeleteDelay.String()}
			if reuse {
				c = append(c, "restart-reused-dir")
			} else {
				c = append(c, "restart-fresh-dir")
			}
			if !r.frozen {
				// the re-run issued fewer mutations than the crash-free one (the cleaner's deletions
				// interleave differently); it is just another crash-free run.
				c = append(c, "crash-point-not-reached")
			} else {
				c = append(c, "crash-at-"+r.frozenOp.Class)
			}
			if r.window {
				c = append(c, "crash-between-result-upload-and-last-source-mark")
			}
			if r.quiescent {
				c = append(c, fmt.Sprintf("quiescent-after-%d-cycles", r.cycles))
			} else {
				c = append(c, "not-quiescent")
				rec.Note("not quiescent after %d cycles: %s errs=%v scenario=%s", r.cycles, tag, r.errs, sc)
			}
			if len(r.errs) > 0 {
				c = append(c, "restart-cycle-error")
			}
			rec.Case(fmt.Sprintf("k=%d/%d reuse=%v at=%s %s", k, M, reuse, r.frozenOp.Class, sc), r.frozen && r.window, c...)
		}
		// the same mutation fails with a transient error instead (no crash): the compactor sees the
		// error of that one operation and keeps running.
		tag := fmt.Sprintf("mutation %d fails with a transient error:", k)
		r, err := c29RunOnce(fx, o, k, true, tag, true)
		if err != nil {
			rt.Fatalf("HARNESS: %v", err)
		}
		if o.violation != "" {
			rt.Fatalf("C29 violated: %s\nscenario: %s", o.violation, sc)
		}
		c := []string{"fault", "mode-" + sc.Mode, "delay-" + sc.DeleteDelay.String()}
		resultUpload := false
		if r.frozenOp.N == 0 {
			c = append(c, "fault-point-not-reached")
		} else {
			c = append(c, "fault-at-"+r.frozenOp.Class)
			_, isSource := fx.perBlock[blockOf(r.frozenOp.Name)]
			resultUpload = r.frozenOp.Kind == "upload" && !isSource
			if resultUpload {
				c = append(c, "fault-in-result-upload")
			}
		}
		if r.quiescent {
			c = append(c, fmt.Sprintf("quiescent-after-%d-cycles", r.cycles))
		} else {
			c = append(c, "not-quiescent")
			rec.Note("not quiescent after %d cycles: %s errs=%v scenario=%s", r.cycles, tag, r.errs, sc)
		}
		rec.Case(fmt.Sprintf("fault k=%d/%d at=%s %s", k, M, r.frozenOp.Class, sc), resultUpload, c...)
	}
	return exhaustive
}

func TestVerifC29(t *testing.T) {
	rec := kit.For(t, "C29")
	maxPoints := kit.Scale("C29_POINTS", 12, 0) // crash points per scenario; 0 = all of them
	bothDirs := kit.Tier() == "thorough"
	all := true
	rec.Check(t, func(rt *rapid.T) {
		sc := genScenario(rt)
		if !c29Scenario(rt, rec, sc, maxPoints, bothDirs) {
			all = false
		}
	})
	// exhaustive = every crash point of every generated scenario was enumerated (scenarios are sampled).
	rec.Exhaustive(all && maxPoints == 0)
}
