package xdownsample

// C37 (level 1) Downsampled counters preserve the raw counter's increase.
// Domain: raw counter series (non-negative integer values: increases, plateaus, resets to 0 / to a
// smaller value / by exactly 1; NaN and stale markers), 1..3000 samples, irregular spacing;
// DownsampleRaw at 5m (and 1h). The counter aggregate is read (a) with
// downsample.NewApplyCounterResetsIterator over the counter sub-chunks and (b) through
// query.NewPromSeriesSet(.., COUNTER).
// Oracle: reference adj(i) over the non-NaN raw samples; every emitted point (T,V) must have
// V == adj(last raw index with t <= T), T strictly increasing, and the last emitted T must not lie
// before the last raw sample (otherwise the tail of the increase is lost).
// The level-2 part (5m -> 1h through the unexported downsampleAggr) lives in group downsamplei; the
// block-level variant (exported Downsample applied twice to a real TSDB block) is
// TestVerifC37_Blocks below.

import (
	"context"
	"flag"
	"fmt"
	"math"
	"os"
	"path/filepath"
	"strconv"
	"testing"

	"github.com/go-kit/log"
	"github.com/prometheus/common/promslog"
	"github.com/prometheus/prometheus/model/labels"
	"github.com/prometheus/prometheus/storage"
	"github.com/prometheus/prometheus/tsdb"
	"github.com/prometheus/prometheus/tsdb/chunkenc"
	"github.com/prometheus/prometheus/tsdb/chunks"
	"github.com/prometheus/prometheus/tsdb/index"
	"pgregory.net/rapid"

	"github.com/thanos-io/thanos/pkg/block/metadata"
	"github.com/thanos-io/thanos/pkg/compact/downsample"
	"github.com/thanos-io/thanos/pkg/query"
	"github.com/thanos-io/thanos/pkg/store/storepb"
	"github.com/thanos-io/thanos/verifx/kit"
)

// readCounter applies the counter-reset iterator to the counter sub-chunks of ms.
func readCounter(ms []chunks.Meta) ([]smpl, error) {
	its := make([]chunkenc.Iterator, 0, len(ms))
	for i, m := range ms {
		ac, err := aggrOf(m)
		if err != nil {
			return nil, fmt.Errorf("chunk %d: %w", i, err)
		}
		c, err := ac.Get(downsample.AggrCounter)
		if err != nil {
			return nil, fmt.Errorf("chunk %d: Get(counter): %w", i, err)
		}
		its = append(its, c.Iterator(nil))
	}
	return drainFloat(downsample.NewApplyCounterResetsIterator(its...))
}

type c37Info struct {
	chunks, resets, nans int
	atBoundary, near     bool
}

func checkC37Level1(xs []smpl, res int64) (string, c37Info) {
	var info c37Info
	nn := nonNaN(xs)
	info.nans = len(xs) - len(nn)
	for i := 1; i < len(nn); i++ {
		if nn[i].v < nn[i-1].v {
			info.resets++
		}
	}
	adj := refCounter(nn)
	out := downsample.DownsampleRaw(downsample.SamplesFromTSDBSamples(toTSDB(xs)), res)
	info.chunks = len(out)
	if len(nn) == 0 {
		if len(out) != 0 {
			return fmt.Sprintf("no non-NaN sample but %d chunks produced", len(out)), info
		}
		return "", info
	}
	var maxTimes []int64
	for i := 0; i+1 < len(out); i++ {
		maxTimes = append(maxTimes, out[i].MaxTime)
	}
	info.atBoundary, info.near = resetNearBoundary(nn, maxTimes)

	pts, err := readCounter(out)
	if err != nil {
		return "reading counter chunks: " + err.Error(), info
	}
	if msg := checkCounterPoints(pts, nn, adj); msg != "" {
		return "ApplyCounterResetsIterator: " + msg, info
	}
	sc, err := toStoreChunks(out)
	if err != nil {
		return "store form: " + err.Error(), info
	}
	set := query.NewPromSeriesSet(&oneSeriesSet{chks: sc}, 0, math.MaxInt64, []storepb.Aggr{storepb.Aggr_COUNTER}, nil)
	if !set.Next() {
		return "querier series set empty", info
	}
	qpts, err := drainFloat(set.At().Iterator(nil))
	if err != nil {
		return "querier counter iterator: " + err.Error(), info
	}
	if msg := checkCounterPoints(qpts, nn, adj); msg != "" {
		return "querier COUNTER read: " + msg, info
	}
	return "", info
}

func c37Classes(info c37Info) (bool, []string) {
	var cl []string
	if info.chunks > 1 {
		cl = append(cl, "chunks-2+")
	}
	switch {
	case info.resets == 0:
		cl = append(cl, "resets-0")
	case info.resets < 5:
		cl = append(cl, "resets-1..4")
	default:
		cl = append(cl, "resets-5+")
	}
	if info.nans > 0 {
		cl = append(cl, "has-nan")
	}
	if info.atBoundary {
		cl = append(cl, "reset-exactly-at-chunk-boundary")
	}
	if info.near {
		cl = append(cl, "reset-within-1-of-chunk-boundary")
	}
	return info.near, cl
}

func TestVerifC37(t *testing.T) {
	rec := kit.For(t, "C37")
	table := []struct {
		name string
		xs   []smpl
	}{
		{"single", []smpl{{0, 7}}},
		{"reset-in-window", []smpl{{10, 5}, {20, 9}, {30, 2}, {40, 4}}},
		{"reset-across-windows", []smpl{{10, 5}, {299999, 9}, {300000, 2}, {600000, 1}, {600001, 1}}},
		{"nan-then-reset", []smpl{{10, 5}, {20, math.NaN()}, {300001, 3}, {300002, staleNaN}, {900000, 3}}},
	}
	for _, c := range table {
		if msg, _ := checkC37Level1(c.xs, res5m); msg != "" {
			rec.Violation(t, "regression %s: %s", c.name, msg)
		}
	}
	rec.Check(t, func(rt *rapid.T) {
		res := rapid.SampledFrom([]int64{res5m, res5m, res5m, res1h}).Draw(rt, "res")
		xs, mode := genCounter(rt, res, false)
		msg, info := checkC37Level1(xs, res)
		if msg != "" {
			rt.Fatalf("C37 (level 1) violated: %s\nres=%d raw: %s", msg, res, renderSamples(xs, 400))
		}
		nt, cl := c37Classes(info)
		cl = append(cl, "level-1", fmt.Sprintf("res-%dm", res/60000))
		rec.Case(fmt.Sprintf("L1 res=%d %s %s", res, mode, renderSamples(xs, 12)), nt, cl...)
	})
}

// ---- block level: exported Downsample applied twice to a real TSDB block -------------------------

// readBlockSeries returns, per series (index order), the chunk metas with loaded chunks.
func readBlockSeries(dir string) ([]labels.Labels, [][]chunks.Meta, error) {
	b, err := tsdb.OpenBlock(nil, dir, downsample.NewPool(), nil)
	if err != nil {
		return nil, nil, err
	}
	defer b.Close()
	ir, err := b.Index()
	if err != nil {
		return nil, nil, err
	}
	defer ir.Close()
	cr, err := b.Chunks()
	if err != nil {
		return nil, nil, err
	}
	defer cr.Close()
	k, v := index.AllPostingsKey()
	p, err := ir.Postings(context.Background(), k, v)
	if err != nil {
		return nil, nil, err
	}
	var lsets []labels.Labels
	var out [][]chunks.Meta
	var bld labels.ScratchBuilder
	for p.Next() {
		var ms []chunks.Meta
		if err := ir.Series(p.At(), &bld, &ms); err != nil {
			return nil, nil, err
		}
		for i := range ms {
			c, _, err := cr.ChunkOrIterable(ms[i])
			if err != nil {
				return nil, nil, err
			}
			// copy: the reader's memory is unmapped on Close.
			cp := downsample.AggrChunk(append([]byte(nil), c.Bytes()...))
			if c.Encoding() != downsample.ChunkEncAggr {
				return nil, nil, fmt.Errorf("chunk with encoding %v in a downsampled block", c.Encoding())
			}
			ms[i].Chunk = &cp
		}
		lsets = append(lsets, bld.Labels())
		out = append(out, ms)
	}
	return lsets, out, p.Err()
}

func downsampleBlock(dir string, id string, res int64) (string, error) {
	bdir := filepath.Join(dir, id)
	meta, err := metadata.ReadFromDir(bdir)
	if err != nil {
		return "", err
	}
	b, err := tsdb.OpenBlock(nil, bdir, downsample.NewPool(), nil)
	if err != nil {
		return "", err
	}
	defer b.Close()
	nid, err := downsample.Downsample(context.Background(), log.NewNopLogger(), meta, b, dir, res)
	if err != nil {
		return "", err
	}
	return nid.String(), nil
}

func TestVerifC37_Blocks(t *testing.T) {
	rec := kit.For(t, "C37")
	budget := kit.Scale("C37_BLOCKS", 8, 30)
	stride := 1
	if f := flag.Lookup("rapid.checks"); f != nil {
		if n, err := strconv.Atoi(f.Value.String()); err == nil && n > budget {
			stride = n / budget
		}
	}
	calls := 0
	failed := false
	rec.Check(t, func(rt *rapid.T) {
		// -rapid.checks applies to every property of the binary; this expensive one (three blocks on
		// disk per case) evaluates only every stride-th case, `budget` cases in total. Once a case has
		// failed every call is evaluated so that shrinking and the final replay work.
		calls++
		if !failed && (calls%stride != 0 || budget <= 0) {
			return
		}
		budget--
		done := false
		defer func() {
			if !done {
				failed = true // Fatalf or a panic of the code under test
			}
		}()
		dir, err := os.MkdirTemp("", "c37blk")
		if err != nil {
			rt.Fatalf("tmp: %v", err)
		}
		defer os.RemoveAll(dir)
		ns := rapid.IntRange(1, 3).Draw(rt, "series")
		raws := make([][]smpl, ns)
		var series []storage.Series
		for i := range raws {
			xs, _ := genCounter(rt, res5m, rapid.Bool().Draw(rt, "slow"))
			if len(nonNaN(xs)) == 0 {
				xs[0].v = 1 // a series without any value is skipped by the block writer
			}
			raws[i] = xs
			series = append(series, storage.NewListSeries(labels.FromStrings("__name__", "c", "i", fmt.Sprint(i)), toTSDB(xs)))
		}
		// CreateBlock appends series after series through a head: the head's chunk range must exceed
		// the span of all series or the early samples of a later series are "out of bounds".
		lo, hi := int64(math.MaxInt64), int64(math.MinInt64)
		for _, xs := range raws {
			lo, hi = min(lo, xs[0].t), max(hi, xs[len(xs)-1].t)
		}
		bdir, err := tsdb.CreateBlock(series, dir, max(tsdb.DefaultBlockDuration, 4*(hi-lo)+4), promslog.NewNopLogger())
		if err != nil {
			rt.Fatalf("CreateBlock: %v", err)
		}
		id0 := filepath.Base(bdir)
		if _, err := metadata.InjectThanos(log.NewNopLogger(), bdir, metadata.Thanos{Labels: map[string]string{"e": "1"}, Downsample: metadata.ThanosDownsample{Resolution: 0}, Source: metadata.TestSource}, nil); err != nil {
			rt.Fatalf("InjectThanos: %v", err)
		}
		id1, err := downsampleBlock(dir, id0, res5m)
		if err != nil {
			rt.Fatalf("C37 (blocks): Downsample to 5m failed: %v\nraw: %s", err, renderSamples(raws[0], 400))
		}
		id2, err := downsampleBlock(dir, id1, res1h)
		if err != nil {
			rt.Fatalf("C37 (blocks): Downsample 5m->1h failed: %v\nraw: %s", err, renderSamples(raws[0], 400))
		}
		for lvl, id := range []string{id1, id2} {
			_, chks, err := readBlockSeries(filepath.Join(dir, id))
			if err != nil {
				rt.Fatalf("read block level %d: %v", lvl+1, err)
			}
			if len(chks) != ns {
				rt.Fatalf("C37 (blocks): level %d block has %d series, raw block %d", lvl+1, len(chks), ns)
			}
			for i := range raws {
				// stale markers are dropped when the raw block is expanded; ordinary NaN by DownsampleRaw.
				nn := nonNaN(raws[i])
				adj := refCounter(nn)
				pts, err := readCounter(chks[i])
				if err != nil {
					rt.Fatalf("C37 (blocks): level %d series %d: %v", lvl+1, i, err)
				}
				if msg := checkCounterPoints(pts, nn, adj); msg != "" {
					rt.Fatalf("C37 (blocks) violated at level %d, series %d: %s\nraw: %s", lvl+1, i, msg, renderSamples(raws[i], 400))
				}
				var info c37Info
				info.chunks = len(chks[i])
				var maxTimes []int64
				for k := 0; k+1 < len(chks[i]); k++ {
					maxTimes = append(maxTimes, chks[i][k].MaxTime)
				}
				info.atBoundary, info.near = resetNearBoundary(nn, maxTimes)
				for k := 1; k < len(nn); k++ {
					if nn[k].v < nn[k-1].v {
						info.resets++
					}
				}
				info.nans = len(raws[i]) - len(nn)
				nt, cl := c37Classes(info)
				rec.Case(fmt.Sprintf("blocks L%d %s", lvl+1, renderSamples(raws[i], 12)), nt, append(cl, fmt.Sprintf("block-level-%d", lvl+1))...)
			}
		}
		done = true
	})
}
