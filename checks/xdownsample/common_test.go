package xdownsample

// Shared generators, decoders and reference models of the downsampling checks C36, C37, C39.

import (
	"fmt"
	"hash/fnv"
	"math"
	"strings"

	"github.com/prometheus/prometheus/model/histogram"
	"github.com/prometheus/prometheus/model/labels"
	"github.com/prometheus/prometheus/model/value"
	"github.com/prometheus/prometheus/tsdb/chunkenc"
	"github.com/prometheus/prometheus/tsdb/chunks"
	"pgregory.net/rapid"

	"github.com/thanos-io/thanos/pkg/compact/downsample"
	"github.com/thanos-io/thanos/pkg/store/storepb"
)

const (
	res5m = downsample.ResLevel1
	res1h = downsample.ResLevel2
)

var staleNaN = math.Float64frombits(value.StaleNaN)

// smpl implements chunks.Sample (input of downsample.SamplesFromTSDBSamples).
type smpl struct {
	t int64
	v float64
}

func (s smpl) T() int64                      { return s.t }
func (s smpl) F() float64                    { return s.v }
func (s smpl) H() *histogram.Histogram       { return nil }
func (s smpl) FH() *histogram.FloatHistogram { return nil }
func (s smpl) Type() chunkenc.ValueType      { return chunkenc.ValFloat }
func (s smpl) Copy() chunks.Sample           { return s }

func toTSDB(x []smpl) []chunks.Sample {
	out := make([]chunks.Sample, len(x))
	for i := range x {
		out[i] = x[i]
	}
	return out
}

func fmtV(v float64) string {
	if math.IsNaN(v) {
		if value.IsStaleNaN(v) {
			return "stale"
		}
		return "NaN"
	}
	return fmt.Sprintf("%v", v)
}

// renderSamples renders up to max samples (all if max<=0) plus a content hash of the whole list.
func renderSamples(xs []smpl, max int) string {
	h := fnv.New64a()
	var sb strings.Builder
	var b [16]byte
	for i, s := range xs {
		for k := 0; k < 8; k++ {
			b[k] = byte(uint64(s.t) >> (8 * k))
			b[8+k] = byte(math.Float64bits(s.v) >> (8 * k))
		}
		_, _ = h.Write(b[:])
		if max <= 0 || i < max {
			if i > 0 {
				sb.WriteByte(' ')
			}
			fmt.Fprintf(&sb, "%d:%s", s.t, fmtV(s.v))
		}
	}
	if max > 0 && len(xs) > max {
		sb.WriteString(" …")
	}
	return fmt.Sprintf("n=%d h=%016x [%s]", len(xs), h.Sum64(), sb.String())
}

// genLen draws the series length: mostly short, a good share long enough (>700 samples) to make
// DownsampleRaw cut several aggregate chunks at 5m.
func genLen(rt *rapid.T, slow bool) int {
	k := rapid.IntRange(0, 9).Draw(rt, "lenKind")
	if slow && k >= 8 {
		// enough 5m windows (>1680) for the 1h level to cut several chunks as well
		return rapid.IntRange(1700, 3000).Draw(rt, "n")
	}
	switch k {
	case 0:
		return rapid.IntRange(1, 5).Draw(rt, "n")
	case 1, 2, 3:
		return rapid.IntRange(1, 80).Draw(rt, "n")
	case 4, 5:
		return rapid.IntRange(80, 700).Draw(rt, "n")
	default:
		return rapid.IntRange(700, 3000).Draw(rt, "n")
	}
}

// genTimes draws n strictly increasing non-negative millisecond timestamps with irregular spacing
// (1 ms .. 20 min, plus occasional multi-window gaps), bases at 0, near window boundaries and at
// realistic epoch values. slow biases the spacing towards >= 1 min (spans of hours to days).
func genTimes(rt *rapid.T, n int, res int64, slow bool) ([]int64, string) {
	var base int64
	switch rapid.IntRange(0, 5).Draw(rt, "baseKind") {
	case 0:
		base = 0
	case 1:
		base = rapid.Int64Range(0, 10*res).Draw(rt, "base")
	case 2, 3:
		base = rapid.Int64Range(1, 2000).Draw(rt, "baseWin")*res + rapid.SampledFrom([]int64{0, 1, -1, -2, res / 2}).Draw(rt, "baseOff")
	default:
		base = 1_600_000_000_000 + rapid.Int64Range(0, 30*24*3600*1000).Draw(rt, "base")
	}
	intervals := []int64{1, 1000, 15000, 30000, 60000, 120000, 300000, 1200000}
	if (n >= 700 || slow) && rapid.IntRange(0, 3).Draw(rt, "slowBias") > 0 {
		intervals = []int64{60000, 120000, 300000, 1200000}
		if slow {
			intervals = []int64{60000, 120000, 300000, 300000, 1200000, 1200000}
		}
	}
	interval := rapid.SampledFrom(intervals).Draw(rt, "interval")
	mode := rapid.SampledFrom([]string{"regular", "jitter", "free", "bursty"}).Draw(rt, "tmode")
	gapRate := rapid.SampledFrom([]int{0, 0, 50, 10}).Draw(rt, "gapRate")
	ts := make([]int64, 0, n)
	t := base
	burstLeft := 0
	for i := 0; i < n; i++ {
		ts = append(ts, t)
		var d int64
		switch mode {
		case "regular":
			d = interval
		case "jitter":
			d = interval + rapid.Int64Range(0, interval/4+1).Draw(rt, "jit")
		case "free":
			switch rapid.IntRange(0, 3).Draw(rt, "dk") {
			case 0:
				d = rapid.Int64Range(1, 10).Draw(rt, "d")
			case 1:
				d = rapid.Int64Range(10, 1000).Draw(rt, "d")
			case 2:
				d = rapid.Int64Range(1000, 60000).Draw(rt, "d")
			default:
				d = rapid.Int64Range(60000, 1200000).Draw(rt, "d")
			}
		default: // bursty
			if burstLeft > 0 {
				burstLeft--
				d = rapid.Int64Range(1, 50).Draw(rt, "d")
			} else {
				burstLeft = rapid.IntRange(0, 12).Draw(rt, "burst")
				d = rapid.Int64Range(60000, 3*3600*1000).Draw(rt, "d")
			}
		}
		if gapRate > 0 && rapid.IntRange(1, gapRate).Draw(rt, "gap?") == 1 {
			d += rapid.Int64Range(res/2, 6*res).Draw(rt, "gap")
		}
		t += d
	}
	return ts, fmt.Sprintf("%s/%d", mode, interval)
}

// applyNaNRuns overwrites 0..3 index ranges of xs with NaNs (one kind per run: ordinary or stale
// marker). A run may be as long as the series, so with series cut into several batches whole batches
// consist of NaNs only (e.g. a summary quantile without observations for a day).
func applyNaNRuns(rt *rapid.T, xs []smpl) int {
	runs := rapid.SampledFrom([]int{0, 0, 0, 1, 1, 2, 3}).Draw(rt, "nanRuns")
	longest := 0
	for r := 0; r < runs && len(xs) > 0; r++ {
		start := rapid.IntRange(0, len(xs)-1).Draw(rt, "nanRunStart")
		n := rapid.IntRange(1, len(xs)).Draw(rt, "nanRunLen")
		v := math.NaN()
		if rapid.Bool().Draw(rt, "nanRunStale") {
			v = staleNaN
		}
		end := min(len(xs), start+n)
		for i := start; i < end; i++ {
			xs[i].v = v
		}
		longest = max(longest, end-start)
	}
	return longest
}

// genNaN decides whether the next sample is a NaN (ordinary or stale marker).
func genNaN(rt *rapid.T, nanRate int) (float64, bool) {
	if nanRate > 0 && rapid.IntRange(1, nanRate).Draw(rt, "nan?") == 1 {
		if rapid.Bool().Draw(rt, "stale") {
			return staleNaN, true
		}
		return math.NaN(), true
	}
	return 0, false
}

// genGauge draws a raw float series whose sums are exact in float64 (integers and multiples of
// 1/8 of bounded magnitude), with NaN and stale-NaN samples mixed in.
func genGauge(rt *rapid.T, res int64, slow bool) ([]smpl, string) {
	n := genLen(rt, slow)
	ts, tmode := genTimes(rt, n, res, slow)
	vkind := rapid.SampledFrom([]string{"int", "dyadic", "big", "const", "mixed"}).Draw(rt, "vkind")
	nanRate := rapid.SampledFrom([]int{0, 0, 20, 20, 20, 4, 4, 4, 2, 2, 1}).Draw(rt, "nanRate")
	cst := float64(rapid.IntRange(-3, 3).Draw(rt, "const"))
	xs := make([]smpl, n)
	for i := range xs {
		xs[i].t = ts[i]
		if v, ok := genNaN(rt, nanRate); ok {
			xs[i].v = v
			continue
		}
		k := vkind
		if k == "mixed" {
			k = rapid.SampledFrom([]string{"int", "dyadic", "big", "const"}).Draw(rt, "vk")
		}
		switch k {
		case "int":
			xs[i].v = float64(rapid.IntRange(-1000, 1000).Draw(rt, "v"))
		case "dyadic":
			xs[i].v = float64(rapid.IntRange(-8000, 8000).Draw(rt, "v")) / 8
		case "big":
			xs[i].v = float64(rapid.Int64Range(0, 1<<30).Draw(rt, "v"))
		default:
			xs[i].v = cst
		}
	}
	if run := applyNaNRuns(rt, xs); run > 0 {
		return xs, fmt.Sprintf("%s/%s/nanrun", tmode, vkind)
	}
	return xs, tmode + "/" + vkind
}

// genCounter draws a raw counter series: non-negative integer values (a negative "counter" would make
// the aggregated counter itself decrease, which readers rightly treat as a reset), increases,
// plateaus, resets to 0 / to a smaller value / by exactly 1, NaN and stale markers.
func genCounter(rt *rapid.T, res int64, slow bool) ([]smpl, string) {
	n := genLen(rt, slow)
	ts, tmode := genTimes(rt, n, res, slow)
	resetRate := rapid.SampledFrom([]int{0, 100, 10, 3, 2}).Draw(rt, "resetRate")
	nanRate := rapid.SampledFrom([]int{0, 0, 20, 4}).Draw(rt, "nanRate")
	maxInc := rapid.SampledFrom([]int64{1, 10, 1000, 1 << 30}).Draw(rt, "maxInc")
	xs := make([]smpl, n)
	cur := rapid.Int64Range(0, 1000).Draw(rt, "v0")
	// Value class: integer-valued counters are computed exactly at every level; fractional ones
	// (e.g. *_seconds_total with two or three decimals) are compared with a relative tolerance.
	div := rapid.SampledFrom([]float64{1, 1, 100, 1000, 7}).Draw(rt, "valueDivisor")
	for i := range xs {
		xs[i].t = ts[i]
		if v, ok := genNaN(rt, nanRate); ok {
			xs[i].v = v
			continue
		}
		if i > 0 {
			if resetRate > 0 && cur > 0 && rapid.IntRange(1, resetRate).Draw(rt, "reset?") == 1 {
				switch rapid.IntRange(0, 2).Draw(rt, "resetKind") {
				case 0:
					cur = 0
				case 1:
					cur = rapid.Int64Range(0, cur-1).Draw(rt, "resetTo")
				default:
					cur = cur - 1
				}
			} else {
				cur += rapid.Int64Range(0, maxInc).Draw(rt, "inc")
			}
		}
		xs[i].v = float64(cur) / div
	}
	applyNaNRuns(rt, xs)
	return xs, fmt.Sprintf("%s/reset1in%d/div%v", tmode, resetRate, div)
}

func nonNaN(xs []smpl) []smpl {
	out := make([]smpl, 0, len(xs))
	for _, s := range xs {
		if !math.IsNaN(s.v) {
			out = append(out, s)
		}
	}
	return out
}

// aggrOf returns the AggrChunk behind a chunk meta produced by the downsampler.
func aggrOf(m chunks.Meta) (*downsample.AggrChunk, error) {
	ac, ok := m.Chunk.(*downsample.AggrChunk)
	if !ok {
		return nil, fmt.Errorf("chunk is a %T, not *downsample.AggrChunk", m.Chunk)
	}
	return ac, nil
}

func drainFloat(it chunkenc.Iterator) ([]smpl, error) {
	var out []smpl
	for {
		switch vt := it.Next(); vt {
		case chunkenc.ValNone:
			return out, it.Err()
		case chunkenc.ValFloat:
			t, v := it.At()
			out = append(out, smpl{t, v})
		default:
			return out, fmt.Errorf("unexpected value type %v", vt)
		}
	}
}

// aggrSamples decodes one aggregate of an aggregate chunk.
func aggrSamples(ac *downsample.AggrChunk, at downsample.AggrType) ([]smpl, error) {
	c, err := ac.Get(at)
	if err != nil {
		return nil, fmt.Errorf("Get(%s): %w", at, err)
	}
	return drainFloat(c.Iterator(nil))
}

var testLset = labels.FromStrings("__name__", "m", "a", "1")

// oneSeriesSet is a storepb.SeriesSet with a single series.
type oneSeriesSet struct {
	chks []storepb.AggrChunk
	done bool
}

func (s *oneSeriesSet) Next() bool {
	if s.done {
		return false
	}
	s.done = true
	return true
}
func (s *oneSeriesSet) At() (labels.Labels, []storepb.AggrChunk) { return testLset, s.chks }
func (s *oneSeriesSet) Err() error                               { return nil }

// toStoreChunks converts downsampler output into the wire form the store gateway sends
// (pkg/store/bucket.go populateChunk: one storepb.Chunk per aggregate).
func toStoreChunks(ms []chunks.Meta) ([]storepb.AggrChunk, error) {
	out := make([]storepb.AggrChunk, 0, len(ms))
	for _, m := range ms {
		ac, err := aggrOf(m)
		if err != nil {
			return nil, err
		}
		sc := storepb.AggrChunk{MinTime: m.MinTime, MaxTime: m.MaxTime}
		dsts := [5]**storepb.Chunk{&sc.Count, &sc.Sum, &sc.Min, &sc.Max, &sc.Counter}
		for i, dst := range dsts {
			at := downsample.AggrType(i)
			c, err := ac.Get(at)
			if err != nil {
				return nil, fmt.Errorf("Get(%s): %w", at, err)
			}
			if c.Encoding() != chunkenc.EncXOR {
				return nil, fmt.Errorf("aggregate %s has encoding %v", at, c.Encoding())
			}
			*dst = &storepb.Chunk{Type: storepb.Chunk_XOR, Data: c.Bytes()}
		}
		out = append(out, sc)
	}
	return out, nil
}

func samePoints(a, b []smpl) bool {
	if len(a) != len(b) {
		return false
	}
	for i := range a {
		if a[i].t != b[i].t || math.Float64bits(a[i].v) != math.Float64bits(b[i].v) {
			return false
		}
	}
	return true
}

// refCounter is the reference model of a reset-adjusted counter over the non-NaN raw samples:
// adj(0)=v0, adj(i)=adj(i-1)+(v_i>=v_{i-1} ? v_i-v_{i-1} : v_i).
func refCounter(nn []smpl) []float64 {
	adj := make([]float64, len(nn))
	for i, s := range nn {
		switch {
		case i == 0:
			adj[i] = s.v
		case s.v >= nn[i-1].v:
			adj[i] = adj[i-1] + (s.v - nn[i-1].v)
		default:
			adj[i] = adj[i-1] + s.v
		}
	}
	return adj
}

// checkCounterPoints compares the points emitted by a counter reader with the reference.
func checkCounterPoints(points, nn []smpl, adj []float64) string {
	if len(nn) == 0 {
		if len(points) != 0 {
			return fmt.Sprintf("no non-NaN raw sample but %d counter points emitted", len(points))
		}
		return ""
	}
	if len(points) == 0 {
		return "raw counter has samples but the reader emitted nothing"
	}
	exact := true // integer-valued raw counters: every sum is exact, compare bit for bit
	for _, s := range nn {
		if s.v != math.Trunc(s.v) {
			exact = false
			break
		}
	}
	j := -1 // last raw index with t <= T
	for i, p := range points {
		if i > 0 && p.t <= points[i-1].t {
			return fmt.Sprintf("emitted timestamps not strictly increasing: %d then %d", points[i-1].t, p.t)
		}
		for j+1 < len(nn) && nn[j+1].t <= p.t {
			j++
		}
		if j < 0 {
			return fmt.Sprintf("point emitted at %d, before the first raw sample %d", p.t, nn[0].t)
		}
		if !counterValueEqual(p.v, adj[j], exact) {
			return fmt.Sprintf("point #%d (%d, %v): reset-adjusted raw counter at last raw sample <= T (index %d, t=%d, raw=%v) is %v", i, p.t, p.v, j, nn[j].t, nn[j].v, adj[j])
		}
	}
	if last := points[len(points)-1]; last.t < nn[len(nn)-1].t {
		return fmt.Sprintf("last emitted timestamp %d is before the last raw sample %d: the tail of the counter's increase is lost", last.t, nn[len(nn)-1].t)
	}
	return ""
}

// resetNearBoundary reports whether a counter reset lies within one sample of a chunk boundary.
// bounds holds, per output chunk but the last, its MaxTime.
func resetNearBoundary(nn []smpl, maxTimes []int64) (at, near bool) {
	for _, mt := range maxTimes {
		b := -1 // first raw index after the boundary
		for i, s := range nn {
			if s.t > mt {
				b = i
				break
			}
		}
		if b <= 0 {
			continue
		}
		for r := b - 1; r <= b+1; r++ {
			if r >= 1 && r < len(nn) && nn[r].v < nn[r-1].v {
				near = true
				if r == b {
					at = true
				}
			}
		}
	}
	return at, near
}

// counterValueEqual compares an emitted counter value with the reference. Fractional counters are
// summed in a different order by the code under test and by the reference, so they may differ by
// rounding; a fabricated or lost reset changes the value by a whole counter value, far beyond that.
func counterValueEqual(got, want float64, exact bool) bool {
	if exact {
		return got == want
	}
	d := math.Abs(got - want)
	return d <= 1e-9*math.Max(1, math.Abs(want))
}
