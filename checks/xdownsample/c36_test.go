package xdownsample

// C36 Raw downsampling aggregates are exact.
// Domain: raw float series of 1..3000 samples, strictly increasing non-negative timestamps with
// irregular spacing, values with exact float sums (integers / multiples of 1/8), NaN and stale
// markers mixed in; resolution 5m and 1h. downsample.DownsampleRaw(SamplesFromTSDBSamples(x), res).
// Oracle (independent reference model): group the non-NaN samples by window floor(t/res); the
// output must have exactly one timestamp T per non-empty window, lastSampleTime(w) <= T <= windowEnd(w),
// with count/sum/min/max equal to the window's; totals equal the raw totals; chunk metas ordered,
// disjoint and containing their content; the same points come back through
// query.NewPromSeriesSet(.., aggr) for COUNT, SUM, MIN and MAX.

import (
	"fmt"
	"math"
	"strings"
	"testing"

	"pgregory.net/rapid"

	"github.com/thanos-io/thanos/pkg/compact/downsample"
	"github.com/thanos-io/thanos/pkg/query"
	"github.com/thanos-io/thanos/pkg/store/storepb"
	"github.com/thanos-io/thanos/verifx/kit"
)

type refWin struct {
	w             int64
	count         int
	sum, min, max float64
	lastT         int64
}

// refWindows is the reference model: exact aggregates of the non-NaN samples per window.
func refWindows(xs []smpl, res int64) []refWin {
	var out []refWin
	for _, s := range xs {
		if math.IsNaN(s.v) {
			continue
		}
		w := s.t / res
		if len(out) == 0 || out[len(out)-1].w != w {
			out = append(out, refWin{w: w, min: math.Inf(1), max: math.Inf(-1)})
		}
		c := &out[len(out)-1]
		c.count++
		c.sum += s.v
		c.min = math.Min(c.min, s.v)
		c.max = math.Max(c.max, s.v)
		c.lastT = s.t
	}
	return out
}

type c36Info struct {
	chunks  int
	windows int
	nans    int
	edge    bool // a sample exactly on the first or last millisecond of a window
}

var c36Aggrs = [4]downsample.AggrType{downsample.AggrCount, downsample.AggrSum, downsample.AggrMin, downsample.AggrMax}
var c36StoreAggrs = [4]storepb.Aggr{storepb.Aggr_COUNT, storepb.Aggr_SUM, storepb.Aggr_MIN, storepb.Aggr_MAX}

// checkC36 runs the code under test on xs and compares with the reference. "" means the property held.
func checkC36(xs []smpl, res int64) (string, c36Info) {
	var info c36Info
	for _, s := range xs {
		if math.IsNaN(s.v) {
			info.nans++
		} else if m := s.t % res; m == 0 || m == res-1 {
			info.edge = true
		}
	}
	want := refWindows(xs, res)
	info.windows = len(want)

	out := downsample.DownsampleRaw(downsample.SamplesFromTSDBSamples(toTSDB(xs)), res)
	info.chunks = len(out)
	if len(want) == 0 {
		if len(out) != 0 {
			return fmt.Sprintf("no non-NaN sample but %d chunks produced", len(out)), info
		}
		return "", info
	}

	// decode, per-chunk structure, ordering
	var got [4][]smpl
	prevMax := int64(math.MinInt64)
	for ci, m := range out {
		ac, err := aggrOf(m)
		if err != nil {
			return fmt.Sprintf("chunk %d: %v", ci, err), info
		}
		if m.MinTime > m.MaxTime {
			return fmt.Sprintf("chunk %d: MinTime %d > MaxTime %d", ci, m.MinTime, m.MaxTime), info
		}
		if ci > 0 && m.MinTime <= prevMax {
			return fmt.Sprintf("chunk %d [%d,%d] overlaps or precedes the previous chunk ending at %d", ci, m.MinTime, m.MaxTime, prevMax), info
		}
		prevMax = m.MaxTime
		var first []smpl
		for k, at := range c36Aggrs {
			ss, err := aggrSamples(ac, at)
			if err != nil {
				return fmt.Sprintf("chunk %d: %v", ci, err), info
			}
			if len(ss) == 0 {
				return fmt.Sprintf("chunk %d: aggregate %s is empty", ci, at), info
			}
			if k == 0 {
				first = ss
			} else {
				if len(ss) != len(first) {
					return fmt.Sprintf("chunk %d: %s has %d samples, count has %d", ci, at, len(ss), len(first)), info
				}
				for i := range ss {
					if ss[i].t != first[i].t {
						return fmt.Sprintf("chunk %d: %s timestamp #%d is %d, count's is %d", ci, at, i, ss[i].t, first[i].t), info
					}
				}
			}
			if ss[0].t < m.MinTime || ss[len(ss)-1].t > m.MaxTime {
				return fmt.Sprintf("chunk %d: %s samples span [%d,%d], outside the chunk's [%d,%d]", ci, at, ss[0].t, ss[len(ss)-1].t, m.MinTime, m.MaxTime), info
			}
			got[k] = append(got[k], ss...)
		}
	}

	// per-window equality
	cnt := got[0]
	if len(cnt) != len(want) {
		return fmt.Sprintf("%d output timestamps for %d non-empty windows", len(cnt), len(want)), info
	}
	var totC, totS float64
	gmin, gmax := math.Inf(1), math.Inf(-1)
	for i, w := range want {
		T := cnt[i].t
		if i > 0 && T <= cnt[i-1].t {
			return fmt.Sprintf("output timestamps not strictly increasing: %d then %d", cnt[i-1].t, T), info
		}
		if T/res != w.w || T < w.lastT || T > (w.w+1)*res-1 {
			return fmt.Sprintf("output #%d has T=%d; expected window %d: lastSample=%d <= T <= windowEnd=%d", i, T, w.w, w.lastT, (w.w+1)*res-1), info
		}
		exp := [4]float64{float64(w.count), w.sum, w.min, w.max}
		for k := range c36Aggrs {
			if got[k][i].v != exp[k] {
				return fmt.Sprintf("window %d (T=%d): %s = %v, raw samples give %v", w.w, T, c36Aggrs[k], got[k][i].v, exp[k]), info
			}
		}
		totC += got[0][i].v
		totS += got[1][i].v
		gmin = math.Min(gmin, got[2][i].v)
		gmax = math.Max(gmax, got[3][i].v)
	}

	// totals against the raw data directly
	var rawC, rawS float64
	rmin, rmax := math.Inf(1), math.Inf(-1)
	for _, s := range xs {
		if math.IsNaN(s.v) {
			continue
		}
		rawC++
		rawS += s.v
		rmin = math.Min(rmin, s.v)
		rmax = math.Max(rmax, s.v)
	}
	if totC != rawC || totS != rawS || gmin != rmin || gmax != rmax {
		return fmt.Sprintf("totals differ: count %v/%v sum %v/%v min %v/%v max %v/%v (downsampled/raw)", totC, rawC, totS, rawS, gmin, rmin, gmax, rmax), info
	}

	// read back through the querier
	sc, err := toStoreChunks(out)
	if err != nil {
		return "store form: " + err.Error(), info
	}
	for k, a := range c36StoreAggrs {
		set := query.NewPromSeriesSet(&oneSeriesSet{chks: sc}, 0, math.MaxInt64, []storepb.Aggr{a}, nil)
		if !set.Next() {
			return fmt.Sprintf("querier series set empty for %v", a), info
		}
		pts, err := drainFloat(set.At().Iterator(nil))
		if err != nil {
			return fmt.Sprintf("querier iterator for %v: %v", a, err), info
		}
		if !samePoints(pts, got[k]) {
			return fmt.Sprintf("querier read of %v yields %s, chunks hold %s", a, renderSamples(pts, 40), renderSamples(got[k], 40)), info
		}
	}
	return "", info
}

func c36Classes(info c36Info, res int64, mode string) (bool, []string) {
	cl := []string{fmt.Sprintf("res-%dm", res/60000)}
	switch {
	case info.chunks == 0:
		cl = append(cl, "chunks-0")
	case info.chunks == 1:
		cl = append(cl, "chunks-1")
	default:
		cl = append(cl, "chunks-2+")
	}
	if info.nans > 0 {
		cl = append(cl, "has-nan")
	}
	if info.edge {
		cl = append(cl, "sample-on-window-edge")
	}
	if info.windows > 1 {
		cl = append(cl, "windows-2+")
	}
	if strings.HasSuffix(mode, "/nanrun") {
		cl = append(cl, "nan-run")
		if info.chunks > 1 {
			cl = append(cl, "nan-run-in-multi-chunk-series")
		}
	}
	return info.chunks > 1 && info.nans > 0, cl
}

func TestVerifC36(t *testing.T) {
	rec := kit.For(t, "C36")
	// plain regression / boundary inputs (no rapid)
	table := []struct {
		name string
		res  int64
		xs   []smpl
	}{
		{"single-at-0", res5m, []smpl{{0, 1}}},
		{"window-edges", res5m, []smpl{{299999, 1}, {300000, 2}, {599999, 3}, {600000, 4}}},
		{"nan-only-window", res5m, []smpl{{10, 1}, {300010, math.NaN()}, {300020, staleNaN}, {600010, 2}}},
		{"all-nan", res1h, []smpl{{10, math.NaN()}, {20, staleNaN}}},
		{"nan-last", res5m, []smpl{{10, 5}, {20, -3}, {30, math.NaN()}}},
	}
	for _, c := range table {
		if msg, _ := checkC36(c.xs, c.res); msg != "" {
			rec.Violation(t, "regression %s: %s", c.name, msg)
		}
	}
	rec.Check(t, func(rt *rapid.T) {
		res := rapid.SampledFrom([]int64{res5m, res5m, res1h}).Draw(rt, "res")
		xs, mode := genGauge(rt, res, false)
		msg, info := checkC36(xs, res)
		if msg != "" {
			rt.Fatalf("C36 violated: %s\nres=%d raw: %s", msg, res, renderSamples(xs, 400))
		}
		nt, cl := c36Classes(info, res, mode)
		rec.Case(fmt.Sprintf("res=%d %s %s", res, mode, renderSamples(xs, 12)), nt, cl...)
	})
}
