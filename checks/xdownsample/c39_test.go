package xdownsample

// C39 Aggregate chunk encoding round-trips for any set of aggregates.
// Domain: all 32 presence masks (enumerated exhaustively for every generated content) x five
// generated sub-chunks (XOR with 0..200 samples, occasionally ~2000 samples for a 3-byte length
// prefix; float-histogram and integer-histogram chunks).
// Oracle: EncodeAggrChunk(mask applied) -> bytes -> AggrChunk(bytes).Get(t): present => same encoding
// and same bytes; absent => ErrAggrNotExist; NumSamples() == the count sub-chunk's when present.
// Known finding F15 (signature C39/absent-counter-invalid-size): a chunk encoded without the counter
// (last slot) answers Get(AggrCounter) with "invalid size" instead of ErrAggrNotExist.
//
// Decode robustness (TestVerifC39_Decode, FuzzVerifC39Decode): arbitrary / damaged bytes are compared
// with an independent reference parser: Get must not panic, must not return a chunk the bytes do not
// contain, and must return an error where the reference finds the input truncated.

import (
	"bytes"
	"encoding/binary"
	"errors"
	"fmt"
	"hash/fnv"
	"math"
	"testing"

	"github.com/prometheus/prometheus/model/histogram"
	"github.com/prometheus/prometheus/tsdb/chunkenc"
	"pgregory.net/rapid"

	"github.com/thanos-io/thanos/pkg/compact/downsample"
	"github.com/thanos-io/thanos/verifx/kit"
)

const (
	sigC39AbsentCounter = "C39/absent-counter-invalid-size"
	sigC39LenOverflow   = "C39/decode-length-overflow-panic"
)

type c39Fail struct {
	sig string // "" = no known class
	msg string
}

// c39RoundTrip encodes the sub-chunks selected by mask and checks every Get. skipAbsentCounter
// leaves out the one assertion of the known finding (and reports how many were left out);
// numSamples=false is for opaque payloads that are not decodable chunks.
func c39RoundTrip(sub [5]chunkenc.Chunk, mask int, skipAbsentCounter, numSamples bool) (fails []c39Fail, skipped int) {
	var in [5]chunkenc.Chunk
	for i := range in {
		if mask&(1<<i) != 0 {
			in[i] = sub[i]
		}
	}
	enc := downsample.EncodeAggrChunk(in)
	// read back from a copy of the bytes, as a reader of a block would
	ac := downsample.AggrChunk(append([]byte(nil), enc.Bytes()...))
	for i := range in {
		at := downsample.AggrType(i)
		if in[i] == nil && at == downsample.AggrCounter && skipAbsentCounter {
			skipped++
			continue
		}
		c, err := ac.Get(at)
		if in[i] == nil {
			if !errors.Is(err, downsample.ErrAggrNotExist) {
				f := c39Fail{msg: fmt.Sprintf("mask %05b: Get(%s) of an absent aggregate returned (%v, %v), want ErrAggrNotExist", mask, at, c, err)}
				if at == downsample.AggrCounter && err != nil {
					f.sig = sigC39AbsentCounter
				}
				fails = append(fails, f)
			}
			continue
		}
		if err != nil {
			fails = append(fails, c39Fail{msg: fmt.Sprintf("mask %05b: Get(%s) of a present aggregate: %v", mask, at, err)})
			continue
		}
		if c.Encoding() != in[i].Encoding() || !bytes.Equal(c.Bytes(), in[i].Bytes()) {
			fails = append(fails, c39Fail{msg: fmt.Sprintf("mask %05b: Get(%s) returned encoding %v / %d bytes, encoded %v / %d bytes", mask, at, c.Encoding(), len(c.Bytes()), in[i].Encoding(), len(in[i].Bytes()))})
		}
	}
	if numSamples && in[downsample.AggrCount] != nil {
		if got, want := ac.NumSamples(), in[downsample.AggrCount].NumSamples(); got != want {
			fails = append(fails, c39Fail{msg: fmt.Sprintf("mask %05b: NumSamples %d, count chunk has %d", mask, got, want)})
		}
	}
	return fails, skipped
}

func xorChunkOf(ss []smpl) chunkenc.Chunk {
	c := chunkenc.NewXORChunk()
	app, _ := c.Appender()
	for _, s := range ss {
		app.Append(s.t, s.v)
	}
	return c
}

func genFH(rt *rapid.T) *histogram.FloatHistogram {
	nb := rapid.IntRange(0, 4).Draw(rt, "buckets")
	fh := &histogram.FloatHistogram{
		Schema:        int32(rapid.IntRange(-2, 3).Draw(rt, "schema")),
		ZeroThreshold: 0.001,
		ZeroCount:     float64(rapid.IntRange(0, 5).Draw(rt, "zero")),
		Sum:           float64(rapid.IntRange(-100, 100).Draw(rt, "sum")),
	}
	fh.Count = fh.ZeroCount
	if nb > 0 {
		fh.PositiveSpans = []histogram.Span{{Offset: int32(rapid.IntRange(-2, 2).Draw(rt, "off")), Length: uint32(nb)}}
		for i := 0; i < nb; i++ {
			b := float64(rapid.IntRange(0, 50).Draw(rt, "b"))
			fh.PositiveBuckets = append(fh.PositiveBuckets, b)
			fh.Count += b
		}
	}
	return fh
}

// genSubChunk draws one sub-chunk and a short class name.
func genSubChunk(rt *rapid.T) (chunkenc.Chunk, string) {
	switch rapid.IntRange(0, 9).Draw(rt, "chunkKind") {
	case 0:
		return chunkenc.NewXORChunk(), "xor-empty"
	case 1:
		n := rapid.IntRange(1, 6).Draw(rt, "hn")
		c := chunkenc.NewFloatHistogramChunk()
		app, _ := c.Appender()
		t := rapid.Int64Range(0, 1<<40).Draw(rt, "t0")
		var cur chunkenc.Chunk = c
		for i := 0; i < n; i++ {
			nc, _, napp, err := app.AppendFloatHistogram(nil, t, genFH(rt), false)
			if err != nil {
				rt.Fatalf("generator: AppendFloatHistogram: %v", err)
			}
			if nc != nil {
				cur = nc
			}
			app = napp
			t += rapid.Int64Range(1, 600000).Draw(rt, "dt")
		}
		return cur, "float-histogram"
	case 2:
		n := rapid.IntRange(1, 6).Draw(rt, "hn")
		c := chunkenc.NewHistogramChunk()
		app, _ := c.Appender()
		t := rapid.Int64Range(0, 1<<40).Draw(rt, "t0")
		var cur chunkenc.Chunk = c
		for i := 0; i < n; i++ {
			h := &histogram.Histogram{Schema: 1, ZeroThreshold: 0.001, ZeroCount: uint64(rapid.IntRange(0, 5).Draw(rt, "z")),
				Sum: float64(rapid.IntRange(-100, 100).Draw(rt, "sum")), PositiveSpans: []histogram.Span{{Offset: 0, Length: 2}},
				PositiveBuckets: []int64{int64(rapid.IntRange(0, 9).Draw(rt, "b0")), int64(rapid.IntRange(0, 9).Draw(rt, "b1"))}}
			h.Count = h.ZeroCount + uint64(h.PositiveBuckets[0]) + uint64(h.PositiveBuckets[0]+h.PositiveBuckets[1])
			nc, _, napp, err := app.AppendHistogram(nil, t, h, false)
			if err != nil {
				rt.Fatalf("generator: AppendHistogram: %v", err)
			}
			if nc != nil {
				cur = nc
			}
			app = napp
			t += rapid.Int64Range(1, 600000).Draw(rt, "dt")
		}
		return cur, "histogram"
	default:
		n := rapid.IntRange(1, 200).Draw(rt, "n")
		if rapid.IntRange(0, 19).Draw(rt, "huge") == 0 {
			n = rapid.IntRange(1800, 2600).Draw(rt, "nHuge")
		}
		vk := rapid.IntRange(0, 2).Draw(rt, "vk")
		ss := make([]smpl, n)
		t := rapid.Int64Range(0, 1<<41).Draw(rt, "t0")
		for i := range ss {
			ss[i].t = t
			switch vk {
			case 0:
				ss[i].v = float64(rapid.IntRange(0, 100).Draw(rt, "v"))
			case 1:
				ss[i].v = rapid.Float64().Draw(rt, "v")
			default:
				ss[i].v = math.Float64frombits(rapid.Uint64().Draw(rt, "vbits"))
			}
			t += rapid.Int64Range(1, 3600000).Draw(rt, "dt")
		}
		return xorChunkOf(ss), "xor"
	}
}

func lenClass(n int) string {
	switch {
	case n < 128:
		return "len-1-byte-prefix"
	case n < 16384:
		return "len-2-byte-prefix"
	default:
		return "len-3-byte-prefix"
	}
}

func c39FixedChunks() [5]chunkenc.Chunk {
	var sub [5]chunkenc.Chunk
	for i := range sub {
		ss := make([]smpl, 0, 3+i)
		for k := 0; k < 3+i; k++ {
			ss = append(ss, smpl{int64(1000*k + i), float64(10*i + k)})
		}
		sub[i] = xorChunkOf(ss)
	}
	return sub
}

func TestVerifC39(t *testing.T) {
	rec := kit.For(t, "C39")
	known := kit.KnownFindings("C39")

	// Regression input of F15 and exhaustive enumeration of the 32 masks over fixed contents.
	{
		sub := c39FixedChunks()
		var f15 []string
		for mask := 0; mask < 32; mask++ {
			fails, _ := c39RoundTrip(sub, mask, false, true)
			for _, f := range fails {
				if f.sig == sigC39AbsentCounter {
					f15 = append(f15, fmt.Sprintf("%05b", mask))
					continue
				}
				rec.Violation(t, "fixed contents: %s", f.msg)
			}
		}
		if len(f15) > 0 {
			what := fmt.Sprintf("Get(AggrCounter) on a chunk encoded without counter returns \"invalid size\" instead of ErrAggrNotExist for %d of 16 counter-less masks (first: %s)", len(f15), f15[0])
			if known[sigC39AbsentCounter] {
				rec.Known(sigC39AbsentCounter, what)
			} else {
				rec.Violation(t, "regression F15: %s", what)
			}
		}
		rec.Exhaustive(true)
	}

	rec.Check(t, func(rt *rapid.T) {
		var sub [5]chunkenc.Chunk
		var cl []string
		h := fnv.New64a()
		distinct := map[string]bool{}
		nonEmpty := 0
		for i := range sub {
			c, k := genSubChunk(rt)
			sub[i] = c
			cl = append(cl, k, lenClass(len(c.Bytes())))
			_, _ = h.Write([]byte{byte(c.Encoding())})
			_, _ = h.Write(c.Bytes())
			distinct[string(c.Bytes())] = true
			if c.NumSamples() > 0 {
				nonEmpty++
			}
		}
		for mask := 0; mask < 32; mask++ {
			fails, skipped := c39RoundTrip(sub, mask, known[sigC39AbsentCounter], true)
			for i := 0; i < skipped; i++ {
				rec.Excluded(sigC39AbsentCounter)
			}
			for _, f := range fails {
				rt.Fatalf("C39 violated: %s (signature %q)\nsub-chunk byte lengths: %d %d %d %d %d", f.msg, f.sig,
					len(sub[0].Bytes()), len(sub[1].Bytes()), len(sub[2].Bytes()), len(sub[3].Bytes()), len(sub[4].Bytes()))
			}
		}
		key := fmt.Sprintf("h=%016x lens=%d,%d,%d,%d,%d enc=%d,%d,%d,%d,%d", h.Sum64(),
			len(sub[0].Bytes()), len(sub[1].Bytes()), len(sub[2].Bytes()), len(sub[3].Bytes()), len(sub[4].Bytes()),
			sub[0].Encoding(), sub[1].Encoding(), sub[2].Encoding(), sub[3].Encoding(), sub[4].Encoding())
		// non-trivial: the five slots are distinguishable (>=4 different byte strings) and >=3 hold samples
		rec.Case(key, len(distinct) >= 4 && nonEmpty >= 3, dedupStrings(cl)...)
	})
}

func dedupStrings(in []string) []string {
	seen := map[string]bool{}
	var out []string
	for _, s := range in {
		if !seen[s] {
			seen[s] = true
			out = append(out, s)
		}
	}
	return out
}

// ---- decode robustness ---------------------------------------------------------------------------

type refStatus int

const (
	refOK refStatus = iota
	refAbsent
	refInvalid
)

// refGet is an independent parser of the aggregate chunk layout: five slots, each a uvarint length
// l; l == 0 means absent, otherwise one encoding byte and l data bytes follow. hostile reports a
// length prefix >= 2^63-1 among the slots walked (the class of finding C39/decode-length-overflow-panic).
func refGet(b []byte, at int) (st refStatus, enc byte, data []byte, hostile bool) {
	for i := 0; i <= at; i++ {
		l, n := binary.Uvarint(b)
		if n < 1 {
			return refInvalid, 0, nil, hostile
		}
		if l >= math.MaxInt64 {
			return refInvalid, 0, nil, true
		}
		b = b[n:]
		if l == 0 {
			if i == at {
				return refAbsent, 0, nil, hostile
			}
			continue
		}
		if uint64(len(b)) < l+1 {
			return refInvalid, 0, nil, hostile
		}
		if i == at {
			return refOK, b[0], b[1 : l+1], hostile
		}
		b = b[l+1:]
	}
	return refInvalid, 0, nil, hostile
}

// c39Decode compares AggrChunk.Get on arbitrary bytes with refGet. It returns a failure text, the
// signature of the failure ("" = none known) and whether the input was left out as known.
func c39Decode(b []byte, skipOverflow bool) (msg, sig string, skipped bool) {
	for at := 0; at < 5; at++ {
		st, enc, data, hostile := refGet(b, at)
		if hostile && skipOverflow {
			return "", "", true
		}
		var (
			c        chunkenc.Chunk
			err      error
			panicked any
		)
		func() {
			defer func() { panicked = recover() }()
			c, err = downsample.AggrChunk(b).Get(downsample.AggrType(at))
		}()
		if panicked != nil {
			s := ""
			if hostile {
				s = sigC39LenOverflow
			}
			return fmt.Sprintf("Get(%d) panicked: %v", at, panicked), s, false
		}
		switch st {
		case refOK:
			if err == nil && (byte(c.Encoding()) != enc || !bytes.Equal(c.Bytes(), data)) {
				return fmt.Sprintf("Get(%d) returned encoding %v / %d bytes, the slot holds encoding %d / %d bytes", at, c.Encoding(), len(c.Bytes()), enc, len(data)), "", false
			}
		case refAbsent:
			if err == nil {
				return fmt.Sprintf("Get(%d) returned a chunk for an absent slot", at), "", false
			}
		default:
			if err == nil {
				return fmt.Sprintf("Get(%d) returned a chunk (%d bytes) from a truncated / malformed input", at, len(c.Bytes())), "", false
			}
		}
	}
	return "", "", false
}

var c39HostileOverflow = [][]byte{
	// length prefix 2^64-1: int(l)+1 == 0, the size check passes and x[0] indexes an empty slice
	{0xff, 0xff, 0xff, 0xff, 0xff, 0xff, 0xff, 0xff, 0xff, 0x01},
	// length prefix 2^63-1: int(l)+1 overflows to MinInt64, the size check passes and the slice expression panics
	{0xff, 0xff, 0xff, 0xff, 0xff, 0xff, 0xff, 0xff, 0x7f, 0x01, 0x02},
}

func c39DecodeSeeds() [][]byte {
	sub := c39FixedChunks()
	var out [][]byte
	for _, mask := range []int{31, 0, 1, 16, 15, 21} {
		var in [5]chunkenc.Chunk
		for i := range in {
			if mask&(1<<i) != 0 {
				in[i] = sub[i]
			}
		}
		b := downsample.EncodeAggrChunk(in).Bytes()
		out = append(out, b, b[:len(b)/2], b[:len(b)-1])
	}
	out = append(out, nil, []byte{0}, []byte{1}, []byte{1, 1}, []byte{0x80}, []byte{5, 1, 2})
	return out
}

func TestVerifC39_Decode(t *testing.T) {
	rec := kit.For(t, "C39")
	known := kit.KnownFindings("C39")
	// regression inputs
	for i, b := range c39HostileOverflow {
		msg, sig, _ := c39Decode(b, false)
		if msg == "" {
			continue
		}
		if sig == sigC39LenOverflow && known[sig] {
			if i == 0 {
				rec.Known(sig, fmt.Sprintf("AggrChunk(% x).%s", b, msg))
			}
			continue
		}
		rec.Violation(t, "decode regression % x: %s", b, msg)
	}
	for _, b := range c39DecodeSeeds() {
		if msg, _, _ := c39Decode(b, known[sigC39LenOverflow]); msg != "" {
			rec.Violation(t, "decode seed % x: %s", b, msg)
		}
	}
	rec.Check(t, func(rt *rapid.T) {
		var b []byte
		kind := rapid.SampledFrom([]string{"mutated", "mutated", "random", "synthetic"}).Draw(rt, "kind")
		switch kind {
		case "random":
			b = rapid.SliceOfN(rapid.Byte(), 0, 64).Draw(rt, "bytes")
		case "synthetic":
			// five slots with drawn length prefixes (honest, lying, huge) over drawn payloads
			for i := 0; i < rapid.IntRange(0, 6).Draw(rt, "slots"); i++ {
				payload := rapid.SliceOfN(rapid.Byte(), 0, 20).Draw(rt, "payload")
				l := uint64(len(payload))
				switch rapid.IntRange(0, 5).Draw(rt, "lenKind") {
				case 0:
					l = 0
				case 1:
					l = rapid.Uint64().Draw(rt, "len")
				case 2:
					l = rapid.SampledFrom([]uint64{math.MaxUint64, math.MaxInt64, math.MaxInt64 - 1, math.MaxInt64 + 1, math.MaxUint32, math.MaxInt32}).Draw(rt, "hugeLen")
				case 3:
					l = uint64(rapid.IntRange(0, 30).Draw(rt, "nearLen"))
				}
				b = binary.AppendUvarint(b, l)
				if l != 0 {
					b = append(b, byte(rapid.SampledFrom([]int{1, 2, 3, 0, 255}).Draw(rt, "enc")))
				}
				b = append(b, payload...)
			}
		default:
			sub := c39FixedChunks()
			mask := rapid.IntRange(0, 31).Draw(rt, "mask")
			var in [5]chunkenc.Chunk
			for i := range in {
				if mask&(1<<i) != 0 {
					in[i] = sub[i]
				}
			}
			b = append([]byte(nil), downsample.EncodeAggrChunk(in).Bytes()...)
			for k := rapid.IntRange(1, 3).Draw(rt, "mutations"); k > 0; k-- {
				switch rapid.IntRange(0, 3).Draw(rt, "mut") {
				case 0:
					b = b[:rapid.IntRange(0, len(b)).Draw(rt, "cut")]
				case 1:
					if len(b) > 0 {
						b[rapid.IntRange(0, len(b)-1).Draw(rt, "pos")] = rapid.Byte().Draw(rt, "val")
					}
				case 2:
					if len(b) > 0 {
						p := rapid.IntRange(0, len(b)-1).Draw(rt, "pos")
						b = append(b[:p:p], b[p+1:]...)
					}
				default:
					p := rapid.IntRange(0, len(b)).Draw(rt, "pos")
					ins := rapid.SliceOfN(rapid.Byte(), 1, 10).Draw(rt, "ins")
					b = append(b[:p:p], append(ins, b[p:]...)...)
				}
			}
		}
		msg, sig, skipped := c39Decode(b, known[sigC39LenOverflow])
		if skipped {
			rec.Excluded(sigC39LenOverflow)
			return
		}
		if msg != "" {
			rt.Fatalf("C39 (decode robustness) violated: %s (signature %q)\nbytes: % x", msg, sig, b)
		}
		okSlots := 0
		for at := 0; at < 5; at++ {
			if st, _, _, _ := refGet(b, at); st == refOK {
				okSlots++
			}
		}
		// non-trivial here: damaged input of which some slots are still readable and others are not
		rec.Case(fmt.Sprintf("%s % x", kind, b), okSlots > 0 && okSlots < 5, "decode-"+kind, fmt.Sprintf("decode-readable-slots-%d", okSlots))
	})
}

func FuzzVerifC39Decode(f *testing.F) {
	known := kit.KnownFindings("C39")
	for _, b := range c39DecodeSeeds() {
		f.Add(b)
	}
	if !known[sigC39LenOverflow] {
		for _, b := range c39HostileOverflow {
			f.Add(b)
		}
	}
	f.Fuzz(func(t *testing.T, b []byte) {
		msg, sig, _ := c39Decode(b, known[sigC39LenOverflow])
		if msg != "" {
			t.Fatalf("C39 (decode robustness) violated: %s (signature %q)\nbytes: % x", msg, sig, b)
		}
		// structure-aware part: the same bytes, cut into five pieces, are five opaque sub-chunks that
		// must round-trip under every presence mask.
		if len(b) < 6 {
			return
		}
		var sub [5]chunkenc.Chunk
		rest := b[5:]
		for i := 0; i < 5; i++ {
			n := int(b[i])
			if n > len(rest) {
				n = len(rest)
			}
			if n == 0 {
				return // a present chunk always has at least its header bytes
			}
			c, err := chunkenc.FromData(chunkenc.EncXOR, rest[:n])
			if err != nil {
				return
			}
			sub[i] = c
			rest = rest[n:]
		}
		for mask := 0; mask < 32; mask++ {
			fails, _ := c39RoundTrip(sub, mask, known[sigC39AbsentCounter], false)
			if len(fails) > 0 {
				t.Fatalf("C39 violated: %s (signature %q)\nbytes: % x", fails[0].msg, fails[0].sig, b)
			}
		}
	})
}
