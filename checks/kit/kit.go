// Package kit is the small shared helper of the /verif checks: it counts generated cases,
// classifies them, keeps a reservoir of rendered samples, and writes a per-process evidence
// fragment that the python driver merges into /verif/evidence/<id>.json.
//
// It is overlaid into the Thanos module as github.com/thanos-io/thanos/verifx/kit and depends only
// on the standard library and pgregory.net/rapid, so that every host package can import it.
package kit

import (
	"encoding/binary"
	"encoding/json"
	"fmt"
	"hash/fnv"
	"os"
	"path/filepath"
	"sort"
	"strconv"
	"strings"
	"sync"
	"testing"

	"pgregory.net/rapid"
)

const maxSamples = 6
const maxSampleLen = 600

// Rec accumulates coverage information for one property inside one test function.
type Rec struct {
	mu          sync.Mutex
	ID          string
	Test        string
	evals       int64
	nontrivial  map[uint64]struct{}
	classes     map[string]int64
	samples     []string
	ntSeen      int64
	frozen      bool
	excluded    map[string]int64
	known       []string
	notes       []string
	exhaustive  *bool
	violations  int
	violationTx []string
}

// For creates a recorder for property id bound to test t; the fragment is written at cleanup.
func For(t testing.TB, id string) *Rec {
	r := &Rec{ID: id, Test: t.Name(), nontrivial: map[uint64]struct{}{}, classes: map[string]int64{}, excluded: map[string]int64{}}
	t.Cleanup(func() { r.write() })
	return r
}

// Hash returns a 64-bit FNV-1a fingerprint of s.
func Hash(s string) uint64 {
	h := fnv.New64a()
	_, _ = h.Write([]byte(s))
	return h.Sum64()
}

// Case records one evaluated case. key is a compact rendering of the case (its fingerprint is the
// hash of key); nontrivial says whether the case satisfies the property's non-trivial rule.
func (r *Rec) Case(key string, nontrivial bool, classes ...string) {
	r.mu.Lock()
	defer r.mu.Unlock()
	if r.frozen {
		return
	}
	r.evals++
	for _, c := range classes {
		r.classes[c]++
	}
	if !nontrivial {
		return
	}
	r.classes["nontrivial"]++
	fp := Hash(key)
	if _, ok := r.nontrivial[fp]; ok {
		return
	}
	r.nontrivial[fp] = struct{}{}
	r.ntSeen++
	if len(key) > maxSampleLen {
		key = key[:maxSampleLen] + "…"
	}
	if len(r.samples) < maxSamples {
		r.samples = append(r.samples, key)
	} else {
		// deterministic reservoir: position derived from the fingerprint, not from an RNG.
		j := int(fp % uint64(r.ntSeen))
		if j < maxSamples {
			r.samples[j] = key
		}
	}
}

// Class bumps a class counter without counting an evaluation.
func (r *Rec) Class(c string) {
	r.mu.Lock()
	defer r.mu.Unlock()
	if r.frozen {
		return
	}
	r.classes[c]++
}

// Excluded counts a generated case that was skipped by construction because it belongs to a
// known-finding signature.
func (r *Rec) Excluded(sig string) {
	r.mu.Lock()
	defer r.mu.Unlock()
	if r.frozen {
		return
	}
	r.excluded[sig]++
}

// Note attaches a free-text note to the fragment.
func (r *Rec) Note(format string, a ...any) {
	r.mu.Lock()
	defer r.mu.Unlock()
	r.notes = append(r.notes, fmt.Sprintf(format, a...))
}

// Exhaustive records whether a finite space was enumerated completely.
func (r *Rec) Exhaustive(b bool) {
	r.mu.Lock()
	defer r.mu.Unlock()
	r.exhaustive = &b
}

// Freeze stops counting (called once a failure was seen so that shrink attempts are not counted).
func (r *Rec) Freeze() {
	r.mu.Lock()
	r.frozen = true
	r.mu.Unlock()
}

// Known reports a known finding that still reproduces; the driver prints the KNOWN-FINDING line.
func (r *Rec) Known(sig, what string) {
	r.mu.Lock()
	defer r.mu.Unlock()
	line := fmt.Sprintf("KNOWN-FINDING: property=%s %s %s", r.ID, sig, what)
	r.known = append(r.known, line)
	fmt.Println(line)
}

// Violation records a violation found outside of rapid (plain regression / enumeration tests) and
// fails the test.
func (r *Rec) Violation(t testing.TB, format string, a ...any) {
	msg := fmt.Sprintf(format, a...)
	r.mu.Lock()
	r.violations++
	r.violationTx = append(r.violationTx, msg)
	r.frozen = true
	r.mu.Unlock()
	fmt.Printf("VERIF-VIOLATION property=%s test=%s %s\n", r.ID, t.Name(), strings.ReplaceAll(msg, "\n", " | "))
	t.Fatalf("violation: %s", msg)
}

// Check runs a rapid property, freezing the counters at the first failing evaluation.
func (r *Rec) Check(t *testing.T, prop func(rt *rapid.T)) {
	rapid.Check(t, func(rt *rapid.T) {
		ok := false
		defer func() {
			if !ok {
				// rapid signals failure, invalid data and skip by panicking; only failures matter
				// for freezing, but freezing on a skip would stop counting, so distinguish below.
				// rapid signals Skip/filter exhaustion with panic(invalidData) and Fatal with
				// panic(stopTest); anything else is a panic of the code under test. Only the
				// first kind is not a failure. Deferred functions run on top of the panicking
				// stack, so re-panicking keeps the original frames in rapid's traceback.
				if rec := recover(); rec != nil {
					if !strings.Contains(fmt.Sprintf("%T", rec), "invalidData") {
						r.Freeze()
					}
					panic(rec)
				}
			}
		}()
		prop(rt)
		ok = true
	})
}

func (r *Rec) write() {
	dir := os.Getenv("VERIF_OUT")
	if dir == "" {
		return
	}
	r.mu.Lock()
	defer r.mu.Unlock()
	type frag struct {
		ID         string           `json:"id"`
		Test       string           `json:"test"`
		Evals      int64            `json:"evaluations"`
		Nontrivial int              `json:"distinct_nontrivial"`
		Classes    map[string]int64 `json:"classes"`
		Samples    []string         `json:"samples"`
		Excluded   map[string]int64 `json:"excluded"`
		Known      []string         `json:"known"`
		Notes      []string         `json:"notes"`
		Exhaustive *bool            `json:"exhaustive,omitempty"`
		Violations int              `json:"violations"`
		VText      []string         `json:"violation_text"`
		FPFile     string           `json:"fp_file"`
	}
	base := fmt.Sprintf("%s.%s.%d", r.ID, strings.NewReplacer("/", "_", " ", "_").Replace(r.Test), os.Getpid())
	fps := make([]uint64, 0, len(r.nontrivial))
	for fp := range r.nontrivial {
		fps = append(fps, fp)
	}
	sort.Slice(fps, func(i, j int) bool { return fps[i] < fps[j] })
	buf := make([]byte, 8*len(fps))
	for i, fp := range fps {
		binary.LittleEndian.PutUint64(buf[8*i:], fp)
	}
	fpFile := filepath.Join(dir, base+".fp")
	_ = os.WriteFile(fpFile, buf, 0o644)
	f := frag{ID: r.ID, Test: r.Test, Evals: r.evals, Nontrivial: len(r.nontrivial), Classes: r.classes,
		Samples: r.samples, Excluded: r.excluded, Known: r.known, Notes: r.notes, Exhaustive: r.exhaustive,
		Violations: r.violations, VText: r.violationTx, FPFile: fpFile}
	b, _ := json.MarshalIndent(f, "", " ")
	_ = os.WriteFile(filepath.Join(dir, base+".json"), b, 0o644)
}

// Tier returns "quick" or "thorough".
func Tier() string {
	if os.Getenv("VERIF_TIER") == "thorough" {
		return "thorough"
	}
	return "quick"
}

// Scale returns q in the quick tier and th in the thorough tier, optionally overridden by the
// environment variable VERIF_N_<name>.
func Scale(name string, q, th int) int {
	if v := os.Getenv("VERIF_N_" + name); v != "" {
		if n, err := strconv.Atoi(v); err == nil {
			return n
		}
	}
	if Tier() == "thorough" {
		return th
	}
	return q
}

// Seed returns the seed handed to this process (never 0).
func Seed() int64 {
	if v := os.Getenv("VERIF_PROC_SEED"); v != "" {
		if n, err := strconv.ParseInt(v, 10, 64); err == nil && n != 0 {
			return n
		}
	}
	return 1
}

// KnownFindings loads the signatures listed in /verif/known_findings.json (path in
// VERIF_KNOWN_FINDINGS) for a property. Only entries with status "known" suppress anything.
func KnownFindings(id string) map[string]bool {
	out := map[string]bool{}
	p := os.Getenv("VERIF_KNOWN_FINDINGS")
	if p == "" {
		return out
	}
	b, err := os.ReadFile(p)
	if err != nil {
		return out
	}
	var doc struct {
		Findings []struct {
			Property  string `json:"property"`
			Signature string `json:"signature"`
			Status    string `json:"status"`
		} `json:"findings"`
	}
	if json.Unmarshal(b, &doc) != nil {
		return out
	}
	for _, f := range doc.Findings {
		if f.Property == id && f.Status == "known" {
			out[f.Signature] = true
		}
	}
	return out
}
