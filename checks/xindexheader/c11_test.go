package xindexheader

// C11 Binary index-header answers equal the full index.
//
// Domain: TSDB index files written with prometheus' index.Writer from generated series (1..300
// series, 1..8 label names, 1..300 values per name, several value alphabets with heavy prefix
// relations), uploaded to an in-memory bucket; index-header readers (BinaryReader file/mmap,
// BinaryReader in memory, LazyBinaryReader) with posting-offset sampling 1..64; sorted lists of
// requested values (present, absent before/between/after, duplicates, empty).
// Oracle: prometheus' index.Reader on the same file: LabelNames, LabelValues per name, every symbol,
// PostingsOffsets/PostingsOffset vs PostingsRanges, NotFoundRange exactly for absent values, and the
// bytes of the index file at each returned range decode to the refs of index.Reader.Postings.
// The format-v1 branch (which prometheus cannot write any more) is exercised on the one v1 index
// shipped with thanos' own tests, embedded in v1index_test.go.

import (
	"context"
	"encoding/base64"
	"errors"
	"fmt"
	"os"
	"path/filepath"
	"sort"
	"strings"
	"testing"

	"github.com/go-kit/log"
	"github.com/oklog/ulid/v2"
	"github.com/prometheus/prometheus/model/labels"
	"github.com/prometheus/prometheus/tsdb/index"
	"pgregory.net/rapid"

	"github.com/thanos-io/thanos/pkg/block/indexheader"
	"github.com/thanos-io/thanos/verifx/kit"
)

type hdrCase struct {
	ref      *reference
	rd       indexheader.Reader
	sampling int
	// how often the last entry of the postings offset table was returned with an exact / over-long end
	lastExact, lastLonger int
}

// checkStatic compares everything that does not depend on a requested value list.
func (c *hdrCase) checkStatic(symProbe []int) string {
	ctx := context.Background()
	ref, rd := c.ref, c.rd
	v, err := rd.IndexVersion()
	if err != nil || v != ref.ir.Version() {
		return fmt.Sprintf("IndexVersion = %d, %v; full index says %d", v, err, ref.ir.Version())
	}
	names, err := rd.LabelNames()
	if err != nil {
		return "LabelNames error: " + err.Error()
	}
	if !sameStrings(names, ref.names) {
		return fmt.Sprintf("LabelNames = %q, full index says %q", names, ref.names)
	}
	for _, n := range ref.names {
		vals, err := rd.LabelValues(n)
		if err != nil {
			return fmt.Sprintf("LabelValues(%q) error: %v", n, err)
		}
		if !sameStrings(vals, ref.values[n]) {
			return fmt.Sprintf("LabelValues(%q) = %s, full index says %s", n, renderList(vals), renderList(ref.values[n]))
		}
	}
	for _, n := range absentNames(ref.names) {
		vals, err := rd.LabelValues(n)
		if err != nil || len(vals) != 0 {
			return fmt.Sprintf("LabelValues(absent name %q) = %s, %v; want empty, nil", n, renderList(vals), err)
		}
	}
	// symbols: in order, probes (repeats exercise the lookup cache), reverse order, out of range.
	v1 := ref.ir.Version() == index.FormatV1
	look := func(i int) string {
		if i >= len(ref.symbols) {
			o := uint32(i)
			if v1 {
				o = uint32(len(ref.raw) + 100000 + i) // v1 refs are byte offsets: only far out of the file is "unknown"
			}
			s, err := rd.LookupSymbol(ctx, o)
			if err == nil {
				return fmt.Sprintf("LookupSymbol(%d) = %q, nil but the index has only %d symbols", o, s, len(ref.symbols))
			}
			return ""
		}
		s, err := rd.LookupSymbol(ctx, ref.symRefs[i])
		if err != nil || s != ref.symbols[i] {
			return fmt.Sprintf("LookupSymbol(%d) = %q, %v; full index says %q", ref.symRefs[i], s, err, ref.symbols[i])
		}
		return ""
	}
	for i := range ref.symbols {
		if m := look(i); m != "" {
			return m
		}
	}
	for _, i := range symProbe {
		if m := look(i); m != "" {
			return m
		}
	}
	for i := len(ref.symbols); i >= 0; i-- {
		if m := look(i); m != "" {
			return m
		}
	}
	// the all-postings key
	an, av := index.AllPostingsKey()
	rng, err := rd.PostingsOffset(an, av)
	if err != nil {
		return "PostingsOffset(all-postings key) error: " + err.Error()
	}
	if m := c.checkPresentRange(an, av, rng); m != "" {
		return m
	}
	return ""
}

func absentNames(names []string) []string {
	out := []string{"nope", "\x00"}
	if len(names) > 0 {
		out = append(out, names[0]+"\x00", names[len(names)-1]+"z", names[0][:len(names[0])-1]+"!")
	}
	var res []string
	for _, n := range out {
		i := sort.SearchStrings(names, n)
		if (i < len(names) && names[i] == n) || n == "" {
			continue
		}
		res = append(res, n)
	}
	return res
}

// checkPresentRange: rng is what the header returned for a pair that exists in the index.
func (c *hdrCase) checkPresentRange(name, value string, rng index.Range) string {
	want, ok := c.ref.ranges[labels.Label{Name: name, Value: value}]
	if !ok {
		return fmt.Sprintf("oracle has no range for %q=%q", name, value)
	}
	if rng == indexheader.NotFoundRange {
		return fmt.Sprintf("%q=%q exists in the index (range %v) but the header reports not found", name, value, want)
	}
	isLast := name == c.ref.lastName && value == c.ref.lastVal
	if rng.Start != want.Start || (!isLast && rng.End != want.End) || (isLast && (rng.End < want.End || rng.End > int64(len(c.ref.raw)))) {
		return fmt.Sprintf("%q=%q: header range %v, full index range %v (last entry of the table: %v)", name, value, rng, want, isLast)
	}
	if isLast && rng.End == want.End {
		c.lastExact++
	} else if isLast {
		c.lastLonger++
	}
	got, tail, err := decodeRange(c.ref.raw, rng)
	if err != nil {
		return fmt.Sprintf("%q=%q: %v", name, value, err)
	}
	if tail != 0 && !isLast {
		return fmt.Sprintf("%q=%q: range %v has %d trailing bytes after the refs", name, value, rng, tail)
	}
	refs, err := c.ref.postings(name, value)
	if err != nil {
		return "oracle postings: " + err.Error()
	}
	if !sameU32(got, refs) {
		return fmt.Sprintf("%q=%q: bytes at %v decode to refs %v, index.Reader.Postings gives %v", name, value, rng, got, refs)
	}
	return ""
}

type listStats struct {
	present, absent, dups  int
	sampled, unsampled     int
	first, last            int
	before, between, after int
	mixed, hasDup          bool
}

// checkList: one PostingsOffsets call for a name that exists.
func (c *hdrCase) checkList(name string, vals []string) (string, listStats) {
	var st listStats
	present := c.ref.values[name]
	rngs, err := c.rd.PostingsOffsets(name, vals...)
	if err != nil {
		return fmt.Sprintf("PostingsOffsets(%q, %s) error: %v", name, renderList(vals), err), st
	}
	if len(rngs) != len(vals) {
		return fmt.Sprintf("PostingsOffsets(%q, %s) returned %d ranges for %d values: %v", name, renderList(vals), len(rngs), len(vals), rngs), st
	}
	for i, v := range vals {
		if i > 0 && vals[i-1] == v {
			st.dups++
		}
		switch classifyValue(present, v) {
		case "present":
			st.present++
			k := sort.SearchStrings(present, v)
			if k == 0 {
				st.first++
			}
			if k == len(present)-1 {
				st.last++
			}
			if k%c.sampling == 0 || k == len(present)-1 {
				st.sampled++
			} else {
				st.unsampled++
			}
			if m := c.checkPresentRange(name, v, rngs[i]); m != "" {
				return fmt.Sprintf("PostingsOffsets(%q, %s)[%d]: %s; all ranges %v", name, renderList(vals), i, m, rngs), st
			}
			continue
		case "before-first":
			st.before++
		case "between":
			st.between++
		default:
			st.after++
		}
		st.absent++
		if rngs[i] != indexheader.NotFoundRange {
			return fmt.Sprintf("PostingsOffsets(%q, %s)[%d]: value %q does not exist but range %v was returned (want NotFoundRange); all ranges %v", name, renderList(vals), i, v, rngs[i], rngs), st
		}
	}
	st.mixed = st.present > 0 && st.absent > 0
	st.hasDup = st.dups > 0
	return "", st
}

// checkSingle: the single-value entry point used by the postings fetcher.
func (c *hdrCase) checkSingle(name, v string) string {
	rng, err := c.rd.PostingsOffset(name, v)
	if classifyValue(c.ref.values[name], v) == "present" {
		if err != nil {
			return fmt.Sprintf("PostingsOffset(%q,%q) error %v for an existing pair", name, v, err)
		}
		return c.checkPresentRange(name, v, rng)
	}
	if !errors.Is(err, indexheader.NotFoundRangeErr) {
		return fmt.Sprintf("PostingsOffset(%q,%q) = %v, %v for a pair that does not exist; want NotFoundRangeErr", name, v, rng, err)
	}
	return ""
}

// checkAbsentName: lookups under a label name the index does not have must not invent anything.
func (c *hdrCase) checkAbsentName(name string, vals []string) string {
	rngs, err := c.rd.PostingsOffsets(name, vals...)
	if err != nil {
		return fmt.Sprintf("PostingsOffsets(absent name %q) error: %v", name, err)
	}
	for _, r := range rngs {
		if r != indexheader.NotFoundRange {
			return fmt.Sprintf("PostingsOffsets(absent name %q, %s) = %v: a range for a pair that does not exist", name, renderList(vals), rngs)
		}
	}
	if len(vals) > 0 {
		if rng, err := c.rd.PostingsOffset(name, vals[0]); !errors.Is(err, indexheader.NotFoundRangeErr) {
			return fmt.Sprintf("PostingsOffset(absent name %q, %q) = %v, %v; want NotFoundRangeErr", name, vals[0], rng, err)
		}
	}
	return ""
}

// Reader kinds, weighted: the in-memory reader needs no header file (three fsyncs less per reader),
// which matters for the run time on a loaded machine; the parsing and lookup code is the same.
var readerKinds = []string{"binary-mem", "binary-mem", "binary-mem", "binary-mem", "binary-file", "binary-file", "lazy", "lazy-download"}

func openHeader(kind string, ref *reference, id ulid.ULID, hdrDir string, sampling int) (indexheader.Reader, error) {
	bkt, err := uploadIndex(ref.raw, id)
	if err != nil {
		return nil, err
	}
	ctx := context.Background()
	switch kind {
	case "binary-mem":
		return indexheader.NewBinaryReader(ctx, log.NewNopLogger(), bkt, "", id, sampling, indexheader.NewBinaryReaderMetrics(nil))
	case "lazy", "lazy-download":
		return indexheader.NewLazyBinaryReader(ctx, log.NewNopLogger(), bkt, hdrDir, id, sampling,
			indexheader.NewLazyBinaryReaderMetrics(nil), indexheader.NewBinaryReaderMetrics(nil), nil, kind == "lazy-download")
	default:
		return indexheader.NewBinaryReader(ctx, log.NewNopLogger(), bkt, hdrDir, id, sampling, indexheader.NewBinaryReaderMetrics(nil))
	}
}

var c11ULID = ulid.MustParse("01HZZZZZZZZZZZZZZZZZZZZZZ1")

const sigC11V1Absent = "C11/v1-absent-values-omitted"

type readerOutcome struct {
	key        string
	classes    []string
	nontrivial bool
}

// exerciseReader opens one index-header reader (kind and sampling drawn) on the reference's index and
// runs the whole oracle against it. onlyPresent restricts the requested value lists to existing
// values (used for the format-v1 index while finding C11/v1-absent-values-omitted is known).
func exerciseReader(rt *rapid.T, rec *kit.Rec, ref *reference, dir, desc string, onlyPresent bool) readerOutcome {
	var out readerOutcome
	sampling := rapid.SampledFrom([]int{1, 2, 3, 4, 5, 7, 8, 16, 31, 32, 33, 64}).Draw(rt, "sampling")
	if rapid.Bool().Draw(rt, "anySampling") {
		sampling = rapid.IntRange(1, 64).Draw(rt, "samplingAny")
	}
	kind := rapid.SampledFrom(readerKinds).Draw(rt, "readerKind")
	hdrDir, err := os.MkdirTemp(dir, "hdr")
	if err != nil {
		rt.Fatalf("harness: %v", err)
	}
	rd, err := openHeader(kind, ref, c11ULID, hdrDir, sampling)
	if err != nil {
		rt.Fatalf("C11 violated: building the index header failed: %v (%s sampling=%d %s)", err, kind, sampling, desc)
	}
	c := &hdrCase{ref: ref, rd: rd, sampling: sampling}
	fail := func(msg string) {
		_ = rd.Close()
		rt.Fatalf("C11 violated: %s\nreader=%s sampling=%d index: %s", msg, kind, sampling, desc)
	}
	var probes []int
	for i, n := 0, rapid.IntRange(0, 30).Draw(rt, "symProbes"); i < n; i++ {
		probes = append(probes, rapid.IntRange(0, len(ref.symbols)+2).Draw(rt, "symRef"))
	}
	if m := c.checkStatic(probes); m != "" {
		fail(m)
	}
	var key strings.Builder
	fmt.Fprintf(&key, " | %s/%d", kind, sampling)
	out.classes = append(out.classes, "reader:"+kind)
	switch {
	case sampling == 1:
		out.classes = append(out.classes, "sampling=1")
	case sampling <= 8:
		out.classes = append(out.classes, "sampling=2..8")
	default:
		out.classes = append(out.classes, "sampling=9..64")
	}
	unsampledNT := false
	nLists := rapid.IntRange(2, 12).Draw(rt, "lists")
	for li := 0; li < nLists; li++ {
		name := rapid.SampledFrom(ref.names).Draw(rt, "name")
		if rapid.IntRange(0, 14).Draw(rt, "absentName") == 0 {
			an := rapid.SampledFrom(absentNames(ref.names)).Draw(rt, "an")
			vals := genValueList(rt, ref.values[name])
			if m := c.checkAbsentName(an, vals); m != "" {
				fail(m)
			}
			rec.Class("list:absent-name")
			continue
		}
		vals := genValueList(rt, ref.values[name])
		if onlyPresent {
			kept := vals[:0:0]
			for _, v := range vals {
				if classifyValue(ref.values[name], v) == "present" {
					kept = append(kept, v)
				}
			}
			if len(kept) != len(vals) {
				rec.Excluded(sigC11V1Absent)
				// the single-value entry point is not affected by the finding: keep asserting it.
				for _, v := range vals {
					if classifyValue(ref.values[name], v) != "present" {
						if m := c.checkSingle(name, v); m != "" {
							fail(m)
						}
						break
					}
				}
			}
			vals = kept
		}
		m, st := c.checkList(name, vals)
		if m != "" {
			fail(m)
		}
		if len(vals) > 0 {
			if m := c.checkSingle(name, vals[rapid.IntRange(0, len(vals)-1).Draw(rt, "single")]); m != "" {
				fail(m)
			}
		}
		card := len(ref.values[name])
		fmt.Fprintf(&key, " %q%s", name, renderList(vals))
		if len(vals) == 0 {
			rec.Class("list:empty")
		}
		if st.mixed {
			rec.Class("list:present+absent")
		}
		if st.hasDup {
			rec.Class("list:duplicates")
		}
		if st.present > 0 && st.absent == 0 {
			rec.Class("list:all-present")
		}
		if st.present == 0 && st.absent > 0 {
			rec.Class("list:all-absent")
		}
		for _, x := range []struct {
			cl string
			n  int
		}{{"val:present-on-sampled-offset", st.sampled}, {"val:present-between-sampled-offsets", st.unsampled},
			{"val:first-of-name", st.first}, {"val:last-of-name", st.last}, {"val:absent-before-first", st.before},
			{"val:absent-between", st.between}, {"val:absent-after-last", st.after}} {
			if x.n > 0 {
				rec.Class(x.cl)
			}
		}
		switch {
		case card == 1:
			rec.Class("name:single-value")
		case card <= sampling:
			rec.Class("name:card<=sampling")
		case card > 2*sampling:
			rec.Class("name:card>2*sampling")
		}
		if sampling > 1 && (st.mixed || st.hasDup) {
			out.nontrivial = true
			if st.unsampled > 0 {
				unsampledNT = true
			}
		}
	}
	if unsampledNT {
		out.classes = append(out.classes, "nontrivial-with-unsampled-value")
	}
	if c.lastExact > 0 {
		out.classes = append(out.classes, "last-table-entry:end-exact")
	}
	if c.lastLonger > 0 {
		out.classes = append(out.classes, "last-table-entry:end-over-long")
	}
	if err := rd.Close(); err != nil {
		rt.Fatalf("C11 violated: Close: %v", err)
	}
	out.key = key.String()
	return out
}

func uniqSorted(in []string) []string {
	sort.Strings(in)
	out := in[:0]
	for i, s := range in {
		if i == 0 || in[i-1] != s {
			out = append(out, s)
		}
	}
	return out
}

func TestVerifC11(t *testing.T) {
	rec := kit.For(t, "C11")
	base := t.TempDir()
	rec.Check(t, func(rt *rapid.T) {
		spec := genIndexSpec(rt, 300)
		dir, err := os.MkdirTemp(base, "case")
		if err != nil {
			rt.Fatalf("harness: %v", err)
		}
		defer os.RemoveAll(dir)
		path, err := writeIndex(dir, spec)
		if err != nil {
			rt.Fatalf("harness: index.Writer rejected the generated series: %v (%s)", err, spec.desc)
		}
		ref, err := openReference(path)
		if err != nil {
			rt.Fatalf("harness: reference reader: %v", err)
		}
		defer ref.close()

		key := spec.desc
		var classes []string
		nontrivial := false
		for ri, n := 0, rapid.IntRange(2, 4).Draw(rt, "readers"); ri < n; ri++ {
			o := exerciseReader(rt, rec, ref, dir, spec.desc, false)
			key += o.key
			classes = append(classes, o.classes...)
			nontrivial = nontrivial || o.nontrivial
		}
		rec.Case(key, nontrivial, uniqSorted(classes)...)
	})
}

// TestVerifC11_V1 runs the same oracle on the one format-v1 index available (written by Prometheus
// 2.0; 102 series, names "foo" (2 values) and "bar" (100 values), unsorted postings offset table).
func TestVerifC11_V1(t *testing.T) {
	rec := kit.For(t, "C11")
	known := kit.KnownFindings("C11")[sigC11V1Absent]
	base := t.TempDir()
	raw, err := base64.StdEncoding.DecodeString(v1IndexB64)
	if err != nil {
		t.Fatalf("harness: %v", err)
	}
	path := filepath.Join(base, "index")
	if err := os.WriteFile(path, raw, 0o644); err != nil {
		t.Fatalf("harness: %v", err)
	}
	ref, err := openReference(path)
	if err != nil {
		t.Fatalf("harness: reference reader on the v1 index: %v", err)
	}
	defer ref.close()
	if ref.ir.Version() != index.FormatV1 {
		t.Fatalf("harness: embedded index is format %d", ref.ir.Version())
	}
	// regression input: one absent value among present ones must be reported as NotFoundRange.
	{
		hdrDir, _ := os.MkdirTemp(base, "hdr")
		rd, err := openHeader("binary-file", ref, c11ULID, hdrDir, 3)
		if err != nil {
			rec.Violation(t, "building the index header of the v1 index failed: %v", err)
		}
		c := &hdrCase{ref: ref, rd: rd, sampling: 3}
		msg, _ := c.checkList("foo", []string{"bar", "bay", "baz"})
		_ = rd.Close()
		if msg != "" {
			if known {
				rec.Known(sigC11V1Absent, "format-v1 index: "+msg)
			} else {
				rec.Violation(t, "regression (format v1): %s", msg)
			}
		}
	}
	rec.Check(t, func(rt *rapid.T) {
		dir, err := os.MkdirTemp(base, "case")
		if err != nil {
			rt.Fatalf("harness: %v", err)
		}
		defer os.RemoveAll(dir)
		o := exerciseReader(rt, rec, ref, dir, "format-v1 index of thanos' testdata", known)
		rec.Case("v1"+o.key, o.nontrivial, append(uniqSorted(o.classes), "index-format-v1")...)
	})
}
