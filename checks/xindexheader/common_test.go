package xindexheader

// Shared helpers of the xindexheader group: a generator of TSDB index files written directly with
// index.Writer (so label/value layouts a head block would rarely produce are reachable), upload into
// an in-memory bucket, and the independent reference (index.Reader of prometheus/tsdb).

import (
	"bytes"
	"context"
	"encoding/binary"
	"fmt"
	"os"
	"path/filepath"
	"sort"
	"strings"

	"github.com/oklog/ulid/v2"
	"github.com/prometheus/prometheus/model/labels"
	"github.com/prometheus/prometheus/storage"
	"github.com/prometheus/prometheus/tsdb/index"
	"github.com/thanos-io/objstore"
	"pgregory.net/rapid"
)

// namePool: prefix-related, multi-byte and "special" names so that name ordering matters.
var namePool = []string{"__name__", "a", "a0", "aa", "ab", "b", "instance", "job", "le", "z", "zz", "é", "日本"}

// valueOf renders the k-th value of a pool in one of several styles. Within one style the mapping is
// injective, so a pool of c values has c distinct strings; none is empty.
func valueOf(style, k int) string {
	switch style {
	case 0: // fixed width: lexicographic == numeric
		return fmt.Sprintf("v%04d", k)
	case 1: // variable width decimal: "1" < "10" < "100" < "2": prefix relations everywhere
		return fmt.Sprintf("%d", k)
	case 2: // all strings over {a,b}, shortest first: "a","b","aa","ab",...
		return bijective(k, []string{"a", "b"})
	case 3: // multi-byte and punctuation
		return bijective(k, []string{"é", "~", ":", "日", "x", "=", "\"", " "})
	default: // long common prefix
		return "http://host-" + fmt.Sprintf("%d", k*7) + ".example.org:9090/metrics"
	}
}

// bijective renders k >= 0 in bijective base-len(alpha) numeration (injective, never empty).
func bijective(k int, alpha []string) string {
	k++
	var parts []string
	for k > 0 {
		k--
		parts = append(parts, alpha[k%len(alpha)])
		k /= len(alpha)
	}
	for i, j := 0, len(parts)-1; i < j; i, j = i+1, j-1 {
		parts[i], parts[j] = parts[j], parts[i]
	}
	return strings.Join(parts, "")
}

type idxSpec struct {
	series []labels.Labels // sorted, unique
	desc   string
}

// genIndexSpec draws the series of one index.
func genIndexSpec(t *rapid.T, maxSeries int) idxSpec {
	n := rapid.IntRange(1, maxSeries).Draw(t, "series")
	if rapid.IntRange(0, 3).Draw(t, "small") == 0 {
		n = rapid.IntRange(1, 12).Draw(t, "seriesSmall")
	}
	nNames := rapid.IntRange(1, 8).Draw(t, "names")
	names := rapid.Permutation(namePool).Draw(t, "namePerm")[:nNames]
	free := n*nNames <= 120 && rapid.Bool().Draw(t, "free")

	type nameCfg struct {
		style, card, stride, off, pd, po int
	}
	cfgs := make([]nameCfg, nNames)
	var sb strings.Builder
	fmt.Fprintf(&sb, "n=%d free=%v", n, free)
	for j := range cfgs {
		c := &cfgs[j]
		c.style = rapid.IntRange(0, 4).Draw(t, "style")
		switch rapid.IntRange(0, 4).Draw(t, "cardKind") {
		case 0:
			c.card = 1
		case 1:
			c.card = rapid.IntRange(2, 5).Draw(t, "card")
		case 2:
			c.card = n // every series its own value (up to 300 values)
		default:
			c.card = rapid.IntRange(1, 200).Draw(t, "card")
		}
		if c.card > n {
			c.card = n
		}
		c.stride = rapid.SampledFrom([]int{1, 1, 3, 7, 11, 13}).Draw(t, "stride")
		c.off = rapid.IntRange(0, 50).Draw(t, "off")
		c.pd = rapid.SampledFrom([]int{1, 1, 2, 3, 5}).Draw(t, "presentEvery")
		c.po = rapid.IntRange(0, 4).Draw(t, "presentOff")
		if j == 0 {
			c.pd = 1 // the first name is on every series, so no series is empty
		}
		fmt.Fprintf(&sb, " %q:s%dc%d+%dx%d/%d", names[j], c.style, c.card, c.off, c.stride, c.pd)
	}
	seen := map[string]struct{}{}
	var out []labels.Labels
	for i := 0; i < n; i++ {
		var ls []labels.Label
		for j, c := range cfgs {
			present := c.pd == 1 || (i+c.po)%c.pd != 0
			k := (i*c.stride + c.off) % c.card
			if free {
				present = j == 0 || rapid.IntRange(0, 3).Draw(t, "present") > 0
				k = rapid.IntRange(0, c.card-1).Draw(t, "k")
			}
			if present {
				ls = append(ls, labels.Label{Name: names[j], Value: valueOf(c.style, k)})
			}
		}
		l := labels.New(ls...)
		key := l.String()
		if _, ok := seen[key]; ok {
			continue
		}
		seen[key] = struct{}{}
		out = append(out, l)
	}
	sort.Slice(out, func(i, j int) bool { return labels.Compare(out[i], out[j]) < 0 })
	fmt.Fprintf(&sb, " uniq=%d", len(out))
	return idxSpec{series: out, desc: sb.String()}
}

// writeIndex writes the index file <dir>/index with prometheus' index.Writer.
func writeIndex(dir string, spec idxSpec) (string, error) {
	path := filepath.Join(dir, "index")
	w, err := index.NewWriter(context.Background(), path)
	if err != nil {
		return "", err
	}
	symSet := map[string]struct{}{}
	for _, l := range spec.series {
		l.Range(func(x labels.Label) {
			symSet[x.Name] = struct{}{}
			symSet[x.Value] = struct{}{}
		})
	}
	syms := make([]string, 0, len(symSet))
	for s := range symSet {
		syms = append(syms, s)
	}
	sort.Strings(syms)
	for _, s := range syms {
		if err := w.AddSymbol(s); err != nil {
			return "", err
		}
	}
	for i, l := range spec.series {
		if err := w.AddSeries(storage.SeriesRef(i+1), l); err != nil {
			return "", err
		}
	}
	if err := w.Close(); err != nil {
		return "", err
	}
	return path, nil
}

// reference is everything the oracle needs from the full index, read with prometheus' own reader.
type reference struct {
	ir       *index.Reader
	raw      []byte
	names    []string
	values   map[string][]string // sorted
	ranges   map[labels.Label]index.Range
	symbols  []string
	symRefs  []uint32 // reference of symbols[i]
	lastName string   // name/value of the last entry of the postings offset table
	lastVal  string
}

func openReference(path string) (*reference, error) {
	raw, err := os.ReadFile(path)
	if err != nil {
		return nil, err
	}
	ir, err := index.NewFileReader(path, index.DecodePostingsRaw)
	if err != nil {
		return nil, err
	}
	ctx := context.Background()
	ref := &reference{ir: ir, raw: raw, values: map[string][]string{}}
	if ref.names, err = ir.LabelNames(ctx); err != nil {
		return nil, err
	}
	for _, n := range ref.names {
		vs, err := ir.SortedLabelValues(ctx, n, nil)
		if err != nil {
			return nil, err
		}
		cp := make([]string, len(vs))
		for i := range vs {
			cp[i] = strings.Clone(vs[i])
		}
		ref.values[n] = cp
	}
	if ref.ranges, err = ir.PostingsRanges(); err != nil {
		return nil, err
	}
	it := ir.Symbols()
	for it.Next() {
		ref.symbols = append(ref.symbols, strings.Clone(it.At()))
	}
	if it.Err() != nil {
		return nil, it.Err()
	}
	// The last entry of the postings offset table in file order (format v1 tables are not sorted).
	toc, err := index.NewTOCFromByteSlice(byteSlice(raw))
	if err != nil {
		return nil, err
	}
	if err := index.ReadPostingsOffsetTable(byteSlice(raw), toc.PostingsTable, func(name, value []byte, _ uint64, _ int) error {
		ref.lastName, ref.lastVal = string(name), string(value)
		return nil
	}); err != nil {
		return nil, err
	}
	// Symbol references: sequential numbers in format v2, byte offsets into the index in format v1.
	syms, err := index.NewSymbols(byteSlice(raw), ir.Version(), int(toc.Symbols))
	if err != nil {
		return nil, err
	}
	for i, s := range ref.symbols {
		o, err := syms.ReverseLookup(s)
		if err != nil {
			return nil, err
		}
		if ir.Version() != index.FormatV1 && int(o) != i {
			return nil, fmt.Errorf("oracle: symbol %q has ref %d, expected %d", s, o, i)
		}
		ref.symRefs = append(ref.symRefs, o)
	}
	return ref, nil
}

type byteSlice []byte

func (b byteSlice) Len() int                    { return len(b) }
func (b byteSlice) Range(start, end int) []byte { return b[start:end] }

func (r *reference) close() { _ = r.ir.Close() }

// postings returns the series refs of (name, value) according to the full index.
func (r *reference) postings(name, value string) ([]uint32, error) {
	p, err := r.ir.Postings(context.Background(), name, value)
	if err != nil {
		return nil, err
	}
	refs, err := index.ExpandPostings(p)
	if err != nil {
		return nil, err
	}
	out := make([]uint32, len(refs))
	for i, x := range refs {
		out[i] = uint32(x)
	}
	return out, nil
}

// decodeRange decodes the bytes of the index file at rng as "be32 count, count * be32 ref" (the
// layout the store gateway's postings fetcher relies on). Trailing bytes are tolerated only as far
// as tolerateTail says (the interface allows an over-long end for the last posting list).
func decodeRange(raw []byte, rng index.Range) ([]uint32, int, error) {
	if rng.Start < 0 || rng.End > int64(len(raw)) || rng.End < rng.Start+4 {
		return nil, 0, fmt.Errorf("range %v outside the index file (len %d) or shorter than the count field", rng, len(raw))
	}
	b := raw[rng.Start:rng.End]
	n := int(binary.BigEndian.Uint32(b))
	if 4+4*n > len(b) {
		return nil, 0, fmt.Errorf("range %v holds %d bytes but the count field says %d refs", rng, len(b), n)
	}
	out := make([]uint32, n)
	for i := 0; i < n; i++ {
		out[i] = binary.BigEndian.Uint32(b[4+4*i:])
	}
	return out, len(b) - 4 - 4*n, nil
}

func sameU32(a, b []uint32) bool {
	if len(a) != len(b) {
		return false
	}
	for i := range a {
		if a[i] != b[i] {
			return false
		}
	}
	return true
}

func sameStrings(a, b []string) bool {
	if len(a) != len(b) {
		return false
	}
	for i := range a {
		if a[i] != b[i] {
			return false
		}
	}
	return true
}

// uploadIndex puts the index bytes into a fresh in-memory bucket as <ulid>/index.
func uploadIndex(raw []byte, id ulid.ULID) (objstore.Bucket, error) {
	bkt := objstore.NewInMemBucket()
	if err := bkt.Upload(context.Background(), id.String()+"/index", bytes.NewReader(raw)); err != nil {
		return nil, err
	}
	return bkt, nil
}

// classify a requested value against the sorted present values of its name.
func classifyValue(sorted []string, v string) string {
	i := sort.SearchStrings(sorted, v)
	switch {
	case i < len(sorted) && sorted[i] == v:
		return "present"
	case i == 0:
		return "before-first"
	case i == len(sorted):
		return "after-last"
	default:
		return "between"
	}
}

// genValueList draws a sorted list of requested values for a name with the given present values.
func genValueList(t *rapid.T, present []string) []string {
	kind := rapid.IntRange(0, 11).Draw(t, "listKind")
	var out []string
	switch {
	case kind == 0: // all values, in order
		out = append(out, present...)
	case kind == 1: // every value twice, plus neighbours
		for _, v := range present {
			out = append(out, v, v, v+"\x00")
		}
		if len(out) > 90 {
			out = out[:90]
		}
	default:
		n := rapid.IntRange(0, 20).Draw(t, "listLen")
		if kind == 2 {
			n = rapid.IntRange(0, 2).Draw(t, "listLenTiny")
		}
		for len(out) < n {
			k := rapid.IntRange(0, len(present)-1).Draw(t, "vi")
			switch rapid.IntRange(0, 11).Draw(t, "vk") {
			case 0, 1, 2, 3, 4:
				out = append(out, present[k])
			case 5:
				out = append(out, present[k]+"\x00") // immediately after present[k]
			case 6:
				out = append(out, present[k][:len(present[k])-1]) // a prefix: sorts before present[k]
			case 7:
				out = append(out, present[k]+"~")
			case 8:
				out = append(out, rapid.SampledFrom([]string{"", "\x00", "0", "A", "a", "m", "v", "v0100", "zzzz", "~", "߿", "\U0010ffff"}).Draw(t, "abs"))
			case 9:
				out = append(out, present[0], present[len(present)-1]) // first and last value of the name
			default:
				if len(out) > 0 { // duplicate of something already requested
					out = append(out, out[rapid.IntRange(0, len(out)-1).Draw(t, "dup")])
				} else {
					out = append(out, present[k], present[k])
				}
			}
		}
	}
	sort.Strings(out)
	return out
}

func renderList(vs []string) string {
	var sb strings.Builder
	sb.WriteByte('[')
	for i, v := range vs {
		if i > 0 {
			sb.WriteByte(' ')
		}
		fmt.Fprintf(&sb, "%q", v)
	}
	sb.WriteByte(']')
	return sb.String()
}
