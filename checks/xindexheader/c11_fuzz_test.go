package xindexheader

// Native fuzz target of C11 (thorough tier): byte strings are decoded into (sampling, label name,
// sorted list of requested values) and answered by BinaryReaders over one fixed, deterministic
// format-v2 index; the oracle is the same as in TestVerifC11 (index.Reader on the same file).

import (
	"fmt"
	"os"
	"sort"
	"sync"
	"testing"

	"github.com/prometheus/prometheus/model/labels"

	"github.com/thanos-io/thanos/pkg/block/indexheader"
)

// fuzzSpec is a fixed index: a 230-value name with prefix-heavy decimal values, a single-value name,
// a 5-value name, a 37-value name with long common prefixes and a 64-value name over {a,b}.
func fuzzSpec() idxSpec {
	var out []labels.Labels
	seen := map[string]struct{}{}
	for i := 0; i < 230; i++ {
		ls := []labels.Label{{Name: "a", Value: valueOf(1, i)}, {Name: "b", Value: "only"}, {Name: "job", Value: valueOf(2, i%5)}}
		if i%3 != 0 {
			ls = append(ls, labels.Label{Name: "z", Value: valueOf(4, i%37)})
		}
		if i%2 == 0 {
			ls = append(ls, labels.Label{Name: "le", Value: valueOf(2, (i*7)%64)})
		}
		l := labels.New(ls...)
		if _, ok := seen[l.String()]; ok {
			continue
		}
		seen[l.String()] = struct{}{}
		out = append(out, l)
	}
	sort.Slice(out, func(i, j int) bool { return labels.Compare(out[i], out[j]) < 0 })
	return idxSpec{series: out, desc: "fixed fuzz index"}
}

type fuzzEnv struct {
	dir     string
	ref     *reference
	mu      sync.Mutex
	readers map[int]indexheader.Reader
}

func newFuzzEnv() (*fuzzEnv, error) {
	dir, err := os.MkdirTemp("", "c11fuzz")
	if err != nil {
		return nil, err
	}
	path, err := writeIndex(dir, fuzzSpec())
	if err != nil {
		return nil, err
	}
	ref, err := openReference(path)
	if err != nil {
		return nil, err
	}
	return &fuzzEnv{dir: dir, ref: ref, readers: map[int]indexheader.Reader{}}, nil
}

func (e *fuzzEnv) reader(sampling int) (indexheader.Reader, error) {
	e.mu.Lock()
	defer e.mu.Unlock()
	if r, ok := e.readers[sampling]; ok {
		return r, nil
	}
	r, err := openHeader("binary-mem", e.ref, c11ULID, "", sampling)
	if err != nil {
		return nil, err
	}
	e.readers[sampling] = r
	return r, nil
}

func (e *fuzzEnv) close() {
	for _, r := range e.readers {
		_ = r.Close()
	}
	e.ref.close()
	_ = os.RemoveAll(e.dir)
}

// decodeFuzzList turns fuzz bytes into a sorted value list: pairs (op, arg) select a present value,
// a neighbour of a present value, or a raw byte string.
func decodeFuzzList(present []string, data []byte) []string {
	var out []string
	for i := 0; i+1 < len(data) && len(out) < 64; i += 2 {
		op, arg := data[i], int(data[i+1])
		v := present[(arg+int(op>>4)*256)%len(present)]
		switch op % 8 {
		case 0, 1, 2:
			out = append(out, v)
		case 3:
			out = append(out, v+"\x00")
		case 4:
			out = append(out, v[:len(v)-1])
		case 5:
			out = append(out, v, v)
		case 6:
			out = append(out, string([]byte{data[i+1]}))
		default:
			// raw run: the next arg%6 bytes verbatim
			n := arg % 6
			if i+2+n > len(data) {
				n = len(data) - i - 2
			}
			out = append(out, string(data[i+2:i+2+n]))
			i += n
		}
	}
	sort.Strings(out)
	return out
}

func FuzzVerifC11ValueLists(f *testing.F) {
	env, err := newFuzzEnv()
	if err != nil {
		f.Fatalf("harness: %v", err)
	}
	f.Cleanup(env.close)
	f.Add(uint8(0), uint8(0), []byte{0, 0, 0, 1, 3, 1, 4, 2, 5, 9})
	f.Add(uint8(31), uint8(0), []byte{0, 0, 0x10, 200, 3, 229, 7, 3, '9', '9', '9', 6, 0})
	f.Add(uint8(2), uint8(1), []byte{0, 0, 3, 0, 4, 0, 5, 0})
	f.Add(uint8(63), uint8(4), []byte{0, 36, 0, 0, 3, 36, 4, 0, 0, 17, 5, 17})
	f.Add(uint8(3), uint8(3), []byte{7, 2, 'a', 'b', 0, 63, 3, 62, 0, 1})
	f.Add(uint8(7), uint8(2), []byte{6, 'a', 6, 'b', 6, 'c', 0, 4, 0, 4})
	f.Add(uint8(15), uint8(9), []byte{0, 1, 0, 2})
	f.Fuzz(func(t *testing.T, smp uint8, nameIdx uint8, data []byte) {
		sampling := int(smp)%64 + 1
		rd, err := env.reader(sampling)
		if err != nil {
			t.Fatalf("C11 violated: building the index header failed: %v", err)
		}
		c := &hdrCase{ref: env.ref, rd: rd, sampling: sampling}
		names := env.ref.names
		k := int(nameIdx) % (len(names) + 1)
		if k == len(names) {
			vals := decodeFuzzList(env.ref.values[names[0]], data)
			if m := c.checkAbsentName("nope", vals); m != "" {
				t.Fatalf("C11 violated: %s (sampling=%d)", m, sampling)
			}
			return
		}
		vals := decodeFuzzList(env.ref.values[names[k]], data)
		if m, _ := c.checkList(names[k], vals); m != "" {
			t.Fatalf("C11 violated: %s (sampling=%d, %s)", m, sampling, fmt.Sprint(len(vals), " values"))
		}
		for i, v := range vals {
			if i%7 == 0 {
				if m := c.checkSingle(names[k], v); m != "" {
					t.Fatalf("C11 violated: %s (sampling=%d)", m, sampling)
				}
			}
		}
	})
}
