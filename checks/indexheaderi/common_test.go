package indexheader

// Helpers of the in-package checks of the index-header package (group indexheaderi, property C16).
// All identifiers carry the c16 prefix so they cannot clash with the package's own tests.

import (
	"bytes"
	"context"
	"fmt"
	"os"
	"path/filepath"
	"sort"
	"strings"

	"github.com/oklog/ulid/v2"
	"github.com/prometheus/prometheus/model/labels"
	"github.com/prometheus/prometheus/storage"
	"github.com/prometheus/prometheus/tsdb/index"
	"github.com/thanos-io/objstore"
	"pgregory.net/rapid"
)

type c16Index struct {
	raw    []byte
	names  []string
	values map[string][]string // sorted
	nSyms  int
	desc   string
}

func c16Value(style, k int) string {
	switch style {
	case 0:
		return fmt.Sprintf("v%03d", k)
	case 1:
		return fmt.Sprintf("%d", k)
	default:
		return "http://host-" + fmt.Sprintf("%d", k*7) + ".example.org:9090/metrics"
	}
}

// c16GenIndex draws a small index (1..80 series, 1..4 names, up to 80 values per name), writes it with
// prometheus' index.Writer into dir and returns its bytes and label universe.
func c16GenIndex(t *rapid.T, dir string) (*c16Index, error) {
	n := rapid.IntRange(1, 80).Draw(t, "series")
	names := rapid.Permutation([]string{"a", "aa", "b", "job", "instance", "z"}).Draw(t, "names")[:rapid.IntRange(1, 4).Draw(t, "nNames")]
	type cfg struct{ style, card, stride, pd int }
	cfgs := make([]cfg, len(names))
	var sb strings.Builder
	fmt.Fprintf(&sb, "n=%d", n)
	for j := range cfgs {
		c := &cfgs[j]
		c.style = rapid.IntRange(0, 2).Draw(t, "style")
		c.card = rapid.SampledFrom([]int{1, 2, 5, 17, 80}).Draw(t, "card")
		if c.card > n {
			c.card = n
		}
		c.stride = rapid.SampledFrom([]int{1, 3, 7}).Draw(t, "stride")
		c.pd = rapid.SampledFrom([]int{1, 1, 2, 3}).Draw(t, "presentEvery")
		if j == 0 {
			c.pd = 1
		}
		fmt.Fprintf(&sb, " %s:s%dc%dx%d/%d", names[j], c.style, c.card, c.stride, c.pd)
	}
	seen := map[string]struct{}{}
	var series []labels.Labels
	symSet := map[string]struct{}{}
	vals := map[string]map[string]struct{}{}
	for i := 0; i < n; i++ {
		var ls []labels.Label
		for j, c := range cfgs {
			if c.pd == 1 || i%c.pd != 0 {
				ls = append(ls, labels.Label{Name: names[j], Value: c16Value(c.style, (i*c.stride)%c.card)})
			}
		}
		l := labels.New(ls...)
		if _, ok := seen[l.String()]; ok {
			continue
		}
		seen[l.String()] = struct{}{}
		series = append(series, l)
		for _, x := range ls {
			symSet[x.Name] = struct{}{}
			symSet[x.Value] = struct{}{}
			if vals[x.Name] == nil {
				vals[x.Name] = map[string]struct{}{}
			}
			vals[x.Name][x.Value] = struct{}{}
		}
	}
	sort.Slice(series, func(i, j int) bool { return labels.Compare(series[i], series[j]) < 0 })
	path := filepath.Join(dir, "index")
	w, err := index.NewWriter(context.Background(), path)
	if err != nil {
		return nil, err
	}
	syms := make([]string, 0, len(symSet))
	for s := range symSet {
		syms = append(syms, s)
	}
	sort.Strings(syms)
	for _, s := range syms {
		if err := w.AddSymbol(s); err != nil {
			return nil, err
		}
	}
	for i, l := range series {
		if err := w.AddSeries(storage.SeriesRef(i+1), l); err != nil {
			return nil, err
		}
	}
	if err := w.Close(); err != nil {
		return nil, err
	}
	raw, err := os.ReadFile(path)
	if err != nil {
		return nil, err
	}
	out := &c16Index{raw: raw, values: map[string][]string{}, nSyms: len(syms), desc: sb.String()}
	for name, set := range vals {
		out.names = append(out.names, name)
		for v := range set {
			out.values[name] = append(out.values[name], v)
		}
		sort.Strings(out.values[name])
	}
	sort.Strings(out.names)
	return out, nil
}

func c16Upload(bkt objstore.Bucket, raw []byte, id ulid.ULID) error {
	return bkt.Upload(context.Background(), id.String()+"/index", bytes.NewReader(raw))
}
