package indexheader

// C16 Lazy index headers stay correct under concurrent idle unloading.
//
// One case = one generated index, 1..2 LazyBinaryReaders created through a ReaderPool, a drawn
// workload of 4..16 reader goroutines (each a drawn sequence of PostingsOffsets / PostingsOffset /
// LabelValues / LookupSymbol / LabelNames / IndexVersion calls with drawn pauses) racing with 1..2
// unloader goroutines (unloadIfIdleSince(now), unloadIfIdleSince(0), unloadIfIdleSince(long ago),
// ReaderPool.closeIdleReaders(), one Close) under a drawn GOMAXPROCS, built with -race.
// Oracle: every call returns exactly what an eager, never-unloaded BinaryReader of the same index
// returns, or the clean error errUnloadedWhileLoading; unload calls return nil or errNotIdle; no
// panic, no memory fault, no race report; after the workload a sequential pass gets exact answers
// and Close leaves the reader unloaded and untracked.
//
// String results (LabelValues, LookupSymbol, LabelNames) may alias the mmap'd header file; their
// bytes are valid only while that mapping exists. Real callers are protected by the idle timeout
// (minutes); the harness has no such slack, so it compares the bytes only when it can prove that the
// mapping the call used is still there: it re-takes the reader's read lock and checks that no unload
// completed since before the call (lengths, errors and numeric results are compared always).
// Schedules are sampled, not enumerated (DESIGN §7).

import (
	"context"
	"fmt"
	"os"
	"runtime"
	"runtime/debug"
	"sort"
	"strings"
	"sync"
	"sync/atomic"
	"testing"
	"time"

	"github.com/go-kit/log"
	"github.com/oklog/ulid/v2"
	promtestutil "github.com/prometheus/client_golang/prometheus/testutil"
	"github.com/prometheus/prometheus/tsdb/index"
	"github.com/thanos-io/objstore"
	"pgregory.net/rapid"

	"github.com/thanos-io/thanos/pkg/block/metadata"
	"github.com/thanos-io/thanos/verifx/kit"
)

const (
	c16PostingsOffsets = iota
	c16PostingsOffset
	c16LabelValues
	c16LookupSymbol
	c16LabelNames
	c16IndexVersion
)

type c16Query struct {
	kind int
	name string
	vals []string
	sym  uint32
}

func (q c16Query) String() string {
	switch q.kind {
	case c16PostingsOffsets:
		return fmt.Sprintf("PostingsOffsets(%q,%q)", q.name, q.vals)
	case c16PostingsOffset:
		return fmt.Sprintf("PostingsOffset(%q,%q)", q.name, q.vals[0])
	case c16LabelValues:
		return fmt.Sprintf("LabelValues(%q)", q.name)
	case c16LookupSymbol:
		return fmt.Sprintf("LookupSymbol(%d)", q.sym)
	case c16LabelNames:
		return "LabelNames()"
	default:
		return "IndexVersion()"
	}
}

// c16Answer: strs may alias the header's mmap when it comes from a lazy reader.
type c16Answer struct {
	err  error
	rngs []index.Range
	strs []string
	num  int
}

func c16Ask(r Reader, q c16Query) c16Answer {
	var a c16Answer
	switch q.kind {
	case c16PostingsOffsets:
		a.rngs, a.err = r.PostingsOffsets(q.name, q.vals...)
	case c16PostingsOffset:
		var rng index.Range
		rng, a.err = r.PostingsOffset(q.name, q.vals[0])
		a.rngs = []index.Range{rng}
	case c16LabelValues:
		a.strs, a.err = r.LabelValues(q.name)
	case c16LookupSymbol:
		var s string
		s, a.err = r.LookupSymbol(context.Background(), q.sym)
		a.strs = []string{s}
	case c16LabelNames:
		a.strs, a.err = r.LabelNames()
	default:
		a.num, a.err = r.IndexVersion()
	}
	return a
}

// c16Expected is the eager reader's answer with owned strings.
type c16Expected struct {
	errText string
	isErr   bool
	rngs    []index.Range
	strs    []string
	num     int
}

func c16Expect(r Reader, q c16Query) c16Expected {
	a := c16Ask(r, q)
	e := c16Expected{rngs: append([]index.Range(nil), a.rngs...), num: a.num}
	if a.err != nil {
		e.isErr, e.errText = true, a.err.Error()
	}
	for _, s := range a.strs {
		e.strs = append(e.strs, strings.Clone(s))
	}
	return e
}

// c16Shape compares everything except string bytes (string lengths are compared: reading a length
// does not touch the mapping). Returns "" when equal.
func c16Shape(a c16Answer, e c16Expected) string {
	if (a.err != nil) != e.isErr {
		return fmt.Sprintf("error %v, the always-loaded header gives error=%v %q", a.err, e.isErr, e.errText)
	}
	if a.err != nil {
		if a.err.Error() != e.errText {
			return fmt.Sprintf("error %q, the always-loaded header gives %q", a.err.Error(), e.errText)
		}
		return ""
	}
	if len(a.rngs) != len(e.rngs) {
		return fmt.Sprintf("%d ranges %v, the always-loaded header gives %v", len(a.rngs), a.rngs, e.rngs)
	}
	for i := range a.rngs {
		if a.rngs[i] != e.rngs[i] {
			return fmt.Sprintf("ranges %v, the always-loaded header gives %v", a.rngs, e.rngs)
		}
	}
	if a.num != e.num {
		return fmt.Sprintf("%d, the always-loaded header gives %d", a.num, e.num)
	}
	if len(a.strs) != len(e.strs) {
		return fmt.Sprintf("%d strings, the always-loaded header gives %d", len(a.strs), len(e.strs))
	}
	for i := range a.strs {
		if len(a.strs[i]) != len(e.strs[i]) {
			return fmt.Sprintf("string %d has length %d, the always-loaded header gives %q", i, len(a.strs[i]), e.strs[i])
		}
	}
	return ""
}

func c16Content(a c16Answer, e c16Expected) string {
	for i := range a.strs {
		if a.strs[i] != e.strs[i] {
			return fmt.Sprintf("string %d is %q, the always-loaded header gives %q", i, a.strs[i], e.strs[i])
		}
	}
	return ""
}

type c16Op struct{ query, lazy, pause int }
type c16Act struct{ kind, lazy, pause int }

const (
	c16ActUnloadNow = iota
	c16ActUnloadForce
	c16ActSweep
	c16ActUnloadOld
	c16ActClose
)

func c16Pause(p int) {
	switch {
	case p == 0:
	case p == 1:
		runtime.Gosched()
	default:
		time.Sleep(time.Duration(p-1) * 5 * time.Microsecond)
	}
}

type c16Tally struct {
	ok, unloadedWhileLoading, verified, unverified int
	notIdle, unloadOK                              int
	violations                                     []string
	gens                                           map[int]map[*BinaryReader]struct{}
}

type c16Env struct {
	pool     *ReaderPool
	lazies   []*LazyBinaryReader
	queries  []c16Query
	expected []c16Expected
}

func (e *c16Env) unloads() float64 {
	return promtestutil.ToFloat64(e.pool.metrics.lazyReader.unloadCount)
}

// runReader executes one reader goroutine's sequence.
func (e *c16Env) runReader(id int, ops []c16Op, tl *c16Tally) {
	debug.SetPanicOnFault(true)
	cur := "start"
	defer func() {
		if p := recover(); p != nil {
			tl.violations = append(tl.violations, fmt.Sprintf("reader %d: panic/fault during %s: %v", id, cur, p))
		}
	}()
	for i, op := range ops {
		c16Pause(op.pause)
		q, want, lr := e.queries[op.query], e.expected[op.query], e.lazies[op.lazy]
		cur = fmt.Sprintf("op %d %s on lazy reader %d", i, q, op.lazy)
		c0 := e.unloads()
		a := c16Ask(lr, q)
		if a.err == errUnloadedWhileLoading {
			tl.unloadedWhileLoading++
			continue
		}
		if m := c16Shape(a, want); m != "" {
			tl.violations = append(tl.violations, fmt.Sprintf("reader %d %s: got %s", id, cur, m))
			continue
		}
		tl.ok++
		// Post phase under the reader's read lock: no unload can run while we hold it, and if no
		// unload completed since c0 the mapping used by the call is still the current one.
		cur += " (comparing returned strings)"
		lr.readerMx.RLock()
		if br := lr.reader; br != nil {
			if tl.gens[op.lazy] == nil {
				tl.gens[op.lazy] = map[*BinaryReader]struct{}{}
			}
			tl.gens[op.lazy][br] = struct{}{}
		}
		if len(a.strs) > 0 && a.err == nil {
			if e.unloads() == c0 && lr.reader != nil {
				if m := c16Content(a, want); m != "" {
					tl.violations = append(tl.violations, fmt.Sprintf("reader %d %s: %s (no unload since before the call)", id, cur, m))
				}
				tl.verified++
			} else {
				tl.unverified++
			}
		}
		lr.readerMx.RUnlock()
	}
}

// runUnloader cycles through its actions until the readers are done (at least one full pass).
func (e *c16Env) runUnloader(id int, acts []c16Act, done *atomic.Bool, closed []atomic.Bool, tl *c16Tally) {
	defer func() {
		if p := recover(); p != nil {
			tl.violations = append(tl.violations, fmt.Sprintf("unloader %d: panic: %v", id, p))
		}
	}()
	for pass := 0; pass < 400; pass++ {
		for _, act := range acts {
			c16Pause(act.pause)
			lr := e.lazies[act.lazy]
			var err error
			what := ""
			switch act.kind {
			case c16ActUnloadNow:
				what = "unloadIfIdleSince(now)"
				err = lr.unloadIfIdleSince(time.Now().UnixNano())
			case c16ActSweep:
				what = "closeIdleReaders()"
				e.pool.closeIdleReaders()
			case c16ActUnloadOld:
				what = "unloadIfIdleSince(now-1h)"
				err = lr.unloadIfIdleSince(time.Now().Add(-time.Hour).UnixNano())
			case c16ActClose:
				if closed[act.lazy].CompareAndSwap(false, true) {
					what = "Close()"
					err = lr.Close()
					break
				}
				fallthrough
			default:
				what = "unloadIfIdleSince(0)"
				err = lr.unloadIfIdleSince(0)
			}
			switch {
			case err == nil:
				tl.unloadOK++
			case err == errNotIdle && (act.kind == c16ActUnloadNow || act.kind == c16ActUnloadOld):
				tl.notIdle++
			default:
				tl.violations = append(tl.violations, fmt.Sprintf("unloader %d: %s on lazy reader %d returned %v", id, what, act.lazy, err))
			}
		}
		if done.Load() {
			return
		}
	}
}

func c16GenQueries(rt *rapid.T, idx *c16Index) []c16Query {
	n := rapid.IntRange(6, 16).Draw(rt, "queries")
	qs := make([]c16Query, 0, n)
	pickVal := func(name string) string {
		vs := idx.values[name]
		v := rapid.SampledFrom(vs).Draw(rt, "v")
		switch rapid.IntRange(0, 5).Draw(rt, "vk") {
		case 0:
			return v + "\x00"
		case 1:
			return v[:len(v)-1]
		default:
			return v
		}
	}
	for len(qs) < n {
		q := c16Query{kind: rapid.SampledFrom([]int{0, 0, 0, 1, 1, 2, 2, 2, 3, 3, 4, 5}).Draw(rt, "kind")}
		q.name = rapid.SampledFrom(idx.names).Draw(rt, "name")
		if rapid.IntRange(0, 9).Draw(rt, "absentName") == 0 {
			q.name += "~nope"
		}
		base := q.name
		if _, ok := idx.values[base]; !ok {
			base = idx.names[0]
		}
		switch q.kind {
		case c16PostingsOffsets:
			for i, k := 0, rapid.IntRange(0, 8).Draw(rt, "nvals"); i < k; i++ {
				q.vals = append(q.vals, pickVal(base))
			}
			sort.Strings(q.vals)
		case c16PostingsOffset:
			q.vals = []string{pickVal(base)}
		case c16LookupSymbol:
			q.sym = uint32(rapid.IntRange(0, idx.nSyms+1).Draw(rt, "sym"))
		}
		qs = append(qs, q)
	}
	return qs
}

var c16ULIDs = []ulid.ULID{ulid.MustParse("01HZZZZZZZZZZZZZZZZZZZZC16"), ulid.MustParse("01HZZZZZZZZZZZZZZZZZZZZC17")}

func TestVerifC16(t *testing.T) {
	rec := kit.For(t, "C16")
	base := t.TempDir()
	prevProcs := runtime.GOMAXPROCS(0)
	defer runtime.GOMAXPROCS(prevProcs)
	ctx := context.Background()

	rec.Check(t, func(rt *rapid.T) {
		dir, err := os.MkdirTemp(base, "case")
		if err != nil {
			rt.Fatalf("harness: %v", err)
		}
		defer os.RemoveAll(dir)
		idx, err := c16GenIndex(rt, dir)
		if err != nil {
			rt.Fatalf("harness: writing the index: %v", err)
		}
		sampling := rapid.SampledFrom([]int{1, 2, 3, 8, 32}).Draw(rt, "sampling")
		nLazy := rapid.IntRange(1, 2).Draw(rt, "lazyReaders")
		lazyDownload := rapid.Bool().Draw(rt, "lazyDownload")
		procs := rapid.SampledFrom([]int{2, 3, 4, 8, 16}).Draw(rt, "gomaxprocs")

		bkt := objstore.NewInMemBucket()
		for i := 0; i < nLazy; i++ {
			if err := c16Upload(bkt, idx.raw, c16ULIDs[i]); err != nil {
				rt.Fatalf("harness: %v", err)
			}
		}
		eager, err := NewBinaryReader(ctx, log.NewNopLogger(), bkt, "", c16ULIDs[0], sampling, NewBinaryReaderMetrics(nil))
		if err != nil {
			rt.Fatalf("harness: eager reader: %v", err)
		}
		defer eager.Close()

		env := &c16Env{queries: c16GenQueries(rt, idx)}
		for _, q := range env.queries {
			env.expected = append(env.expected, c16Expect(eager, q))
		}
		// A pool without its ticker goroutine (timeout 0 at construction), then a 1ns idle timeout so
		// that readers are tracked and closeIdleReaders(), driven by the unloaders, sweeps everything
		// not used "just now".
		env.pool = NewReaderPool(log.NewNopLogger(), true, 0, NewReaderPoolMetrics(nil), func(*metadata.Meta) bool { return lazyDownload })
		env.pool.lazyReaderIdleTimeout = time.Nanosecond
		defer env.pool.Close()
		for i := 0; i < nLazy; i++ {
			r, err := env.pool.NewBinaryReader(ctx, log.NewNopLogger(), bkt, dir, c16ULIDs[i], sampling, nil)
			if err != nil {
				rt.Fatalf("C16 violated: ReaderPool.NewBinaryReader: %v", err)
			}
			lr, ok := r.(*LazyBinaryReader)
			if !ok || !env.pool.isTracking(lr) {
				rt.Fatalf("C16 violated: pool returned %T, tracked=%v", r, ok && env.pool.isTracking(lr))
			}
			env.lazies = append(env.lazies, lr)
		}

		nReaders := rapid.IntRange(4, 16).Draw(rt, "readers")
		readerOps := make([][]c16Op, nReaders)
		for i := range readerOps {
			for j, k := 0, rapid.IntRange(5, 40).Draw(rt, "ops"); j < k; j++ {
				readerOps[i] = append(readerOps[i], c16Op{
					query: rapid.IntRange(0, len(env.queries)-1).Draw(rt, "q"),
					lazy:  rapid.IntRange(0, nLazy-1).Draw(rt, "lazy"),
					pause: rapid.SampledFrom([]int{0, 0, 0, 1, 1, 2, 3, 6, 11}).Draw(rt, "pause"),
				})
			}
		}
		nUnloaders := rapid.IntRange(1, 2).Draw(rt, "unloaders")
		unloaderActs := make([][]c16Act, nUnloaders)
		closeMidRun := false
		for i := range unloaderActs {
			for j, k := 0, rapid.IntRange(3, 30).Draw(rt, "acts"); j < k; j++ {
				a := c16Act{
					kind:  rapid.SampledFrom([]int{c16ActUnloadNow, c16ActUnloadNow, c16ActUnloadForce, c16ActUnloadForce, c16ActSweep, c16ActSweep, c16ActSweep, c16ActUnloadOld, c16ActClose}).Draw(rt, "act"),
					lazy:  rapid.IntRange(0, nLazy-1).Draw(rt, "lazy"),
					pause: rapid.SampledFrom([]int{0, 1, 1, 2, 4, 8, 21, 41}).Draw(rt, "pause"),
				}
				closeMidRun = closeMidRun || a.kind == c16ActClose
				unloaderActs[i] = append(unloaderActs[i], a)
			}
		}

		runtime.GOMAXPROCS(procs)
		var (
			wgR, wgU sync.WaitGroup
			start    = make(chan struct{})
			done     atomic.Bool
			closed   = make([]atomic.Bool, nLazy)
			tallies  = make([]*c16Tally, nReaders+nUnloaders)
		)
		for i := range tallies {
			tallies[i] = &c16Tally{gens: map[int]map[*BinaryReader]struct{}{}}
		}
		for i := range readerOps {
			wgR.Add(1)
			go func(i int) {
				defer wgR.Done()
				<-start
				env.runReader(i, readerOps[i], tallies[i])
			}(i)
		}
		for i := range unloaderActs {
			wgU.Add(1)
			go func(i int) {
				defer wgU.Done()
				<-start
				env.runUnloader(i, unloaderActs[i], &done, closed, tallies[nReaders+i])
			}(i)
		}
		close(start)
		wgR.Wait()
		done.Store(true)
		wgU.Wait()
		runtime.GOMAXPROCS(prevProcs)

		var total c16Tally
		gens := map[int]map[*BinaryReader]struct{}{}
		for _, tl := range tallies {
			total.ok += tl.ok
			total.unloadedWhileLoading += tl.unloadedWhileLoading
			total.verified += tl.verified
			total.unverified += tl.unverified
			total.notIdle += tl.notIdle
			total.unloadOK += tl.unloadOK
			total.violations = append(total.violations, tl.violations...)
			for l, m := range tl.gens {
				if gens[l] == nil {
					gens[l] = map[*BinaryReader]struct{}{}
				}
				for p := range m {
					gens[l][p] = struct{}{}
				}
			}
		}
		loads := promtestutil.ToFloat64(env.pool.metrics.lazyReader.loadCount)
		unloadsN := env.unloads()
		history := fmt.Sprintf("index %s sampling=%d lazy=%d lazyDownload=%v gomaxprocs=%d readers=%d unloaders=%d loads=%v unloads=%v ok=%d unloadedWhileLoading=%d",
			idx.desc, sampling, nLazy, lazyDownload, procs, nReaders, nUnloaders, loads, unloadsN, total.ok, total.unloadedWhileLoading)
		if os.Getenv("VERIF_C16_DEBUG") != "" {
			fmt.Println("C16-DEBUG", history, "verified", total.verified, "unverified", total.unverified, "unloadOK", total.unloadOK, "notIdle", total.notIdle)
		}
		if len(total.violations) > 0 {
			if len(total.violations) > 5 {
				total.violations = total.violations[:5]
			}
			rt.Fatalf("C16 violated: %s\n%s", strings.Join(total.violations, "\n"), history)
		}
		if f := promtestutil.ToFloat64(env.pool.metrics.lazyReader.loadFailedCount) + promtestutil.ToFloat64(env.pool.metrics.lazyReader.unloadFailedCount); f != 0 {
			rt.Fatalf("C16 violated: %v failed loads/unloads\n%s", f, history)
		}

		// Quiescent pass: no concurrency, so every answer must be exact; then Close.
		for li, lr := range env.lazies {
			for qi, q := range env.queries {
				a := c16Ask(lr, q)
				m := c16Shape(a, env.expected[qi])
				if m == "" {
					m = c16Content(a, env.expected[qi])
				}
				if m != "" {
					rt.Fatalf("C16 violated: after the workload, lazy reader %d %s: got %s\n%s", li, q, m, history)
				}
			}
			if err := lr.Close(); err != nil {
				rt.Fatalf("C16 violated: final Close of lazy reader %d: %v\n%s", li, err, history)
			}
			lr.readerMx.RLock()
			loaded := lr.reader != nil
			lr.readerMx.RUnlock()
			if loaded || env.pool.isTracking(lr) {
				rt.Fatalf("C16 violated: after Close lazy reader %d is loaded=%v tracked=%v\n%s", li, loaded, env.pool.isTracking(lr), history)
			}
		}

		nontrivial := false
		for _, m := range gens {
			if len(m) >= 2 {
				nontrivial = true
			}
		}
		classes := []string{fmt.Sprintf("gomaxprocs=%d", procs)}
		add := func(c bool, name string) {
			if c {
				classes = append(classes, name)
			}
		}
		add(lazyDownload, "lazy-download")
		add(nLazy == 2, "two-lazy-readers")
		add(closeMidRun, "close-mid-run")
		add(total.unloadedWhileLoading > 0, "saw-errUnloadedWhileLoading")
		add(total.notIdle > 0, "saw-errNotIdle")
		add(total.verified > 0, "strings-compared")
		add(total.unverified > 0, "strings-not-comparable(unload-in-between)")
		add(loads >= 2, "reloaded")
		add(loads >= 10, "reloaded>=10x")
		add(loads <= 1, "loaded-once")
		var key strings.Builder
		key.WriteString(history[:strings.Index(history, " loads=")])
		for _, ops := range readerOps {
			fmt.Fprintf(&key, " r%v", ops)
		}
		for _, acts := range unloaderActs {
			fmt.Fprintf(&key, " u%v", acts)
		}
		rec.Case(key.String(), nontrivial, classes...)
	})
}
