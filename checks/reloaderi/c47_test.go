package reloader

// C47 The config reloader applies the latest configuration.
//
// A rapid state machine edits / adds / removes the config file, files in up to two config directories
// (plain, gzip, symlinked, plus ignored sub-directories) and files below a watched directory, with
// $(VAR) references to set, empty and unset environment variables, and interleaves Reloader.apply calls
// whose reload trigger (the real HTTPReloader on a fake http.RoundTripper) follows a drawn script:
// j failures (HTTP 500 or transport error) followed by success, or k failures after which the harness
// cancels the apply context ("watch interval elapsed").
//
// "Eventually" is reduced to safety at quiescent points: after every apply that returned nil
//   - every output equals expand(decompress(input)) computed by an independent scanner,
//   - the output directory holds exactly the outputs of the inputs that exist (removed inputs => removed
//     outputs, no temporary files left),
//   - the reload endpoint was contacted iff the inputs differ from what the last successful reload saw or
//     a failed reload is pending; a scripted success is reached (failures are retried inside apply), and a
//     reload that failed until the context ended is retried by the next apply even without any change.
//
// Nothing depends on wall-clock timeouts: the retry interval is 1 ms and the context only ends when the
// fake round tripper cancels it.

import (
	"bytes"
	"compress/gzip"
	"context"
	"fmt"
	"io"
	"net/http"
	"net/url"
	"os"
	"path/filepath"
	"sort"
	"strings"
	"sync"
	"testing"
	"time"

	"pgregory.net/rapid"

	"github.com/thanos-io/thanos/verifx/kit"
)

// environment of a history (process environment is global: set at the start of a case, restored at the end)
const (
	c47VarA = "C47_VAR_A" // set, non-empty
	c47VarB = "C47_B2"    // set, possibly empty
	c47VarU = "C47_UNSET" // never set
)

// c47Expand is the reference for the documented substitution: every `$(NAME)` with NAME in
// [a-zA-Z_0-9]+ is replaced by the value of NAME; a reference to an unset variable is an error, or is
// left as it is when tolerated. Written as a hand scanner, independent of the regexp in the reloader.
func c47Expand(in []byte, env map[string]string, tolerate bool) (out []byte, unset bool) {
	isName := func(c byte) bool {
		return c == '_' || (c >= '0' && c <= '9') || (c >= 'a' && c <= 'z') || (c >= 'A' && c <= 'Z')
	}
	for i := 0; i < len(in); {
		if in[i] == '$' && i+1 < len(in) && in[i+1] == '(' {
			j := i + 2
			for j < len(in) && isName(in[j]) {
				j++
			}
			if j > i+2 && j < len(in) && in[j] == ')' {
				name := string(in[i+2 : j])
				if v, ok := env[name]; ok {
					out = append(out, v...)
				} else {
					unset = true
					out = append(out, in[i:j+1]...)
				}
				i = j + 1
				continue
			}
		}
		out = append(out, in[i])
		i++
	}
	if unset && !tolerate {
		return nil, true
	}
	return out, unset
}

// one gzip writer for the whole test (a fresh compressor allocates ~1 MB); cases run sequentially.
var c47GzipWriter = gzip.NewWriter(io.Discard)

func c47Gzip(b []byte) []byte {
	var buf bytes.Buffer
	c47GzipWriter.Reset(&buf)
	_, _ = c47GzipWriter.Write(b)
	_ = c47GzipWriter.Close()
	return buf.Bytes()
}

var c47Pieces = []string{
	"global:\n", "  x: 1\n", "a", " ", "\n", "$(" + c47VarA + ")", "$(" + c47VarB + ")", "$(" + c47VarU + ")",
	"$" + c47VarA, "${" + c47VarA + "}", "$(", "$()", "$$(" + c47VarA + ")", "$(" + c47VarA, "$(A-B)", ")", "$", "replica: '$(" + c47VarA + ")'\n", "é",
}

func c47GenContent(t *rapid.T, allowUnset bool) []byte {
	n := rapid.IntRange(0, 6).Draw(t, "pieces")
	var sb strings.Builder
	for i := 0; i < n; i++ {
		p := rapid.SampledFrom(c47Pieces).Draw(t, "piece")
		if !allowUnset && strings.Contains(p, c47VarU) {
			p = "u"
		}
		sb.WriteString(p)
	}
	if rapid.IntRange(0, 3).Draw(t, "tag") > 0 {
		fmt.Fprintf(&sb, "#%d\n", rapid.IntRange(0, 5).Draw(t, "tagv"))
	}
	return []byte(sb.String())
}

// c47File is the model of one input file.
type c47File struct {
	Content []byte // logical (decompressed) content
	Gz      bool
	Link    bool // the directory entry is a symlink to a file kept in the side directory
	raw     []byte
}

func (f c47File) Raw() []byte { return f.raw }

type c47RT struct {
	mu        sync.Mutex
	script    []int // 500 or -1 (transport error) per scripted failure
	success   bool  // after the failures: answer 200; else cancel the context with the last failure
	cancel    context.CancelFunc
	pos       int
	calls     int
	oks       int
	afterOK   int
	badMethod string
}

func (rt *c47RT) RoundTrip(req *http.Request) (*http.Response, error) {
	rt.mu.Lock()
	defer rt.mu.Unlock()
	rt.calls++
	if req.Method != http.MethodPost || !strings.HasSuffix(req.URL.Path, "/-/reload") {
		rt.badMethod = req.Method + " " + req.URL.String()
	}
	resp := func(code int) (*http.Response, error) {
		return &http.Response{StatusCode: code, Status: fmt.Sprintf("%d x", code), Body: io.NopCloser(strings.NewReader("")), Header: http.Header{}, Request: req}, nil
	}
	if rt.oks > 0 {
		rt.afterOK++
		return resp(200)
	}
	if rt.pos < len(rt.script) {
		o := rt.script[rt.pos]
		rt.pos++
		if rt.pos == len(rt.script) && !rt.success {
			rt.cancel() // "the watch interval elapsed": give up after this failure
		}
		if o < 0 {
			return nil, fmt.Errorf("c47: connection refused")
		}
		return resp(o)
	}
	if !rt.success {
		// the context is already cancelled; the retry loop may come around once more before it notices
		return nil, context.Canceled
	}
	rt.oks++
	return resp(200)
}

func (rt *c47RT) arm(script []int, success bool, cancel context.CancelFunc) {
	rt.mu.Lock()
	rt.script, rt.success, rt.cancel = script, success, cancel
	rt.pos, rt.calls, rt.oks, rt.afterOK = 0, 0, 0, 0
	rt.mu.Unlock()
}

type c47Dir struct {
	In, Out string
	Files   map[string]c47File
	Subdirs map[string]bool
}

type c47World struct {
	root     string
	side     string
	cfgFile  string
	cfgOut   string
	cfg      *c47File
	dirs     []*c47Dir
	watched  string
	wfiles   map[string][]byte // relative path -> content
	env      map[string]string
	tolerate bool

	// known finding C47/stale-output-after-failed-apply: names of outputs that a failed apply may have
	// written without recording them (per config dir); only consulted when the finding is listed.
	tainted       []map[string]bool
	tolerateStale bool
	staleSeen     int
}

func c47Write(path string, b []byte) error {
	if err := os.MkdirAll(filepath.Dir(path), 0o755); err != nil {
		return err
	}
	return os.WriteFile(path, b, 0o644)
}

// putFile materialises f as entry name of directory dir (replacing whatever entry was there).
func (w *c47World) putFile(dir, name string, f *c47File, linkKey string) error {
	f.raw = f.Content
	if f.Gz {
		f.raw = c47Gzip(f.Content)
	}
	p := filepath.Join(dir, name)
	_ = os.Remove(p)
	if f.Link {
		target := filepath.Join(w.side, linkKey)
		if err := c47Write(target, f.raw); err != nil {
			return err
		}
		return os.Symlink(target, p)
	}
	return c47Write(p, f.raw)
}

// snapshot renders everything the reload decision may depend on (names + raw bytes of all inputs).
func (w *c47World) snapshot() string {
	var sb strings.Builder
	if w.cfg != nil {
		fmt.Fprintf(&sb, "cfg=%x;", w.cfg.Raw())
	}
	for i, d := range w.dirs {
		names := make([]string, 0, len(d.Files))
		for n := range d.Files {
			names = append(names, n)
		}
		sort.Strings(names)
		for _, n := range names {
			fmt.Fprintf(&sb, "d%d/%s=%x;", i, n, d.Files[n].Raw())
		}
	}
	names := make([]string, 0, len(w.wfiles))
	for n := range w.wfiles {
		names = append(names, n)
	}
	sort.Strings(names)
	for _, n := range names {
		fmt.Fprintf(&sb, "w/%s=%x;", n, w.wfiles[n])
	}
	return sb.String()
}

// logicalSnapshot is the same with decompressed contents (what Prometheus would see after expansion).
func (w *c47World) logicalSnapshot() string {
	var sb strings.Builder
	if w.cfg != nil {
		fmt.Fprintf(&sb, "cfg=%x;", w.cfg.Content)
	}
	for i, d := range w.dirs {
		names := make([]string, 0, len(d.Files))
		for n := range d.Files {
			names = append(names, n)
		}
		sort.Strings(names)
		for _, n := range names {
			fmt.Fprintf(&sb, "d%d/%s=%x;", i, n, d.Files[n].Content)
		}
	}
	names := make([]string, 0, len(w.wfiles))
	for n := range w.wfiles {
		names = append(names, n)
	}
	sort.Strings(names)
	for _, n := range names {
		fmt.Fprintf(&sb, "w/%s=%x;", n, w.wfiles[n])
	}
	return sb.String()
}

// refersUnset: some input that apply processes references the unset variable.
func (w *c47World) refersUnset() bool {
	has := func(b []byte) bool { _, u := c47Expand(b, w.env, true); return u }
	if w.cfg != nil && w.cfgOut != "" && has(w.cfg.Content) {
		return true
	}
	for _, d := range w.dirs {
		for _, f := range d.Files {
			if has(f.Content) {
				return true
			}
		}
	}
	return false
}

// checkOutputs compares the output files with the reference expansion of the current inputs.
func (w *c47World) checkOutputs() string {
	if w.cfg != nil && w.cfgOut != "" {
		want, _ := c47Expand(w.cfg.Content, w.env, w.tolerate)
		got, err := os.ReadFile(w.cfgOut)
		if err != nil {
			return fmt.Sprintf("config output file: %v", err)
		}
		if !bytes.Equal(got, want) {
			return fmt.Sprintf("config output is %q, want %q (input %q)", got, want, w.cfg.Content)
		}
	}
	for i, d := range w.dirs {
		entries, err := os.ReadDir(d.Out)
		if err != nil {
			return fmt.Sprintf("output dir %d: %v", i, err)
		}
		var have []string
		for _, e := range entries {
			have = append(have, e.Name())
		}
		var wantNames []string
		for n := range d.Files {
			wantNames = append(wantNames, n)
		}
		sort.Strings(wantNames)
		sort.Strings(have)
		if w.tolerateStale {
			// drop leftovers that the known finding explains (and nothing else)
			kept := have[:0]
			for _, n := range have {
				if _, isInput := d.Files[n]; !isInput && w.tainted[i][n] {
					w.staleSeen++
					continue
				}
				kept = append(kept, n)
			}
			have = kept
		}
		if strings.Join(have, ",") != strings.Join(wantNames, ",") {
			return fmt.Sprintf("output dir %d holds [%s], inputs are [%s]", i, strings.Join(have, ","), strings.Join(wantNames, ","))
		}
		for _, n := range wantNames {
			delete(w.tainted[i], n) // processed by a successful apply: recorded by the reloader from now on
		}
		for _, n := range wantNames {
			f := d.Files[n]
			want, _ := c47Expand(f.Content, w.env, w.tolerate)
			got, err := os.ReadFile(filepath.Join(d.Out, n))
			if err != nil {
				return fmt.Sprintf("output %d/%s: %v", i, n, err)
			}
			if !bytes.Equal(got, want) {
				return fmt.Sprintf("output %d/%s is %q, want %q (input %q gz=%v link=%v)", i, n, got, want, f.Content, f.Gz, f.Link)
			}
		}
	}
	return ""
}

// sigC47Stale: an apply that fails half-way through a config directory (strict mode, reference to an unset
// variable) has already written outputs for the files it processed but returns before recording them in
// lastCfgDirFiles; when those inputs disappear later their outputs are never removed.
const sigC47Stale = "C47/stale-output-after-failed-apply"

// c47StaleRegression replays the minimal input of the finding; it returns "" when the outputs are clean.
func c47StaleRegression() string {
	root, err := os.MkdirTemp("", "c47r")
	if err != nil {
		return ""
	}
	defer os.RemoveAll(root)
	in, out := filepath.Join(root, "in"), filepath.Join(root, "out")
	_ = os.MkdirAll(in, 0o755)
	_ = os.MkdirAll(out, 0o755)
	os.Unsetenv(c47VarU)
	_ = os.WriteFile(filepath.Join(in, "a.yaml"), []byte("x"), 0o644)
	_ = os.WriteFile(filepath.Join(in, "z.yaml"), []byte("$("+c47VarU+")"), 0o644)
	u, _ := url.Parse("http://c47.invalid:9090")
	frt := &c47RT{}
	r := New(nil, nil, &Options{ReloadURL: ReloadURLFromBase(u), WatchInterval: time.Hour, RetryInterval: time.Millisecond,
		CfgDirs: []CfgDirOption{{Dir: in, OutputDir: out}}, HTTPClient: http.Client{Transport: frt}})
	ctx, cancel := context.WithCancel(context.Background())
	defer cancel()
	frt.arm(nil, true, cancel)
	if err := r.apply(ctx); err == nil {
		return "" // the unset reference did not fail the apply: different behaviour, nothing to replay
	}
	_ = os.Remove(filepath.Join(in, "a.yaml"))
	_ = os.Remove(filepath.Join(in, "z.yaml"))
	frt.arm(nil, true, cancel)
	if err := r.apply(ctx); err != nil {
		return "second apply on an empty directory failed: " + err.Error()
	}
	entries, _ := os.ReadDir(out)
	if len(entries) > 0 {
		return fmt.Sprintf("dir {a.yaml:\"x\", z.yaml:\"$(UNSET)\"}, strict: apply fails; both inputs removed; apply succeeds; output dir still holds %s", entries[0].Name())
	}
	return ""
}

// c47ForgottenOutputRegression: steady state {a,b,c}; b starts to reference an unset variable and
// applies fail; c is removed while they fail; b is repaired; the next successful apply must leave
// exactly {a,b} in the output directory (the record of written outputs must survive a failed apply).
func c47ForgottenOutputRegression() string {
	root, err := os.MkdirTemp("", "c47f")
	if err != nil {
		return ""
	}
	defer os.RemoveAll(root)
	in, out := filepath.Join(root, "in"), filepath.Join(root, "out")
	_ = os.MkdirAll(in, 0o755)
	_ = os.MkdirAll(out, 0o755)
	os.Unsetenv(c47VarU)
	for _, n := range []string{"a.yaml", "b.yaml", "c.yaml"} {
		_ = os.WriteFile(filepath.Join(in, n), []byte("x-"+n), 0o644)
	}
	u, _ := url.Parse("http://c47.invalid:9090")
	frt := &c47RT{}
	r := New(nil, nil, &Options{ReloadURL: ReloadURLFromBase(u), WatchInterval: time.Hour, RetryInterval: time.Millisecond,
		CfgDirs: []CfgDirOption{{Dir: in, OutputDir: out}}, HTTPClient: http.Client{Transport: frt}})
	ctx, cancel := context.WithCancel(context.Background())
	defer cancel()
	frt.arm(nil, true, cancel)
	if err := r.apply(ctx); err != nil {
		return "" // harness: first apply failed, nothing to replay
	}
	_ = os.WriteFile(filepath.Join(in, "b.yaml"), []byte("$("+c47VarU+")"), 0o644)
	frt.arm(nil, true, cancel)
	if err := r.apply(ctx); err == nil {
		return "" // the unset reference did not fail the apply: different behaviour, nothing to replay
	}
	_ = os.Remove(filepath.Join(in, "c.yaml"))
	frt.arm(nil, true, cancel)
	_ = r.apply(ctx) // still failing
	_ = os.WriteFile(filepath.Join(in, "b.yaml"), []byte("repaired"), 0o644)
	frt.arm(nil, true, cancel)
	if err := r.apply(ctx); err != nil {
		return "apply after the repair failed: " + err.Error()
	}
	entries, _ := os.ReadDir(out)
	var have []string
	for _, e := range entries {
		have = append(have, e.Name())
	}
	sort.Strings(have)
	if strings.Join(have, ",") != "a.yaml,b.yaml" {
		return fmt.Sprintf("inputs {a,b,c} applied; b references an unset variable (apply fails); c removed; b repaired; apply succeeds; output dir holds [%s], inputs are [a.yaml,b.yaml]", strings.Join(have, ","))
	}
	return ""
}

func TestVerifC47(t *testing.T) {
	rec := kit.For(t, "C47")
	known := kit.KnownFindings("C47")
	if msg := c47StaleRegression(); msg != "" {
		if known[sigC47Stale] {
			rec.Known(sigC47Stale, msg)
		} else {
			rec.Violation(t, "regression: %s", msg)
		}
	}
	if kit.Scale("c47fixed", 1, 1) != 0 { // VERIF_N_c47fixed=0: measure the generated histories alone
		if msg := c47ForgottenOutputRegression(); msg != "" {
			rec.Violation(t, "regression: %s", msg)
		}
	}
	u, _ := url.Parse("http://c47.invalid:9090")
	names := []string{"a.yaml", "b.yaml", "rules.yml.gz"}
	wnames := []string{"r1.yaml", "sub/r2.yaml", "sub/deep/r3.yaml"}

	rec.Check(t, func(rt *rapid.T) {
		root, err := os.MkdirTemp("", "c47")
		if err != nil {
			rt.Fatalf("harness: %v", err)
		}
		defer os.RemoveAll(root)
		w := &c47World{root: root, side: filepath.Join(root, "side"), wfiles: map[string][]byte{}, tolerateStale: known[sigC47Stale]}
		// environment of this history
		w.env = map[string]string{c47VarA: rapid.SampledFrom([]string{"host-1", "x y", "$(" + c47VarB + ")", "ü"}).Draw(rt, "envA")}
		w.env[c47VarB] = rapid.SampledFrom([]string{"", "b", "1"}).Draw(rt, "envB")
		for _, k := range []string{c47VarA, c47VarB, c47VarU} {
			old, had := os.LookupEnv(k)
			if v, ok := w.env[k]; ok {
				os.Setenv(k, v)
			} else {
				os.Unsetenv(k)
			}
			defer func(k, old string, had bool) {
				if had {
					os.Setenv(k, old)
				} else {
					os.Unsetenv(k)
				}
			}(k, old, had)
		}
		w.tolerate = rapid.Bool().Draw(rt, "tolerate")
		allowUnset := rapid.IntRange(0, 2).Draw(rt, "allowUnset") > 0

		// shape of the reloader
		hasCfg := rapid.IntRange(0, 3).Draw(rt, "hasCfg") > 0
		nDirs := rapid.IntRange(0, 2).Draw(rt, "dirs")
		hasWatched := rapid.Bool().Draw(rt, "watched")
		if !hasCfg && nDirs == 0 && !hasWatched {
			hasCfg = true
		}
		opts := &Options{
			ReloadURL:                     ReloadURLFromBase(u),
			WatchInterval:                 time.Hour, // only consulted as "non-zero" by apply
			RetryInterval:                 time.Millisecond,
			TolerateEnvVarExpansionErrors: w.tolerate,
		}
		var hist []string
		note := func(format string, a ...any) { hist = append(hist, fmt.Sprintf(format, a...)) }
		must := func(err error) {
			if err != nil {
				rt.Fatalf("harness: %v", err)
			}
		}
		newFile := func(allowLink bool) *c47File {
			f := &c47File{Content: c47GenContent(rt, allowUnset)}
			f.Gz = rapid.IntRange(0, 3).Draw(rt, "gz") == 0
			f.Link = allowLink && rapid.IntRange(0, 3).Draw(rt, "link") == 0
			return f
		}
		if hasCfg {
			w.cfgFile = filepath.Join(root, "in", "prometheus.yaml")
			opts.CfgFile = w.cfgFile
			if rapid.IntRange(0, 3).Draw(rt, "hasOut") > 0 {
				w.cfgOut = filepath.Join(root, "out", "prometheus.out.yaml")
				must(os.MkdirAll(filepath.Dir(w.cfgOut), 0o755))
				opts.CfgOutputFile = w.cfgOut
			}
			w.cfg = newFile(false)
			must(w.putFile(filepath.Dir(w.cfgFile), filepath.Base(w.cfgFile), w.cfg, "cfg"))
			note("cfg=%q gz=%v", w.cfg.Content, w.cfg.Gz)
		}
		for i := 0; i < nDirs; i++ {
			d := &c47Dir{In: filepath.Join(root, fmt.Sprintf("dir%d", i)), Out: filepath.Join(root, fmt.Sprintf("dir%d.out", i)), Files: map[string]c47File{}, Subdirs: map[string]bool{}}
			must(os.MkdirAll(d.In, 0o755))
			must(os.MkdirAll(d.Out, 0o755))
			w.dirs = append(w.dirs, d)
			w.tainted = append(w.tainted, map[string]bool{})
			opts.CfgDirs = append(opts.CfgDirs, CfgDirOption{Dir: d.In, OutputDir: d.Out})
		}
		if hasWatched {
			w.watched = filepath.Join(root, "watched")
			must(os.MkdirAll(w.watched, 0o755))
			opts.WatchedDirs = []string{w.watched}
		}
		frt := &c47RT{}
		opts.HTTPClient = http.Client{Transport: frt}
		r := New(nil, nil, opts)

		// model of the reload decision
		lastReloaded, lastLogical, everReloaded, pending := "", "", false, false
		removals, failThenOK, retriedPending, applies, applyErrs := 0, 0, 0, 0, 0
		pendingRemoved := map[string]bool{}

		fail := func(format string, a ...any) {
			rt.Fatalf("C47 violated: %s\ntolerate=%v env=%v history: %s", fmt.Sprintf(format, a...), w.tolerate, w.env, strings.Join(hist, " ; "))
		}

		forceGiveUp := false
		var doApply func(rt *rapid.T)
		doApply = func(rt *rapid.T) {
			nFail := rapid.IntRange(0, 3).Draw(rt, "fails")
			success := rapid.IntRange(0, 3).Draw(rt, "success") > 0
			if forceGiveUp {
				success, forceGiveUp = false, false
			}
			if !success && nFail == 0 {
				nFail = 1
			}
			script := make([]int, nFail)
			for i := range script {
				script[i] = rapid.SampledFrom([]int{500, 503, -1}).Draw(rt, "failKind")
			}
			ctx, cancel := context.WithCancel(context.Background())
			frt.arm(script, success, cancel)
			err := r.apply(ctx)
			cancel()
			applies++
			note("apply(fail=%v,success=%v)->err=%v calls=%d oks=%d", script, success, err != nil, frt.calls, frt.oks)
			if frt.badMethod != "" {
				fail("reload request was %q, want POST .../-/reload", frt.badMethod)
			}
			if err != nil {
				if !w.refersUnset() || w.tolerate {
					fail("apply failed although every input is valid: %v", err)
				}
				// strict mode and a reference to an unset variable: the configuration cannot be applied; the
				// statement promises nothing for it. Follow the observation and go on.
				applyErrs++
				for i, d := range w.dirs {
					for n := range d.Files {
						w.tainted[i][n] = true // may have been written before the apply failed
					}
				}
				if frt.oks > 0 {
					lastReloaded, lastLogical, everReloaded, pending = w.snapshot(), w.logicalSnapshot(), true, false
				}
				return
			}
			if w.refersUnset() && !w.tolerate {
				// apply skipped the offending file or wrote something for it: not covered by the statement
				// either; only follow the observation.
				if frt.oks > 0 {
					lastReloaded, lastLogical, everReloaded, pending = w.snapshot(), w.logicalSnapshot(), true, false
				} else if frt.calls > 0 {
					pending = true
				}
				return
			}
			if msg := w.checkOutputs(); msg != "" {
				fail("%s", msg)
			}
			if len(pendingRemoved) > 0 {
				removals++ // an input disappeared since the last check and its output is verified gone
				clear(pendingRemoved)
			}
			snap, logical := w.snapshot(), w.logicalSnapshot()
			rawChanged := !everReloaded || snap != lastReloaded
			logicalChanged := !everReloaded || logical != lastLogical
			if frt.afterOK > 0 {
				fail("the reload endpoint was called %d more times after it had answered 200", frt.afterOK)
			}
			if rawChanged != logicalChanged && !pending {
				// only the representation changed (plain <-> gzip, same text): "content changed" is ambiguous;
				// accept both behaviours and follow the observation.
				if frt.oks > 0 {
					lastReloaded, lastLogical, everReloaded = snap, logical, true
				} else if frt.calls > 0 {
					pending = true
				}
				return
			}
			want := rawChanged || pending
			if !want {
				if frt.calls != 0 {
					fail("nothing changed since the last successful reload, but the reload endpoint was called %d times", frt.calls)
				}
				return
			}
			if frt.calls == 0 {
				fail("inputs changed since the last successful reload (or a failed reload was pending=%v) but no reload was triggered", pending)
			}
			if success {
				if frt.oks != 1 || frt.calls != nFail+1 {
					fail("script = %d failures then success: want %d calls and one success, got %d calls / %d successes (failed reloads must be retried)", nFail, nFail+1, frt.calls, frt.oks)
				}
				if pending && !rawChanged {
					retriedPending++
				}
				if pending || nFail > 0 {
					failThenOK++
				}
				lastReloaded, lastLogical, everReloaded, pending = snap, logical, true, false
				return
			}
			if frt.oks != 0 || frt.calls < nFail {
				fail("script = %d failures then give up: got %d calls / %d successes", nFail, frt.calls, frt.oks)
			}
			pending = true
		}

		undo := map[string]*c47File{} // dir/name -> content before the last edit (nil: the edit created the file)
		actions := map[string]func(*rapid.T){
			"apply": doApply, "apply2": doApply, "apply3": doApply, // applies are a third of the actions
			// a reload that fails until the context ends, immediately followed by another apply (no change in between)
			"applyGiveUpThenApply": func(rt *rapid.T) {
				forceGiveUp = true
				doApply(rt)
				doApply(rt)
			},
		}
		if hasCfg {
			actions["editCfg"] = func(rt *rapid.T) {
				w.cfg = newFile(false)
				must(w.putFile(filepath.Dir(w.cfgFile), filepath.Base(w.cfgFile), w.cfg, "cfg"))
				note("cfg=%q gz=%v", w.cfg.Content, w.cfg.Gz)
			}
		}
		if nDirs > 0 {
			actions["putDirFile"] = func(rt *rapid.T) {
				i := rapid.IntRange(0, nDirs-1).Draw(rt, "dir")
				n := rapid.SampledFrom(names).Draw(rt, "name")
				d := w.dirs[i]
				if d.Subdirs[n] {
					must(os.RemoveAll(filepath.Join(d.In, n)))
					delete(d.Subdirs, n)
				}
				key := fmt.Sprintf("%d/%s", i, n)
				if old, ok := d.Files[n]; ok {
					undo[key] = &old
				} else {
					undo[key] = nil
				}
				f := newFile(true)
				must(w.putFile(d.In, n, f, fmt.Sprintf("d%d-%s", i, n)))
				d.Files[n] = *f
				delete(pendingRemoved, key)
				note("put %d/%s=%q gz=%v link=%v", i, n, f.Content, f.Gz, f.Link)
			}
			// the operator takes the last edit of a file back (a bad edit is reverted): the file gets
			// exactly its previous content again, or disappears if the edit had created it
			actions["undoDirFile"] = func(rt *rapid.T) {
				var keys []string
				for k := range undo {
					keys = append(keys, k)
				}
				if len(keys) == 0 {
					rt.Skip("nothing to undo")
				}
				sort.Strings(keys)
				key := rapid.SampledFrom(keys).Draw(rt, "undoKey")
				var i int
				var n string
				_, _ = fmt.Sscanf(key, "%d/", &i)
				n = key[strings.Index(key, "/")+1:]
				d := w.dirs[i]
				old := undo[key]
				delete(undo, key)
				if d.Subdirs[n] {
					rt.Skip("the name is a directory now")
				}
				if old == nil {
					if _, ok := d.Files[n]; !ok {
						rt.Skip("already gone")
					}
					must(os.Remove(filepath.Join(d.In, n)))
					delete(d.Files, n)
					pendingRemoved[key] = true
					note("undo %s (removed again)", key)
					return
				}
				f := *old
				must(w.putFile(d.In, n, &f, fmt.Sprintf("d%d-%s", i, n)))
				d.Files[n] = f
				delete(pendingRemoved, key)
				note("undo %s=%q gz=%v link=%v", key, f.Content, f.Gz, f.Link)
			}
			if nDirs >= 2 {
				// An edit in an earlier directory arrives together with a bad edit (strict mode: a reference
				// to an unset variable) in a later one, so that apply fails after the earlier directory was
				// processed; then the bad edit is taken back. The edit of the earlier directory is still
				// "content changed since the last successful reload".
				actions["editEarlierBreakLaterThenRevert"] = func(rt *rapid.T) {
					if w.tolerate {
						rt.Skip("needs strict mode")
					}
					d0, d1 := w.dirs[0], w.dirs[1]
					n0, n1 := names[0], names[1]
					if d0.Subdirs[n0] || d1.Subdirs[n1] {
						rt.Skip("the name is a directory now")
					}
					put := func(i int, d *c47Dir, n string, content string) {
						f := &c47File{Content: []byte(content)}
						must(w.putFile(d.In, n, f, fmt.Sprintf("d%d-%s", i, n)))
						d.Files[n] = *f
						delete(pendingRemoved, fmt.Sprintf("%d/%s", i, n))
						delete(undo, fmt.Sprintf("%d/%s", i, n))
						note("put %d/%s=%q", i, n, content)
					}
					put(1, d1, n1, "ok: 1\n")
					doApply(rt)
					put(0, d0, n0, fmt.Sprintf("edit: %d\n", applies))
					put(1, d1, n1, "bad: $("+c47VarU+")\n")
					doApply(rt)
					put(1, d1, n1, "ok: 1\n")
					doApply(rt)
				}
			}
			actions["removeDirFile"] = func(rt *rapid.T) {
				i := rapid.IntRange(0, nDirs-1).Draw(rt, "dir")
				d := w.dirs[i]
				if len(d.Files) == 0 {
					rt.Skip("no file to remove")
				}
				var have []string
				for n := range d.Files {
					have = append(have, n)
				}
				sort.Strings(have)
				n := rapid.SampledFrom(have).Draw(rt, "name")
				must(os.Remove(filepath.Join(d.In, n)))
				delete(d.Files, n)
				pendingRemoved[fmt.Sprintf("%d/%s", i, n)] = true
				if rapid.IntRange(0, 3).Draw(rt, "asDir") == 0 {
					// the name comes back as a sub-directory (ignored by the reloader)
					must(c47Write(filepath.Join(d.In, n, "inner.yaml"), []byte("x")))
					d.Subdirs[n] = true
					note("rm %d/%s (now a directory)", i, n)
				} else {
					note("rm %d/%s", i, n)
				}
			}
			actions["subdir"] = func(rt *rapid.T) {
				i := rapid.IntRange(0, nDirs-1).Draw(rt, "dir")
				d := w.dirs[i]
				if d.Subdirs["nested"] {
					must(os.RemoveAll(filepath.Join(d.In, "nested")))
					delete(d.Subdirs, "nested")
					note("rmdir %d/nested", i)
				} else {
					must(c47Write(filepath.Join(d.In, "nested", "x.yaml"), c47GenContent(rt, false)))
					d.Subdirs["nested"] = true
					note("mkdir %d/nested", i)
				}
			}
		}
		if hasWatched {
			actions["putWatched"] = func(rt *rapid.T) {
				n := rapid.SampledFrom(wnames).Draw(rt, "wname")
				b := c47GenContent(rt, true)
				must(c47Write(filepath.Join(w.watched, n), b))
				w.wfiles[n] = b
				note("watched %s=%q", n, b)
			}
			actions["removeWatched"] = func(rt *rapid.T) {
				if len(w.wfiles) == 0 {
					rt.Skip("no watched file")
				}
				var have []string
				for n := range w.wfiles {
					have = append(have, n)
				}
				sort.Strings(have)
				n := rapid.SampledFrom(have).Draw(rt, "wname")
				must(os.Remove(filepath.Join(w.watched, n)))
				delete(w.wfiles, n)
				note("rm watched %s", n)
			}
		}
		rt.Repeat(actions)
		// quiescent end: the files have stopped changing; one apply with a succeeding endpoint must bring
		// everything up to date, and a further apply must be a no-op.
		for i := 0; i < 2; i++ {
			ctx, cancel := context.WithCancel(context.Background())
			frt.arm(nil, true, cancel)
			err := r.apply(ctx)
			cancel()
			note("final apply %d -> err=%v calls=%d", i, err != nil, frt.calls)
			if w.refersUnset() && !w.tolerate {
				break
			}
			if err != nil {
				fail("final apply failed although every input is valid: %v", err)
			}
			if msg := w.checkOutputs(); msg != "" {
				fail("after the files stopped changing: %s", msg)
			}
			if i == 1 && frt.calls != 0 {
				fail("second apply after the files stopped changing (and a successful reload) contacted the reload endpoint %d times", frt.calls)
			}
		}
		var classes []string
		add := func(b bool, c string) {
			if b {
				classes = append(classes, c)
			}
		}
		add(removals > 0, "removal-verified")
		add(failThenOK > 0, "failed-reload-then-success")
		add(retriedPending > 0, "pending-reload-retried-without-change")
		add(applyErrs > 0, "apply-error-unset-var")
		add(w.tolerate, "tolerate-unset")
		add(hasCfg, "cfg-file")
		add(w.cfgOut != "", "cfg-output")
		add(nDirs > 0, "cfg-dirs")
		add(hasWatched, "watched-dir")
		add(applies == 0, "no-apply-in-history")
		for i := 0; i < w.staleSeen; i++ {
			rec.Excluded(sigC47Stale)
		}
		rec.Case(strings.Join(hist, ";"), removals > 0 || failThenOK > 0, classes...)
	})
}
