package reloader

// C47 (an edit that lands while an apply is in flight)
//
// The only point inside Reloader.apply at which the harness can act deterministically is a log call:
// in tolerant mode normalize() logs "expand environment variable" for every reference to an unset
// variable, after it has read the input and before it writes the output. The logger handed to New
// rewrites the main config file at the first such call of the first apply (a stand-in for a writer
// that is concurrent with the apply). Afterwards the schedule is sequential again.
//
// Oracle (statement: outputs equal the inputs with variables substituted; a reload is triggered exactly
// when the content changed since the last successful reload): after the edit no further change is made;
// within the next two applies the output must equal the substituted FINAL input, and a reload must have
// been requested at a moment when the output already held it - otherwise the process reloaded never
// sees the final content. A third apply (nothing changed) must not reload.

import (
	"bytes"
	"context"
	"fmt"
	"net/http"
	"net/url"
	"os"
	"path/filepath"
	"strings"
	"sync"
	"testing"
	"time"

	"pgregory.net/rapid"

	"github.com/thanos-io/thanos/verifx/kit"
)

type c47HookLogger struct {
	mu    sync.Mutex
	armed bool
	fired bool
	act   func()
}

func (l *c47HookLogger) Log(keyvals ...interface{}) error {
	l.mu.Lock()
	defer l.mu.Unlock()
	if !l.armed || l.fired {
		return nil
	}
	for _, kv := range keyvals {
		if s, ok := kv.(string); ok && s == "expand environment variable" {
			l.fired = true
			l.act()
			break
		}
	}
	return nil
}

// c47SnapRT records, for every successful reload request, what the output file held at that moment.
type c47SnapRT struct {
	out   string
	snaps [][]byte
}

func (rt *c47SnapRT) RoundTrip(req *http.Request) (*http.Response, error) {
	b, _ := os.ReadFile(rt.out)
	rt.snaps = append(rt.snaps, b)
	return &http.Response{StatusCode: 200, Status: "200 OK", Body: http.NoBody, Header: http.Header{}, Request: req}, nil
}

func TestVerifC47_EditDuringApply(t *testing.T) {
	rec := kit.For(t, "C47")
	u, _ := url.Parse("http://c47.invalid:9090")
	old, had := os.LookupEnv(c47VarA)
	os.Setenv(c47VarA, "host-1")
	os.Unsetenv(c47VarU)
	defer func() {
		if had {
			os.Setenv(c47VarA, old)
		} else {
			os.Unsetenv(c47VarA)
		}
	}()
	env := map[string]string{c47VarA: "host-1"}
	n := kit.Scale("C47EDIT", 40, 400)
	gen := rapid.Custom(func(rt *rapid.T) [3]string {
		// both versions refer to the unset variable (so that the log point exists) and differ after substitution
		a := string(c47GenContent(rt, true)) + "u: $(" + c47VarU + ")\n"
		b := string(c47GenContent(rt, true)) + "v: $(" + c47VarU + ")\n"
		gz := "plain"
		if rapid.IntRange(0, 3).Draw(rt, "gz") == 0 {
			gz = "gz"
		}
		return [3]string{a, b, gz}
	})
	for i := 0; i < n; i++ {
		c := gen.Example(int(kit.Seed())*100043 + i)
		a, b, gz := []byte(c[0]), []byte(c[1]), c[2] == "gz"
		wantB, _ := c47Expand(b, env, true)
		func() {
			root, err := os.MkdirTemp("", "c47e")
			if err != nil {
				t.Fatalf("harness: %v", err)
			}
			defer os.RemoveAll(root)
			in := filepath.Join(root, "prometheus.yaml")
			if gz {
				in += ".gz"
			}
			out := filepath.Join(root, "prometheus.out.yaml")
			raw := func(x []byte) []byte {
				if gz {
					return c47Gzip(x)
				}
				return x
			}
			if err := c47Write(in, raw(a)); err != nil {
				t.Fatalf("harness: %v", err)
			}
			lg := &c47HookLogger{act: func() { _ = c47Write(in, raw(b)) }}
			frt := &c47SnapRT{out: out}
			r := New(lg, nil, &Options{ReloadURL: ReloadURLFromBase(u), CfgFile: in, CfgOutputFile: out, WatchInterval: time.Hour,
				RetryInterval: time.Millisecond, TolerateEnvVarExpansionErrors: true, HTTPClient: http.Client{Transport: frt}})
			lg.armed = true
			desc := fmt.Sprintf("A=%q B=%q gz=%v", a, b, gz)
			if err := r.apply(context.Background()); err != nil {
				rec.Violation(t, "apply failed on valid input (tolerant mode): %v | %s", err, desc)
				return
			}
			if !lg.fired {
				t.Fatalf("harness: the log point inside normalize was not reached | %s", desc)
			}
			for k := 0; k < 2; k++ {
				if err := r.apply(context.Background()); err != nil {
					rec.Violation(t, "apply failed on valid input (tolerant mode): %v | %s", err, desc)
					return
				}
			}
			got, _ := os.ReadFile(out)
			if !bytes.Equal(got, wantB) {
				rec.Violation(t, "the input was rewritten while an apply was in flight; two applies later the output is %q, the substituted input is %q | %s", got, wantB, desc)
				return
			}
			reloadedFinal := false
			for _, s := range frt.snaps {
				reloadedFinal = reloadedFinal || bytes.Equal(s, wantB)
			}
			if !reloadedFinal {
				var seen []string
				for _, s := range frt.snaps {
					seen = append(seen, fmt.Sprintf("%q", s))
				}
				rec.Violation(t, "the input was rewritten while an apply was in flight; the output now holds the final content but no reload was requested while it did (%d reload request(s), output at those moments: %s) | %s",
					len(frt.snaps), strings.Join(seen, ", "), desc)
				return
			}
			before := len(frt.snaps)
			if err := r.apply(context.Background()); err != nil {
				rec.Violation(t, "apply failed on valid input (tolerant mode): %v | %s", err, desc)
				return
			}
			if len(frt.snaps) != before {
				rec.Violation(t, "nothing changed since the last successful reload but the reload endpoint was called again | %s", desc)
				return
			}
			wantA, _ := c47Expand(a, env, true)
			cls := []string{"edit-during-apply"}
			if gz {
				cls = append(cls, "gzip-input")
			}
			rec.Case("edit-during-apply "+desc, !bytes.Equal(wantA, wantB), cls...)
		}()
	}
}
