package xstorecache

// C14 Caching bucket is transparent for immutable objects.
//
// Domain: an in-memory bucket holding 1..6 immutable objects (block-like names, sizes built as
// n*subrange+k so that exact multiples, short last subranges and empty objects all occur), a
// CachingBucket on top of it with a generated configuration (subrange size 1..4096, MaxSubRequests
// 0..4, the five operation caches, each usually enabled, Get's MaxCacheableSize small or large) and
// ONE lossy cache behind all operations: Store drops entries and Fetch forgets (transiently or for
// good) entries as decided by bits drawn per step. A history of 1..40 reads: GetRange (offset
// inside the object, length possibly overrunning it, biased to subrange boundaries, streams read
// with a generated buffer size), Get (read completely or abandoned half-way), Exists, Attributes,
// Iter (root / block dir / leaf dir, recursive or not), on present and on absent names.
//
// Oracle: the model is the underlying bucket itself plus the known object contents: after every step
// the caching bucket returned the same bytes / bool / attributes / listing, failed iff the bucket
// fails and classified the failure as not-found iff the bucket does.
//
// Excluded (callers know object sizes; the code passes these through unchanged): offsets at or
// beyond the object size, length <= 0.

import (
	"context"
	"fmt"
	"hash/fnv"
	"io"
	"sort"
	"strings"
	"sync"
	"testing"
	"time"

	"github.com/go-kit/log"
	"github.com/thanos-io/objstore"
	"pgregory.net/rapid"

	"github.com/thanos-io/thanos/pkg/cache"
	storecache "github.com/thanos-io/thanos/pkg/store/cache"
	"github.com/thanos-io/thanos/verifx/kit"
)

// ---------------------------------------------------------------------------------------------
// lossy cache

type lossyCache struct {
	mu   sync.Mutex
	data map[string][]byte

	// loss parameters of the current step (set by the harness between operations, never during one)
	seed      uint64
	storeLoss uint64 // of 4: how many quarters of the stored keys are dropped
	fetchLoss uint64 // of 4: how many quarters of the fetched keys are forgotten

	// observations of the current step
	subFetchKeys, subFetchHits int
	fetchHits                  int
	stores                     int
}

func (c *lossyCache) bits(key, salt string) uint64 {
	h := fnv.New64a()
	var b [8]byte
	for i := range b {
		b[i] = byte(c.seed >> (8 * i))
	}
	_, _ = h.Write(b[:])
	_, _ = h.Write([]byte(salt))
	_, _ = h.Write([]byte(key))
	x := h.Sum64()
	x ^= x >> 29 // fnv's low bits are weak for short inputs
	x *= 0xbf58476d1ce4e5b9
	x ^= x >> 32
	return x
}

func (c *lossyCache) Store(data map[string][]byte, _ time.Duration) {
	c.mu.Lock()
	defer c.mu.Unlock()
	for k, v := range data {
		if c.bits(k, "store")%4 < c.storeLoss {
			continue
		}
		c.stores++
		c.data[k] = v // the interface allows a cache to retain the buffer
	}
}

func (c *lossyCache) Fetch(_ context.Context, keys []string) map[string][]byte {
	c.mu.Lock()
	defer c.mu.Unlock()
	out := map[string][]byte{}
	sub := len(keys) > 0
	for _, k := range keys {
		if !strings.HasPrefix(k, "subrange:") {
			sub = false
		}
	}
	for _, k := range keys {
		v, ok := c.data[k]
		if !ok {
			continue
		}
		x := c.bits(k, "fetch")
		if x%4 < c.fetchLoss {
			if (x>>8)%2 == 0 {
				delete(c.data, k) // evicted for good
			}
			continue // or a transient miss
		}
		out[k] = v
		c.fetchHits++
	}
	if sub {
		c.subFetchKeys += len(keys)
		c.subFetchHits += len(out)
	}
	return out
}

func (c *lossyCache) Name() string { return "lossy" }

func (c *lossyCache) beginStep(seed, storeLoss, fetchLoss uint64) {
	c.mu.Lock()
	defer c.mu.Unlock()
	c.seed, c.storeLoss, c.fetchLoss = seed, storeLoss, fetchLoss
	c.subFetchKeys, c.subFetchHits, c.fetchHits, c.stores = 0, 0, 0, 0
}

// countingBucket counts the calls that reach the underlying bucket.
type countingBucket struct {
	objstore.Bucket
	mu    sync.Mutex
	calls int
}

func (b *countingBucket) inc() { b.mu.Lock(); b.calls++; b.mu.Unlock() }
func (b *countingBucket) take() int {
	b.mu.Lock()
	defer b.mu.Unlock()
	n := b.calls
	b.calls = 0
	return n
}

func (b *countingBucket) Iter(ctx context.Context, dir string, f func(string) error, o ...objstore.IterOption) error {
	b.inc()
	return b.Bucket.Iter(ctx, dir, f, o...)
}
func (b *countingBucket) Get(ctx context.Context, name string) (io.ReadCloser, error) {
	b.inc()
	return b.Bucket.Get(ctx, name)
}
func (b *countingBucket) GetRange(ctx context.Context, name string, off, length int64) (io.ReadCloser, error) {
	b.inc()
	return b.Bucket.GetRange(ctx, name, off, length)
}
func (b *countingBucket) Exists(ctx context.Context, name string) (bool, error) {
	b.inc()
	return b.Bucket.Exists(ctx, name)
}
func (b *countingBucket) Attributes(ctx context.Context, name string) (objstore.ObjectAttributes, error) {
	b.inc()
	return b.Bucket.Attributes(ctx, name)
}

// ---------------------------------------------------------------------------------------------
// scenario

type c14Config struct {
	Sub            int64
	MaxSubRequests int
	MaxCacheable   int
	Enabled        [5]bool // getrange, get, exists, attributes, iter
	Scope          [5]int  // 0 all names, 1 only */chunks/*, 2 only *.json
}

type c14Op struct {
	Kind      string // getrange get exists attrs iter
	Name      string
	Off, Len  int64
	Buf       int  // read buffer size (getrange / get)
	Abandon   bool // get: close after the first read
	Recursive bool
	Seed      uint64
	StoreLoss uint64
	FetchLoss uint64
}

func (o c14Op) String() string {
	loss := fmt.Sprintf("loss=%d/%d#%d", o.StoreLoss, o.FetchLoss, o.Seed%1000)
	switch o.Kind {
	case "getrange":
		return fmt.Sprintf("GetRange(%s,%d,%d buf=%d %s)", o.Name, o.Off, o.Len, o.Buf, loss)
	case "get":
		return fmt.Sprintf("Get(%s buf=%d abandon=%v %s)", o.Name, o.Buf, o.Abandon, loss)
	case "iter":
		return fmt.Sprintf("Iter(%q rec=%v %s)", o.Name, o.Recursive, loss)
	default:
		return fmt.Sprintf("%s(%s %s)", o.Kind, o.Name, loss)
	}
}

func scopeMatcher(scope int) func(string) bool {
	switch scope {
	case 1:
		return func(n string) bool { return strings.Contains(n, "/chunks/") }
	case 2:
		return func(n string) bool { return strings.HasSuffix(n, ".json") }
	default:
		return func(string) bool { return true }
	}
}

// content expands a drawn seed into size bytes that depend on the position (xorshift64*).
func content(seed uint64, size int) []byte {
	x := seed | 1
	out := make([]byte, size)
	for i := range out {
		x ^= x >> 12
		x ^= x << 25
		x ^= x >> 27
		out[i] = byte((x * 2685821657736338717) >> 56)
	}
	return out
}

type c14World struct {
	inner   *objstore.InMemBucket
	counter *countingBucket
	cb      *storecache.CachingBucket
	lc      *lossyCache
	objects map[string][]byte
	names   []string // present objects, sorted
	absent  []string
	dirs    []string
}

func buildWorld(cfg c14Config, objects map[string][]byte) (*c14World, error) {
	w := &c14World{inner: objstore.NewInMemBucket(), objects: objects, lc: &lossyCache{data: map[string][]byte{}}}
	for n := range objects {
		w.names = append(w.names, n)
	}
	sort.Strings(w.names)
	for _, n := range w.names {
		if err := w.inner.Upload(context.Background(), n, strings.NewReader(string(objects[n]))); err != nil {
			return nil, err
		}
	}
	w.counter = &countingBucket{Bucket: w.inner}
	c := cache.NewCachingBucketConfig()
	const ttl = time.Hour
	if cfg.Enabled[0] {
		c.CacheGetRange("getrange", w.lc, scopeMatcher(cfg.Scope[0]), cfg.Sub, ttl, ttl, cfg.MaxSubRequests)
	}
	if cfg.Enabled[1] {
		c.CacheGet("get", w.lc, scopeMatcher(cfg.Scope[1]), cfg.MaxCacheable, ttl, ttl, ttl)
	}
	if cfg.Enabled[2] {
		c.CacheExists("exists", w.lc, scopeMatcher(cfg.Scope[2]), ttl, ttl)
	}
	if cfg.Enabled[3] {
		c.CacheAttributes("attrs", w.lc, scopeMatcher(cfg.Scope[3]), ttl)
	}
	if cfg.Enabled[4] {
		c.CacheIter("iter", w.lc, func(string) bool { return true }, ttl, storecache.JSONIterCodec{}, "cfghash")
	}
	cb, err := storecache.NewCachingBucket(w.counter, c, log.NewNopLogger(), nil)
	if err != nil {
		return nil, err
	}
	w.cb = cb
	return w, nil
}

// readAll drains r with the given buffer size; abandon stops after the first read.
func readAll(r io.Reader, buf int, abandon bool) ([]byte, error) {
	if buf <= 0 {
		return io.ReadAll(r)
	}
	var out []byte
	p := make([]byte, buf)
	for {
		n, err := r.Read(p)
		out = append(out, p[:n]...)
		if err == io.EOF {
			return out, nil
		}
		if err != nil {
			return out, err
		}
		if abandon {
			return out, nil
		}
	}
}

func sameErrClass(w *c14World, errC, errI error) string {
	if (errC != nil) != (errI != nil) {
		return fmt.Sprintf("caching bucket error %v, bucket error %v", errC, errI)
	}
	if errC != nil && w.cb.IsObjNotFoundErr(errC) != w.inner.IsObjNotFoundErr(errI) {
		return fmt.Sprintf("not-found classification differs: caching bucket %v (%v), bucket %v (%v)", w.cb.IsObjNotFoundErr(errC), errC, w.inner.IsObjNotFoundErr(errI), errI)
	}
	return ""
}

// step executes one operation on both sides; returns a violation text (or "") and class names.
func (w *c14World) step(op c14Op) (string, []string) {
	ctx := context.Background()
	w.lc.beginStep(op.Seed, op.StoreLoss, op.FetchLoss)
	w.counter.take()
	var classes []string
	data, present := w.objects[op.Name]
	switch op.Kind {
	case "getrange":
		rc, errC := w.cb.GetRange(ctx, op.Name, op.Off, op.Len)
		ri, errI := w.inner.GetRange(ctx, op.Name, op.Off, op.Len)
		if msg := sameErrClass(w, errC, errI); msg != "" {
			return msg, nil
		}
		if errC != nil {
			return "", []string{"getrange-notfound"}
		}
		got, rerr := readAll(rc, op.Buf, false)
		_ = rc.Close()
		want, _ := io.ReadAll(ri)
		_ = ri.Close()
		if rerr != nil {
			return fmt.Sprintf("reading the returned range failed: %v", rerr), nil
		}
		end := op.Off + op.Len
		if end > int64(len(data)) {
			end = int64(len(data))
			classes = append(classes, "getrange-overrun")
		}
		if string(want) != string(data[op.Off:end]) {
			return "harness: the in-memory bucket disagrees with the uploaded content", nil
		}
		if string(got) != string(want) {
			return fmt.Sprintf("bytes differ: got %d bytes %s, want %d bytes %s", len(got), firstDiff(got, want), len(want), ""), nil
		}
		w.lc.mu.Lock()
		k, h := w.lc.subFetchKeys, w.lc.subFetchHits
		w.lc.mu.Unlock()
		switch {
		case k == 0:
			classes = append(classes, "getrange-uncached")
		case h == 0:
			classes = append(classes, "getrange-all-miss")
		case h == k:
			classes = append(classes, "getrange-all-hit")
		default:
			classes = append(classes, "getrange-partial-hit")
		}
		if k >= 3 {
			classes = append(classes, "getrange-3+subranges")
		}
	case "get":
		rc, errC := w.cb.Get(ctx, op.Name)
		_, errI := w.inner.Get(ctx, op.Name)
		if msg := sameErrClass(w, errC, errI); msg != "" {
			return msg, nil
		}
		if errC != nil {
			return "", []string{"get-notfound"}
		}
		got, rerr := readAll(rc, op.Buf, op.Abandon)
		_ = rc.Close()
		if rerr != nil {
			return fmt.Sprintf("reading the returned object failed: %v", rerr), nil
		}
		want := data
		if op.Abandon && op.Buf > 0 {
			if len(got) > len(want) || string(got) != string(want[:len(got)]) {
				return fmt.Sprintf("abandoned Get returned bytes that are no prefix of the object: %s", firstDiff(got, want)), nil
			}
			classes = append(classes, "get-abandoned")
		} else if string(got) != string(want) {
			return fmt.Sprintf("bytes differ: got %d bytes, want %d bytes, %s", len(got), len(want), firstDiff(got, want)), nil
		}
		if w.counter.take() == 0 {
			classes = append(classes, "get-from-cache")
		}
	case "exists":
		okC, errC := w.cb.Exists(ctx, op.Name)
		okI, errI := w.inner.Exists(ctx, op.Name)
		if msg := sameErrClass(w, errC, errI); msg != "" {
			return msg, nil
		}
		if okC != okI {
			return fmt.Sprintf("Exists = %v, bucket says %v", okC, okI), nil
		}
		if w.counter.take() == 0 {
			classes = append(classes, "exists-from-cache")
		}
	case "attrs":
		aC, errC := w.cb.Attributes(ctx, op.Name)
		aI, errI := w.inner.Attributes(ctx, op.Name)
		if msg := sameErrClass(w, errC, errI); msg != "" {
			return msg, nil
		}
		if errC == nil && (aC.Size != aI.Size || !aC.LastModified.Equal(aI.LastModified)) {
			return fmt.Sprintf("Attributes = %+v, bucket says %+v", aC, aI), nil
		}
		if errC == nil && w.counter.take() == 0 {
			classes = append(classes, "attrs-from-cache")
		}
	case "iter":
		var opts []objstore.IterOption
		if op.Recursive {
			opts = append(opts, objstore.WithRecursiveIter())
		}
		var lC, lI []string
		errC := w.cb.Iter(ctx, op.Name, func(n string) error { lC = append(lC, n); return nil }, opts...)
		errI := w.inner.Iter(ctx, op.Name, func(n string) error { lI = append(lI, n); return nil }, opts...)
		if msg := sameErrClass(w, errC, errI); msg != "" {
			return msg, nil
		}
		if strings.Join(lC, "\x00") != strings.Join(lI, "\x00") || len(lC) != len(lI) {
			return fmt.Sprintf("Iter listed %q, bucket lists %q", lC, lI), nil
		}
		if w.counter.take() == 0 {
			classes = append(classes, "iter-from-cache")
		}
	}
	if !present && op.Kind != "iter" {
		classes = append(classes, "absent-name")
	}
	return "", classes
}

func firstDiff(got, want []byte) string {
	n := len(got)
	if len(want) < n {
		n = len(want)
	}
	for i := 0; i < n; i++ {
		if got[i] != want[i] {
			return fmt.Sprintf("first difference at byte %d (got %#x want %#x)", i, got[i], want[i])
		}
	}
	return fmt.Sprintf("common prefix of %d bytes, lengths %d vs %d", n, len(got), len(want))
}

// ---------------------------------------------------------------------------------------------
// generators

var c14Blocks = []string{"01ARZ3NDEKTSV4RRFFQ69G5FAV", "01BX5ZZKBKACTAV9WEVGEMMVS0"}
var c14Files = []string{"chunks/000001", "chunks/000002", "chunks/000003", "index", "meta.json", "deletion-mark.json"}

func genConfig(rt *rapid.T) c14Config {
	var cfg c14Config
	switch rapid.IntRange(0, 3).Draw(rt, "subKind") {
	case 0:
		cfg.Sub = int64(rapid.IntRange(1, 4).Draw(rt, "sub"))
	case 1:
		cfg.Sub = int64(rapid.IntRange(5, 64).Draw(rt, "sub"))
	case 2:
		cfg.Sub = int64(rapid.SampledFrom([]int{16, 100, 512, 1000, 1024, 4096}).Draw(rt, "sub"))
	default:
		cfg.Sub = int64(rapid.IntRange(1, 4096).Draw(rt, "sub"))
	}
	cfg.MaxSubRequests = rapid.IntRange(0, 4).Draw(rt, "maxSub")
	cfg.MaxCacheable = rapid.SampledFrom([]int{0, 7, 100, 1 << 20, 1 << 20}).Draw(rt, "maxCacheable")
	for i := range cfg.Enabled {
		cfg.Enabled[i] = rapid.IntRange(0, 7).Draw(rt, fmt.Sprintf("enabled%d", i)) > 0
		if rapid.IntRange(0, 5).Draw(rt, fmt.Sprintf("scoped%d", i)) == 0 {
			cfg.Scope[i] = rapid.IntRange(1, 2).Draw(rt, fmt.Sprintf("scope%d", i))
		}
	}
	return cfg
}

func genObjects(rt *rapid.T, sub int64) map[string][]byte {
	n := rapid.IntRange(1, 6).Draw(rt, "objects")
	// the first block is populated first so that several objects share a directory
	objs := map[string][]byte{}
	perm := rapid.Permutation(c14Files).Draw(rt, "files")
	for i := 0; i < n; i++ {
		name := c14Blocks[0] + "/" + perm[i]
		if rapid.IntRange(0, 4).Draw(rt, "otherBlock") == 0 {
			name = c14Blocks[1] + "/" + perm[i]
		}
		var size int
		switch rapid.IntRange(0, 5).Draw(rt, "sizeKind") {
		case 0:
			size = rapid.IntRange(0, 3).Draw(rt, "size")
		case 1: // exact multiple of the subrange size
			size = rapid.IntRange(1, 5).Draw(rt, "mult") * int(sub)
		default:
			size = rapid.IntRange(0, 5).Draw(rt, "mult")*int(sub) + rapid.IntRange(0, int(sub)-1+3).Draw(rt, "rem")
		}
		objs[name] = content(rapid.Uint64().Draw(rt, "contentSeed"), size)
	}
	return objs
}

func genOp(rt *rapid.T, w *c14World, cfg c14Config) c14Op {
	op := c14Op{
		Kind:      rapid.SampledFrom([]string{"getrange", "getrange", "getrange", "getrange", "get", "get", "exists", "attrs", "iter"}).Draw(rt, "kind"),
		Seed:      rapid.Uint64().Draw(rt, "lossSeed"),
		StoreLoss: uint64(rapid.SampledFrom([]int{0, 0, 0, 1, 2, 4}).Draw(rt, "storeLoss")),
		FetchLoss: uint64(rapid.SampledFrom([]int{0, 0, 0, 1, 2, 4}).Draw(rt, "fetchLoss")),
	}
	pickName := func(allowAbsent bool) string {
		if allowAbsent && rapid.IntRange(0, 5).Draw(rt, "absent") == 0 {
			return rapid.SampledFrom(w.absent).Draw(rt, "absentName")
		}
		return rapid.SampledFrom(w.names).Draw(rt, "name")
	}
	switch op.Kind {
	case "getrange":
		op.Name = pickName(true)
		size := int64(len(w.objects[op.Name]))
		if _, ok := w.objects[op.Name]; ok && size == 0 {
			// no valid offset exists in an empty object: read something else about it
			op.Kind = "attrs"
			return op
		}
		if size == 0 { // absent name: any plausible range
			size = 3 * cfg.Sub
		}
		// offsets and ends biased to subrange boundaries
		pos := func(label string, lo, hi int64) int64 {
			if rapid.Bool().Draw(rt, label+"Aligned") {
				k := rapid.Int64Range(0, hi/cfg.Sub+1).Draw(rt, label+"K")
				p := k*cfg.Sub + int64(rapid.IntRange(-1, 1).Draw(rt, label+"D"))
				if p >= lo && p <= hi {
					return p
				}
			}
			return rapid.Int64Range(lo, hi).Draw(rt, label)
		}
		op.Off = pos("off", 0, size-1)
		end := pos("end", op.Off+1, size)
		op.Len = end - op.Off
		switch rapid.IntRange(0, 7).Draw(rt, "lenKind") {
		case 0: // overrun the object
			op.Len = size - op.Off + int64(rapid.IntRange(1, 3*int(cfg.Sub)).Draw(rt, "overrun"))
		case 1: // to the very end
			op.Len = size - op.Off
		}
		op.Buf = rapid.SampledFrom([]int{0, 0, 1, 2, 3, 7, 64}).Draw(rt, "buf")
	case "get":
		op.Name = pickName(true)
		op.Buf = rapid.SampledFrom([]int{0, 0, 1, 5, 64, 4096}).Draw(rt, "buf")
		op.Abandon = op.Buf > 0 && rapid.IntRange(0, 3).Draw(rt, "abandon") == 0
	case "exists", "attrs":
		op.Name = pickName(true)
	case "iter":
		op.Name = rapid.SampledFrom(w.dirs).Draw(rt, "dir")
		op.Recursive = rapid.Bool().Draw(rt, "recursive")
	}
	return op
}

// ---------------------------------------------------------------------------------------------

func TestVerifC14(t *testing.T) {
	rec := kit.For(t, "C14")
	rec.Check(t, func(rt *rapid.T) {
		cfg := genConfig(rt)
		objects := genObjects(rt, cfg.Sub)
		w, err := buildWorld(cfg, objects)
		if err != nil {
			rt.Fatalf("setup: %v", err)
		}
		for _, b := range c14Blocks {
			for _, f := range c14Files {
				if _, ok := objects[b+"/"+f]; !ok {
					w.absent = append(w.absent, b+"/"+f)
				}
			}
		}
		w.absent = append(w.absent, "01CZZZZZZZZZZZZZZZZZZZZZZZ/meta.json")
		w.dirs = []string{"", c14Blocks[0] + "/", c14Blocks[1] + "/", c14Blocks[0] + "/chunks/", "01CZZZZZZZZZZZZZZZZZZZZZZZ/"}

		nOps := rapid.IntRange(1, 40).Draw(rt, "ops")
		var hist []string
		classes := map[string]int{}
		for i := 0; i < nOps; i++ {
			op := genOp(rt, w, cfg)
			hist = append(hist, op.String())
			msg, cl := w.step(op)
			if msg != "" {
				rt.Fatalf("C14 violated at step %d %s: %s\nconfig %+v\nobjects %s\nhistory %s", i, op, msg, cfg, renderObjects(objects), strings.Join(hist, " ; "))
			}
			for _, c := range cl {
				classes[c]++
			}
		}
		var cl []string
		for c := range classes {
			cl = append(cl, c)
		}
		sort.Strings(cl)
		cl = append(cl, fmt.Sprintf("maxSubRequests-%d", cfg.MaxSubRequests))
		// non-trivial: at least one range read was served partly from the cache and partly from the bucket
		nt := classes["getrange-partial-hit"] > 0
		rec.Case(fmt.Sprintf("cfg=%+v objs=%s ops=%s", cfg, renderObjects(objects), strings.Join(hist, ";")), nt, cl...)
	})
}

func renderObjects(objects map[string][]byte) string {
	var names []string
	for n := range objects {
		names = append(names, n)
	}
	sort.Strings(names)
	var parts []string
	for _, n := range names {
		parts = append(parts, fmt.Sprintf("%s[%d]", n[20:], len(objects[n])))
	}
	return strings.Join(parts, ",")
}
