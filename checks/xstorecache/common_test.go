package xstorecache

// Shared helpers of the xstorecache group (C13 cache keys, C14 caching bucket).

import (
	"strings"
	"unicode/utf8"

	"github.com/oklog/ulid/v2"
	"pgregory.net/rapid"
)

// sepAlphabet is the separator-heavy UTF-8 alphabet of DESIGN §3 "UTF-8 mode": every rune is valid
// in a label name or value under Prometheus UTF-8 validation and none of them can make a regular
// expression fail to compile (so the same strings are usable as regex matcher values).
var sepAlphabet = []string{"a", "b", "c", "x", "_", "0", "1", ":", ";", "=", "!", "~", "\"", ",", ".", "|", " ", "é", "=~", "!~", "!="}

// genSepString draws a valid UTF-8 string of minLen..maxLen alphabet tokens.
func genSepString(rt *rapid.T, label string, minLen, maxLen int) string {
	toks := rapid.SliceOfN(rapid.SampledFrom(sepAlphabet), minLen, maxLen).Draw(rt, label)
	return strings.Join(toks, "")
}

// genULID draws a block id; real callers always key by ulid.ULID.String() (26 Crockford characters,
// never containing ':').
func genULID(rt *rapid.T, label string) ulid.ULID {
	var id ulid.ULID
	b := rapid.SliceOfN(rapid.Byte(), 16, 16).Draw(rt, label)
	copy(id[:], b)
	id[0] &= 0x7f // keep the textual form within the 26-character range of a valid ULID
	return id
}

// runeCuts returns all byte offsets at which s may be cut without splitting a rune (0 and len(s) included).
func runeCuts(s string) []int {
	cuts := []int{0}
	for i := 0; i < len(s); {
		_, n := utf8.DecodeRuneInString(s[i:])
		i += n
		cuts = append(cuts, i)
	}
	return cuts
}

// genOtherBlock draws a block id different from id: either unrelated or differing in a single byte.
func genOtherBlock(rt *rapid.T, id ulid.ULID) ulid.ULID {
	if rapid.Bool().Draw(rt, "unrelatedBlock") {
		o := genULID(rt, "block2")
		if o != id {
			return o
		}
	}
	o := id
	i := rapid.IntRange(0, 15).Draw(rt, "byte")
	o[i] ^= byte(1 << rapid.IntRange(0, 6).Draw(rt, "bit"))
	return o
}
