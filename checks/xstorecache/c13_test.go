package xstorecache

// C13 Cache keys never conflate different cached items.
//
// Domain: pairs (and small sets) of *distinct* cached items of the three index-cache families
// (postings = block+label, expanded postings = block+matcher set, series = block+ref), of matcher
// conversions for the matchers cache, with names/values from a separator-heavy UTF-8 alphabet.
// Pairs are built constructively ("same concatenation of fields, different split", separator
// shifted from one field into the neighbour, value embedding a rendered neighbour) and randomly.
// Block ids are ULIDs and the compression scheme is "" or "dss", as for every real caller.
//
// Oracle (independent of the code under test: equality of the items themselves):
//   TestVerifC13               distinct items => CacheKey.String() differs (within and across
//                              families); distinct matcher sets => LabelMatchersToString differs.
//   TestVerifC13_MatchersCache every MatchersToPromMatchersCached(cache, m) answer carries m's own
//                              name, type and value, whatever was converted before.
//   TestVerifC13_IndexCache    after storing distinct items with distinct payloads in a
//                              RemoteIndexCache (lossless map client) and in an InMemoryIndexCache,
//                              every hit returns the payload stored for that very item.

import (
	"context"
	"fmt"
	"sort"
	"strconv"
	"strings"
	"sync"
	"testing"
	"time"

	"github.com/go-kit/log"
	"github.com/oklog/ulid/v2"
	"github.com/prometheus/prometheus/model/labels"
	"github.com/prometheus/prometheus/storage"
	"github.com/thanos-io/thanos/pkg/model"
	"pgregory.net/rapid"

	storecache "github.com/thanos-io/thanos/pkg/store/cache"
	"github.com/thanos-io/thanos/pkg/store/storepb"
	"github.com/thanos-io/thanos/verifx/kit"
)

const (
	// root cause: CacheKey.String hashes name+":"+value (pkg/store/cache/cache.go)
	sigC13Postings = "C13/postings-key-name-value-split"
	// root cause: cacheKey concatenates name+type+value (pkg/store/cache/matchers_cache.go)
	sigC13Matchers = "C13/matchers-cache-key-concat"
)

// ---------------------------------------------------------------------------------------------
// item model

type c13Matcher struct {
	Name  string
	Type  labels.MatchType
	Value string
}

func (m c13Matcher) concat() string { return m.Name + m.Type.String() + m.Value }

type c13Item struct {
	fam   string // "P", "EP", "S"
	block ulid.ULID
	comp  string
	name  string       // P
	value string       // P
	ms    []c13Matcher // EP
	ref   uint64       // S
}

// canonical identity of an item (what "the same cached item" means): family, block, compression
// and the label pair / the *set* of matchers / the series ref.
func (it c13Item) identity() string {
	var sb strings.Builder
	fmt.Fprintf(&sb, "%s|%s|%q|", it.fam, it.block.String(), it.comp)
	switch it.fam {
	case "P":
		fmt.Fprintf(&sb, "%q=%q", it.name, it.value)
	case "EP":
		set := map[string]struct{}{}
		for _, m := range it.ms {
			set[fmt.Sprintf("%q %d %q", m.Name, int(m.Type), m.Value)] = struct{}{}
		}
		keys := make([]string, 0, len(set))
		for k := range set {
			keys = append(keys, k)
		}
		sort.Strings(keys)
		sb.WriteString(strings.Join(keys, " & "))
	case "S":
		fmt.Fprintf(&sb, "%d", it.ref)
	}
	return sb.String()
}

func (it c13Item) render() string {
	b := it.block.String()[20:]
	switch it.fam {
	case "P":
		return fmt.Sprintf("P(%s,%q,%q,%s)", b, it.name, it.value, it.comp)
	case "EP":
		var parts []string
		for _, m := range it.ms {
			parts = append(parts, fmt.Sprintf("%q%s%q", m.Name, m.Type, m.Value))
		}
		return fmt.Sprintf("EP(%s,[%s],%s)", b, strings.Join(parts, " "), it.comp)
	default:
		return fmt.Sprintf("S(%s,%d)", b, it.ref)
	}
}

// naive is the un-quoted, separator-joined rendering of all fields of an item: two distinct items
// with the same naive rendering are the non-trivial cases (a key format that merely concatenates
// would conflate them).
func (it c13Item) naive() string {
	switch it.fam {
	case "P":
		return it.name + it.value
	case "EP":
		var parts []string
		for _, m := range it.ms {
			parts = append(parts, m.concat())
		}
		return strings.Join(parts, ";")
	default:
		return fmt.Sprint(it.ref)
	}
}

func promMatchers(ms []c13Matcher) ([]*labels.Matcher, error) {
	out := make([]*labels.Matcher, 0, len(ms))
	for _, m := range ms {
		pm, err := labels.NewMatcher(m.Type, m.Name, m.Value)
		if err != nil {
			return nil, err
		}
		out = append(out, pm)
	}
	return out, nil
}

// keyOf computes the cache key exactly like RemoteIndexCache / InMemoryIndexCache build it.
func keyOf(it c13Item) (storecache.CacheKey, error) {
	switch it.fam {
	case "P":
		return storecache.CacheKey{Block: it.block.String(), Key: storecache.CacheKeyPostings(labels.Label{Name: it.name, Value: it.value}), Compression: it.comp}, nil
	case "EP":
		pms, err := promMatchers(it.ms)
		if err != nil {
			return storecache.CacheKey{}, err
		}
		return storecache.CacheKey{Block: it.block.String(), Key: storecache.CacheKeyExpandedPostings(storecache.LabelMatchersToString(pms)), Compression: it.comp}, nil
	default:
		return storecache.CacheKey{Block: it.block.String(), Key: storecache.CacheKeySeries(it.ref)}, nil
	}
}

// inPostingsSplitClass: the exact class of finding F9 for the postings key: same block and
// compression, different labels whose name+":"+value coincide.
func inPostingsSplitClass(a, b c13Item) bool {
	return a.fam == "P" && b.fam == "P" && a.block == b.block && a.comp == b.comp &&
		(a.name != b.name || a.value != b.value) && a.name+":"+a.value == b.name+":"+b.value
}

// inMatcherConcatClass: the exact class of finding F9 for the matchers cache key.
func inMatcherConcatClass(a, b c13Matcher) bool {
	return a != b && a.concat() == b.concat()
}

// ---------------------------------------------------------------------------------------------
// generators

var c13Types = []labels.MatchType{labels.MatchEqual, labels.MatchNotEqual, labels.MatchRegexp, labels.MatchNotRegexp}

func genName(rt *rapid.T, label string) string  { return genSepString(rt, label, 1, 4) }
func genValue(rt *rapid.T, label string) string { return genSepString(rt, label, 0, 4) }

func genComp(rt *rapid.T) string {
	return rapid.SampledFrom([]string{"", "dss", "dss"}).Draw(rt, "comp")
}

func genMatcher(rt *rapid.T, label string) c13Matcher {
	return c13Matcher{
		Name:  genName(rt, label+"n"),
		Type:  rapid.SampledFrom(c13Types).Draw(rt, label+"t"),
		Value: genValue(rt, label+"v"),
	}
}

// genMatcherPair draws two matchers. Modes:
//
//	shift    (p+T1+q, T2, r) vs (p, T1, q+T2+r): identical name+type+value concatenation (F9 class)
//	resplit  the same name+value concatenation cut at two different places, same type
//	type     same name and value, different type
//	random   independent
func genMatcherPair(rt *rapid.T, types []labels.MatchType) (c13Matcher, c13Matcher, string) {
	mode := rapid.SampledFrom([]string{"shift", "shift", "resplit", "type", "random", "longshift", "opshift"}).Draw(rt, "mmode")
	switch mode {
	case "opshift":
		// The operators have different widths ("=" / "=~"): with the type rendered as its operator,
		// (n = "~v") and (n =~ "v") read the same. Only equality matchers being cacheable makes it matter.
		n, v := genName(rt, "n"), genValue(rt, "v")
		a, b := c13Matcher{n, labels.MatchEqual, "~" + v}, c13Matcher{n, labels.MatchRegexp, v}
		if rapid.Bool().Draw(rt, "swap") {
			a, b = b, a
		}
		return a, b, mode
	case "longshift":
		// As "shift", but the part that moves between name and value is 254..257 or 510..513 bytes long
		// and the type in the middle is rendered either as the operator or as a one-digit code: the two
		// names then differ in length by about a multiple of 256, which is what breaks a key that
		// delimits the name with a length that does not fit its field.
		p, r := genName(rt, "p"), genValue(rt, "r")
		fill := rapid.SampledFrom([]int{254, 255, 256, 257, 510, 511, 512, 513}).Draw(rt, "fill")
		q := strings.Repeat("x", fill)
		t1 := rapid.SampledFrom(types).Draw(rt, "t1")
		t2 := rapid.SampledFrom(types).Draw(rt, "t2")
		enc := func(t labels.MatchType) string {
			if rapid.Bool().Draw(rt, "digit") {
				return string(rune('0' + int(t)))
			}
			return t.String()
		}
		return c13Matcher{p + enc(t1) + q, t2, r}, c13Matcher{p, t1, q + enc(t2) + r}, mode
	case "shift":
		p, q, r := genName(rt, "p"), genValue(rt, "q"), genValue(rt, "r")
		t1 := rapid.SampledFrom(types).Draw(rt, "t1")
		t2 := rapid.SampledFrom(types).Draw(rt, "t2")
		return c13Matcher{p + t1.String() + q, t2, r}, c13Matcher{p, t1, q + t2.String() + r}, mode
	case "resplit":
		s := genSepString(rt, "s", 2, 6)
		cuts := runeCuts(s)
		inner := cuts[1:] // name must be non-empty
		i := rapid.IntRange(0, len(inner)-1).Draw(rt, "i")
		j := rapid.IntRange(0, len(inner)-1).Draw(rt, "j")
		t := rapid.SampledFrom(types).Draw(rt, "t")
		return c13Matcher{s[:inner[i]], t, s[inner[i]:]}, c13Matcher{s[:inner[j]], t, s[inner[j]:]}, mode
	case "type":
		n, v := genName(rt, "n"), genValue(rt, "v")
		return c13Matcher{n, rapid.SampledFrom(types).Draw(rt, "t1"), v}, c13Matcher{n, rapid.SampledFrom(types).Draw(rt, "t2"), v}, mode
	default:
		a := c13Matcher{genName(rt, "an"), rapid.SampledFrom(types).Draw(rt, "at"), genValue(rt, "av")}
		b := c13Matcher{genName(rt, "bn"), rapid.SampledFrom(types).Draw(rt, "bt"), genValue(rt, "bv")}
		return a, b, mode
	}
}

// genItemPair draws two items (possibly identical) and the construction mode.
func genItemPair(rt *rapid.T) (c13Item, c13Item, string) {
	block := genULID(rt, "block")
	comp := genComp(rt)
	fam := rapid.SampledFrom([]string{"P", "P", "EP", "EP", "S", "X"}).Draw(rt, "fam")
	switch fam {
	case "P":
		a := c13Item{fam: "P", block: block, comp: comp}
		b := a
		mode := rapid.SampledFrom([]string{"sep-shift", "sep-shift", "resplit", "resplit", "random", "block", "comp", "allkey", "same", "escape-shift", "escape-random"}).Draw(rt, "pmode")
		switch mode {
		case "escape-shift": // (p+"\\", q+":"+r) vs (p+":"+q, r): equal once ':' is escaped as "\\:" but '\\' itself is not
			p, q, r := genSepString(rt, "p", 0, 3), genValue(rt, "q"), genValue(rt, "r")
			a.name, a.value = p+"\\", q+":"+r
			b.name, b.value = p+":"+q, r
		case "escape-random": // names and values over the key's separator and escape characters only
			esc := func(label string, min int) string {
				return strings.Join(rapid.SliceOfN(rapid.SampledFrom([]string{"a", "\\", ":", "\\:", "\\\\"}), min, 4).Draw(rt, label), "")
			}
			a.name, a.value = esc("an", 1), esc("av", 0)
			b.name, b.value = esc("bn", 1), esc("bv", 0)
		case "sep-shift": // ("p:q", r) vs (p, "q:r"): the F9 class
			p, q, r := genName(rt, "p"), genValue(rt, "q"), genValue(rt, "r")
			a.name, a.value = p+":"+q, r
			b.name, b.value = p, q+":"+r
		case "resplit": // same name+value concatenation, different split
			s := genSepString(rt, "s", 2, 6)
			inner := runeCuts(s)[1:]
			i := rapid.IntRange(0, len(inner)-1).Draw(rt, "i")
			j := rapid.IntRange(0, len(inner)-1).Draw(rt, "j")
			a.name, a.value = s[:inner[i]], s[inner[i]:]
			b.name, b.value = s[:inner[j]], s[inner[j]:]
		case "random":
			a.name, a.value = genName(rt, "an"), genValue(rt, "av")
			b.name, b.value = genName(rt, "bn"), genValue(rt, "bv")
		case "block":
			a.name, a.value = genName(rt, "n"), genValue(rt, "v")
			b.name, b.value = a.name, a.value
			b.block = genOtherBlock(rt, a.block)
		case "comp":
			a.name, a.value = genName(rt, "n"), genValue(rt, "v")
			b.name, b.value = a.name, a.value
			a.comp, b.comp = "", "dss"
		case "allkey": // index.AllPostingsKey ("","") against an ordinary label
			a.name, a.value = "", ""
			b.name, b.value = genSepString(rt, "n", 1, 2), genSepString(rt, "v", 0, 1)
		default:
			a.name, a.value = genName(rt, "n"), genValue(rt, "v")
			b.name, b.value = a.name, a.value
		}
		return a, b, "P-" + mode
	case "EP":
		a := c13Item{fam: "EP", block: block, comp: comp}
		b := a
		mode := rapid.SampledFrom([]string{"embed", "embed-quoted", "embed-name", "embed-name-quoted", "pair", "subset", "random", "block", "comp", "permuted"}).Draw(rt, "emode")
		switch mode {
		case "embed-name", "embed-name-quoted":
			// [m1, m2] vs a single matcher whose NAME spells out "<m1>;<name of m2>" (label names may be
			// any UTF-8 string): the rendering of a matcher list must keep names apart from the rest too
			m1, m2 := genMatcher(rt, "m1"), genMatcher(rt, "m2")
			a.ms = []c13Matcher{m1, m2}
			n := m1.concat() + ";" + m2.Name
			if mode == "embed-name-quoted" {
				n = m1.Name + m1.Type.String() + strconv.Quote(m1.Value) + ";" + m2.Name
			}
			b.ms = []c13Matcher{{n, m2.Type, m2.Value}}
		case "embed", "embed-quoted":
			// [m1, m2] vs a single matcher whose value spells out "<v1>;<m2>"
			m1, m2 := genMatcher(rt, "m1"), genMatcher(rt, "m2")
			a.ms = []c13Matcher{m1, m2}
			v := m1.Value + ";" + m2.concat()
			if mode == "embed-quoted" {
				v = m1.Value + "\";" + m2.Name + m2.Type.String() + "\"" + m2.Value
			}
			b.ms = []c13Matcher{{m1.Name, m1.Type, v}}
		case "pair":
			m1, m2, sub := genMatcherPair(rt, c13Types)
			mode += "-" + sub
			rest := rapid.SliceOfN(rapid.Custom(func(t *rapid.T) c13Matcher { return genMatcher(t, "r") }), 0, 2).Draw(rt, "rest")
			a.ms = append([]c13Matcher{m1}, rest...)
			b.ms = append([]c13Matcher{m2}, rest...)
		case "subset":
			n := rapid.IntRange(1, 4).Draw(rt, "n")
			for i := 0; i < n; i++ {
				a.ms = append(a.ms, genMatcher(rt, fmt.Sprintf("m%d", i)))
			}
			k := rapid.IntRange(0, n-1).Draw(rt, "drop")
			b.ms = append(append([]c13Matcher{}, a.ms[:k]...), a.ms[k+1:]...)
		case "random":
			for i, n := 0, rapid.IntRange(0, 3).Draw(rt, "na"); i < n; i++ {
				a.ms = append(a.ms, genMatcher(rt, fmt.Sprintf("a%d", i)))
			}
			for i, n := 0, rapid.IntRange(0, 3).Draw(rt, "nb"); i < n; i++ {
				b.ms = append(b.ms, genMatcher(rt, fmt.Sprintf("b%d", i)))
			}
		case "block":
			a.ms = []c13Matcher{genMatcher(rt, "m")}
			b.ms = a.ms
			b.block = genOtherBlock(rt, a.block)
		case "comp":
			a.ms = []c13Matcher{genMatcher(rt, "m")}
			b.ms = a.ms
			a.comp, b.comp = "", "dss"
		default: // permuted: the same set in another order — the same item, any key relation is fine
			n := rapid.IntRange(2, 4).Draw(rt, "n")
			for i := 0; i < n; i++ {
				a.ms = append(a.ms, genMatcher(rt, fmt.Sprintf("m%d", i)))
			}
			b.ms = rapid.Permutation(a.ms).Draw(rt, "perm")
		}
		return a, b, "EP-" + mode
	case "S":
		a := c13Item{fam: "S", block: block}
		b := a
		a.ref = rapid.Uint64().Draw(rt, "ref")
		mode := rapid.SampledFrom([]string{"near", "random", "block", "digits"}).Draw(rt, "smode")
		switch mode {
		case "near":
			b.ref = a.ref + uint64(rapid.IntRange(-2, 2).Draw(rt, "d"))
		case "random":
			b.ref = rapid.Uint64().Draw(rt, "ref2")
		case "block":
			b.ref = a.ref
			b.block = genOtherBlock(rt, a.block)
		default: // decimal renderings related by a shifted digit
			a.ref = uint64(rapid.IntRange(0, 99999).Draw(rt, "small"))
			b.ref = a.ref*10 + uint64(rapid.IntRange(0, 9).Draw(rt, "dig"))
		}
		return a, b, "S-" + mode
	default: // X: items of different families on the same block
		mk := func(f, label string) c13Item {
			it := c13Item{fam: f, block: block, comp: comp}
			switch f {
			case "P":
				it.name, it.value = genName(rt, label+"n"), genValue(rt, label+"v")
			case "EP":
				it.ms = []c13Matcher{genMatcher(rt, label+"m")}
			default:
				it.comp = ""
				it.ref = rapid.Uint64().Draw(rt, label+"ref")
			}
			return it
		}
		fs := rapid.Permutation([]string{"P", "EP", "S"}).Draw(rt, "fams")
		return mk(fs[0], "a"), mk(fs[1], "b"), "X-" + fs[0] + fs[1]
	}
}

// ---------------------------------------------------------------------------------------------
// TestVerifC13: key strings

// checkKeyPair is the oracle for two items; it returns a violation text or "".
func checkKeyPair(a, b c13Item) (msg string, distinct bool, err error) {
	ka, err := keyOf(a)
	if err != nil {
		return "", false, err
	}
	kb, err := keyOf(b)
	if err != nil {
		return "", false, err
	}
	distinct = a.identity() != b.identity()
	sa, sb := ka.String(), kb.String()
	if sa == "" || sb == "" {
		return fmt.Sprintf("empty key string for %s / %s", a.render(), b.render()), distinct, nil
	}
	if distinct && sa == sb {
		return fmt.Sprintf("distinct items share the cache key %q: %s vs %s", sa, a.render(), b.render()), distinct, nil
	}
	if a.fam == "EP" && b.fam == "EP" && distinct && a.block == b.block && a.comp == b.comp {
		if string(ka.Key.(storecache.CacheKeyExpandedPostings)) == string(kb.Key.(storecache.CacheKeyExpandedPostings)) {
			return fmt.Sprintf("distinct matcher sets share LabelMatchersToString %q: %s vs %s", ka.Key, a.render(), b.render()), distinct, nil
		}
	}
	// the same item asked twice must find its own entry again (determinism of the key)
	if ka2, _ := keyOf(a); ka2.String() != sa {
		return fmt.Sprintf("key of %s is not deterministic: %q then %q", a.render(), sa, ka2.String()), distinct, nil
	}
	return "", distinct, nil
}

var (
	c13RegBlock = ulid.MustParse("01ARZ3NDEKTSV4RRFFQ69G5FAV")
	c13RegP1    = c13Item{fam: "P", block: c13RegBlock, comp: "dss", name: "a:b", value: "c"}
	c13RegP2    = c13Item{fam: "P", block: c13RegBlock, comp: "dss", name: "a", value: "b:c"}
	c13RegM1    = c13Matcher{"a", labels.MatchRegexp, "=~b"}
	c13RegM2    = c13Matcher{"a=~", labels.MatchRegexp, "b"}
)

func TestVerifC13(t *testing.T) {
	rec := kit.For(t, "C13")
	known := kit.KnownFindings("C13")
	// saved minimal input of finding F9 (postings key): {name:"a:b",value:"c"} vs {name:"a",value:"b:c"}
	{
		msg, _, err := checkKeyPair(c13RegP1, c13RegP2)
		if err != nil {
			t.Fatalf("regression input: %v", err)
		}
		if msg != "" {
			if known[sigC13Postings] {
				rec.Known(sigC13Postings, msg)
			} else {
				rec.Violation(t, "regression F9 (postings key): %s", msg)
			}
		}
	}
	rec.Check(t, func(rt *rapid.T) {
		a, b, mode := genItemPair(rt)
		if inPostingsSplitClass(a, b) && known[sigC13Postings] {
			rec.Excluded(sigC13Postings)
			rec.Class("excluded-" + mode)
			return
		}
		msg, distinct, err := checkKeyPair(a, b)
		if err != nil {
			rt.Skip("matcher does not compile: " + err.Error())
		}
		if msg != "" {
			rt.Fatalf("C13 violated (%s): %s", mode, msg)
		}
		classes := []string{mode}
		if !distinct {
			classes = append(classes, "same-item")
		}
		// non-trivial: two distinct items of one family whose fields concatenate to the same text
		// (only the split / the quoting tells them apart), or that differ in block or compression only.
		nt := distinct && a.fam == b.fam && (a.naive() == b.naive() || (a.fam != "S" && strings.HasSuffix(mode, "block")) || strings.HasSuffix(mode, "comp"))
		if distinct && a.fam == b.fam && a.naive() == b.naive() {
			classes = append(classes, "shared-concatenation")
		}
		rec.Case(mode+" "+a.render()+" "+b.render(), nt, classes...)
	})
}

// ---------------------------------------------------------------------------------------------
// TestVerifC13_MatchersCache: behavioural form for the matchers cache

func toProto(m c13Matcher) storepb.LabelMatcher {
	var t storepb.LabelMatcher_Type
	switch m.Type {
	case labels.MatchEqual:
		t = storepb.LabelMatcher_EQ
	case labels.MatchNotEqual:
		t = storepb.LabelMatcher_NEQ
	case labels.MatchRegexp:
		t = storepb.LabelMatcher_RE
	default:
		t = storepb.LabelMatcher_NRE
	}
	return storepb.LabelMatcher{Type: t, Name: m.Name, Value: m.Value}
}

// runMatchersCache converts seq one by one through a fresh cache and checks every answer. It
// returns a violation text, the number of answers that were served from the cache (same pointer as
// an earlier answer) and an error for non-compiling expressions.
func runMatchersCache(seq []c13Matcher, size int, cacheAll bool) (string, int, error) {
	opts := []storecache.MatcherCacheOption{storecache.WithSize(size)}
	if cacheAll {
		opts = append(opts, storecache.WithIsCacheableFunc(func(storecache.ConversionLabelMatcher) bool { return true }))
	}
	c, err := storecache.NewMatchersCache(opts...)
	if err != nil {
		return "", 0, err
	}
	seen := map[*labels.Matcher]bool{}
	hits := 0
	for i, m := range seq {
		out, err := storecache.MatchersToPromMatchersCached(c, toProto(m))
		if err != nil {
			return "", 0, err
		}
		if len(out) != 1 || out[0] == nil {
			return fmt.Sprintf("step %d: %d matchers returned for one input", i, len(out)), hits, nil
		}
		got := out[0]
		if got.Name != m.Name || got.Type != m.Type || got.Value != m.Value {
			return fmt.Sprintf("step %d: asked for %q %s %q, cache answered %q %s %q (history %v, size %d, cacheAll %v)",
				i, m.Name, m.Type, m.Value, got.Name, got.Type, got.Value, seq[:i], size, cacheAll), hits, nil
		}
		if seen[got] {
			hits++
		}
		seen[got] = true
	}
	return "", hits, nil
}

func TestVerifC13_MatchersCache(t *testing.T) {
	rec := kit.For(t, "C13")
	known := kit.KnownFindings("C13")
	// saved minimal input of finding F9 (matchers cache): a =~ "=~b" then "a=~" =~ "b", default options
	{
		msg, _, err := runMatchersCache([]c13Matcher{c13RegM1, c13RegM2}, 10, false)
		if err != nil {
			t.Fatalf("regression input: %v", err)
		}
		if msg != "" {
			if known[sigC13Matchers] {
				rec.Known(sigC13Matchers, msg)
			} else {
				rec.Violation(t, "regression F9 (matchers cache): %s", msg)
			}
		}
	}
	rec.Check(t, func(rt *rapid.T) {
		cacheAll := rapid.Bool().Draw(rt, "cacheAll")
		size := rapid.IntRange(1, 6).Draw(rt, "size")
		types := c13Types
		if !cacheAll && rapid.Bool().Draw(rt, "regexOnly") {
			types = c13Types[2:] // only the types the default configuration caches
		}
		var seq []c13Matcher
		var modes []string
		for i, n := 0, rapid.IntRange(1, 3).Draw(rt, "pairs"); i < n; i++ {
			a, b, mode := genMatcherPair(rt, types)
			seq = append(seq, a, b)
			modes = append(modes, mode)
		}
		if rapid.Bool().Draw(rt, "repeat") { // ask for earlier matchers again: legitimate hits
			k := rapid.IntRange(1, len(seq)).Draw(rt, "k")
			seq = append(seq, seq[:k]...)
		}
		seq = rapid.Permutation(seq).Draw(rt, "order")
		shared := false
		if known[sigC13Matchers] {
			// exclude by construction: drop a matcher that is in the F9 class with an earlier one
			var kept []c13Matcher
			for _, m := range seq {
				bad := false
				for _, p := range kept {
					if inMatcherConcatClass(p, m) {
						bad = true
						break
					}
				}
				if bad {
					rec.Excluded(sigC13Matchers)
					continue
				}
				kept = append(kept, m)
			}
			seq = kept
		}
		for i := range seq {
			for j := 0; j < i; j++ {
				if seq[i] != seq[j] && seq[i].Name+seq[i].Value == seq[j].Name+seq[j].Value {
					shared = true
				}
			}
		}
		msg, hits, err := runMatchersCache(seq, size, cacheAll)
		if err != nil {
			rt.Skip("matcher does not compile: " + err.Error())
		}
		if msg != "" {
			rt.Fatalf("C13 violated (matchers cache): %s", msg)
		}
		classes := []string{"mc-cacheAll-" + fmt.Sprint(cacheAll)}
		for _, m := range modes {
			classes = append(classes, "mc-"+m)
		}
		if hits > 0 {
			classes = append(classes, "mc-hit")
		}
		if shared {
			classes = append(classes, "mc-shared-concatenation")
		}
		// non-trivial: the cache really answered from memory at least once and the history holds two
		// distinct matchers whose name+value concatenations coincide.
		rec.Case(fmt.Sprintf("mc size=%d all=%v %v", size, cacheAll, seq), hits > 0 && shared, classes...)
	})
}

// ---------------------------------------------------------------------------------------------
// TestVerifC13_IndexCache: behavioural form for the index caches

// mapClient is a lossless cacheutil.RemoteCacheClient.
type mapClient struct {
	mu sync.Mutex
	m  map[string][]byte
}

func (c *mapClient) GetMulti(_ context.Context, keys []string) map[string][]byte {
	c.mu.Lock()
	defer c.mu.Unlock()
	out := map[string][]byte{}
	for _, k := range keys {
		if v, ok := c.m[k]; ok {
			out[k] = v
		}
	}
	return out
}

func (c *mapClient) SetAsync(key string, value []byte, _ time.Duration) error {
	c.mu.Lock()
	defer c.mu.Unlock()
	c.m[key] = append([]byte(nil), value...)
	return nil
}

func (c *mapClient) Stop() {}

func storeItem(ic storecache.IndexCache, it c13Item, payload []byte) error {
	switch it.fam {
	case "P":
		ic.StorePostings(it.block, labels.Label{Name: it.name, Value: it.value}, payload, "t")
	case "EP":
		pms, err := promMatchers(it.ms)
		if err != nil {
			return err
		}
		ic.StoreExpandedPostings(it.block, pms, payload, "t")
	default:
		ic.StoreSeries(it.block, storage.SeriesRef(it.ref), payload, "t")
	}
	return nil
}

func fetchItem(ic storecache.IndexCache, it c13Item) ([]byte, bool, error) {
	ctx := context.Background()
	switch it.fam {
	case "P":
		l := labels.Label{Name: it.name, Value: it.value}
		hits, _ := ic.FetchMultiPostings(ctx, it.block, []labels.Label{l}, "t")
		v, ok := hits[l]
		return v, ok, nil
	case "EP":
		pms, err := promMatchers(it.ms)
		if err != nil {
			return nil, false, err
		}
		v, ok := ic.FetchExpandedPostings(ctx, it.block, pms, "t")
		return v, ok, nil
	default:
		hits, _ := ic.FetchMultiSeries(ctx, it.block, []storage.SeriesRef{storage.SeriesRef(it.ref)}, "t")
		v, ok := hits[storage.SeriesRef(it.ref)]
		return v, ok, nil
	}
}

// runIndexCache stores every item with its own payload and then looks every item up again.
func runIndexCache(ic storecache.IndexCache, backend string, items []c13Item) (string, int, error) {
	payload := func(i int) []byte { return []byte(fmt.Sprintf("payload#%d#%s", i, items[i].identity())) }
	for i, it := range items {
		if err := storeItem(ic, it, payload(i)); err != nil {
			return "", 0, err
		}
	}
	hits := 0
	for i, it := range items {
		v, ok, err := fetchItem(ic, it)
		if err != nil {
			return "", 0, err
		}
		if !ok {
			continue
		}
		hits++
		if string(v) != string(payload(i)) {
			return fmt.Sprintf("%s: lookup of %s was answered with %q, the data stored for another item (items %s)", backend, it.render(), v, renderItems(items)), hits, nil
		}
	}
	return "", hits, nil
}

func renderItems(items []c13Item) string {
	var parts []string
	for _, it := range items {
		parts = append(parts, it.render())
	}
	return strings.Join(parts, " ")
}

func newBackends() (map[string]storecache.IndexCache, error) {
	remote, err := storecache.NewRemoteIndexCache(log.NewNopLogger(), &mapClient{m: map[string][]byte{}}, nil, nil, time.Hour)
	if err != nil {
		return nil, err
	}
	inmem, err := storecache.NewInMemoryIndexCacheWithConfig(log.NewNopLogger(), nil, nil, storecache.InMemoryIndexCacheConfig{MaxSize: model.Bytes(1 << 20), MaxItemSize: model.Bytes(1 << 16)})
	if err != nil {
		return nil, err
	}
	return map[string]storecache.IndexCache{"remote": remote, "inmemory": inmem}, nil
}

func TestVerifC13_IndexCache(t *testing.T) {
	rec := kit.For(t, "C13")
	known := kit.KnownFindings("C13")
	// saved minimal input of finding F9 observed through RemoteIndexCache
	{
		bs, err := newBackends()
		if err != nil {
			t.Fatal(err)
		}
		for _, name := range []string{"remote", "inmemory"} {
			msg, _, err := runIndexCache(bs[name], name, []c13Item{c13RegP1, c13RegP2})
			if err != nil {
				t.Fatalf("regression input: %v", err)
			}
			if msg != "" {
				if known[sigC13Postings] {
					rec.Known(sigC13Postings, msg)
				} else {
					rec.Violation(t, "regression F9 (postings key, %s): %s", name, msg)
				}
			}
		}
	}
	rec.Check(t, func(rt *rapid.T) {
		var items []c13Item
		var modes []string
		for i, n := 0, rapid.IntRange(1, 3).Draw(rt, "pairs"); i < n; i++ {
			a, b, mode := genItemPair(rt)
			if i > 0 && rapid.Bool().Draw(rt, "sameBlock") { // keep later pairs on the first block so that they can meet
				a.block, b.block = items[0].block, items[0].block
			}
			// the compression scheme is not a parameter of the IndexCache API (RemoteIndexCache fixes
			// it to "dss", InMemoryIndexCache to ""), so it is not part of an item's identity here.
			a.comp, b.comp = "", ""
			items = append(items, a, b)
			modes = append(modes, mode)
		}
		items = rapid.Permutation(items).Draw(rt, "order")
		// distinct items only (a repeated item would legitimately see the payload of its twin), and
		// without the known class by construction.
		var kept []c13Item
		shared := false
		for _, it := range items {
			drop := false
			for _, p := range kept {
				if p.identity() == it.identity() {
					drop = true
					break
				}
				if known[sigC13Postings] && inPostingsSplitClass(p, it) {
					rec.Excluded(sigC13Postings)
					drop = true
					break
				}
			}
			if drop {
				continue
			}
			for _, p := range kept {
				if p.fam == it.fam && p.block == it.block && p.naive() == it.naive() {
					shared = true
				}
			}
			kept = append(kept, it)
		}
		bs, err := newBackends()
		if err != nil {
			rt.Fatalf("setup: %v", err)
		}
		classes := []string{}
		for _, m := range modes {
			classes = append(classes, "ic-"+m)
		}
		allHit := true
		for _, name := range []string{"remote", "inmemory"} {
			msg, hits, err := runIndexCache(bs[name], name, kept)
			if err != nil {
				rt.Skip("matcher does not compile: " + err.Error())
			}
			if msg != "" {
				rt.Fatalf("C13 violated (index cache): %s", msg)
			}
			if hits < len(kept) {
				allHit = false
				classes = append(classes, "ic-"+name+"-miss")
			}
		}
		if shared {
			classes = append(classes, "ic-shared-concatenation")
		}
		// non-trivial: every lookup was a hit in both backends and two stored items of one family and
		// block have the same field concatenation.
		rec.Case("ic "+renderItems(kept), allHit && shared && len(kept) >= 2, classes...)
	})
}
