package xcacheutil

// C49 Memcached key placement is consistent.
//
// Domain: 1..16 distinct memcached servers given as address literals that resolve offline (IPv4
// ip:port, IPv6 [ip]:port, unix socket paths; written canonically, so distinct literals are distinct
// servers), in any listing order, and 1..200 cache keys.
//
// Oracle:
//   (a) single vs batch: PickServerForKeys(keys) lists every key exactly under PickServer(key), lists
//       nothing else, and only under configured servers;
//   (b) listing order: a selector configured with a permutation of the list picks the same server
//       for every key (alone and in a batch);
//   (c) growth: after adding one server that sorts last in natural order (same name family with a
//       larger number than every existing server — the documented push/pop discipline of the jump
//       hash), every key stays where it was or moves onto the new server.
//   Adding a server that does not sort last is exercised for (a) and (b) only: the type's comment
//   documents that this reshuffles keys, and the property's growth clause is read with that
//   discipline.

import (
	"fmt"
	"net"
	"net/netip"
	"sort"
	"strings"
	"testing"

	"pgregory.net/rapid"

	"github.com/thanos-io/thanos/pkg/cacheutil"
	"github.com/thanos-io/thanos/verifx/kit"
)

// root cause: natsort.Compare(a, b) and Compare(b, a) are both true when a and b differ only in
// leading zeros of a digit run, so SetServers' sort keeps the listing order of such a pair.
const sigC49NumericTie = "C49/natsort-leading-zero-tie"

// family renders the k-th server of a name family; within a family natural order == numeric order of k.
type family struct {
	kind string
	fn   func(k int) string
}

func genFamily(rt *rapid.T) family {
	kind := rapid.SampledFrom([]string{"ipv4-host", "ipv4-host", "ipv4-port", "ipv4-net", "ipv6", "unix", "unix-dir"}).Draw(rt, "family")
	a := rapid.IntRange(0, 255).Draw(rt, "a")
	port := rapid.SampledFrom([]int{11211, 11211, 9, 80, 65535}).Draw(rt, "port")
	switch kind {
	case "ipv4-host":
		return family{kind, func(k int) string {
			return netip.AddrPortFrom(netip.AddrFrom4([4]byte{10, byte(a), byte(k >> 8), byte(k)}), uint16(port)).String()
		}}
	case "ipv4-port":
		return family{kind, func(k int) string {
			return netip.AddrPortFrom(netip.AddrFrom4([4]byte{127, 0, 0, 1}), uint16(1+k)).String()
		}}
	case "ipv4-net":
		return family{kind, func(k int) string {
			return netip.AddrPortFrom(netip.AddrFrom4([4]byte{10, byte(k), byte(a), 1}), uint16(port)).String()
		}}
	case "ipv6":
		return family{kind, func(k int) string {
			// decimal digits only in the varying group so that "natural order" is unambiguous
			// (k+1: the canonical text of fd00::0 is "fd00::", which has no number at all)
			ip := netip.MustParseAddr(fmt.Sprintf("fd00::%d", k+1))
			return netip.AddrPortFrom(ip, uint16(port)).String()
		}}
	case "unix":
		return family{kind, func(k int) string { return fmt.Sprintf("/var/run/memcached-%d.sock", k) }}
	default:
		return family{kind, func(k int) string { return fmt.Sprintf("/srv/mc/%d/memcached.sock", k) }}
	}
}

// genNumbers draws n distinct family indices; consecutive runs (StatefulSet-like, crossing 9->10 and
// 99->100) or scattered.
func genNumbers(rt *rapid.T, n, limit int) []int {
	if rapid.Bool().Draw(rt, "consecutive") {
		start := rapid.SampledFrom([]int{0, 1, 5, 8, 95, 98}).Draw(rt, "start")
		out := make([]int, n)
		for i := range out {
			out[i] = start + i
		}
		return out
	}
	set := map[int]bool{}
	var out []int
	for len(out) < n {
		k := rapid.IntRange(0, limit).Draw(rt, "k")
		for set[k] {
			k = (k + 1) % (limit + 1)
		}
		set[k] = true
		out = append(out, k)
	}
	return out
}

func genKeys(rt *rapid.T) []string {
	n := rapid.IntRange(1, 200).Draw(rt, "keys")
	prefix := rapid.SampledFrom([]string{"P:01ARZ3NDEKTSV4RRFFQ69G5FAV:", "S:01ARZ3NDEKTSV4RRFFQ69G5FAV:", "subrange:b/chunks/000001:", "k"}).Draw(rt, "prefix")
	base := rapid.Uint32().Draw(rt, "base")
	keys := make([]string, 0, n)
	for i := 0; i < n; i++ {
		switch rapid.IntRange(0, 9).Draw(rt, "keyKind") {
		case 0:
			keys = append(keys, rapid.StringN(0, 12, 40).Draw(rt, "free"))
		case 1:
			if len(keys) > 0 { // a duplicate key in one batch
				keys = append(keys, keys[rapid.IntRange(0, len(keys)-1).Draw(rt, "dup")])
				continue
			}
			fallthrough
		default:
			keys = append(keys, fmt.Sprintf("%s%d", prefix, uint64(base)+uint64(i)))
		}
	}
	return keys
}

func eachOrder(s *cacheutil.MemcachedJumpHashSelector) []string {
	var out []string
	_ = s.Each(func(a net.Addr) error { out = append(out, a.String()); return nil })
	return out
}

func newSelector(servers []string) (*cacheutil.MemcachedJumpHashSelector, error) {
	s := &cacheutil.MemcachedJumpHashSelector{}
	if err := s.SetServers(servers...); err != nil {
		return nil, err
	}
	return s, nil
}

// placement computes key -> server through PickServer and checks oracle (a) against the batch API.
func placement(s *cacheutil.MemcachedJumpHashSelector, servers, keys []string) (map[string]string, string) {
	valid := map[string]bool{}
	for _, sv := range servers {
		valid[sv] = true
	}
	single := map[string]string{}
	for _, k := range keys {
		a, err := s.PickServer(k)
		if err != nil || a == nil {
			return nil, fmt.Sprintf("PickServer(%q) failed: %v", k, err)
		}
		if !valid[a.String()] {
			return nil, fmt.Sprintf("PickServer(%q) = %s which is not a configured server %v", k, a, servers)
		}
		if prev, ok := single[k]; ok && prev != a.String() {
			return nil, fmt.Sprintf("PickServer(%q) is not stable: %s then %s", k, prev, a)
		}
		single[k] = a.String()
	}
	batch, err := s.PickServerForKeys(append([]string(nil), keys...))
	if err != nil {
		return nil, fmt.Sprintf("PickServerForKeys failed: %v", err)
	}
	want := map[string]int{}
	for _, k := range keys {
		want[k]++
	}
	got := map[string]int{}
	for sv, ks := range batch {
		if !valid[sv] {
			return nil, fmt.Sprintf("PickServerForKeys lists keys under %q which is not a configured server %v", sv, servers)
		}
		for _, k := range ks {
			if _, ok := want[k]; !ok {
				return nil, fmt.Sprintf("PickServerForKeys lists key %q that was not asked for", k)
			}
			if single[k] != sv {
				return nil, fmt.Sprintf("key %q: PickServer says %s, PickServerForKeys lists it under %s (servers %v)", k, single[k], sv, servers)
			}
			got[k]++
		}
	}
	for k, n := range want {
		if got[k] != n {
			return nil, fmt.Sprintf("key %q asked %d times, listed %d times by PickServerForKeys", k, n, got[k])
		}
	}
	return single, ""
}

// checkC49 runs oracles (a)-(c). added is the server to add ("" for none); addedLast says whether the
// construction guarantees that it sorts last in natural order.
// c49Prev (set by the generated test): an earlier server list the second selector was given before the
// list under test, as the periodic DNS refresh does with one long-lived selector; what was listed
// earlier, and in which order, must not matter.
var c49Prev []string

func checkC49(servers, perm, keys []string, added string, addedLast bool) (msg string, moved int, spread int) {
	s1, err := newSelector(servers)
	if err != nil {
		return "harness: SetServers failed: " + err.Error(), 0, 0
	}
	if got := eachOrder(s1); len(got) != len(servers) {
		return fmt.Sprintf("SetServers kept %d of %d servers: %v", len(got), len(servers), got), 0, 0
	}
	p1, m := placement(s1, servers, keys)
	if m != "" {
		return m, 0, 0
	}
	used := map[string]bool{}
	for _, sv := range p1 {
		used[sv] = true
	}
	spread = len(used)
	s2 := &cacheutil.MemcachedJumpHashSelector{}
	if len(c49Prev) > 0 {
		if err := s2.SetServers(c49Prev...); err != nil {
			return "harness: SetServers failed: " + err.Error(), 0, 0
		}
	}
	if err := s2.SetServers(perm...); err != nil {
		return "harness: SetServers failed: " + err.Error(), 0, 0
	}
	p2, m := placement(s2, perm, keys)
	if m != "" {
		return fmt.Sprintf("permuted list (selector had %v before): %s", c49Prev, m), 0, 0
	}
	for _, k := range keys {
		if p1[k] != p2[k] {
			return fmt.Sprintf("key %q is placed on %s with servers listed as %v but on %s with the same servers listed as %v (on a selector that had %v before)", k, p1[k], servers, p2[k], perm, c49Prev), 0, 0
		}
	}
	if added == "" {
		return "", 0, spread
	}
	grown := append(append([]string(nil), perm...), added)
	// list the new server anywhere: the listing order must not matter
	if len(grown) > 1 {
		grown[0], grown[len(grown)-1] = grown[len(grown)-1], grown[0]
	}
	s3, err := newSelector(grown)
	if err != nil {
		return "harness: SetServers failed: " + err.Error(), 0, 0
	}
	p3, m := placement(s3, grown, keys)
	if m != "" {
		return "grown list: " + m, 0, 0
	}
	if !addedLast {
		return "", 0, spread
	}
	for _, k := range keys {
		if p3[k] != p1[k] {
			if p3[k] != added {
				return fmt.Sprintf("after adding %s (sorts last) key %q moved from %s to the old server %s (servers %v)", added, k, p1[k], p3[k], servers), 0, 0
			}
			moved++
		}
	}
	return "", moved, spread
}

func stripZeros(s string) string {
	var sb strings.Builder
	i := 0
	for i < len(s) {
		if s[i] < '0' || s[i] > '9' {
			sb.WriteByte(s[i])
			i++
			continue
		}
		j := i
		for j < len(s) && s[j] >= '0' && s[j] <= '9' {
			j++
		}
		run := strings.TrimLeft(s[i:j], "0")
		if run == "" {
			run = "0"
		}
		sb.WriteString(run)
		i = j
	}
	return sb.String()
}

// hasNumericTie reports whether two distinct servers differ only in leading zeros of digit runs.
func hasNumericTie(servers []string) bool {
	seen := map[string]bool{}
	for _, s := range servers {
		n := stripZeros(s)
		if seen[n] {
			return true
		}
		seen[n] = true
	}
	return false
}

func TestVerifC49(t *testing.T) {
	rec := kit.For(t, "C49")
	known := kit.KnownFindings("C49")
	// saved input: two unix sockets whose names differ only in a leading zero, listed in both orders
	{
		servers := []string{"/var/run/memcached-1.sock", "/var/run/memcached-01.sock"}
		perm := []string{servers[1], servers[0]}
		keys := []string{"k0", "k1", "k2", "k3", "k4", "k5", "k6", "k7"}
		if msg, _, _ := checkC49(servers, perm, keys, "", false); msg != "" {
			if known[sigC49NumericTie] {
				rec.Known(sigC49NumericTie, msg)
			} else {
				rec.Violation(t, "regression (leading-zero tie): %s", msg)
			}
		}
	}
	rec.Check(t, func(rt *rapid.T) {
		fam := genFamily(rt)
		n := rapid.IntRange(1, 16).Draw(rt, "servers")
		limit := 250
		nums := genNumbers(rt, n, limit)
		servers := make([]string, 0, n)
		for _, k := range nums {
			servers = append(servers, fam.fn(k))
		}
		classes := []string{"family-" + fam.kind}
		// optionally mix in servers of a second family (their natural position is wherever it is:
		// only (a) and (b) are asserted for the mix, plus (c) when the added server is of the first
		// family and larger than all — then it still sorts after every server of its own family, but
		// not necessarily last, so (c) is not asserted for mixed lists).
		mixed := false
		if n < 16 && rapid.IntRange(0, 3).Draw(rt, "mix") == 0 {
			fam2 := genFamily(rt)
			if fam2.kind != fam.kind {
				extra := rapid.IntRange(1, 16-n).Draw(rt, "extra")
				for _, k := range genNumbers(rt, extra, limit) {
					servers = append(servers, fam2.fn(k))
				}
				mixed = true
				classes = append(classes, "mixed-families")
			}
		}
		zeroPadded := false
		if strings.HasPrefix(fam.kind, "unix") && len(servers) >= 1 && rapid.IntRange(0, 7).Draw(rt, "zeroPad") == 0 {
			// a second socket whose number is the zero-padded spelling of an existing one
			i := rapid.IntRange(0, len(nums)-1).Draw(rt, "padIdx")
			pad := strings.Replace(fam.fn(nums[i]), fmt.Sprint(nums[i]), "0"+fmt.Sprint(nums[i]), 1)
			if len(servers) < 16 {
				servers = append(servers, pad)
				zeroPadded = true
			}
		}
		if zeroPadded && hasNumericTie(servers) {
			if known[sigC49NumericTie] {
				rec.Excluded(sigC49NumericTie)
				servers = servers[:len(servers)-1]
				zeroPadded = false
			} else {
				classes = append(classes, "leading-zero-tie")
			}
		}
		weighted := false
		if len(servers) < 16 && rapid.IntRange(0, 5).Draw(rt, "weighted") == 0 {
			// "A server is given more weight if it's listed multiple times" (SetServers): the same
			// address twice. Single and batch placement still have to agree, in any listing order.
			servers = append(servers, servers[rapid.IntRange(0, len(servers)-1).Draw(rt, "weightIdx")])
			weighted = true
			classes = append(classes, "server-listed-twice")
		}
		servers = rapid.Permutation(servers).Draw(rt, "listing")
		perm := rapid.Permutation(servers).Draw(rt, "perm")
		keys := genKeys(rt)

		added, addedLast := "", false
		switch rapid.IntRange(0, 3).Draw(rt, "grow") {
		case 0: // no growth
		case 1: // a server somewhere in the middle (or first): documented to reshuffle, not asserted
			maxN := 0
			for _, k := range nums {
				if k > maxN {
					maxN = k
				}
			}
			k := rapid.IntRange(0, maxN).Draw(rt, "midK")
			cand := fam.fn(k)
			dup := false
			for _, s := range servers {
				if s == cand {
					dup = true
				}
			}
			if !dup && len(servers) < 16 {
				added = cand
				classes = append(classes, "added-not-last")
			}
		default: // push: larger number than every existing server of the (single) family
			maxN := 0
			for _, k := range nums {
				if k > maxN {
					maxN = k
				}
			}
			step := rapid.SampledFrom([]int{1, 1, 2, 10, 100}).Draw(rt, "step")
			if maxN+step <= 255 || !strings.HasPrefix(fam.kind, "ipv4") {
				added = fam.fn(maxN + step)
				addedLast = !mixed && !zeroPadded && !weighted
				if addedLast {
					classes = append(classes, "added-last")
				} else {
					classes = append(classes, "added-last-of-family-in-mixed-list")
				}
			}
		}
		c49Prev = nil
		if rapid.Bool().Draw(rt, "earlierList") {
			// the selector was given another list before: a subset of the servers, possibly with a
			// server that has left since, in any order
			for _, sv := range servers {
				if rapid.IntRange(0, 2).Draw(rt, "inEarlier") > 0 {
					c49Prev = append(c49Prev, sv)
				}
			}
			if rapid.Bool().Draw(rt, "earlierGone") {
				c49Prev = append(c49Prev, fam.fn(rapid.IntRange(0, 250).Draw(rt, "goneK")))
			}
			if len(c49Prev) > 1 {
				c49Prev = rapid.Permutation(c49Prev).Draw(rt, "earlierOrder")
			}
			if len(c49Prev) > 0 {
				classes = append(classes, "selector-had-an-earlier-list")
			}
		}
		msg, moved, spread := checkC49(servers, perm, keys, added, addedLast)
		prev := c49Prev
		c49Prev = nil
		if msg != "" {
			rt.Fatalf("C49 violated: %s\nservers=%v perm=%v earlier=%v added=%q keys=%d", msg, servers, perm, prev, added, len(keys))
		}
		if len(servers) == 1 {
			classes = append(classes, "single-server")
		}
		if spread >= 2 {
			classes = append(classes, "keys-on-2+servers")
		}
		if moved > 0 {
			classes = append(classes, "keys-moved-to-new")
		}
		same := true
		for i := range servers {
			if servers[i] != perm[i] {
				same = false
			}
		}
		if !same {
			classes = append(classes, "listing-order-differs")
		}
		sorted := append([]string(nil), servers...)
		sort.Strings(sorted)
		// non-trivial: >=2 servers and >=1 key moved onto the server that was pushed last
		nt := len(servers) >= 2 && moved > 0
		rec.Case(fmt.Sprintf("%v +%q keys=%d/%s", sorted, added, len(keys), keys[0]), nt, classes...)
	})
}
