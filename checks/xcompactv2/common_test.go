package xcompactv2

import (
	"context"
	"fmt"
	"math"
	"os"
	"path/filepath"
	"sort"
	"strings"

	"github.com/go-kit/log"
	"github.com/oklog/ulid/v2"
	"github.com/prometheus/prometheus/model/histogram"
	"github.com/prometheus/prometheus/model/labels"
	"github.com/prometheus/prometheus/storage"
	"github.com/prometheus/prometheus/tsdb"
	"github.com/prometheus/prometheus/tsdb/chunkenc"
	"github.com/prometheus/prometheus/tsdb/chunks"
	"github.com/prometheus/prometheus/tsdb/index"
	"github.com/prometheus/prometheus/tsdb/tombstones"
	"github.com/prometheus/prometheus/util/annotations"

	"github.com/thanos-io/thanos/pkg/block"
	"github.com/thanos-io/thanos/pkg/block/metadata"
	"github.com/thanos-io/thanos/pkg/compactv2"
)

// smpl implements chunks.Sample.
type smpl struct {
	t int64
	v float64
}

func (s smpl) T() int64                      { return s.t }
func (s smpl) F() float64                    { return s.v }
func (s smpl) H() *histogram.Histogram       { return nil }
func (s smpl) FH() *histogram.FloatHistogram { return nil }
func (s smpl) Type() chunkenc.ValueType      { return chunkenc.ValFloat }
func (s smpl) Copy() chunks.Sample           { return s }

// mSeries is one series of the block: labels and its chunks (sorted, non-overlapping, non-empty).
type mSeries struct {
	lset   labels.Labels
	chunks [][]smpl
}

func (s mSeries) all() []smpl {
	var out []smpl
	for _, c := range s.chunks {
		out = append(out, c...)
	}
	return out
}

// mRequest mirrors metadata.DeletionRequest with matchers kept in a printable form.
type mRequest struct {
	matchers  []*labels.Matcher
	intervals []tombstones.Interval // empty ⇒ whole series
}

func (r mRequest) toThanos() metadata.DeletionRequest {
	d := metadata.DeletionRequest{Matchers: metadata.Matchers(r.matchers)}
	for _, in := range r.intervals {
		d.Intervals = append(d.Intervals, in)
	}
	return d
}

func (r mRequest) String() string {
	ms := make([]string, len(r.matchers))
	for i, m := range r.matchers {
		ms[i] = m.String()
	}
	if len(r.intervals) == 0 {
		return "{" + strings.Join(ms, ",") + "}:whole"
	}
	return fmt.Sprintf("{%s}:%v", strings.Join(ms, ","), r.intervals)
}

// carriesAndMatches: every matcher names a label the series carries and matches its value. For such
// a request the statement demands the deletion.
func (r mRequest) carriesAndMatches(lset labels.Labels) bool {
	for _, m := range r.matchers {
		if !lset.Has(m.Name) || !m.Matches(lset.Get(m.Name)) {
			return false
		}
	}
	return true
}

// selects: the selector matches in the usual Prometheus sense (absent label = ""). Only for such a
// request the statement allows a deletion at all.
func (r mRequest) selects(lset labels.Labels) bool {
	for _, m := range r.matchers {
		if !m.Matches(lset.Get(m.Name)) {
			return false
		}
	}
	return true
}

func (r mRequest) covers(t int64) bool {
	if len(r.intervals) == 0 {
		return true
	}
	for _, in := range r.intervals {
		if t >= in.Mint && t <= in.Maxt {
			return true
		}
	}
	return false
}

func renderSeries(ss []mSeries) string {
	var sb strings.Builder
	for _, s := range ss {
		sb.WriteString(s.lset.String())
		for _, c := range s.chunks {
			sb.WriteString("[")
			for i, x := range c {
				if i > 0 {
					sb.WriteString(" ")
				}
				fmt.Fprintf(&sb, "%d", x.t)
			}
			sb.WriteString("]")
		}
		sb.WriteString(" ")
	}
	return sb.String()
}

func renderRequests(rs []mRequest) string {
	parts := make([]string, len(rs))
	for i, r := range rs {
		parts[i] = r.String()
	}
	return strings.Join(parts, " ; ")
}

// ---- plumbing for the direct path -------------------------------------------------------------

type listChunkSeriesSet struct {
	css []storage.ChunkSeries
	idx int
}

func (s *listChunkSeriesSet) Next() bool                        { s.idx++; return s.idx < len(s.css) }
func (s *listChunkSeriesSet) At() storage.ChunkSeries           { return s.css[s.idx] }
func (s *listChunkSeriesSet) Err() error                        { return nil }
func (s *listChunkSeriesSet) Warnings() annotations.Annotations { return nil }

type nopChangeLog struct{ deleted int }

func (n *nopChangeLog) DeleteSeries(labels.Labels, tombstones.Intervals) { n.deleted++ }
func (n *nopChangeLog) ModifySeries(labels.Labels, labels.Labels)        {}

type nopProgress struct{}

func (nopProgress) SeriesProcessed() {}

func toChunkSamples(c []smpl) []chunks.Sample {
	out := make([]chunks.Sample, len(c))
	for i := range c {
		out[i] = c[i]
	}
	return out
}

type outSeries struct {
	lset    labels.Labels
	samples []smpl
	chunks  int
}

// readSet drains a chunk series set into samples; chunk metas are validated against their content.
func readSet(set storage.ChunkSeriesSet) ([]outSeries, error) {
	var out []outSeries
	for set.Next() {
		s := set.At()
		o := outSeries{lset: s.Labels().Copy()}
		it := s.Iterator(nil)
		for it.Next() {
			m := it.At()
			ci := m.Chunk.Iterator(nil)
			n := 0
			var first, last int64
			for ci.Next() != chunkenc.ValNone {
				t, v := ci.At()
				if n == 0 {
					first = t
				}
				last = t
				n++
				o.samples = append(o.samples, smpl{t, v})
			}
			if err := ci.Err(); err != nil {
				return nil, fmt.Errorf("series %s: chunk iterator: %w", o.lset, err)
			}
			if n == 0 {
				return nil, fmt.Errorf("series %s: empty chunk [%d,%d] in the output", o.lset, m.MinTime, m.MaxTime)
			}
			if m.MinTime != first || m.MaxTime != last {
				return nil, fmt.Errorf("series %s: chunk meta [%d,%d] does not bound its samples [%d,%d]", o.lset, m.MinTime, m.MaxTime, first, last)
			}
			o.chunks++
		}
		if err := it.Err(); err != nil {
			return nil, fmt.Errorf("series %s: chunks iterator: %w", o.lset, err)
		}
		out = append(out, o)
	}
	if err := set.Err(); err != nil {
		return nil, fmt.Errorf("series set: %w", err)
	}
	return out, nil
}

// rewriteDirect applies the deletion modifier to an in-memory chunk series set.
func rewriteDirect(series []mSeries, reqs []mRequest) ([]outSeries, error) {
	css := make([]storage.ChunkSeries, 0, len(series))
	for _, s := range series {
		cs := make([][]chunks.Sample, len(s.chunks))
		for i, c := range s.chunks {
			cs[i] = toChunkSamples(c)
		}
		css = append(css, storage.NewListChunkSeriesFromSamples(s.lset, cs...))
	}
	dr := make([]metadata.DeletionRequest, len(reqs))
	for i, r := range reqs {
		dr[i] = r.toThanos()
	}
	_, set := compactv2.WithDeletionModifier(dr...).Modify(index.NewStringListIter(nil), &listChunkSeriesSet{css: css, idx: -1}, &nopChangeLog{}, nopProgress{})
	return readSet(set)
}

// ---- plumbing for the block path --------------------------------------------------------------

func writeInputBlock(dir string, series []mSeries) error {
	d, err := block.NewDiskWriter(context.Background(), log.NewNopLogger(), dir)
	if err != nil {
		return err
	}
	syms := map[string]struct{}{}
	for _, s := range series {
		s.lset.Range(func(l labels.Label) {
			syms[l.Name] = struct{}{}
			syms[l.Value] = struct{}{}
		})
	}
	sl := make([]string, 0, len(syms))
	for s := range syms {
		sl = append(sl, s)
	}
	sort.Strings(sl)
	for _, s := range sl {
		if err := d.AddSymbol(s); err != nil {
			return err
		}
	}
	for ref, s := range series {
		var chks []chunks.Meta
		for _, c := range s.chunks {
			x := chunkenc.NewXORChunk()
			a, err := x.Appender()
			if err != nil {
				return err
			}
			for _, sa := range c {
				a.Append(sa.t, sa.v)
			}
			chks = append(chks, chunks.Meta{Chunk: x, MinTime: c[0].t, MaxTime: c[len(c)-1].t})
		}
		if err := d.WriteChunks(chks...); err != nil {
			return err
		}
		if err := d.AddSeries(storage.SeriesRef(ref), s.lset, chks...); err != nil {
			return err
		}
	}
	_, err = d.Flush()
	return err
}

// rewriteBlock writes the series into a real block, rewrites it with compactv2.Compactor.WriteSeries
// (what `thanos tools bucket rewrite` does) and reads the new block back.
func rewriteBlock(tmp string, series []mSeries, reqs []mRequest) ([]outSeries, error) {
	ctx := context.Background()
	logger := log.NewNopLogger()
	inID := ulid.MustNew(1, nil)
	inDir := filepath.Join(tmp, inID.String())
	if err := os.MkdirAll(inDir, 0o777); err != nil {
		return nil, err
	}
	if err := writeInputBlock(inDir, series); err != nil {
		return nil, fmt.Errorf("harness: write input block: %w", err)
	}
	if err := (metadata.Meta{BlockMeta: tsdb.BlockMeta{Version: 1, ULID: inID}}).WriteToDir(logger, inDir); err != nil {
		return nil, fmt.Errorf("harness: meta: %w", err)
	}
	pool := chunkenc.NewPool()
	b, err := tsdb.OpenBlock(nil, inDir, pool, nil)
	if err != nil {
		return nil, fmt.Errorf("harness: open block: %w", err)
	}
	defer b.Close()

	outID := ulid.MustNew(2, nil)
	outDir := filepath.Join(tmp, outID.String())
	d, err := block.NewDiskWriter(ctx, logger, outDir)
	if err != nil {
		return nil, fmt.Errorf("harness: disk writer: %w", err)
	}
	if err := os.MkdirAll(outDir, 0o777); err != nil { // Flush renames into it (as tools_bucket.go prepares it)
		return nil, err
	}
	dr := make([]metadata.DeletionRequest, len(reqs))
	for i, r := range reqs {
		dr[i] = r.toThanos()
	}
	comp := compactv2.New(tmp, logger, &nopChangeLog{}, pool)
	if err := comp.WriteSeries(ctx, []block.Reader{b}, d, nopProgress{}, compactv2.WithDeletionModifier(dr...)); err != nil {
		_, _ = d.Flush()
		return nil, fmt.Errorf("WriteSeries: %w", err)
	}
	if _, err := d.Flush(); err != nil {
		return nil, fmt.Errorf("flush: %w", err)
	}

	ir, err := index.NewFileReader(filepath.Join(outDir, block.IndexFilename), index.DecodePostingsRaw)
	if err != nil {
		return nil, fmt.Errorf("open rewritten index: %w", err)
	}
	defer ir.Close()
	cr, err := chunks.NewDirReader(filepath.Join(outDir, block.ChunksDirname), nil)
	if err != nil {
		return nil, fmt.Errorf("open rewritten chunks: %w", err)
	}
	defer cr.Close()
	k, v := index.AllPostingsKey()
	all, err := ir.Postings(ctx, k, v)
	if err != nil {
		return nil, err
	}
	all = ir.SortedPostings(all)
	var (
		out     []outSeries
		builder labels.ScratchBuilder
		chks    []chunks.Meta
	)
	for all.Next() {
		if err := ir.Series(all.At(), &builder, &chks); err != nil {
			return nil, err
		}
		o := outSeries{lset: builder.Labels().Copy()}
		for _, c := range chks {
			ch, _, err := cr.ChunkOrIterable(c)
			if err != nil {
				return nil, err
			}
			it := ch.Iterator(nil)
			n := 0
			var first, last int64
			for it.Next() != chunkenc.ValNone {
				t, val := it.At()
				if n == 0 {
					first = t
				}
				last = t
				n++
				o.samples = append(o.samples, smpl{t, val})
			}
			if err := it.Err(); err != nil {
				return nil, err
			}
			if n == 0 || c.MinTime != first || c.MaxTime != last {
				return nil, fmt.Errorf("series %s: rewritten chunk meta [%d,%d] does not bound its %d samples [%d,%d]", o.lset, c.MinTime, c.MaxTime, n, first, last)
			}
			o.chunks++
		}
		out = append(out, o)
	}
	return out, all.Err()
}

func sameBits(a, b float64) bool { return math.Float64bits(a) == math.Float64bits(b) }
