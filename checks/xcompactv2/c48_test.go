package xcompactv2

// C48 Bucket rewrite deletes exactly the requested data.
// Domain: a block's series (labels over a small alphabet, 1..4 sorted non-overlapping chunks of
// 1..6 samples, sometimes a long chunk), 1..3 deletion requests (1..2 matchers, also on labels a
// series does not carry; 0..3 closed intervals whose ends sit on / next to sample times; no interval
// ⇒ whole series). Observed (a) directly at WithDeletionModifier(...).Modify over an in-memory chunk
// series set and (b), for a drawn share of the cases, in the block written by
// compactv2.Compactor.WriteSeries from a real input block.
// Oracle (model): for every original sample
//   must-delete  = some request whose every matcher names a label the series carries and matches it
//                  covers the sample's time (whole series if it has no intervals);
//   may-delete   = some request whose selector matches the series (absent label = "") covers it.
// The rewritten series must be a subsequence of the original one (same values, nothing invented),
// every must-delete sample must be gone and every removed sample must be may-delete. Requests that
// match only through an absent label (e.g. zz!="1") are therefore allowed to delete or not.

import (
	"fmt"
	"os"
	"testing"

	"github.com/prometheus/prometheus/model/labels"
	"github.com/prometheus/prometheus/tsdb/tombstones"
	"pgregory.net/rapid"

	"github.com/thanos-io/thanos/verifx/kit"
)

// sigC48EmptiedChunk: a chunk all of whose samples are deleted by two or more separate intervals,
// none of which contains the whole chunk, ends the series' chunk iteration silently
// (errors.Wrap(nil, ...) == nil), so all later chunks of the series are lost.
const sigC48EmptiedChunk = "C48/chunk-emptied-by-separate-intervals"

type c48Info struct {
	boundaryHit    bool // an interval end equals a sample time of a selected series
	absentLabel    bool // a request names a label some series does not carry
	grayZone       bool // a request selects a series only through an absent label
	partialChunk   bool // some chunk lost some but not all samples
	wholeSeries    bool // a whole-series request hit
	seriesGone     bool // a series vanished completely
	anyRemoved     bool
	anyKept        bool
	emptiedBySplit bool // class of sigC48EmptiedChunk is present in the case
}

// emptiedBySeparateIntervals tells whether series s has a chunk whose samples are all covered by the
// union of the interval requests that the implementation applies to s while no single merged
// interval contains the chunk's [min,max], and that chunk is not the series' last one - the trigger of
// sigC48EmptiedChunk. Requests that only
// "may" apply (absent label) are considered too, so the exclusion does not depend on that choice.
func emptiedBySeparateIntervals(s mSeries, reqs []mRequest) bool {
	for _, variant := range []func(mRequest) bool{
		func(r mRequest) bool { return r.carriesAndMatches(s.lset) },
		func(r mRequest) bool { return r.selects(s.lset) },
	} {
		var merged tombstones.Intervals
		for _, r := range reqs {
			if len(r.intervals) == 0 || !variant(r) {
				continue
			}
			for _, in := range r.intervals {
				merged = merged.Add(in)
			}
		}
		if len(merged) == 0 {
			continue
		}
		for ci, c := range s.chunks {
			if ci == len(s.chunks)-1 {
				continue // nothing follows the last chunk, so nothing can be lost after it
			}
			if (tombstones.Interval{Mint: c[0].t, Maxt: c[len(c)-1].t}).IsSubrange(merged) {
				continue
			}
			all := true
			for _, x := range c {
				in := false
				for _, iv := range merged {
					if iv.InBounds(x.t) {
						in = true
						break
					}
				}
				if !in {
					all = false
					break
				}
			}
			if all {
				return true
			}
		}
	}
	return false
}

func judge(series []mSeries, reqs []mRequest, out []outSeries, info *c48Info) string {
	byLabels := map[string]*outSeries{}
	for i := range out {
		k := out[i].lset.String()
		if _, dup := byLabels[k]; dup {
			return fmt.Sprintf("series %s appears twice in the output", k)
		}
		byLabels[k] = &out[i]
	}
	seen := 0
	for _, s := range series {
		o := byLabels[s.lset.String()]
		var got []smpl
		if o != nil {
			seen++
			got = o.samples // a series without chunks is skipped by the block writer: same as absent
		}
		if len(got) == 0 {
			info.seriesGone = true
		}
		for _, r := range reqs {
			for _, m := range r.matchers {
				if !s.lset.Has(m.Name) {
					info.absentLabel = true
				}
			}
			if r.selects(s.lset) && !r.carriesAndMatches(s.lset) {
				info.grayZone = true
			}
			if r.carriesAndMatches(s.lset) {
				if len(r.intervals) == 0 {
					info.wholeSeries = true
				}
				for _, in := range r.intervals {
					for _, x := range s.all() {
						if x.t == in.Mint || x.t == in.Maxt {
							info.boundaryHit = true
						}
					}
				}
			}
		}
		gi := 0
		for _, c := range s.chunks {
			removedInChunk := 0
			for _, x := range c {
				must, may := false, false
				for _, r := range reqs {
					if !r.covers(x.t) {
						continue
					}
					if r.carriesAndMatches(s.lset) {
						must = true
					}
					if r.selects(s.lset) {
						may = true
					}
				}
				present := gi < len(got) && got[gi].t == x.t
				if present {
					if !sameBits(got[gi].v, x.v) {
						return fmt.Sprintf("series %s: sample at t=%d changed value %v -> %v", s.lset, x.t, x.v, got[gi].v)
					}
					gi++
					info.anyKept = true
					if must {
						return fmt.Sprintf("series %s: sample at t=%d lies in a requested interval of a matching request but was kept", s.lset, x.t)
					}
					continue
				}
				removedInChunk++
				info.anyRemoved = true
				if !may {
					return fmt.Sprintf("series %s: sample at t=%d was removed although no request whose selector matches the series covers it", s.lset, x.t)
				}
			}
			if removedInChunk > 0 && removedInChunk < len(c) {
				info.partialChunk = true
			}
		}
		if gi != len(got) {
			return fmt.Sprintf("series %s: output sample (t=%d, v=%v) at position %d is not an original sample in order", s.lset, got[gi].t, got[gi].v, gi)
		}
	}
	if seen != len(out) {
		return fmt.Sprintf("output holds %d series that are not in the input", len(out)-seen)
	}
	return ""
}

// checkC48 returns a violation text or "".
func checkC48(series []mSeries, reqs []mRequest, viaBlock bool) (string, c48Info) {
	var info c48Info
	for _, s := range series {
		if emptiedBySeparateIntervals(s, reqs) {
			info.emptiedBySplit = true
		}
	}
	out, err := rewriteDirect(series, reqs)
	if err != nil {
		return "direct: rewrite failed: " + err.Error(), info
	}
	if msg := judge(series, reqs, out, &info); msg != "" {
		return "direct: " + msg, info
	}
	if viaBlock {
		tmp, err := os.MkdirTemp("", "c48")
		if err != nil {
			panic(err)
		}
		defer os.RemoveAll(tmp)
		out, err := rewriteBlock(tmp, series, reqs)
		if err != nil {
			return "block: rewrite failed: " + err.Error(), info
		}
		var scratch c48Info
		if msg := judge(series, reqs, out, &scratch); msg != "" {
			return "block: " + msg, info
		}
	}
	return "", info
}

func genC48Series(rt *rapid.T) []mSeries {
	n := rapid.IntRange(1, 4).Draw(rt, "series")
	seen := map[string]bool{}
	var out []mSeries
	for i := 0; i < n; i++ {
		b := labels.NewBuilder(labels.EmptyLabels())
		if rapid.IntRange(0, 2).Draw(rt, "named") > 0 {
			b.Set("__name__", rapid.SampledFrom([]string{"m1", "m2"}).Draw(rt, "metric"))
		}
		for _, ln := range []string{"a", "b", "c"} {
			if rapid.IntRange(0, 2).Draw(rt, "has-"+ln) > 0 {
				b.Set(ln, rapid.SampledFrom([]string{"0", "1", "2"}).Draw(rt, "lv"))
			}
		}
		lset := b.Labels()
		if lset.IsEmpty() || seen[lset.String()] {
			continue
		}
		seen[lset.String()] = true
		s := mSeries{lset: lset}
		nChunks := rapid.IntRange(1, 4).Draw(rt, "chunks")
		t := int64(rapid.IntRange(0, 20).Draw(rt, "t0"))
		for c := 0; c < nChunks; c++ {
			k := rapid.IntRange(1, 6).Draw(rt, "len")
			if rapid.IntRange(0, 39).Draw(rt, "long") == 0 {
				k = rapid.IntRange(100, 140).Draw(rt, "longLen")
			}
			var ch []smpl
			for j := 0; j < k; j++ {
				ch = append(ch, smpl{t: t, v: float64(i*100000) + float64(t)})
				t += int64(rapid.SampledFrom([]int{1, 1, 2, 3, 5, 10}).Draw(rt, "dt"))
			}
			s.chunks = append(s.chunks, ch)
		}
		out = append(out, s)
	}
	if len(out) == 0 {
		out = append(out, mSeries{lset: labels.FromStrings("a", "0"), chunks: [][]smpl{{{0, 0}, {5, 5}}, {{7, 7}}}})
	}
	// blocks hold series sorted by labels
	for i := range out {
		for j := i + 1; j < len(out); j++ {
			if labels.Compare(out[j].lset, out[i].lset) < 0 {
				out[i], out[j] = out[j], out[i]
			}
		}
	}
	return out
}

func genC48Requests(rt *rapid.T, series []mSeries) []mRequest {
	var times []int64
	for _, s := range series {
		for _, x := range s.all() {
			times = append(times, x.t)
		}
	}
	pickT := func(label string) int64 {
		t := times[rapid.IntRange(0, len(times)-1).Draw(rt, label)]
		return t + int64(rapid.SampledFrom([]int{0, 0, 0, -1, 1, -2, 2}).Draw(rt, label+"off"))
	}
	n := rapid.IntRange(1, 3).Draw(rt, "requests")
	reqs := make([]mRequest, n)
	for i := range reqs {
		k := rapid.SampledFrom([]int{1, 1, 2}).Draw(rt, "matchers")
		for j := 0; j < k; j++ {
			var m *labels.Matcher
			if rapid.IntRange(0, 9).Draw(rt, "fromSeries") < 6 {
				// a matcher built from a label some series really carries
				s := series[rapid.IntRange(0, len(series)-1).Draw(rt, "ms")]
				var ls []labels.Label
				s.lset.Range(func(l labels.Label) { ls = append(ls, l) })
				l := ls[rapid.IntRange(0, len(ls)-1).Draw(rt, "ml")]
				switch rapid.IntRange(0, 4).Draw(rt, "mk") {
				case 0, 1:
					m = labels.MustNewMatcher(labels.MatchEqual, l.Name, l.Value)
				case 2:
					m = labels.MustNewMatcher(labels.MatchRegexp, l.Name, l.Value+"|9")
				case 3:
					m = labels.MustNewMatcher(labels.MatchNotEqual, l.Name, "9")
				default:
					m = labels.MustNewMatcher(labels.MatchNotRegexp, l.Name, "9|8")
				}
			} else {
				name := rapid.SampledFrom([]string{"a", "a", "b", "c", "__name__", "zz"}).Draw(rt, "mn")
				typ := rapid.SampledFrom([]labels.MatchType{labels.MatchEqual, labels.MatchEqual, labels.MatchNotEqual, labels.MatchRegexp, labels.MatchNotRegexp}).Draw(rt, "mt")
				var val string
				if name == "__name__" {
					val = rapid.SampledFrom([]string{"m1", "m2", "m.*", ".+"}).Draw(rt, "mv")
				} else {
					val = rapid.SampledFrom([]string{"0", "1", "2", "0|1", ".+", ".*", "", "9"}).Draw(rt, "mv")
				}
				m = labels.MustNewMatcher(typ, name, val)
			}
			reqs[i].matchers = append(reqs[i].matchers, m)
		}
		ni := rapid.SampledFrom([]int{0, 1, 1, 2, 2, 3}).Draw(rt, "intervals")
		for j := 0; j < ni; j++ {
			a, b := pickT("ia"), pickT("ib")
			if a > b {
				a, b = b, a
			}
			if rapid.IntRange(0, 3).Draw(rt, "point") == 0 {
				b = a // a single instant
			}
			if rapid.IntRange(0, 9).Draw(rt, "open") == 0 {
				a = -1000
			}
			reqs[i].intervals = append(reqs[i].intervals, tombstones.Interval{Mint: a, Maxt: b})
		}
	}
	return reqs
}

func TestVerifC48(t *testing.T) {
	rec := kit.For(t, "C48")
	known := kit.KnownFindings("C48")

	// Regression inputs.
	{
		s := []mSeries{{lset: labels.FromStrings("a", "1"), chunks: [][]smpl{{{0, 0}, {10, 10}}, {{20, 20}, {30, 30}}}}}
		// boundaries on sample times, one request through an absent label, one whole-series request that does not match.
		reqs := []mRequest{
			{matchers: []*labels.Matcher{labels.MustNewMatcher(labels.MatchEqual, "a", "1")}, intervals: []tombstones.Interval{{Mint: 10, Maxt: 20}}},
			{matchers: []*labels.Matcher{labels.MustNewMatcher(labels.MatchNotEqual, "zz", "1")}, intervals: []tombstones.Interval{{Mint: 0, Maxt: 0}}},
			{matchers: []*labels.Matcher{labels.MustNewMatcher(labels.MatchEqual, "a", "2")}},
		}
		if msg, _ := checkC48(s, reqs, true); msg != "" {
			rec.Violation(t, "regression boundaries: %s", msg)
		}
		// the first chunk {0,10} is emptied by the two separate intervals [0,0] and [10,10]; the second chunk must survive.
		reqs = []mRequest{{matchers: []*labels.Matcher{labels.MustNewMatcher(labels.MatchEqual, "a", "1")}, intervals: []tombstones.Interval{{Mint: 0, Maxt: 0}, {Mint: 10, Maxt: 10}}}}
		if msg, _ := checkC48(s, reqs, true); msg != "" {
			if known[sigC48EmptiedChunk] {
				rec.Known(sigC48EmptiedChunk, `{a="1"} chunks [0 10][20 30], delete [0,0] and [10,10]: `+msg)
			} else {
				rec.Violation(t, "regression chunk emptied by separate intervals: %s", msg)
			}
		}
	}

	blockBudget := kit.Scale("C48blocks", 60, 250)
	rec.Check(t, func(rt *rapid.T) {
		series := genC48Series(rt)
		reqs := genC48Requests(rt, series)
		// The block path costs several fsyncs per case: a drawn share of the cases, capped per process.
		viaBlock := rapid.IntRange(0, 19).Draw(rt, "viaBlock") == 7 && blockBudget > 0
		if viaBlock {
			blockBudget--
		}
		if known[sigC48EmptiedChunk] {
			for _, s := range series {
				if emptiedBySeparateIntervals(s, reqs) {
					rec.Excluded(sigC48EmptiedChunk)
					return
				}
			}
		}
		key := renderSeries(series) + "| " + renderRequests(reqs)
		msg, info := checkC48(series, reqs, viaBlock)
		if msg != "" {
			rt.Fatalf("C48 violated: %s\nseries: %s\nrequests: %s", msg, renderSeries(series), renderRequests(reqs))
		}
		var classes []string
		add := func(b bool, c string) {
			if b {
				classes = append(classes, c)
			}
		}
		add(info.boundaryHit, "interval-end-on-sample-time")
		add(info.absentLabel, "matcher-on-absent-label")
		add(info.grayZone, "selected-only-via-absent-label")
		add(info.partialChunk, "chunk-partially-deleted")
		add(info.wholeSeries, "whole-series-request-hit")
		add(info.seriesGone, "series-removed-completely")
		add(info.anyRemoved && info.anyKept, "some-removed-some-kept")
		add(!info.anyRemoved, "nothing-removed")
		add(viaBlock, "via-real-block")
		add(info.emptiedBySplit, "chunk-emptied-by-separate-intervals")
		rec.Case(key, info.anyRemoved && (info.boundaryHit || info.absentLabel), classes...)
	})
}
