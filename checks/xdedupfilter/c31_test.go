package xdedupfilter

// C31 Only blocks fully covered by another block are hidden as duplicates.
//
// Domain: 1..30 block metas in 1..3 compaction groups (external labels x resolution; groups that
// differ only in resolution share their source ids, as raw and downsampled blocks do), source lists
// built from level-1 ids as singletons, random subsets, chains, identical lists, supersets and unions;
// filter concurrency 1..8; every case is filtered several times from independently built maps, with
// different concurrency, optionally on a filter object that already holds the result of another sync.
//
// Oracle (independent: plain set algebra on the generated description):
//   (a) every hidden block has a kept block of the same group whose sources are a superset,
//   (b) per group the union of kept sources equals the union of all sources,
//   (c) DuplicateIDs() is exactly the hidden set (no repeats),
//   (d) nothing is invented: kept ∪ hidden = input, kept metas are the input metas,
//   (e) the kept set is the same for every run (listing order / concurrency independence).

import (
	"context"
	"fmt"
	"sort"
	"testing"

	"github.com/oklog/ulid/v2"
	"pgregory.net/rapid"

	"github.com/thanos-io/thanos/pkg/block"
	"github.com/thanos-io/thanos/pkg/block/metadata"
	"github.com/thanos-io/thanos/verifx/kit"
)

type drun struct {
	conc  int
	perm  []int
	stale bool // the filter object was used on a different input before
}

type dresult struct {
	kept   map[int]bool
	hidden map[int]bool
}

// runFilter executes the real filter for one run and checks (c) and (d); it returns the kept/hidden
// sets in terms of block indices.
func runFilter(c dcase, r drun) (dresult, string) {
	f := block.NewDeduplicateFilter(r.conc)
	ctx := context.Background()
	if r.stale {
		// a previous sync over a different view (every second block only)
		var sub []int
		for i := range c.blocks {
			if i%2 == 0 {
				sub = append(sub, i)
			}
		}
		if err := f.Filter(ctx, c.build(sub), newGaugeVec(), newGaugeVec()); err != nil {
			return dresult{}, "Filter (stale run) returned error: " + err.Error()
		}
	}
	in := c.build(r.perm)
	orig := make(map[ulid.ULID]*metadata.Meta, len(in))
	for k, v := range in {
		orig[k] = v
	}
	if err := f.Filter(ctx, in, newGaugeVec(), newGaugeVec()); err != nil {
		return dresult{}, "Filter returned error: " + err.Error()
	}
	byID := map[ulid.ULID]int{}
	for i, b := range c.blocks {
		byID[c.ids[b.id]] = i
	}
	res := dresult{kept: map[int]bool{}, hidden: map[int]bool{}}
	for id, m := range in {
		i, ok := byID[id]
		if !ok {
			return res, fmt.Sprintf("filter left an id %s that was not in the input", id)
		}
		if orig[id] != m {
			return res, fmt.Sprintf("filter replaced the meta of block b%d", c.blocks[i].id)
		}
		res.kept[i] = true
	}
	for i := range c.blocks {
		if !res.kept[i] {
			res.hidden[i] = true
		}
	}
	dups := f.DuplicateIDs()
	seen := map[ulid.ULID]bool{}
	for _, d := range dups {
		if seen[d] {
			return res, fmt.Sprintf("DuplicateIDs lists %s twice", d)
		}
		seen[d] = true
		i, ok := byID[d]
		if !ok {
			return res, fmt.Sprintf("DuplicateIDs lists %s which was not in the input", d)
		}
		if !res.hidden[i] {
			return res, fmt.Sprintf("DuplicateIDs lists b%d which is still in the metas map", c.blocks[i].id)
		}
	}
	if len(dups) != len(res.hidden) {
		return res, fmt.Sprintf("DuplicateIDs has %d entries but %d blocks were hidden", len(dups), len(res.hidden))
	}
	return res, ""
}

func keys(m map[int]bool) []int {
	out := make([]int, 0, len(m))
	for k := range m {
		out = append(out, k)
	}
	sort.Ints(out)
	return out
}

// checkC31 returns an error text (or ""), the number of hidden blocks and whether some kept block is
// only partially covered by another block of its group.
func checkC31(c dcase, runs []drun) (string, int, bool) {
	var first dresult
	for ri, r := range runs {
		res, msg := runFilter(c, r)
		if msg != "" {
			return fmt.Sprintf("run %d (conc=%d stale=%v): %s", ri, r.conc, r.stale, msg), 0, false
		}
		// (a)
		for h := range res.hidden {
			hb := c.blocks[h]
			ok := false
			for k := range res.kept {
				kb := c.blocks[k]
				if c.groups[kb.group].key() == c.groups[hb.group].key() && subset(hb.sources, kb.sources) {
					ok = true
					break
				}
			}
			if !ok {
				return fmt.Sprintf("run %d (conc=%d): hidden block b%d/G%d%v is not covered by any kept block of its group (kept=%v)", ri, r.conc, hb.id, hb.group, hb.sources, keptDesc(c, res)), 0, false
			}
		}
		// (b)
		all := map[string]map[int]bool{}
		kept := map[string]map[int]bool{}
		for i, b := range c.blocks {
			gk := c.groups[b.group].key()
			if all[gk] == nil {
				all[gk] = map[int]bool{}
				kept[gk] = map[int]bool{}
			}
			for _, s := range b.sources {
				all[gk][s] = true
				if res.kept[i] {
					kept[gk][s] = true
				}
			}
		}
		for gk, a := range all {
			for s := range a {
				if !kept[gk][s] {
					return fmt.Sprintf("run %d (conc=%d): source %d of group %s is in no kept block (kept=%v)", ri, r.conc, s, gk, keptDesc(c, res)), 0, false
				}
			}
		}
		// (e)
		if ri == 0 {
			first = res
		} else if fmt.Sprint(keys(first.kept)) != fmt.Sprint(keys(res.kept)) {
			return fmt.Sprintf("kept set differs between run 0 (conc=%d) %v and run %d (conc=%d stale=%v) %v", runs[0].conc, keys(first.kept), ri, r.conc, r.stale, keys(res.kept)), 0, false
		}
	}
	partial := false
	for k := range first.kept {
		kb := c.blocks[k]
		for j, ob := range c.blocks {
			if j == k || c.groups[ob.group].key() != c.groups[kb.group].key() {
				continue
			}
			if intersects(kb.sources, ob.sources) && !subset(kb.sources, ob.sources) {
				partial = true
			}
		}
	}
	return "", len(first.hidden), partial
}

func keptDesc(c dcase, r dresult) string {
	s := ""
	for _, k := range keys(r.kept) {
		b := c.blocks[k]
		s += fmt.Sprintf("b%d/G%d%v ", b.id, b.group, b.sources)
	}
	return s
}

var c31LabelSets = []map[string]string{
	{"cluster": "a"},
	{"cluster": "b"},
	{"cluster": "a", "replica": "1"},
	{},
}

func genC31(rt *rapid.T) (dcase, []drun) {
	var c dcase
	ng := rapid.IntRange(1, 3).Draw(rt, "groups")
	// distinct (labelset, resolution) pairs; the pool of level-1 ids belongs to the label set so that
	// raw / 5m / 1h groups of one stream share source ids.
	type gk struct {
		ls  int
		res int64
	}
	used := map[gk]bool{}
	groupLS := []int{}
	for len(c.groups) < ng {
		k := gk{rapid.IntRange(0, len(c31LabelSets)-1).Draw(rt, "ls"), rapid.SampledFrom([]int64{0, 300000, 3600000}).Draw(rt, "res")}
		if len(c.groups) > 0 && rapid.Bool().Draw(rt, "sameLabels") {
			k.ls = groupLS[0]
		}
		if used[k] {
			// deterministic repair instead of rejection: next free resolution / label set
			for _, r := range []int64{0, 300000, 3600000} {
				if !used[gk{k.ls, r}] {
					k.res = r
					break
				}
			}
			if used[k] {
				k.ls = (k.ls + 1) % len(c31LabelSets)
				for used[k] {
					k.ls = (k.ls + 1) % len(c31LabelSets)
				}
			}
		}
		used[k] = true
		groupLS = append(groupLS, k.ls)
		c.groups = append(c.groups, grp{labels: c31LabelSets[k.ls], res: k.res})
	}
	sharedPool := rapid.IntRange(0, 4).Draw(rt, "sharedPool") == 0 // all groups draw from one pool
	pools := map[int][]int{}                                       // label set -> ids
	newID := func() int {
		ms := uint64(rapid.IntRange(1, 40).Draw(rt, "ulidT"))
		ent := uint64(rapid.IntRange(0, 3).Draw(rt, "ulidE"))
		c.ids = append(c.ids, mkULID(ms, ent<<16|uint64(len(c.ids))))
		return len(c.ids) - 1
	}
	poolOf := func(g int) []int {
		k := groupLS[g]
		if sharedPool {
			k = -1
		}
		if pools[k] == nil {
			n := rapid.IntRange(1, 8).Draw(rt, "pool")
			for i := 0; i < n; i++ {
				pools[k] = append(pools[k], newID())
			}
		}
		return pools[k]
	}
	usedAsBlock := map[int]bool{}
	nb := rapid.IntRange(1, 30).Draw(rt, "blocks")
	for len(c.blocks) < nb {
		g := rapid.IntRange(0, ng-1).Draw(rt, "g")
		pool := poolOf(g)
		var same []int // existing blocks of this group
		for i, b := range c.blocks {
			if b.group == g {
				same = append(same, i)
			}
		}
		kind := rapid.IntRange(0, 6).Draw(rt, "kind")
		var b bmeta
		b.group = g
		switch {
		case kind == 0: // level-1 block: its own id is its only source
			p := pool[rapid.IntRange(0, len(pool)-1).Draw(rt, "p")]
			if usedAsBlock[p] {
				b.id = newID()
			} else {
				b.id = p
				usedAsBlock[p] = true
			}
			b.sources = []int{p}
		case kind == 1: // contiguous range (chains of compactions)
			lo := rapid.IntRange(0, len(pool)-1).Draw(rt, "lo")
			hi := rapid.IntRange(lo, len(pool)-1).Draw(rt, "hi")
			b.id = newID()
			b.sources = append([]int(nil), pool[lo:hi+1]...)
		case kind == 2 && len(same) > 0: // identical source list
			o := c.blocks[same[rapid.IntRange(0, len(same)-1).Draw(rt, "o")]]
			b.id = newID()
			b.sources = append([]int(nil), o.sources...)
		case kind == 3 && len(same) > 0: // superset of an existing block
			o := c.blocks[same[rapid.IntRange(0, len(same)-1).Draw(rt, "o")]]
			b.id = newID()
			b.sources = append([]int(nil), o.sources...)
			for k := rapid.IntRange(1, 2).Draw(rt, "extra"); k > 0; k-- {
				p := pool[rapid.IntRange(0, len(pool)-1).Draw(rt, "p")]
				if !subset([]int{p}, b.sources) {
					b.sources = append(b.sources, p)
				}
			}
		case kind == 4 && len(same) > 1: // union of two existing blocks
			o1 := c.blocks[same[rapid.IntRange(0, len(same)-1).Draw(rt, "o1")]]
			o2 := c.blocks[same[rapid.IntRange(0, len(same)-1).Draw(rt, "o2")]]
			b.id = newID()
			b.sources = append([]int(nil), o1.sources...)
			for _, s := range o2.sources {
				if !subset([]int{s}, b.sources) {
					b.sources = append(b.sources, s)
				}
			}
		default: // random non-empty subset
			b.id = newID()
			for _, p := range pool {
				if rapid.Bool().Draw(rt, "in") {
					b.sources = append(b.sources, p)
				}
			}
			if len(b.sources) == 0 {
				b.sources = []int{pool[rapid.IntRange(0, len(pool)-1).Draw(rt, "p")]}
			}
		}
		// a source list may name an id more than once (nothing normalises meta.json files read from the
		// bucket); the oracle works on sets, so repeats must not change any verdict
		if rapid.IntRange(0, 5).Draw(rt, "repeatSources") == 0 {
			for k := rapid.IntRange(1, 2).Draw(rt, "repeats"); k > 0; k-- {
				b.sources = append(b.sources, b.sources[rapid.IntRange(0, len(b.sources)-1).Draw(rt, "repeatIdx")])
			}
			c.repeated = true
		}
		if len(b.sources) > 1 {
			b.sources = rapid.Permutation(b.sources).Draw(rt, "srcOrder")
		}
		c.blocks = append(c.blocks, b)
	}
	idx := make([]int, len(c.blocks))
	for i := range idx {
		idx[i] = i
	}
	nr := rapid.IntRange(2, 3).Draw(rt, "runs")
	var runs []drun
	for i := 0; i < nr; i++ {
		runs = append(runs, drun{
			conc:  rapid.IntRange(1, 8).Draw(rt, "conc"),
			perm:  rapid.Permutation(idx).Draw(rt, "perm"),
			stale: i > 0 && rapid.Bool().Draw(rt, "stale"),
		})
	}
	return c, runs
}

func TestVerifC31(t *testing.T) {
	rec := kit.For(t, "C31")
	// plain inputs: chain, identical lists, raw/downsampled groups sharing sources, partial overlap
	{
		c := dcase{
			ids:    []ulid.ULID{mkULID(1, 1), mkULID(2, 2), mkULID(3, 3), mkULID(4, 4), mkULID(5, 5), mkULID(6, 6), mkULID(7, 7)},
			groups: []grp{{labels: map[string]string{"cluster": "a"}, res: 0}, {labels: map[string]string{"cluster": "a"}, res: 300000}},
			blocks: []bmeta{
				{id: 0, group: 0, sources: []int{0}}, {id: 1, group: 0, sources: []int{1}}, {id: 2, group: 0, sources: []int{2}},
				{id: 3, group: 0, sources: []int{0, 1}}, {id: 4, group: 0, sources: []int{1, 0}}, {id: 5, group: 0, sources: []int{1, 2}},
				{id: 6, group: 1, sources: []int{0, 1, 2}},
			},
		}
		msg, hidden, partial := checkC31(c, []drun{{conc: 1, perm: []int{0, 1, 2, 3, 4, 5, 6}}, {conc: 4, perm: []int{6, 5, 4, 3, 2, 1, 0}, stale: true}})
		if msg != "" {
			rec.Violation(t, "plain input: %s\ncase: %s", msg, c.render())
		}
		// b0,b1,b2 covered by b3/b5; b4 identical to b3 (younger id hidden); the 5m block must not hide raw blocks
		if hidden != 4 || !partial {
			t.Fatalf("harness self-check: expected 4 hidden blocks and a partial overlap, got hidden=%d partial=%v", hidden, partial)
		}
		rec.Case("plain:"+c.render(), true, "plain-input")
	}
	rec.Check(t, func(rt *rapid.T) {
		c, runs := genC31(rt)
		msg, hidden, partial := checkC31(c, runs)
		if msg != "" {
			rt.Fatalf("C31 violated: %s\ncase: %s", msg, c.render())
		}
		classes := []string{fmt.Sprintf("groups-%d", len(c.groups))}
		if hidden > 0 {
			classes = append(classes, "hidden")
		}
		if partial {
			classes = append(classes, "partial-overlap")
		}
		shareLabels := false
		for i := range c.groups {
			for j := i + 1; j < len(c.groups); j++ {
				if fmt.Sprint(c.groups[i].labels) == fmt.Sprint(c.groups[j].labels) {
					shareLabels = true
				}
			}
		}
		if shareLabels {
			classes = append(classes, "groups-differ-in-resolution-only")
		}
		for _, r := range runs {
			if r.stale {
				classes = append(classes, "reused-filter")
				break
			}
		}
		if c.repeated {
			classes = append(classes, "repeated-source-ids")
		}
		rec.Case(c.render(), hidden > 0 && partial, classes...)
	})
}
