package xdedupfilter

import (
	"encoding/binary"
	"fmt"
	"sort"
	"strings"

	"github.com/oklog/ulid/v2"
	"github.com/prometheus/client_golang/prometheus"
	"github.com/prometheus/prometheus/tsdb"

	"github.com/thanos-io/thanos/pkg/block/metadata"
)

// mkULID builds a ULID from a millisecond time and a 64-bit entropy value (no RNG involved).
func mkULID(ms uint64, ent uint64) ulid.ULID {
	var u ulid.ULID
	_ = u.SetTime(ms)
	var e [10]byte
	binary.BigEndian.PutUint64(e[2:], ent)
	_ = u.SetEntropy(e[:])
	return u
}

// bmeta is the check's own description of a block: which group (index into the case's group list),
// which id, and which source ids (indices into the case's id table).
type bmeta struct {
	id      int
	group   int
	sources []int
}

type grp struct {
	labels map[string]string
	res    int64
}

func (g grp) key() string {
	ks := make([]string, 0, len(g.labels))
	for k := range g.labels {
		ks = append(ks, k)
	}
	sort.Strings(ks)
	var sb strings.Builder
	fmt.Fprintf(&sb, "%d@", g.res)
	for _, k := range ks {
		fmt.Fprintf(&sb, "%s=%q,", k, g.labels[k])
	}
	return sb.String()
}

type dcase struct {
	ids    []ulid.ULID // id table (block ids and source ids)
	groups []grp
	blocks []bmeta
	// repeated: some source list names an id more than once
	repeated bool
}

func (c dcase) render() string {
	var sb strings.Builder
	for gi, g := range c.groups {
		fmt.Fprintf(&sb, "G%d{%s} ", gi, g.key())
	}
	for _, b := range c.blocks {
		fmt.Fprintf(&sb, "b%d/G%d%v ", b.id, b.group, b.sources)
	}
	fmt.Fprintf(&sb, "order=")
	// relative ULID order matters for ties
	idx := make([]int, len(c.ids))
	for i := range idx {
		idx[i] = i
	}
	sort.Slice(idx, func(i, j int) bool { return c.ids[idx[i]].Compare(c.ids[idx[j]]) < 0 })
	fmt.Fprintf(&sb, "%v", idx)
	return sb.String()
}

// build creates a fresh metas map; insertion order is given by perm (map iteration order is Go's own).
func (c dcase) build(perm []int) map[ulid.ULID]*metadata.Meta {
	out := make(map[ulid.ULID]*metadata.Meta, len(c.blocks))
	for _, bi := range perm {
		b := c.blocks[bi]
		m := &metadata.Meta{}
		m.Version = metadata.TSDBVersion1
		m.ULID = c.ids[b.id]
		m.MinTime = 0
		m.MaxTime = 1000
		m.Compaction = tsdb.BlockMetaCompaction{Level: 1}
		if len(b.sources) > 1 {
			m.Compaction.Level = 2
		}
		for _, s := range b.sources {
			m.Compaction.Sources = append(m.Compaction.Sources, c.ids[s])
		}
		lbls := map[string]string{}
		for k, v := range c.groups[b.group].labels {
			lbls[k] = v
		}
		m.Thanos = metadata.Thanos{Version: metadata.ThanosVersion1, Labels: lbls, Downsample: metadata.ThanosDownsample{Resolution: c.groups[b.group].res}}
		out[m.ULID] = m
	}
	return out
}

func newGaugeVec() *prometheus.GaugeVec {
	return prometheus.NewGaugeVec(prometheus.GaugeOpts{Name: "verif_synced"}, []string{"state"})
}

func subset(a, b []int) bool { // a ⊆ b
	for _, x := range a {
		f := false
		for _, y := range b {
			if x == y {
				f = true
				break
			}
		}
		if !f {
			return false
		}
	}
	return true
}

func intersects(a, b []int) bool {
	for _, x := range a {
		for _, y := range b {
			if x == y {
				return true
			}
		}
	}
	return false
}
