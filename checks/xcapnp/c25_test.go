package xcapnp

// C25 (client -> server variant): the same kind of write requests as checks/writecapnpi, but sent by the
// real writecapnp.RemoteWriteClient over an in-memory listener to a real receive.CapNProtoServer /
// CapNProtoHandler / CapNProtoWriter whose TenantStorage records every append. This adds the RPC
// transport (packed stream, message framing, call parameters built inside the transport's arena) and the
// server-side read loop to the round trip.
//
// Domain restriction (behaviour of the writer, not of the encoding): series carry valid label sets
// (sorted, unique, non-empty names and values) and exemplars carry >= 1 valid label, because
// CapNProtoWriter skips everything else; exemplars of a series without samples and histograms are
// dropped by design (no series reference) and are expected to be dropped. Histograms whose count and
// zero_count flavours differ are never sent here: that known defect panics inside the server goroutine
// and would take the whole test process down (it is asserted / reported by the writecapnpi group).
//
// Oracle: the recorded appends per tenant equal the appends derived from the request itself (histograms
// converted with prompb.HistogramProtoToHistogram / FloatHistogramProtoToFloatHistogram, i.e. what the
// protobuf replication path appends).

import (
	"context"
	"fmt"
	"math"
	"sort"
	"strings"
	"sync"
	"testing"

	"github.com/go-kit/log"
	"github.com/prometheus/client_golang/prometheus"
	"github.com/prometheus/prometheus/model/exemplar"
	"github.com/prometheus/prometheus/model/histogram"
	"github.com/prometheus/prometheus/model/labels"
	"github.com/prometheus/prometheus/storage"
	"google.golang.org/grpc/test/bufconn"
	"pgregory.net/rapid"

	"github.com/thanos-io/thanos/pkg/receive"
	"github.com/thanos-io/thanos/pkg/receive/writecapnp"
	"github.com/thanos-io/thanos/pkg/store/labelpb"
	"github.com/thanos-io/thanos/pkg/store/storepb"
	"github.com/thanos-io/thanos/pkg/store/storepb/prompb"
	"github.com/thanos-io/thanos/verifx/kit"
)

const sigCustomValues = "C25/histogram-custom-values-dropped"

// ---------------------------------------------------------------------------------------------
// recording storage

type recStore struct {
	mu   sync.Mutex
	byT  map[string][]string // tenant -> rendered appends, in order
	tOrd []string            // tenants in the order their appenders were requested
}

func (s *recStore) reset() {
	s.mu.Lock()
	s.byT, s.tOrd = map[string][]string{}, nil
	s.mu.Unlock()
}

func (s *recStore) TenantAppendable(tenant string) (receive.Appendable, error) {
	return &recAppendable{s: s, tenant: strings.Clone(tenant)}, nil
}

type recAppendable struct {
	s      *recStore
	tenant string
}

func (a *recAppendable) Appender(context.Context) (storage.Appender, error) {
	a.s.mu.Lock()
	a.s.tOrd = append(a.s.tOrd, a.tenant)
	a.s.mu.Unlock()
	return &recAppender{s: a.s, tenant: a.tenant}, nil
}

// recAppender implements the methods CapNProtoWriter uses; the embedded nil interface makes any other
// call panic loudly instead of being silently ignored.
type recAppender struct {
	storage.Appender
	s      *recStore
	tenant string
	buf    []string
}

func (a *recAppender) GetRef(labels.Labels, uint64) (storage.SeriesRef, labels.Labels) {
	return 0, labels.EmptyLabels()
}

func (a *recAppender) Append(_ storage.SeriesRef, l labels.Labels, t int64, v float64) (storage.SeriesRef, error) {
	a.buf = append(a.buf, fmt.Sprintf("S %s %d %#x", renderLabels(l), t, math.Float64bits(v)))
	return 1, nil
}

func (a *recAppender) AppendHistogram(_ storage.SeriesRef, l labels.Labels, t int64, h *histogram.Histogram, fh *histogram.FloatHistogram) (storage.SeriesRef, error) {
	a.buf = append(a.buf, fmt.Sprintf("H %s %d %s", renderLabels(l), t, renderHist(h, fh, false)))
	return 1, nil
}

func (a *recAppender) AppendExemplar(_ storage.SeriesRef, l labels.Labels, e exemplar.Exemplar) (storage.SeriesRef, error) {
	a.buf = append(a.buf, fmt.Sprintf("E %s %s %#x %d hasTs=%v", renderLabels(l), renderLabels(e.Labels), math.Float64bits(e.Value), e.Ts, e.HasTs))
	return 1, nil
}

func (a *recAppender) Commit() error {
	a.s.mu.Lock()
	a.s.byT[a.tenant] = append(a.s.byT[a.tenant], a.buf...)
	a.s.mu.Unlock()
	return nil
}

func (a *recAppender) Rollback() error { return nil }

// ---------------------------------------------------------------------------------------------
// rendering (the comparison is textual; floats are rendered by their bits)

func renderLabels(l labels.Labels) string {
	var sb strings.Builder
	sb.WriteByte('{')
	l.Range(func(x labels.Label) {
		fmt.Fprintf(&sb, "%q=%q,", x.Name, x.Value)
	})
	sb.WriteByte('}')
	return sb.String()
}

func bitsOf(fs []float64) string {
	var sb strings.Builder
	for _, f := range fs {
		fmt.Fprintf(&sb, "%#x ", math.Float64bits(f))
	}
	return sb.String()
}

func renderSpans(s []histogram.Span) string {
	var sb strings.Builder
	for _, x := range s {
		fmt.Fprintf(&sb, "%d:%d ", x.Offset, x.Length)
	}
	return sb.String()
}

func renderHist(h *histogram.Histogram, fh *histogram.FloatHistogram, ignoreCustom bool) string {
	if h != nil && fh != nil {
		return "BOTH"
	}
	if h != nil {
		cv := bitsOf(h.CustomValues)
		if ignoreCustom {
			cv = "-"
		}
		return fmt.Sprintf("int rh=%d sch=%d zt=%#x zc=%d c=%d sum=%#x ps=[%s] ns=[%s] pb=%v nb=%v cv=[%s]", h.CounterResetHint, h.Schema,
			math.Float64bits(h.ZeroThreshold), h.ZeroCount, h.Count, math.Float64bits(h.Sum), renderSpans(h.PositiveSpans), renderSpans(h.NegativeSpans),
			append([]int64{}, h.PositiveBuckets...), append([]int64{}, h.NegativeBuckets...), cv)
	}
	if fh != nil {
		cv := bitsOf(fh.CustomValues)
		if ignoreCustom {
			cv = "-"
		}
		return fmt.Sprintf("float rh=%d sch=%d zt=%#x zc=%#x c=%#x sum=%#x ps=[%s] ns=[%s] pb=[%s] nb=[%s] cv=[%s]", fh.CounterResetHint, fh.Schema,
			math.Float64bits(fh.ZeroThreshold), math.Float64bits(fh.ZeroCount), math.Float64bits(fh.Count), math.Float64bits(fh.Sum),
			renderSpans(fh.PositiveSpans), renderSpans(fh.NegativeSpans), bitsOf(fh.PositiveBuckets), bitsOf(fh.NegativeBuckets), cv)
	}
	return "NONE"
}

// expectedAppends derives what the peer must append for one tenant's series.
func expectedAppends(series []prompb.TimeSeries) []string {
	var out []string
	for _, ts := range series {
		l := renderLabels(labelpb.ZLabelsToPromLabels(ts.Labels))
		for _, s := range ts.Samples {
			out = append(out, fmt.Sprintf("S %s %d %#x", l, s.Timestamp, math.Float64bits(s.Value)))
		}
		for _, hp := range ts.Histograms {
			var (
				h  *histogram.Histogram
				fh *histogram.FloatHistogram
			)
			if hp.IsFloatHistogram() {
				fh = prompb.FloatHistogramProtoToFloatHistogram(hp)
			} else {
				h = prompb.HistogramProtoToHistogram(hp)
			}
			out = append(out, fmt.Sprintf("H %s %d %s", l, hp.Timestamp, renderHist(h, fh, false)))
		}
		if len(ts.Samples)+len(ts.Histograms) > 0 { // otherwise there is no series reference: exemplars are dropped by design
			for _, e := range ts.Exemplars {
				out = append(out, fmt.Sprintf("E %s %s %#x %d hasTs=true", l, renderLabels(labelpb.ZLabelsToPromLabels(e.Labels)), math.Float64bits(e.Value), e.Timestamp))
			}
		}
	}
	return out
}

// ---------------------------------------------------------------------------------------------
// generators

var fixedStrings = []string{"a", "b", "__name__", "job", "le", "a:b", "a=b", "é", "日本語", "a\xffb", "\xf0\x9f\x98\x80", " ", "0", "up"}

func genNonEmpty(t *rapid.T, pool []string, label string) string {
	if len(pool) > 0 && rapid.IntRange(0, 9).Draw(t, label+"P") < 7 {
		return pool[rapid.IntRange(0, len(pool)-1).Draw(t, label+"I")]
	}
	switch rapid.IntRange(0, 3).Draw(t, label+"K") {
	case 0, 1:
		return rapid.SampledFrom(fixedStrings).Draw(t, label)
	case 2:
		return rapid.StringN(1, 6, 12).Draw(t, label)
	default:
		return strings.Repeat("x", rapid.IntRange(1, 40).Draw(t, label))
	}
}

// genValidLabels: sorted by name, unique names, non-empty names and values, n >= 1.
func genValidLabels(t *rapid.T, pool []string, max int, label string) []labelpb.ZLabel {
	n := rapid.IntRange(1, max).Draw(t, label+"N")
	m := map[string]string{}
	for i := 0; i < n; i++ {
		m[genNonEmpty(t, pool, label+"n")] = genNonEmpty(t, pool, label+"v")
	}
	names := make([]string, 0, len(m))
	for k := range m {
		names = append(names, k)
	}
	sort.Strings(names)
	out := make([]labelpb.ZLabel, 0, len(names))
	for _, k := range names {
		out = append(out, labelpb.ZLabel{Name: k, Value: m[k]})
	}
	return out
}

func genFloat(t *rapid.T, label string) float64 {
	switch rapid.IntRange(0, 3).Draw(t, label+"K") {
	case 0:
		return float64(rapid.IntRange(-5, 5).Draw(t, label))
	case 1:
		return rapid.SampledFrom([]float64{0, math.Copysign(0, -1), math.Inf(1), math.NaN(), math.Float64frombits(0x7ff0000000000002), math.MaxFloat64}).Draw(t, label)
	default:
		return math.Float64frombits(rapid.Uint64().Draw(t, label))
	}
}

func genSpans(t *rapid.T, label string) []prompb.BucketSpan {
	n := rapid.IntRange(0, 3).Draw(t, label+"N")
	var out []prompb.BucketSpan
	for i := 0; i < n; i++ {
		out = append(out, prompb.BucketSpan{Offset: int32(rapid.IntRange(-4, 4).Draw(t, label+"o")), Length: uint32(rapid.IntRange(0, 4).Draw(t, label+"l"))})
	}
	return out
}

func genHist(t *rapid.T, allowCustom bool, excl *bool) prompb.Histogram {
	h := prompb.Histogram{
		Sum: genFloat(t, "hsum"), ZeroThreshold: genFloat(t, "hzt"), Timestamp: rapid.Int64().Draw(t, "hts"),
		ResetHint: prompb.Histogram_ResetHint(rapid.IntRange(0, 3).Draw(t, "hrh")),
		Schema:    rapid.SampledFrom([]int32{-53, -4, 0, 3, 8}).Draw(t, "hsch"),
	}
	h.PositiveSpans, h.NegativeSpans = genSpans(t, "hps"), genSpans(t, "hns")
	// count and zero_count always of one flavour (see the file comment)
	if rapid.Bool().Draw(t, "hfloat") {
		h.Count = &prompb.Histogram_CountFloat{CountFloat: genFloat(t, "hcf")}
		h.ZeroCount = &prompb.Histogram_ZeroCountFloat{ZeroCountFloat: genFloat(t, "hzf")}
		for i, n := 0, rapid.IntRange(0, 4).Draw(t, "hpcN"); i < n; i++ {
			h.PositiveCounts = append(h.PositiveCounts, genFloat(t, "hpc"))
		}
		for i, n := 0, rapid.IntRange(0, 4).Draw(t, "hncN"); i < n; i++ {
			h.NegativeCounts = append(h.NegativeCounts, genFloat(t, "hnc"))
		}
	} else {
		h.Count = &prompb.Histogram_CountInt{CountInt: rapid.Uint64().Draw(t, "hc")}
		if rapid.Bool().Draw(t, "hzset") {
			h.ZeroCount = &prompb.Histogram_ZeroCountInt{ZeroCountInt: rapid.Uint64().Draw(t, "hz")}
		}
		for i, n := 0, rapid.IntRange(0, 4).Draw(t, "hpdN"); i < n; i++ {
			h.PositiveDeltas = append(h.PositiveDeltas, rapid.Int64().Draw(t, "hpd"))
		}
		for i, n := 0, rapid.IntRange(0, 4).Draw(t, "hndN"); i < n; i++ {
			h.NegativeDeltas = append(h.NegativeDeltas, rapid.Int64().Draw(t, "hnd"))
		}
	}
	if rapid.IntRange(0, 3).Draw(t, "hcvK") == 0 {
		if allowCustom {
			h.CustomValues = []float64{genFloat(t, "hcv"), genFloat(t, "hcv")}
		} else {
			*excl = true
		}
	}
	return h
}

type tenantData struct {
	Name   string
	Series []prompb.TimeSeries
}

func genTenants(t *rapid.T, multi, allowCustom bool, excl *bool) []tenantData {
	var pool []string
	for i, n := 0, rapid.IntRange(0, 6).Draw(t, "poolN"); i < n; i++ {
		pool = append(pool, genNonEmpty(t, nil, "pool"))
	}
	nt := 1
	if multi {
		nt = rapid.IntRange(1, 3).Draw(t, "tenants")
	}
	// distinct tenant names, as the handler's map guarantees
	names := rapid.SliceOfNDistinct(rapid.SampledFrom([]string{"default-tenant", "a", "b", "tenant:1", "ünï", "t-3"}), nt, nt, rapid.ID[string]).Draw(t, "tenantNames")
	var out []tenantData
	for _, name := range names {
		td := tenantData{Name: name}
		for j, ns := 0, rapid.IntRange(0, 6).Draw(t, "series"); j < ns; j++ {
			ts := prompb.TimeSeries{Labels: genValidLabels(t, pool, 5, "l")}
			for i, n := 0, rapid.IntRange(0, 4).Draw(t, "nS"); i < n; i++ {
				ts.Samples = append(ts.Samples, prompb.Sample{Timestamp: rapid.Int64().Draw(t, "st"), Value: genFloat(t, "sv")})
			}
			for i, n := 0, rapid.IntRange(0, 4).Draw(t, "nH")-2; i < n; i++ {
				ts.Histograms = append(ts.Histograms, genHist(t, allowCustom, excl))
			}
			for i, n := 0, rapid.IntRange(0, 4).Draw(t, "nE")-2; i < n; i++ {
				ts.Exemplars = append(ts.Exemplars, prompb.Exemplar{Labels: genValidLabels(t, pool, 3, "el"), Value: genFloat(t, "ev"), Timestamp: rapid.Int64().Draw(t, "et")})
			}
			td.Series = append(td.Series, ts)
		}
		out = append(out, td)
	}
	return out
}

func renderCase(multi bool, tds []tenantData) string {
	var sb strings.Builder
	fmt.Fprintf(&sb, "multi=%v", multi)
	for _, td := range tds {
		fmt.Fprintf(&sb, " | tenant %q:", td.Name)
		for _, l := range expectedAppends(td.Series) {
			sb.WriteString(" [" + l + "]")
		}
		fmt.Fprintf(&sb, " (%d series)", len(td.Series))
	}
	return sb.String()
}

func TestVerifC25_ClientServer(t *testing.T) {
	rec := kit.For(t, "C25")
	known := kit.KnownFindings("C25")
	allowCustom := !known[sigCustomValues]

	store := &recStore{}
	store.reset()
	writer := receive.NewCapNProtoWriter(log.NewNopLogger(), store, &receive.CapNProtoWriterOptions{})
	listener := bufconn.Listen(1 << 16)
	handler := receive.NewCapNProtoHandler(prometheus.NewRegistry(), log.NewNopLogger(), writer)
	srv := receive.NewCapNProtoServer(listener, handler, log.NewNopLogger())
	srvDone := make(chan struct{})
	go func() {
		defer close(srvDone)
		_ = srv.ListenAndServe()
	}()
	client := writecapnp.NewRemoteWriteClient(listener, log.NewNopLogger())
	t.Cleanup(func() {
		_ = client.Close()
		srv.Shutdown()
		_ = listener.Close()
		<-srvDone
	})

	rec.Check(t, func(rt *rapid.T) {
		multi := rapid.IntRange(0, 3).Draw(rt, "multi") > 0
		excl := false
		tds := genTenants(rt, multi, allowCustom, &excl)
		if excl {
			rec.Excluded(sigCustomValues)
		}
		req := &storepb.WriteRequest{Replica: 1}
		if multi {
			for _, td := range tds {
				req.TimeseriesTenantData = append(req.TimeseriesTenantData, storepb.TimeSeriesTenantTuple{Tenant: td.Name, Timeseries: td.Series})
			}
		} else {
			req.Tenant, req.Timeseries = tds[0].Name, tds[0].Series
		}
		store.reset()
		if _, err := client.RemoteWrite(context.Background(), req); err != nil {
			rt.Fatalf("C25 violated: RemoteWrite failed: %v\ncase: %s", err, renderCase(multi, tds))
		}
		store.mu.Lock()
		got, order := store.byT, append([]string{}, store.tOrd...)
		store.mu.Unlock()
		if len(order) != len(tds) {
			rt.Fatalf("C25 violated: the peer opened appenders for tenants %q, request has %d tenants\ncase: %s", order, len(tds), renderCase(multi, tds))
		}
		hists, exs, series, shared := 0, 0, 0, false
		seen := map[string]int{}
		for i, td := range tds {
			if order[i] != td.Name {
				rt.Fatalf("C25 violated: tenant[%d] arrived as %q, sent %q\ncase: %s", i, order[i], td.Name, renderCase(multi, tds))
			}
			want := expectedAppends(td.Series)
			have := got[td.Name]
			if len(want) != len(have) {
				rt.Fatalf("C25 violated: tenant %q: %d appends on the peer, %d expected\n got: %q\nwant: %q", td.Name, len(have), len(want), have, want)
			}
			for j := range want {
				if want[j] != have[j] {
					rt.Fatalf("C25 violated: tenant %q append %d differs\n got: %s\nwant: %s\ncase: %s", td.Name, j, have[j], want[j], renderCase(multi, tds))
				}
			}
			for _, ts := range td.Series {
				series++
				hists += len(ts.Histograms)
				exs += len(ts.Exemplars)
				used := map[string]bool{}
				for _, l := range ts.Labels {
					used[l.Name], used[l.Value] = true, true
				}
				for s := range used {
					seen[s]++
					if seen[s] >= 2 {
						shared = true
					}
				}
			}
		}
		var classes []string
		if multi {
			classes = append(classes, "x-multi-tenant-request")
		} else {
			classes = append(classes, "x-single-tenant-request")
		}
		if hists > 0 {
			classes = append(classes, "x-histograms")
		}
		if exs > 0 {
			classes = append(classes, "x-exemplars")
		}
		if shared {
			classes = append(classes, "x-shared-symbols")
		}
		rec.Case("x "+renderCase(multi, tds), series >= 2 && shared && (hists > 0 || exs > 0), classes...)
	})
}
