package xcompactplan

// C34 Compactor and store gateway delays keep data queryable (model driven by the real components).
//
// A history is a script of actions over a VIRTUAL clock (minutes): advance(dt), store_i.sync,
// compactor.upload(result of >=2 blocks of one group taken from the compactor's own synced view),
// compactor.markSources (all or only a prefix of the sources: crash in between), compactor.gc
// (real Syncer.GarbageCollect: the crash-recovery path that marks what the dedup filter calls duplicate),
// compactor.clean (real BlocksCleaner). The bucket is a real in-memory bucket holding meta.json files and
// deletion marks. All decisions are taken by the real code: store view = MetaFetcher with
// IgnoreDeletionMarkFilter(storeDelay) + DefaultDeduplicateFilter; compactor view = MetaFetcher with
// IgnoreDeletionMarkFilter(deleteDelay/2) + DefaultDeduplicateFilter inside the real Syncer; cleaner =
// BlocksCleaner(deleteDelay). Because the real code reads the wall clock, before every consultation at
// virtual time T every deletion mark is rewritten with DeletionTime = realNow - (T - markedAtVirtual).
// Virtual times are whole minutes, the delays are whole minutes + 30 s (deleteDelay/2: + 15 s), so a few
// seconds of real-time drift cannot flip a comparison (a consultation that takes > 5 s discards the case).
//
// The scheduler enforces the lag bound of the statement: no store is ever allowed to go longer than
// L < deleteDelay - storeDelay without a sync (a store that would is synced first).
//
// Oracle, after every action: every data unit (level-1 block id) is contained in the sources of some block
// that some store has loaded (result of its last real sync) and whose meta.json still exists in the bucket.
// Self-test: the same machinery with the lag bound switched off must produce violations (scripted history
// and a seeded random search), otherwise the check reports itself as broken.

import (
	"context"
	"fmt"
	"path"
	"sort"
	"strings"
	"testing"
	"time"

	"github.com/oklog/ulid/v2"
	"github.com/prometheus/prometheus/tsdb"
	"pgregory.net/rapid"

	"github.com/thanos-io/thanos/pkg/block"
	"github.com/thanos-io/thanos/pkg/block/metadata"
	"github.com/thanos-io/thanos/pkg/compact"
	"github.com/thanos-io/thanos/verifx/kit"
)

const (
	aAdvance = iota
	aSync
	aUpload
	aMark
	aGC
	aClean
)

var c34ActNames = []string{"adv", "sync", "upload", "mark", "gc", "clean"}

type c34act struct {
	kind    int
	a, b, c int
}

type c34case struct {
	dMin    int // deleteDelay = dMin minutes + 30 s (dMin even, so deleteDelay/2 = dMin/2 minutes + 15 s)
	sMin    int // storeDelay  = sMin minutes + 30 s
	lMin    int // max sync lag in minutes; bounded histories: lMin < dMin - sMin
	stores  int
	blocks  int
	groups  int
	bounded bool
	acts    []c34act
}

func (c *c34case) render() string {
	var sb strings.Builder
	fmt.Fprintf(&sb, "D=%dm30s S=%dm30s L=%dm stores=%d blocks=%d groups=%d bounded=%v:", c.dMin, c.sMin, c.lMin, c.stores, c.blocks, c.groups, c.bounded)
	for _, a := range c.acts {
		fmt.Fprintf(&sb, " %s(%d,%d,%d)", c34ActNames[a.kind], a.a, a.b, a.c)
	}
	return sb.String()
}

type c34store struct {
	fetcher  *block.MetaFetcher
	loaded   map[ulid.ULID]bool
	lastSync int
}

type c34out struct {
	inconclusive bool
	deleted      int  // blocks really deleted by the cleaner
	switched     bool // a deleted block was loaded by some store when it was marked (the store had to move to the replacement)
	tight        bool // at deletion some store was at (or one minute from) its maximal allowed lag
	gcMarked     bool
	uploads      int
	forcedSyncs  int
	trace        []string
}

type c34world struct {
	c            *c34case
	bkt          *tbucket
	T            int
	sources      map[ulid.ULID][]ulid.ULID
	group        map[ulid.ULID]int
	units        []ulid.ULID
	name         map[ulid.ULID]string
	markedAt     map[ulid.ULID]int
	loadedAtMark map[ulid.ULID]bool
	stores       []*c34store
	sy           *compact.Syncer
	cleaner      *compact.BlocksCleaner
	pending      []ulid.ULID
	serial       int
	out          *c34out
}

func (w *c34world) markIDs() []ulid.ULID {
	var out []ulid.ULID
	for name := range w.bkt.mem.Objects() {
		if strings.HasSuffix(name, "/"+metadata.DeletionMarkFilename) {
			if id, err := ulid.Parse(strings.TrimSuffix(name, "/"+metadata.DeletionMarkFilename)); err == nil {
				out = append(out, id)
			}
		}
	}
	sort.Slice(out, func(i, j int) bool { return out[i].Compare(out[j]) < 0 })
	return out
}

// noteNewMarks records the virtual time of marks that appeared since the last look.
func (w *c34world) noteNewMarks() {
	for _, id := range w.markIDs() {
		if _, ok := w.markedAt[id]; !ok {
			w.markedAt[id] = w.T
			for _, s := range w.stores {
				if s.loaded[id] {
					w.loadedAtMark[id] = true
				}
			}
		}
	}
}

// consult runs real code at virtual time T: marks are re-dated first.
func (w *c34world) consult(fn func() error) (string, bool) {
	w.noteNewMarks()
	start := time.Now()
	nowSec := start.Unix()
	for _, id := range w.markIDs() {
		if err := w.bkt.putDeletionMark(id, nowSec-int64(w.T-w.markedAt[id])*60); err != nil {
			return "harness: " + err.Error(), false
		}
	}
	err := fn()
	if time.Since(start) > 5*time.Second {
		return "", false
	}
	if err != nil {
		return "real component returned error: " + err.Error(), true
	}
	w.noteNewMarks()
	return "", true
}

func (w *c34world) hasMeta(id ulid.ULID) bool {
	return w.bkt.exists(path.Join(id.String(), block.MetaFilename))
}

// invariant returns "" or a description of an unserved data unit.
func (w *c34world) invariant() string {
	for _, u := range w.units {
		served := false
	stores:
		for _, s := range w.stores {
			for b := range s.loaded {
				if !w.hasMeta(b) {
					continue
				}
				for _, src := range w.sources[b] {
					if src == u {
						served = true
						break stores
					}
				}
			}
		}
		if !served {
			var sb strings.Builder
			for i, s := range w.stores {
				fmt.Fprintf(&sb, " store%d(lastSync=%d){", i, s.lastSync)
				var l []string
				for b := range s.loaded {
					x := w.name[b]
					if !w.hasMeta(b) {
						x += "(deleted)"
					}
					l = append(l, x)
				}
				sort.Strings(l)
				sb.WriteString(strings.Join(l, " ") + "}")
			}
			return fmt.Sprintf("at virtual minute %d data unit %s is served by no store:%s", w.T, w.name[u], sb.String())
		}
	}
	return ""
}

func (w *c34world) syncStore(i int) (string, bool) {
	s := w.stores[i]
	return w.consult(func() error {
		metas, _, err := s.fetcher.Fetch(context.Background())
		if err != nil {
			return err
		}
		s.loaded = map[ulid.ULID]bool{}
		for id := range metas {
			s.loaded[id] = true
		}
		s.lastSync = w.T
		return nil
	})
}

func (w *c34world) putBlock(id ulid.ULID, g int, srcs []ulid.ULID, name string) error {
	m := &metadata.Meta{}
	m.Version = metadata.TSDBVersion1
	m.ULID = id
	m.MinTime, m.MaxTime = 0, 1000
	m.Stats = tsdb.BlockStats{NumSeries: 1, NumSamples: 1, NumChunks: 1}
	m.Compaction = tsdb.BlockMetaCompaction{Level: 1, Sources: srcs}
	if len(srcs) > 1 {
		m.Compaction.Level = 2
	}
	m.Thanos = metadata.Thanos{Version: metadata.ThanosVersion1, Labels: map[string]string{"g": fmt.Sprint(g)}, Downsample: metadata.ThanosDownsample{Resolution: 0}}
	w.sources[id] = srcs
	w.group[id] = g
	w.name[id] = name
	return w.bkt.putMeta(m)
}

// runC34 interprets the script; it returns an error text ("" = invariant held throughout).
func runC34(c *c34case) (string, c34out) {
	var out c34out
	ctx := context.Background()
	w := &c34world{c: c, bkt: newTBucket(), sources: map[ulid.ULID][]ulid.ULID{}, group: map[ulid.ULID]int{}, name: map[ulid.ULID]string{},
		markedAt: map[ulid.ULID]int{}, loadedAtMark: map[ulid.ULID]bool{}, out: &out}
	D := time.Duration(c.dMin)*time.Minute + 30*time.Second
	S := time.Duration(c.sMin)*time.Minute + 30*time.Second
	for i := 0; i < c.blocks; i++ {
		id := mkULID(uint64(1000+i), uint64(i+1))
		if err := w.putBlock(id, i%c.groups, []ulid.ULID{id}, fmt.Sprintf("b%d", i)); err != nil {
			return "harness: " + err.Error(), out
		}
		w.units = append(w.units, id)
	}
	ignoreDelC := block.NewIgnoreDeletionMarkFilter(nopLogger, w.bkt.ins, D/2, 2)
	dedupC := block.NewDeduplicateFilter(2)
	fetcherC, err := block.NewMetaFetcher(nopLogger, 2, w.bkt.ins, block.NewConcurrentLister(nopLogger, w.bkt.ins), "", nil, []block.MetadataFilter{ignoreDelC, dedupC})
	if err != nil {
		return "harness: " + err.Error(), out
	}
	w.sy, err = compact.NewMetaSyncer(nopLogger, nil, w.bkt.ins, fetcherC, dedupC, ignoreDelC, newCounter(), newCounter(), 0)
	if err != nil {
		return "harness: " + err.Error(), out
	}
	w.cleaner = compact.NewBlocksCleaner(nopLogger, w.bkt.ins, ignoreDelC, D, newCounter(), newCounter())
	for i := 0; i < c.stores; i++ {
		f, err := block.NewMetaFetcher(nopLogger, 2, w.bkt.ins, block.NewConcurrentLister(nopLogger, w.bkt.ins), "", nil,
			[]block.MetadataFilter{block.NewIgnoreDeletionMarkFilter(nopLogger, w.bkt.ins, S, 2), block.NewDeduplicateFilter(2)})
		if err != nil {
			return "harness: " + err.Error(), out
		}
		w.stores = append(w.stores, &c34store{fetcher: f, loaded: map[ulid.ULID]bool{}})
	}
	step := func(desc string, msg string, ok bool) (string, bool) {
		out.trace = append(out.trace, fmt.Sprintf("T=%d %s", w.T, desc))
		if !ok {
			out.inconclusive = true
			return "", false
		}
		if msg != "" {
			return msg, false
		}
		if v := w.invariant(); v != "" {
			return fmt.Sprintf("%s (after %s)\ntrace: %s", v, desc, strings.Join(out.trace, "; ")), false
		}
		return "", true
	}
	// a store gateway is ready only after its initial sync
	for i := range w.stores {
		msg, ok := w.syncStore(i)
		if m, cont := step(fmt.Sprintf("store%d.sync(initial)", i), msg, ok); !cont {
			return m, out
		}
	}
	for _, a := range c.acts {
		switch a.kind {
		case aAdvance:
			var dt int
			opts := []int{1, a.b%c.lMin + 1, c.lMin, c.sMin + 1, c.dMin/2 + 1, c.dMin - c.sMin, c.dMin + 1, 2 * c.dMin}
			dt = opts[a.a%len(opts)]
			if dt < 1 {
				dt = 1
			}
			// bounded histories: the scheduler never lets a store's lag exceed L; a long advance is
			// cut into pieces and every store that would exceed the bound is synced at the last moment.
			for remaining := dt; remaining > 0; {
				piece := remaining
				if c.bounded {
					if piece > c.lMin {
						piece = c.lMin
					}
					for i, s := range w.stores {
						if w.T+piece-s.lastSync > c.lMin {
							out.forcedSyncs++
							msg, ok := w.syncStore(i)
							if m, cont := step(fmt.Sprintf("store%d.sync(forced)", i), msg, ok); !cont {
								return m, out
							}
						}
					}
				}
				w.T += piece
				remaining -= piece
				if m, cont := step(fmt.Sprintf("advance(%d)", piece), "", true); !cont {
					return m, out
				}
			}
		case aSync:
			i := a.a % len(w.stores)
			msg, ok := w.syncStore(i)
			if m, cont := step(fmt.Sprintf("store%d.sync", i), msg, ok); !cont {
				return m, out
			}
		case aUpload:
			msg, ok := w.consult(func() error { return w.sy.SyncMetas(ctx) })
			if !ok || msg != "" {
				m, _ := step("compactor.sync", msg, ok)
				return m, out
			}
			view := w.sy.Metas()
			byGroup := map[int][]ulid.ULID{}
			for id := range view {
				byGroup[w.group[id]] = append(byGroup[w.group[id]], id)
			}
			var gs []int
			for g, ids := range byGroup {
				if len(ids) >= 2 {
					gs = append(gs, g)
				}
			}
			if len(gs) == 0 {
				out.trace = append(out.trace, fmt.Sprintf("T=%d compactor.upload(nothing to compact)", w.T))
				continue
			}
			sort.Ints(gs)
			g := gs[a.a%len(gs)]
			ids := byGroup[g]
			sort.Slice(ids, func(i, j int) bool { return ids[i].Compare(ids[j]) < 0 })
			n := 2 + a.b%3
			if n > len(ids) {
				n = len(ids)
			}
			off := a.c % (len(ids) - n + 1)
			chosen := ids[off : off+n]
			srcSet := map[ulid.ULID]bool{}
			var names []string
			for _, id := range chosen {
				names = append(names, w.name[id])
				for _, s := range w.sources[id] {
					srcSet[s] = true
				}
			}
			var srcs []ulid.ULID
			for s := range srcSet {
				srcs = append(srcs, s)
			}
			sort.Slice(srcs, func(i, j int) bool { return srcs[i].Compare(srcs[j]) < 0 })
			w.serial++
			nid := mkULID(uint64(5000+w.serial), uint64(w.serial))
			nm := fmt.Sprintf("r%d[%s]", w.serial, strings.Join(names, "+"))
			if err := w.putBlock(nid, g, srcs, nm); err != nil {
				return "harness: " + err.Error(), out
			}
			w.pending = append(w.pending, chosen...)
			out.uploads++
			if m, cont := step("compactor.upload("+nm+")", "", true); !cont {
				return m, out
			}
		case aMark:
			if len(w.pending) == 0 {
				continue
			}
			n := len(w.pending)
			if a.a%4 == 0 { // crash after a prefix of the marks
				n = 1 + a.b%len(w.pending)
			}
			var names []string
			for _, id := range w.pending[:n] {
				if !w.hasMeta(id) {
					continue
				}
				if err := block.MarkForDeletion(ctx, nopLogger, w.bkt.ins, id, "source of compacted block", newCounter()); err != nil {
					return "MarkForDeletion returned error: " + err.Error(), out
				}
				names = append(names, w.name[id])
			}
			w.pending = nil // what was not marked is left to the garbage collection
			w.noteNewMarks()
			if m, cont := step("compactor.mark("+strings.Join(names, ",")+")", "", true); !cont {
				return m, out
			}
		case aGC:
			before := len(w.markedAt)
			msg, ok := w.consult(func() error {
				if err := w.sy.SyncMetas(ctx); err != nil {
					return err
				}
				return w.sy.GarbageCollect(ctx, nil)
			})
			if len(w.markedAt) > before {
				out.gcMarked = true
			}
			if m, cont := step(fmt.Sprintf("compactor.gc(+%d marks)", len(w.markedAt)-before), msg, ok); !cont {
				return m, out
			}
		case aClean:
			var deleted map[ulid.ULID]struct{}
			msg, ok := w.consult(func() error {
				if err := w.sy.SyncMetas(ctx); err != nil {
					return err
				}
				var err error
				deleted, err = w.cleaner.DeleteMarkedBlocks(ctx)
				return err
			})
			var names []string
			for id := range w.markedAt {
				if !w.hasMeta(id) {
					names = append(names, w.name[id])
					out.deleted++
					if w.loadedAtMark[id] {
						out.switched = true
					}
					for _, s := range w.stores {
						if w.T-s.lastSync >= c.lMin-1 {
							out.tight = true
						}
					}
					delete(w.markedAt, id)
				}
			}
			_ = deleted
			sort.Strings(names)
			if m, cont := step("compactor.clean(deleted "+strings.Join(names, ",")+")", msg, ok); !cont {
				return m, out
			}
		}
	}
	return "", out
}

func genC34(rt *rapid.T, bounded bool) *c34case {
	c := &c34case{bounded: bounded}
	c.dMin = 2 * rapid.IntRange(5, 1440).Draw(rt, "dHalfMin")
	switch rapid.IntRange(0, 2).Draw(rt, "sKind") {
	case 0:
		c.sMin = c.dMin / 2 // the documented default relation (24h / 48h)
	case 1:
		c.sMin = rapid.IntRange(0, c.dMin/2).Draw(rt, "sMin")
	default:
		c.sMin = rapid.IntRange(0, c.dMin*3/4).Draw(rt, "sMin")
	}
	// lag bound strictly below deleteDelay - storeDelay (= dMin - sMin minutes exactly)
	maxL := c.dMin - c.sMin - 1
	if rapid.Bool().Draw(rt, "lagAtBound") {
		c.lMin = maxL
	} else {
		// not below a quarter of the bound: a long advance is cut into pieces of L minutes, each with
		// real syncs, so a tiny L only costs time without adding behaviour
		lo := maxL / 4
		if lo < 1 {
			lo = 1
		}
		c.lMin = rapid.IntRange(lo, maxL).Draw(rt, "lMin")
	}
	c.stores = rapid.SampledFrom([]int{1, 1, 2, 3}).Draw(rt, "stores")
	c.blocks = rapid.IntRange(2, 6).Draw(rt, "blocks")
	c.groups = rapid.SampledFrom([]int{1, 1, 2}).Draw(rt, "groups")
	n := rapid.IntRange(5, 40).Draw(rt, "len")
	weights := []int{aAdvance, aAdvance, aAdvance, aAdvance, aSync, aSync, aUpload, aUpload, aUpload, aMark, aMark, aMark, aGC, aClean, aClean, aClean}
	one := func(kind int) c34act {
		return c34act{kind: kind, a: rapid.IntRange(0, 23).Draw(rt, "a"), b: rapid.IntRange(0, 2000).Draw(rt, "b"), c: rapid.IntRange(0, 7).Draw(rt, "c")}
	}
	for len(c.acts) < n {
		if rapid.IntRange(0, 3).Draw(rt, "round") == 0 {
			// one compaction round in the compactor's own order, other actions may be drawn in between later
			c.acts = append(c.acts, one(aUpload))
			switch rapid.IntRange(0, 3).Draw(rt, "markHow") {
			case 0:
				c.acts = append(c.acts, one(aGC))
			case 1: // crashed before marking; a later gc may pick it up
			default:
				c.acts = append(c.acts, one(aMark))
			}
			adv := one(aAdvance)
			adv.a = rapid.SampledFrom([]int{3, 4, 5, 6, 6, 7}).Draw(rt, "roundAdv")
			c.acts = append(c.acts, adv)
			if rapid.Bool().Draw(rt, "roundSync") {
				c.acts = append(c.acts, one(aSync))
			}
			c.acts = append(c.acts, one(aClean))
			continue
		}
		c.acts = append(c.acts, one(rapid.SampledFrom(weights).Draw(rt, "act")))
	}
	return c
}

func c34Classes(c *c34case, o c34out) []string {
	cl := []string{fmt.Sprintf("stores-%d", c.stores)}
	if o.deleted > 0 {
		cl = append(cl, "cleaner-deleted-block")
	}
	if o.switched {
		cl = append(cl, "store-had-to-switch")
	}
	if o.tight {
		cl = append(cl, "deleted-while-a-store-at-max-lag")
	}
	if o.gcMarked {
		cl = append(cl, "gc-marked")
	}
	if o.forcedSyncs > 0 {
		cl = append(cl, "lag-bound-forced-a-sync")
	}
	if o.uploads >= 2 {
		cl = append(cl, "uploads-2+")
	}
	if c.lMin == c.dMin-c.sMin-1 {
		cl = append(cl, "lag-at-bound")
	}
	return cl
}

func TestVerifC34(t *testing.T) {
	rec := kit.For(t, "C34")

	// ---- plain bounded history: one compaction, stores lag as much as allowed, clean after the delay
	{
		c := &c34case{dMin: 120, sMin: 60, lMin: 59, stores: 2, blocks: 3, groups: 1, bounded: true, acts: []c34act{
			{kind: aUpload, a: 0, b: 0, c: 0}, {kind: aMark, a: 1}, {kind: aAdvance, a: 2}, {kind: aSync, a: 0}, {kind: aAdvance, a: 2},
			{kind: aAdvance, a: 2}, {kind: aClean}, {kind: aAdvance, a: 0}, {kind: aClean}, {kind: aUpload, a: 0, b: 0, c: 0}, {kind: aGC}, {kind: aAdvance, a: 2},
			{kind: aAdvance, a: 2}, {kind: aAdvance, a: 2}, {kind: aClean}}}
		msg, o := runC34(c)
		if msg != "" {
			rec.Violation(t, "plain bounded history: %s\ncase: %s", msg, c.render())
		}
		if !o.inconclusive {
			if o.deleted == 0 {
				t.Fatalf("harness self-check: the plain history deleted nothing; trace: %s", strings.Join(o.trace, "; "))
			}
			rec.Case("plain:"+c.render(), o.deleted > 0 && o.switched, append(c34Classes(c, o), "plain-input")...)
		}
	}

	// ---- self-test 1: scripted history that breaks the lag bound must break the invariant
	{
		c := &c34case{dMin: 120, sMin: 60, lMin: 59, stores: 1, blocks: 2, groups: 1, bounded: false, acts: []c34act{
			{kind: aUpload}, {kind: aMark, a: 1}, {kind: aAdvance, a: 6}, {kind: aClean}}}
		msg, o := runC34(c)
		if !o.inconclusive {
			if msg == "" {
				rec.Violation(t, "self-test: a store that did not sync for deleteDelay+1 min still serves everything; the model cannot fail. trace: %s", strings.Join(o.trace, "; "))
			}
			rec.Class("selftest-scripted-unbounded-history-fails")
		}
	}
	// ---- self-test 2: seeded random search without the lag bound must find a counterexample
	{
		gen := rapid.Custom(func(rt *rapid.T) *c34case { return genC34(rt, false) })
		n := kit.Scale("c34selftest", 300, 300)
		found := 0
		for i := 0; i < n && found < 3; i++ {
			c := gen.Example(int(kit.Seed())*100000 + i)
			msg, o := runC34(c)
			if !o.inconclusive && strings.Contains(msg, "is served by no store") {
				found++
			}
		}
		if found == 0 {
			rec.Violation(t, "self-test: %d random histories without the lag bound produced no unserved data unit; the generator does not reach the hazard", n)
		}
		rec.Class("selftest-random-unbounded-search-fails")
	}

	rec.Check(t, func(rt *rapid.T) {
		c := genC34(rt, true)
		msg, o := runC34(c)
		if o.inconclusive {
			rec.Class("slow-call-discarded")
			return
		}
		if msg != "" {
			rt.Fatalf("C34 violated: %s\ncase: %s", msg, c.render())
		}
		rec.Case(c.render(), o.deleted > 0 && o.switched, c34Classes(c, o)...)
	})
}
