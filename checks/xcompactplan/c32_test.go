package xcompactplan

// C32 Blocks are deleted only when retention and delays allow it.
//
// Domain: a bucket with complete blocks (resolution raw/5m/1h, MaxTime placed relative to
// now - retention(resolution) with millisecond offsets of at most +-2 s or +-hours), some of them carrying
// a deletion mark whose DeletionTime is placed relative to now - deleteDelay (second offsets / hours), and
// partial uploads (no meta.json) whose objects get last-modified times around the 48 h abort threshold,
// some carrying a deletion mark; retention per resolution (0 = keep forever), delete delay.
// Driven as cmd/thanos/compact.go does: sync (real fetcher + IgnoreDeletionMarkFilter(delay/2)) ->
// BlocksCleaner.DeleteMarkedBlocks -> sync -> ApplyRetentionPolicyByResolution -> BestEffortCleanAbortedPartialUploads.
//
// Oracle (the wall clock is read inside the code under test, so every call is bracketed: t0 before,
// t1 after; "only when" verdicts compare against t1, the latest reading the code can have seen, hence
// scheduling delays can only hide a violation, never fabricate one):
//   cleaner   : a block that lost objects had a deletion mark and t1 - DeletionTime > deleteDelay;
//   retention : a block that gained a deletion mark has retention(res) != 0 and its newest sample
//               (MaxTime-1, MaxTime is exclusive) satisfies t1 - (MaxTime-1) > retention(res); nothing is deleted;
//   partial   : a block that lost objects had no meta.json, its newest object satisfies
//               t1 - lastModified > 48 h, and it carried no deletion mark.
// The converse (old enough => acted upon) is not part of the statement; it is only counted in classes.

import (
	"context"
	"math"
	"fmt"
	"path"
	"sort"
	"strings"
	"testing"
	"time"

	"github.com/oklog/ulid/v2"
	"github.com/prometheus/prometheus/tsdb"
	"pgregory.net/rapid"

	"github.com/thanos-io/thanos/pkg/block"
	"github.com/thanos-io/thanos/pkg/block/metadata"
	"github.com/thanos-io/thanos/pkg/compact"
	"github.com/thanos-io/thanos/verifx/kit"
)

const (
	// sigC32Trunc: retention.go computes time.Unix(m.MaxTime/1000, 0): MaxTime is truncated to whole
	// seconds, so a block whose MaxTime is not a multiple of 1000 ms is marked up to 999 ms early.
	sigC32Trunc = "C32/retention-maxtime-truncated-to-seconds"
	// sigC32PartialMark: the partial-upload cleaner is handed IgnoreDeletionMarkFilter.DeletionMarkBlocks(),
	// which only holds marks of blocks that have a meta.json; a partial upload's deletion mark is never seen.
	sigC32PartialMark = "C32/partial-upload-deletion-mark-not-seen"
)

type c32obj struct {
	name string
	dLM  int64 // last-modified = base - 48h + dLM (ms)
}

type c32blk struct {
	n       int
	partial bool
	res     int64
	dMax    int64 // MaxTime = base - retention(res) + dMax (ms); if retention(res)==0: base - 30d + dMax
	// farFuture != 0: MaxTime is at the end of the int64 range (a sample with a bogus far-future
	// timestamp, or an importer using MaxInt64 as an open end): 1 MaxInt64, 2 MaxInt64-1, 3 MaxInt64-retention+1
	farFuture int
	hasMark   bool
	// remarked (complete blocks with a mark only): an earlier mark, older than the delete delay by hours,
	// was seen by one sync of the same filter object, then withdrawn (tools bucket unmark) and the
	// current one written
	remarked bool
	dMark    int64 // DeletionTime = floor((base - delay)/1s) + dMark (s)
	objs    []c32obj
	markLM  int64 // last-modified offset of the deletion-mark.json object of a partial upload
}

type c32case struct {
	retention map[int64]time.Duration
	delay     time.Duration
	wiring    string // prod: marks map from the filter (as compact.go); direct: marks map read from the bucket
	blocks    []c32blk
}

func (c *c32case) render() string {
	var sb strings.Builder
	fmt.Fprintf(&sb, "ret{raw=%v 5m=%v 1h=%v} delay=%v wiring=%s:", c.retention[0], c.retention[300000], c.retention[3600000], c.delay, c.wiring)
	for _, b := range c.blocks {
		if b.partial {
			fmt.Fprintf(&sb, " P%d{", b.n)
			for _, o := range b.objs {
				fmt.Fprintf(&sb, "%s@%+d ", o.name, o.dLM)
			}
			if b.hasMark {
				fmt.Fprintf(&sb, "mark%+ds@%+d", b.dMark, b.markLM)
			}
			sb.WriteString("}")
		} else {
			fmt.Fprintf(&sb, " B%d{res=%d max%+d", b.n, b.res, b.dMax)
			if b.farFuture != 0 {
				fmt.Fprintf(&sb, " farFuture=%d", b.farFuture)
			}
			if b.hasMark {
				fmt.Fprintf(&sb, " mark%+ds", b.dMark)
				if b.remarked {
					sb.WriteString("(re-marked)")
				}
			}
			sb.WriteString("}")
		}
	}
	return sb.String()
}

type c32out struct {
	classes      map[string]bool
	near         bool
	exclTrunc    int
	exclPartial  int
	inconclusive bool
}

type snap map[ulid.ULID]map[string]bool

func takeSnap(b *tbucket, ids []ulid.ULID) snap {
	s := snap{}
	for _, id := range ids {
		s[id] = map[string]bool{}
		for _, o := range b.objectsOf(id) {
			s[id][strings.TrimPrefix(o, id.String()+"/")] = true
		}
	}
	return s
}

const c32Near = 2000 // ms

func abs64(x int64) int64 {
	if x < 0 {
		return -x
	}
	return x
}

// runC32 builds the bucket relative to the current wall clock and runs the three stages.
func runC32(c *c32case, tolerateTrunc, toleratePartialMark bool) (string, c32out) {
	out := c32out{classes: map[string]bool{}}
	ctx := context.Background()
	bkt := newTBucket()
	base := time.Now()
	baseMs := msOf(base)
	thresholdMs := int64(compact.PartialUploadThresholdAge / time.Millisecond)
	ids := make([]ulid.ULID, len(c.blocks))
	maxTime := make([]int64, len(c.blocks))
	newestLM := make([]int64, len(c.blocks)) // ms, partial uploads
	for i, b := range c.blocks {
		// the ULID time is the fallback "creation time" of the partial-upload cleaner; keep it old
		ids[i] = mkULID(uint64(baseMs-10*thresholdMs), uint64(b.n))
		id := ids[i]
		if !b.partial {
			r := c.retention[b.res]
			if r == 0 {
				r = 30 * 24 * time.Hour
			}
			maxTime[i] = baseMs - int64(r/time.Millisecond) + b.dMax
			switch b.farFuture {
			case 1:
				maxTime[i] = math.MaxInt64
			case 2:
				maxTime[i] = math.MaxInt64 - 1
			case 3:
				maxTime[i] = math.MaxInt64 - int64(r/time.Millisecond) + 1
			}
			m := &metadata.Meta{}
			m.Version = metadata.TSDBVersion1
			m.ULID = id
			m.MinTime, m.MaxTime = maxTime[i]-7200000, maxTime[i]
			m.Stats = tsdb.BlockStats{NumSeries: 1, NumSamples: 1, NumChunks: 1}
			m.Compaction = tsdb.BlockMetaCompaction{Level: 1, Sources: []ulid.ULID{id}}
			m.Thanos = metadata.Thanos{Version: metadata.ThanosVersion1, Labels: map[string]string{"cluster": "a"}, Downsample: metadata.ThanosDownsample{Resolution: b.res}}
			if err := bkt.putMeta(m); err != nil {
				return "harness: " + err.Error(), out
			}
			_ = bkt.put(path.Join(id.String(), "index"), []byte("i"))
			_ = bkt.put(path.Join(id.String(), "chunks", "000001"), []byte("c"))
		} else {
			newestLM[i] = -1 << 62
			for _, o := range b.objs {
				name := path.Join(id.String(), o.name)
				_ = bkt.put(name, []byte("x"))
				lm := baseMs - thresholdMs + o.dLM
				if err := bkt.mem.ChangeLastModified(name, time.UnixMilli(lm)); err != nil {
					return "harness: " + err.Error(), out
				}
				if lm > newestLM[i] {
					newestLM[i] = lm
				}
			}
		}
		if b.hasMark {
			dt := (baseMs-int64(c.delay/time.Millisecond))/1000 + b.dMark
			if b.remarked {
				dt = (baseMs-int64(c.delay/time.Millisecond))/1000 - 5*3600 // the earlier, withdrawn mark
			}
			if err := bkt.putDeletionMark(id, dt); err != nil {
				return "harness: " + err.Error(), out
			}
			if b.partial {
				lm := baseMs - thresholdMs + b.markLM
				_ = bkt.mem.ChangeLastModified(path.Join(id.String(), metadata.DeletionMarkFilename), time.UnixMilli(lm))
				if lm > newestLM[i] {
					newestLM[i] = lm
				}
			}
		}
	}
	// the compactor's wiring
	ignoreDel := block.NewIgnoreDeletionMarkFilter(nopLogger, bkt.ins, c.delay/2, 4)
	fetcher, err := block.NewMetaFetcher(nopLogger, 4, bkt.ins, block.NewConcurrentLister(nopLogger, bkt.ins), "", nil, []block.MetadataFilter{ignoreDel})
	if err != nil {
		return "harness: " + err.Error(), out
	}
	sy, err := compact.NewMetaSyncer(nopLogger, nil, bkt.ins, fetcher, block.NewDeduplicateFilter(1), ignoreDel, newCounter(), newCounter(), 0)
	if err != nil {
		return "harness: " + err.Error(), out
	}
	cleaner := compact.NewBlocksCleaner(nopLogger, bkt.ins, ignoreDel, c.delay, newCounter(), newCounter())
	delayMs := float64(c.delay) / float64(time.Millisecond)

	marksOf := func() map[int]*metadata.DeletionMark {
		m := map[int]*metadata.DeletionMark{}
		for i, id := range ids {
			if dm, ok := bkt.readDeletionMark(id); ok {
				m[i] = dm
			}
		}
		return m
	}
	lost := func(before, after snap, i int) []string {
		var l []string
		for o := range before[ids[i]] {
			if !after[ids[i]][o] {
				l = append(l, o)
			}
		}
		sort.Strings(l)
		return l
	}

	// ---- stage 0: blocks whose mark was withdrawn and written again since the previous sync
	anyRemarked := false
	for _, b := range c.blocks {
		anyRemarked = anyRemarked || (b.hasMark && b.remarked)
	}
	if anyRemarked {
		if err := sy.SyncMetas(ctx); err != nil {
			return "harness: sync: " + err.Error(), out
		}
		for i, b := range c.blocks {
			if !(b.hasMark && b.remarked) {
				continue
			}
			if err := bkt.mem.Delete(ctx, path.Join(ids[i].String(), metadata.DeletionMarkFilename)); err != nil {
				return "harness: " + err.Error(), out
			}
			if err := bkt.putDeletionMark(ids[i], (baseMs-int64(c.delay/time.Millisecond))/1000+b.dMark); err != nil {
				return "harness: " + err.Error(), out
			}
		}
		out.classes["mark-withdrawn-and-rewritten"] = true
	}

	// ---- stage 1: cleaner
	if err := sy.SyncMetas(ctx); err != nil {
		return "harness: sync: " + err.Error(), out
	}
	before, marks := takeSnap(bkt, ids), marksOf()
	t0 := time.Now()
	_, err = cleaner.DeleteMarkedBlocks(ctx)
	t1 := time.Now()
	if err != nil {
		return "DeleteMarkedBlocks returned error: " + err.Error(), out
	}
	if t1.Sub(t0) > 5*time.Second {
		out.inconclusive = true
		return "", out
	}
	after := takeSnap(bkt, ids)
	for i, b := range c.blocks {
		l := lost(before, after, i)
		dm := marks[i]
		nearB := b.hasMark && abs64(b.dMark) <= 2
		if len(l) > 0 {
			if dm == nil {
				return fmt.Sprintf("cleaner deleted objects %v of block %d which has no deletion mark", l, b.n), out
			}
			ageMs := float64(msOf(t1)) - float64(dm.DeletionTime)*1000
			// t1 is truncated to ms by msOf; add 1 ms so that the bound stays an upper bound of the code's clock
			if !(ageMs+1 > delayMs) {
				return fmt.Sprintf("cleaner deleted block %d whose deletion mark is only %.0f ms old at the latest (delete delay %v)", b.n, ageMs+1, c.delay), out
			}
			if nearB {
				out.classes["cleaner-near-deleted"] = true
			}
			out.classes["cleaner-deleted"] = true
		} else if dm != nil && !b.partial {
			if nearB {
				out.classes["cleaner-near-kept"] = true
			}
			if float64(msOf(t0))-float64(dm.DeletionTime)*1000 > delayMs+2000 {
				out.classes["converse-cleaner-old-mark-not-deleted"] = true
			}
		}
		if nearB && !b.partial {
			out.near = true
		}
	}

	// ---- stage 2: retention
	if err := sy.SyncMetas(ctx); err != nil {
		return "harness: sync: " + err.Error(), out
	}
	before, marks = takeSnap(bkt, ids), marksOf()
	t0 = time.Now()
	err = compact.ApplyRetentionPolicyByResolution(ctx, nopLogger, bkt.ins, sy.Metas(), map[compact.ResolutionLevel]time.Duration{
		compact.ResolutionLevelRaw: c.retention[0], compact.ResolutionLevel5m: c.retention[300000], compact.ResolutionLevel1h: c.retention[3600000]}, newCounter())
	t1 = time.Now()
	if err != nil {
		return "ApplyRetentionPolicyByResolution returned error: " + err.Error(), out
	}
	if t1.Sub(t0) > 5*time.Second {
		out.inconclusive = true
		return "", out
	}
	after = takeSnap(bkt, ids)
	marks2 := marksOf()
	for i, b := range c.blocks {
		if l := lost(before, after, i); len(l) > 0 {
			return fmt.Sprintf("retention removed objects %v of block %d (it may only mark)", l, b.n), out
		}
		if len(before[ids[i]]) == 0 || b.partial {
			if marks[i] == nil && marks2[i] != nil {
				return fmt.Sprintf("retention marked %d which is not a complete block", b.n), out
			}
			continue
		}
		r := c.retention[b.res]
		nearB := r != 0 && abs64(b.dMax) <= c32Near
		if nearB {
			out.near = true
		}
		if marks[i] == nil && marks2[i] != nil {
			if r == 0 {
				return fmt.Sprintf("retention marked block %d of resolution %d whose retention is 0 (keep forever)", b.n, b.res), out
			}
			rMs := int64(r / time.Millisecond)
			newest := maxTime[i] - 1 // MaxTime is exclusive
			age := msOf(t1) + 1 - newest
			if !(age > rMs) {
				truncAge := msOf(t1) + 1 - (maxTime[i]/1000)*1000
				if tolerateTrunc && truncAge > rMs {
					out.exclTrunc++
				} else {
					return fmt.Sprintf("%s: retention marked block %d (res %d, MaxTime %d = ...%03d ms) whose newest sample is at most %d ms old at the latest clock reading, retention %v (%d ms): %d ms early",
						sigIf(truncAge > rMs, sigC32Trunc), b.n, b.res, maxTime[i], maxTime[i]%1000, age, r, rMs, rMs-age+1), out
				}
			}
			if nearB {
				out.classes["retention-near-marked"] = true
			}
			out.classes["retention-marked"] = true
		} else if marks[i] == nil {
			if nearB {
				out.classes["retention-near-kept"] = true
			}
			if r != 0 && msOf(t0)-maxTime[i] > int64(r/time.Millisecond)+2000 {
				out.classes["converse-retention-old-block-not-marked"] = true
			}
		}
	}

	// ---- stage 3: aborted partial uploads
	before, marks = takeSnap(bkt, ids), marksOf()
	var delMarks map[ulid.ULID]*metadata.DeletionMark
	if c.wiring == "prod" {
		delMarks = ignoreDel.DeletionMarkBlocks()
	} else {
		delMarks = map[ulid.ULID]*metadata.DeletionMark{}
		for i, dm := range marks {
			delMarks[ids[i]] = dm
		}
	}
	t0 = time.Now()
	compact.BestEffortCleanAbortedPartialUploads(ctx, nopLogger, sy.Partial(), bkt.ins, newCounter(), newCounter(), newCounter(), delMarks)
	t1 = time.Now()
	if t1.Sub(t0) > 5*time.Second {
		out.inconclusive = true
		return "", out
	}
	after = takeSnap(bkt, ids)
	for i, b := range c.blocks {
		l := lost(before, after, i)
		nearB := false
		if b.partial {
			for _, o := range b.objs {
				if abs64(o.dLM) <= c32Near {
					nearB = true
				}
			}
			if nearB {
				out.near = true
			}
		}
		if len(l) == 0 {
			if b.partial && len(before[ids[i]]) > 0 {
				if nearB {
					out.classes["partial-near-kept"] = true
				}
				if marks[i] == nil && msOf(t0)-newestLM[i] > thresholdMs+2000 {
					out.classes["converse-partial-old-upload-not-deleted"] = true
				}
				if marks[i] != nil {
					out.classes["partial-marked-kept"] = true
				}
			}
			continue
		}
		if before[ids[i]][block.MetaFilename] {
			return fmt.Sprintf("partial-upload cleaner deleted objects %v of block %d which has a meta.json", l, b.n), out
		}
		age := msOf(t1) + 1 - newestLM[i]
		if !(age > thresholdMs) {
			return fmt.Sprintf("partial upload %d deleted although it was touched at most %d ms ago at the latest clock reading (threshold %d ms)", b.n, age, thresholdMs), out
		}
		if marks[i] != nil {
			if toleratePartialMark && c.wiring == "prod" {
				out.exclPartial++
			} else {
				return fmt.Sprintf("%s: partial upload %d deleted by the partial-upload cleaner although it carries a deletion mark (wiring %s)", sigIf(c.wiring == "prod", sigC32PartialMark), b.n, c.wiring), out
			}
		}
		if nearB {
			out.classes["partial-near-deleted"] = true
		}
		out.classes["partial-deleted"] = true
	}
	return "", out
}

func sigIf(cond bool, sig string) string {
	if cond {
		return sig
	}
	return "unclassified"
}

func genC32(rt *rapid.T) *c32case {
	c := &c32case{retention: map[int64]time.Duration{}}
	for _, res := range []int64{0, 300000, 3600000} {
		switch rapid.IntRange(0, 3).Draw(rt, "retKind") {
		case 0:
			c.retention[res] = 0
		default:
			c.retention[res] = time.Duration(rapid.IntRange(1, 24*400).Draw(rt, "retH"))*time.Hour +
				time.Duration(rapid.SampledFrom([]int{0, 0, 1, 250, 500, 999}).Draw(rt, "retMs"))*time.Millisecond
		}
	}
	c.delay = rapid.SampledFrom([]time.Duration{0, time.Minute, 30 * time.Minute, 2 * time.Hour, 48 * time.Hour}).Draw(rt, "delay") +
		time.Duration(rapid.SampledFrom([]int{0, 0, 0, 500, 1500}).Draw(rt, "delayMs"))*time.Millisecond
	c.wiring = rapid.SampledFrom([]string{"prod", "prod", "direct"}).Draw(rt, "wiring")
	near := func(label string) int64 {
		switch rapid.IntRange(0, 5).Draw(rt, label+"Kind") {
		case 0:
			return int64(rapid.IntRange(-3, 3).Draw(rt, label+"H")) * 3600000
		case 1:
			return int64(rapid.IntRange(-100, 100).Draw(rt, label+"S")) * 1000
		default:
			return int64(rapid.IntRange(-c32Near, c32Near).Draw(rt, label+"Ms"))
		}
	}
	nb := rapid.IntRange(1, 12).Draw(rt, "blocks")
	for i := 0; i < nb; i++ {
		b := c32blk{n: i + 1}
		b.partial = rapid.IntRange(0, 2).Draw(rt, "partial") == 0
		if !b.partial {
			b.res = rapid.SampledFrom([]int64{0, 300000, 3600000}).Draw(rt, "res")
			b.dMax = near("max")
			if rapid.Bool().Draw(rt, "wholeSecond") {
				b.dMax = b.dMax / 1000 * 1000
			}
			if rapid.IntRange(0, 9).Draw(rt, "farFuture") == 0 {
				b.farFuture = rapid.IntRange(1, 3).Draw(rt, "farFutureKind")
			}
		} else {
			no := rapid.IntRange(1, 3).Draw(rt, "objs")
			names := []string{"chunks/000001", "index", "chunks/000002"}
			for k := 0; k < no; k++ {
				b.objs = append(b.objs, c32obj{name: names[k], dLM: near("lm")})
			}
			if rapid.Bool().Draw(rt, "oldObjs") {
				// everything well past the threshold: the only reason to keep it is a deletion mark
				for k := range b.objs {
					b.objs[k].dLM = -int64(rapid.IntRange(1, 100).Draw(rt, "oldH")) * 3600000
				}
			}
		}
		if rapid.IntRange(0, 2).Draw(rt, "hasMark") == 0 {
			b.hasMark = true
			switch rapid.IntRange(0, 3).Draw(rt, "markKind") {
			case 0:
				b.dMark = int64(rapid.IntRange(-3, 3).Draw(rt, "markH")) * 3600
			default:
				b.dMark = int64(rapid.IntRange(-3, 3).Draw(rt, "markS"))
			}
			if !b.partial && rapid.IntRange(0, 3).Draw(rt, "remarked") == 0 {
				b.remarked = true
			}
			if b.partial {
				b.markLM = near("markLM")
				if rapid.Bool().Draw(rt, "oldMarkFile") {
					b.markLM = -int64(rapid.IntRange(1, 100).Draw(rt, "oldMarkH")) * 3600000
				}
			}
		}
		c.blocks = append(c.blocks, b)
	}
	return c
}

func TestVerifC32(t *testing.T) {
	rec := kit.For(t, "C32")
	known := kit.KnownFindings("C32")

	// Saved input of sigC32Trunc, phase-locked to the wall clock: the retention's millisecond part is
	// chosen so that (now - retention) ends in ...300 ms; MaxTime = now - retention + 499 ms (ms part
	// ...799, up to 200 ms of set-up drift keep it below the next second). The code truncates MaxTime to
	// (now - retention - 300 ms) and marks; the newest sample (MaxTime-1) is still 498 ms younger than the
	// retention. Only counted if the whole run returned within 250 ms, so the verdict cannot be an
	// artefact of a slow call (the oracle inside runC32 is bracketed anyway).
	{
		for attempt := 0; attempt < 5; attempt++ {
			now := msOf(time.Now())
			r := 240*time.Hour + time.Duration((now-300)%1000)*time.Millisecond // (now - r) % 1000 == 300
			c := &c32case{retention: map[int64]time.Duration{0: r}, delay: 48 * time.Hour, wiring: "prod",
				blocks: []c32blk{{n: 1, res: 0, dMax: 499}}}
			start := time.Now()
			msg, o := runC32(c, false, false)
			if time.Since(start) > 250*time.Millisecond || o.inconclusive {
				continue // too slow to be sure about the phase; try again
			}
			if msg != "" {
				if known[sigC32Trunc] && strings.HasPrefix(msg, sigC32Trunc) {
					rec.Known(sigC32Trunc, "retention marks a block whose newest sample is younger than the retention: "+msg)
				} else {
					rec.Violation(t, "regression input (MaxTime truncated to seconds): %s\ncase: %s", msg, c.render())
				}
			}
			break
		}
	}
	// Saved input of sigC32PartialMark: a partial upload (one chunk file, 50 h old) with a deletion mark.
	{
		c := &c32case{retention: map[int64]time.Duration{}, delay: 48 * time.Hour, wiring: "prod",
			blocks: []c32blk{{n: 1, partial: true, objs: []c32obj{{name: "chunks/000001", dLM: -2 * 3600000}}, hasMark: true, dMark: 3600, markLM: -2 * 3600000}}}
		msg, _ := runC32(c, false, false)
		if msg != "" {
			if known[sigC32PartialMark] && strings.HasPrefix(msg, sigC32PartialMark) {
				rec.Known(sigC32PartialMark, "aborted-partial-upload cleaner removes an upload that carries a deletion mark: "+msg)
			} else {
				rec.Violation(t, "regression input (partial upload with deletion mark): %s\ncase: %s", msg, c.render())
			}
		}
	}
	rec.Check(t, func(rt *rapid.T) {
		c := genC32(rt)
		msg, o := runC32(c, known[sigC32Trunc], known[sigC32PartialMark])
		if msg != "" {
			rt.Fatalf("C32 violated: %s\ncase: %s", msg, c.render())
		}
		if o.inconclusive {
			rec.Class("slow-call-discarded")
			return
		}
		for i := 0; i < o.exclTrunc; i++ {
			rec.Excluded(sigC32Trunc)
		}
		for i := 0; i < o.exclPartial; i++ {
			rec.Excluded(sigC32PartialMark)
		}
		cl := []string{"wiring-" + c.wiring}
		for k := range o.classes {
			cl = append(cl, k)
		}
		sort.Strings(cl)
		rec.Case(c.render(), o.near, cl...)
	})
}
