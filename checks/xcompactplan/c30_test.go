package xcompactplan

// C30 Compaction planning is safe and converges.
//
// Domain: compaction range lists (2..4 levels, each a multiple of the previous one), one compaction
// group of block metas that is either "aligned" (non-overlapping blocks that each fit into one aligned
// window of a configured range: level-1 blocks with gaps, partial blocks, blocks already compacted to a
// higher level) or "misaligned" (shifted, overlapping, duplicated time ranges, as vertical compaction
// sees them); no-compact marks written with the real block.MarkForNoCompact and gathered with the real
// GatherNoCompactionMarkFilter before every plan (as the syncer does); tombstone statistics around the
// 5 % threshold; Compaction.Failed flags; planner = NewPlanner, optionally wrapped by the index-size
// filter and the vertical-compaction downsample filter exactly as cmd/thanos/compact.go wires them.
//
// Oracle per plan (set/interval arithmetic on the generated description):
//   - every planned meta is one of the input metas, none twice;
//   - >= 2 blocks, or exactly one whose tombstone ratio exceeds 5 %;
//   - no block that carries a no-compact mark in the bucket after the call;
//   - if the input is aligned and non-overlapping: the newest block is not planned and the plan fits
//     into one aligned window of a configured range.
// Oracle per history (apply = replace the planned blocks by [min,max) with tombstones 0, re-plan):
//   - "no plan" is reached within 2*len(metas)+2 steps (each valid plan removes a block or a
//     tombstone-heavy block, so any longer history means the planner re-plans its own output);
//   - at the fixpoint the blocks without a no-compact mark are pairwise non-overlapping and none is
//     longer than the largest range (blocks that descend from an overlap merge are exempt: their
//     union may legitimately exceed a range).

import (
	"context"
	"fmt"
	"path"
	"sort"
	"strings"
	"testing"

	"github.com/oklog/ulid/v2"
	"github.com/prometheus/prometheus/tsdb"
	"pgregory.net/rapid"

	"github.com/thanos-io/thanos/pkg/block"
	"github.com/thanos-io/thanos/pkg/block/metadata"
	"github.com/thanos-io/thanos/pkg/compact"
	"github.com/thanos-io/thanos/verifx/kit"
)

type pblk struct {
	n          int
	min, max   int64
	level      int
	tomb, nser uint64
	failed     bool
	marked     bool // initial no-compact mark
	index      int64
	exempt     bool
}

type c30case struct {
	ranges   []int64
	gen      string // generator: aligned | misaligned
	variant  string // plain | size | vertical
	res      int64
	maxIndex int64
	blocks   []pblk // initial blocks in listing order (ties on MinTime keep this order)
}

func (c *c30case) render() string {
	var sb strings.Builder
	fmt.Fprintf(&sb, "ranges=%v gen=%s planner=%s res=%d maxIndex=%d blocks:", c.ranges, c.gen, c.variant, c.res, c.maxIndex)
	for _, b := range c.blocks {
		fmt.Fprintf(&sb, " #%d[%d,%d)L%d", b.n, b.min, b.max, b.level)
		if b.tomb > 0 {
			fmt.Fprintf(&sb, "t%d/%d", b.tomb, b.nser)
		}
		if b.failed {
			sb.WriteString("F")
		}
		if b.marked {
			sb.WriteString("M")
		}
		if c.variant != "plain" {
			fmt.Fprintf(&sb, "i%d", b.index)
		}
	}
	return sb.String()
}

func fitsWindow(min, max int64, ranges []int64) bool {
	for _, r := range ranges {
		if floorDiv(min, r) == floorDiv(max-1, r) {
			return true
		}
	}
	return false
}

func floorDiv(a, b int64) int64 {
	q := a / b
	if a%b != 0 && (a < 0) != (b < 0) {
		q--
	}
	return q
}

type liveBlk struct {
	pblk
	meta *metadata.Meta
}

func overlapsAny(bs []*liveBlk) bool {
	for i := range bs {
		for j := i + 1; j < len(bs); j++ {
			if bs[i].min < bs[j].max && bs[j].min < bs[i].max {
				return true
			}
		}
	}
	return false
}

func mkMeta(b pblk, id ulid.ULID, res int64) *metadata.Meta {
	m := &metadata.Meta{}
	m.Version = metadata.TSDBVersion1
	m.ULID = id
	m.MinTime, m.MaxTime = b.min, b.max
	m.Stats = tsdb.BlockStats{NumSeries: b.nser, NumTombstones: b.tomb, NumSamples: 10 * b.nser, NumChunks: b.nser}
	m.Compaction = tsdb.BlockMetaCompaction{Level: b.level, Sources: []ulid.ULID{id}, Failed: b.failed}
	m.Thanos = metadata.Thanos{Version: metadata.ThanosVersion1, Labels: map[string]string{"cluster": "a"},
		Downsample: metadata.ThanosDownsample{Resolution: res},
		Files:      []metadata.File{{RelPath: "chunks/000001", SizeBytes: 100}, {RelPath: block.IndexFilename, SizeBytes: b.index}, {RelPath: block.MetaFilename}}}
	return m
}

// sigC30SelfMark: WithVerticalCompactionDownsampleFilter calls largeTotalIndexSizeFilter.plan once per
// loop iteration; the size filter remembers the blocks it marked no-compact only in a map local to that
// call, so a later iteration of the vertical filter's loop (same Plan call) plans a block that the size
// filter has just marked in the bucket.
const sigC30SelfMark = "C30/vertical-filter-replans-block-marked-by-size-filter"

type c30out struct {
	excluded    bool // the history ran into sigC30SelfMark and was cut there (known finding)
	steps       int
	routed      bool
	alignedSeen bool
	overlapPlan bool
	tombPlan    bool
	selfMarked  bool
	finalBlocks int
}

// runC30 drives the plan/apply history against the real planner; it returns an error text or "".
func runC30(c *c30case, skipSelfMark bool) (string, c30out) {
	var out c30out
	ctx := context.Background()
	bkt := newTBucket()
	gather := compact.NewGatherNoCompactionMarkFilter(nopLogger, bkt.ins, 2)
	var planner compact.Planner
	base := compact.NewPlanner(nopLogger, c.ranges, gather)
	switch c.variant {
	case "plain":
		planner = base
	case "size":
		planner = compact.WithLargeTotalIndexSizeFilter(base, bkt.ins, c.maxIndex, newCounter())
	default:
		planner = compact.WithVerticalCompactionDownsampleFilter(compact.WithLargeTotalIndexSizeFilter(base, bkt.ins, c.maxIndex, newCounter()), bkt.ins, newCounter())
	}
	serial := 0
	var live []*liveBlk
	for _, b := range c.blocks {
		serial++
		id := mkULID(uint64(100+b.n), uint64(serial))
		lb := &liveBlk{pblk: b, meta: mkMeta(b, id, c.res)}
		live = append(live, lb)
		if b.marked {
			if err := block.MarkForNoCompact(ctx, nopLogger, bkt.ins, id, metadata.ManualNoCompactReason, "verif", newCounter()); err != nil {
				return "harness: MarkForNoCompact: " + err.Error(), out
			}
		}
	}
	isMarked := func(lb *liveBlk) bool {
		return bkt.exists(path.Join(lb.meta.ULID.String(), metadata.NoCompactMarkFilename))
	}
	largest := c.ranges[len(c.ranges)-1]
	bound := 2*len(c.blocks) + 2
	for {
		// what the syncer does before every planning round
		sort.SliceStable(live, func(i, j int) bool { return live[i].min < live[j].min })
		metasMap := map[ulid.ULID]*metadata.Meta{}
		metas := make([]*metadata.Meta, 0, len(live))
		byMeta := map[*metadata.Meta]*liveBlk{}
		for _, lb := range live {
			metasMap[lb.meta.ULID] = lb.meta
			metas = append(metas, lb.meta)
			byMeta[lb.meta] = lb
		}
		if err := gather.Filter(ctx, metasMap, newGaugeVec(), newGaugeVec()); err != nil {
			return "harness: gather filter: " + err.Error(), out
		}
		markedBefore := 0
		wasMarked := map[*liveBlk]bool{}
		for _, lb := range live {
			if isMarked(lb) {
				markedBefore++
				wasMarked[lb] = true
			}
		}
		aligned := !overlapsAny(live)
		for _, lb := range live {
			if !fitsWindow(lb.min, lb.max, c.ranges) {
				aligned = false
			}
		}
		state := func() string {
			var sb strings.Builder
			for _, lb := range live {
				fmt.Fprintf(&sb, "#%d[%d,%d)", lb.n, lb.min, lb.max)
				if isMarked(lb) {
					sb.WriteString("M")
				}
				sb.WriteString(" ")
			}
			return sb.String()
		}
		plan, err := planner.Plan(ctx, metas, nil, nil)
		if err != nil {
			return fmt.Sprintf("step %d: Plan returned error %v (state %s)", out.steps, err, state()), out
		}
		markedAfter := 0
		for _, lb := range live {
			if isMarked(lb) {
				markedAfter++
			}
		}
		if markedAfter > markedBefore {
			out.selfMarked = true
		}
		if len(plan) == 0 {
			break
		}
		// ---- per-plan oracle
		seen := map[*liveBlk]bool{}
		var pl []*liveBlk
		for _, m := range plan {
			lb, ok := byMeta[m]
			if !ok {
				return fmt.Sprintf("step %d: plan names %s which is not one of the group's metas (state %s)", out.steps, m.ULID, state()), out
			}
			if seen[lb] {
				return fmt.Sprintf("step %d: plan names block #%d twice (state %s)", out.steps, lb.n, state()), out
			}
			seen[lb] = true
			pl = append(pl, lb)
		}
		planStr := func() string {
			s := ""
			for _, lb := range pl {
				s += fmt.Sprintf("#%d[%d,%d) ", lb.n, lb.min, lb.max)
			}
			return s
		}
		if len(pl) == 1 {
			b := pl[0]
			// tombstones / (series+1) > 5 %  <=>  20*tombstones > series+1
			if !(20*b.tomb > b.nser+1) {
				return fmt.Sprintf("step %d: single-block plan %s with tombstones %d / series %d (not above 5%%) (state %s)", out.steps, planStr(), b.tomb, b.nser, state()), out
			}
			out.tombPlan = true
		}
		for _, lb := range pl {
			if isMarked(lb) {
				if !wasMarked[lb] && c.variant == "vertical" {
					// marked by the planner during this very call and planned nevertheless
					if skipSelfMark {
						out.excluded = true
						return "", out
					}
					return fmt.Sprintf("%s: step %d: plan %s includes block #%d which the same Plan call marked no-compact (state %s)", sigC30SelfMark, out.steps, planStr(), lb.n, state()), out
				}
				return fmt.Sprintf("step %d: plan %s includes block #%d which is marked no-compact (state %s)", out.steps, planStr(), lb.n, state()), out
			}
		}
		pmin, pmax := pl[0].min, pl[0].max
		for _, lb := range pl {
			if lb.min < pmin {
				pmin = lb.min
			}
			if lb.max > pmax {
				pmax = lb.max
			}
		}
		if aligned {
			out.alignedSeen = true
			newest := live[len(live)-1]
			if seen[newest] {
				return fmt.Sprintf("step %d: plan %s includes the newest block #%d of an aligned non-overlapping group (state %s)", out.steps, planStr(), newest.n, state()), out
			}
			if !fitsWindow(pmin, pmax, c.ranges) {
				return fmt.Sprintf("step %d: plan %s spans [%d,%d) which fits no aligned window of ranges %v (state %s)", out.steps, planStr(), pmin, pmax, c.ranges, state()), out
			}
		}
		// non-trivial: the plan was routed around a no-compact block sharing one of its windows
		for _, lb := range live {
			if seen[lb] || !isMarked(lb) {
				continue
			}
			lo, hi := pmin, pmax
			if lb.min < lo {
				lo = lb.min
			}
			if lb.max > hi {
				hi = lb.max
			}
			if fitsWindow(lo, hi, c.ranges[1:]) {
				out.routed = true
			}
		}
		planOverlaps := overlapsAny(pl)
		if planOverlaps {
			out.overlapPlan = true
		}
		// ---- apply
		serial++
		nb := pblk{n: 1000 + serial, min: pmin, max: pmax, tomb: 0}
		var srcs []ulid.ULID
		for _, lb := range pl {
			if lb.level > nb.level {
				nb.level = lb.level
			}
			nb.nser += lb.nser
			nb.index += lb.index
			if lb.exempt {
				nb.exempt = true
			}
			srcs = append(srcs, lb.meta.Compaction.Sources...)
		}
		nb.level++
		if planOverlaps {
			nb.exempt = true
		}
		nm := mkMeta(nb, mkULID(uint64(2000+out.steps), uint64(serial)), c.res)
		nm.Compaction.Sources = srcs
		var next []*liveBlk
		for _, lb := range live {
			if !seen[lb] {
				next = append(next, lb)
			}
		}
		live = append(next, &liveBlk{pblk: nb, meta: nm})
		out.steps++
		if out.steps > bound {
			return fmt.Sprintf("no fixpoint after %d plan/apply steps for %d initial blocks (state %s)", out.steps, len(c.blocks), state()), out
		}
	}
	// ---- fixpoint oracle
	var unmarked []*liveBlk
	for _, lb := range live {
		if !isMarked(lb) {
			unmarked = append(unmarked, lb)
		}
	}
	for i := range unmarked {
		for j := i + 1; j < len(unmarked); j++ {
			a, b := unmarked[i], unmarked[j]
			if a.min < b.max && b.min < a.max {
				return fmt.Sprintf("fixpoint after %d steps still has overlapping compactable blocks #%d[%d,%d) and #%d[%d,%d)", out.steps, a.n, a.min, a.max, b.n, b.min, b.max), out
			}
		}
		if a := unmarked[i]; !a.exempt && a.max-a.min > largest {
			return fmt.Sprintf("fixpoint after %d steps has block #%d[%d,%d) longer than the largest range %d", out.steps, a.n, a.min, a.max, largest), out
		}
	}
	out.finalBlocks = len(live)
	return "", out
}

func genC30(rt *rapid.T) *c30case {
	c := &c30case{}
	r0 := rapid.SampledFrom([]int64{10, 20, 7200000}).Draw(rt, "r0")
	nl := rapid.IntRange(2, 4).Draw(rt, "levels")
	c.ranges = []int64{r0}
	for len(c.ranges) < nl {
		c.ranges = append(c.ranges, c.ranges[len(c.ranges)-1]*int64(rapid.IntRange(2, 5).Draw(rt, "mult")))
	}
	c.gen = rapid.SampledFrom([]string{"aligned", "aligned", "misaligned"}).Draw(rt, "gen")
	c.variant = rapid.SampledFrom([]string{"plain", "plain", "size", "vertical"}).Draw(rt, "planner")
	c.res = 0
	c.maxIndex = 1 << 40
	if c.variant != "plain" {
		c.res = rapid.SampledFrom([]int64{0, 0, 300000, 3600000}).Draw(rt, "res")
		if rapid.Bool().Draw(rt, "smallIndexLimit") {
			c.maxIndex = int64(rapid.IntRange(40, 600).Draw(rt, "maxIndex"))
		}
	}
	useMarks := rapid.Bool().Draw(rt, "useMarks")
	useFailed := rapid.IntRange(0, 2).Draw(rt, "useFailed") == 0
	useTomb := rapid.Bool().Draw(rt, "useTomb")
	n := 0
	decorate := func(b pblk) pblk {
		n++
		b.n = n
		if b.level == 0 {
			b.level = 1
		}
		b.nser = uint64(rapid.IntRange(1, 200).Draw(rt, "series"))
		b.index = int64(rapid.IntRange(1, 100).Draw(rt, "index"))
		big := b.max-b.min >= c.ranges[len(c.ranges)/2]
		if useTomb && (rapid.IntRange(0, 3).Draw(rt, "hasTomb") == 0 || (big && rapid.Bool().Draw(rt, "bigTomb"))) {
			switch rapid.IntRange(0, 2).Draw(rt, "tombKind") {
			case 0: // around the 5 % boundary: 20*t vs series+1
				t := (b.nser + 1) / 20
				b.tomb = uint64(int64(t) + int64(rapid.IntRange(-1, 1).Draw(rt, "tombOff")))
				if int64(b.tomb) < 0 {
					b.tomb = 0
				}
			case 1:
				b.tomb = uint64(rapid.IntRange(1, 400).Draw(rt, "tomb"))
			default:
				// exactly on the boundary: series+1 = 20*t
				t := uint64(rapid.IntRange(1, 10).Draw(rt, "tombB"))
				b.tomb, b.nser = t, 20*t-1
			}
		}
		if useMarks && rapid.IntRange(0, 5).Draw(rt, "mark") == 0 {
			b.marked = true
		}
		if useFailed && rapid.IntRange(0, 9).Draw(rt, "failed") == 0 {
			b.failed = true
		}
		return b
	}
	start := int64(rapid.IntRange(-60, 60).Draw(rt, "startSlot")) // block times may be negative (pre-epoch), TSDB allows it
	if c.gen == "aligned" {
		slots := rapid.IntRange(1, 40).Draw(rt, "slots")
		density := rapid.IntRange(3, 10).Draw(rt, "density")
		// unit of the grid: normally the smallest range; sometimes a higher one (a bucket whose blocks
		// have all been compacted to that level already)
		unitLevel := 0
		if rapid.IntRange(0, 3).Draw(rt, "bigUnit") == 0 {
			unitLevel = rapid.IntRange(1, len(c.ranges)-1).Draw(rt, "unitLevel")
			if slots > 12 {
				slots = 12
			}
		}
		r0 := c.ranges[unitLevel]
		var bs []pblk
		for s := 0; s < slots; s++ {
			if rapid.IntRange(1, 10).Draw(rt, "occ") > density {
				continue
			}
			lo := (start + int64(s)) * r0
			b := pblk{min: lo, max: lo + r0, level: unitLevel + 1}
			if rapid.IntRange(0, 7).Draw(rt, "partial") == 0 {
				a := rapid.Int64Range(0, r0-1).Draw(rt, "pa")
				e := rapid.Int64Range(a+1, r0).Draw(rt, "pe")
				if rapid.Bool().Draw(rt, "endAligned") {
					e = r0
				}
				b.min, b.max = lo+a, lo+e
			}
			bs = append(bs, b)
		}
		if len(bs) == 0 {
			lo := start * r0
			bs = append(bs, pblk{min: lo, max: lo + r0, level: unitLevel + 1})
		}
		// earlier compactions: merge everything inside one aligned window of a higher range
		for k := rapid.IntRange(0, 3).Draw(rt, "premerges"); k > 0; k-- {
			li := rapid.IntRange(1, len(c.ranges)-1).Draw(rt, "pmLevel")
			r := c.ranges[li]
			pick := bs[rapid.IntRange(0, len(bs)-1).Draw(rt, "pmAt")]
			w := floorDiv(pick.min, r)
			var in, rest []pblk
			for _, b := range bs {
				if floorDiv(b.min, r) == w && floorDiv(b.max-1, r) == w {
					in = append(in, b)
				} else {
					rest = append(rest, b)
				}
			}
			if len(in) < 2 {
				continue
			}
			// an earlier compaction may have taken only a prefix of the window
			take := rapid.IntRange(2, len(in)).Draw(rt, "pmTake")
			m := pblk{min: in[0].min, max: in[take-1].max, level: li + 1}
			bs = append(rest, m)
			bs = append(bs, in[take:]...)
			sort.SliceStable(bs, func(i, j int) bool { return bs[i].min < bs[j].min })
		}
		for _, b := range bs {
			c.blocks = append(c.blocks, decorate(b))
		}
	} else {
		nb := rapid.IntRange(2, 12).Draw(rt, "blocks")
		var bs []pblk
		for i := 0; i < nb; i++ {
			if len(bs) > 0 && rapid.IntRange(0, 4).Draw(rt, "dup") == 0 {
				o := bs[rapid.IntRange(0, len(bs)-1).Draw(rt, "dupOf")]
				bs = append(bs, pblk{min: o.min, max: o.max, level: 1})
				continue
			}
			lo := (start + int64(rapid.IntRange(0, 12).Draw(rt, "slot"))) * r0
			ln := r0
			switch rapid.IntRange(0, 3).Draw(rt, "shape") {
			case 0:
				lo += rapid.Int64Range(-r0/2, r0/2).Draw(rt, "shift")
			case 1:
				ln = rapid.Int64Range(1, r0).Draw(rt, "len")
			}
			if lo < 0 {
				lo = 0
			}
			bs = append(bs, pblk{min: lo, max: lo + ln, level: 1})
		}
		bs = rapid.Permutation(bs).Draw(rt, "listing")
		for _, b := range bs {
			c.blocks = append(c.blocks, decorate(b))
		}
	}
	return c
}

func c30Classes(c *c30case, o c30out) []string {
	cl := []string{"gen-" + c.gen, "planner-" + c.variant, fmt.Sprintf("levels-%d", len(c.ranges))}
	switch {
	case o.steps == 0:
		cl = append(cl, "steps-0")
	case o.steps < 3:
		cl = append(cl, "steps-1..2")
	case o.steps < 8:
		cl = append(cl, "steps-3..7")
	default:
		cl = append(cl, "steps-8+")
	}
	if o.routed {
		cl = append(cl, "routed-around-no-compact")
	}
	if o.alignedSeen {
		cl = append(cl, "aligned-plan-checked")
	}
	if o.overlapPlan {
		cl = append(cl, "overlap-plan")
	}
	if o.tombPlan {
		cl = append(cl, "tombstone-plan")
	}
	if o.selfMarked {
		cl = append(cl, "planner-marked-no-compact")
	}
	return cl
}

func TestVerifC30(t *testing.T) {
	rec := kit.For(t, "C30")
	// plain inputs (layouts in the style of planner_test.go, run through the whole history)
	plain := []*c30case{
		{ranges: []int64{20, 60, 180}, gen: "aligned", variant: "plain", maxIndex: 1 << 40, blocks: []pblk{
			{n: 1, min: 0, max: 20, level: 1, nser: 10, index: 1}, {n: 2, min: 20, max: 40, level: 1, nser: 10, index: 1}, {n: 3, min: 40, max: 60, level: 1, nser: 10, index: 1},
			{n: 4, min: 60, max: 80, level: 1, nser: 10, index: 1}, {n: 5, min: 80, max: 100, level: 1, nser: 10, index: 1}, {n: 6, min: 100, max: 120, level: 1, nser: 10, index: 1},
			{n: 7, min: 120, max: 140, level: 1, nser: 10, index: 1}, {n: 8, min: 180, max: 200, level: 1, nser: 10, index: 1}}},
		{ranges: []int64{20, 60, 180}, gen: "aligned", variant: "plain", maxIndex: 1 << 40, blocks: []pblk{
			{n: 1, min: 0, max: 20, level: 1, nser: 10, index: 1}, {n: 2, min: 20, max: 40, level: 1, nser: 10, index: 1, marked: true}, {n: 3, min: 40, max: 60, level: 1, nser: 10, index: 1},
			{n: 4, min: 60, max: 80, level: 1, nser: 10, index: 1}, {n: 5, min: 80, max: 100, level: 1, nser: 10, index: 1}, {n: 6, min: 100, max: 120, level: 1, nser: 10, index: 1},
			{n: 7, min: 200, max: 220, level: 1, nser: 10, index: 1}}},
		{ranges: []int64{20, 60}, gen: "misaligned", variant: "vertical", maxIndex: 1 << 40, blocks: []pblk{
			{n: 1, min: 0, max: 20, level: 1, nser: 10, index: 1}, {n: 2, min: 0, max: 20, level: 1, nser: 10, index: 1}, {n: 3, min: 10, max: 30, level: 1, nser: 10, index: 1},
			{n: 4, min: 40, max: 60, level: 1, nser: 10, index: 1}, {n: 5, min: 60, max: 80, level: 1, nser: 10, tomb: 3, index: 1}, {n: 6, min: 100, max: 120, level: 1, nser: 10, index: 1}}},
	}
	known := kit.KnownFindings("C30")
	// saved minimal input of the finding sigC30SelfMark
	{
		c := &c30case{ranges: []int64{10, 20}, gen: "misaligned", variant: "vertical", res: 300000, maxIndex: 63, blocks: []pblk{
			{n: 1, min: 0, max: 10, level: 1, nser: 1, index: 1}, {n: 2, min: 0, max: 10, level: 1, nser: 1, index: 1}, {n: 3, min: 0, max: 10, level: 1, nser: 1, index: 51},
			{n: 4, min: 10, max: 20, level: 1, nser: 1, index: 1}, {n: 5, min: 20, max: 30, level: 1, nser: 1, index: 1}}}
		msg, _ := runC30(c, false)
		if msg != "" {
			if known[sigC30SelfMark] && strings.HasPrefix(msg, sigC30SelfMark) {
				rec.Known(sigC30SelfMark, "vertical+index-size planner returns a block it has just marked no-compact: "+msg)
			} else {
				rec.Violation(t, "regression input (self-marked block planned): %s\ncase: %s", msg, c.render())
			}
		}
	}
	for i, c := range plain {
		msg, o := runC30(c, false)
		if msg != "" {
			rec.Violation(t, "plain input %d: %s\ncase: %s", i, msg, c.render())
		}
		rec.Case("plain:"+c.render(), o.steps >= 3 || o.routed, append(c30Classes(c, o), "plain-input")...)
	}
	rec.Check(t, func(rt *rapid.T) {
		c := genC30(rt)
		msg, o := runC30(c, known[sigC30SelfMark])
		if msg != "" {
			rt.Fatalf("C30 violated: %s\ncase: %s", msg, c.render())
		}
		if o.excluded {
			rec.Excluded(sigC30SelfMark)
			return
		}
		rec.Case(c.render(), o.steps >= 3 || o.routed, c30Classes(c, o)...)
	})
}
