package xcompactplan

import (
	"bytes"
	"context"
	"encoding/binary"
	"encoding/json"
	"path"
	"sort"
	"strings"
	"time"

	"github.com/go-kit/log"
	"github.com/oklog/ulid/v2"
	"github.com/prometheus/client_golang/prometheus"
	"github.com/thanos-io/objstore"

	"github.com/thanos-io/thanos/pkg/block"
	"github.com/thanos-io/thanos/pkg/block/metadata"
)

var nopLogger = log.NewNopLogger()

// mkULID builds a ULID from a millisecond time and a 64-bit entropy value (no RNG involved).
func mkULID(ms uint64, ent uint64) ulid.ULID {
	var u ulid.ULID
	_ = u.SetTime(ms)
	var e [10]byte
	binary.BigEndian.PutUint64(e[2:], ent)
	_ = u.SetEntropy(e[:])
	return u
}

func newGaugeVec() *prometheus.GaugeVec {
	return prometheus.NewGaugeVec(prometheus.GaugeOpts{Name: "verif_g"}, []string{"state"})
}

func newCounter() prometheus.Counter {
	return prometheus.NewCounter(prometheus.CounterOpts{Name: "verif_c"})
}

// tbucket is a real in-memory bucket plus its instrumented view.
type tbucket struct {
	mem *objstore.InMemBucket
	ins objstore.InstrumentedBucket
}

func newTBucket() *tbucket {
	m := objstore.NewInMemBucket()
	return &tbucket{mem: m, ins: objstore.WithNoopInstr(m)}
}

func (b *tbucket) put(name string, data []byte) error {
	return b.mem.Upload(context.Background(), name, bytes.NewReader(data))
}

func (b *tbucket) putMeta(m *metadata.Meta) error {
	var buf bytes.Buffer
	if err := m.Write(&buf); err != nil {
		return err
	}
	return b.put(path.Join(m.ULID.String(), block.MetaFilename), buf.Bytes())
}

func (b *tbucket) exists(name string) bool {
	ok, _ := b.mem.Exists(context.Background(), name)
	return ok
}

// objectsOf lists the object names below <id>/ (plain scan of the bucket's object map).
func (b *tbucket) objectsOf(id ulid.ULID) []string {
	var out []string
	for name := range b.mem.Objects() {
		if strings.HasPrefix(name, id.String()+"/") {
			out = append(out, name)
		}
	}
	sort.Strings(out)
	return out
}

// putDeletionMark writes a deletion mark with the given deletion time (unix seconds).
func (b *tbucket) putDeletionMark(id ulid.ULID, deletionTime int64) error {
	dm := metadata.DeletionMark{ID: id, DeletionTime: deletionTime, Version: metadata.DeletionMarkVersion1, Details: "verif"}
	data, err := json.Marshal(dm)
	if err != nil {
		return err
	}
	return b.put(path.Join(id.String(), metadata.DeletionMarkFilename), data)
}

// readDeletionMark reads the deletion mark of a block directly (independent of the filters).
func (b *tbucket) readDeletionMark(id ulid.ULID) (*metadata.DeletionMark, bool) {
	data, ok := b.mem.Objects()[path.Join(id.String(), metadata.DeletionMarkFilename)]
	if !ok {
		return nil, false
	}
	dm := &metadata.DeletionMark{}
	if json.Unmarshal(data, dm) != nil {
		return nil, false
	}
	return dm, true
}

func msOf(t time.Time) int64 { return t.UnixNano() / int64(time.Millisecond) }
