package xdedup

// C40 Offline deduplication of downsampled chunks keeps every aggregate sample.
// Domain: 2..3 chunk series of one series made of aggregate chunks (count/sum/min/max/counter on
// identical timestamps per series, counter chunks with the trailing duplicate, as DownsampleRaw
// writes them), 1..400 samples, cut into chunks of 1..140 samples, series offset against each other
// so that chunks overlap. Oracle: in every output chunk of NewChunkSeriesMerger, every present
// aggregate has a sample at each timestamp where the output's count aggregate has one; output chunks
// are ordered by time.

import (
	"errors"
	"fmt"
	"math"
	"os"
	"sort"
	"strings"
	"testing"

	"github.com/prometheus/prometheus/storage"
	"github.com/prometheus/prometheus/tsdb/chunkenc"
	"github.com/prometheus/prometheus/tsdb/chunks"
	"pgregory.net/rapid"

	"github.com/thanos-io/thanos/pkg/compact/downsample"
	"github.com/thanos-io/thanos/pkg/dedup"
	"github.com/thanos-io/thanos/verifx/kit"
)

const sigC40Boundary = "C40/sample-lost-at-output-chunk-boundary"

// sigC40ZeroSample: toChunk took "last sample is (t=0, v=0)" for "no sample in the range" and dropped
// the whole aggregate of that output chunk (repaired: it asks the chunk for its sample count).
const sigC40ZeroSample = "C40/zero-sample-taken-for-empty-range"

// sigC40CounterLead: counter chunks as the downsampler really writes them begin with the first raw
// value of their batch at its raw timestamp (before the first window timestamp). The five aggregates
// are deduplicated independently, and the extra leading sample gives the counter iterator another
// penalty history than the count iterator: the merged counter aggregate then lacks timestamps the
// merged count aggregate has. pkg/dedup's pinned TestDedupChunkSeriesMergerDownsampledChunks ("two
// overlapping series") expects exactly such an output, so this is recorded, not repaired.
const sigC40CounterLead = "C40/counter-with-leading-raw-sample-misaligned"

type aggSeries struct {
	ts   []int64
	cuts []int // chunk sizes
	mask [5]bool
	// special: every few samples sum/min/max/counter carry a special float (NaN, stale-marker NaN, +-Inf)
	special bool
	// lead >= 0: every counter chunk begins with the first raw value of its batch at lead ms before
	// the chunk's first window timestamp (what downsampleFloatBatch writes); -1: no such sample
	lead int64
}

func xorChunk(ts []int64, val func(i int) float64, dupLast bool, lead ...int64) chunkenc.Chunk {
	c := chunkenc.NewXORChunk()
	app, _ := c.Appender()
	if len(lead) > 0 && lead[0] >= 0 && len(ts) > 0 {
		app.Append(ts[0]-lead[0], val(0)-1)
	}
	for i, t := range ts {
		app.Append(t, val(i))
	}
	if dupLast && len(ts) > 0 {
		app.Append(ts[len(ts)-1], val(len(ts)-1))
	}
	return c
}

func (a aggSeries) metas(seriesIdx int) []chunks.Meta {
	var out []chunks.Meta
	off := 0
	for _, n := range a.cuts {
		ts := a.ts[off : off+n]
		base := off
		var chks [5]chunkenc.Chunk
		for at := 0; at < 5; at++ {
			if !a.mask[at] {
				continue
			}
			at := at
			chks[at] = xorChunk(ts, func(i int) float64 {
				if a.special && downsample.AggrType(at) != downsample.AggrCount && (base+i)%5 == 2 {
					return []float64{math.NaN(), math.Float64frombits(0x7ff0000000000002), math.Inf(1), math.Inf(-1)}[((base+i)/5)%4]
				}
				switch downsample.AggrType(at) {
				case downsample.AggrCount:
					return float64(1 + (base+i)%3)
				case downsample.AggrCounter:
					return float64(1000*seriesIdx + 10*(base+i))
				default:
					return float64(100*at + (base+i)%17 + seriesIdx)
				}
			}, downsample.AggrType(at) == downsample.AggrCounter, map[bool]int64{true: a.lead, false: -1}[downsample.AggrType(at) == downsample.AggrCounter])
		}
		out = append(out, chunks.Meta{MinTime: ts[0], MaxTime: ts[len(ts)-1], Chunk: downsample.EncodeAggrChunk(chks)})
		off += n
	}
	return out
}

func (a aggSeries) String() string {
	if len(a.ts) == 0 {
		return "[]"
	}
	return fmt.Sprintf("[n=%d t0=%d tN=%d cuts=%v mask=%v lead=%d special=%v]", len(a.ts), a.ts[0], a.ts[len(a.ts)-1], a.cuts, a.mask, a.lead, a.special)
}

func genAggSeries(rt *rapid.T, label string, res int64, base int64, mask [5]bool, maxN int) aggSeries {
	n := rapid.IntRange(1, maxN).Draw(rt, label+"n")
	a := aggSeries{mask: mask, lead: -1}
	a.special = rapid.IntRange(0, 3).Draw(rt, label+"specialFloats") == 0
	if rapid.Bool().Draw(rt, label+"leadingRaw") && os.Getenv("VERIF_C40_NOLEAD") == "" {
		a.lead = rapid.SampledFrom([]int64{0, 1, res / 2, res - 1, res / 5}).Draw(rt, label+"lead")
	}
	t := base
	for i := 0; i < n; i++ {
		a.ts = append(a.ts, t)
		step := res
		if rapid.IntRange(0, 19).Draw(rt, label+"gapq") == 0 {
			step = res * int64(rapid.IntRange(2, 6).Draw(rt, label+"gap"))
		}
		t += step
	}
	rem := n
	for rem > 0 {
		k := rapid.SampledFrom([]int{120, 120, 140, 1, 2, 7, 60, 119, 121}).Draw(rt, label+"cut")
		if rapid.IntRange(0, 3).Draw(rt, label+"cutfree") == 0 {
			k = rapid.IntRange(1, 140).Draw(rt, label+"cutk")
		}
		if k > rem {
			k = rem
		}
		a.cuts = append(a.cuts, k)
		rem -= k
	}
	return a
}

func tsOf(c chunkenc.Chunk) []int64 {
	var out []int64
	it := c.Iterator(nil)
	for it.Next() != chunkenc.ValNone {
		out = append(out, it.AtT())
	}
	return out
}

// waiveCounter: timestamps missing from the counter aggregate only are counted (counterMiss), not reported.
var c40WaiveCounter bool
var c40CounterMiss int

func checkC40(series []aggSeries) (msg string, outChunks int, outSamples int) {
	var cs []storage.ChunkSeries
	for i, a := range series {
		ms := a.metas(i)
		cs = append(cs, &storage.ChunkSeriesEntry{Lset: lset, ChunkIteratorFn: func(chunks.Iterator) chunks.Iterator {
			return storage.NewListChunkSeriesIterator(ms...)
		}})
	}
	merged := dedup.NewChunkSeriesMerger()(cs...)
	it := merged.Iterator(nil)
	var prevMax int64
	first := true
	for it.Next() {
		m := it.At()
		outChunks++
		if !first && m.MinTime < prevMax {
			// overlapping output chunks are not forbidden by the statement; only record ordering by MinTime
		}
		first = false
		prevMax = m.MaxTime
		ac, ok := m.Chunk.(*downsample.AggrChunk)
		if !ok {
			return fmt.Sprintf("output chunk %d is not an aggregate chunk (encoding %v)", outChunks-1, m.Chunk.Encoding()), outChunks, outSamples
		}
		cnt, err := ac.Get(downsample.AggrCount)
		if err != nil {
			return fmt.Sprintf("output chunk %d has no count aggregate: %v", outChunks-1, err), outChunks, outSamples
		}
		cts := tsOf(cnt)
		outSamples += len(cts)
		for at := downsample.AggrSum; at <= downsample.AggrCounter; at++ {
			if !series[0].mask[at] {
				continue
			}
			c, err := ac.Get(at)
			if err != nil && at == downsample.AggrCounter && c40WaiveCounter && errors.Is(err, downsample.ErrAggrNotExist) {
				// the known counter misalignment, in an output chunk where the counter lacks every
				// timestamp of the count aggregate
				c40CounterMiss++
				continue
			}
			if err != nil {
				return fmt.Sprintf("output chunk %d [%d,%d] lost aggregate %v entirely: %v (count has %d samples)", outChunks-1, m.MinTime, m.MaxTime, at, err, len(cts)), outChunks, outSamples
			}
			have := map[int64]bool{}
			for _, t := range tsOf(c) {
				have[t] = true
			}
			var missing []int64
			for _, t := range cts {
				if !have[t] {
					missing = append(missing, t)
				}
			}
			if len(missing) > 0 && at == downsample.AggrCounter && c40WaiveCounter {
				c40CounterMiss++
				continue
			}
			if len(missing) > 0 {
				return fmt.Sprintf("output chunk %d [%d,%d]: aggregate %v misses %d of %d count timestamps, first %d", outChunks-1, m.MinTime, m.MaxTime, at, len(missing), len(cts), missing[0]), outChunks, outSamples
			}
		}
	}
	if err := it.Err(); err != nil {
		return "merge iterator error: " + err.Error(), outChunks, outSamples
	}
	return "", outChunks, outSamples
}

func c40Regress() string {
	mk := func(base int64, n int) aggSeries {
		a := aggSeries{mask: [5]bool{true, true, true, true, true}, lead: -1}
		for i := 0; i < n; i++ {
			a.ts = append(a.ts, base+int64(i)*300000)
		}
		rem := n
		for rem > 0 {
			k := 120
			if k > rem {
				k = rem
			}
			a.cuts = append(a.cuts, k)
			rem -= k
		}
		return a
	}
	msg, _, _ := checkC40([]aggSeries{mk(300000, 200), mk(300000+150000, 200)})
	return msg
}

// c40RegressLead is the minimal input of sigC40CounterLead: one replica with a single window at
// 450000, the other with windows at 300000 and 900000 whose counter chunk begins with the first raw
// value at 150000.
func c40RegressLead() string {
	full := [5]bool{true, true, true, true, true}
	msg, _, _ := checkC40([]aggSeries{
		{ts: []int64{450000}, cuts: []int{1}, mask: full, lead: -1},
		{ts: []int64{300000, 900000}, cuts: []int{2}, mask: full, lead: 150000},
	})
	return msg
}

// c40RegressZero: two identical replicas with the single window timestamp 0; the counter value there is 0.
func c40RegressZero() string {
	full := [5]bool{true, true, true, true, true}
	msg, _, _ := checkC40([]aggSeries{
		{ts: []int64{0}, cuts: []int{1}, mask: full, lead: -1},
		{ts: []int64{0}, cuts: []int{1}, mask: full, lead: -1},
	})
	return msg
}

func TestVerifC40(t *testing.T) {
	rec := kit.For(t, "C40")
	known := kit.KnownFindings("C40")
	if msg := c40RegressZero(); msg != "" {
		if known[sigC40ZeroSample] {
			rec.Known(sigC40ZeroSample, "two replicas with one window at t=0 and counter value 0: "+msg)
		} else {
			rec.Violation(t, "regression zero-sample: %s", msg)
		}
	}
	if msg := c40RegressLead(); msg != "" {
		if known[sigC40CounterLead] {
			rec.Known(sigC40CounterLead, "replica A {450000}, replica B {300000, 900000} with the counter chunk starting with the raw value at 150000: "+msg)
		} else {
			rec.Violation(t, "regression counter-lead: %s", msg)
		}
	}
	if msg := c40Regress(); msg != "" {
		if known[sigC40Boundary] {
			rec.Known(sigC40Boundary, "two overlapping 200-sample aggregate chunk series: "+msg)
		} else {
			rec.Violation(t, "regression F2: %s", msg)
		}
	}
	rec.Check(t, func(rt *rapid.T) {
		res := rapid.SampledFrom([]int64{300000, 3600000}).Draw(rt, "res")
		var mask [5]bool
		mask[0] = true
		if rapid.IntRange(0, 3).Draw(rt, "fullmask") > 0 {
			mask = [5]bool{true, true, true, true, true}
		} else {
			for i := 1; i < 5; i++ {
				mask[i] = rapid.Bool().Draw(rt, "m")
			}
		}
		nser := rapid.SampledFrom([]int{2, 2, 2, 3}).Draw(rt, "series")
		maxN := 400
		if known[sigC40Boundary] {
			// exclusion by construction: the merged result must fit one output chunk (<=120 samples)
			maxN = 120 / nser
			rec.Excluded(sigC40Boundary)
		}
		// timestamps at and below zero are legal in TSDB (a block starting at the epoch, backfilled data)
		base := res * int64(rapid.SampledFrom([]int{0, 0, -1, -3, -130, 1, 1, 7, 500, 1000}).Draw(rt, "base"))
		if rapid.Bool().Draw(rt, "freeBase") {
			base = res * int64(rapid.IntRange(-200, 1000).Draw(rt, "baseK"))
		}
		var series []aggSeries
		for i := 0; i < nser; i++ {
			off := int64(0)
			switch rapid.IntRange(0, 3).Draw(rt, "offkind") {
			case 0:
				off = 0
			case 1:
				off = res / 2
			case 2:
				off = rapid.Int64Range(1, res-1).Draw(rt, "off")
			case 3:
				off = res*int64(rapid.IntRange(0, 150).Draw(rt, "offsteps")) + rapid.Int64Range(0, res-1).Draw(rt, "off2")
			}
			series = append(series, genAggSeries(rt, fmt.Sprintf("s%d", i), res, base+off, mask, maxN))
		}
		// storage.ChunkSeries merge functions receive series sorted by nothing in particular
		anyLead := false
		for _, a := range series {
			anyLead = anyLead || a.lead >= 0
		}
		c40WaiveCounter, c40CounterMiss = anyLead && known[sigC40CounterLead], 0
		msg, oc, os := checkC40(series)
		c40WaiveCounter = false
		if c40CounterMiss > 0 {
			rec.Excluded(sigC40CounterLead)
		}
		var sb strings.Builder
		for i, a := range series {
			fmt.Fprintf(&sb, "s%d=%s ", i, a)
		}
		if msg != "" {
			rt.Fatalf("C40 violated: %s\nres=%d %s", msg, res, sb.String())
		}
		var cls []string
		if oc >= 2 {
			cls = append(cls, "multi-output-chunks")
		}
		overlap := false
		spans := make([][2]int64, 0, len(series))
		for _, a := range series {
			spans = append(spans, [2]int64{a.ts[0], a.ts[len(a.ts)-1]})
		}
		sort.Slice(spans, func(i, j int) bool { return spans[i][0] < spans[j][0] })
		for i := 1; i < len(spans); i++ {
			if spans[i][0] <= spans[i-1][1] {
				overlap = true
			}
		}
		if overlap {
			cls = append(cls, "overlap")
		}
		if anyLead {
			cls = append(cls, "counter-chunks-with-leading-raw-sample")
		}
		if c40CounterMiss > 0 {
			cls = append(cls, "counter-misaligned-with-count(known)")
		}
		rec.Case(fmt.Sprintf("res=%d %s", res, sb.String()), overlap && os > 120 && oc >= 2, cls...)
	})
}
