package xdedup

// C02 Counter deduplication never fabricates counter resets.
// Domain: 2..4 replicas, each a non-decreasing (counter) sequence with independent start values,
// scrape offsets and gaps; f in {rate, irate, increase, resets}. Two value classes: integer-valued
// (exact arithmetic) and fractional (e.g. *_seconds_total). Oracle: the deduplicated values never
// decrease (PromQL treats ANY decrease as a reset, so zero tolerance), timestamps strictly increase
// and every output timestamp is a timestamp of some replica.

import (
	"fmt"
	"testing"

	"pgregory.net/rapid"

	"github.com/thanos-io/thanos/verifx/kit"
)

const sigC02Frac = "C02/fractional-ulp-decrease"

func counterValue(fractional bool) func(t *rapid.T, replica, idx int, ts int64, prev float64) float64 {
	return func(t *rapid.T, replica, idx int, ts int64, prev float64) float64 {
		if idx == 0 || prev == 0 {
			// independent start value per replica (app restarts at different times)
			if fractional {
				return float64(rapid.IntRange(0, 100000).Draw(t, "start")) / 7.0
			}
			return float64(rapid.IntRange(0, 100000).Draw(t, "start"))
		}
		inc := rapid.IntRange(0, 50).Draw(t, "inc")
		if fractional {
			return prev + float64(inc)/3.0
		}
		return prev + float64(inc)
	}
}

func rawAt(rs [][]smpl, ts int64) (vals []float64) {
	for _, r := range rs {
		for _, s := range r {
			if s.t == ts {
				vals = append(vals, s.v)
			}
		}
	}
	return vals
}

func checkC02(rs [][]smpl, f string) (msg string, nontrivial bool, classes []string) {
	it := newPenaltyIter(rs, f)
	if it == nil {
		return "series set empty", false, nil
	}
	out := drain(it)
	if err := it.Err(); err != nil {
		return "iterator error: " + err.Error(), false, nil
	}
	adjusted := 0
	for i, s := range out {
		raws := rawAt(rs, s.t)
		if len(raws) == 0 {
			return fmt.Sprintf("output timestamp %d is held by no replica", s.t), false, nil
		}
		if i == 0 {
			continue
		}
		if s.t <= out[i-1].t {
			return fmt.Sprintf("timestamps not strictly increasing: %d then %d", out[i-1].t, s.t), false, nil
		}
		if s.v < out[i-1].v {
			return fmt.Sprintf("deduplicated counter decreases at output %d: (%d, %v) then (%d, %v)", i, out[i-1].t, out[i-1].v, s.t, s.v), false, nil
		}
		below := true
		for _, rv := range raws {
			if rv >= out[i-1].v {
				below = false
			}
		}
		if below {
			adjusted++
		}
	}
	total := 0
	for _, r := range rs {
		total += len(r)
	}
	if total > 0 && len(out) == 0 {
		return "non-empty replicas produced an empty output", false, nil
	}
	if adjusted > 0 {
		classes = append(classes, "switch-to-lower-replica")
	}
	return "", adjusted > 0, classes
}

func TestVerifC02(t *testing.T) {
	rec := kit.For(t, "C02")
	known := kit.KnownFindings("C02")
	// regression input of finding F16 (fractional counters: 1-ulp decrease after a replica switch)
	{
		msg := c02RegressF16()
		if msg != "" {
			if known[sigC02Frac] {
				rec.Known(sigC02Frac, "fractional counter decreases by 1 ulp after a replica switch: "+msg)
			} else {
				rec.Violation(t, "regression F16: %s", msg)
			}
		}
	}
	rec.Check(t, func(rt *rapid.T) {
		fractional := rapid.Bool().Draw(rt, "fractional")
		if fractional && known[sigC02Frac] {
			rec.Excluded(sigC02Frac)
			fractional = false
		}
		rs, mode := genReplicas(rt, 2, 4, counterValue(fractional))
		f := rapid.SampledFrom([]string{"rate", "irate", "increase", "resets"}).Draw(rt, "f")
		msg, nt, classes := checkC02(rs, f)
		if msg != "" {
			rt.Fatalf("C02 violated: %s\nreplicas: %s f=%q", msg, render(rs), f)
		}
		cls := "integer"
		if fractional {
			cls = "fractional"
		}
		rec.Case(fmt.Sprintf("f=%s %s", f, render(rs)), nt, append(classes, "mode-"+mode, cls)...)
	})
}
