package xdedup

// C01 Penalty replica deduplication yields a well-formed merge of replica samples.
// Domain: 1..4 replicas of one series (perturbed scrape grid / identical / disjoint / free), non-counter
// query functions, seek targets. Oracle: (a) strictly increasing timestamps, (b) provenance,
// (c) single / identical replicas unchanged, (d) Seek(t) then Next.. == suffix {s.t >= t} of a full
// drain, for a fresh iterator and after a prefix of Next calls.

import (
	"fmt"
	"math"
	"testing"

	"github.com/prometheus/prometheus/storage"
	"github.com/prometheus/prometheus/tsdb/chunkenc"
	"pgregory.net/rapid"

	"github.com/thanos-io/thanos/pkg/dedup"
	"github.com/thanos-io/thanos/verifx/kit"
)

const sigC01FreshSeek = "C01/seek-before-first-next"

// c01Bound, when set, wraps every replica in dedup.NewBoundedSeriesIterator(mint, maxt) the way the
// querier does (pkg/query/iter.go); the oracle then works on the replicas clipped to [mint, maxt] and
// ignores output beyond maxt (a bounded Seek may land on a later sample, which no reader looks at).
var c01Bound *[2]int64

type boundedSeries struct {
	storage.Series
	mint, maxt int64
}

func (b boundedSeries) Iterator(it chunkenc.Iterator) chunkenc.Iterator {
	return dedup.NewBoundedSeriesIterator(b.Series.Iterator(nil), b.mint, b.maxt)
}

func newPenaltyIter(rs [][]smpl, f string) chunkenc.Iterator {
	in := seriesSetOf(rs)
	if c01Bound != nil {
		l := in.(*listSeriesSet)
		for i := range l.series {
			l.series[i] = boundedSeries{l.series[i], c01Bound[0], c01Bound[1]}
		}
	}
	set := dedup.NewSeriesSet(in, f, dedup.AlgorithmPenalty)
	if !set.Next() {
		return nil
	}
	return set.At().Iterator(nil)
}

func freeValue(t *rapid.T, replica, idx int, ts int64, prev float64) float64 {
	switch rapid.IntRange(0, 3).Draw(t, "vk") {
	case 0:
		return float64(rapid.IntRange(-5, 5).Draw(t, "vi"))
	case 1:
		return float64(ts % 1000)
	case 2:
		return rapid.Float64().Draw(t, "vf")
	default:
		return float64(replica*1000 + idx)
	}
}

func holders(rs [][]smpl, s smpl) []int {
	var h []int
	for i, r := range rs {
		for _, x := range r {
			if x.t == s.t && math.Float64bits(x.v) == math.Float64bits(s.v) {
				h = append(h, i)
				break
			}
		}
	}
	return h
}

func disjointInts(a, b []int) bool {
	for _, x := range a {
		for _, y := range b {
			if x == y {
				return false
			}
		}
	}
	return true
}

// checkC01 is the oracle; seekPrefix<0 means "no seek part". It returns an error text or "".
func checkC01(rs [][]smpl, f string, mode string, seekPrefix int, seekT int64, skipFreshSeek bool) (string, bool, []string) {
	var classes []string
	it := newPenaltyIter(rs, f)
	if it == nil {
		return "series set empty", false, nil
	}
	full := drain(it)
	if c01Bound != nil {
		// the oracle's replicas are the samples inside the bounds
		clipped := make([][]smpl, len(rs))
		for i, r := range rs {
			for _, x := range r {
				if x.t >= c01Bound[0] && x.t <= c01Bound[1] {
					clipped[i] = append(clipped[i], x)
				}
			}
		}
		rs = clipped
		// With three or more replicas the outer iterator drives the inner one through Seek, and a
		// bounded Seek may land on a sample later than maxt: output beyond maxt is ignored (no reader
		// of the querier looks there), it only has to come from a replica.
		for len(full) > 0 && full[len(full)-1].t > c01Bound[1] {
			classes = append(classes, "output-beyond-maxt-ignored")
			full = full[:len(full)-1]
		}
		for _, x := range full {
			if x.t < c01Bound[0] || x.t > c01Bound[1] {
				return fmt.Sprintf("a reader iterating with Next sees sample (%d,%v) outside the bounds [%d,%d] before an in-range one", x.t, x.v, c01Bound[0], c01Bound[1]), false, nil
			}
		}
		classes = append(classes, "bounded-replicas")
	}
	if err := it.Err(); err != nil {
		return "iterator error: " + err.Error(), false, nil
	}
	// (a) strictly increasing
	for i := 1; i < len(full); i++ {
		if full[i].t <= full[i-1].t {
			return fmt.Sprintf("timestamps not strictly increasing at %d: %d then %d (out=%s)", i, full[i-1].t, full[i].t, render([][]smpl{full})), false, nil
		}
	}
	// (b) provenance
	switches := 0
	var prevH []int
	for i, s := range full {
		h := holders(rs, s)
		if len(h) == 0 {
			return fmt.Sprintf("output sample %d (%d,%v) is held by no replica", i, s.t, s.v), false, nil
		}
		if i > 0 && disjointInts(prevH, h) {
			switches++
		}
		prevH = h
	}
	// (c) single / identical replicas unchanged
	if len(rs) == 1 || mode == "identical" {
		if !sameSamples(full, rs[0]) {
			return fmt.Sprintf("single/identical replicas changed: in=%s out=%s", render(rs[:1]), render([][]smpl{full})), false, nil
		}
		classes = append(classes, "identical-or-single")
	}
	nontrivial := len(rs) >= 2 && switches >= 1
	if switches >= 1 {
		classes = append(classes, "switch")
	}
	// non-empty output whenever some replica is non-empty
	total := 0
	for _, r := range rs {
		total += len(r)
	}
	if total > 0 && len(full) == 0 {
		return "non-empty replicas produced an empty output", false, nil
	}
	// (d) seek metamorphic
	if seekPrefix >= 0 {
		fresh := seekPrefix == 0
		if fresh && skipFreshSeek {
			return "", nontrivial, append(classes, "fresh-seek-excluded")
		}
		it2 := newPenaltyIter(rs, f)
		var got []smpl
		n := 0
		for n < seekPrefix && it2.Next() != chunkenc.ValNone {
			n++
		}
		if n < seekPrefix {
			return "", nontrivial, classes // prefix longer than the series: nothing to seek
		}
		// after p Next calls the iterator stands on full[p-1]; Seek(T) must land on the first sample
		// from there on with t >= T.
		from := seekPrefix - 1
		if from < 0 {
			from = 0
		}
		want := []smpl{}
		for i := from; i < len(full); i++ {
			if full[i].t >= seekT {
				want = append(want, full[i:]...)
				break
			}
		}
		if it2.Seek(seekT) != chunkenc.ValNone {
			t0, v0 := it2.At()
			if it2.AtT() != t0 {
				return fmt.Sprintf("AtT %d != At().t %d after Seek", it2.AtT(), t0), false, nil
			}
			got = append(got, smpl{t0, v0})
			got = append(got, drain(it2)...)
		}
		if c01Bound != nil {
			for len(got) > 0 && got[len(got)-1].t > c01Bound[1] {
				got = got[:len(got)-1]
			}
		}
		if !sameSamples(got, want) {
			return fmt.Sprintf("Seek(%d) after %d Next: got %s want suffix %s (full %s)", seekT, seekPrefix, render([][]smpl{got}), render([][]smpl{want}), render([][]smpl{full})), false, nil
		}
		if fresh {
			classes = append(classes, "fresh-seek")
			nontrivial = true
		} else {
			classes = append(classes, "seek-after-next")
		}
	}
	return "", nontrivial, classes
}

func TestVerifC01(t *testing.T) {
	rec := kit.For(t, "C01")
	known := kit.KnownFindings("C01")
	// saved regression input of finding F1 (fresh Seek goes back in time afterwards)
	{
		rs := [][]smpl{{{100000, 1}, {110000, 2}, {120000, 3}}, {{50000, 4}, {60000, 5}, {115000, 6}}}
		msg, _, _ := checkC01(rs, "", "free", 0, 10, false)
		if msg != "" {
			if known[sigC01FreshSeek] {
				rec.Known(sigC01FreshSeek, "fresh iterator Seek(10) then Next goes back in time: "+msg)
			} else {
				rec.Violation(t, "regression F1: %s", msg)
			}
		}
	}
	rec.Check(t, func(rt *rapid.T) {
		rs, mode := genReplicas(rt, 1, 4, freeValue)
		f := rapid.SampledFrom([]string{"", "avg_over_time", "max_over_time", "sum_over_time", "count_over_time", "delta"}).Draw(rt, "f")
		ts := allTimes(rs)
		seekPrefix := -1
		var seekT int64
		if len(ts) > 0 && rapid.IntRange(0, 3).Draw(rt, "doSeek") > 0 {
			seekPrefix = rapid.IntRange(0, 3).Draw(rt, "prefix")
			if rapid.Bool().Draw(rt, "freshSeek") {
				seekPrefix = 0
			}
			k := rapid.IntRange(0, len(ts)-1).Draw(rt, "seekIdx")
			seekT = ts[k] + int64(rapid.IntRange(-1, 1).Draw(rt, "seekOff"))
			switch rapid.IntRange(0, 9).Draw(rt, "seekKind") {
			case 0:
				seekT = ts[0] - 1000
			case 1:
				seekT = ts[len(ts)-1] + 1000
			case 2:
				// boundary values of the timestamp domain (a reader may seek to "the beginning")
				seekT = rapid.SampledFrom([]int64{math.MinInt64, math.MinInt64 + 1, -1, 0, math.MaxInt64}).Draw(rt, "seekBoundary")
			}
		}
		if seekPrefix == 0 && known[sigC01FreshSeek] {
			rec.Excluded(sigC01FreshSeek)
		}
		// the querier's bounds: none, or [mint, maxt] on / next to sample timestamps
		c01Bound = nil
		bounds := ""
		if len(ts) > 0 && rapid.IntRange(0, 2).Draw(rt, "bounded") == 0 {
			pick := func(label string) int64 {
				return ts[rapid.IntRange(0, len(ts)-1).Draw(rt, label)] + rapid.SampledFrom([]int64{0, 0, 0, 1, -1, 500}).Draw(rt, label+"Off")
			}
			lo, hi := pick("mint"), pick("maxt")
			if rapid.IntRange(0, 2).Draw(rt, "maxtLast") == 0 {
				hi = ts[len(ts)-1]
			}
			if lo > hi {
				lo, hi = hi, lo
			}
			if rapid.IntRange(0, 3).Draw(rt, "mintOpen") == 0 {
				lo = math.MinInt64
			}
			c01Bound = &[2]int64{lo, hi}
			bounds = fmt.Sprintf(" bounds=[%d,%d]", lo, hi)
			if seekPrefix >= 0 && rapid.IntRange(0, 2).Draw(rt, "seekMaxt") == 0 {
				seekT = hi + rapid.SampledFrom([]int64{0, 0, -1, 1}).Draw(rt, "seekMaxtOff")
			}
		}
		msg, nt, classes := checkC01(rs, f, mode, seekPrefix, seekT, known[sigC01FreshSeek])
		c01Bound = nil
		if msg != "" {
			rt.Fatalf("C01 violated: %s\nreplicas: %s f=%q%s", msg, render(rs), f, bounds)
		}
		f += bounds
		rec.Case(fmt.Sprintf("f=%s seek=%d@%d %s", f, seekPrefix, seekT, render(rs)), nt, append(classes, "mode-"+mode)...)
	})
}
