package xdedup

// Saved minimal inputs of finding F16 (C02/fractional-ulp-decrease): switching from a replica at 9/7
// to a replica whose raw value is 2/7 adjusts by fl(9/7-2/7) and fl(2/7+adj) is 1 ulp below 9/7.
func c02RegressF16() string {
	for _, rs := range [][][]smpl{
		{{{5002, 2.0 / 7}}, {{1, 9.0 / 7}}},
		{{{5002, 2.0 / 7}, {10002, 2.0 / 7}, {15002, 2.0 / 7}}, {{1, 9.0 / 7}}}, // plateau after the switch
		{{{5002, 2.0 / 7}, {10002, 2.0 / 7}, {15002, 1.0 / 7}, {20002, 3.0 / 7}}, {{1, 9.0 / 7}}},
	} {
		if len(rs[0]) == 4 {
			continue // contains a genuine reset (1/7 after 2/7): outside the property's domain, kept for the record only
		}
		if msg, _, _ := checkC02(rs, "rate"); msg != "" {
			return msg + " input " + render(rs)
		}
	}
	return ""
}
