package xdedup

import (
	"fmt"
	"math"
	"sort"
	"strings"

	"github.com/prometheus/prometheus/model/histogram"
	"github.com/prometheus/prometheus/model/labels"
	"github.com/prometheus/prometheus/storage"
	"github.com/prometheus/prometheus/tsdb/chunkenc"
	"github.com/prometheus/prometheus/tsdb/chunks"
	"github.com/prometheus/prometheus/util/annotations"
	"pgregory.net/rapid"
)

// smpl implements chunks.Sample for storage.NewListSeries.
type smpl struct {
	t int64
	v float64
}

func (s smpl) T() int64                      { return s.t }
func (s smpl) F() float64                    { return s.v }
func (s smpl) H() *histogram.Histogram       { return nil }
func (s smpl) FH() *histogram.FloatHistogram { return nil }
func (s smpl) Type() chunkenc.ValueType      { return chunkenc.ValFloat }
func (s smpl) Copy() chunks.Sample           { return s }

func toSamples(x []smpl) []chunks.Sample {
	out := make([]chunks.Sample, len(x))
	for i := range x {
		out[i] = x[i]
	}
	return out
}

func render(rs [][]smpl) string {
	var sb strings.Builder
	for i, r := range rs {
		fmt.Fprintf(&sb, "r%d=[", i)
		for j, s := range r {
			if j > 0 {
				sb.WriteByte(' ')
			}
			fmt.Fprintf(&sb, "%d:%v", s.t, s.v)
		}
		sb.WriteString("] ")
	}
	return sb.String()
}

var lset = labels.FromStrings("__name__", "m", "a", "1")

// seriesSetOf builds the sorted series set dedup.NewSeriesSet expects: all replicas of one series
// (the replica label is already removed by the querier at that point, so labels are equal).
func seriesSetOf(rs [][]smpl) storage.SeriesSet {
	ss := make([]storage.Series, 0, len(rs))
	for _, r := range rs {
		ss = append(ss, storage.NewListSeries(lset, toSamples(r)))
	}
	return &listSeriesSet{series: ss, idx: -1}
}

type listSeriesSet struct {
	series []storage.Series
	idx    int
}

func (s *listSeriesSet) Next() bool                        { s.idx++; return s.idx < len(s.series) }
func (s *listSeriesSet) At() storage.Series                { return s.series[s.idx] }
func (s *listSeriesSet) Err() error                        { return nil }
func (s *listSeriesSet) Warnings() annotations.Annotations { return nil }

// genGrid draws replicas that are perturbations of one scrape grid: per-replica phase offset,
// jitter, dropped runs, late start / early end; or identical; or disjoint.
func genReplicas(t *rapid.T, nmin, nmax int, valueOf func(t *rapid.T, replica, idx int, ts int64, prev float64) float64) ([][]smpl, string) {
	n := rapid.IntRange(nmin, nmax).Draw(t, "replicas")
	mode := rapid.SampledFrom([]string{"perturbed", "perturbed", "perturbed", "identical", "disjoint", "free"}).Draw(t, "mode")
	interval := rapid.SampledFrom([]int64{1000, 5000, 10000, 15000, 30000, 60000}).Draw(t, "interval")
	base := rapid.Int64Range(-1_000_000, 1_000_000).Draw(t, "base") // timestamps at and below zero are legal
	points := rapid.IntRange(1, 40).Draw(t, "points")
	rs := make([][]smpl, n)
	switch mode {
	case "identical":
		var r []smpl
		ts := base
		prev := 0.0
		for i := 0; i < points; i++ {
			v := valueOf(t, 0, i, ts, prev)
			prev = v
			r = append(r, smpl{ts, v})
			ts += interval + rapid.Int64Range(0, interval/2).Draw(t, "jit")
		}
		for i := range rs {
			rs[i] = append([]smpl(nil), r...)
		}
	case "disjoint":
		ts := base
		for i := range rs {
			k := rapid.IntRange(0, points).Draw(t, "k")
			prev := 0.0
			for j := 0; j < k; j++ {
				v := valueOf(t, i, j, ts, prev)
				prev = v
				rs[i] = append(rs[i], smpl{ts, v})
				ts += interval + rapid.Int64Range(0, interval/2).Draw(t, "jit")
			}
			ts += rapid.Int64Range(1, 5*interval).Draw(t, "gap")
		}
		// any order of replicas
		perm := rapid.Permutation(rs).Draw(t, "perm")
		rs = perm
	case "free":
		for i := range rs {
			k := rapid.IntRange(0, points).Draw(t, "k")
			ts := base + rapid.Int64Range(0, 3*interval).Draw(t, "off")
			prev := 0.0
			for j := 0; j < k; j++ {
				v := valueOf(t, i, j, ts, prev)
				prev = v
				rs[i] = append(rs[i], smpl{ts, v})
				ts += rapid.Int64Range(1, 3*interval).Draw(t, "d")
			}
		}
	default:
		for i := range rs {
			off := rapid.Int64Range(0, interval-1).Draw(t, "phase")
			start := rapid.IntRange(0, points/2).Draw(t, "start")
			end := rapid.IntRange(start, points).Draw(t, "end")
			dropFrom := rapid.IntRange(0, points).Draw(t, "dropFrom")
			dropLen := rapid.IntRange(0, 6).Draw(t, "dropLen")
			maxJit := rapid.SampledFrom([]int64{0, 1, 50, interval / 10}).Draw(t, "maxJit")
			prev := 0.0
			last := int64(math.MinInt64)
			for j := start; j < end; j++ {
				if j >= dropFrom && j < dropFrom+dropLen {
					continue
				}
				ts := base + int64(j)*interval + off
				if maxJit > 0 {
					ts += rapid.Int64Range(0, maxJit).Draw(t, "jit")
				}
				if ts <= last {
					ts = last + 1
				}
				last = ts
				v := valueOf(t, i, j, ts, prev)
				prev = v
				rs[i] = append(rs[i], smpl{ts, v})
			}
		}
	}
	return rs, mode
}

func drain(it chunkenc.Iterator) []smpl {
	var out []smpl
	for it.Next() != chunkenc.ValNone {
		t, v := it.At()
		out = append(out, smpl{t, v})
	}
	return out
}

func sameSamples(a, b []smpl) bool {
	if len(a) != len(b) {
		return false
	}
	for i := range a {
		if a[i].t != b[i].t || math.Float64bits(a[i].v) != math.Float64bits(b[i].v) {
			return false
		}
	}
	return true
}

func allTimes(rs [][]smpl) []int64 {
	var ts []int64
	for _, r := range rs {
		for _, s := range r {
			ts = append(ts, s.t)
		}
	}
	sort.Slice(ts, func(i, j int) bool { return ts[i] < ts[j] })
	return ts
}
