package xc19

// C19 Building a hashring from any configuration terminates.
//
// Own test binary (virtual package verifx/xc19): a constructor that does not return leaves a spinning
// goroutine behind which cannot be stopped; the go test process simply exits when the tests are done.
//
// Space (phase 1): every zone layout of 1..12 endpoints = every composition of n into 1..4 zone
// sizes, for >= 2 zones in two variants (all zones named / the first zone unnamed, AZ ""), times
// RF 1..n+1, ketama, through receive.NewMultiHashring. Thorough tier: the whole space (17 382
// configurations, split over the shards); quick tier: every configuration with n <= 6 plus a
// seed-dependent stride sample of the rest.
// Oracle: the constructor returns (ring or error) before the deadline; a returned ring is usable:
// GetN(n < RF) succeeds for a few series. The deadline is the subject of the property: a configuration
// counts as hanging when it has not returned after c19Deadline of wall clock AND the process has burnt
// at least half of that in CPU time meanwhile (construction takes 1-40 ms; a starved process alone is
// not a hang).
// Phase 2 (same root cause, reached through GetN): shuffle sharding without zone awareness on a
// multi-zone ring builds a tenant sub-ring with newKetamaHashring inside GetN. For a small table of
// layouts x RF x shard size x tenants, GetN must return before the deadline.
// Known finding C19/az-layout-cannot-reach-rf: with z >= 2 zones, smallest zone m and c zones larger
// than m, RF > m*z+c can never be reached by calculateSectionReplicas (a zone accepts a replica only
// while it is among the least occupied ones, and the smallest zone is exhausted) - it loops forever.
// If the signature is listed as known, exactly those layouts are skipped (rec.Excluded) and the saved
// inputs are run LAST (they leave spinning goroutines). Otherwise everything is run in ascending
// order and the first hang is reported as the violation (it is already minimal); the run stops there.

import (
	"fmt"
	"os"
	"sort"
	"strconv"
	"strings"
	"syscall"
	"testing"
	"time"

	"github.com/prometheus/client_golang/prometheus"

	"github.com/thanos-io/thanos/pkg/receive"
	"github.com/thanos-io/thanos/pkg/store/labelpb"
	"github.com/thanos-io/thanos/pkg/store/storepb/prompb"
	"github.com/thanos-io/thanos/verifx/kit"
)

const (
	sigC19       = "C19/az-layout-cannot-reach-rf"
	c19Deadline  = 20 * time.Second
	c19MinCPU    = 10 * time.Second
	c19MaxNodes  = 12
	c19MaxZones  = 4
	c19QuickFull = 6 // quick tier: all configurations up to this many endpoints
)

type c19Config struct {
	sizes   []int
	unnamed bool // first zone has AZ ""
	rf      int
	// dups: the configuration lists the first dups endpoints a second time at the end (same address,
	// same AZ) - nothing rejects that; the listed count is nodes()+dups
	dups int
}

func (c c19Config) nodes() int {
	n := 0
	for _, s := range c.sizes {
		n += s
	}
	return n
}

func (c c19Config) zoneName(i int) string {
	if i == 0 && c.unnamed {
		return ""
	}
	return string(rune('A' + i))
}

func (c c19Config) String() string {
	var sb strings.Builder
	for i, s := range c.sizes {
		if i > 0 {
			sb.WriteByte(' ')
		}
		fmt.Fprintf(&sb, "%q:%d", c.zoneName(i), s)
	}
	if c.dups > 0 {
		return fmt.Sprintf("zones{%s} +%d endpoint(s) listed twice RF=%d", sb.String(), c.dups, c.rf)
	}
	return fmt.Sprintf("zones{%s} RF=%d", sb.String(), c.rf)
}

func (c c19Config) endpoints() []receive.Endpoint {
	var eps []receive.Endpoint
	k := 0
	for i, s := range c.sizes {
		az := c.zoneName(i)
		if len(c.sizes) == 1 {
			az = "" // a single zone = no zones configured
		}
		for j := 0; j < s; j++ {
			eps = append(eps, receive.Endpoint{Address: "node-" + strconv.Itoa(k) + ":10901", AZ: az})
			k++
		}
	}
	for d := 0; d < c.dups && d < k; d++ {
		eps = append(eps, eps[d])
	}
	return eps
}

// c19MaxRF: largest RF the level-by-level zone filling can reach (see header); n for <= 1 zone.
func c19MaxRF(sizes []int) int {
	n, m := 0, sizes[0]
	for _, s := range sizes {
		n += s
		if s < m {
			m = s
		}
	}
	if len(sizes) <= 1 {
		return n
	}
	c := 0
	for _, s := range sizes {
		if s > m {
			c++
		}
	}
	return m*len(sizes) + c
}

func c19Compositions(n, k int) [][]int {
	if k == 1 {
		return [][]int{{n}}
	}
	var out [][]int
	for first := 1; first <= n-(k-1); first++ {
		for _, rest := range c19Compositions(n-first, k-1) {
			out = append(out, append([]int{first}, rest...))
		}
	}
	return out
}

// c19Space enumerates the whole space in ascending order (n, RF, zones, composition, variant).
func c19Space() []c19Config {
	var out []c19Config
	for n := 1; n <= c19MaxNodes; n++ {
		for rf := 1; rf <= n+1; rf++ { // n+1: the constructor must refuse, not spin
			for k := 1; k <= c19MaxZones && k <= n; k++ {
				for _, comp := range c19Compositions(n, k) {
					out = append(out, c19Config{sizes: comp, rf: rf})
					if k >= 2 {
						out = append(out, c19Config{sizes: comp, rf: rf, unnamed: true})
					}
				}
			}
		}
	}
	return out
}

// c19DupSpace: configurations that list 1..2 endpoints twice (2..6 distinct endpoints in <= 3 zones),
// RF 1..listed+1. The distinct count is below the listed count, which is what the constructor's
// "not enough endpoints" guard looks at.
func c19DupSpace() []c19Config {
	var out []c19Config
	for n := 1; n <= 6; n++ {
		for dups := 1; dups <= 2 && dups <= n; dups++ {
			for rf := 1; rf <= n+dups+1; rf++ {
				for k := 1; k <= 3 && k <= n; k++ {
					for _, comp := range c19Compositions(n, k) {
						out = append(out, c19Config{sizes: comp, rf: rf, dups: dups})
					}
				}
			}
		}
	}
	return out
}

func c19Series(i int) *prompb.TimeSeries {
	return &prompb.TimeSeries{Labels: []labelpb.ZLabel{{Name: "__name__", Value: "up"}, {Name: "i", Value: strconv.Itoa(i)}}}
}

func c19CPU() time.Duration {
	var ru syscall.Rusage
	if err := syscall.Getrusage(syscall.RUSAGE_SELF, &ru); err != nil {
		return 0
	}
	return time.Duration(ru.Utime.Nano() + ru.Stime.Nano())
}

type c19Result struct {
	text string // "" = fine, otherwise what is wrong with a call that did return
	err  error  // error returned by the constructor / GetN (acceptable outcome)
}

// c19Await runs f in a fresh goroutine and waits for it. hung=true means: not back after c19Deadline
// of wall clock with at least c19MinCPU of process CPU time spent since the start.
func c19Await(f func() c19Result) (res c19Result, hung bool, wall, cpu time.Duration) {
	done := make(chan c19Result, 1)
	t0, c0 := time.Now(), c19CPU()
	go func() {
		defer func() {
			if p := recover(); p != nil {
				done <- c19Result{text: fmt.Sprintf("panic: %v", p)}
			}
		}()
		done <- f()
	}()
	tick := time.NewTicker(100 * time.Millisecond)
	defer tick.Stop()
	for {
		select {
		case res = <-done:
			return res, false, time.Since(t0), c19CPU() - c0
		case <-tick.C:
			wall, cpu = time.Since(t0), c19CPU()-c0
			if wall >= c19Deadline && cpu >= c19MinCPU {
				return c19Result{}, true, wall, cpu
			}
		}
	}
}

func c19Build(c c19Config) c19Result {
	h, err := receive.NewMultiHashring(receive.AlgorithmKetama, uint64(c.rf), []receive.HashringConfig{{Hashring: "h", Endpoints: c.endpoints()}}, prometheus.NewRegistry())
	if err != nil {
		return c19Result{err: err}
	}
	for i := 0; i < 3; i++ {
		for n := 0; n < c.rf; n++ {
			if _, err := h.GetN("tenant", c19Series(i), uint64(n)); err != nil {
				return c19Result{text: fmt.Sprintf("ring was built but GetN(n=%d) fails: %v", n, err)}
			}
		}
	}
	return c19Result{}
}

// ---- phase 2: tenant sub-rings of a zone-unaware shuffle-sharded ring -------------------------

type c19Shard struct {
	sizes  []int
	rf     int
	shard  int
	tenant string
}

func (s c19Shard) String() string {
	return fmt.Sprintf("%s shuffle-sharding{shard_size=%d zone_awareness_disabled} tenant=%q", c19Config{sizes: s.sizes, rf: s.rf}, s.shard, s.tenant)
}

func (s c19Shard) ring(rf int) (receive.Hashring, error) {
	cfg := receive.HashringConfig{Hashring: "h", Endpoints: c19Config{sizes: s.sizes}.endpoints(),
		ShuffleShardingConfig: receive.ShuffleShardingConfig{ShardSize: s.shard, ZoneAwarenessDisabled: true}}
	return receive.NewMultiHashring(receive.AlgorithmKetama, uint64(rf), []receive.HashringConfig{cfg}, prometheus.NewRegistry())
}

// subringZones learns the tenant's shard from a ring with RF=1 (always buildable): the zone sizes of
// the nodes GetN(…,0) hands out over up to 4000 series. Used only to predict the known finding.
func (s c19Shard) subringZones() ([]int, error) {
	h, err := s.ring(1)
	if err != nil {
		return nil, err
	}
	defer h.Close()
	seen := map[receive.Endpoint]bool{}
	for i := 0; i < 4000 && len(seen) < s.shard; i++ {
		e, err := h.GetN(s.tenant, c19Series(i), 0)
		if err != nil {
			return nil, err
		}
		seen[e] = true
	}
	per := map[string]int{}
	for e := range seen {
		per[e.AZ]++
	}
	var sizes []int
	for _, n := range per {
		sizes = append(sizes, n)
	}
	sort.Ints(sizes)
	return sizes, nil
}

func c19ShardSpace() []c19Shard {
	var out []c19Shard
	for _, sizes := range [][]int{{3, 3}, {3, 2}, {4, 2}, {5, 1}, {4, 1, 1}, {3, 3, 2}} {
		n := c19Config{sizes: sizes}.nodes()
		for rf := 2; rf <= 4; rf++ {
			if rf > c19MaxRF(sizes) {
				continue // the base ring itself cannot be built: phase 1
			}
			for shard := rf; shard < n; shard++ {
				for t := 0; t < 4; t++ {
					out = append(out, c19Shard{sizes: sizes, rf: rf, shard: shard, tenant: "tenant-" + strconv.Itoa(t)})
				}
			}
		}
	}
	return out
}

func c19AskShard(s c19Shard) c19Result {
	h, err := s.ring(s.rf)
	if err != nil {
		return c19Result{err: err}
	}
	defer h.Close()
	for i := 0; i < 3; i++ {
		for n := 0; n < s.rf; n++ {
			if _, err := h.GetN(s.tenant, c19Series(i), uint64(n)); err != nil {
				return c19Result{err: err}
			}
		}
	}
	return c19Result{}
}

func c19Shard2() (int, int) {
	k, _ := strconv.Atoi(os.Getenv("VERIF_SHARD"))
	n, _ := strconv.Atoi(os.Getenv("VERIF_SHARDS"))
	if n < 1 {
		n = 1
	}
	return k % n, n
}

func TestVerifC19(t *testing.T) {
	rec := kit.For(t, "C19")
	known := kit.KnownFindings("C19")[sigC19]
	shard, shards := c19Shard2()
	space := c19Space()
	rec.Note("phase 1 space: %d configurations (1..%d endpoints, compositions into <=%d zones, RF 1..n+1)", len(space), c19MaxNodes, c19MaxZones)

	// which configurations does this process evaluate?
	var todo []c19Config
	if kit.Tier() == "thorough" {
		for i, c := range space {
			if i%shards == shard {
				todo = append(todo, c)
			}
		}
	} else {
		var rest []c19Config
		for _, c := range space {
			if c.nodes() <= c19QuickFull {
				todo = append(todo, c)
			} else {
				rest = append(rest, c)
			}
		}
		want := kit.Scale("C19SAMPLE", 150, 150)
		step := len(rest) / want
		if step < 1 {
			step = 1
		}
		for i := int(kit.Seed() % int64(step)); i < len(rest); i += step {
			todo = append(todo, rest[i])
		}
	}

	hang := func(what string, wall, cpu time.Duration) {
		// The spinning goroutine stays behind; the failed test lets the process end.
		rec.Violation(t, "%s did not return within %s (wall %.1fs, process CPU %.1fs): construction hangs", what, c19Deadline, wall.Seconds(), cpu.Seconds())
	}

	// configurations with endpoints listed twice: all of them when n+dups <= 6 (quick) / all (thorough, by shard)
	for i, c := range c19DupSpace() {
		if kit.Tier() == "thorough" {
			if i%shards == shard {
				todo = append(todo, c)
			}
		} else if c.nodes()+c.dups <= 5 || i%7 == int(kit.Seed()%7) {
			todo = append(todo, c)
		}
	}

	for _, c := range todo {
		feasible := c.rf <= c19MaxRF(c.sizes) || c.rf > c.nodes() // RF > n is refused before the loop
		if c.dups > 0 {
			feasible = true // duplicates get their own endpoint index: never part of the (repaired) finding's class
		}
		if known && !feasible {
			rec.Excluded(sigC19)
			continue
		}
		res, hung, wall, cpu := c19Await(func() c19Result { return c19Build(c) })
		if hung {
			hang("NewMultiHashring(ketama, "+c.String()+")", wall, cpu)
		}
		if res.text != "" {
			rec.Violation(t, "NewMultiHashring(ketama, %s): %s", c, res.text)
		}
		classes := []string{fmt.Sprintf("zones-%d", len(c.sizes))}
		if res.err != nil {
			classes = append(classes, "constructor-error")
		} else {
			classes = append(classes, "ring-built")
		}
		if len(c.sizes) >= 2 && c.rf == c19MaxRF(c.sizes) {
			classes = append(classes, "rf-at-zone-capacity")
		}
		if !feasible {
			classes = append(classes, "rf-above-zone-capacity")
		}
		if c.unnamed {
			classes = append(classes, "unnamed-zone")
		}
		if c.dups > 0 {
			classes = append(classes, "endpoint-listed-twice")
			if c.rf > c.nodes() && c.rf <= c.nodes()+c.dups {
				classes = append(classes, "rf-between-distinct-and-listed-count")
			}
		}
		rec.Case(c.String(), len(c.sizes) >= 2 && c.rf > len(c.sizes) && c.rf <= c.nodes(), classes...)
	}

	// phase 2: sub-rings (small table, evaluated by shard 0 only)
	if shard == 0 {
		for _, s := range c19ShardSpace() {
			zones, err := s.subringZones()
			if err != nil {
				rec.Violation(t, "%s: RF=1 ring failed: %v", s, err)
			}
			feasible := s.rf <= c19MaxRF(zones)
			if known && !feasible {
				rec.Excluded(sigC19)
				continue
			}
			res, hung, wall, cpu := c19Await(func() c19Result { return c19AskShard(s) })
			if hung {
				hang(fmt.Sprintf("GetN on %s (tenant sub-ring zone sizes %v)", s, zones), wall, cpu)
			}
			if res.text != "" {
				rec.Violation(t, "%s: %s", s, res.text)
			}
			classes := []string{"shuffle-shard-subring"}
			if res.err != nil {
				classes = append(classes, "subring-error")
			}
			if len(zones) >= 2 {
				classes = append(classes, "subring-multizone")
			}
			rec.Case(s.String()+fmt.Sprintf(" sub=%v", zones), len(zones) >= 2 && s.rf > len(zones), classes...)
		}
	}
	rec.Exhaustive(kit.Tier() == "thorough")

	// saved inputs of the known finding, last and concurrently: they leave spinning goroutines.
	if !known || shard != 0 {
		// not known: F7 (A:3 B:1 RF=4) is part of phase 1 (n<=6 is always evaluated) and was asserted there.
		return
	}
	f7 := c19Config{sizes: []int{3, 1}, rf: 4}
	type saved struct {
		what string
		run  func() c19Result
	}
	inputs := []saved{{"NewMultiHashring(ketama, " + f7.String() + ")", func() c19Result { return c19Build(f7) }}}
	// zones A:3 B:3, RF=4, shard_size=4 without zone awareness: tenant-1 gets 1 node of A and 3 of B.
	sub := c19Shard{sizes: []int{3, 3}, rf: 4, shard: 4, tenant: "tenant-1"}
	subZones, _ := sub.subringZones()
	inputs = append(inputs, saved{fmt.Sprintf("GetN on %s (tenant sub-ring zone sizes %v)", sub, subZones), func() c19Result { return c19AskShard(sub) }})
	type verdict struct {
		i    int
		hung bool
		res  c19Result
	}
	ch := make(chan verdict, len(inputs))
	for i, in := range inputs {
		go func(i int, in saved) {
			res, hung, _, _ := c19Await(in.run)
			ch <- verdict{i, hung, res}
		}(i, in)
	}
	for range inputs {
		v := <-ch
		if v.hung {
			rec.Known(sigC19, inputs[v.i].what+" does not return")
		} else if v.res.text != "" {
			rec.Violation(t, "%s: %s", inputs[v.i].what, v.res.text)
		}
	}
}
