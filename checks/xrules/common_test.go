package xrules

import (
	"fmt"
	"sort"
	"strings"
	"time"

	"github.com/prometheus/prometheus/model/labels"

	"github.com/thanos-io/thanos/pkg/rules/rulespb"
	"github.com/thanos-io/thanos/pkg/store/labelpb"
)

// mLabel is one label of a model rule; templated says that the generator built the value from a
// Go template action ("{{ ... }}"), i.e. Prometheus would not consider it for match[] filtering.
type mLabel struct {
	name, value string
	templated   bool
}

// mRule is the model of one rule as served by one replica (ruler / sidecar).
type mRule struct {
	alert    bool
	name     string
	query    string
	forSecs  float64
	labels   []mLabel // sorted by name, unique names, non-empty values
	state    rulespb.AlertState
	health   string
	lastEval int64 // unix seconds
}

// mGroup is one rule group as served by one replica.
type mGroup struct {
	file, name string
	rules      []mRule
}

type mMatcher struct {
	typ         labels.MatchType
	name, value string
}

func (m mMatcher) String() string {
	return fmt.Sprintf("%s%s%q", m.name, m.typ, m.value)
}

// selector renders one matcher set the way a caller writes it in match[].
func selector(set []mMatcher) string {
	parts := make([]string, len(set))
	for i, m := range set {
		parts[i] = m.String()
	}
	return "{" + strings.Join(parts, ",") + "}"
}

func (r mRule) promLabels() labels.Labels {
	b := labels.NewScratchBuilder(len(r.labels))
	for _, l := range r.labels {
		b.Add(l.name, l.value)
	}
	b.Sort()
	return b.Labels()
}

func (r mRule) toPB() *rulespb.Rule {
	ls := labelpb.ZLabelSet{Labels: labelpb.ZLabelsFromPromLabels(r.promLabels())}
	if r.alert {
		return rulespb.NewAlertingRule(&rulespb.Alert{
			State: r.state, Name: r.name, Query: r.query, DurationSeconds: r.forSecs, Labels: ls,
			Health: r.health, LastEvaluation: time.Unix(r.lastEval, 0).UTC(),
		})
	}
	return rulespb.NewRecordingRule(&rulespb.RecordingRule{
		Name: r.name, Query: r.query, Labels: ls, Health: r.health, LastEvaluation: time.Unix(r.lastEval, 0).UTC(),
	})
}

func (g mGroup) toPB() *rulespb.RuleGroup {
	out := &rulespb.RuleGroup{File: g.file, Name: g.name, Interval: 60}
	for _, r := range g.rules {
		out.Rules = append(out.Rules, r.toPB())
	}
	return out
}

// nonTemplatedGet is the model of "the rule's non-templated labels": absent or templated ⇒ "".
func (r mRule) nonTemplatedGet(name string) string {
	for _, l := range r.labels {
		if l.name == name && !l.templated {
			return l.value
		}
	}
	return ""
}

// setVerdict says whether every matcher of one selector set matches the rule's non-templated labels.
// The matcher evaluation is Prometheus' own labels.Matcher (not Thanos code).
func setVerdict(set []mMatcher, r mRule) bool {
	for _, m := range set {
		pm, err := labels.NewMatcher(m.typ, m.name, m.value)
		if err != nil {
			panic(err) // the generator only draws valid regexes
		}
		if !pm.Matches(r.nonTemplatedGet(m.name)) {
			return false
		}
	}
	return true
}

// verdicts returns one verdict per selector set.
func verdicts(sets [][]mMatcher, r mRule) []bool {
	out := make([]bool, len(sets))
	for i, s := range sets {
		out[i] = setVerdict(s, r)
	}
	return out
}

// wanted is the Prometheus rule: no sets ⇒ every rule; else at least one set fully matches.
func wanted(v []bool) bool {
	if len(v) == 0 {
		return true
	}
	for _, b := range v {
		if b {
			return true
		}
	}
	return false
}

func mixed(v []bool) bool {
	for i := 1; i < len(v); i++ {
		if v[i] != v[0] {
			return true
		}
	}
	return false
}

// ruleKey is the identity under which replicas of one rule collapse: type, name, labels without the
// replica labels, query and (alerts) the for-duration.
func ruleKey(alert bool, name string, ls labels.Labels, query string, forSecs float64, replica map[string]bool) string {
	var sb strings.Builder
	if alert {
		sb.WriteString("alert|")
	} else {
		sb.WriteString("record|")
	}
	sb.WriteString(name)
	sb.WriteString("|{")
	ls.Range(func(l labels.Label) {
		if replica[l.Name] {
			return
		}
		fmt.Fprintf(&sb, "%s=%q,", l.Name, l.Value)
	})
	sb.WriteString("}|")
	sb.WriteString(query)
	if alert {
		fmt.Fprintf(&sb, "|for=%v", forSecs)
	}
	return sb.String()
}

func (r mRule) key(replica map[string]bool) string {
	return ruleKey(r.alert, r.name, r.promLabels(), r.query, r.forSecs, replica)
}

// instance is what distinguishes replicas of one rule (none of it is part of the identity).
func (r mRule) instance() string {
	st := ""
	if r.alert {
		st = r.state.String()
	}
	return fmt.Sprintf("%s/%s/%d", st, r.health, r.lastEval)
}

func pbKeyAndInstance(r *rulespb.Rule, replica map[string]bool) (string, string) {
	if a := r.GetAlert(); a != nil {
		// replica == nil: keep whatever labels the output still carries, so that a replica label
		// that was not removed shows up as a key mismatch.
		return ruleKey(true, a.Name, r.GetLabels(), a.Query, a.DurationSeconds, nil),
			fmt.Sprintf("%s/%s/%d", a.State.String(), a.Health, a.LastEvaluation.Unix())
	}
	rec := r.GetRecording()
	return ruleKey(false, rec.Name, r.GetLabels(), rec.Query, 0, nil), fmt.Sprintf("/%s/%d", rec.Health, rec.LastEvaluation.Unix())
}

func renderRule(r mRule) string {
	var sb strings.Builder
	if r.alert {
		fmt.Fprintf(&sb, "alert:%s[%s for=%v %s]", r.name, r.query, r.forSecs, r.state)
	} else {
		fmt.Fprintf(&sb, "record:%s[%s]", r.name, r.query)
	}
	sb.WriteString("{")
	for i, l := range r.labels {
		if i > 0 {
			sb.WriteString(",")
		}
		fmt.Fprintf(&sb, "%s=%q", l.name, l.value)
	}
	fmt.Fprintf(&sb, "}@%d/%s", r.lastEval, r.health)
	return sb.String()
}

func renderCase(groups []mGroup, sets [][]mMatcher, replicaLabels []string) string {
	var sb strings.Builder
	sb.WriteString("match[]=")
	for _, s := range sets {
		sb.WriteString(selector(s))
		sb.WriteString(" ")
	}
	fmt.Fprintf(&sb, "replicaLabels=%v groups=", replicaLabels)
	for _, g := range groups {
		fmt.Fprintf(&sb, "(%s;%s:", g.file, g.name)
		for _, r := range g.rules {
			sb.WriteString(" ")
			sb.WriteString(renderRule(r))
		}
		sb.WriteString(") ")
	}
	return sb.String()
}

func sortedKeys(m map[string]bool) []string {
	out := make([]string, 0, len(m))
	for k := range m {
		out = append(out, k)
	}
	sort.Strings(out)
	return out
}
