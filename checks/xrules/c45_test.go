package xrules

// C45 Rules API label filters follow Prometheus semantics.
// Domain: rule groups (recording / alerting rules, labels partly templated) served by 1..3 replicas
// that differ in replica labels, alert state, health and evaluation time; 0..3 match[] selector sets;
// a replica label list. Everything goes through rules.NewGRPCClientWithDedup(fake, replicaLabels).Rules.
// Oracle (model, independent of pkg/rules): a served rule is wanted iff there is no selector set or at
// least one set whose matchers all match the rule's non-templated labels (absent / templated ⇒ "");
// the answer must contain, per group, exactly one rule per identity (type, name, labels without the
// replica labels, query, for) of the wanted rules - nothing lost, nothing invented, no duplicates -
// and the surviving copy must be one of the wanted replicas.

import (
	"context"
	"fmt"
	"sort"
	"strings"
	"testing"

	"github.com/prometheus/prometheus/model/labels"
	"pgregory.net/rapid"

	"github.com/thanos-io/thanos/pkg/rules"
	"github.com/thanos-io/thanos/pkg/rules/rulespb"
	"github.com/thanos-io/thanos/verifx/kit"
)

// sigC45SetsAnded: rules.matches returns false as soon as one matcher of ANY set fails, i.e. the
// selector sets are AND-ed; Prometheus ORs them.
const sigC45SetsAnded = "C45/matcher-sets-anded"

type fakeRulesServer struct {
	groups []*rulespb.RuleGroup
}

func (f *fakeRulesServer) Rules(_ *rulespb.RulesRequest, srv rulespb.Rules_RulesServer) error {
	for _, g := range f.groups {
		if err := srv.Send(rulespb.NewRuleGroupRulesResponse(g)); err != nil {
			return err
		}
	}
	return nil
}

type c45Info struct {
	mixedVerdict   bool // some rule has selector sets with different verdicts
	kept, dropped  int  // served rule copies wanted / not wanted
	merged         bool // some identity had >= 2 wanted copies
	templatedMatch bool // a matcher names a label that is templated on some rule
	replicaMatch   bool // a matcher names a replica label
	absentMatch    bool // a matcher names a label some rule does not carry
}

// checkC45 runs one case; it returns a non-empty message on a violation.
func checkC45(groups []mGroup, sets [][]mMatcher, replicaLabels []string) (string, c45Info) {
	var info c45Info
	replica := map[string]bool{}
	for _, l := range replicaLabels {
		replica[l] = true
	}
	// model first: the code under test mutates what it is given.
	want := map[string]map[string]map[string]bool{} // group key -> rule identity -> wanted instances
	for _, g := range groups {
		gk := g.file + ";" + g.name
		for _, r := range g.rules {
			v := verdicts(sets, r)
			if mixed(v) {
				info.mixedVerdict = true
			}
			for _, s := range sets {
				for _, m := range s {
					if replica[m.name] {
						info.replicaMatch = true
					}
					found := false
					for _, l := range r.labels {
						if l.name == m.name {
							found = true
							if l.templated {
								info.templatedMatch = true
							}
						}
					}
					if !found {
						info.absentMatch = true
					}
				}
			}
			if !wanted(v) {
				info.dropped++
				continue
			}
			info.kept++
			if want[gk] == nil {
				want[gk] = map[string]map[string]bool{}
			}
			k := r.key(replica)
			if want[gk][k] == nil {
				want[gk][k] = map[string]bool{}
			} else {
				info.merged = true
			}
			want[gk][k][r.instance()] = true
		}
	}

	srv := &fakeRulesServer{}
	for _, g := range groups {
		srv.groups = append(srv.groups, g.toPB())
	}
	req := &rulespb.RulesRequest{Type: rulespb.RulesRequest_ALL}
	for _, s := range sets {
		req.MatcherString = append(req.MatcherString, selector(s))
	}
	resp, _, err := rules.NewGRPCClientWithDedup(srv, replicaLabels).Rules(context.Background(), req)
	if err != nil {
		return "Rules returned an error: " + err.Error(), info
	}

	got := map[string]map[string]string{} // group key -> identity -> instance
	for _, g := range resp.Groups {
		gk := g.File + ";" + g.Name
		if len(g.Rules) == 0 {
			continue // an empty group carries no rule; the statement is about rules
		}
		if _, dup := got[gk]; dup {
			return fmt.Sprintf("group %q returned twice", gk), info
		}
		got[gk] = map[string]string{}
		for _, r := range g.Rules {
			k, inst := pbKeyAndInstance(r, replica)
			if _, dup := got[gk][k]; dup {
				return fmt.Sprintf("group %q: rule %s returned twice (replicas not deduplicated)", gk, k), info
			}
			got[gk][k] = inst
		}
	}
	// nothing lost
	for gk, rs := range want {
		for k := range rs {
			if _, ok := got[gk][k]; !ok {
				return fmt.Sprintf("group %q: rule %s satisfies a selector set (or no set was given) but was not returned", gk, k), info
			}
		}
	}
	// nothing invented, and the survivor is one of the wanted copies
	for gk, rs := range got {
		for k, inst := range rs {
			insts, ok := want[gk][k]
			if !ok {
				return fmt.Sprintf("group %q: rule %s was returned but no served copy of it satisfies the selectors", gk, k), info
			}
			if !insts[inst] {
				return fmt.Sprintf("group %q: rule %s returned as instance %s which is not one of the wanted copies %v", gk, k, inst, sortedKeys(insts)), info
			}
		}
	}
	return "", info
}

var c45Values = []string{"0", "1", "2"}
// Templated values: "$labels"/"$value" are only defined by the preamble Prometheus prepends at
// expansion time, so parsing them stand-alone fails (⇒ templated); ".Labels.x" and literal actions
// parse fine and are recognised by their node type.
// Control structures ({{ if }}, {{ with }}, {{ range }}) parse stand-alone too and contain no top-level
// action node; they are templates all the same.
var c45Templated = []string{"{{ $labels.x }}", "p-{{ $labels.y }}", "{{ $value }}", "{{ $labels.a }}1", "{{ .Labels.x }}", "1{{ .Value }}", "{{ \"0\" }}", "{{ .Labels.a }}",
	"{{ if gt .Value 10.0 }}1{{ else }}2{{ end }}", "{{ with .Labels.x }}1{{ end }}", "a{{ range .Labels }}1{{ end }}", "{{ if .Value }}{{ end }}1"}

func genC45Labels(rt *rapid.T) []mLabel {
	var out []mLabel
	for _, n := range []string{"a", "b", "c"} {
		switch rapid.IntRange(0, 5).Draw(rt, "lk-"+n) {
		case 0, 1: // absent
		case 2:
			out = append(out, mLabel{name: n, value: rapid.SampledFrom(c45Templated).Draw(rt, "tv"), templated: true})
		default:
			out = append(out, mLabel{name: n, value: rapid.SampledFrom(c45Values).Draw(rt, "v")})
		}
	}
	return out
}

func withLabel(ls []mLabel, name, value string) []mLabel {
	out := make([]mLabel, 0, len(ls)+1)
	for _, l := range ls {
		if l.name != name {
			out = append(out, l)
		}
	}
	out = append(out, mLabel{name: name, value: value})
	sort.Slice(out, func(i, j int) bool { return out[i].name < out[j].name })
	return out
}

func genC45Groups(rt *rapid.T) []mGroup {
	type gid struct{ file, name string }
	ids := []gid{{"f1", "g1"}, {"f1", "g2"}, {"f2", "g1"}}
	nGroups := rapid.IntRange(1, 3).Draw(rt, "groups")
	var served []mGroup
	for gi := 0; gi < nGroups; gi++ {
		nRules := rapid.IntRange(1, 4).Draw(rt, "rules")
		logical := make([]mRule, nRules)
		for i := range logical {
			r := mRule{
				alert:  rapid.Bool().Draw(rt, "alert"),
				name:   rapid.SampledFrom([]string{"r1", "r2"}).Draw(rt, "name"),
				query:  rapid.SampledFrom([]string{"up", "up == 0"}).Draw(rt, "query"),
				labels: genC45Labels(rt),
			}
			if r.alert {
				r.forSecs = float64(rapid.SampledFrom([]int{0, 60}).Draw(rt, "for"))
			}
			logical[i] = r
		}
		nReplicas := rapid.IntRange(1, 3).Draw(rt, "replicas")
		withReplicaLabel := rapid.IntRange(0, 4).Draw(rt, "withReplicaLabel") > 0
		for ri := 0; ri < nReplicas; ri++ {
			g := mGroup{file: ids[gi].file, name: ids[gi].name}
			for _, lr := range logical {
				if nReplicas > 1 && rapid.IntRange(0, 5).Draw(rt, "missing") == 0 {
					continue // this replica has not loaded the rule (yet)
				}
				r := lr
				r.labels = append([]mLabel(nil), lr.labels...)
				if withReplicaLabel {
					r.labels = withLabel(r.labels, "replica", fmt.Sprintf("r%d", ri))
				}
				if rapid.IntRange(0, 3).Draw(rt, "r2") == 0 {
					r.labels = withLabel(r.labels, "r2", rapid.SampledFrom([]string{"x", "y"}).Draw(rt, "r2v"))
				}
				if r.alert {
					r.state = rulespb.AlertState(rapid.IntRange(1, 3).Draw(rt, "state"))
				}
				r.health = rapid.SampledFrom([]string{"ok", "err", "unknown"}).Draw(rt, "health")
				r.lastEval = 1600000000 + int64(rapid.IntRange(0, 5).Draw(rt, "eval"))
				g.rules = append(g.rules, r)
			}
			if len(g.rules) > 1 && rapid.Bool().Draw(rt, "shuffle") {
				g.rules = rapid.Permutation(g.rules).Draw(rt, "perm")
			}
			served = append(served, g)
		}
	}
	if len(served) > 1 && rapid.Bool().Draw(rt, "shuffleGroups") {
		served = rapid.Permutation(served).Draw(rt, "gperm")
	}
	return served
}

func genC45Sets(rt *rapid.T) [][]mMatcher {
	n := rapid.SampledFrom([]int{0, 1, 1, 2, 2, 2, 3}).Draw(rt, "sets")
	sets := make([][]mMatcher, n)
	for i := range sets {
		k := rapid.SampledFrom([]int{1, 1, 1, 2, 2, 3}).Draw(rt, "matchers")
		for j := 0; j < k; j++ {
			m := mMatcher{
				typ:  rapid.SampledFrom([]labels.MatchType{labels.MatchEqual, labels.MatchEqual, labels.MatchNotEqual, labels.MatchRegexp, labels.MatchRegexp, labels.MatchNotRegexp}).Draw(rt, "mt"),
				name: rapid.SampledFrom([]string{"a", "a", "a", "b", "b", "c", "c", "replica", "replica", "r2", "zz", "__name__"}).Draw(rt, "mn"),
			}
			switch {
			case m.name == "replica":
				m.value = rapid.SampledFrom([]string{"r0", "r1", "r0|r2", "", ".+"}).Draw(rt, "mv")
			case m.name == "r2":
				m.value = rapid.SampledFrom([]string{"x", "y", "", ".*"}).Draw(rt, "mv")
			default:
				m.value = rapid.SampledFrom([]string{"0", "1", "2", "0|1", "1|2", "", ".+", ".*", "x"}).Draw(rt, "mv")
			}
			sets[i] = append(sets[i], m)
		}
	}
	return sets
}

func TestVerifC45(t *testing.T) {
	rec := kit.For(t, "C45")
	known := kit.KnownFindings("C45")

	// Regression inputs (plain, no rapid).
	{
		// F13: two selector sets, the rule satisfies the first one only.
		groups := []mGroup{{file: "f1", name: "g1", rules: []mRule{{name: "r1", query: "up", labels: []mLabel{{name: "a", value: "1"}}, health: "ok", lastEval: 1600000000}}}}
		sets := [][]mMatcher{{{labels.MatchEqual, "a", "1"}}, {{labels.MatchEqual, "a", "2"}}}
		if msg, _ := checkC45(groups, sets, nil); msg != "" {
			if known[sigC45SetsAnded] {
				rec.Known(sigC45SetsAnded, `match[]={a="1"}&match[]={a="2"} on rule r1{a="1"}: `+msg)
			} else {
				rec.Violation(t, "regression F13 (selector sets AND-ed): %s", msg)
			}
		}
		// single set, templated label is ignored by the filter, replicas collapse to the firing copy.
		groups = []mGroup{
			{file: "f1", name: "g1", rules: []mRule{{alert: true, name: "r1", query: "up", labels: []mLabel{{name: "a", value: "{{ $labels.x }}", templated: true}, {name: "b", value: "1"}, {name: "replica", value: "r0"}}, state: rulespb.AlertState_PENDING, health: "ok", lastEval: 1600000001}}},
			{file: "f1", name: "g1", rules: []mRule{{alert: true, name: "r1", query: "up", labels: []mLabel{{name: "a", value: "{{ $labels.x }}", templated: true}, {name: "b", value: "1"}, {name: "replica", value: "r1"}}, state: rulespb.AlertState_FIRING, health: "ok", lastEval: 1600000000}}},
		}
		if msg, _ := checkC45(groups, [][]mMatcher{{{labels.MatchEqual, "a", ""}, {labels.MatchEqual, "b", "1"}}}, []string{"replica"}); msg != "" {
			rec.Violation(t, "regression templated-label + replicas: %s", msg)
		}
		// a label whose template parses on its own ({{ .Labels.x }}) is templated too: a=~".+" must not see it.
		groups = []mGroup{{file: "f1", name: "g1", rules: []mRule{
			{name: "r1", query: "up", labels: []mLabel{{name: "a", value: "{{ .Labels.x }}", templated: true}}, health: "ok", lastEval: 1600000000},
			{name: "r2", query: "up", labels: []mLabel{{name: "a", value: "1"}}, health: "ok", lastEval: 1600000000},
		}}}
		if msg, _ := checkC45(groups, [][]mMatcher{{{labels.MatchRegexp, "a", ".+"}}}, nil); msg != "" {
			rec.Violation(t, "regression parseable template: %s", msg)
		}
	}

	rec.Check(t, func(rt *rapid.T) {
		groups := genC45Groups(rt)
		sets := genC45Sets(rt)
		replicaLabels := rapid.SampledFrom([][]string{nil, {"replica"}, {"replica"}, {"replica", "r2"}, {"r2"}, {"replica", "a"}}).Draw(rt, "replicaLabels")

		if known[sigC45SetsAnded] && len(sets) >= 2 {
			// The known defect is reachable exactly when some rule gets different verdicts from
			// different sets (then AND != OR). Such cases are left out; everything else - also
			// several sets that agree on every rule - is still asserted.
			for _, g := range groups {
				for _, r := range g.rules {
					if mixed(verdicts(sets, r)) {
						rec.Excluded(sigC45SetsAnded)
						return
					}
				}
			}
		}

		key := renderCase(groups, sets, replicaLabels)
		msg, info := checkC45(groups, sets, replicaLabels)
		if msg != "" {
			rt.Fatalf("C45 violated: %s\ncase: %s", msg, key)
		}
		classes := []string{fmt.Sprintf("sets-%d", len(sets))}
		if info.mixedVerdict {
			classes = append(classes, "sets-with-different-verdicts")
		}
		if info.kept > 0 && info.dropped > 0 {
			classes = append(classes, "some-kept-some-dropped")
		} else if info.dropped > 0 {
			classes = append(classes, "all-dropped")
		}
		if info.merged {
			classes = append(classes, "replicas-merged")
		}
		if info.templatedMatch {
			classes = append(classes, "matcher-on-templated-label")
		}
		if info.replicaMatch {
			classes = append(classes, "matcher-on-replica-label")
		}
		if info.absentMatch {
			classes = append(classes, "matcher-on-absent-label")
		}
		if len(replicaLabels) > 0 {
			classes = append(classes, "dedup-by-"+strings.Join(replicaLabels, "+"))
		}
		nontrivial := len(sets) >= 1 && (info.mixedVerdict || (info.kept > 0 && info.dropped > 0))
		rec.Case(key, nontrivial, classes...)
	})
}
